/-
  C06 — sessions in which the style TRANSFORMATION is a value with a hash function (`Ptk.Model.C06Tr`):

    trHash_determines_apply      equal `invalidation_hash()` ⇒ equal `transform_attrs` — for Dummy / Conditional /
                                 Dynamic / merged transformations over leaves whose hash is their identity
                                 (PROVED here for the modelled classes, not assumed)
    cond_hash_needs_filter_value a conditional hash that ignores the value of the filter does not have this property
    encH_injective, trWorld_rawAt  the hash as the `tk` key of the renderer model; what the model's world computes at
                                 that key is what the transformation object computes
    tr_key_current, tr_differ_caches_current, cache_consistent_tr, render_refines_tr, incremental_eq_scratch_tr
                                 `cache_consistent` / `render_refines` / incremental = scratch for such sessions
-/
import Mathlib.Logic.Function.Basic
import Ptk.Model.C06Tr
import Ptk.Props.C06Full
namespace Ptk.C06
open Ptk.Py

variable (cw : Char → Nat)

/-- what a transformation does is what its hash stands for -/
theorem apply_hash (lf : Nat → Attrs → Attrs) : ∀ (t : Tr) (a : Attrs), t.apply lf a = t.hash.apply lf a := by
  intro t
  induction t with
  | dummy => intro a; rfl
  | leaf i => intro a; rfl
  | cond b t ih => intro a; simp only [Tr.apply, Tr.hash, TrHash.apply, ih]
  | dynNone => intro a; rfl
  | dyn t ih => intro a; simp only [Tr.apply, Tr.hash, ih]
  | mnil => intro a; rfl
  | mcons t r iht ihr => intro a; simp only [Tr.apply, Tr.hash, TrHash.apply, iht, ihr]

/-- **trHash_determines_apply** — the hypothesis of the renderer's invalidation test, as a theorem for the modelled
    classes: two transformations (in their current state: filter values, dynamic targets) with equal
    `invalidation_hash()` transform every `Attrs` alike. -/
theorem trHash_determines_apply (lf : Nat → Attrs → Attrs) (t1 t2 : Tr) (h : t1.hash = t2.hash) :
    t1.apply lf = t2.apply lf := by
  funext a
  rw [apply_hash lf t1 a, apply_hash lf t2 a, h]

/-- a hash for conditional transformations that does not look at the value of the filter -/
def badHash : Tr → TrHash
  | .dummy => .dummy
  | .leaf i => .obj i
  | .cond _ t => .pair true (badHash t)
  | .dynNone => .dummy
  | .dyn t => badHash t
  | .mnil => .tnil
  | .mcons t rest => .tcons (badHash t) (badHash rest)

/-- **the conditional hash must contain the VALUE of the filter**: with a hash that ignores it, a transformation
    whose condition flipped has the same hash but transforms differently (leaf 0: reverse video) -/
theorem cond_hash_needs_filter_value :
    badHash (.cond true (.leaf 0)) = badHash (.cond false (.leaf 0)) ∧
    (Tr.cond true (.leaf 0)).apply (fun _ a => { a with reverse := !a.reverse }) Attrs.dflt ≠
      (Tr.cond false (.leaf 0)).apply (fun _ a => { a with reverse := !a.reverse }) Attrs.dflt ∧
    (Tr.cond true (.leaf 0)).hash ≠ (Tr.cond false (.leaf 0)).hash := by
  decide

/-! ### the hash as the key of the renderer model -/

/-- the hash as a number (`AppSt.tk`, `RFull.transHash`) -/
def encH : TrHash → Nat
  | .dummy => Nat.pair 0 0
  | .obj i => Nat.pair 1 i
  | .pair b h => Nat.pair 2 (Nat.pair (if b then 1 else 0) (encH h))
  | .tnil => Nat.pair 3 0
  | .tcons h r => Nat.pair 4 (Nat.pair (encH h) (encH r))

theorem pair_inj {a b c d : Nat} (h : Nat.pair a b = Nat.pair c d) : a = c ∧ b = d := by
  have := congrArg Nat.unpair h
  simpa [Nat.unpair_pair] using this

theorem encH_injective : Function.Injective encH := by
  intro x
  induction x with
  | dummy =>
    intro y h
    cases y <;> simp only [encH] at h <;> first | rfl | (have := (pair_inj h).1; omega)
  | obj i =>
    intro y h
    cases y <;> simp only [encH] at h <;> first
      | (have := (pair_inj h).2; subst this; rfl) | (have := (pair_inj h).1; omega)
  | pair b x ih =>
    intro y h
    cases y with
    | pair c y' =>
      simp only [encH] at h
      obtain ⟨h1, h2⟩ := pair_inj (pair_inj h).2
      have := ih h2
      subst this
      cases b <;> cases c <;> simp at h1 <;> rfl
    | _ => simp only [encH] at h; have := (pair_inj h).1; omega
  | tnil =>
    intro y h
    cases y <;> simp only [encH] at h <;> first | rfl | (have := (pair_inj h).1; omega)
  | tcons x r ihx ihr =>
    intro y h
    cases y with
    | tcons y' r' =>
      simp only [encH] at h
      obtain ⟨h1, h2⟩ := pair_inj (pair_inj h).2
      rw [ihx h1, ihr h2]
    | _ => simp only [encH] at h; have := (pair_inj h).1; omega

instance : Nonempty TrHash := ⟨.dummy⟩

/-- the hash a key stands for -/
noncomputable def decH : Nat → TrHash := Function.invFun encH

theorem decH_encH (h : TrHash) : decH (encH h) = h :=
  Function.leftInverse_invFun encH_injective h

/-- the world of a session whose transformation is a `Tr`: style sheet `sk` gives `styleAt sk s` for style string
    `s`, the transformation whose hash has key `tk` is applied to it -/
noncomputable def trWorld (styleAt : Nat → Nat → Attrs) (lf : Nat → Attrs → Attrs) (enc : Nat → Attrs → Attrs) : World :=
  ⟨fun sk tk s => (decH tk).apply lf (styleAt sk s), enc⟩

/-- **trWorld_rawAt** — at the key of a transformation's hash the renderer model computes exactly what the
    transformation object computes (this is where "equal hash ⇒ equal transformation" is used) -/
theorem trWorld_rawAt (styleAt : Nat → Nat → Attrs) (lf : Nat → Attrs → Attrs) (enc : Nat → Attrs → Attrs)
    (t : Tr) (sk s : Nat) :
    (trWorld styleAt lf enc).rawAt sk (encH t.hash) s = t.apply lf (styleAt sk s) := by
  simp only [trWorld, decH_encH, apply_hash]

theorem hashApply_plain (lf : Nat → Attrs → Attrs) (hl : ∀ i a, a.hasStyle = false → (lf i a).hasStyle = false) :
    ∀ (h : TrHash) (a : Attrs), a.hasStyle = false → (h.apply lf a).hasStyle = false := by
  intro h
  induction h with
  | dummy => intro a ha; exact ha
  | obj i => intro a ha; exact hl i a ha
  | pair b h ih => intro a ha; simp only [TrHash.apply]; split; exact ih a ha; exact ha
  | tnil => intro a ha; exact ha
  | tcons h r ihh ihr => intro a ha; exact ihr _ (ihh a ha)

/-- the side conditions of the differ theorems hold when the style sheets keep the default char's style plain and
    the leaf transformations keep plain attributes plain (`SwapLightAndDarkStyleTransformation` does;
    `ReverseStyleTransformation` and `SetDefaultColorStyleTransformation` do not) -/
theorem trWorldOk (styleAt : Nat → Nat → Attrs) (lf : Nat → Attrs → Attrs) (enc : Nat → Attrs → Attrs)
    (hs : ∀ sk, (styleAt sk 1).hasStyle = false)
    (hl : ∀ i a, a.hasStyle = false → (lf i a).hasStyle = false)
    (he : ∀ d a, a.hasStyle = false → (enc d a).hasStyle = false) : WorldOk (trWorld styleAt lf enc) :=
  ⟨fun sk tk => hashApply_plain lf hl _ _ (hs sk), he⟩

/-! ### sessions -/

/-- an operation of a session whose transformation is a value: the transformation changes its state (a filter
    flips, a dynamic target is replaced, another object is installed), or any other operation -/
inductive TOp
  | setTr (t : Tr)
  | op (o : FOp)

/-- what the renderer sees: only the hash -/
def TOp.toF : TOp → FOp
  | .setTr t => .setTrans (encH t.hash)
  | .op o => o

/-- the other operations do not touch the transformation -/
def TOp.ok : TOp → Prop
  | .setTr _ => True
  | .op (.setTrans _) => False
  | .op _ => True

/-- the transformation in force after the operations -/
def curTr : Tr → List TOp → Tr
  | t, [] => t
  | _, .setTr t' :: ops => curTr t' ops
  | t, .op _ :: ops => curTr t ops

theorem stepF_tk (wd : World) (fs : Bool) (st : FSt) (o : FOp) (h : ∀ k, o ≠ .setTrans k) :
    (stepF wd fs st o).1.app.tk = st.app.tk := by
  cases o <;> first
    | rfl
    | exact absurd rfl (h _)
    | (simp only [stepF]; split <;> rfl)

/-- **tr_key_current** — throughout a session the renderer model's transformation key is the hash of the
    transformation in force -/
theorem tr_key_current (wd : World) (fs : Bool) : ∀ (ops : List TOp) (st : FSt) (t0 : Tr),
    st.app.tk = encH t0.hash → (∀ o ∈ ops, o.ok) →
    (runF wd fs st (ops.map TOp.toF)).app.tk = encH (curTr t0 ops).hash := by
  intro ops
  induction ops with
  | nil => intro st t0 h _; exact h
  | cons o ops ih =>
    intro st t0 h hok
    have hrest : ∀ o' ∈ ops, o'.ok := fun o' ho' => hok o' (by simp [ho'])
    cases o with
    | setTr t =>
      simp only [List.map_cons, runF, TOp.toF, curTr]
      exact ih _ t rfl hrest
    | op o =>
      simp only [List.map_cons, runF, TOp.toF, curTr]
      apply ih _ t0 _ hrest
      have hne : ∀ k, o ≠ .setTrans k := by
        intro k hk; subst hk; exact hok (.op (.setTrans k)) (by simp)
      rw [stepF_tk wd fs st o hne]; exact h

/-- **cache_consistent_tr** — `cache_consistent` for sessions whose transformation is a value with a hash -/
theorem cache_consistent_tr (styleAt : Nat → Nat → Attrs) (lf : Nat → Attrs → Attrs) (enc : Nat → Attrs → Attrs)
    (fs : Bool) (ops : List TOp) (st : FSt) (inv : FInv (trWorld styleAt lf enc) st.r) :
    FInv (trWorld styleAt lf enc) (runF (trWorld styleAt lf enc) fs st (ops.map TOp.toF)).r :=
  cache_consistent _ fs _ st inv

/-- **tr_differ_caches_current** — whenever the differ runs in such a session (from a new `Renderer`), the two
    dictionaries it is given agree with the transformation IN FORCE applied to the current style sheet: every stored
    `Attrs`, every stored has-style flag, and whatever a miss computes -/
theorem tr_differ_caches_current (styleAt : Nat → Nat → Attrs) (lf : Nat → Attrs → Attrs) (enc : Nat → Attrs → Attrs)
    (fs b : Bool) (a : AppSt) (t0 : Tr) (ha : a.tk = encH t0.hash) (ops : List TOp) (hok : ∀ o ∈ ops, o.ok) :
    CsOk (trWorld styleAt lf enc)
      (fun s => (curTr t0 ops).apply lf
        (styleAt (runF (trWorld styleAt lf enc) fs ⟨a, (RFull.init b).1⟩ (ops.map TOp.toF)).app.sk s))
      ((runF (trWorld styleAt lf enc) fs ⟨a, (RFull.init b).1⟩ (ops.map TOp.toF)).r.cachesFor
        (runF (trWorld styleAt lf enc) fs ⟨a, (RFull.init b).1⟩ (ops.map TOp.toF)).app).1 := by
  have h := differ_caches_current (trWorld styleAt lf enc) fs b a (ops.map TOp.toF)
  have hk := tr_key_current (trWorld styleAt lf enc) fs ops ⟨a, (RFull.init b).1⟩ t0 ha hok
  have : (trWorld styleAt lf enc).rawAt
      (runF (trWorld styleAt lf enc) fs ⟨a, (RFull.init b).1⟩ (ops.map TOp.toF)).app.sk
      (runF (trWorld styleAt lf enc) fs ⟨a, (RFull.init b).1⟩ (ops.map TOp.toF)).app.tk =
      fun s => (curTr t0 ops).apply lf
        (styleAt (runF (trWorld styleAt lf enc) fs ⟨a, (RFull.init b).1⟩ (ops.map TOp.toF)).app.sk s) := by
    funext s
    rw [hk]; exact trWorld_rawAt styleAt lf enc _ _ s
  rw [this] at h
  exact h

/-- **render_refines_tr** — in such a session `Renderer.render` makes exactly the calls of the pure differ under
    the transformation in force -/
theorem render_refines_tr (styleAt : Nat → Nat → Attrs) (lf : Nat → Attrs → Attrs) (enc : Nat → Attrs → Attrs)
    (fs : Bool) (F : RFull) (a : AppSt) (t : Tr) (ha : a.tk = encH t.hash) (s : Screen) (isDone : Bool) (pref : Nat)
    (inv : FInv (trWorld styleAt lf enc) F) :
    (F.render (trWorld styleAt lf enc) fs a s isDone pref).cmds =
      (F.toCore.render (a.envP (trWorld styleAt lf enc) fs) s isDone a.mouse (pairKey a.sk a.tk) a.shape).2 ∧
    (a.envP (trWorld styleAt lf enc) fs).rawOf = (fun st => t.apply lf (styleAt a.sk st)) ∧
    FInv (trWorld styleAt lf enc) (F.render (trWorld styleAt lf enc) fs a s isDone pref).st := by
  obtain ⟨r1, _, r3⟩ := render_refines (trWorld styleAt lf enc) fs F a s isDone pref inv
  refine ⟨r1, ?_, r3⟩
  rw [envP_rawOf, ha]
  funext st
  exact trWorld_rawAt styleAt lf enc t a.sk st

/-- **incremental_eq_scratch_tr** — the terminal after any session in which the transformation changes its state
    between renders (and nothing else need invalidate: same style sheet, depth, size, no erase) and that ends with a
    render of `s` is visibly identical to a terminal on which a brand-new `Renderer` draws `s` from scratch under the
    transformation in force. -/
theorem incremental_eq_scratch_tr (styleAt : Nat → Nat → Attrs) (lf : Nat → Attrs → Attrs)
    (enc : Nat → Attrs → Attrs) (fs b : Bool) (w h : Nat) (h1 : cw ' ' = 1)
    (wok : WorldOk (trWorld styleAt lf enc)) (ops : List TOp) (st : FSt) (T : Term) (s : Screen) (pref : Nat)
    (inv : RInv ((trWorld styleAt lf enc).base w h fs) st.r.toCore T) (finv : FInv (trWorld styleAt lf enc) st.r)
    (hw : st.app.w = w) (hh : st.app.h = h)
    (ok : RunOkF cw (OpOk cw ((trWorld styleAt lf enc).base w h fs)) (trWorld styleAt lf enc) fs st T
      (ops.map TOp.toF ++ [.render s pref]))
    (junk : Nat → Nat → TCell) :
    ∀ y x, y < (runFT cw (trWorld styleAt lf enc) fs st T (ops.map TOp.toF ++ [.render s pref])).2.h → x < w →
      ((runFT cw (trWorld styleAt lf enc) fs st T (ops.map TOp.toF ++ [.render s pref])).2.cells y x).norm =
      ((exec cw (Term.fresh w (runFT cw (trWorld styleAt lf enc) fs st T
            (ops.map TOp.toF ++ [.render s pref])).2.h 0 junk)
          ((RFull.init b).1.render (trWorld styleAt lf enc) fs
            (runF (trWorld styleAt lf enc) fs st (ops.map TOp.toF)).app s false pref).cmds).cells y x).norm :=
  (incremental_eq_scratch_full cw (trWorld styleAt lf enc) fs b w h h1 wok (ops.map TOp.toF) st T s pref inv finv
    hw hh ok junk).1

section ExamplesTr

/-- what `PromptSession` builds: the dynamic user transformation merged with a conditional swap of light and dark
    colours; here the condition is on / off -/
def exTrOn : Tr := .mcons (.dyn .dummy) (.mcons (.cond true (.leaf 0)) .mnil)
def exTrOff : Tr := .mcons (.dynNone) (.mcons (.cond false (.leaf 0)) .mnil)

/-- the hash changes when the condition flips (and not when the dynamic target is `None` instead of a dummy) -/
example : exTrOn.hash ≠ exTrOff.hash ∧
    (Tr.mcons (.dyn .dummy) .mnil).hash = (Tr.mcons .dynNone .mnil).hash ∧
    encH exTrOn.hash ≠ encH exTrOff.hash := by
  refine ⟨by decide, by decide, fun h => ?_⟩
  exact absurd (encH_injective h) (by decide)

/-- `tr_key_current` / `curTr` on a session: render, the condition flips, render -/
example (s : Screen) : curTr exTrOff [.op (.render s 1), .setTr exTrOn, .op (.render s 1)] = exTrOn := rfl

/-- an environment in which every style string — also `[transparent]`, the style of `Screen`'s default char —
    is shown in reverse video (what `ReverseStyleTransformation` does) -/
def exEnvRev : Env := ⟨3, 3, false, fun _ _ => { Attrs.dflt with reverse := true }, 0, 8, exEnc⟩
def exEmptyScr : Screen := ⟨[], [], 0, ⟨0, 0⟩, true⟩

/-- **why the default style must be invisible** (`EnvOk.dflt` / `WorldOk.dflt`): when the transformation makes the
    default char's style visible, a row that disappears is overwritten with default chars drawn WITH those
    attributes, whereas a from-scratch draw of the (empty) screen leaves the cell erased: incremental ≠ from scratch.
    (Replayed on the real code with `ReverseStyleTransformation`: known finding of C06.) -/
theorem default_style_visible_breaks :
    ((exec cw1 (exec cw1 exT0 (diff exEnvRev exS1 ⟨0, 0⟩ none none false 0).cmds)
        (diff exEnvRev exEmptyScr ⟨2, 0⟩ (some exS1) none false 3).cmds).cells 0 0).norm ≠
    ((exec cw1 exT0 (diff exEnvRev exEmptyScr ⟨0, 0⟩ none none false 0).cmds).cells 0 0).norm ∧
    (exEnvRev.rawOf 1).hasStyle = true := by
  decide

end ExamplesTr

end Ptk.C06
