/-
  C14 — the proposed repair of the known finding "stale search filter after go_to_history /
  end-of-history" (proposed_fixes/C14-go-to-history-resets-search.diff: `Buffer.go_to_history`
  also sets `history_search_text = None`).  The model contains both variants; which one the key
  level uses follows the tree (`Env.fixG`, probed on every run).  With the repaired jump the
  filter invariant holds in EVERY reachable state, so "back k / forward k returns" holds without
  the exclusion that the unrepaired code needs.
-/
import Ptk.Props.C14Val
set_option linter.unusedSimpArgs false
namespace Ptk.C14
open Ptk.Py

theorem keyOp_not_jump (env : Env) (s : St) (k : Key) (hf : env.fixG = true) :
    (keyOp env s k).isJump = false := by
  cases k
  case enter => cases h : s.ml <;> simp [keyOp, Op.isJump, h]
  case beginHist => simp [keyOp, Op.isJump, hf]
  case endHist => simp [keyOp, Op.isJump, hf]
  case yankNth a =>
    simp only [keyOp]
    rcases yankOp_cases env s a false with ⟨p, k, w, e⟩ | e <;> rw [e] <;> rfl
  case yankLast a =>
    simp only [keyOp]
    rcases yankOp_cases env s a true with ⟨p, k, w, e⟩ | e <;> rw [e] <;> rfl
  all_goals simp [keyOp, Op.isJump]

theorem afterOps_not_jump (o : Out) : ∀ op ∈ afterOps o, op.isJump = false := by
  intro op ho
  cases o <;> simp [afterOps] at ho <;> (try rcases ho with rfl | rfl) <;> (try subst ho) <;> rfl

/-- with the repaired jump every key keeps "the current entry passes the remembered filter" -/
theorem searchInv_keyStep_fixed (v : Validator) (env : Env) (s : St) (k : Key) (hf : env.fixG = true)
    (hw : WF s) (h : SearchInv s) : SearchInv (keyStep v env s k).1 := by
  rw [keyStep_eq_run]
  refine searchInv_run v _ s hw h ?_
  intro op ho
  rcases List.mem_cons.mp ho with rfl | ho
  · exact ⟨keyOp_ok env s k, keyOp_not_jump env s k hf⟩
  · exact ⟨afterOps_ok _ op ho, afterOps_not_jump _ op ho⟩

theorem searchInv_keysRun_fixed (v : Validator) (env : Env) (hf : env.fixG = true) (ks : List Key) :
    ∀ s : St, Inv v s → SearchInv s → SearchInv (keysRun v env s ks) := by
  induction ks with
  | nil => intro s _ h; exact h
  | cons k ks ih =>
    intro s hi h
    exact ih _ (inv_keyStep v env s k hi) (searchInv_keyStep_fixed v env s k hf hi.1 h)

/-- **back_forth_everywhere (repaired go_to_history)** — on a prompt of a PromptSession (emacs
    bindings, any keys including beginning-of-history / end-of-history, edits, accepts that were
    rejected, validations finishing in between): from the state reached, `history_backward(k)`
    followed by `history_forward(k)` with `1 ≤ k ≤` entries available returns to the same entry and
    text — no exclusion. -/
theorem back_forth_everywhere_fixed (v : Validator) (env : Env) (hf : env.fixG = true) (s0 : St) (d : Text)
    (ks : List Key) (k : Int) (h0 : HInv s0) :
    let s := keysRun v env (promptStart s0 d) ks
    1 ≤ k → k ≤ (availBack s : Int) →
    (historyForward (historyBackward s k) k).idx = s.idx ∧
    (historyForward (historyBackward s k) k).text = s.text := by
  intro s hk hav
  obtain ⟨_, _, _, _, p5, p6, _, p8, p9⟩ := next_prompt_clean s0 d h0
  have hinv0 : Inv v (promptStart s0 d) := ⟨p9, vinv_unknown v _ p6, fun _ => p8.2⟩
  have hi : Inv v s := inv_keysRun v env ks _ hinv0
  have hs : SearchInv s := searchInv_keysRun_fixed v env hf ks _ hinv0 (searchInv_none _ p5)
  have hm : historyMatches (setHistorySearch s) s.idx = true := by
    have := (searchInv_iff (setHistorySearch s)).mp (setHistorySearch_inv s hs)
    simpa using this
  obtain ⟨a, _, c, _⟩ := back_forth s k hi.1 hk hav hm
  exact ⟨a, c⟩

/-- the environment of the examples with the repaired jump -/
def exSpFixed : Env := { exSp with fixG := true }

/-- the witness of the known finding (history [ab], prefix search on: Up, x, Up, Esc >, PageUp,
    PageDown): with the repaired jump it ends on the new line it started from; with the code as
    it is it ends on the edited entry "abx" -/
example :
    let s0 := promptStart (St.fresh ["ab".toList] true false) []
    let ks : List Key := [.up 1, .char 'x', .up 1, .endHist, .prevHist 1, .nextHist 1]
    (keysRun (fun _ => none) exSpFixed s0 ks).idx = 1 ∧ (keysRun (fun _ => none) exSpFixed s0 ks).text = [] ∧
    (keysRun (fun _ => none) exSp s0 ks).idx = 0 ∧ (keysRun (fun _ => none) exSp s0 ks).text = "abx".toList := by
  decide

example :
    let ks : List Key := [.up 1, .char 'x', .up 1, .endHist]
    let s := keysRun (fun _ => none) exSpFixed (promptStart (St.fresh ["ab".toList] true false) []) ks
    s.search = none ∧ availBack s = 1 ∧ (historyForward (historyBackward s 1) 1).idx = s.idx := by decide

end Ptk.C14
