/-
  Cross-model agreement, cluster "undo stack, validation, coroutine guard, typeahead, parser glue".

  Part 4c — `Vt100Input.read_keys` (src/prompt_toolkit/input/vt100.py:
  `data = self.stdin_reader.read(); self.vt100_parser.feed(data)`, the collected key presses are
  returned): C03 (`Ptk.C03.Utf8.Inp.readKeys`: `PosixStdinReader.read` on the descriptor, then
  `Ptk.C03.feed`) vs C17 (`Ptk.C17.Paste.step … (.read n)`: the parser of the input object is fed
  the next `n` characters of the pipe, the keys go to the key processor).  C17 does not model the
  reader ("the UTF-8 decoder in front of the parser is C03's"): its pipe holds decoded text, and
  "the read returns `n` characters" stands for whatever `stdin_reader.read()` returned.  With the
  text C03's reader returns as those `n` characters, the parser state and the keys agree
  (corollary of `feed_C03_C17`).
-/
import Ptk.Props.AgreeCtlPaste
import Ptk.Model.C03Read
namespace Ptk.AgreeCtl.Paste
open Ptk.Py Ptk.C17 Ptk.C17.Paste

variable (cfg : C03.Cfg) (κ : C03.Press → Key)

/-- input/vt100.py::Vt100Input.read_keys — `Ptk.C03.Utf8.Inp.readKeys` vs the `.read` event of
    `Ptk.C17.Paste.step` at C03's generator: parser state (projection), remaining pipe, the key presses
    of this read, and what the key processor is given -/
theorem readKeys_C03_C17 (count : Nat) (st : C03.Utf8.Inp) (fd : C03.Utf8.Fd)
    (s : Paste.St Text) (rest : Text)
    (hps : s.ps = proj st.p)
    (hb : s.bytes = (st.rd.read count fd).1.map Char.ofNat ++ rest)
    (hact : Paste.active s.l1 = true) :
    let data := (st.rd.read count fd).1.map Char.ofNat
    let s' := Paste.step (N03 cfg κ) s (.read data.length)
    let st' := (st.readKeys cfg count fd).1
    s'.ps = proj st'.p ∧ s'.bytes = rest ∧
    st'.p.out.map (trP cfg κ) = st.p.out.map (trP cfg κ) ++ (Paste.feed (N03 cfg κ) s.ps data).2 ∧
    s'.l1.kp = processKeys { s.l1.kp with queue := s.l1.kp.queue ++ (Paste.feed (N03 cfg κ) s.ps data).2 } := by
  intro data s' st'
  have hf := feed_C03_C17 cfg κ st.p data
  have hb' : s.bytes = data ++ rest := hb
  have htake : s.bytes.take data.length = data := by rw [hb']; exact List.take_left' rfl
  have hdrop : s.bytes.drop data.length = rest := by rw [hb']; exact List.drop_left' rfl
  have hst : st'.p = C03.feed cfg st.p data := rfl
  simp only [s', Paste.step, hact, Bool.not_true, Bool.false_eq_true, if_false, htake, hdrop, hps, hst]
  exact ⟨hf.1, trivial, hf.2, trivial⟩

end Ptk.AgreeCtl.Paste
