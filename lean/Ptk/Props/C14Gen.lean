/-
  C14 — what the key-level part of the model hard-codes about /repo, re-extracted from the
  current tree on every run (`harness/gen_c14.py` → `Ptk/Gen/C14.lean`) and re-checked here by
  the kernel: which handler every modelled key dispatches to in each mode, the exclusivity of
  history search and complete-while-typing, the members of `ValidationState`, and that the
  PromptSession accept handler keeps the text.
-/
import Ptk.Gen.C14
import Ptk.Props.C14Scan
namespace Ptk.C14

/-- (mode, key, handler) the model stands for: `Key.up` = `_go_up` = `auto_up(count=event.arg)`, … -/
def expectedKeys : List (String × String × String) := [
  ("emacs", "up", "basic.load_basic_bindings._go_up"),
  ("emacs", "down", "basic.load_basic_bindings._go_down"),
  ("emacs", "c-p", "emacs.load_emacs_bindings._prev"),
  ("emacs", "c-n", "emacs.load_emacs_bindings._next"),
  ("emacs", "c-up", "named_commands.previous_history"),
  ("emacs", "c-down", "named_commands.next_history"),
  ("emacs", "pageup", "named_commands.previous_history"),
  ("emacs", "pagedown", "named_commands.next_history"),
  ("emacs", "escape <", "named_commands.beginning_of_history"),
  ("emacs", "escape >", "named_commands.end_of_history"),
  ("emacs", "enter", "prompt.PromptSession._create_prompt_bindings._accept_input"),
  ("emacs", "escape enter", "named_commands.accept_line"),
  ("emacs", "backspace", "named_commands.backward_delete_char"),
  ("emacs", "left", "named_commands.backward_char"),
  ("emacs", "right", "named_commands.forward_char"),
  ("emacs", "c-a", "named_commands.beginning_of_line"),
  ("emacs", "c-e", "named_commands.end_of_line"),
  ("emacs", "any", "named_commands.self_insert"),
  ("emacs", "c-o", "named_commands.operate_and_get_next"),
  ("emacs", "escape c-y", "named_commands.yank_nth_arg"),
  ("emacs", "escape .", "named_commands.yank_last_arg"),
  ("emacs", "escape _", "named_commands.yank_last_arg"),
  ("emacs-ml", "enter", "basic.load_basic_bindings._newline"),
  ("emacs-ml", "escape enter", "named_commands.accept_line"),
  ("emacs-ml", "up", "basic.load_basic_bindings._go_up"),
  ("emacs-ml", "down", "basic.load_basic_bindings._go_down"),
  ("vi-ins", "up", "basic.load_basic_bindings._go_up"),
  ("vi-ins", "down", "basic.load_basic_bindings._go_down"),
  ("vi-ins", "enter", "prompt.PromptSession._create_prompt_bindings._accept_input"),
  ("vi-ins", "backspace", "named_commands.backward_delete_char"),
  ("vi-ins", "escape", "vi.load_vi_bindings._back_to_navigation"),
  ("vi-ins", "any", "named_commands.self_insert"),
  ("vi-nav", "k", "vi.load_vi_bindings._go_up"),
  ("vi-nav", "j", "vi.load_vi_bindings._go_down2"),
  ("vi-nav", "up", "vi.load_vi_bindings._up_in_navigation"),
  ("vi-nav", "down", "vi.load_vi_bindings._go_down"),
  ("vi-nav", "enter", "prompt.PromptSession._create_prompt_bindings._accept_input"),
  ("vi-nav", "escape", "vi.load_vi_bindings._back_to_navigation"),
  ("vi-nav", "i", "vi.load_vi_bindings._i"),
  ("vi-nav", "a", "vi.load_vi_bindings._a"),
  ("vi-nav-arg", "G", "vi.load_vi_bindings._to_nth_history_line"),
  ("vi-ins-ml", "enter", "basic.load_basic_bindings._newline"),
  ("vi-nav-ml", "enter", "named_commands.accept_line")]

/-- every key the model interprets is dispatched to the handler the model follows -/
def keyTableWF (t : List (String × String × String)) : Bool := expectedKeys.all fun e => t.contains e

/-- in a table that is well-formed the dispatch of a modelled key is determined when the table is
    functional (one handler per mode and key) -/
def functional (t : List (String × String × String)) : Bool :=
  t.all fun a => t.all fun b => !(a.1 == b.1 && a.2.1 == b.2.1) || a.2.2 == b.2.2

theorem dispatch_of_wf (t : List (String × String × String)) (h1 : keyTableWF t = true)
    (h2 : functional t = true) (m k h : String) (he : (m, k, h) ∈ expectedKeys)
    (h' : String) (ht : (m, k, h') ∈ t) : h' = h := by
  have hin : (m, k, h) ∈ t := by
    have := List.all_eq_true.mp h1 _ he
    simpa using this
  have := List.all_eq_true.mp (List.all_eq_true.mp h2 _ ht) _ hin
  simpa using this

theorem gen_keys_ok : keyTableWF Gen.C14.keyTable = true ∧ functional Gen.C14.keyTable = true := by
  decide +kernel

example : ("emacs-ml", "enter", "basic.load_basic_bindings._newline") ∈ Gen.C14.keyTable := by decide +kernel

/-- `complete_while_typing` of the default buffer is the session's setting switched off by history
    search and by readline-like completion -/
def cwtWF (t : List (Bool × Bool × Bool × Bool)) : Bool :=
  t.length == 8 && t.all fun r => r.2.2.2 == (r.1 && !r.2.1 && !r.2.2.1)

/-- **history_search_excludes_complete_while_typing** — in every setting of the session -/
theorem cwt_exclusive (t : List (Bool × Bool × Bool × Bool)) (h : cwtWF t = true) :
    ∀ r ∈ t, r.2.1 = true → r.2.2.2 = false := by
  intro r hr he
  simp only [cwtWF, Bool.and_eq_true] at h
  have := List.all_eq_true.mp h.2 r hr
  simp [he] at this
  exact this

theorem gen_cwt_ok : cwtWF Gen.C14.cwtTable = true := by decide

example : (true, true, false, false) ∈ Gen.C14.cwtTable ∧ (true, false, false, true) ∈ Gen.C14.cwtTable := by decide

/-- the three validation states of the model are the members of `ValidationState` -/
theorem gen_vstates_ok : Gen.C14.vstates = ["VALID", "INVALID", "UNKNOWN"] ∨
    Gen.C14.vstates = ["UNKNOWN", "VALID", "INVALID"] := by decide

/-- pattern pin: the scanner `splitQuoted` / `quotedLen` of the model is written for this pattern
    (whitespace run | shortest double-quoted string without a line break | the same with single quotes) -/
theorem gen_quoted_words_re_ok :
    Gen.C14.quotedWordsRe = "(\\s+|\".*?\"|'.*?')" ∧ Gen.C14.quotedWordsFlags = 32 := by decide

/-- the model's `Key.enter = Op.accept true`: the PromptSession accept handler keeps the text -/
theorem gen_accept_keeps_ok : Gen.C14.acceptKeeps = true := by decide

/-- `end-of-history` asks for more steps than any history has entries: whatever the count, the
    command ends on the last working line -/
theorem endOfHistory_last (s : St) (h : 0 < s.work.length) : (endOfHistory s).idx = s.work.length - 1 := by
  have hw : (historyForward s Gen.C14.endHistCount).work = s.work := (historyForward_frame s _).1
  simp only [endOfHistory, goToHistory, hw]
  rw [if_pos (by omega)]
  simp only [setCursorPos_idx]
  by_cases e : (historyForward s Gen.C14.endHistCount).idx = s.work.length - 1
  · simp [setWorkingIndex, e]
  · rw [setWorkingIndex_ne _ _ e]; rfl

end Ptk.C14
