/-
  C13 — Persisted history is durable, ordered and survives torn writes.

  Property theorems for `Ptk.Model.C13` (model of src/prompt_toolkit/history.py).
  Lemmas: `Props/C13File.lean` (format, any codec satisfying `Codec.Good`),
  `Props/C13Utf8.lean` (the concrete UTF-8 encoder / replacing decoder satisfies it),
  `Props/C13Threaded.lean` (invariant of the ThreadedHistory transition system),
  `Props/C13Multi.lean` (several simultaneous `load()` calls).

  Part (a) is stated for the concrete UTF-8 codec `utf8` — no codec hypothesis is left.
  Entries are arbitrary `List Char` (every Unicode scalar value: LF, CR, U+2028, NUL, leading
  `+`/`#`, non-BMP …); an entry list is a list of (timestamp, string) pairs and the only
  hypothesis is `TsOk`: a timestamp contains no newline (it is `str(datetime.now())`).

  Part (b): the property as stated ("entries appended meanwhile present exactly once") is FALSE
  of the code without the repair proposed_fixes/C13-threaded-append.diff (F5); it is refuted on
  three concrete schedules below, which are replayed on the real code by the harness, and proved
  for exactly the schedules in which no `append_string` overlaps a `load()` (`okRun`).
  Part (b′): for the code WITH that repair (`stepF`, `Ptk.Model.C13Fixed`) the property is proved
  for ALL interleavings, including cancelled `load()` calls and an inner history that raises
  (`fixed_append_exactly_once`, `fixed_loader_only_equiv`, `fixed_terminates`; with any number of
  simultaneous `load()` calls: `multi_fixed_exactly_once` in `Props/C13FixedMulti.lean`).  Which of the two
  models the correspondence runs against the tree is decided by the generated flag
  `Gen.C13.appendFixed`; the other one is run against the tree + the proposed diff.  With several simultaneous `load()` calls the current code can
  lose the final wake-up (F5d, `f5d_lost_wakeup`); with the proposed fix (notify loops over a
  copy of the event list) it cannot (`multi_no_lost_wakeup`).
-/
import Ptk.Props.C13File
import Ptk.Props.C13Utf8
import Ptk.Props.C13Threaded
import Ptk.Props.C13Multi
import Ptk.Props.C13Fixed
import Ptk.Props.C13FixedMulti
import Ptk.Props.C13Mem
import Ptk.Props.C13Foreign
import Ptk.Gen.C13
namespace Ptk.C13
open Ptk.Py

/-! ## (a) FileHistory -/

/-- the codec: decoding (with `errors="replace"`) what `encode` produced gives the text back,
    for every text over all Unicode scalar values; only `\n` produces the byte 0x0A -/
theorem codec_roundtrip :
    (∀ t : Text, utf8.dec (utf8.encText t) = t) ∧ utf8.enc '\n' = [10] ∧
    (∀ c, c ≠ '\n' → 10 ∉ utf8.enc c) :=
  ⟨utf8_good.dec_enc, utf8_good.enc_nl, utf8_good.nl_free⟩

example : utf8.dec (utf8.encText ['+', '\n', '\r', Char.ofNat 0x2028, Char.ofNat 0, Char.ofNat 0x1F600])
    = ['+', '\n', '\r', Char.ofNat 0x2028, Char.ofNat 0, Char.ofNat 0x1F600] := by decide

/-- ROUNDTRIP: a fresh instance reads back exactly the stored strings, newest first. -/
theorem roundtrip (es : List (Text × Text)) (hts : TsOk es) :
    loadFile utf8 (stores utf8 es) = (es.map (·.2)).reverse := by
  have := loadRun_stores utf8_good es hts ⟨[], []⟩
  simp only [add_nil_lines, List.nil_append] at this
  simp [loadFile, this]

example : loadFile utf8 (stores utf8 [("T".toList, "+a\n#".toList), ("T".toList, []),
      ("T".toList, ['\n', '\r', Char.ofNat 0x2028, Char.ofNat 0x1F600])])
    = [['\n', '\r', Char.ofNat 0x2028, Char.ofNat 0x1F600], [], "+a\n#".toList] := by decide

/-- operations of several `FileHistory` instances sharing one file -/
inductive FOp
  | append (i : Nat) (ts s : Text)
  | load (i : Nat)

def FS.apply (C : Codec) (fs : FS) : FOp → FS
  | .append i ts s => fs.append C i ts s
  | .load i => (fs.load C i).1

def FS.runOps (C : Codec) (fs : FS) (ops : List FOp) : FS := ops.foldl (FS.apply C) fs

/-- the (timestamp, string) pairs appended by a sequence of operations, in order -/
def appended : List FOp → List (Text × Text)
  | [] => []
  | .append _ ts s :: r => (ts, s) :: appended r
  | .load _ :: r => appended r

theorem file_of_ops (C : Codec) (fs : FS) (ops : List FOp) :
    (FS.runOps C fs ops).file = fs.file ++ stores C (appended ops) := by
  induction ops generalizing fs with
  | nil => simp [FS.runOps, appended, stores]
  | cons op ops ih =>
    simp only [FS.runOps, List.foldl_cons] at ih ⊢
    rw [ih]
    cases op with
    | append i ts s => simp [FS.apply, FS.append, appended, stores]
    | load i =>
      simp only [FS.apply, FS.load, appended]
      split <;> simp [FS.setInst]

/-- ROUNDTRIP, INTERLEAVED: appends alternating between any number of instances (and loads in
    between) on one file are read back by a fresh instance in order, newest first. -/
theorem roundtrip_interleaved (ops : List FOp) (hts : TsOk (appended ops)) :
    loadFile utf8 (FS.runOps utf8 FS.empty ops).file = ((appended ops).map (·.2)).reverse := by
  rw [file_of_ops]
  simp only [FS.empty, List.nil_append]
  exact roundtrip _ hts

example : loadFile utf8 (FS.runOps utf8 FS.empty
      [.append 0 "T".toList "a".toList, .load 1, .append 1 "U".toList "+\n".toList,
       .append 0 "T".toList "c".toList]).file
    = ["c".toList, "+\n".toList, "a".toList] := by decide

/-- the caching instance itself: if instance `i` is the only writer, its `load()` (first or
    repeated, with appends before and after) yields the whole history, newest first. -/
theorem single_writer_load (ops : List FOp) (i : Nat) (hts : TsOk (appended ops))
    (hw : ∀ j ts s, FOp.append j ts s ∈ ops → j = i) :
    ((FS.runOps utf8 FS.empty ops).load utf8 i).2 = ((appended ops).map (·.2)).reverse := by
  -- invariant: once loaded, the cache of `i` equals what a fresh load would give
  have key : ∀ (ops : List FOp) (fs : FS) (es : List (Text × Text)),
      fs.file = stores utf8 es → TsOk (es ++ appended ops) →
      (∀ j ts s, FOp.append j ts s ∈ ops → j = i) →
      ((fs.insts i).loaded = true → (fs.insts i).strs = (es.map (·.2)).reverse) →
      let fs' := FS.runOps utf8 fs ops
      fs'.file = stores utf8 (es ++ appended ops) ∧
      ((fs'.insts i).loaded = true → (fs'.insts i).strs = ((es ++ appended ops).map (·.2)).reverse) := by
    intro ops
    induction ops with
    | nil => intro fs es hf _ _ hc; simpa [FS.runOps, appended] using ⟨hf, hc⟩
    | cons op ops ih =>
      intro fs es hf hts hw hc
      simp only [FS.runOps, List.foldl_cons]
      cases op with
      | append j ts s =>
        have hj : j = i := hw j ts s (by simp)
        subst hj
        have := ih (fs.append utf8 j ts s) (es ++ [(ts, s)])
          (by simp [FS.append, hf, stores_append, stores])
          (by simpa [appended] using hts)
          (fun j' ts' s' hm => hw j' ts' s' (by simp [hm]))
          (by
            intro hl
            simp only [FS.append, if_true] at hl ⊢
            simp [hc hl])
        simpa [FS.runOps, appended, FS.apply] using this
      | load j =>
        have := ih (fs.load utf8 j).1 es
          (by simp only [FS.load]; split <;> simp [FS.setInst, hf])
          (by simpa [appended] using hts)
          (fun j' ts' s' hm => hw j' ts' s' (by simp [hm]))
          (by
            simp only [FS.load]
            split
            · exact hc
            · simp only [FS.setInst]
              by_cases hji : i = j
              · subst hji
                intro _
                simp only [if_true]
                rw [hf]
                exact roundtrip es (fun e he => hts e (by simp [he]))
              · simp only [hji, if_false]
                exact hc)
        simpa [FS.runOps, appended, FS.apply] using this
  have h := key ops FS.empty [] (by simp [FS.empty, stores]) (by simpa using hts) hw
    (by simp [FS.empty])
  simp only [List.nil_append] at h
  simp only [FS.load]
  split
  · rename_i hl
    exact h.2 hl
  · simp only
    rw [h.1]
    exact roundtrip _ hts

example : ((FS.runOps utf8 FS.empty
      [.append 0 "T".toList "a".toList, .load 0, .append 0 "U".toList "+\n".toList]).load utf8 0).2
    = ["+\n".toList, "a".toList] := by decide

/-- TRUNCATION SAFETY + RECOVERY: cut the file at ANY byte offset `k` (a crash during a write) and
    then append any further entries `es'` (possibly none).  `j` is exactly the number of records
    that lie completely inside the first `k` bytes.  Loading yields: every later entry, then at
    most ONE damaged entry, then every completed entry — intact and in order.  Nothing else. -/
theorem truncate_then_append (es es' : List (Text × Text)) (hts : TsOk es) (hts' : TsOk es')
    (k : Nat) :
    ∃ (j : Nat) (damaged : List Text), j ≤ es.length ∧ damaged.length ≤ 1 ∧
      (stores utf8 (es.take j)).length ≤ k ∧
      (j < es.length → k < (stores utf8 (es.take (j + 1))).length) ∧
      (j = es.length → damaged = []) ∧
      loadFile utf8 ((stores utf8 es).take k ++ stores utf8 es')
        = (es'.map (·.2)).reverse ++ damaged.reverse ++ ((es.take j).map (·.2)).reverse := by
  obtain ⟨j, x, h1, h2, h3, h4, h5, h6⟩ :=
    loadRun_cut_then utf8_good es hts es' hts' k ⟨[], []⟩
  refine ⟨j, x, h1, h2, h3, h4, h5, ?_⟩
  simp only [add_nil_lines, List.nil_append] at h6
  simp [loadFile, h6]

/-- TRUNCATION SAFETY (the statement of the property): loading a file cut at any byte never
    fails (`loadFile` is total) and returns every previously completed entry intact and in
    order, with at most the final entry damaged. -/
theorem truncate_safe (es : List (Text × Text)) (hts : TsOk es) (k : Nat) :
    ∃ (j : Nat) (damaged : List Text), j ≤ es.length ∧ damaged.length ≤ 1 ∧
      (stores utf8 (es.take j)).length ≤ k ∧
      (j < es.length → k < (stores utf8 (es.take (j + 1))).length) ∧
      (j = es.length → damaged = []) ∧
      loadFile utf8 ((stores utf8 es).take k) = damaged ++ ((es.take j).map (·.2)).reverse := by
  obtain ⟨j, x, h1, h2, h3, h4, h5, h6⟩ :=
    truncate_then_append es [] hts (fun _ h => by simp at h) k
  refine ⟨j, x, h1, h2, h3, h4, h5, ?_⟩
  have hx : x.reverse = x := by
    match x, h2 with
    | [], _ => rfl
    | [_], _ => rfl
  simpa [stores, hx] using h6

-- a cut in the middle of the 4-byte character of the second entry: first entry intact, one damaged
example : loadFile utf8 ((stores utf8 [("T".toList, "a\n+".toList), ("T".toList, [Char.ofNat 0x1F600])]).take 19)
    = [[], "a\n+".toList] := by decide
-- … and a later append is framed correctly
example : loadFile utf8 ((stores utf8 [("T".toList, "a\n+".toList), ("T".toList, [Char.ofNat 0x1F600])]).take 19
      ++ stores utf8 [("T".toList, "#z".toList)])
    = ["#z".toList, [repl], "a\n+".toList] := by decide

/-- RECOVERY after a torn write (the statement of the property): entries appended after the
    crash are all read back, and the torn record costs at most one damaged entry. -/
theorem recover_after_truncate (es es' : List (Text × Text)) (hts : TsOk es) (hts' : TsOk es')
    (k : Nat) :
    ∃ rest : List Text,
      loadFile utf8 ((stores utf8 es).take k ++ stores utf8 es') = (es'.map (·.2)).reverse ++ rest := by
  obtain ⟨j, x, _, _, _, _, _, h6⟩ := truncate_then_append es es' hts hts' k
  exact ⟨_, by rw [h6, List.append_assoc]⟩

/-- RECOVERY FROM ANYTHING: whatever bytes the file contains (torn records, foreign data, invalid
    UTF-8 …), loading does not fail and entries appended afterwards are all read back, in order,
    in front of whatever the old content yields. -/
theorem recover_after_garbage (g : Bytes) (es' : List (Text × Text)) (hts' : TsOk es') :
    ∃ junk : List Text,
      loadFile utf8 (g ++ stores utf8 es') = (es'.map (·.2)).reverse ++ junk := by
  obtain ⟨junk, h⟩ := loadRun_garbage_then utf8_good g es' hts' ⟨[], []⟩
  exact ⟨junk.reverse, by simp [loadFile, h]⟩

example : loadFile utf8 ([0x2B, 0xF0, 0x9F, 10, 0xFF, 0x2B] ++ stores utf8 [("T".toList, "x".toList)])
    = ["x".toList, [repl]] := by decide

/-! ## (a′) foreign lines, several writers -/

/-- FOREIGN LINES ARE IGNORED: a file that consists of complete records and, anywhere between them (also
    in front and at the end), blocks of complete lines that do not decode to something starting with
    `+` — `# …` comments of other programs, blank lines, any text — loads exactly the entries of its
    records, newest first.  Only a line inside a record could damage an entry; a timestamp comment is
    just one instance of such a line. -/
theorem foreign_lines_ignored (segs : List Seg) (hok : ∀ g ∈ segs, SegOk utf8 g) :
    loadFile utf8 (segs.flatMap (segBytes utf8)) = (segs.flatMap segEntries).reverse := by
  have := loadRun_segs utf8_good segs hok ⟨[], []⟩
  simp only [add_nil_lines, List.nil_append] at this
  simp [loadFile, this]

example : SegOk utf8 (.foreign ["# written by another tool".toList.map Char.toNat, [], "hello".toList.map Char.toNat]) := by
  intro l hl
  simp only [List.mem_cons, List.mem_nil_iff, or_false] at hl
  rcases hl with rfl | rfl | rfl <;> exact foreign_ascii _ (by decide) (by decide)

example : loadFile utf8 (stores utf8 [("T".toList, "a\n+".toList)]
      ++ foreignBlock ["# x".toList.map Char.toNat, [], "hello".toList.map Char.toNat]
      ++ stores utf8 [("T".toList, "#b".toList)]) = ["#b".toList, "a\n+".toList] := by decide

/-- … but with the header and every line written by a `write()` call of its own (the current code when
    the record does not fit into the file object's buffer), the calls of two processes can interleave
    and two entries come back as ONE (observation, outside the statement of the property:
    "alternating" appends are sequential; hardening proposed) -/
theorem multi_write_interleave_merges :
    loadFile utf8 (interleaveWrites [procWrites false utf8 [("T".toList, "a".toList)],
        procWrites false utf8 [("U".toList, "b".toList)]] [0, 1, 1, 0]) = ["b\na".toList] := by decide

example : loadFile utf8 (interleaveWrites [procWrites true utf8 [("T".toList, "a".toList)],
        procWrites true utf8 [("U".toList, "b".toList)]] [0, 1, 1, 0]) = ["b".toList, "a".toList] := by decide


/-! ## (b) ThreadedHistory -/

/-- NO OVERLAP ⇒ EXACT: in every interleaving in which no `append_string` overlaps a `load()`
    call (appends before the first load, between loads, after loads: all allowed), every
    `load()` call — when it has delivered the read that saw `_loaded` — has yielded exactly the
    logical history
    (everything stored or inserted so far), each entry once, newest first; and before that it
    has yielded a prefix of it. -/
theorem no_overlap_exact (old pre : List Text) (sched : List Step)
    (hok : okRun (TH.init old pre) sched) :
    let st := run (TH.init old pre) sched
    ((st.cpc = .waiting ∨ st.cpc = .reading ∨ st.cpc = .yielding) → st.out <+: view st) ∧
    (st.cpc = .yielding → st.sawDone = true →
      (step st .cyield).out = view st ∧ (step st .cyield).cpc = .done) ∧
    (st.loaded = true → st.getStrings = (view st).reverse) := by
  have h := inv_run _ (inv_init old pre) sched hok
  refine ⟨out_prefix _ h, final_read _ h, ?_⟩
  intro hl
  simp [TH.getStrings, h.full hl]

example : okRun (TH.init ["o1".toList] ["p1".toList])
    [.ains "x".toList, .astore, .cstart, .lreset, .lsnap, .lappend, .cwait, .cread, .cyield, .lnotify,
     .lappend, .lnotify, .lappend, .lnotify, .ldone, .lfinal, .cwait] := by
  simp [okRun, allowed, step, TH.init]

example : (run (TH.init ["o1".toList] ["p1".toList])
    [.ains "x".toList, .astore, .cstart, .lreset, .lsnap, .lappend, .cwait, .cread, .cyield, .lnotify,
     .lappend, .lnotify, .lappend, .lnotify, .ldone, .lfinal, .cwait, .cread, .cyield]).out
    = ["x".toList, "p1".toList, "o1".toList] := by decide

/-- LOADER ONLY: with no concurrent `append_string` at all, under every interleaving of the
    loader thread and the consumer, the consumer has always yielded a prefix of, and on
    completion exactly, the sequence inline loading gives: the reversed store. -/
theorem loader_only_equiv (old pre : List Text) (sched : List Step) (hs : noAppend sched) :
    let st := run (TH.init old pre) sched
    st.storage = old ++ pre ∧
    ((st.cpc = .waiting ∨ st.cpc = .reading ∨ st.cpc = .yielding) →
      st.out <+: (old ++ pre).reverse) ∧
    (st.cpc = .done → st.out = (old ++ pre).reverse) := by
  obtain ⟨h, hst⟩ := inv2_run _ (inv2_init old pre) sched hs
  have hst' : (run (TH.init old pre) sched).storage = old ++ pre := by rw [hst]; rfl
  have hv : view (run (TH.init old pre) sched) = (old ++ pre).reverse := by
    simp [view, h.nopend, hst']
  refine ⟨hst', ?_, ?_⟩
  · intro hc; rw [← hv]; exact out_prefix _ h.inv hc
  · intro hc; rw [h.doneOut hc, hst']

/-- BACKGROUND = INLINE for a file-backed history: `ThreadedHistory(FileHistory(path))` whose file
    holds the records `es` — under every loader / consumer interleaving a completed `load()` has
    yielded exactly what `list(FileHistory(path).load_history_strings())` returns. -/
theorem threaded_file_equiv (es : List (Text × Text)) (hts : TsOk es) (sched : List Step)
    (hs : noAppend sched) :
    let st := run (TH.init (es.map (·.2)) []) sched
    st.cpc = .done → st.out = loadFile utf8 (stores utf8 es) := by
  intro st hc
  have := (loader_only_equiv (es.map (·.2)) [] sched hs).2.2 hc
  rw [roundtrip es hts]
  simpa using this

example : noAppend [.cstart, .cwait, .cread, .cyield, .lreset, .lsnap, .lappend, .lnotify, .cwait, .cread, .cyield,
    .lappend, .ldone, .lnotify, .ldone, .lfinal, .cwait, .cread, .cyield] := by simp [noAppend]

example : (run (TH.init ["o1".toList] ["p1".toList])
    [.cstart, .cwait, .cread, .cyield, .lreset, .lsnap, .lappend, .lnotify, .cwait, .cread, .cyield,
     .lappend, .ldone, .lnotify, .ldone, .lfinal, .cwait, .cread, .cyield]).cpc = .done := by decide

/-- TERMINATION / no lost wake-up: (1) a schedule of loader / consumer steps that all change
    the state is never longer than the `budget` of its start state, and (2) as long as a
    `load()` call is in progress (in any state reachable without overlap) some loader / consumer
    step changes the state.  So every maximal run completes the `load()` call. -/
theorem loader_terminates (old pre : List Text) (sched : List Step)
    (hok : okRun (TH.init old pre) sched) :
    let st := run (TH.init old pre) sched
    (∀ more : List Step, (∀ a ∈ more, isLoadStep a) → effective st more →
        more.length ≤ budget st) ∧
    ((st.cpc = .waiting ∨ st.cpc = .reading ∨ st.cpc = .yielding) →
      ∃ a, isLoadStep a ∧ step st a ≠ st) := by
  have h := inv_run _ (inv_init old pre) sched hok
  refine ⟨?_, no_deadlock _ h⟩
  intro more hm he
  have := sched_bounded _ more hm he
  omega

example : budget (run (TH.init ["o1".toList, "o2".toList] []) [.cstart]) = 35 := by decide

/-! ### F5: an `append_string` that overlaps a `load()` — the property is FALSE -/

/-- F5a: appended between the loader's list reset and its snapshot → yielded TWICE -/
theorem f5_duplicate :
    (run (TH.init ["o1".toList, "o2".toList] [])
      [.cstart, .lreset, .ains "NEW".toList, .astore, .lsnap, .lappend, .lnotify, .lappend,
       .lnotify, .lappend, .lnotify, .ldone, .lfinal, .cwait, .cread, .cyield]).out
    = ["NEW".toList, "NEW".toList, "o2".toList, "o1".toList] := by decide

/-- F5b: appended after the consumer took one item: `insert(0, …)` shifts `items_yielded` →
    an old item is yielded twice and the new entry NEVER -/
theorem f5_shift :
    (run (TH.init ["o1".toList, "o2".toList] [])
      [.cstart, .lreset, .lsnap, .lappend, .lnotify, .cwait, .cread, .cyield, .ains "NEW".toList, .astore,
       .lappend, .lnotify, .ldone, .lfinal, .cwait, .cread, .cyield]).out
    = ["o2".toList, "o2".toList, "o1".toList] := by decide

/-- F5c: `append_string` inserted before the list reset and stored after the snapshot → the
    entry is in the store but neither yielded nor in `get_strings()` -/
theorem f5_lost :
    let st := run (TH.init ["o1".toList] [])
      [.cstart, .ains "NEW".toList, .lreset, .lsnap, .astore, .lappend, .lnotify, .ldone, .lfinal,
       .cwait, .cread, .cyield]
    st.out = ["o1".toList] ∧ st.cpc = .done ∧ st.getStrings = ["o1".toList] ∧
    st.storage = ["o1".toList, "NEW".toList] := by decide

/-- the three schedules are exactly outside the proved region: each contains a step that is not
    `allowed` (an `append_string` while a `load()` is in progress) -/
theorem f5_not_okRun :
    ¬ okRun (TH.init ["o1".toList, "o2".toList] [])
      [.cstart, .lreset, .ains "NEW".toList, .astore, .lsnap] ∧
    ¬ okRun (TH.init ["o1".toList, "o2".toList] [])
      [.cstart, .lreset, .lsnap, .lappend, .lnotify, .cwait, .cread, .cyield, .ains "NEW".toList] ∧
    ¬ okRun (TH.init ["o1".toList] []) [.cstart, .ains "NEW".toList] := by
  simp [okRun, allowed, step, TH.init]

/-! ### several simultaneous `load()` calls (no `append_string`) -/

/-- SAFETY for any number of simultaneous `load()` calls, whether or not the loader's notify
    loops copy the event list, under every interleaving at per-`event.set()` granularity:
    each call has yielded a prefix of, and once finished exactly, the inline sequence. -/
theorem multi_safe (copy : Bool) (old pre : List Text) (sched : List StepN) (i : Nat) :
    let st := runN copy (THn.init old pre) sched
    ((st.cons i).active → (st.cons i).out <+: (old ++ pre).reverse) ∧
    ((st.cons i).cpc = .done → (st.cons i).out = (old ++ pre).reverse) := by
  have h := safeN_run copy _ (safeN_init old pre) sched
  refine ⟨fun ha => ?_, h.done i⟩
  rw [h.out i ha]; exact List.take_prefix _ _

/-- NO LOST WAKE-UP when the notify loops run over a copy of `_string_load_events` (the proposed
    fix): as long as any `load()` call is in progress, some loader / consumer step changes the state. -/
theorem multi_no_lost_wakeup (old pre : List Text) (sched : List StepN) (i : Nat) :
    let st := runN true (THn.init old pre) sched
    (st.cons i).active → ∃ a, isLoadStepN a ∧ stepN true st a ≠ st := by
  intro st ha
  have hs := safeN_run true _ (safeN_init old pre) sched
  exact no_deadlockN _ (wakeN_run _ (safeN_init old pre) (wakeN_init old pre) sched) i ha

/-- TERMINATION with several simultaneous `load()` calls (notify loops over a copy): a schedule of
    loader / consumer steps that all change the state is never longer than `budgetN` of its start
    state; together with `multi_no_lost_wakeup`: every maximal run completes every `load()` call. -/
theorem multi_terminates (old pre : List Text) (sched : List StepN) :
    let st := runN true (THn.init old pre) sched
    ∀ more : List StepN, (∀ a ∈ more, isLoadStepN a) → effectiveN st more →
      more.length ≤ budgetN st := by
  intro st more hm he
  have := sched_boundedN st (regN_run true _ (regN_init old pre) sched) more hm he
  omega

example : budgetN (runN true (THn.init ["a".toList] []) [.cstart 0, .cstart 1]) = 46 := by decide

/-- the schedule of F5d: both calls drained and waiting, `_loaded` set, the final loop sets the
    first event, that call finishes and unregisters, the loop continues -/
def f5dSchedule : List StepN :=
  [.cstart 0, .cstart 1, .lreset, .lsnap, .cwait 0, .cread 0, .cyield 0, .cwait 1, .cread 1, .cyield 1,
   .ldone, .lfinal, .cwait 0, .cread 0, .cyield 0, .lset]

/-- F5d: LOST WAKE-UP with the live list (the current code): after the schedule the loader thread
    has ended, the second `load()` call waits on an event nobody will set, and it stays there
    under EVERY continuation — it never terminates. -/
theorem f5d_lost_wakeup (more : List StepN) :
    let st := runN false (THn.init [] []) f5dSchedule
    st.lpc = .finished ∧ (st.cons 1).cpc = .waiting ∧ (st.cons 1).ev = false ∧
    ((runN false st more).cons 1).cpc = .waiting := by
  have h1 : (runN false (THn.init [] []) f5dSchedule).lpc = .finished := by decide
  have h2 : ((runN false (THn.init [] []) f5dSchedule).cons 1).cpc = .waiting := by decide
  have h3 : ((runN false (THn.init [] []) f5dSchedule).cons 1).ev = false := by decide
  exact ⟨h1, h2, h3, stuck_run false _ 1 h1 h2 h3 more⟩

-- with the copy the same schedule leaves the second call's event set, and it completes
example : ((runN true (THn.init [] []) (f5dSchedule ++ [.lset, .cwait 1, .cread 1, .cyield 1])).cons 1).cpc
    = .done := by decide

example : ((runN true (THn.init ["a".toList] []) [.cstart 0, .cstart 1, .lreset]).cons 1).active := by
  unfold Cons.active; decide

/-! ## (b′) ThreadedHistory with the repair of F5 (`stepF`): the property for ALL interleavings -/

/-- the ghost `hist0` is the logical history at the moment `load()` is called -/
theorem fixed_hist0_spec (st : THF) (h : st.cpc = .idle ∨ st.cpc = .done) :
    (stepF st .cstart).hist0 = st.view ∧ (stepF st .cstart).out = [] ∧
    (stepF st .cstart).shift = 0 := by
  simp [stepF, h, THF.shift]

/-- APPENDED MEANWHILE ⇒ EXACTLY ONCE, for EVERY interleaving of the loader thread, the consumer,
    any number of `append_string` calls, cancellations and later `load()` calls (no hypothesis on the
    schedule):
    (1) while a `load()` call is in progress it has yielded a prefix of the history as it was when
        the call began (`hist0`), and the current history is `hist0` with the entries appended since
        then in front;
    (2) a call that runs to its end (inner history did not raise) has yielded exactly `hist0`,
        newest first, followed by `front` = the entries appended between the call and its final
        locked read — every entry exactly once, none lost, none twice; entries appended after that
        read (`later`) are not part of this call;
    (3) once loading is done the cache (`get_strings()`, and so every later `load()`) holds the
        whole history, every entry once, in order.
    BOTH KINDS of inner history: `eager` (reads its storage when `load_history_strings()` is called:
    FileHistory) and lazy (when its first item is requested: a generator).  `hoist = false` is the
    code as it is — call, list reset and first item in ONE locked block: the statement holds for
    both kinds.  With the call in front of the lock (`hoist = true`) it still holds for a lazy inner
    history, and is FALSE for an eager one (`hoisted_call_loses_entry`). -/
theorem fixed_append_exactly_once (old pre : List Text) (sched : List StepF)
    (eager hoist : Bool := false) (hcfg : hoist = false ∨ eager = false := by decide) :
    let st := runF (THF.init old pre eager hoist) sched
    (st.active → st.out <+: st.hist0 ∧ st.view = st.view.take st.shift ++ st.hist0) ∧
    (st.cpc = .done → st.complete = true → st.failed = false →
      st.out = st.hist0 ++ st.front ∧ st.out.Perm (st.front ++ st.hist0) ∧
      ∃ later, st.view = later ++ (st.front ++ st.hist0)) ∧
    (st.loaded = true → st.failed = false → st.getStrings = st.storage) := by
  intro st
  have h : InvF st := invF_run _ (invF_init old pre eager hoist hcfg) sched
  refine ⟨fun ha => ⟨?_, ?_⟩, fun hd hc hf => ⟨?_, ?_, ?_⟩, fun hl hf => ?_⟩
  · rw [h.cons ha]; exact List.take_prefix _ _
  · rw [← h.hist ha, List.take_append_drop]
  · exact (h.done hd hc).2 hf
  · rw [(h.done hd hc).2 hf]; exact List.perm_append_comm
  · exact h.frontOk (Or.inr ⟨hd, hc⟩)
  · simp [THF.getStrings, h.full hl hf, THF.view]

/-- the three schedules of F5a-c (overlapping `append_string`) on the repaired code: the new entry
    is yielded exactly once, nothing twice, nothing lost -/
example : (runF (THF.init ["o1".toList, "o2".toList] [])
      [.cstart, .lreset, .app "NEW".toList, .lappend, .lnotify, .lappend,
       .lnotify, .ldone, .lfinal, .cwait, .cread, .cyield]).out
    = ["o2".toList, "o1".toList, "NEW".toList] := by decide
example : (runF (THF.init ["o1".toList, "o2".toList] [])
      [.cstart, .lreset, .lappend, .lnotify, .cwait, .cread, .cyield, .app "NEW".toList,
       .lappend, .lnotify, .ldone, .lfinal, .cwait, .cread, .cyield]).out
    = ["o2".toList, "o1".toList, "NEW".toList] := by decide
example :
    let st := runF (THF.init ["o1".toList] [])
      [.cstart, .app "NEW".toList, .lreset, .lappend, .lnotify, .lappend, .lnotify, .ldone, .lfinal,
       .cwait, .cread, .cyield]
    st.out = ["o1".toList, "NEW".toList] ∧ st.cpc = .done ∧ st.complete = true ∧
    st.getStrings = ["o1".toList, "NEW".toList] ∧ st.storage = ["o1".toList, "NEW".toList] := by decide
-- a cancelled call, an append, then a new call: the new call yields everything in order
example :
    let st := runF (THF.init ["o1".toList, "o2".toList] [])
      [.cstart, .lreset, .lappend, .lnotify, .cwait, .cread, .app "X".toList, .ccancel, .cstart,
       .lappend, .lnotify, .ldone, .lfinal, .cwait, .cread, .cyield]
    st.out = ["X".toList, "o2".toList, "o1".toList] ∧ st.complete = true ∧ st.front = [] := by decide

/-! ### the call of the inner history must stand INSIDE the lock (for an eager inner history) -/

/-- SIDE CONDITION on the tree, re-decided on every run on the regenerated flag (behavioural probe in
    harness/gen_c13.py): the loader thread calls the inner `load_history_strings()` inside the locked
    block — the configuration `hoist = false` for which `fixed_append_exactly_once` covers BOTH kinds of
    inner history. -/
theorem gen_call_in_lock : Gen.C13.callHoisted = false := by decide

/-- the loader has called the inner history (which has read its storage), then an `append_string`,
    then the locked block with the list reset -/
def hoistSchedule : List StepF :=
  [.cstart, .lcall, .app "NEW".toList, .lreset, .lappend, .lnotify, .lappend, .lnotify, .ldone, .lfinal,
   .cwait, .cread, .cyield]

/-- HOISTED CALL + EAGER INNER HISTORY (FileHistory) LOSES AN ENTRY: with
    `strings = iter(self.history.load_history_strings())` in front of `with self._lock:` the file is read
    before the lock is taken; an `append_string` in that window is wiped by the list reset and is not in
    what was read: the call completes without the entry, the cache does not have it either (although it
    is in the store), and no later `load()` of this instance will yield it. -/
theorem hoisted_call_loses_entry :
    let st := runF (THF.init ["o1".toList] [] true true) hoistSchedule
    st.cpc = .done ∧ st.complete = true ∧ st.failed = false ∧ st.out = ["o1".toList] ∧
    st.getStrings = ["o1".toList] ∧ st.storage = ["o1".toList, "NEW".toList] := by decide

/-- … a LAZY inner history (a generator reads its storage when the first item is requested, inside the
    lock) is not affected by the hoisted call … -/
theorem hoisted_call_lazy_ok :
    let st := runF (THF.init ["o1".toList] [] false true) hoistSchedule
    st.out = ["o1".toList, "NEW".toList] ∧ st.complete = true ∧
    st.getStrings = ["o1".toList, "NEW".toList] := by decide

/-- … and with the code as it is (the call inside the locked block; `.lcall` is not a step of its own)
    the same schedule is fine for BOTH kinds. -/
theorem locked_call_both_kinds_ok (eager : Bool) :
    let st := runF (THF.init ["o1".toList] [] eager false) hoistSchedule
    st.out = ["o1".toList, "NEW".toList] ∧ st.complete = true ∧
    st.getStrings = ["o1".toList, "NEW".toList] := by
  cases eager <;> decide

/-- schedules without any `append_string` -/
def noApp (sched : List StepF) : Prop := ∀ a ∈ sched, ∀ s, a ≠ .app s

structure InvNA (S : List Text) (n : Nat) (st : THF) : Prop where
  sto : st.storage = S
  ins : st.inserted = n
  seen : st.cpc ≠ .idle → st.seen = n
  h0 : st.cpc ≠ .idle → st.hist0 = S.reverse
  fr : st.front = []

theorem invNA_step (S : List Text) (n : Nat) (st : THF) (h : InvNA S n st) (a : StepF)
    (ha : ∀ s, a ≠ .app s) : InvNA S n (stepF st a) := by
  have h1 := h.sto
  have h2 := h.ins
  have h3 := h.seen
  have h4 := h.h0
  have h5 := h.fr
  cases a with
  | app s => exact absurd rfl (ha s)
  | cread =>
    simp only [stepF]
    split
    · rename_i hc
      have : st.seen = n := h3 (by simp [hc])
      constructor <;> simp_all [THF.view, THF.shift]
    · exact h
  | lappend =>
    simp only [stepF]
    split
    · split
      · constructor <;> simp_all
      · exact h
    · exact h
  | lfail =>
    simp only [stepF]
    (repeat' split) <;> first | exact h | (constructor <;> simp_all)
  | cstart =>
    simp only [stepF]
    split
    · constructor <;> simp_all [THF.view]
    · exact h
  | cwait => simp only [stepF]; split <;> first | exact h | (constructor <;> simp_all)
  | cyield =>
    simp only [stepF]
    split
    · rename_i hc
      have h3' := h3 (by simp [hc])
      have h4' := h4 (by simp [hc])
      constructor <;> simp_all
    · exact h
  | ccancel =>
    simp only [stepF]
    split
    · rename_i hc
      have hne : st.cpc ≠ .idle := by rcases hc with hc | hc | hc <;> simp [hc]
      have h3' := h3 hne
      have h4' := h4 hne
      constructor <;> simp_all
    · exact h
  | lcall => simp only [stepF]; split <;> first | exact h | (constructor <;> simp_all)
  | lreset => simp only [stepF]; (repeat' split) <;> first | exact h | (constructor <;> simp_all)
  | lnotify => simp only [stepF]; split <;> first | exact h | (constructor <;> simp_all)
  | ldone => simp only [stepF]; split <;> first | exact h | (constructor <;> simp_all)
  | lfinal => simp only [stepF]; split <;> first | exact h | (constructor <;> simp_all)

theorem invNA_run (S : List Text) (n : Nat) (st : THF) (h : InvNA S n st) (sched : List StepF)
    (hs : noApp sched) : InvNA S n (runF st sched) := by
  induction sched generalizing st with
  | nil => exact h
  | cons a r ih =>
    simp only [runF, List.foldl_cons]
    exact ih (stepF st a) (invNA_step S n st h a (hs a (by simp)))
      (fun b hb => hs b (by simp [hb]))

/-- BACKGROUND = INLINE on the repaired code: with no concurrent `append_string`, under every
    interleaving of loader thread and consumer (with cancellations and repeated `load()` calls) a
    `load()` call has always yielded a prefix of, and on completion exactly, the reversed store. -/
theorem fixed_loader_only_equiv (old pre : List Text) (sched : List StepF) (hs : noApp sched)
    (eager hoist : Bool := false) (hcfg : hoist = false ∨ eager = false := by decide) :
    let st := runF (THF.init old pre eager hoist) sched
    st.storage = old ++ pre ∧
    (st.active → st.out <+: (old ++ pre).reverse) ∧
    (st.cpc = .done → st.complete = true → st.failed = false → st.out = (old ++ pre).reverse) := by
  intro st
  have hna0 : InvNA (old ++ pre) pre.length (THF.init old pre eager hoist) := by
    constructor <;> simp [THF.init]
  have hna : InvNA (old ++ pre) pre.length st := invNA_run _ _ _ hna0 sched hs
  have h := fixed_append_exactly_once old pre sched eager hoist hcfg
  refine ⟨hna.sto, fun ha => ?_, fun hd hc hf => ?_⟩
  · have hne : st.cpc ≠ .idle := by rcases ha with ha | ha | ha <;> simp [ha]
    rw [← hna.h0 hne]; exact (h.1 ha).1
  · have hne : st.cpc ≠ .idle := by simp [hd]
    rw [(h.2.1 hd hc hf).1, hna.fr, hna.h0 hne, List.append_nil]

/-- TERMINATION / no lost wake-up on the repaired code, from EVERY reachable state (whatever
    appends, cancellations and failures of the inner history happened before): a sequence of loader /
    consumer steps that all change the state is never longer than `budgetF`, and while a `load()`
    call is in progress some loader / consumer step changes the state.  So every maximal run
    completes the call — also when the inner history raises (`.lfail`): the consumer never hangs. -/
theorem fixed_terminates (old pre : List Text) (sched : List StepF)
    (eager hoist : Bool := false) (hcfg : hoist = false ∨ eager = false := by decide) :
    let st := runF (THF.init old pre eager hoist) sched
    (∀ more : List StepF, (∀ a ∈ more, isLoadStepF a) → effectiveF st more →
        more.length ≤ budgetF st) ∧
    (st.active → ∃ a, isLoadStepF a ∧ stepF st a ≠ st) := by
  intro st
  refine ⟨fun more hm he => ?_, no_deadlockF st (invF_run _ (invF_init old pre eager hoist hcfg) sched)⟩
  have := sched_boundedF st more hm he
  omega

-- the inner history raises after one item: the call still completes, with a prefix
example :
    let st := runF (THF.init ["o1".toList, "o2".toList] [])
      [.cstart, .lreset, .lappend, .lnotify, .lfail, .ldone, .lfinal, .cwait, .cread, .cyield]
    st.cpc = .done ∧ st.failed = true ∧ st.out = ["o2".toList] := by decide
example : budgetF (runF (THF.init ["o1".toList, "o2".toList] []) [.cstart, .app "x".toList]) = 43 := by decide

/-- BACKGROUND = INLINE for a file-backed history on the repaired code -/
theorem fixed_threaded_file_equiv (es : List (Text × Text)) (hts : TsOk es) (sched : List StepF)
    (hs : noApp sched) :
    -- (`FileHistory` is an eager inner history)
    let st := runF (THF.init (es.map (·.2)) [] true false) sched
    st.cpc = .done → st.complete = true → st.failed = false →
      st.out = loadFile utf8 (stores utf8 es) := by
  intro st hd hc hf
  have := (fixed_loader_only_equiv (es.map (·.2)) [] sched hs true false).2.2 hd hc hf
  rw [roundtrip es hts]
  simpa using this

/-- the strings appended by a schedule, in order -/
def appsOf : List StepF → List Text
  | [] => []
  | .app s :: r => s :: appsOf r
  | _ :: r => appsOf r

theorem storage_stepF (st : THF) (a : StepF) :
    (stepF st a).storage = st.storage ++ appsOf [a] := by
  cases a <;> simp only [stepF, appsOf, List.append_nil] <;> (repeat' split) <;> rfl

/-- DURABLE: under every interleaving every `append_string` reaches the inner store exactly once,
    in call order, behind what was there (so that, with `roundtrip`, a fresh `FileHistory` reads
    all of them back); nothing else is ever written. -/
theorem fixed_store_exact (old pre : List Text) (sched : List StepF) (eager hoist : Bool := false) :
    (runF (THF.init old pre eager hoist) sched).storage = old ++ pre ++ appsOf sched := by
  have key : ∀ (sched : List StepF) (st : THF), (runF st sched).storage = st.storage ++ appsOf sched := by
    intro sched
    induction sched with
    | nil => intro st; simp [runF, appsOf]
    | cons a r ih =>
      intro st
      simp only [runF, List.foldl_cons] at ih ⊢
      rw [ih, storage_stepF]
      cases a <;> simp [appsOf]
  simpa [THF.init] using key sched (THF.init old pre eager hoist)

example : (runF (THF.init ["o".toList] []) [.cstart, .app "a".toList, .lreset, .ccancel, .app "b".toList]).storage
    = ["o".toList, "a".toList, "b".toList] := by decide

end Ptk.C13
