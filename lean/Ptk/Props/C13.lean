/-
  C13 — Persisted history is durable, ordered and survives torn writes.

  Property theorems for `Ptk.Model.C13` (model of src/prompt_toolkit/history.py).
  Lemmas: `Props/C13File.lean` (format, any codec satisfying `Codec.Good`),
  `Props/C13Utf8.lean` (the concrete UTF-8 encoder / replacing decoder satisfies it),
  `Props/C13Threaded.lean` (invariant of the ThreadedHistory transition system),
  `Props/C13Multi.lean` (several simultaneous `load()` calls).

  Part (a) is stated for the concrete UTF-8 codec `utf8` — no codec hypothesis is left.
  Entries are arbitrary `List Char` (every Unicode scalar value: LF, CR, U+2028, NUL, leading
  `+`/`#`, non-BMP …); an entry list is a list of (timestamp, string) pairs and the only
  hypothesis is `TsOk`: a timestamp contains no newline (it is `str(datetime.now())`).

  Part (b): the property as stated ("entries appended meanwhile present exactly once") is FALSE
  of the code (F5); it is refuted on three concrete schedules below, which are replayed on the
  real code by the harness, and proved for exactly the schedules in which no `append_string`
  overlaps a `load()` (`okRun`).  With several simultaneous `load()` calls the current code can
  lose the final wake-up (F5d, `f5d_lost_wakeup`); with the proposed fix (notify loops over a
  copy of the event list) it cannot (`multi_no_lost_wakeup`).
-/
import Ptk.Props.C13File
import Ptk.Props.C13Utf8
import Ptk.Props.C13Threaded
import Ptk.Props.C13Multi
namespace Ptk.C13
open Ptk.Py

/-! ## (a) FileHistory -/

/-- the codec: decoding (with `errors="replace"`) what `encode` produced gives the text back,
    for every text over all Unicode scalar values; only `\n` produces the byte 0x0A -/
theorem codec_roundtrip :
    (∀ t : Text, utf8.dec (utf8.encText t) = t) ∧ utf8.enc '\n' = [10] ∧
    (∀ c, c ≠ '\n' → 10 ∉ utf8.enc c) :=
  ⟨utf8_good.dec_enc, utf8_good.enc_nl, utf8_good.nl_free⟩

example : utf8.dec (utf8.encText ['+', '\n', '\r', Char.ofNat 0x2028, Char.ofNat 0, Char.ofNat 0x1F600])
    = ['+', '\n', '\r', Char.ofNat 0x2028, Char.ofNat 0, Char.ofNat 0x1F600] := by decide

/-- ROUNDTRIP: a fresh instance reads back exactly the stored strings, newest first. -/
theorem roundtrip (es : List (Text × Text)) (hts : TsOk es) :
    loadFile utf8 (stores utf8 es) = (es.map (·.2)).reverse := by
  have := loadRun_stores utf8_good es hts ⟨[], []⟩
  simp only [add_nil_lines, List.nil_append] at this
  simp [loadFile, this]

example : loadFile utf8 (stores utf8 [("T".toList, "+a\n#".toList), ("T".toList, []),
      ("T".toList, ['\n', '\r', Char.ofNat 0x2028, Char.ofNat 0x1F600])])
    = [['\n', '\r', Char.ofNat 0x2028, Char.ofNat 0x1F600], [], "+a\n#".toList] := by decide

/-- operations of several `FileHistory` instances sharing one file -/
inductive FOp
  | append (i : Nat) (ts s : Text)
  | load (i : Nat)

def FS.apply (C : Codec) (fs : FS) : FOp → FS
  | .append i ts s => fs.append C i ts s
  | .load i => (fs.load C i).1

def FS.runOps (C : Codec) (fs : FS) (ops : List FOp) : FS := ops.foldl (FS.apply C) fs

/-- the (timestamp, string) pairs appended by a sequence of operations, in order -/
def appended : List FOp → List (Text × Text)
  | [] => []
  | .append _ ts s :: r => (ts, s) :: appended r
  | .load _ :: r => appended r

theorem file_of_ops (C : Codec) (fs : FS) (ops : List FOp) :
    (FS.runOps C fs ops).file = fs.file ++ stores C (appended ops) := by
  induction ops generalizing fs with
  | nil => simp [FS.runOps, appended, stores]
  | cons op ops ih =>
    simp only [FS.runOps, List.foldl_cons] at ih ⊢
    rw [ih]
    cases op with
    | append i ts s => simp [FS.apply, FS.append, appended, stores]
    | load i =>
      simp only [FS.apply, FS.load, appended]
      split <;> simp [FS.setInst]

/-- ROUNDTRIP, INTERLEAVED: appends alternating between any number of instances (and loads in
    between) on one file are read back by a fresh instance in order, newest first. -/
theorem roundtrip_interleaved (ops : List FOp) (hts : TsOk (appended ops)) :
    loadFile utf8 (FS.runOps utf8 FS.empty ops).file = ((appended ops).map (·.2)).reverse := by
  rw [file_of_ops]
  simp only [FS.empty, List.nil_append]
  exact roundtrip _ hts

example : loadFile utf8 (FS.runOps utf8 FS.empty
      [.append 0 "T".toList "a".toList, .load 1, .append 1 "U".toList "+\n".toList,
       .append 0 "T".toList "c".toList]).file
    = ["c".toList, "+\n".toList, "a".toList] := by decide

/-- the caching instance itself: if instance `i` is the only writer, its `load()` (first or
    repeated, with appends before and after) yields the whole history, newest first. -/
theorem single_writer_load (ops : List FOp) (i : Nat) (hts : TsOk (appended ops))
    (hw : ∀ j ts s, FOp.append j ts s ∈ ops → j = i) :
    ((FS.runOps utf8 FS.empty ops).load utf8 i).2 = ((appended ops).map (·.2)).reverse := by
  -- invariant: once loaded, the cache of `i` equals what a fresh load would give
  have key : ∀ (ops : List FOp) (fs : FS) (es : List (Text × Text)),
      fs.file = stores utf8 es → TsOk (es ++ appended ops) →
      (∀ j ts s, FOp.append j ts s ∈ ops → j = i) →
      ((fs.insts i).loaded = true → (fs.insts i).strs = (es.map (·.2)).reverse) →
      let fs' := FS.runOps utf8 fs ops
      fs'.file = stores utf8 (es ++ appended ops) ∧
      ((fs'.insts i).loaded = true → (fs'.insts i).strs = ((es ++ appended ops).map (·.2)).reverse) := by
    intro ops
    induction ops with
    | nil => intro fs es hf _ _ hc; simpa [FS.runOps, appended] using ⟨hf, hc⟩
    | cons op ops ih =>
      intro fs es hf hts hw hc
      simp only [FS.runOps, List.foldl_cons]
      cases op with
      | append j ts s =>
        have hj : j = i := hw j ts s (by simp)
        subst hj
        have := ih (fs.append utf8 j ts s) (es ++ [(ts, s)])
          (by simp [FS.append, hf, stores_append, stores])
          (by simpa [appended] using hts)
          (fun j' ts' s' hm => hw j' ts' s' (by simp [hm]))
          (by
            intro hl
            simp only [FS.append, if_true] at hl ⊢
            simp [hc hl])
        simpa [FS.runOps, appended, FS.apply] using this
      | load j =>
        have := ih (fs.load utf8 j).1 es
          (by simp only [FS.load]; split <;> simp [FS.setInst, hf])
          (by simpa [appended] using hts)
          (fun j' ts' s' hm => hw j' ts' s' (by simp [hm]))
          (by
            simp only [FS.load]
            split
            · exact hc
            · simp only [FS.setInst]
              by_cases hji : i = j
              · subst hji
                intro _
                simp only [if_true]
                rw [hf]
                exact roundtrip es (fun e he => hts e (by simp [he]))
              · simp only [hji, if_false]
                exact hc)
        simpa [FS.runOps, appended, FS.apply] using this
  have h := key ops FS.empty [] (by simp [FS.empty, stores]) (by simpa using hts) hw
    (by simp [FS.empty])
  simp only [List.nil_append] at h
  simp only [FS.load]
  split
  · rename_i hl
    exact h.2 hl
  · simp only
    rw [h.1]
    exact roundtrip _ hts

example : ((FS.runOps utf8 FS.empty
      [.append 0 "T".toList "a".toList, .load 0, .append 0 "U".toList "+\n".toList]).load utf8 0).2
    = ["+\n".toList, "a".toList] := by decide

/-- TRUNCATION SAFETY + RECOVERY: cut the file at ANY byte offset `k` (a crash during a write) and
    then append any further entries `es'` (possibly none).  `j` is exactly the number of records
    that lie completely inside the first `k` bytes.  Loading yields: every later entry, then at
    most ONE damaged entry, then every completed entry — intact and in order.  Nothing else. -/
theorem truncate_then_append (es es' : List (Text × Text)) (hts : TsOk es) (hts' : TsOk es')
    (k : Nat) :
    ∃ (j : Nat) (damaged : List Text), j ≤ es.length ∧ damaged.length ≤ 1 ∧
      (stores utf8 (es.take j)).length ≤ k ∧
      (j < es.length → k < (stores utf8 (es.take (j + 1))).length) ∧
      (j = es.length → damaged = []) ∧
      loadFile utf8 ((stores utf8 es).take k ++ stores utf8 es')
        = (es'.map (·.2)).reverse ++ damaged.reverse ++ ((es.take j).map (·.2)).reverse := by
  obtain ⟨j, x, h1, h2, h3, h4, h5, h6⟩ :=
    loadRun_cut_then utf8_good es hts es' hts' k ⟨[], []⟩
  refine ⟨j, x, h1, h2, h3, h4, h5, ?_⟩
  simp only [add_nil_lines, List.nil_append] at h6
  simp [loadFile, h6]

/-- TRUNCATION SAFETY (the statement of the property): loading a file cut at any byte never
    fails (`loadFile` is total) and returns every previously completed entry intact and in
    order, with at most the final entry damaged. -/
theorem truncate_safe (es : List (Text × Text)) (hts : TsOk es) (k : Nat) :
    ∃ (j : Nat) (damaged : List Text), j ≤ es.length ∧ damaged.length ≤ 1 ∧
      (stores utf8 (es.take j)).length ≤ k ∧
      (j < es.length → k < (stores utf8 (es.take (j + 1))).length) ∧
      (j = es.length → damaged = []) ∧
      loadFile utf8 ((stores utf8 es).take k) = damaged ++ ((es.take j).map (·.2)).reverse := by
  obtain ⟨j, x, h1, h2, h3, h4, h5, h6⟩ :=
    truncate_then_append es [] hts (fun _ h => by simp at h) k
  refine ⟨j, x, h1, h2, h3, h4, h5, ?_⟩
  have hx : x.reverse = x := by
    match x, h2 with
    | [], _ => rfl
    | [_], _ => rfl
  simpa [stores, hx] using h6

-- a cut in the middle of the 4-byte character of the second entry: first entry intact, one damaged
example : loadFile utf8 ((stores utf8 [("T".toList, "a\n+".toList), ("T".toList, [Char.ofNat 0x1F600])]).take 19)
    = [[], "a\n+".toList] := by decide
-- … and a later append is framed correctly
example : loadFile utf8 ((stores utf8 [("T".toList, "a\n+".toList), ("T".toList, [Char.ofNat 0x1F600])]).take 19
      ++ stores utf8 [("T".toList, "#z".toList)])
    = ["#z".toList, [repl], "a\n+".toList] := by decide

/-- RECOVERY after a torn write (the statement of the property): entries appended after the
    crash are all read back, and the torn record costs at most one damaged entry. -/
theorem recover_after_truncate (es es' : List (Text × Text)) (hts : TsOk es) (hts' : TsOk es')
    (k : Nat) :
    ∃ rest : List Text,
      loadFile utf8 ((stores utf8 es).take k ++ stores utf8 es') = (es'.map (·.2)).reverse ++ rest := by
  obtain ⟨j, x, _, _, _, _, _, h6⟩ := truncate_then_append es es' hts hts' k
  exact ⟨_, by rw [h6, List.append_assoc]⟩

/-- RECOVERY FROM ANYTHING: whatever bytes the file contains (torn records, foreign data, invalid
    UTF-8 …), loading does not fail and entries appended afterwards are all read back, in order,
    in front of whatever the old content yields. -/
theorem recover_after_garbage (g : Bytes) (es' : List (Text × Text)) (hts' : TsOk es') :
    ∃ junk : List Text,
      loadFile utf8 (g ++ stores utf8 es') = (es'.map (·.2)).reverse ++ junk := by
  obtain ⟨junk, h⟩ := loadRun_garbage_then utf8_good g es' hts' ⟨[], []⟩
  exact ⟨junk.reverse, by simp [loadFile, h]⟩

example : loadFile utf8 ([0x2B, 0xF0, 0x9F, 10, 0xFF, 0x2B] ++ stores utf8 [("T".toList, "x".toList)])
    = ["x".toList, [repl]] := by decide

/-! ## (b) ThreadedHistory -/

/-- NO OVERLAP ⇒ EXACT: in every interleaving in which no `append_string` overlaps a `load()`
    call (appends before the first load, between loads, after loads: all allowed), every
    `load()` call — when it has delivered the read that saw `_loaded` — has yielded exactly the
    logical history
    (everything stored or inserted so far), each entry once, newest first; and before that it
    has yielded a prefix of it. -/
theorem no_overlap_exact (old pre : List Text) (sched : List Step)
    (hok : okRun (TH.init old pre) sched) :
    let st := run (TH.init old pre) sched
    ((st.cpc = .waiting ∨ st.cpc = .reading ∨ st.cpc = .yielding) → st.out <+: view st) ∧
    (st.cpc = .yielding → st.sawDone = true →
      (step st .cyield).out = view st ∧ (step st .cyield).cpc = .done) ∧
    (st.loaded = true → st.getStrings = (view st).reverse) := by
  have h := inv_run _ (inv_init old pre) sched hok
  refine ⟨out_prefix _ h, final_read _ h, ?_⟩
  intro hl
  simp [TH.getStrings, h.full hl]

example : okRun (TH.init ["o1".toList] ["p1".toList])
    [.ains "x".toList, .astore, .cstart, .lreset, .lsnap, .lappend, .cwait, .cread, .cyield, .lnotify,
     .lappend, .lnotify, .lappend, .lnotify, .ldone, .lfinal, .cwait] := by
  simp [okRun, allowed, step, TH.init]

example : (run (TH.init ["o1".toList] ["p1".toList])
    [.ains "x".toList, .astore, .cstart, .lreset, .lsnap, .lappend, .cwait, .cread, .cyield, .lnotify,
     .lappend, .lnotify, .lappend, .lnotify, .ldone, .lfinal, .cwait, .cread, .cyield]).out
    = ["x".toList, "p1".toList, "o1".toList] := by decide

/-- LOADER ONLY: with no concurrent `append_string` at all, under every interleaving of the
    loader thread and the consumer, the consumer has always yielded a prefix of, and on
    completion exactly, the sequence inline loading gives: the reversed store. -/
theorem loader_only_equiv (old pre : List Text) (sched : List Step) (hs : noAppend sched) :
    let st := run (TH.init old pre) sched
    st.storage = old ++ pre ∧
    ((st.cpc = .waiting ∨ st.cpc = .reading ∨ st.cpc = .yielding) →
      st.out <+: (old ++ pre).reverse) ∧
    (st.cpc = .done → st.out = (old ++ pre).reverse) := by
  obtain ⟨h, hst⟩ := inv2_run _ (inv2_init old pre) sched hs
  have hst' : (run (TH.init old pre) sched).storage = old ++ pre := by rw [hst]; rfl
  have hv : view (run (TH.init old pre) sched) = (old ++ pre).reverse := by
    simp [view, h.nopend, hst']
  refine ⟨hst', ?_, ?_⟩
  · intro hc; rw [← hv]; exact out_prefix _ h.inv hc
  · intro hc; rw [h.doneOut hc, hst']

/-- BACKGROUND = INLINE for a file-backed history: `ThreadedHistory(FileHistory(path))` whose file
    holds the records `es` — under every loader / consumer interleaving a completed `load()` has
    yielded exactly what `list(FileHistory(path).load_history_strings())` returns. -/
theorem threaded_file_equiv (es : List (Text × Text)) (hts : TsOk es) (sched : List Step)
    (hs : noAppend sched) :
    let st := run (TH.init (es.map (·.2)) []) sched
    st.cpc = .done → st.out = loadFile utf8 (stores utf8 es) := by
  intro st hc
  have := (loader_only_equiv (es.map (·.2)) [] sched hs).2.2 hc
  rw [roundtrip es hts]
  simpa using this

example : noAppend [.cstart, .cwait, .cread, .cyield, .lreset, .lsnap, .lappend, .lnotify, .cwait, .cread, .cyield,
    .lappend, .ldone, .lnotify, .ldone, .lfinal, .cwait, .cread, .cyield] := by simp [noAppend]

example : (run (TH.init ["o1".toList] ["p1".toList])
    [.cstart, .cwait, .cread, .cyield, .lreset, .lsnap, .lappend, .lnotify, .cwait, .cread, .cyield,
     .lappend, .ldone, .lnotify, .ldone, .lfinal, .cwait, .cread, .cyield]).cpc = .done := by decide

/-- TERMINATION / no lost wake-up: (1) a schedule of loader / consumer steps that all change
    the state is never longer than the `budget` of its start state, and (2) as long as a
    `load()` call is in progress (in any state reachable without overlap) some loader / consumer
    step changes the state.  So every maximal run completes the `load()` call. -/
theorem loader_terminates (old pre : List Text) (sched : List Step)
    (hok : okRun (TH.init old pre) sched) :
    let st := run (TH.init old pre) sched
    (∀ more : List Step, (∀ a ∈ more, isLoadStep a) → effective st more →
        more.length ≤ budget st) ∧
    ((st.cpc = .waiting ∨ st.cpc = .reading ∨ st.cpc = .yielding) →
      ∃ a, isLoadStep a ∧ step st a ≠ st) := by
  have h := inv_run _ (inv_init old pre) sched hok
  refine ⟨?_, no_deadlock _ h⟩
  intro more hm he
  have := sched_bounded _ more hm he
  omega

example : budget (run (TH.init ["o1".toList, "o2".toList] []) [.cstart]) = 35 := by decide

/-! ### F5: an `append_string` that overlaps a `load()` — the property is FALSE -/

/-- F5a: appended between the loader's list reset and its snapshot → yielded TWICE -/
theorem f5_duplicate :
    (run (TH.init ["o1".toList, "o2".toList] [])
      [.cstart, .lreset, .ains "NEW".toList, .astore, .lsnap, .lappend, .lnotify, .lappend,
       .lnotify, .lappend, .lnotify, .ldone, .lfinal, .cwait, .cread, .cyield]).out
    = ["NEW".toList, "NEW".toList, "o2".toList, "o1".toList] := by decide

/-- F5b: appended after the consumer took one item: `insert(0, …)` shifts `items_yielded` →
    an old item is yielded twice and the new entry NEVER -/
theorem f5_shift :
    (run (TH.init ["o1".toList, "o2".toList] [])
      [.cstart, .lreset, .lsnap, .lappend, .lnotify, .cwait, .cread, .cyield, .ains "NEW".toList, .astore,
       .lappend, .lnotify, .ldone, .lfinal, .cwait, .cread, .cyield]).out
    = ["o2".toList, "o2".toList, "o1".toList] := by decide

/-- F5c: `append_string` inserted before the list reset and stored after the snapshot → the
    entry is in the store but neither yielded nor in `get_strings()` -/
theorem f5_lost :
    let st := run (TH.init ["o1".toList] [])
      [.cstart, .ains "NEW".toList, .lreset, .lsnap, .astore, .lappend, .lnotify, .ldone, .lfinal,
       .cwait, .cread, .cyield]
    st.out = ["o1".toList] ∧ st.cpc = .done ∧ st.getStrings = ["o1".toList] ∧
    st.storage = ["o1".toList, "NEW".toList] := by decide

/-- the three schedules are exactly outside the proved region: each contains a step that is not
    `allowed` (an `append_string` while a `load()` is in progress) -/
theorem f5_not_okRun :
    ¬ okRun (TH.init ["o1".toList, "o2".toList] [])
      [.cstart, .lreset, .ains "NEW".toList, .astore, .lsnap] ∧
    ¬ okRun (TH.init ["o1".toList, "o2".toList] [])
      [.cstart, .lreset, .lsnap, .lappend, .lnotify, .cwait, .cread, .cyield, .ains "NEW".toList] ∧
    ¬ okRun (TH.init ["o1".toList] []) [.cstart, .ains "NEW".toList] := by
  simp [okRun, allowed, step, TH.init]

/-! ### several simultaneous `load()` calls (no `append_string`) -/

/-- SAFETY for any number of simultaneous `load()` calls, whether or not the loader's notify
    loops copy the event list, under every interleaving at per-`event.set()` granularity:
    each call has yielded a prefix of, and once finished exactly, the inline sequence. -/
theorem multi_safe (copy : Bool) (old pre : List Text) (sched : List StepN) (i : Nat) :
    let st := runN copy (THn.init old pre) sched
    ((st.cons i).active → (st.cons i).out <+: (old ++ pre).reverse) ∧
    ((st.cons i).cpc = .done → (st.cons i).out = (old ++ pre).reverse) := by
  have h := safeN_run copy _ (safeN_init old pre) sched
  refine ⟨fun ha => ?_, h.done i⟩
  rw [h.out i ha]; exact List.take_prefix _ _

/-- NO LOST WAKE-UP when the notify loops run over a copy of `_string_load_events` (the proposed
    fix): as long as any `load()` call is in progress, some loader / consumer step changes the state. -/
theorem multi_no_lost_wakeup (old pre : List Text) (sched : List StepN) (i : Nat) :
    let st := runN true (THn.init old pre) sched
    (st.cons i).active → ∃ a, isLoadStepN a ∧ stepN true st a ≠ st := by
  intro st ha
  have hs := safeN_run true _ (safeN_init old pre) sched
  exact no_deadlockN _ (wakeN_run _ (safeN_init old pre) (wakeN_init old pre) sched) i ha

/-- TERMINATION with several simultaneous `load()` calls (notify loops over a copy): a schedule of
    loader / consumer steps that all change the state is never longer than `budgetN` of its start
    state; together with `multi_no_lost_wakeup`: every maximal run completes every `load()` call. -/
theorem multi_terminates (old pre : List Text) (sched : List StepN) :
    let st := runN true (THn.init old pre) sched
    ∀ more : List StepN, (∀ a ∈ more, isLoadStepN a) → effectiveN st more →
      more.length ≤ budgetN st := by
  intro st more hm he
  have := sched_boundedN st (regN_run true _ (regN_init old pre) sched) more hm he
  omega

example : budgetN (runN true (THn.init ["a".toList] []) [.cstart 0, .cstart 1]) = 46 := by decide

/-- the schedule of F5d: both calls drained and waiting, `_loaded` set, the final loop sets the
    first event, that call finishes and unregisters, the loop continues -/
def f5dSchedule : List StepN :=
  [.cstart 0, .cstart 1, .lreset, .lsnap, .cwait 0, .cread 0, .cyield 0, .cwait 1, .cread 1, .cyield 1,
   .ldone, .lfinal, .cwait 0, .cread 0, .cyield 0, .lset]

/-- F5d: LOST WAKE-UP with the live list (the current code): after the schedule the loader thread
    has ended, the second `load()` call waits on an event nobody will set, and it stays there
    under EVERY continuation — it never terminates. -/
theorem f5d_lost_wakeup (more : List StepN) :
    let st := runN false (THn.init [] []) f5dSchedule
    st.lpc = .finished ∧ (st.cons 1).cpc = .waiting ∧ (st.cons 1).ev = false ∧
    ((runN false st more).cons 1).cpc = .waiting := by
  have h1 : (runN false (THn.init [] []) f5dSchedule).lpc = .finished := by decide
  have h2 : ((runN false (THn.init [] []) f5dSchedule).cons 1).cpc = .waiting := by decide
  have h3 : ((runN false (THn.init [] []) f5dSchedule).cons 1).ev = false := by decide
  exact ⟨h1, h2, h3, stuck_run false _ 1 h1 h2 h3 more⟩

-- with the copy the same schedule leaves the second call's event set, and it completes
example : ((runN true (THn.init [] []) (f5dSchedule ++ [.lset, .cwait 1, .cread 1, .cyield 1])).cons 1).cpc
    = .done := by decide

example : ((runN true (THn.init ["a".toList] []) [.cstart 0, .cstart 1, .lreset]).cons 1).active := by
  unfold Cons.active; decide

end Ptk.C13
