/-
  Cross-model agreement, cluster "Document queries and motions" (src/prompt_toolkit/document.py).

  Misc module: `leading_whitespace_in_current_line`, `last_non_blank_of_current_line_position`,
  `get_column_cursor_position`, `is_cursor_at_the_end_of_line` (C16), the matching-line loops and the
  paragraph motions of C08 against the canonical C02.
-/
import Ptk.Props.AgreeDocLines
namespace Ptk.AgreeDoc
open Ptk.Py Ptk.C02

/-! ### `leading_whitespace_in_current_line`, `last_non_blank_of_current_line_position`,
    `get_column_cursor_position`, `is_cursor_at_the_end_of_line` (C16) -/

/-- document.py::Document.leading_whitespace_in_current_line — `C02.leadingWs` vs `C01.leadingWs` -/
theorem leadingWs_01 (isSpace : Char → Bool) (b : C01.Buf) :
    C01.leadingWs isSpace b = C02.leadingWs isSpace (of01 b) := by
  simp only [C01.leadingWs, C02.leadingWs, C02.lstrip, currentLine_01]
  exact (take_length_sub_dropWhile _ _).symm

/-- document.py::Document.leading_whitespace_in_current_line — `C02.leadingWs` vs `C14.leadingWs` -/
theorem leadingWs_14 (isSp : Char → Bool) (t : Text) (cur : Nat) :
    C14.leadingWs isSp t cur = C02.leadingWs isSp ⟨t, cur⟩ := by
  simp only [C14.leadingWs, C02.leadingWs, C02.lstrip, currentLine_14]
  exact (take_length_sub_dropWhile _ _).symm

theorem rstrip_08 (isSpace : Char → Bool) (l : Text) : C08.rstrip isSpace l = C02.rstrip isSpace l := rfl

/-- document.py::Document.last_non_blank_of_current_line_position — `C02.lastNonBlank` vs
    `C08.textObject … .gUnder` -/
theorem lastNonBlank_08 (isSpace sp : Char → Bool) (d : C08.Doc) (hc : d.cur ≤ d.text.length) (count : Nat) :
    (C08.textObject isSpace sp d count .gUnder).start = C02.lastNonBlank isSpace (of08 d) := by
  have hcol := col_08 d
  have hcl := col_eq_lineBefore d.text d.cur hc
  simp only [of08] at hcol hcl
  simp only [C08.textObject, C02.lastNonBlank, currentLine_08, rstrip_08, of08, hcol]
  split
  · rename_i he
    have he' : C02.currentLine ⟨d.text, d.cur⟩ = [] := by simpa using he
    have h0 : (C02.lineBefore ⟨d.text, d.cur⟩).length = 0 := by
      have := congrArg List.length he'
      simp only [C02.currentLine, List.length_append, List.length_nil] at this
      omega
    simp only [he', C02.rstrip, List.reverse_nil, List.dropWhile_nil, List.length_nil, hcl, h0]
    omega
  · simp only; omega

/-- document.py::Document.get_column_cursor_position — `C02.columnPos d (count - 1)` vs
    `C08.textObject … .bar` (the handler passes `event.arg - 1`) -/
theorem columnPos_08 (isSpace sp : Char → Bool) (d : C08.Doc) (count : Nat) :
    (C08.textObject isSpace sp d count .bar).start = C02.columnPos (of08 d) ((count : Int) - 1) := by
  simp only [C08.textObject, C02.columnPos, currentLine_08, col_08 d]
  omega

theorem prev_char_eq (t : Text) (k : Nat) (hc : k + 1 ≤ t.length) :
    (t.take (k + 1)).reverse.head? = t[k]? := by
  simp only [List.head?_reverse, List.getLast?_take]
  have : k < t.length := by omega
  simp [List.getElem?_eq_getElem this]

theorem eol_aux (r a : Text) :
    ((match a.head? with
      | none => true
      | some c => c == '\n') &&
     (match r.head? with
      | some c => c != '\n'
      | none => false)) =
    ((match a.head? with
      | none => true
      | some c => c == '\n') &&
      decide ((r.takeWhile (fun x => decide (x ≠ '\n'))).length +
            (a.takeWhile (fun x => decide (x ≠ '\n'))).length > 0)) := by
  cases a with
  | nil =>
    cases r with
    | nil => simp
    | cons x r => by_cases hx : x = '\n' <;> simp [hx]
  | cons y a =>
    by_cases hy : y = '\n'
    · cases r with
      | nil => simp [hy]
      | cons x r => by_cases hx : x = '\n' <;> simp [hx, hy]
    · have hy' : (y == '\n') = false := by simp [hy]
      simp [hy']

/-- document.py::Document.is_cursor_at_the_end_of_line — `C02.isAtEndOfLine` (together with
    `len(current_line) > 0`, as `_fix_vi_cursor_position` uses it) vs `C16.viAtEolNonEmpty` -/
theorem isAtEndOfLine_16 (b : C16.Buf) (hc : b.cur ≤ b.text.length) :
    C16.viAtEolNonEmpty b =
      (C02.isAtEndOfLine ⟨b.text, b.cur⟩ && decide ((C02.currentLine ⟨b.text, b.cur⟩).length > 0)) := by
  obtain ⟨ls, w, cur⟩ := b
  generalize ht : C16.Buf.text ⟨ls, w, cur⟩ = t at hc ⊢
  simp only at hc
  have hd : t[cur]? = (t.drop cur).head? := by simp
  simp only [C16.viAtEolNonEmpty, C02.isAtEndOfLine, currentChar_mk, C02.currentLine, C02.lineBefore,
    C02.lineAfter, C02.rpartLast, C02.partFirst, C02.Doc.before, C02.Doc.after, List.length_append,
    List.length_reverse, ht, hd]
  refine Eq.trans ?_ (eol_aux (t.take cur).reverse (t.drop cur))
  congr 1
  cases cur with
  | zero => simp
  | succ k => simp only [prev_char_eq t k hc]; rfl


/-! ### `find_next_matching_line` / `find_previous_matching_line`, `start_of_paragraph` / `end_of_paragraph` -/

/-- (auxiliary) the `match_func` of the paragraph motions: `C08.blankLine = C02.blankLine` -/
theorem blankLine_08 : C08.blankLine = C02.blankLine := rfl

/-- the loop shared by the two functions: `C08.scanMatch` reports the list index, `C02.matchLoop` the value
    `mk index`; same loop, same `count` handling (for every integer `count`, `mk`, start index, `res`) -/
theorem scanMatch_matchLoop (f : Text → Bool) (mk : Nat → Int) (ls : List Text) (i : Nat) (count : Int)
    (res : Option Nat) :
    (C08.scanMatch f ls i count res).map mk = C02.matchLoop f mk count i (res.map mk) ls := by
  induction ls generalizing i count res with
  | nil => rfl
  | cons l ls ih =>
    simp only [C08.scanMatch, C02.matchLoop]
    by_cases hf : f l = true
    · simp only [hf, if_true]
      split
      · rfl
      · rw [ih]; rfl
    · have hf' : f l = false := by simpa using hf
      simp only [hf', Bool.false_eq_true, if_false]
      split
      · rfl
      · rw [ih]

/-- document.py::Document.find_previous_matching_line — `C02.findPreviousMatchingLine` vs the
    `C08.scanMatch` call of `C08.startOfParagraph` (line index `-1 - i`) -/
theorem findPreviousMatchingLine_08 (f : Text → Bool) (d : C08.Doc) (count : Int) :
    (C08.scanMatch f ((C08.lines d.text).take d.row).reverse 0 count none).map (fun (i : Nat) => -1 - (i : Int))
      = C02.findPreviousMatchingLine f (of08 d) count := by
  rw [scanMatch_matchLoop, C02.findPreviousMatchingLine, row_08 d]; rfl

/-- document.py::Document.find_next_matching_line — `C02.findNextMatchingLine` vs the `C08.scanMatch`
    call of `C08.endOfParagraph` (line index `1 + i`) -/
theorem findNextMatchingLine_08 (f : Text → Bool) (d : C08.Doc) (count : Int) :
    (C08.scanMatch f ((C08.lines d.text).drop (d.row + 1)) 0 count none).map (fun (i : Nat) => 1 + (i : Int))
      = C02.findNextMatchingLine f (of08 d) count := by
  rw [scanMatch_matchLoop, C02.findNextMatchingLine, row_08 d]; rfl

/-- document.py::Document.start_of_paragraph — `C02.startOfParagraph` (count ≥ 0) vs `C08.startOfParagraph` -/
theorem startOfParagraph_08 (isSpace : Char → Bool) (d : C08.Doc) (count : Nat) (before : Bool) :
    C08.startOfParagraph isSpace d count before = C02.startOfParagraph isSpace (of08 d) (count : Int) before := by
  have h := findPreviousMatchingLine_08 (C02.blankLine isSpace) d (count : Int)
  simp only [C08.startOfParagraph, C02.startOfParagraph, ← h, blankLine_08]
  cases C08.scanMatch (C02.blankLine isSpace) ((C08.lines d.text).take d.row).reverse 0 (count : Int) none with
  | none => rfl
  | some i =>
    have hne : (-1 - (i : Int)) ≠ 0 := by omega
    have e : -(-1 - (i : Int)) = ((i + 1 : Nat) : Int) := by omega
    simp only [Option.map_some, hne, ne_eq, not_false_eq_true, if_true, e, ← cursorUp_08 d (i + 1)]

/-- document.py::Document.end_of_paragraph — `C02.endOfParagraph` (count ≥ 0) vs `C08.endOfParagraph` -/
theorem endOfParagraph_08 (isSpace : Char → Bool) (d : C08.Doc) (count : Nat) (after : Bool) :
    C08.endOfParagraph isSpace d count after = C02.endOfParagraph isSpace (of08 d) (count : Int) after := by
  have h := findNextMatchingLine_08 (C02.blankLine isSpace) d (count : Int)
  simp only [C08.endOfParagraph, C02.endOfParagraph, ← h, blankLine_08]
  cases C08.scanMatch (C02.blankLine isSpace) ((C08.lines d.text).drop (d.row + 1)) 0 (count : Int) none with
  | none => rfl
  | some i =>
    have hne : ¬ (((i + 1 : Nat) : Int) = 0) := by omega
    have e : (1 + (i : Int)) = ((i + 1 : Nat) : Int) := by omega
    simp only [Option.map_some, e, ← cursorDown_08 d (i + 1)]
    rw [if_pos hne]


/-! ### the excluded region of the theorems above that assume `cur ≤ len(text)`

  `Document.__init__` asserts `cursor_position <= len(text)`; beyond it the models below really compute
  different values (witnesses), so the hypothesis cannot be dropped.  Neither correspondence exercises
  this region (the real constructor raises `AssertionError`). -/

def spc (c : Char) : Bool := c == ' '

theorem col_09_outside_disagree : C09.col ⟨[], 1⟩ ≠ C02.col ⟨[], 1⟩ := by decide
theorem col_01_outside_disagree : C01.cursorCol ⟨[], 1⟩ ≠ C02.col ⟨[], 1⟩ := by decide
theorem cursorRight_09_outside_disagree :
    ((C09.moveRight ⟨[], 1⟩ (-1)).cur : Int) ≠ (1 : Int) + C02.cursorRight ⟨[], 1⟩ (-1) := by decide
theorem cursorLeft_14_outside_disagree :
    (min (C14.col [] 1) 1 : Int) ≠ -C02.cursorLeft ⟨[], 1⟩ 1 := by decide
theorem lastNonBlank_08_outside_disagree :
    (C08.textObject spc spc ⟨[], 1⟩ 1 .gUnder).start ≠ C02.lastNonBlank spc ⟨[], 1⟩ := by decide
theorem startOfDocument_08_outside_disagree :
    -((C08.Doc.before ⟨[], 1⟩).length : Int) ≠ C02.startOfDocument ⟨[], 1⟩ := by decide
theorem endOfDocument_08_outside_disagree :
    ((C08.Doc.after ⟨[], 1⟩).length : Int) ≠ C02.endOfDocument ⟨[], 1⟩ := by decide
theorem isAtEndOfLine_16_outside_disagree :
    C16.viAtEolNonEmpty ⟨[['a']], 0, 2⟩ ≠
      (C02.isAtEndOfLine ⟨['a'], 2⟩ && decide ((C02.currentLine ⟨['a'], 2⟩).length > 0)) := by decide

end Ptk.AgreeDoc
