/-
  C04 — the filter algebra (`Ptk.Model.C04F`): the normalising constructors behind `&`, `|`, `~`
  (flattening of nested lists, `_remove_duplicates` by object identity, the one-element collapse,
  the `Always`/`Never` short cuts and the three memo dictionaries) preserve the meaning of the
  expression, for every assignment of the conditions, in every heap reachable by these operations.
-/
import Ptk.Model.C04F
namespace Ptk.C04

/-! ### evaluation of lists -/

@[simp] theorem eval_andL (ρ : Nat → Bool) (i : Nat) (l : List F) : (F.andL i l).eval ρ = evalAll ρ l := by
  simp [F.eval]
@[simp] theorem eval_orL (ρ : Nat → Bool) (i : Nat) (l : List F) : (F.orL i l).eval ρ = evalAny ρ l := by
  simp [F.eval]
@[simp] theorem eval_inv (ρ : Nat → Bool) (i : Nat) (f : F) : (F.inv i f).eval ρ = !(f.eval ρ) := by
  simp [F.eval]
@[simp] theorem eval_always (ρ : Nat → Bool) : F.always.eval ρ = true := by simp [F.eval]
@[simp] theorem eval_never (ρ : Nat → Bool) : F.never.eval ρ = false := by simp [F.eval]

theorem evalAll_append (ρ : Nat → Bool) (a b : List F) :
    evalAll ρ (a ++ b) = (evalAll ρ a && evalAll ρ b) := by
  induction a with
  | nil => simp [evalAll]
  | cons x xs ih => simp [evalAll, ih, Bool.and_assoc]

theorem evalAny_append (ρ : Nat → Bool) (a b : List F) :
    evalAny ρ (a ++ b) = (evalAny ρ a || evalAny ρ b) := by
  induction a with
  | nil => simp [evalAny]
  | cons x xs ih => simp [evalAny, ih, Bool.or_assoc]

theorem evalAll_mem {ρ : Nat → Bool} {l : List F} {f : F} (hm : f ∈ l) (h : evalAll ρ l = true) :
    f.eval ρ = true := by
  induction l with
  | nil => cases hm
  | cons x xs ih =>
    simp [evalAll] at h
    rcases List.mem_cons.mp hm with rfl | hm
    · exact h.1
    · exact ih hm h.2

theorem evalAny_mem {ρ : Nat → Bool} {l : List F} {f : F} (hm : f ∈ l) (h : f.eval ρ = true) :
    evalAny ρ l = true := by
  induction l with
  | nil => cases hm
  | cons x xs ih =>
    simp [evalAny]
    rcases List.mem_cons.mp hm with rfl | hm
    · exact Or.inl h
    · exact Or.inr (ih hm)

/-! ### `_remove_duplicates` -/

/-- identity decides equality on the set `U` of live objects -/
def UniqueIds (U : F → Prop) : Prop := ∀ f g, U f → U g → f.id = g.id → f = g

theorem any_same_mem {U : F → Prop} (hu : UniqueIds U) {acc : List F} {f : F}
    (hacc : ∀ x ∈ acc, U x) (hf : U f) (h : acc.any (fun g => g.same f) = true) : f ∈ acc := by
  simp only [List.any_eq_true] at h
  obtain ⟨g, hg, hs⟩ := h
  have : g = f := hu g f (hacc g hg) hf (by simpa [F.same] using hs)
  exact this ▸ hg

theorem removeDupAux_spec {U : F → Prop} (hu : UniqueIds U) (ρ : Nat → Bool) (acc l : List F)
    (hacc : ∀ x ∈ acc, U x) (hl : ∀ x ∈ l, U x) :
    evalAll ρ (removeDupAux acc l) = (evalAll ρ acc && evalAll ρ l) ∧
    evalAny ρ (removeDupAux acc l) = (evalAny ρ acc || evalAny ρ l) ∧
    (∀ x ∈ removeDupAux acc l, x ∈ acc ∨ x ∈ l) := by
  induction l generalizing acc with
  | nil => simp [removeDupAux, evalAll, evalAny]
  | cons f fs ih =>
    have hf : U f := hl f (List.mem_cons_self ..)
    have hfs : ∀ x ∈ fs, U x := fun x hx => hl x (List.mem_cons_of_mem _ hx)
    simp only [removeDupAux]
    split
    · next hany =>
      have hmem := any_same_mem hu hacc hf hany
      obtain ⟨i1, i2, i3⟩ := ih acc hacc hfs
      refine ⟨?_, ?_, ?_⟩
      · rw [i1]; simp only [evalAll]
        cases ha : evalAll ρ acc
        · simp
        · simp [evalAll_mem hmem ha]
      · rw [i2]; simp only [evalAny]
        cases hfe : f.eval ρ
        · simp
        · simp [evalAny_mem hmem hfe]
      · intro x hx
        rcases i3 x hx with h | h
        · exact Or.inl h
        · exact Or.inr (List.mem_cons_of_mem _ h)
    · have hacc' : ∀ x ∈ acc ++ [f], U x := by
        intro x hx
        rcases List.mem_append.mp hx with h | h
        · exact hacc x h
        · simp at h; exact h ▸ hf
      obtain ⟨i1, i2, i3⟩ := ih (acc ++ [f]) hacc' hfs
      refine ⟨?_, ?_, ?_⟩
      · rw [i1, evalAll_append]; simp [evalAll, Bool.and_assoc]
      · rw [i2, evalAny_append]; simp [evalAny, Bool.or_assoc]
      · intro x hx
        rcases i3 x hx with h | h
        · rcases List.mem_append.mp h with h | h
          · exact Or.inl h
          · simp at h; exact Or.inr (h ▸ List.mem_cons_self ..)
        · exact Or.inr (List.mem_cons_of_mem _ h)

/-! ### flattening -/

theorem flattenAnd_spec (ρ : Nat → Bool) (l : List F) :
    evalAll ρ (flattenAnd l) = evalAll ρ l ∧
    ∀ x ∈ flattenAnd l, x ∈ l ∨ ∃ i l', F.andL i l' ∈ l ∧ x ∈ l' := by
  induction l with
  | nil => simp [flattenAnd, evalAll]
  | cons f fs ih =>
    have hgen : ∀ (g : F), (∀ i l', g ≠ .andL i l') → flattenAnd (g :: fs) = g :: flattenAnd fs := by
      intro g hg
      cases g <;> simp [flattenAnd] at hg ⊢
    cases f with
    | andL i l' =>
      simp only [flattenAnd]
      refine ⟨by rw [evalAll_append, ih.1]; simp [evalAll], ?_⟩
      intro x hx
      rcases List.mem_append.mp hx with h | h
      · exact Or.inr ⟨i, l', List.mem_cons_self .., h⟩
      · rcases ih.2 x h with h | ⟨j, l'', h1, h2⟩
        · exact Or.inl (List.mem_cons_of_mem _ h)
        · exact Or.inr ⟨j, l'', List.mem_cons_of_mem _ h1, h2⟩
    | always | never | cond _ _ | orL _ _ | inv _ _ =>
      simp only [flattenAnd, evalAll, ih.1, true_and]
      intro x hx
      rcases List.mem_cons.mp hx with h | h
      · exact Or.inl (h ▸ List.mem_cons_self ..)
      · rcases ih.2 x h with h | ⟨j, l'', h1, h2⟩
        · exact Or.inl (List.mem_cons_of_mem _ h)
        · exact Or.inr ⟨j, l'', List.mem_cons_of_mem _ h1, h2⟩

theorem flattenOr_spec (ρ : Nat → Bool) (l : List F) :
    evalAny ρ (flattenOr l) = evalAny ρ l ∧
    ∀ x ∈ flattenOr l, x ∈ l ∨ ∃ i l', F.orL i l' ∈ l ∧ x ∈ l' := by
  induction l with
  | nil => simp [flattenOr, evalAny]
  | cons f fs ih =>
    cases f with
    | orL i l' =>
      simp only [flattenOr]
      refine ⟨by rw [evalAny_append, ih.1]; simp [evalAny], ?_⟩
      intro x hx
      rcases List.mem_append.mp hx with h | h
      · exact Or.inr ⟨i, l', List.mem_cons_self .., h⟩
      · rcases ih.2 x h with h | ⟨j, l'', h1, h2⟩
        · exact Or.inl (List.mem_cons_of_mem _ h)
        · exact Or.inr ⟨j, l'', List.mem_cons_of_mem _ h1, h2⟩
    | always | never | cond _ _ | andL _ _ | inv _ _ =>
      simp only [flattenOr, evalAny, ih.1, true_and]
      intro x hx
      rcases List.mem_cons.mp hx with h | h
      · exact Or.inl (h ▸ List.mem_cons_self ..)
      · rcases ih.2 x h with h | ⟨j, l'', h1, h2⟩
        · exact Or.inl (List.mem_cons_of_mem _ h)
        · exact Or.inr ⟨j, l'', List.mem_cons_of_mem _ h1, h2⟩

/-! ### the heap invariant -/

/-- `f` is a filter object that exists in heap `h` -/
def Known (h : Heap) (f : F) : Prop := f = .always ∨ f = .never ∨ f ∈ h.objs

structure HeapOK (h : Heap) : Prop where
  next2 : 2 ≤ h.next
  idlt : ∀ f ∈ h.objs, 2 ≤ f.id ∧ f.id < h.next
  uniq : ∀ f ∈ h.objs, ∀ g ∈ h.objs, f.id = g.id → f = g
  closedA : ∀ i l, F.andL i l ∈ h.objs → ∀ x ∈ l, x ∈ h.objs
  closedO : ∀ i l, F.orL i l ∈ h.objs → ∀ x ∈ l, x ∈ h.objs
  /-- every memoised `a & b` is a live object with the meaning of the conjunction -/
  andOK : ∀ i j r, lookup2 h.andC i j = some r → i < h.next ∧ j < h.next ∧ Known h r ∧
      ∀ a ∈ h.objs, ∀ b ∈ h.objs, a.id = i → b.id = j → ∀ ρ, r.eval ρ = (a.eval ρ && b.eval ρ)
  orOK : ∀ i j r, lookup2 h.orC i j = some r → i < h.next ∧ j < h.next ∧ Known h r ∧
      ∀ a ∈ h.objs, ∀ b ∈ h.objs, a.id = i → b.id = j → ∀ ρ, r.eval ρ = (a.eval ρ || b.eval ρ)
  invOK : ∀ i r, lookup1 h.invC i = some r → i < h.next ∧ Known h r ∧
      ∀ a ∈ h.objs, a.id = i → ∀ ρ, r.eval ρ = !(a.eval ρ)

theorem heapOK_empty : HeapOK {} := by
  constructor <;> simp [lookup2, lookup1]

theorem HeapOK.uniqueIds {h : Heap} (ok : HeapOK h) : UniqueIds (· ∈ h.objs) :=
  fun f g hf hg e => ok.uniq f hf g hg e

theorem Known.cons {h : Heap} {f : F} (hk : Known h f) (x : F) (n : Nat) :
    Known { h with next := n, objs := x :: h.objs } f := by
  rcases hk with h | h | h
  · exact Or.inl h
  · exact Or.inr (Or.inl h)
  · exact Or.inr (Or.inr (List.mem_cons_of_mem _ h))

/-- allocating a fresh object whose children are live keeps the invariant -/
theorem HeapOK.alloc {h : Heap} (ok : HeapOK h) (x : F) (hid : x.id = h.next)
    (hA : ∀ i l, x = .andL i l → ∀ y ∈ l, y ∈ h.objs)
    (hO : ∀ i l, x = .orL i l → ∀ y ∈ l, y ∈ h.objs) :
    HeapOK { h with next := h.next + 1, objs := x :: h.objs } := by
  have h2 := ok.next2
  constructor
  · show 2 ≤ h.next + 1; omega
  · intro f hf
    rcases List.mem_cons.mp hf with rfl | hf
    · show 2 ≤ f.id ∧ f.id < h.next + 1; omega
    · have := ok.idlt f hf; exact ⟨this.1, Nat.lt_succ_of_lt this.2⟩
  · intro f hf g hg e
    rcases List.mem_cons.mp hf with e1 | hf' <;> rcases List.mem_cons.mp hg with e2 | hg'
    · rw [e1, e2]
    · have := (ok.idlt g hg').2; rw [e1] at e; omega
    · have := (ok.idlt f hf').2; rw [e2] at e; omega
    · exact ok.uniq f hf' g hg' e
  · intro i l hm y hy
    rcases List.mem_cons.mp hm with e | hm
    · exact List.mem_cons_of_mem _ (hA i l e.symm y hy)
    · exact List.mem_cons_of_mem _ (ok.closedA i l hm y hy)
  · intro i l hm y hy
    rcases List.mem_cons.mp hm with e | hm
    · exact List.mem_cons_of_mem _ (hO i l e.symm y hy)
    · exact List.mem_cons_of_mem _ (ok.closedO i l hm y hy)
  · intro i j r hl
    obtain ⟨a1, a2, a3, a4⟩ := ok.andOK i j r hl
    refine ⟨Nat.lt_succ_of_lt a1, Nat.lt_succ_of_lt a2, a3.cons x _, ?_⟩
    intro a ha b hb ea eb
    rcases List.mem_cons.mp ha with rfl | ha
    · omega
    · rcases List.mem_cons.mp hb with rfl | hb
      · omega
      · exact a4 a ha b hb ea eb
  · intro i j r hl
    obtain ⟨a1, a2, a3, a4⟩ := ok.orOK i j r hl
    refine ⟨Nat.lt_succ_of_lt a1, Nat.lt_succ_of_lt a2, a3.cons x _, ?_⟩
    intro a ha b hb ea eb
    rcases List.mem_cons.mp ha with rfl | ha
    · omega
    · rcases List.mem_cons.mp hb with rfl | hb
      · omega
      · exact a4 a ha b hb ea eb
  · intro i r hl
    obtain ⟨a1, a3, a4⟩ := ok.invOK i r hl
    refine ⟨Nat.lt_succ_of_lt a1, a3.cons x _, ?_⟩
    intro a ha ea
    rcases List.mem_cons.mp ha with rfl | ha
    · omega
    · exact a4 a ha ea

/-- result of an operator: new heap is fine, contains the result and all old objects -/
structure OpOK (h : Heap) (r : Heap × F) : Prop where
  ok : HeapOK r.1
  known : Known r.1 r.2
  mono : ∀ f, Known h f → Known r.1 f

theorem createAnd_spec {h : Heap} (ok : HeapOK h) (fs : List F) (hfs : ∀ x ∈ fs, x ∈ h.objs) :
    OpOK h (createAnd h fs) ∧ (createAnd h fs).1.andC = h.andC ∧ (createAnd h fs).1.orC = h.orC ∧
    (createAnd h fs).1.invC = h.invC ∧ (h.next ≤ (createAnd h fs).1.next) ∧
    ∀ ρ, (createAnd h fs).2.eval ρ = evalAll ρ fs := by
  have hflat : ∀ x ∈ flattenAnd fs, x ∈ h.objs := by
    intro x hx
    rcases (flattenAnd_spec (fun _ => true) fs).2 x hx with h1 | ⟨i, l', h1, h2⟩
    · exact hfs x h1
    · exact ok.closedA i l' (hfs _ h1) x h2
  have hd := fun ρ => removeDupAux_spec ok.uniqueIds ρ [] (flattenAnd fs) (by simp) hflat
  have hdm : ∀ x ∈ removeDup (flattenAnd fs), x ∈ h.objs := by
    intro x hx
    rcases (hd (fun _ => true)).2.2 x hx with h1 | h1
    · cases h1
    · exact hflat x h1
  have hev : ∀ ρ, evalAll ρ (removeDup (flattenAnd fs)) = evalAll ρ fs := by
    intro ρ
    have := (hd ρ).1
    simp only [evalAll, Bool.true_and] at this
    rw [removeDup, this, (flattenAnd_spec ρ fs).1]
  unfold createAnd
  split
  · next x hx =>
    have hxm : x ∈ h.objs := hdm x (by rw [hx]; simp)
    refine ⟨⟨ok, Or.inr (Or.inr hxm), fun f hf => hf⟩, rfl, rfl, rfl, Nat.le_refl _, ?_⟩
    intro ρ
    have := hev ρ
    rw [hx] at this
    simpa [evalAll] using this
  · next hne =>
    refine ⟨⟨?_, Or.inr (Or.inr (List.mem_cons_self ..)), fun f hf => hf.cons _ _⟩, rfl, rfl, rfl,
      Nat.le_succ _, ?_⟩
    · apply ok.alloc _ rfl
      · intro i l e y hy
        cases e
        exact hdm y hy
      · intro i l e; cases e
    · intro ρ
      simp only [eval_andL]
      exact hev ρ

theorem createOr_spec {h : Heap} (ok : HeapOK h) (fs : List F) (hfs : ∀ x ∈ fs, x ∈ h.objs) :
    OpOK h (createOr h fs) ∧ (createOr h fs).1.andC = h.andC ∧ (createOr h fs).1.orC = h.orC ∧
    (createOr h fs).1.invC = h.invC ∧ (h.next ≤ (createOr h fs).1.next) ∧
    ∀ ρ, (createOr h fs).2.eval ρ = evalAny ρ fs := by
  have hflat : ∀ x ∈ flattenOr fs, x ∈ h.objs := by
    intro x hx
    rcases (flattenOr_spec (fun _ => true) fs).2 x hx with h1 | ⟨i, l', h1, h2⟩
    · exact hfs x h1
    · exact ok.closedO i l' (hfs _ h1) x h2
  have hd := fun ρ => removeDupAux_spec ok.uniqueIds ρ [] (flattenOr fs) (by simp) hflat
  have hdm : ∀ x ∈ removeDup (flattenOr fs), x ∈ h.objs := by
    intro x hx
    rcases (hd (fun _ => true)).2.2 x hx with h1 | h1
    · cases h1
    · exact hflat x h1
  have hev : ∀ ρ, evalAny ρ (removeDup (flattenOr fs)) = evalAny ρ fs := by
    intro ρ
    have := (hd ρ).2.1
    simp only [evalAny, Bool.false_or] at this
    rw [removeDup, this, (flattenOr_spec ρ fs).1]
  unfold createOr
  split
  · next x hx =>
    have hxm : x ∈ h.objs := hdm x (by rw [hx]; simp)
    refine ⟨⟨ok, Or.inr (Or.inr hxm), fun f hf => hf⟩, rfl, rfl, rfl, Nat.le_refl _, ?_⟩
    intro ρ
    have := hev ρ
    rw [hx] at this
    simpa [evalAny] using this
  · next hne =>
    refine ⟨⟨?_, Or.inr (Or.inr (List.mem_cons_self ..)), fun f hf => hf.cons _ _⟩, rfl, rfl, rfl,
      Nat.le_succ _, ?_⟩
    · apply ok.alloc _ rfl
      · intro i l e; cases e
      · intro i l e y hy
        cases e
        exact hdm y hy
    · intro ρ
      simp only [eval_orL]
      exact hev ρ

end Ptk.C04
