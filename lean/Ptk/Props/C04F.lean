/-
  C04 — the filter algebra (`Ptk.Model.C04F`): the normalising constructors behind `&`, `|`, `~`
  (flattening of nested lists, `_remove_duplicates` by object identity, the one-element collapse,
  the `Always`/`Never` short cuts and the three memo dictionaries) preserve the meaning of the
  expression, for every assignment of the conditions, in every heap reachable by these operations.
-/
import Ptk.Model.C04F
namespace Ptk.C04

/-! ### evaluation of lists -/

@[simp] theorem eval_andL (ρ : Nat → Bool) (i : Nat) (l : List F) : (F.andL i l).eval ρ = evalAll ρ l := by
  simp [F.eval]
@[simp] theorem eval_orL (ρ : Nat → Bool) (i : Nat) (l : List F) : (F.orL i l).eval ρ = evalAny ρ l := by
  simp [F.eval]
@[simp] theorem eval_inv (ρ : Nat → Bool) (i : Nat) (f : F) : (F.inv i f).eval ρ = !(f.eval ρ) := by
  simp [F.eval]
@[simp] theorem eval_always (ρ : Nat → Bool) : F.always.eval ρ = true := by simp [F.eval]
@[simp] theorem eval_never (ρ : Nat → Bool) : F.never.eval ρ = false := by simp [F.eval]

theorem evalAll_append (ρ : Nat → Bool) (a b : List F) :
    evalAll ρ (a ++ b) = (evalAll ρ a && evalAll ρ b) := by
  induction a with
  | nil => simp [evalAll]
  | cons x xs ih => simp [evalAll, ih, Bool.and_assoc]

theorem evalAny_append (ρ : Nat → Bool) (a b : List F) :
    evalAny ρ (a ++ b) = (evalAny ρ a || evalAny ρ b) := by
  induction a with
  | nil => simp [evalAny]
  | cons x xs ih => simp [evalAny, ih, Bool.or_assoc]

theorem evalAll_mem {ρ : Nat → Bool} {l : List F} {f : F} (hm : f ∈ l) (h : evalAll ρ l = true) :
    f.eval ρ = true := by
  induction l with
  | nil => cases hm
  | cons x xs ih =>
    simp [evalAll] at h
    rcases List.mem_cons.mp hm with rfl | hm
    · exact h.1
    · exact ih hm h.2

theorem evalAny_mem {ρ : Nat → Bool} {l : List F} {f : F} (hm : f ∈ l) (h : f.eval ρ = true) :
    evalAny ρ l = true := by
  induction l with
  | nil => cases hm
  | cons x xs ih =>
    simp [evalAny]
    rcases List.mem_cons.mp hm with rfl | hm
    · exact Or.inl h
    · exact Or.inr (ih hm)

/-! ### `_remove_duplicates` -/

/-- identity decides equality on the set `U` of live objects -/
def UniqueIds (U : F → Prop) : Prop := ∀ f g, U f → U g → f.id = g.id → f = g

theorem any_same_mem {U : F → Prop} (hu : UniqueIds U) {acc : List F} {f : F}
    (hacc : ∀ x ∈ acc, U x) (hf : U f) (h : acc.any (fun g => g.same f) = true) : f ∈ acc := by
  simp only [List.any_eq_true] at h
  obtain ⟨g, hg, hs⟩ := h
  have : g = f := hu g f (hacc g hg) hf (by simpa [F.same] using hs)
  exact this ▸ hg

theorem removeDupAux_spec {U : F → Prop} (hu : UniqueIds U) (ρ : Nat → Bool) (acc l : List F)
    (hacc : ∀ x ∈ acc, U x) (hl : ∀ x ∈ l, U x) :
    evalAll ρ (removeDupAux acc l) = (evalAll ρ acc && evalAll ρ l) ∧
    evalAny ρ (removeDupAux acc l) = (evalAny ρ acc || evalAny ρ l) ∧
    (∀ x ∈ removeDupAux acc l, x ∈ acc ∨ x ∈ l) := by
  induction l generalizing acc with
  | nil => simp [removeDupAux, evalAll, evalAny]
  | cons f fs ih =>
    have hf : U f := hl f (List.mem_cons_self ..)
    have hfs : ∀ x ∈ fs, U x := fun x hx => hl x (List.mem_cons_of_mem _ hx)
    simp only [removeDupAux]
    split
    · next hany =>
      have hmem := any_same_mem hu hacc hf hany
      obtain ⟨i1, i2, i3⟩ := ih acc hacc hfs
      refine ⟨?_, ?_, ?_⟩
      · rw [i1]; simp only [evalAll]
        cases ha : evalAll ρ acc
        · simp
        · simp [evalAll_mem hmem ha]
      · rw [i2]; simp only [evalAny]
        cases hfe : f.eval ρ
        · simp
        · simp [evalAny_mem hmem hfe]
      · intro x hx
        rcases i3 x hx with h | h
        · exact Or.inl h
        · exact Or.inr (List.mem_cons_of_mem _ h)
    · have hacc' : ∀ x ∈ acc ++ [f], U x := by
        intro x hx
        rcases List.mem_append.mp hx with h | h
        · exact hacc x h
        · simp at h; exact h ▸ hf
      obtain ⟨i1, i2, i3⟩ := ih (acc ++ [f]) hacc' hfs
      refine ⟨?_, ?_, ?_⟩
      · rw [i1, evalAll_append]; simp [evalAll, Bool.and_assoc]
      · rw [i2, evalAny_append]; simp [evalAny, Bool.or_assoc]
      · intro x hx
        rcases i3 x hx with h | h
        · rcases List.mem_append.mp h with h | h
          · exact Or.inl h
          · simp at h; exact Or.inr (h ▸ List.mem_cons_self ..)
        · exact Or.inr (List.mem_cons_of_mem _ h)

/-! ### flattening -/

theorem flattenAnd_spec (ρ : Nat → Bool) (l : List F) :
    evalAll ρ (flattenAnd l) = evalAll ρ l ∧
    ∀ x ∈ flattenAnd l, x ∈ l ∨ ∃ i l', F.andL i l' ∈ l ∧ x ∈ l' := by
  induction l with
  | nil => simp [flattenAnd, evalAll]
  | cons f fs ih =>
    have hgen : ∀ (g : F), (∀ i l', g ≠ .andL i l') → flattenAnd (g :: fs) = g :: flattenAnd fs := by
      intro g hg
      cases g <;> simp [flattenAnd] at hg ⊢
    cases f with
    | andL i l' =>
      simp only [flattenAnd]
      refine ⟨by rw [evalAll_append, ih.1]; simp [evalAll], ?_⟩
      intro x hx
      rcases List.mem_append.mp hx with h | h
      · exact Or.inr ⟨i, l', List.mem_cons_self .., h⟩
      · rcases ih.2 x h with h | ⟨j, l'', h1, h2⟩
        · exact Or.inl (List.mem_cons_of_mem _ h)
        · exact Or.inr ⟨j, l'', List.mem_cons_of_mem _ h1, h2⟩
    | always | never | cond _ _ | orL _ _ | inv _ _ =>
      simp only [flattenAnd, evalAll, ih.1, true_and]
      intro x hx
      rcases List.mem_cons.mp hx with h | h
      · exact Or.inl (h ▸ List.mem_cons_self ..)
      · rcases ih.2 x h with h | ⟨j, l'', h1, h2⟩
        · exact Or.inl (List.mem_cons_of_mem _ h)
        · exact Or.inr ⟨j, l'', List.mem_cons_of_mem _ h1, h2⟩

theorem flattenOr_spec (ρ : Nat → Bool) (l : List F) :
    evalAny ρ (flattenOr l) = evalAny ρ l ∧
    ∀ x ∈ flattenOr l, x ∈ l ∨ ∃ i l', F.orL i l' ∈ l ∧ x ∈ l' := by
  induction l with
  | nil => simp [flattenOr, evalAny]
  | cons f fs ih =>
    cases f with
    | orL i l' =>
      simp only [flattenOr]
      refine ⟨by rw [evalAny_append, ih.1]; simp [evalAny], ?_⟩
      intro x hx
      rcases List.mem_append.mp hx with h | h
      · exact Or.inr ⟨i, l', List.mem_cons_self .., h⟩
      · rcases ih.2 x h with h | ⟨j, l'', h1, h2⟩
        · exact Or.inl (List.mem_cons_of_mem _ h)
        · exact Or.inr ⟨j, l'', List.mem_cons_of_mem _ h1, h2⟩
    | always | never | cond _ _ | andL _ _ | inv _ _ =>
      simp only [flattenOr, evalAny, ih.1, true_and]
      intro x hx
      rcases List.mem_cons.mp hx with h | h
      · exact Or.inl (h ▸ List.mem_cons_self ..)
      · rcases ih.2 x h with h | ⟨j, l'', h1, h2⟩
        · exact Or.inl (List.mem_cons_of_mem _ h)
        · exact Or.inr ⟨j, l'', List.mem_cons_of_mem _ h1, h2⟩

/-! ### the heap invariant -/

/-- `f` is a filter object that exists in heap `h` -/
def Known (h : Heap) (f : F) : Prop := f = .always ∨ f = .never ∨ f ∈ h.objs

structure HeapOK (h : Heap) : Prop where
  next2 : 2 ≤ h.next
  idlt : ∀ f ∈ h.objs, 2 ≤ f.id ∧ f.id < h.next
  uniq : ∀ f ∈ h.objs, ∀ g ∈ h.objs, f.id = g.id → f = g
  closedA : ∀ i l, F.andL i l ∈ h.objs → ∀ x ∈ l, x ∈ h.objs
  closedO : ∀ i l, F.orL i l ∈ h.objs → ∀ x ∈ l, x ∈ h.objs
  /-- every memoised `a & b` is a live object with the meaning of the conjunction -/
  andOK : ∀ i j r, lookup2 h.andC i j = some r → i < h.next ∧ j < h.next ∧ Known h r ∧
      ∀ a ∈ h.objs, ∀ b ∈ h.objs, a.id = i → b.id = j → ∀ ρ, r.eval ρ = (a.eval ρ && b.eval ρ)
  orOK : ∀ i j r, lookup2 h.orC i j = some r → i < h.next ∧ j < h.next ∧ Known h r ∧
      ∀ a ∈ h.objs, ∀ b ∈ h.objs, a.id = i → b.id = j → ∀ ρ, r.eval ρ = (a.eval ρ || b.eval ρ)
  invOK : ∀ i r, lookup1 h.invC i = some r → i < h.next ∧ Known h r ∧
      ∀ a ∈ h.objs, a.id = i → ∀ ρ, r.eval ρ = !(a.eval ρ)

theorem heapOK_empty : HeapOK {} := by
  constructor <;> simp [lookup2, lookup1]

theorem HeapOK.uniqueIds {h : Heap} (ok : HeapOK h) : UniqueIds (· ∈ h.objs) :=
  fun f g hf hg e => ok.uniq f hf g hg e

theorem Known.of_objs {h h' : Heap} {f : F} (hk : Known h f) (hs : ∀ g ∈ h.objs, g ∈ h'.objs) :
    Known h' f := by
  rcases hk with h | h | h
  · exact Or.inl h
  · exact Or.inr (Or.inl h)
  · exact Or.inr (Or.inr (hs _ h))

theorem Known.cons {h : Heap} {f : F} (hk : Known h f) (x : F) (n : Nat) :
    Known { h with next := n, objs := x :: h.objs } f :=
  hk.of_objs fun _ hg => List.mem_cons_of_mem _ hg

/-- allocating a fresh object whose children are live keeps the invariant -/
theorem HeapOK.alloc {h : Heap} (ok : HeapOK h) (x : F) (hid : x.id = h.next)
    (hA : ∀ i l, x = .andL i l → ∀ y ∈ l, y ∈ h.objs)
    (hO : ∀ i l, x = .orL i l → ∀ y ∈ l, y ∈ h.objs) :
    HeapOK { h with next := h.next + 1, objs := x :: h.objs } := by
  have h2 := ok.next2
  constructor
  · show 2 ≤ h.next + 1; omega
  · intro f hf
    rcases List.mem_cons.mp hf with rfl | hf
    · show 2 ≤ f.id ∧ f.id < h.next + 1; omega
    · have := ok.idlt f hf; exact ⟨this.1, Nat.lt_succ_of_lt this.2⟩
  · intro f hf g hg e
    rcases List.mem_cons.mp hf with e1 | hf' <;> rcases List.mem_cons.mp hg with e2 | hg'
    · rw [e1, e2]
    · have := (ok.idlt g hg').2; rw [e1] at e; omega
    · have := (ok.idlt f hf').2; rw [e2] at e; omega
    · exact ok.uniq f hf' g hg' e
  · intro i l hm y hy
    rcases List.mem_cons.mp hm with e | hm
    · exact List.mem_cons_of_mem _ (hA i l e.symm y hy)
    · exact List.mem_cons_of_mem _ (ok.closedA i l hm y hy)
  · intro i l hm y hy
    rcases List.mem_cons.mp hm with e | hm
    · exact List.mem_cons_of_mem _ (hO i l e.symm y hy)
    · exact List.mem_cons_of_mem _ (ok.closedO i l hm y hy)
  · intro i j r hl
    obtain ⟨a1, a2, a3, a4⟩ := ok.andOK i j r hl
    refine ⟨Nat.lt_succ_of_lt a1, Nat.lt_succ_of_lt a2, a3.cons x _, ?_⟩
    intro a ha b hb ea eb
    rcases List.mem_cons.mp ha with rfl | ha
    · omega
    · rcases List.mem_cons.mp hb with rfl | hb
      · omega
      · exact a4 a ha b hb ea eb
  · intro i j r hl
    obtain ⟨a1, a2, a3, a4⟩ := ok.orOK i j r hl
    refine ⟨Nat.lt_succ_of_lt a1, Nat.lt_succ_of_lt a2, a3.cons x _, ?_⟩
    intro a ha b hb ea eb
    rcases List.mem_cons.mp ha with rfl | ha
    · omega
    · rcases List.mem_cons.mp hb with rfl | hb
      · omega
      · exact a4 a ha b hb ea eb
  · intro i r hl
    obtain ⟨a1, a3, a4⟩ := ok.invOK i r hl
    refine ⟨Nat.lt_succ_of_lt a1, a3.cons x _, ?_⟩
    intro a ha ea
    rcases List.mem_cons.mp ha with rfl | ha
    · omega
    · exact a4 a ha ea

/-- result of an operator: new heap is fine, contains the result and all old objects -/
structure OpOK (h : Heap) (r : Heap × F) : Prop where
  ok : HeapOK r.1
  known : Known r.1 r.2
  mono : ∀ f, Known h f → Known r.1 f

theorem createAnd_spec {h : Heap} (ok : HeapOK h) (fs : List F) (hfs : ∀ x ∈ fs, x ∈ h.objs) :
    OpOK h (createAnd h fs) ∧ (createAnd h fs).1.andC = h.andC ∧ (createAnd h fs).1.orC = h.orC ∧
    (createAnd h fs).1.invC = h.invC ∧ (h.next ≤ (createAnd h fs).1.next) ∧
    ∀ ρ, (createAnd h fs).2.eval ρ = evalAll ρ fs := by
  have hflat : ∀ x ∈ flattenAnd fs, x ∈ h.objs := by
    intro x hx
    rcases (flattenAnd_spec (fun _ => true) fs).2 x hx with h1 | ⟨i, l', h1, h2⟩
    · exact hfs x h1
    · exact ok.closedA i l' (hfs _ h1) x h2
  have hd := fun ρ => removeDupAux_spec ok.uniqueIds ρ [] (flattenAnd fs) (by simp) hflat
  have hdm : ∀ x ∈ removeDup (flattenAnd fs), x ∈ h.objs := by
    intro x hx
    rcases (hd (fun _ => true)).2.2 x hx with h1 | h1
    · cases h1
    · exact hflat x h1
  have hev : ∀ ρ, evalAll ρ (removeDup (flattenAnd fs)) = evalAll ρ fs := by
    intro ρ
    have := (hd ρ).1
    simp only [evalAll, Bool.true_and] at this
    rw [removeDup, this, (flattenAnd_spec ρ fs).1]
  unfold createAnd
  split
  · next x hx =>
    have hxm : x ∈ h.objs := hdm x (by rw [hx]; simp)
    refine ⟨⟨ok, Or.inr (Or.inr hxm), fun f hf => hf⟩, rfl, rfl, rfl, Nat.le_refl _, ?_⟩
    intro ρ
    have := hev ρ
    rw [hx] at this
    simpa [evalAll] using this
  · next hne =>
    refine ⟨⟨?_, Or.inr (Or.inr (List.mem_cons_self ..)), fun f hf => hf.cons _ _⟩, rfl, rfl, rfl,
      Nat.le_succ _, ?_⟩
    · apply ok.alloc _ rfl
      · intro i l e y hy
        cases e
        exact hdm y hy
      · intro i l e; cases e
    · intro ρ
      simp only [eval_andL]
      exact hev ρ

theorem createOr_spec {h : Heap} (ok : HeapOK h) (fs : List F) (hfs : ∀ x ∈ fs, x ∈ h.objs) :
    OpOK h (createOr h fs) ∧ (createOr h fs).1.andC = h.andC ∧ (createOr h fs).1.orC = h.orC ∧
    (createOr h fs).1.invC = h.invC ∧ (h.next ≤ (createOr h fs).1.next) ∧
    ∀ ρ, (createOr h fs).2.eval ρ = evalAny ρ fs := by
  have hflat : ∀ x ∈ flattenOr fs, x ∈ h.objs := by
    intro x hx
    rcases (flattenOr_spec (fun _ => true) fs).2 x hx with h1 | ⟨i, l', h1, h2⟩
    · exact hfs x h1
    · exact ok.closedO i l' (hfs _ h1) x h2
  have hd := fun ρ => removeDupAux_spec ok.uniqueIds ρ [] (flattenOr fs) (by simp) hflat
  have hdm : ∀ x ∈ removeDup (flattenOr fs), x ∈ h.objs := by
    intro x hx
    rcases (hd (fun _ => true)).2.2 x hx with h1 | h1
    · cases h1
    · exact hflat x h1
  have hev : ∀ ρ, evalAny ρ (removeDup (flattenOr fs)) = evalAny ρ fs := by
    intro ρ
    have := (hd ρ).2.1
    simp only [evalAny, Bool.false_or] at this
    rw [removeDup, this, (flattenOr_spec ρ fs).1]
  unfold createOr
  split
  · next x hx =>
    have hxm : x ∈ h.objs := hdm x (by rw [hx]; simp)
    refine ⟨⟨ok, Or.inr (Or.inr hxm), fun f hf => hf⟩, rfl, rfl, rfl, Nat.le_refl _, ?_⟩
    intro ρ
    have := hev ρ
    rw [hx] at this
    simpa [evalAny] using this
  · next hne =>
    refine ⟨⟨?_, Or.inr (Or.inr (List.mem_cons_self ..)), fun f hf => hf.cons _ _⟩, rfl, rfl, rfl,
      Nat.le_succ _, ?_⟩
    · apply ok.alloc _ rfl
      · intro i l e; cases e
      · intro i l e y hy
        cases e
        exact hdm y hy
    · intro ρ
      simp only [eval_orL]
      exact hev ρ

/-! ### the operators -/

def F.isConst : F → Bool
  | .always => true
  | .never => true
  | _ => false

theorem Known.mem {h : Heap} {f : F} (hk : Known h f) (hc : f.isConst = false) : f ∈ h.objs := by
  rcases hk with rfl | rfl | hm
  · simp [F.isConst] at hc
  · simp [F.isConst] at hc
  · exact hm

theorem fAnd_hit (h : Heap) (a b r : F) (ha : a.isConst = false) (hb : b.isConst = false)
    (hl : lookup2 h.andC a.id b.id = some r) : fAnd h a b = (h, r) := by
  cases a <;> cases b <;> simp_all [fAnd, F.isConst]

theorem fAnd_miss (h : Heap) (a b : F) (ha : a.isConst = false) (hb : b.isConst = false)
    (hl : lookup2 h.andC a.id b.id = none) :
    fAnd h a b = ({ (createAnd h [a, b]).1 with andC := ((a.id, b.id), (createAnd h [a, b]).2) ::
                    (createAnd h [a, b]).1.andC }, (createAnd h [a, b]).2) := by
  cases a <;> cases b <;> simp_all [fAnd, F.isConst]

theorem fOr_hit (h : Heap) (a b r : F) (ha : a.isConst = false) (hb : b.isConst = false)
    (hl : lookup2 h.orC a.id b.id = some r) : fOr h a b = (h, r) := by
  cases a <;> cases b <;> simp_all [fOr, F.isConst]

theorem fOr_miss (h : Heap) (a b : F) (ha : a.isConst = false) (hb : b.isConst = false)
    (hl : lookup2 h.orC a.id b.id = none) :
    fOr h a b = ({ (createOr h [a, b]).1 with orC := ((a.id, b.id), (createOr h [a, b]).2) ::
                    (createOr h [a, b]).1.orC }, (createOr h [a, b]).2) := by
  cases a <;> cases b <;> simp_all [fOr, F.isConst]

theorem fInv_hit (h : Heap) (a r : F) (ha : a.isConst = false)
    (hl : lookup1 h.invC a.id = some r) : fInv h a = (h, r) := by
  cases a <;> simp_all [fInv, F.isConst]

theorem fInv_miss (h : Heap) (a : F) (ha : a.isConst = false) (hl : lookup1 h.invC a.id = none) :
    fInv h a = ({ h with next := h.next + 1, invC := (a.id, F.inv h.next a) :: h.invC,
                          objs := F.inv h.next a :: h.objs }, F.inv h.next a) := by
  cases a <;> simp_all [fInv, F.isConst]

/-- **`a & b` means conjunction**, and the heap stays well formed -/
theorem fAnd_spec {h : Heap} (ok : HeapOK h) (a b : F) (ha : Known h a) (hb : Known h b) :
    OpOK h (fAnd h a b) ∧ ∀ ρ, (fAnd h a b).2.eval ρ = (a.eval ρ && b.eval ρ) := by
  by_cases hca : a.isConst = true
  · cases a <;> simp [F.isConst] at hca
    · exact ⟨⟨ok, hb, fun _ hf => hf⟩, by simp [fAnd]⟩
    · exact ⟨⟨ok, ha, fun _ hf => hf⟩, by simp [fAnd]⟩
  have hca : a.isConst = false := by simpa using hca
  by_cases hcb : b.isConst = true
  · cases b <;> simp [F.isConst] at hcb
    · have : fAnd h a .always = (h, a) := by cases a <;> simp_all [fAnd, F.isConst]
      rw [this]; exact ⟨⟨ok, ha, fun _ hf => hf⟩, by simp⟩
    · have : fAnd h a .never = (h, .never) := by cases a <;> simp_all [fAnd, F.isConst]
      rw [this]; exact ⟨⟨ok, hb, fun _ hf => hf⟩, by simp⟩
  have hcb : b.isConst = false := by simpa using hcb
  have ham := ha.mem hca
  have hbm := hb.mem hcb
  cases hl : lookup2 h.andC a.id b.id with
  | some r =>
    rw [fAnd_hit h a b r hca hcb hl]
    obtain ⟨_, _, k, e⟩ := ok.andOK _ _ r hl
    exact ⟨⟨ok, k, fun _ hf => hf⟩, e a ham b hbm rfl rfl⟩
  | none =>
    rw [fAnd_miss h a b hca hcb hl]
    obtain ⟨⟨ok', k', m'⟩, c1, c2, c3, c4, ev⟩ := createAnd_spec ok [a, b] (by
      intro x hx; simp at hx; rcases hx with rfl | rfl <;> assumption)
    have ham' := (m' a ha).mem hca
    have hbm' := (m' b hb).mem hcb
    refine ⟨⟨?_, k', m'⟩, ?_⟩
    · constructor
      · exact ok'.next2
      · exact ok'.idlt
      · exact ok'.uniq
      · exact ok'.closedA
      · exact ok'.closedO
      · intro i j r hlk
        simp only [lookup2] at hlk
        split at hlk
        · next hij =>
          simp at hij hlk
          obtain ⟨hi, hj⟩ := hij
          subst hlk
          have hia := (ok'.idlt a ham').2
          have hjb := (ok'.idlt b hbm').2
          refine ⟨?_, ?_, k', ?_⟩
          · show i < (createAnd h [a, b]).1.next; omega
          · show j < (createAnd h [a, b]).1.next; omega
          intro a' ha' b' hb' ea eb ρ
          have e1 : a' = a := ok'.uniq a' ha' a ham' (by omega)
          have e2 : b' = b := ok'.uniq b' hb' b hbm' (by omega)
          rw [ev ρ, e1, e2]; simp [evalAll]
        · exact ok'.andOK i j r hlk
      · exact ok'.orOK
      · exact ok'.invOK
    · intro ρ; rw [ev ρ]; simp [evalAll]

/-- **`a | b` means disjunction** -/
theorem fOr_spec {h : Heap} (ok : HeapOK h) (a b : F) (ha : Known h a) (hb : Known h b) :
    OpOK h (fOr h a b) ∧ ∀ ρ, (fOr h a b).2.eval ρ = (a.eval ρ || b.eval ρ) := by
  by_cases hca : a.isConst = true
  · cases a <;> simp [F.isConst] at hca
    · exact ⟨⟨ok, ha, fun _ hf => hf⟩, by simp [fOr]⟩
    · exact ⟨⟨ok, hb, fun _ hf => hf⟩, by simp [fOr]⟩
  have hca : a.isConst = false := by simpa using hca
  by_cases hcb : b.isConst = true
  · cases b <;> simp [F.isConst] at hcb
    · have : fOr h a .always = (h, .always) := by cases a <;> simp_all [fOr, F.isConst]
      rw [this]; exact ⟨⟨ok, hb, fun _ hf => hf⟩, by simp⟩
    · have : fOr h a .never = (h, a) := by cases a <;> simp_all [fOr, F.isConst]
      rw [this]; exact ⟨⟨ok, ha, fun _ hf => hf⟩, by simp⟩
  have hcb : b.isConst = false := by simpa using hcb
  have ham := ha.mem hca
  have hbm := hb.mem hcb
  cases hl : lookup2 h.orC a.id b.id with
  | some r =>
    rw [fOr_hit h a b r hca hcb hl]
    obtain ⟨_, _, k, e⟩ := ok.orOK _ _ r hl
    exact ⟨⟨ok, k, fun _ hf => hf⟩, e a ham b hbm rfl rfl⟩
  | none =>
    rw [fOr_miss h a b hca hcb hl]
    obtain ⟨⟨ok', k', m'⟩, c1, c2, c3, c4, ev⟩ := createOr_spec ok [a, b] (by
      intro x hx; simp at hx; rcases hx with rfl | rfl <;> assumption)
    have ham' := (m' a ha).mem hca
    have hbm' := (m' b hb).mem hcb
    refine ⟨⟨?_, k', m'⟩, ?_⟩
    · constructor
      · exact ok'.next2
      · exact ok'.idlt
      · exact ok'.uniq
      · exact ok'.closedA
      · exact ok'.closedO
      · exact ok'.andOK
      · intro i j r hlk
        simp only [lookup2] at hlk
        split at hlk
        · next hij =>
          simp at hij hlk
          obtain ⟨hi, hj⟩ := hij
          subst hlk
          have hia := (ok'.idlt a ham').2
          have hjb := (ok'.idlt b hbm').2
          refine ⟨?_, ?_, k', ?_⟩
          · show i < (createOr h [a, b]).1.next; omega
          · show j < (createOr h [a, b]).1.next; omega
          intro a' ha' b' hb' ea eb ρ
          have e1 : a' = a := ok'.uniq a' ha' a ham' (by omega)
          have e2 : b' = b := ok'.uniq b' hb' b hbm' (by omega)
          rw [ev ρ, e1, e2]; simp [evalAny]
        · exact ok'.orOK i j r hlk
      · exact ok'.invOK
    · intro ρ; rw [ev ρ]; simp [evalAny]

/-- **`~a` means negation** -/
theorem fInv_spec {h : Heap} (ok : HeapOK h) (a : F) (ha : Known h a) :
    OpOK h (fInv h a) ∧ ∀ ρ, (fInv h a).2.eval ρ = !(a.eval ρ) := by
  by_cases hca : a.isConst = true
  · cases a <;> simp [F.isConst] at hca
    · exact ⟨⟨ok, Or.inr (Or.inl rfl), fun _ hf => hf⟩, by simp [fInv]⟩
    · exact ⟨⟨ok, Or.inl rfl, fun _ hf => hf⟩, by simp [fInv]⟩
  have hca : a.isConst = false := by simpa using hca
  have ham := ha.mem hca
  cases hl : lookup1 h.invC a.id with
  | some r =>
    rw [fInv_hit h a r hca hl]
    obtain ⟨_, k, e⟩ := ok.invOK _ r hl
    exact ⟨⟨ok, k, fun _ hf => hf⟩, e a ham rfl⟩
  | none =>
    rw [fInv_miss h a hca hl]
    have ok' := ok.alloc (F.inv h.next a) rfl (by intro i l e; cases e) (by intro i l e; cases e)
    refine ⟨⟨?_, Or.inr (Or.inr (List.mem_cons_self ..)),
      fun f hf => hf.of_objs fun _ hg => List.mem_cons_of_mem _ hg⟩, by simp⟩
    constructor
    · exact ok'.next2
    · exact ok'.idlt
    · exact ok'.uniq
    · exact ok'.closedA
    · exact ok'.closedO
    · exact ok'.andOK
    · exact ok'.orOK
    · intro i r hlk
      simp only [lookup1] at hlk
      split at hlk
      · next hi =>
        simp at hi hlk
        subst hlk
        refine ⟨by have := (ok.idlt a ham).2; show i < h.next + 1; omega,
          Or.inr (Or.inr (List.mem_cons_self ..)), ?_⟩
        intro a' ha' ea ρ
        have e1 : a' = a := ok'.uniq a' ha' a (List.mem_cons_of_mem _ ham) (by omega)
        rw [e1]; simp
      · exact ok'.invOK i r hlk

/-- `Condition(func)` allocates a fresh object whose value is the condition variable -/
theorem mkCond_spec {h : Heap} (ok : HeapOK h) (v : Nat) :
    OpOK h (mkCond h v) ∧ ∀ ρ, (mkCond h v).2.eval ρ = ρ v := by
  refine ⟨⟨?_, Or.inr (Or.inr (List.mem_cons_self ..)), fun f hf => hf.cons _ _⟩, by simp [mkCond, F.eval]⟩
  exact ok.alloc (.cond h.next v) rfl (by intro i l e; cases e) (by intro i l e; cases e)

theorem toFilter_spec (h : Heap) (b : Bool) : Known h (toFilter b) ∧ ∀ ρ, (toFilter b).eval ρ = b := by
  cases b <;> simp [toFilter, Known]

/-! ### every expression built with the operators means what it says -/

/-- expressions over condition variables, as written by a user: `c`, `True/False`, `&`, `|`, `~` -/
inductive Expr where
  | cond (v : Nat)
  | const (b : Bool)
  | and (a b : Expr)
  | or (a b : Expr)
  | not (a : Expr)

def Expr.sem (ρ : Nat → Bool) : Expr → Bool
  | .cond v => ρ v
  | .const b => b
  | .and a b => a.sem ρ && b.sem ρ
  | .or a b => a.sem ρ || b.sem ρ
  | .not a => !(a.sem ρ)

/-- build the filter object for an expression with the Python operators -/
def Expr.build (h : Heap) : Expr → Heap × F
  | .cond v => mkCond h v
  | .const b => (h, toFilter b)
  | .and a b =>
    let r1 := a.build h
    let r2 := b.build r1.1
    fAnd r2.1 r1.2 r2.2
  | .or a b =>
    let r1 := a.build h
    let r2 := b.build r1.1
    fOr r2.1 r1.2 r2.2
  | .not a =>
    let r1 := a.build h
    fInv r1.1 r1.2

/-- **filter_sem**: in any well-formed heap (whatever has been memoised before), the object
    built for an arbitrary boolean expression evaluates to the value of the expression. -/
theorem filter_sem {h : Heap} (ok : HeapOK h) (e : Expr) :
    OpOK h (e.build h) ∧ ∀ ρ, (e.build h).2.eval ρ = e.sem ρ := by
  induction e generalizing h with
  | cond v => exact mkCond_spec ok v
  | const b => exact ⟨⟨ok, (toFilter_spec h b).1, fun _ hf => hf⟩, (toFilter_spec h b).2⟩
  | and a b iha ihb =>
    obtain ⟨⟨o1, k1, m1⟩, e1⟩ := iha ok
    obtain ⟨⟨o2, k2, m2⟩, e2⟩ := ihb o1
    obtain ⟨⟨o3, k3, m3⟩, e3⟩ := fAnd_spec o2 _ _ (m2 _ k1) k2
    exact ⟨⟨o3, k3, fun f hf => m3 f (m2 f (m1 f hf))⟩, fun ρ => by
      simp only [Expr.build, Expr.sem, e3 ρ, e1 ρ, e2 ρ]⟩
  | or a b iha ihb =>
    obtain ⟨⟨o1, k1, m1⟩, e1⟩ := iha ok
    obtain ⟨⟨o2, k2, m2⟩, e2⟩ := ihb o1
    obtain ⟨⟨o3, k3, m3⟩, e3⟩ := fOr_spec o2 _ _ (m2 _ k1) k2
    exact ⟨⟨o3, k3, fun f hf => m3 f (m2 f (m1 f hf))⟩, fun ρ => by
      simp only [Expr.build, Expr.sem, e3 ρ, e1 ρ, e2 ρ]⟩
  | not a iha =>
    obtain ⟨⟨o1, k1, m1⟩, e1⟩ := iha ok
    obtain ⟨⟨o3, k3, m3⟩, e3⟩ := fInv_spec o1 _ k1
    exact ⟨⟨o3, k3, fun f hf => m3 f (m1 f hf)⟩, fun ρ => by
      simp only [Expr.build, Expr.sem, e3 ρ, e1 ρ]⟩

/-- the list length of an `_AndList` (0 for anything else) -/
def F.arity : F → Nat
  | .andL _ l => l.length
  | .orL _ l => l.length
  | _ => 0

/-- non-vacuity: `(c0 & c1) & c1` collapses by duplicate removal to a *new* two-element list, a
    second `c0 & c1` is served from the memo table (same object id 4) -/
example : ((fAnd (mkCond (mkCond {} 0).1 1).1 (mkCond {} 0).2 (mkCond (mkCond {} 0).1 1).2).2.id = 4) := by
  decide
example :
    (fAnd (fAnd (mkCond (mkCond {} 0).1 1).1 (mkCond {} 0).2 (mkCond (mkCond {} 0).1 1).2).1
      (fAnd (mkCond (mkCond {} 0).1 1).1 (mkCond {} 0).2 (mkCond (mkCond {} 0).1 1).2).2
      (mkCond (mkCond {} 0).1 1).2).2.arity = 2 := by decide
example :
    (fAnd (fAnd (mkCond (mkCond {} 0).1 1).1 (mkCond {} 0).2 (mkCond (mkCond {} 0).1 1).2).1
      (mkCond {} 0).2 (mkCond (mkCond {} 0).1 1).2).2.id = 4 := by decide

example : HeapOK (Expr.build {} (.and (.cond 0) (.not (.or (.cond 1) (.const false))))).1 :=
  (filter_sem heapOK_empty _).1.ok

end Ptk.C04
