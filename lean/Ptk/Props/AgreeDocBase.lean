/-
  Cross-model agreement, cluster "Document queries and motions" (src/prompt_toolkit/document.py).

  Base module: the translations between the state representations of the models and the
  agreement of the text views (`text_before_cursor`, `text_after_cursor`,
  `current_line_before_cursor`, `current_line_after_cursor`, `current_line`, `current_char`,
  `is_cursor_at_the_end_of_line`).

  Canonical model: `Ptk.C02` (`Doc = (text, cur)`).  Translations (all total):
    * `C08.Doc`, `C09.Buf`, `C01.Buf` are the same pair `(text, cur)`: `of08`, `of09`, `of01`;
    * `C14` and `C16` pass `(text, cur)` as two arguments: `C02.Doc.mk text cur`;
    * `C08.notNl = C09.notNl = C01.notNl = C14.notNl = C16.notNl = (· ≠ '\n')` of C02.
-/
import Ptk.Model.C02
import Ptk.Model.C08
import Ptk.Model.C09
import Ptk.Model.C01
import Ptk.Model.C14
import Ptk.Model.C16
namespace Ptk.AgreeDoc
open Ptk.Py

/-- `C08.Doc` → `C02.Doc` (same fields) -/
def of08 (d : C08.Doc) : C02.Doc := ⟨d.text, d.cur⟩
/-- `C09.Buf` → `C02.Doc` (same fields) -/
def of09 (b : C09.Buf) : C02.Doc := ⟨b.text, b.cur⟩
/-- `C01.Buf` → `C02.Doc` (same fields) -/
def of01 (b : C01.Buf) : C02.Doc := ⟨b.text, b.cur⟩

@[simp] theorem of08_text (d : C08.Doc) : (of08 d).text = d.text := rfl
@[simp] theorem of08_cur (d : C08.Doc) : (of08 d).cur = d.cur := rfl
@[simp] theorem of09_text (b : C09.Buf) : (of09 b).text = b.text := rfl
@[simp] theorem of09_cur (b : C09.Buf) : (of09 b).cur = b.cur := rfl
@[simp] theorem of01_text (b : C01.Buf) : (of01 b).text = b.text := rfl
@[simp] theorem of01_cur (b : C01.Buf) : (of01 b).cur = b.cur := rfl

/-! ### the newline predicate of every model is the one of C02 -/

theorem notNl08 : C08.notNl = (fun c => decide (c ≠ '\n')) := by
  funext c; by_cases h : c = '\n' <;> simp [C08.notNl, h]
theorem notNl09 : C09.notNl = (fun c => decide (c ≠ '\n')) := by
  funext c; by_cases h : c = '\n' <;> simp [C09.notNl, h]
theorem notNl01 : C01.notNl = (fun c => decide (c ≠ '\n')) := by
  funext c; by_cases h : c = '\n' <;> simp [C01.notNl, h]
theorem notNl14 : C14.notNl = (fun c => decide (c ≠ '\n')) := by
  funext c; by_cases h : c = '\n' <;> simp [C14.notNl, h]
theorem notNl16 : C16.notNl = (fun c => decide (c ≠ '\n')) := by
  funext c; by_cases h : c = '\n' <;> simp [C16.notNl, h]

/-! ### `Document.text_before_cursor` / `Document.text_after_cursor` -/

/-- document.py::Document.text_before_cursor — `C02.Doc.before` vs `C01.Buf.before` -/
theorem textBefore_01 (b : C01.Buf) : b.before = (of01 b).before := rfl
/-- document.py::Document.text_after_cursor — `C02.Doc.after` vs `C01.Buf.after` -/
theorem textAfter_01 (b : C01.Buf) : b.after = (of01 b).after := rfl
/-- document.py::Document.text_before_cursor — `C02.Doc.before` vs the `text.take cur` of
    `C16.docFindBack` / `C16.docFindBackX` / `C14.setHistorySearch` (the view is inlined there) -/
theorem textBefore_16 (t : Text) (cur : Nat) : t.take cur = (C02.Doc.mk t cur).before := rfl
/-- document.py::Document.text_after_cursor — `C02.Doc.after` vs the `text.drop cur` of
    `C16.docFind` / `C16.docFindX` -/
theorem textAfter_16 (t : Text) (cur : Nat) : t.drop cur = (C02.Doc.mk t cur).after := rfl
/-- `C08.Doc.before/after`, `C09.Buf.before/after` (used by every motion below) -/
theorem textBefore_08 (d : C08.Doc) : d.before = (of08 d).before := rfl
theorem textAfter_08 (d : C08.Doc) : d.after = (of08 d).after := rfl
theorem textBefore_09 (b : C09.Buf) : b.before = (of09 b).before := rfl
theorem textAfter_09 (b : C09.Buf) : b.after = (of09 b).after := rfl

/-! ### `Document.current_line_before_cursor` -/

/-- document.py::Document.current_line_before_cursor — `C02.lineBefore` vs `C08.lineBefore` -/
theorem lineBefore_08 (d : C08.Doc) : C08.lineBefore d = C02.lineBefore (of08 d) := by
  simp only [C08.lineBefore, C02.lineBefore, C02.rpartLast, notNl08]; rfl
/-- document.py::Document.current_line_before_cursor — `C02.lineBefore` vs `C09.lineBefore` -/
theorem lineBefore_09 (b : C09.Buf) : C09.lineBefore b = C02.lineBefore (of09 b) := by
  simp only [C09.lineBefore, C02.lineBefore, C02.rpartLast, notNl09]; rfl
/-- document.py::Document.current_line_before_cursor — `C02.lineBefore` vs `C01.lineBefore` -/
theorem lineBefore_01 (b : C01.Buf) : C01.lineBefore b = C02.lineBefore (of01 b) := by
  simp only [C01.lineBefore, C02.lineBefore, C02.rpartLast, notNl01]; rfl
/-- document.py::Document.current_line_before_cursor — `C02.lineBefore` vs `C14.lineBefore` -/
theorem lineBefore_14 (t : Text) (cur : Nat) : C14.lineBefore t cur = C02.lineBefore ⟨t, cur⟩ := by
  simp only [C14.lineBefore, C02.lineBefore, C02.rpartLast, notNl14]; rfl
/-- document.py::Document.current_line_before_cursor — `C02.lineBefore` (reversed) vs the inlined
    `(text.take cur).reverse.takeWhile notNl` of `C16.docFindBackX` / `C16.wordBounds` -/
theorem lineBefore_16 (t : Text) (cur : Nat) :
    (t.take cur).reverse.takeWhile C16.notNl = (C02.lineBefore ⟨t, cur⟩).reverse := by
  simp only [C02.lineBefore, C02.rpartLast, notNl16, List.reverse_reverse]; rfl

/-! ### `Document.current_line_after_cursor` -/

/-- document.py::Document.current_line_after_cursor — `C02.lineAfter` vs `C08.lineAfter` -/
theorem lineAfter_08 (d : C08.Doc) : C08.lineAfter d = C02.lineAfter (of08 d) := by
  simp only [C08.lineAfter, C02.lineAfter, C02.partFirst, notNl08]; rfl
/-- document.py::Document.current_line_after_cursor — `C02.lineAfter` vs `C09.lineAfter` -/
theorem lineAfter_09 (b : C09.Buf) : C09.lineAfter b = C02.lineAfter (of09 b) := by
  simp only [C09.lineAfter, C02.lineAfter, C02.partFirst, notNl09]; rfl
/-- document.py::Document.current_line_after_cursor — `C02.lineAfter` vs `C01.lineAfter` -/
theorem lineAfter_01 (b : C01.Buf) : C01.lineAfter b = C02.lineAfter (of01 b) := by
  simp only [C01.lineAfter, C02.lineAfter, C02.partFirst, notNl01]; rfl
/-- document.py::Document.current_line_after_cursor — `C02.lineAfter` vs `C14.lineAfter` -/
theorem lineAfter_14 (t : Text) (cur : Nat) : C14.lineAfter t cur = C02.lineAfter ⟨t, cur⟩ := by
  simp only [C14.lineAfter, C02.lineAfter, C02.partFirst, notNl14]; rfl
/-- document.py::Document.current_line_after_cursor — `C02.lineAfter` vs the inlined
    `(text.drop cur).takeWhile notNl` of `C16.docFindX` / `C16.wordBounds` -/
theorem lineAfter_16 (t : Text) (cur : Nat) :
    (t.drop cur).takeWhile C16.notNl = C02.lineAfter ⟨t, cur⟩ := by
  simp only [C02.lineAfter, C02.partFirst, notNl16]; rfl

/-! ### `Document.current_line` -/

/-- document.py::Document.current_line — `C02.currentLine` vs `C08.currentLine` -/
theorem currentLine_08 (d : C08.Doc) : C08.currentLine d = C02.currentLine (of08 d) := by
  simp only [C08.currentLine, C02.currentLine, lineBefore_08, lineAfter_08]
/-- document.py::Document.current_line — `C02.currentLine` vs `C01.currentLine` -/
theorem currentLine_01 (b : C01.Buf) : C01.currentLine b = C02.currentLine (of01 b) := by
  simp only [C01.currentLine, C02.currentLine, lineBefore_01, lineAfter_01]
/-- document.py::Document.current_line — `C02.currentLine` vs `C14.currentLine` -/
theorem currentLine_14 (t : Text) (cur : Nat) : C14.currentLine t cur = C02.currentLine ⟨t, cur⟩ := by
  simp only [C14.currentLine, C02.currentLine, lineBefore_14, lineAfter_14]

/-! ### `Document.current_char`, `Document.is_cursor_at_the_end_of_line` -/

/-- document.py::Document.current_char — `C02.currentChar` vs `C08.currentChar` -/
theorem currentChar_08 (d : C08.Doc) : C08.currentChar d = C02.currentChar (of08 d) := by
  simp only [C08.currentChar, C02.currentChar, C02.charRel, of08, Int.add_zero, Int.toNat_natCast]
  split
  · omega
  · rfl

theorem currentChar_mk (t : Text) (cur : Nat) : C02.currentChar ⟨t, cur⟩ = t[cur]? := by
  simp only [C02.currentChar, C02.charRel, Int.add_zero, Int.toNat_natCast]
  split
  · omega
  · rfl

/-- document.py::Document.is_cursor_at_the_end_of_line — `C02.isAtEndOfLine` vs `C14.atEndOfLine` -/
theorem isAtEndOfLine_14 (t : Text) (cur : Nat) : C14.atEndOfLine t cur = C02.isAtEndOfLine ⟨t, cur⟩ := by
  simp only [C14.atEndOfLine, C02.isAtEndOfLine, currentChar_mk]
  rfl

/-- document.py::Document.is_cursor_at_the_end_of_line — `C02.isAtEndOfLine` vs the test
    `currentChar d = some '\n' ∨ currentChar d = none` inlined in `C08.fixViCursor` -/
theorem isAtEndOfLine_08 (d : C08.Doc) :
    (C08.currentChar d = some '\n' ∨ C08.currentChar d = none) ↔ C02.isAtEndOfLine (of08 d) = true := by
  rw [currentChar_08]
  simp only [C02.isAtEndOfLine]
  cases C02.currentChar (of08 d) <;> simp

end Ptk.AgreeDoc
