/-
  Cross-model agreement, cluster "undo stack, validation, coroutine guard, typeahead, parser glue".

  Part 2a — validation state and the one-at-a-time validator coroutine of `Buffer`
  (src/prompt_toolkit/buffer.py: `validation_state` / `validation_error`, `_text_changed`,
  `Buffer.validate`, `Buffer.reset`, `_validate_async` cut at its await,
  `_create_auto_validate_coroutine.async_validator`, `_only_one_at_a_time.new_coroutine`):
  canonical C14 (`Ptk.C14.textChanged`, `validate`, `reset`, `vLoopTop`, `vStart`, `vFinish`,
  `setVerdict`) vs C15 (`Ptk.C15.textChanged`, `validateSync`, `reset`, `valLoop`, `valResume`,
  `startTask` / `resumeTask` on the validator tasks `vPend` / `vWait`, the flag `runV`).

  Neither state is a projection of the other (C14: history, working lines, …; C15: completion
  state, suggestion, the other two coroutines, …).  The translation is the relation `Rel` "same
  validation view":
    * same text and cursor; `validation_state` through `trVS`;
    * `validation_error`: C14 keeps the error's `cursor_position`, C15 its message — `ER a b`: both
      are the two halves of one `Option (Int × Text)`; the validators are the two halves `v14 vv` /
      `v15 vv` of ONE text-only validator `vv : Text → Option (position × message)` (C14's validator
      sees the text only, so the comparison is for validators that ignore the cursor);
    * tasks created by `_text_changed` and not yet started: C14 counts them (`vtasks`), C15 keeps
      them in its task list among the tasks of the other coroutines (`vPendCount`);
    * the `running` flag of `_only_one_at_a_time` and the coroutine suspended in
      `await validate_async(document)`: C14 `vrun = some (text, cursor)`, C15 `runV` plus one
      `vWait ⟨text, cursor⟩ none` task (`vWaits`);
    * C15 also compares `selection_state` in `self.document != document`; C14 has no selection:
      `Rel` asks for `sel = none` (preserved by all functions compared here);
    * `C14.vwt` ("validate_while_typing, with a validator present") = `cfg.hasV && cfg.vwt`.
  Every shared function maps related states to related states (for every task index C15's
  scheduler may pick).  C15 always cuts `_validate_async` at its await; C14 has the flag `vasync`:
  `Rel` fixes `vasync = true`; for `vasync = false` (a validator that does not suspend) C14's inline
  run equals C15's start step followed at once by the resume step (`vStart_sync_C14_C15`).
  Cancellation: `Ptk.C14.appExit` = C15's `cancelTask` on every validator task (`appExit_C14_C15`).
-/
import Ptk.Model.C14
import Ptk.Model.C15
namespace Ptk.AgreeCtl.Val
open Ptk.Py

/-- `ValidationState`: C14's enum ↦ C15's -/
def trVS : C14.VState → C15.VState
  | .unknown => .unknown
  | .valid => .valid
  | .invalid => .invalid

/-- the two models keep different parts of the `ValidationError` -/
def ER (a : Option Int) (b : Option Text) : Prop :=
  ∃ e : Option (Int × Text), a = e.map (·.1) ∧ b = e.map (·.2)

def v14 (vv : Text → Option (Int × Text)) : C14.Validator := fun t => (vv t).map (·.1)
def v15 (vv : Text → Option (Int × Text)) : C15.Doc → Option Text := fun d => (vv d.text).map (·.2)

def isVPend : C15.Task → Bool
  | .vPend => true
  | _ => false

def vPendCount (ts : List C15.Task) : Nat := (ts.filter isVPend).length

def waitOf : C15.Task → Option (C15.Doc × Option Nat)
  | .vWait d sel => some (d, sel)
  | _ => none

def vWaits (ts : List C15.Task) : List (C15.Doc × Option Nat) := ts.filterMap waitOf

structure Rel (s14 : C14.St) (s15 : C15.St) : Prop where
  text : s14.text = s15.text
  cur : s14.cur = s15.cur
  vs : trVS s14.vstate = s15.vs
  err : ER s14.verr s15.verr
  pend : s14.vtasks = vPendCount s15.tasks
  run : vWaits s15.tasks = s14.vrun.toList.map (fun p => (⟨p.1, p.2⟩, none))
  flag : s15.runV = s14.vrun.isSome
  sel : s15.sel = none
  async : s14.vasync = true

theorem ER_none : ER none none := ⟨none, rfl, rfl⟩

theorem vPendCount_append (ts : List C15.Task) (t : C15.Task) :
    vPendCount (ts ++ [t]) = vPendCount ts + (if isVPend t then 1 else 0) := by
  unfold vPendCount
  rw [List.filter_append]
  by_cases h : isVPend t = true <;> simp [h]

theorem vWaits_append (ts : List C15.Task) (t : C15.Task) :
    vWaits (ts ++ [t]) = vWaits ts ++ (waitOf t).toList := by
  unfold vWaits
  rw [List.filterMap_append]
  cases h : waitOf t <;> simp [h]

/-- buffer.py::Buffer._text_changed (validation part: error and state reset, one
    `_async_validator()` task created when validating while typing) — `Ptk.C14.textChanged` vs
    `Ptk.C15.textChanged` -/
theorem textChanged_C14_C15 (cfg : C15.Config) (s14 : C14.St) (s15 : C15.St) (h : Rel s14 s15)
    (hv : s14.vwt = (cfg.hasV && cfg.vwt)) :
    Rel (C14.textChanged s14) (C15.textChanged cfg s15) := by
  unfold C14.textChanged C15.textChanged
  refine ⟨h.text, h.cur, rfl, ER_none, ?_, ?_, h.flag, rfl, h.async⟩
  · simp only [hv]
    split
    · rw [vPendCount_append, ← h.pend]; rfl
    · exact h.pend
  · simp only []
    split
    · rw [vWaits_append]; simpa [waitOf] using h.run
    · exact h.run


variable (vv : Text → Option (Int × Text))

theorem ER_vv (t : Text) : ER (v14 vv t) (v15 vv ⟨t, c⟩) := ⟨vv t, rfl, rfl⟩

theorem trVS_unknown (x : C14.VState) : trVS x = .unknown ↔ x = .unknown := by
  cases x <;> simp [trVS]

theorem trVS_valid (x : C14.VState) : trVS x = .valid ↔ x = .valid := by
  cases x <;> simp [trVS]

/-- buffer.py::Buffer.validate (`set_cursor=False`) — `Ptk.C14.validate` vs `Ptk.C15.validateSync`
    (with a validator present): related states, and C14's return value is `validation_state == VALID`
    of C15's result; cached verdicts are reused by both -/
theorem validate_C14_C15 (cfg : C15.Config) (env : C15.Env) (hV : cfg.hasV = true)
    (henv : env.valid = v15 vv) (s14 : C14.St) (s15 : C15.St) (h : Rel s14 s15) :
    Rel (C14.validate (v14 vv) s14 false).1 (C15.validateSync cfg env s15) ∧
    (C14.validate (v14 vv) s14 false).2 = decide ((C15.validateSync cfg env s15).vs = .valid) := by
  unfold C14.validate C15.validateSync
  by_cases hu : s14.vstate = .unknown
  · have hu' : s15.vs = .unknown := by rw [← h.vs, hu]; rfl
    simp only [hu, hu', ne_eq, not_true_eq_false, if_false, hV, if_true, henv]
    have ht : s15.doc.text = s14.text := h.text.symm
    simp only [v14, v15, ht]
    cases hvv : vv s14.text with
    | none =>
      simp only [Option.map_none]
      exact ⟨⟨h.text, h.cur, rfl, ER_none, h.pend, h.run, h.flag, h.sel, h.async⟩, by simp⟩
    | some e =>
      simp only [Option.map_some, Bool.false_eq_true, if_false]
      exact ⟨⟨h.text, h.cur, rfl, ⟨some e, rfl, rfl⟩, h.pend, h.run, h.flag, h.sel, h.async⟩, by simp⟩
  · have hu' : s15.vs ≠ .unknown := by
      rw [← h.vs]; intro e; exact hu ((trVS_unknown _).1 e)
    simp only [ne_eq, hu, not_false_eq_true, if_true, hu']
    refine ⟨h, ?_⟩
    rw [← h.vs]
    cases s14.vstate <;> simp [trVS]

/-- buffer.py::Buffer.reset (validation part: state UNKNOWN, error None; tasks in flight are not
    touched) — `Ptk.C14.reset` vs `Ptk.C15.reset` -/
theorem reset_C14_C15 (s14 : C14.St) (s15 : C15.St) (h : Rel s14 s15) (t : Text) (c : Nat) :
    Rel (C14.reset s14 t c) (C15.reset s15 t c) := by
  unfold C14.reset C15.reset
  exact ⟨by simp [C14.St.text], rfl, rfl, ER_none, h.pend, h.run, h.flag, rfl, h.async⟩


theorem vPendCount_cons (t : C15.Task) (ts : List C15.Task) :
    vPendCount (t :: ts) = (if isVPend t then 1 else 0) + vPendCount ts := by
  unfold vPendCount
  by_cases h : isVPend t = true <;> simp [h]; omega

theorem vWaits_cons (t : C15.Task) (ts : List C15.Task) :
    vWaits (t :: ts) = (waitOf t).toList ++ vWaits ts := by
  unfold vWaits
  cases h : waitOf t <;> simp [h]

/-- removing a pending validator task -/
theorem erase_vPend : ∀ (ts : List C15.Task) (i : Nat), ts[i]? = some .vPend →
    vPendCount ts = vPendCount (ts.eraseIdx i) + 1 ∧ vWaits (ts.eraseIdx i) = vWaits ts
  | [], i, h => by simp at h
  | t :: ts, 0, h => by
    have : t = .vPend := by simpa using h
    subst this
    simp [vPendCount_cons, vWaits_cons, isVPend, waitOf]; omega
  | t :: ts, i + 1, h => by
    have ih := erase_vPend ts i (by simpa using h)
    simp only [List.eraseIdx_cons_succ, vPendCount_cons, vWaits_cons, ih.2]
    exact ⟨by omega, trivial⟩

/-- removing the suspended validator task, when it is the only one -/
theorem erase_vWait : ∀ (ts : List C15.Task) (i : Nat) (d : C15.Doc) (sel : Option Nat) (w : C15.Doc × Option Nat),
    ts[i]? = some (.vWait d sel) → vWaits ts = [w] →
    w = (d, sel) ∧ vWaits (ts.eraseIdx i) = [] ∧ vPendCount (ts.eraseIdx i) = vPendCount ts
  | [], i, _, _, _, h, _ => by simp at h
  | t :: ts, 0, d, sel, w, h, hw => by
    have : t = .vWait d sel := by simpa using h
    subst this
    simp only [vWaits_cons, waitOf, Option.toList_some, List.singleton_append, List.cons.injEq] at hw
    simp [hw.1.symm, hw.2, vPendCount_cons, isVPend]
  | t :: ts, i + 1, d, sel, w, h, hw => by
    rw [vWaits_cons] at hw
    cases hwt : waitOf t with
    | some x =>
      -- then the tail has no suspended task, contradiction with ts[i] being one
      rw [hwt] at hw
      simp only [Option.toList_some, List.singleton_append, List.cons.injEq] at hw
      exfalso
      have hmem : (d, sel) ∈ vWaits ts := by
        unfold vWaits
        rw [List.mem_filterMap]
        exact ⟨.vWait d sel, List.mem_of_getElem? (by simpa using h), rfl⟩
      rw [hw.2] at hmem
      cases hmem
    | none =>
      rw [hwt] at hw
      have ih := erase_vWait ts i d sel w (by simpa using h) (by simpa using hw)
      simp only [List.eraseIdx_cons_succ, vPendCount_cons, vWaits_cons, hwt, ih.2.1, ih.2.2]
      exact ⟨ih.1, by simp, trivial⟩


/-- buffer.py::Buffer._validate_async, the top of its `while True` loop with `running = True` —
    `Ptk.C14.vLoopTop` (suspending validator) vs `Ptk.C15.valLoop`: return (flag cleared) when the
    verdict is known, else capture `self.document` and wait -/
theorem loopTop_C14_C15 (s14 : C14.St) (s15 : C15.St)
    (htext : s14.text = s15.text) (hcur : s14.cur = s15.cur) (hvs : trVS s14.vstate = s15.vs)
    (herr : ER s14.verr s15.verr) (hpend : s14.vtasks = vPendCount s15.tasks)
    (hrun : vWaits s15.tasks = []) (hflag : s15.runV = true) (hsel : s15.sel = none)
    (hasync : s14.vasync = true) :
    Rel (C14.vLoopTop (v14 vv) s14) (C15.finishSeg (C15.valLoop s15)) := by
  unfold C14.vLoopTop C15.valLoop C15.finishSeg
  by_cases hu : s14.vstate = .unknown
  · have hu' : s15.vs = .unknown := by rw [← hvs, hu]; rfl
    rw [if_neg (by simp [hu]), if_pos hasync, if_neg (by simp [hu'])]
    refine ⟨htext, hcur, hvs, herr, ?_, ?_, ?_, hsel, hasync⟩
    · simp [vPendCount_cons, isVPend, hpend]
    · simp [vWaits_cons, waitOf, hrun, C15.St.doc, htext, hcur, hsel]
    · simp [hflag]
  · have hu' : s15.vs ≠ .unknown := by
      rw [← hvs]; intro e; exact hu ((trVS_unknown _).1 e)
    rw [if_pos (by simpa using hu), if_pos (by simpa using hu')]
    exact ⟨htext, hcur, hvs, herr, hpend, by simp [hrun], by simp, hsel, hasync⟩

/-- buffer.py::_only_one_at_a_time.new_coroutine + Buffer._create_auto_validate_coroutine.async_validator
    + Buffer._validate_async up to its await — `Ptk.C14.vStart` vs `Ptk.C15.startTask` on ANY pending
    validator task `i`: swallowed while one is running, else the flag is set and the loop entered -/
theorem vStart_C14_C15 (cfg : C15.Config) (env : C15.Env) (s14 : C14.St) (s15 : C15.St)
    (h : Rel s14 s15) (i : Nat) (hi : s15.tasks[i]? = some .vPend) :
    Rel (C14.vStart (v14 vv) s14) (C15.startTask cfg env s15 i) := by
  have he := erase_vPend s15.tasks i hi
  have hpos : s14.vtasks ≠ 0 := by rw [h.pend]; omega
  unfold C14.vStart C15.startTask
  simp only [hi, hpos, if_false]
  cases hr : s14.vrun with
  | some p =>
    have hf : s15.runV = true := by rw [h.flag, hr]; rfl
    simp only [hf, if_true, Option.isSome_some, C15.dropTask]
    refine ⟨h.text, h.cur, h.vs, h.err, ?_, ?_, ?_, h.sel, h.async⟩
    · simp only []; have := h.pend; omega
    · simp only [he.2]; rw [h.run, hr]
    · simp
  | none =>
    have hf : s15.runV = false := by rw [h.flag, hr]; rfl
    simp only [hf, Bool.false_eq_true, if_false, Option.isSome_none]
    apply loopTop_C14_C15 vv
    · exact h.text
    · exact h.cur
    · exact h.vs
    · exact h.err
    · simp only [C15.dropTask]; have := h.pend; omega
    · simp only [C15.dropTask, he.2]; rw [h.run, hr]; rfl
    · rfl
    · exact h.sel
    · exact h.async


/-- buffer.py::Buffer._validate_async after its await (`if self.document != document: continue`, else the
    verdict is stored and `finally: running = False`) — `Ptk.C14.vFinish` vs `Ptk.C15.resumeTask` on the
    suspended validator task -/
theorem vFinish_C14_C15 (cfg : C15.Config) (env : C15.Env) (henv : env.valid = v15 vv)
    (s14 : C14.St) (s15 : C15.St) (h : Rel s14 s15) (i : Nat) (doc : C15.Doc) (sel : Option Nat)
    (hi : s15.tasks[i]? = some (.vWait doc sel)) :
    Rel (C14.vFinish (v14 vv) s14) (C15.resumeTask cfg env s15 i) := by
  cases hr : s14.vrun with
  | none =>
    exfalso
    have hmem : (doc, sel) ∈ vWaits s15.tasks := by
      unfold vWaits
      rw [List.mem_filterMap]
      exact ⟨.vWait doc sel, List.mem_of_getElem? hi, rfl⟩
    rw [h.run, hr] at hmem
    cases hmem
  | some p =>
    obtain ⟨t, c⟩ := p
    have hw : vWaits s15.tasks = [(⟨t, c⟩, none)] := by rw [h.run, hr]; rfl
    have he := erase_vWait s15.tasks i doc sel _ hi hw
    have hd : doc = ⟨t, c⟩ := (Prod.mk.inj he.1).1.symm
    have hs : sel = none := (Prod.mk.inj he.1).2.symm
    have hf : s15.runV = true := by rw [h.flag, hr]; rfl
    subst hd hs
    unfold C14.vFinish C15.resumeTask
    simp only [hi, hr]
    by_cases hsame : s14.text = t ∧ s14.cur = c
    · rw [if_pos hsame]
      unfold C15.valResume
      have hdoc : ¬ ((C15.dropTask s15 i).doc ≠ ⟨t, c⟩ ∨ (C15.dropTask s15 i).sel ≠ none) := by
        simp [C15.dropTask, C15.St.doc, ← h.text, ← h.cur, hsame.1, hsame.2, h.sel]
      rw [if_neg hdoc]
      simp only [henv, v14, v15, C14.setVerdict, C15.finishSeg]
      cases hvv : vv t with
      | none =>
        simp only [Option.map_none]
        exact ⟨h.text, h.cur, rfl, ER_none, by simp [C15.dropTask, he.2.2, h.pend],
          by simp [C15.dropTask, he.2.1], rfl, h.sel, h.async⟩
      | some e =>
        simp only [Option.map_some]
        exact ⟨h.text, h.cur, rfl, ⟨some e, rfl, rfl⟩, by simp [C15.dropTask, he.2.2, h.pend],
          by simp [C15.dropTask, he.2.1], rfl, h.sel, h.async⟩
    · rw [if_neg hsame]
      unfold C15.valResume
      have hdoc : ((C15.dropTask s15 i).doc ≠ ⟨t, c⟩ ∨ (C15.dropTask s15 i).sel ≠ none) := by
        left
        simp only [C15.dropTask, C15.St.doc, ← h.text, ← h.cur, ne_eq, C15.Doc.mk.injEq]
        exact hsame
      rw [if_pos hdoc]
      apply loopTop_C14_C15 vv
      · exact h.text
      · exact h.cur
      · exact h.vs
      · exact h.err
      · simp only [C15.dropTask, he.2.2]; exact h.pend
      · simp only [C15.dropTask]; exact he.2.1
      · exact hf
      · exact h.sel
      · exact h.async


/-- the relation for a validator that does not suspend (`Validator.validate_async`): nothing is
    ever in flight -/
structure RelSync (s14 : C14.St) (s15 : C15.St) : Prop where
  text : s14.text = s15.text
  cur : s14.cur = s15.cur
  vs : trVS s14.vstate = s15.vs
  err : ER s14.verr s15.verr
  pend : s14.vtasks = vPendCount s15.tasks
  idle14 : s14.vrun = none
  idle15 : vWaits s15.tasks = []
  flag : s15.runV = false
  sel : s15.sel = none
  sync : s14.vasync = false

theorem loopTop_sync (cfg : C15.Config) (env : C15.Env) (henv : env.valid = v15 vv)
    (s14 : C14.St) (s15 : C15.St)
    (htext : s14.text = s15.text) (hcur : s14.cur = s15.cur) (hvs : trVS s14.vstate = s15.vs)
    (herr : ER s14.verr s15.verr) (hpend : s14.vtasks = vPendCount s15.tasks)
    (hrun : vWaits s15.tasks = []) (hflag : s15.runV = true) (hsel : s15.sel = none)
    (hsync : s14.vasync = false) :
    RelSync (C14.vLoopTop (v14 vv) s14)
      (if (C15.finishSeg (C15.valLoop s15)).runV
       then C15.resumeTask cfg env (C15.finishSeg (C15.valLoop s15)) 0
       else C15.finishSeg (C15.valLoop s15)) := by
  have hns : ¬ s14.vasync = true := by rw [hsync]; simp
  by_cases hu : s14.vstate = .unknown
  · have hu' : s15.vs = .unknown := by rw [← hvs, hu]; rfl
    have h14 : C14.vLoopTop (v14 vv) s14 = { C14.setVerdict s14 (v14 vv s14.text) with vrun := none } := by
      unfold C14.vLoopTop
      rw [if_neg (by simp [hu]), if_neg hns]
    have h15 : C15.valLoop s15 = (s15, some (.vWait s15.doc s15.sel)) := by
      unfold C15.valLoop
      rw [if_neg (by simp [hu'])]
    have hfin : C15.finishSeg (s15, some (.vWait s15.doc s15.sel))
        = { s15 with tasks := .vWait s15.doc s15.sel :: s15.tasks } := rfl
    rw [h14, h15, hfin]
    simp only [hflag, if_true]
    unfold C15.resumeTask
    simp only [List.getElem?_cons_zero, C15.dropTask, List.eraseIdx_cons_zero]
    unfold C15.valResume
    rw [if_neg (by simp [C15.St.doc])]
    simp only [henv, v14, v15, C14.setVerdict, C15.finishSeg, C15.St.doc, ← htext]
    cases hvv : vv s14.text with
    | none =>
      simp only [Option.map_none]
      exact ⟨rfl, hcur, rfl, ER_none, hpend, rfl, hrun, rfl, hsel, hsync⟩
    | some e =>
      simp only [Option.map_some]
      exact ⟨rfl, hcur, rfl, ⟨some e, rfl, rfl⟩, hpend, rfl, hrun, rfl, hsel, hsync⟩
  · have hu' : s15.vs ≠ .unknown := by
      rw [← hvs]; intro e; exact hu ((trVS_unknown _).1 e)
    have h14 : C14.vLoopTop (v14 vv) s14 = { s14 with vrun := none } := by
      unfold C14.vLoopTop
      rw [if_pos (by simpa using hu)]
    have h15 : C15.valLoop s15 = ({ s15 with runV := false }, none) := by
      unfold C15.valLoop
      rw [if_pos (by simpa using hu')]
    rw [h14, h15]
    simp only [C15.finishSeg, Bool.false_eq_true, if_false]
    exact ⟨htext, hcur, hvs, herr, hpend, rfl, hrun, rfl, hsel, hsync⟩

/-- validation.py::Validator.validate_async (does not suspend) under buffer.py::_only_one_at_a_time /
    _validate_async — `Ptk.C14.vStart` with `vasync = false` (runs inline to the verdict) = C15's start
    step followed at once by its resume step -/
theorem vStart_sync_C14_C15 (cfg : C15.Config) (env : C15.Env) (henv : env.valid = v15 vv)
    (s14 : C14.St) (s15 : C15.St) (h : RelSync s14 s15) (i : Nat) (hi : s15.tasks[i]? = some .vPend) :
    RelSync (C14.vStart (v14 vv) s14)
      (if (C15.startTask cfg env s15 i).runV then C15.resumeTask cfg env (C15.startTask cfg env s15 i) 0
       else C15.startTask cfg env s15 i) := by
  have he := erase_vPend s15.tasks i hi
  have hpos : s14.vtasks ≠ 0 := by rw [h.pend]; omega
  have hp1 : s14.vtasks - 1 = vPendCount (s15.tasks.eraseIdx i) := by have := h.pend; omega
  unfold C14.vStart C15.startTask
  simp only [hi, hpos, if_false, h.idle14, Option.isSome_none, Bool.false_eq_true, h.flag]
  apply loopTop_sync vv cfg env henv
  · exact h.text
  · exact h.cur
  · exact h.vs
  · exact h.err
  · exact hp1
  · simp only [C15.dropTask, he.2]; exact h.idle15
  · rfl
  · exact h.sel
  · exact h.sync


/-! ### cancellation: `Application.run_async` finishing (`cancel_and_wait_for_background_tasks`) -/

/-- buffer.py::_only_one_at_a_time.new_coroutine — cancelling a validator task that has not started
    (`Ptk.C15.cancelTask`): its body never runs; in C14 one task less is pending -/
theorem cancel_vPend_C14_C15 (s14 : C14.St) (s15 : C15.St) (h : Rel s14 s15) (i : Nat)
    (hi : s15.tasks[i]? = some .vPend) :
    Rel { s14 with vtasks := s14.vtasks - 1 } (C15.cancelTask s15 i) := by
  have he := erase_vPend s15.tasks i hi
  unfold C15.cancelTask
  simp only [hi, C15.killFlags, C15.dropTask]
  exact ⟨h.text, h.cur, h.vs, h.err, by have := h.pend; simp only []; omega,
    by simp only [he.2]; exact h.run, h.flag, h.sel, h.async⟩

/-- buffer.py::_only_one_at_a_time.new_coroutine — cancelling the suspended validator
    (`Ptk.C15.cancelTask`): `CancelledError` at the await, `finally: running = False`; in C14 `vrun = none` -/
theorem cancel_vWait_C14_C15 (s14 : C14.St) (s15 : C15.St) (h : Rel s14 s15) (i : Nat)
    (d : C15.Doc) (sel : Option Nat) (hi : s15.tasks[i]? = some (.vWait d sel)) :
    Rel { s14 with vrun := none } (C15.cancelTask s15 i) := by
  cases hr : s14.vrun with
  | none =>
    exfalso
    have hmem : (d, sel) ∈ vWaits s15.tasks := by
      unfold vWaits
      rw [List.mem_filterMap]
      exact ⟨.vWait d sel, List.mem_of_getElem? hi, rfl⟩
    rw [h.run, hr] at hmem
    cases hmem
  | some p =>
    have hw : vWaits s15.tasks = [(⟨p.1, p.2⟩, none)] := by rw [h.run, hr]; rfl
    have he := erase_vWait s15.tasks i d sel _ hi hw
    unfold C15.cancelTask
    simp only [hi, C15.killFlags, C15.dropTask]
    exact ⟨h.text, h.cur, h.vs, h.err, by simp only [he.2.2]; exact h.pend,
      by simp only [he.2.1]; rfl, rfl, h.sel, h.async⟩

/-- every index of the schedule points at a validator task of the state it is applied to -/
def ValidIdx : C15.St → List Nat → Prop
  | _, [] => True
  | s, i :: is =>
    (s.tasks[i]? = some .vPend ∨ ∃ d sel, s.tasks[i]? = some (.vWait d sel)) ∧
    ValidIdx (C15.cancelTask s i) is

theorem appExit_absorb (s : C14.St) :
    C14.appExit { s with vtasks := s.vtasks - 1 } = C14.appExit s ∧
    C14.appExit { s with vrun := none } = C14.appExit s := ⟨rfl, rfl⟩

theorem cancels_C14_C15 : ∀ (is : List Nat) (s14 : C14.St) (s15 : C15.St), Rel s14 s15 → ValidIdx s15 is →
    ∃ a, Rel a (is.foldl C15.cancelTask s15) ∧ C14.appExit a = C14.appExit s14
  | [], s14, s15, h, _ => ⟨s14, h, rfl⟩
  | i :: is, s14, s15, h, hv => by
    obtain ⟨hi, hrest⟩ := hv
    rcases hi with hi | ⟨d, sel, hi⟩
    · obtain ⟨a, ha, he⟩ := cancels_C14_C15 is _ _ (cancel_vPend_C14_C15 s14 s15 h i hi) hrest
      exact ⟨a, ha, he.trans (appExit_absorb s14).1⟩
    · obtain ⟨a, ha, he⟩ := cancels_C14_C15 is _ _ (cancel_vWait_C14_C15 s14 s15 h i d sel hi) hrest
      exact ⟨a, ha, he.trans (appExit_absorb s14).2⟩

/-- buffer.py::_only_one_at_a_time.new_coroutine under application.py's
    `cancel_and_wait_for_background_tasks` — `Ptk.C14.appExit` (all validator tasks gone at once) vs
    C15's `cancelTask` applied to the validator tasks one by one, in ANY order: once none is left the
    states are related -/
theorem appExit_C14_C15 (is : List Nat) (s14 : C14.St) (s15 : C15.St) (h : Rel s14 s15)
    (hv : ValidIdx s15 is) (hp : vPendCount (is.foldl C15.cancelTask s15).tasks = 0)
    (hw : vWaits (is.foldl C15.cancelTask s15).tasks = []) :
    Rel (C14.appExit s14) (is.foldl C15.cancelTask s15) := by
  obtain ⟨a, ha, he⟩ := cancels_C14_C15 is s14 s15 h hv
  have h1 : a.vtasks = 0 := by rw [ha.pend, hp]
  have h2 : a.vrun = none := by
    have := ha.run
    rw [hw] at this
    cases hr : a.vrun with
    | none => rfl
    | some p => rw [hr] at this; simp at this
  have : C14.appExit a = a := by
    cases a
    simp_all [C14.appExit]
  rw [← he, this]
  exact ha

/-- non-vacuity: a buffer with one pending validator task behind a completer task; the text changes
    while the validation is in flight, so the coroutine goes round its loop once more -/
example :
    let vv : Text → Option (Int × Text) := fun t => if t.length = 1 then some (0, ['E']) else none
    let cfg : C15.Config := { cwt := true, hasV := true, vwt := true, hasS := false, maxN := 5, fixD1 := true }
    let env : C15.Env := { comp := fun _ => [], valid := v15 vv, sugg := fun _ => none, isSpace := fun _ => false }
    let a0 : C14.St := { C14.St.fresh [] false true true with vtasks := 1 }
    let b0 : C15.St := { C15.init ⟨[], 0⟩ with tasks := [.cPend .plain, .vPend] }
    let a1 := C14.vStart (v14 vv) a0
    let b1 := C15.startTask cfg env b0 1
    let a2 := C14.insertText a1 ['x']
    let b2 := C15.insertText cfg b1 ['x']
    let a3 := C14.vFinish (v14 vv) a2
    let b3 := C15.resumeTask cfg env b2 0
    let a4 := C14.vFinish (v14 vv) a3
    let b4 := C15.resumeTask cfg env b3 0
    a1.vrun = some ([], 0) ∧ b1.tasks = [.vWait ⟨[], 0⟩ none, .cPend .plain] ∧
    a3.vrun = some (['x'], 1) ∧ b3.tasks.head? = some (.vWait ⟨['x'], 1⟩ none) ∧
    a4.vstate = .invalid ∧ b4.vs = .invalid ∧ a4.verr = some 0 ∧ b4.verr = some ['E'] ∧
    a4.vrun = none ∧ b4.runV = false := by decide

end Ptk.AgreeCtl.Val
