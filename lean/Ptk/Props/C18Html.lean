/-
  C18 — HTML: theorems about the model of HTML.__init__ (tokenizer of the XML sub-grammar +
  the process_node walk): an escaped value in text position is inert.
-/
import Ptk.Model.C18Html
import Ptk.Props.C18
import Ptk.Gen.PyChars
namespace Ptk.C18
open Ptk.Py

/-! ## HTML: an escaped value in text position is inert -/

/-- how many `]` the tokenizer has just seen (for the ban of `]]>`), after one more character -/
def rbStep (rb : Nat) (c : Char) : Nat := if c = ']' then min 2 (rb + 1) else 0

def rbAfter (rb : Nat) (v : Text) : Nat := v.foldl rbStep rb

def cleanChar (c : Char) : Char := if xmlLegal c then c else '?'

theorem xrun_cons (m : XMode) (c : Char) (cs : Text) :
    xrun m (c :: cs) = ((xrun (xstep m c).1 cs).1, (xstep m c).2 ++ (xrun (xstep m c).1 cs).2) := by
  simp [xrun]

theorem xrun_append (m : XMode) (a b : Text) :
    xrun m (a ++ b) = ((xrun (xrun m a).1 b).1, (xrun m a).2 ++ (xrun (xrun m a).1 b).2) := by
  induction a generalizing m with
  | nil => simp [xrun]
  | cons c cs ih => simp [xrun, ih, List.append_assoc]

/-- one escaped character, in content: exactly one text event carrying the character -/
theorem xrun_escChar (rb : Nat) (c : Char) (rest : Text) :
    xrun (.content false rb) (escChar c ++ rest) =
      ((xrun (.content false (rbStep rb c)) rest).1,
       .text (cleanChar c) :: (xrun (.content false (rbStep rb c)) rest).2) := by
  unfold escChar
  split
  · rename_i h; subst h
    simp [xrun_cons, xstep, decodeRef, rbStep, cleanChar, xmlLegal]
  · split
    · rename_i h; subst h
      simp [xrun_cons, xstep, decodeRef, rbStep, cleanChar, xmlLegal]
    · split
      · rename_i h; subst h
        simp [xrun_cons, xstep, decodeRef, rbStep, cleanChar, xmlLegal]
      · split
        · rename_i h; subst h
          simp [xrun_cons, xstep, decodeRef, rbStep, cleanChar, xmlLegal]
        · split
          · rename_i h; subst h
            simp [xrun_cons, xstep, decodeRef, rbStep, cleanChar, xmlLegal, digitsToNat, isAsciiDigit]
          · split
            · rename_i h; subst h
              simp [xrun_cons, xstep, decodeRef, rbStep, cleanChar, xmlLegal, digitsToNat, isAsciiDigit]
            · rename_i h1 h2 h3 h4 h5 h6
              split
              · rename_i hl
                have hl' : xmlLegal c = false := by simpa using hl
                have hne : c ≠ ']' := by intro h; subst h; simp [xmlLegal] at hl'
                simp [xrun_cons, xstep, rbStep, cleanChar, hl', hne]
              · rename_i hl
                have hl' : xmlLegal c = true := by simpa using hl
                have hn : ¬(c = '\n' ∧ false = true) := by simp
                by_cases hb : c = ']'
                · subst hb; simp [xrun_cons, xstep, rbStep, cleanChar, xmlLegal]
                · simp [xrun_cons, xstep, rbStep, cleanChar, hl', h1, h2, h3, h6, hb]

/-- **Tokenizer level.**  In content position (not directly after a literal carriage return),
    an escaped value is read as exactly one text event per character of the value — whatever the
    value contains — and the tokenizer is back in content mode afterwards. -/
theorem xrun_escaped (rb : Nat) (v rest : Text) :
    xrun (.content false rb) (htmlEscape v ++ rest) =
      ((xrun (.content false (rbAfter rb v)) rest).1,
       (xmlClean v).map .text ++ (xrun (.content false (rbAfter rb v)) rest).2) := by
  induction v generalizing rb with
  | nil => simp [htmlEscape, rbAfter, xmlClean]
  | cons c cs ih =>
    rw [htmlEscape_cons, List.append_assoc, xrun_escChar, ih]
    simp [rbAfter, xmlClean, cleanChar]


/-! ### the walk over the event stream, per character -/

/-- everything emitted so far, character by character, the unfinished text node included -/
def pend (h : HSt) : List Cell :=
  cells h.out ++ h.buf.map fun c => ⟨currentStyle h.stk, c, none⟩

theorem stk_flush (h : HSt) : (flush h).stk = h.stk := by
  unfold flush; split <;> rfl

theorem pend_flush (h : HSt) : pend (flush h) = pend h := by
  unfold flush
  split
  · rfl
  · simp [pend, cells, cellsOf]

theorem buf_flush (h : HSt) : (flush h).buf = [] := by
  unfold flush; split
  · rename_i hb; simpa using hb
  · rfl

/-- the per-character meaning of an event stream: one cell per text event, in the style of the
    stacks at that point; start and end tags only move the stacks -/
def semCells : Stk → List Ev → List Cell
  | _, [] => []
  | s, .text c :: r => ⟨currentStyle s, c, none⟩ :: semCells s r
  | s, e :: r =>
    match stackStep s e with
    | .ok s' => semCells s' r
    | .error _ => []

/-- **The fragment-building walk computes the per-character meaning.**  If the walk over an event
    stream succeeds, the cells emitted (finished fragments plus the unfinished text node) grow by
    exactly `semCells`. -/
theorem evRun_sem (h h' : HSt) (evs : List Ev) (hr : evRun h evs = .ok h') :
    pend h' = pend h ++ semCells h.stk evs := by
  induction evs generalizing h with
  | nil => simp [evRun] at hr; subst hr; simp [semCells]
  | cons e es ih =>
    simp only [evRun] at hr
    cases e with
    | text c =>
      simp only [evStep] at hr
      have := ih _ hr
      rw [this]
      simp [pend, semCells]
    | elemOpen name attrs =>
      simp only [evStep] at hr
      cases hs : stackStep (flush h).stk (.elemOpen name attrs) with
      | error x => simp [hs] at hr
      | ok s =>
        simp only [hs] at hr
        have := ih _ hr
        rw [this]
        rw [stk_flush] at hs
        simp only [semCells, hs]
        congr 1
        rw [← pend_flush h]
        simp [pend, buf_flush]
    | elemClose name =>
      simp only [evStep] at hr
      cases hs : stackStep (flush h).stk (.elemClose name) with
      | error x => simp [hs] at hr
      | ok s =>
        simp only [hs] at hr
        have := ih _ hr
        rw [this]
        rw [stk_flush] at hs
        simp only [semCells, hs]
        congr 1
        rw [← pend_flush h]
        simp [pend, buf_flush]
    | other => simp [evStep, stackStep] at hr


/-- the stacks alone -/
def stkRun : Stk → List Ev → Except HErr Stk
  | s, [] => .ok s
  | s, e :: es =>
    match stackStep s e with
    | .ok s' => stkRun s' es
    | .error x => .error x

theorem evRun_stkRun (h h' : HSt) (evs : List Ev) (hr : evRun h evs = .ok h') :
    stkRun h.stk evs = .ok h'.stk := by
  induction evs generalizing h with
  | nil => simp [evRun] at hr; subst hr; rfl
  | cons e es ih =>
    simp only [evRun] at hr
    cases e with
    | text c =>
      simp only [evStep] at hr
      simpa [stkRun, stackStep] using ih _ hr
    | elemOpen name attrs =>
      simp only [evStep] at hr
      cases hs : stackStep (flush h).stk (.elemOpen name attrs) with
      | error x => simp [hs] at hr
      | ok s =>
        simp only [hs] at hr
        rw [stk_flush] at hs
        simpa [stkRun, hs] using ih _ hr
    | elemClose name =>
      simp only [evStep] at hr
      cases hs : stackStep (flush h).stk (.elemClose name) with
      | error x => simp [hs] at hr
      | ok s =>
        simp only [hs] at hr
        rw [stk_flush] at hs
        simpa [stkRun, hs] using ih _ hr
    | other => simp [evStep, stackStep] at hr

theorem stkRun_append (s s2 : Stk) (a b : List Ev) (h : stkRun s (a ++ b) = .ok s2) :
    ∃ s1, stkRun s a = .ok s1 ∧ stkRun s1 b = .ok s2 := by
  induction a generalizing s with
  | nil => exact ⟨s, rfl, by simpa using h⟩
  | cons e es ih =>
    simp only [List.cons_append, stkRun] at h ⊢
    cases hs : stackStep s e with
    | error x => simp [hs] at h
    | ok s' => simp only [hs] at h ⊢; exact ih _ h

theorem stkRun_texts (s : Stk) (t : Text) : stkRun s (t.map .text) = .ok s := by
  induction t with
  | nil => rfl
  | cons c cs ih => simpa [stkRun, stackStep] using ih

theorem semCells_texts (s : Stk) (t : Text) (r : List Ev) :
    semCells s (t.map .text ++ r) = (t.map fun c => ⟨currentStyle s, c, none⟩) ++ semCells s r := by
  induction t with
  | nil => simp
  | cons c cs ih => simp [semCells, ih]

theorem semCells_append (s s1 : Stk) (a r : List Ev) (h : stkRun s a = .ok s1) :
    semCells s (a ++ r) = semCells s a ++ semCells s1 r := by
  induction a generalizing s with
  | nil => simp [stkRun] at h; subst h; simp [semCells]
  | cons e es ih =>
    simp only [stkRun] at h
    cases hs : stackStep s e with
    | error x => simp [hs] at h
    | ok s' =>
      simp only [hs] at h
      cases e with
      | text c =>
        simp [stackStep] at hs; subst hs
        simp [semCells, ih _ h]
      | elemOpen name attrs => simp [semCells, hs, ih _ h]
      | elemClose name => simp [semCells, hs, ih _ h]
      | other => simp [stackStep] at hs

/-- **Walk level.**  Text events spliced into an event stream contribute exactly their own
    cells, in the style of the stacks at that point, and change nothing before or after. -/
theorem semCells_splice (s s1 : Stk) (a b : List Ev) (t : Text) (h : stkRun s a = .ok s1) :
    semCells s (a ++ (t.map .text ++ b)) =
      semCells s a ++ (t.map fun c => ⟨currentStyle s1, c, none⟩) ++ semCells s1 b := by
  rw [semCells_append s s1 a _ h, semCells_texts, List.append_assoc]

theorem html_ok (value : Text) (fs : Frags) (h : html value = .ok fs) :
    ∃ hh, evRun {} (xrun (.content false 0) value).2 = .ok hh ∧ fs = (flush hh).out := by
  unfold html at h
  split at h
  · simp at h
  · simp only at h
    split at h
    · simp at h
    · split at h
      · simp at h
      · split at h
        · rename_i hh hr
          simp at h
          exact ⟨hh, hr, h.symm⟩
        · simp at h
    · simp at h

/-- the fragments of `HTML(value)`, read per character, are the meaning of its event stream -/
theorem html_cells (value : Text) (fs : Frags) (h : html value = .ok fs) :
    cells fs = semCells {} (xrun (.content false 0) value).2 := by
  obtain ⟨hh, hr, rfl⟩ := html_ok value fs h
  have h1 := evRun_sem {} hh _ hr
  have h2 : pend (flush hh) = cells (flush hh).out := by simp [pend, buf_flush]
  rw [← h2, pend_flush, h1]
  simp [pend, cells]

/-- **`HTML`: an escaped value in text position is inert.**  If the tokenizer is in content mode
    after `pre` (the hole is not inside a tag, an attribute value or a reference, and not directly
    after a literal carriage return), then for EVERY value `v`: if `HTML(pre + html_escape(v) +
    post)` is accepted, its characters are those `pre` produces, then the characters of `v`
    (characters XML cannot carry replaced by `?`), all in the style of the enclosing elements,
    then what `post` produces — with the same stacks as without the value.  The only trace the
    value leaves on the tokenizer is the count of trailing `]` (`]]` followed by a literal `>` is
    the forbidden `]]>`). -/
theorem html_hole_inert (pre post v : Text) (rb : Nat) (fs : Frags)
    (hpre : (xrun (.content false 0) pre).1 = .content false rb)
    (hok : html (pre ++ (htmlEscape v ++ post)) = .ok fs) :
    ∃ s1, stkRun {} (xrun (.content false 0) pre).2 = .ok s1 ∧
      cells fs =
        semCells {} (xrun (.content false 0) pre).2
          ++ ((xmlClean v).map fun c => ⟨currentStyle s1, c, none⟩)
          ++ semCells s1 (xrun (.content false (rbAfter rb v)) post).2 := by
  have hc := html_cells _ _ hok
  obtain ⟨hh, hr, _⟩ := html_ok _ _ hok
  have hx : (xrun (.content false 0) (pre ++ (htmlEscape v ++ post))).2 =
      (xrun (.content false 0) pre).2 ++
        ((xmlClean v).map .text ++ (xrun (.content false (rbAfter rb v)) post).2) := by
    rw [xrun_append, hpre, xrun_escaped]
  rw [hx] at hc hr
  have hs := evRun_stkRun _ _ _ hr
  obtain ⟨s1, h1, _⟩ := stkRun_append _ _ _ _ hs
  exact ⟨s1, h1, by rw [hc, semCells_splice _ s1 _ _ _ h1]⟩

theorem rbAfter_noBracket (v : Text) (h : ']' ∉ v) : rbAfter 0 v = 0 := by
  induction v with
  | nil => rfl
  | cons c cs ih =>
    have hc : c ≠ ']' := fun e => h (by simp [e])
    have := ih (fun m => h (by simp [m]))
    simpa [rbAfter, rbStep, hc] using this

/-- … in particular, compared with the template alone: when neither the template text before the
    hole nor the value ends in `]`, the output is the template's own output with the value's
    characters spliced in at the hole. -/
theorem html_hole_splice (pre post v : Text) (fs fs0 : Frags)
    (hpre : (xrun (.content false 0) pre).1 = .content false 0) (hv : ']' ∉ v)
    (hok0 : html (pre ++ post) = .ok fs0)
    (hok : html (pre ++ (htmlEscape v ++ post)) = .ok fs) :
    ∃ s1 before after, cells fs0 = before ++ after ∧
      cells fs = before ++ ((xmlClean v).map fun c => ⟨currentStyle s1, c, none⟩) ++ after := by
  obtain ⟨s1, h1, hc⟩ := html_hole_inert pre post v 0 fs hpre hok
  have h0 : html (pre ++ (htmlEscape [] ++ post)) = .ok fs0 := by simpa [htmlEscape] using hok0
  obtain ⟨s1', h1', hc0⟩ := html_hole_inert pre post [] 0 fs0 hpre h0
  rw [h1] at h1'
  simp only [Except.ok.injEq] at h1'
  subst h1'
  refine ⟨s1, semCells {} (xrun (.content false 0) pre).2,
    semCells s1 (xrun (.content false 0) post).2, ?_, ?_⟩
  · simpa [xmlClean, rbAfter] using hc0
  · rw [rbAfter_noBracket v hv] at hc
    exact hc


/-- the character data of an event stream -/
def textOf : List Ev → Text
  | [] => []
  | .text c :: r => c :: textOf r
  | _ :: r => textOf r

theorem semCells_text (s s' : Stk) (evs : List Ev) (h : stkRun s evs = .ok s') :
    (semCells s evs).map (·.ch) = textOf evs := by
  induction evs generalizing s with
  | nil => rfl
  | cons e es ih =>
    simp only [stkRun] at h
    cases hs : stackStep s e with
    | error x => simp [hs] at h
    | ok s1 =>
      simp only [hs] at h
      cases e with
      | text c =>
        simp [stackStep] at hs; subst hs
        simp [semCells, textOf, ih _ h]
      | elemOpen name attrs => simp [semCells, textOf, hs, ih _ h]
      | elemClose name => simp [semCells, textOf, hs, ih _ h]
      | other => simp [stackStep] at hs

/-- **HTML markup → fragments → text keeps the character data, in order**: the concatenated text
    of `HTML(value)` is exactly the character data of the document (entities decoded, line ends
    normalised), whatever the element structure. -/
theorem html_text (value : Text) (fs : Frags) (h : html value = .ok fs) :
    allText fs = textOf (xrun (.content false 0) value).2 := by
  obtain ⟨hh, hr, _⟩ := html_ok value fs h
  rw [allText_eq_cells, html_cells value fs h]
  exact semCells_text _ _ _ (evRun_stkRun _ _ _ hr)

/-! ### non-vacuity -/

def exPre : Text := "<b fg='r'>x".toList
def exPost : Text := "</b>y".toList
/-- a hostile value: markup, both quotes, a carriage return, ESC -/
def exVal : Text := "<i>'\"&\r".toList ++ [ESC]

example : (xrun (.content false 0) exPre).1 = .content false 0 := by decide

example : html (exPre ++ (htmlEscape exVal ++ exPost)) =
    .ok [⟨"class:b fg:r".toList, "x<i>'\"&\r?".toList, none⟩, ⟨[], "y".toList, none⟩] := by rfl

example : html (exPre ++ exPost) =
    .ok [⟨"class:b fg:r".toList, "x".toList, none⟩, ⟨[], "y".toList, none⟩] := by rfl

/-- a hole inside a tag is NOT in content mode: there the hypothesis of `html_hole_inert` fails
    (and the value does select the style, as the template asks) -/
example : (xrun (.content false 0) "<b fg='".toList).1 ≠ .content false 0 := by decide

/-- the `]]>` corner is real in the model, too: value `]]` followed by a literal `>` -/
example : html ("a".toList ++ (htmlEscape "]]".toList ++ ">b".toList)) = .error .expat := by rfl

/-! ### `HTML.format` with any number of holes -/

/-- the text handed to the XML parser: literal template text and escaped values -/
def hflat : List Seg → Text
  | [] => []
  | .lit t :: r => t ++ hflat r
  | .val v :: r => htmlEscape v ++ hflat r

/-- every hole is reached in content mode (not inside a tag / attribute value / reference and
    not directly after a literal carriage return) -/
def HHolesOK : XMode → List Seg → Prop
  | _, [] => True
  | m, .lit t :: r => HHolesOK (xrun m t).1 r
  | .content false rb, .val v :: r => HHolesOK (.content false (rbAfter rb v)) r
  | _, .val _ :: _ => False

/-- the specification: literal text goes through the tokenizer, a value is one text event per
    character -/
def xsplice : XMode → List Seg → XMode × List Ev
  | m, [] => (m, [])
  | m, .lit t :: r => ((xsplice (xrun m t).1 r).1, (xrun m t).2 ++ (xsplice (xrun m t).1 r).2)
  | .content false rb, .val v :: r =>
    ((xsplice (.content false (rbAfter rb v)) r).1,
     (xmlClean v).map .text ++ (xsplice (.content false (rbAfter rb v)) r).2)
  | m, .val _ :: _ => (m, [])

theorem xrun_template_inert (m : XMode) (segs : List Seg) (h : HHolesOK m segs) :
    xrun m (hflat segs) = xsplice m segs := by
  induction segs generalizing m with
  | nil => simp [hflat, xrun, xsplice]
  | cons sg r ih =>
    cases sg with
    | lit t =>
      simp only [HHolesOK] at h
      simp [hflat, xrun_append, xsplice, ih _ h]
    | val v =>
      cases m with
      | content cr rb =>
        cases cr with
        | true => simp [HHolesOK] at h
        | false =>
          simp only [HHolesOK] at h
          simp [hflat, xrun_escaped, xsplice, ih _ h]
      | _ => simp [HHolesOK] at h

def escVals (esc : Text → Text) : List Seg → List Seg
  | [] => []
  | .lit t :: r => .lit t :: escVals esc r
  | .val v :: r => .val (esc v) :: escVals esc r

theorem renderHole_esc (esc : Text → Text) (pr : Char → Bool) (args : List Val)
    (kw : List (Text × Val)) (st : Option (Option Nat)) (h : Hole) :
    renderHole esc pr args kw st h =
      (renderHole id pr args kw st h).map fun p => (esc p.1, p.2) := by
  unfold renderHole
  cases selectArg h.arg st with
  | error e => simp [Except.map]
  | ok p =>
    obtain ⟨key, st'⟩ := p
    simp only
    cases getValue args kw key with
    | error e => simp [Except.map]
    | ok v =>
      simp only
      cases fmtVal (convert pr v h.conv) h <;> simp [Except.map]

theorem fillFormat_esc (esc : Text → Text) (pr : Char → Bool) (args : List Val)
    (kw : List (Text × Val)) (st : Option (Option Nat)) (items : List Item) :
    fillFormat esc pr args kw st items = (fillFormat id pr args kw st items).map (escVals esc) := by
  induction items generalizing st with
  | nil => simp [fillFormat, Except.map, escVals]
  | cons it rest ih =>
    cases it with
    | lit t =>
      simp only [fillFormat, ih]
      cases fillFormat id pr args kw st rest <;> simp [Except.map, escVals]
    | hole h =>
      simp only [fillFormat]
      rw [renderHole_esc]
      cases renderHole id pr args kw st h with
      | error e => simp [Except.map]
      | ok p =>
        obtain ⟨t, st'⟩ := p
        simp only [Except.map, ih]
        cases fillFormat id pr args kw st' rest <;> simp [Except.map, escVals]

theorem flat_escVals (segs : List Seg) : flat (escVals htmlEscape segs) = hflat segs := by
  induction segs with
  | nil => rfl
  | cons sg r ih => cases sg <;> simp [escVals, flat, hflat, ih]

/-- **`HTML(tmpl).format(*args, **kwargs)`**, any number of holes: for every template of the modelled
    grammar (automatic, numbered and keyword fields, conversions, format specs) whose holes are all
    in content position and for all argument values, the document
    handed to the XML parser is tokenized as the template's own events with, at each hole, one
    text event per character of the (formatted) value. -/
theorem htmlFormat_inert (pr : Char → Bool) (tmpl : Text) (args : List Val)
    (kw : List (Text × Val)) (items : List Item) (raw : List Seg)
    (hscan : scanFormat tmpl = some (.ok items))
    (hfill : fillFormat id pr args kw none items = .ok raw)
    (hg : HHolesOK (.content false 0) raw) :
    vformat htmlEscape pr tmpl args kw = some (.ok (hflat raw)) ∧
    xrun (.content false 0) (hflat raw) = xsplice (.content false 0) raw := by
  refine ⟨?_, xrun_template_inert _ _ hg⟩
  simp [vformat, hscan, renderFormat_eq_fill, fillFormat_esc htmlEscape, hfill, Except.map,
    flat_escVals]

instance decHHolesOK : (m : XMode) → (segs : List Seg) → Decidable (HHolesOK m segs)
  | _, [] => isTrue trivial
  | m, .lit t :: r => decHHolesOK (xrun m t).1 r
  | .content false rb, .val v :: r => decHHolesOK (.content false (rbAfter rb v)) r
  | .content true _, .val _ :: _ => isFalse (by simp [HHolesOK])
  | .ref _ _, .val _ :: _ => isFalse (by simp [HHolesOK])
  | .lt, .val _ :: _ => isFalse (by simp [HHolesOK])
  | .oname _, .val _ :: _ => isFalse (by simp [HHolesOK])
  | .tagNoSp _ _, .val _ :: _ => isFalse (by simp [HHolesOK])
  | .tagSp _ _, .val _ :: _ => isFalse (by simp [HHolesOK])
  | .aname _ _ _, .val _ :: _ => isFalse (by simp [HHolesOK])
  | .anameSp _ _ _, .val _ :: _ => isFalse (by simp [HHolesOK])
  | .aeq _ _ _, .val _ :: _ => isFalse (by simp [HHolesOK])
  | .aval _ _, .val _ :: _ => isFalse (by simp [HHolesOK])
  | .slash _ _, .val _ :: _ => isFalse (by simp [HHolesOK])
  | .clt, .val _ :: _ => isFalse (by simp [HHolesOK])
  | .cname _, .val _ :: _ => isFalse (by simp [HHolesOK])
  | .cnameSp _, .val _ :: _ => isFalse (by simp [HHolesOK])
  | .bang _, .val _ :: _ => isFalse (by simp [HHolesOK])
  | .comment _, .val _ :: _ => isFalse (by simp [HHolesOK])
  | .cdata _ _, .val _ :: _ => isFalse (by simp [HHolesOK])
  | .piStart, .val _ :: _ => isFalse (by simp [HHolesOK])
  | .piName _, .val _ :: _ => isFalse (by simp [HHolesOK])
  | .piData _, .val _ :: _ => isFalse (by simp [HHolesOK])
  | .piEnd, .val _ :: _ => isFalse (by simp [HHolesOK])
  | .fail, .val _ :: _ => isFalse (by simp [HHolesOK])
  | .bad, .val _ :: _ => isFalse (by simp [HHolesOK])

/-- `<b>{}</b><u>{:>3}</u>` with a markup value and a quote -/
example : ∃ items raw,
    scanFormat "<b>{}</b><u>{:>3}</u>".toList = some (.ok items) ∧
    fillFormat id exPr [{ s := "<i>".toList }, { s := "'".toList }] [] none items = .ok raw ∧
    HHolesOK (.content false 0) raw ∧
    html (hflat raw) = .ok [⟨"class:b".toList, "<i>".toList, none⟩,
                            ⟨"class:u".toList, "  '".toList, none⟩] :=
  ⟨[.lit "<b>".toList, .hole {}, .lit "</b><u>".toList,
    .hole { spec := { align := .right, width := 3 }, specEmpty := false }, .lit "</u>".toList],
   _, rfl, rfl, by decide, rfl⟩

/-! ### `HTML(tmpl) % args` -/

/-- every conversion that is reached is a plain `%s` / `%c`: no width, no precision (with them `%`
    pads / cuts the ESCAPED text: the known finding), no `%r` / `%a` (they show the repr of the
    escaped text, quotes included) -/
def PlainHoles : List PItem → Prop
  | [] => True
  | .hole s :: r => s.width = 0 ∧ s.prec = none ∧ (s.conv = .s ∨ s.conv = .c) ∧ PlainHoles r
  | _ :: r => PlainHoles r

/-- the template with the raw `str()` of each argument in its hole -/
def rawPercent : List Val → List PItem → List Seg
  | args, .lit t :: r => .lit t :: rawPercent args r
  | v :: args, .hole _ :: r => .val v.s :: rawPercent args r
  | _, _ => []

theorem fillPercent_lit (pr : Char → Bool) (args : List Text) (t : Text) (rest : List PItem) :
    fillPercent pr args (.lit t :: rest) =
      match fillPercent pr args rest with
      | .ok r => .ok (.lit t :: r)
      | .error e => .error e := by
  cases args <;> rfl

theorem pfmtStr_plain (t : Text) (s : PSpec) (hw : s.width = 0) (hp : s.prec = none) :
    pfmtStr t s = t := by
  unfold pfmtStr; simp only [hp, hw]; split <;> simp

theorem fillPercent_plain (esc : Text → Text) (pr : Char → Bool) (args : List Val)
    (items : List PItem) (segs : List Seg) (hpl : PlainHoles items)
    (h : fillPercent pr (args.map fun v => esc v.s) items = .ok segs) :
    segs = escVals esc (rawPercent args items) := by
  induction items generalizing args segs with
  | nil => cases args <;> simp [fillPercent] at h; subst h; simp [rawPercent, escVals]
  | cons it rest ih =>
    cases it with
    | lit t =>
      rw [fillPercent_lit] at h
      cases hr : fillPercent pr (args.map fun v => esc v.s) rest with
      | error e => simp [hr] at h
      | ok r =>
        simp [hr] at h; subst h
        have hraw : rawPercent args (.lit t :: rest) = .lit t :: rawPercent args rest := by
          cases args <;> simp [rawPercent]
        rw [hraw]; simp [escVals, ih args r hpl hr]
    | hole sp =>
      obtain ⟨hw, hp, hc, hrest⟩ := hpl
      cases args with
      | nil => simp [fillPercent] at h
      | cons v vs =>
        simp only [List.map_cons, fillPercent] at h
        cases hcv : convArg pr sp.conv (esc v.s) with
        | error e => simp [hcv] at h
        | ok t =>
          have ht : t = esc v.s := by
            rcases hc with hc | hc
            · rw [hc] at hcv; simp [convArg] at hcv; exact hcv.symm
            · rw [hc] at hcv; simp only [convArg] at hcv
              split at hcv
              · simp at hcv; exact hcv.symm
              · simp at hcv
          simp only [hcv] at h
          cases hr : fillPercent pr (vs.map fun v => esc v.s) rest with
          | error e => simp [hr] at h
          | ok r =>
            simp [hr] at h; subst h
            simp [rawPercent, escVals, pfmtStr_plain _ _ hw hp, ht, ih vs r hrest hr]
    | typeErr => cases args <;> simp [fillPercent] at h
    | badChar => cases args <;> simp [fillPercent] at h
    | incomplete => cases args <;> simp [fillPercent] at h

/-- **`HTML(tmpl) % args`** for a tuple of ANY values (strings, numbers, objects; each reaches `%`
    as its escaped `str()`): either the rendering is an error and the call raises
    (`htmlMod_raises`), or — conversions plain `%s` / `%c`, holes in content position — the document
    handed to the XML parser is the template with `html_escape(str(v))` in each hole, and it is
    tokenized as the template's own events with one text event per character of each value. -/
theorem htmlMod_inert (pr : Char → Bool) (tmpl : Text) (args : List Val) (items : List PItem)
    (segs : List Seg)
    (hscan : scanPercent tmpl = some (.ok items)) (hpl : PlainHoles items)
    (hfill : fillPercent pr (args.map fun v => htmlEscape v.s) items = .ok segs)
    (hg : HHolesOK (.content false 0) (rawPercent args items)) :
    pformat htmlEscape pr tmpl args = some (.ok (hflat (rawPercent args items))) ∧
    xrun (.content false 0) (hflat (rawPercent args items)) =
      xsplice (.content false 0) (rawPercent args items) := by
  refine ⟨?_, xrun_template_inert _ _ hg⟩
  have := fillPercent_plain htmlEscape pr args items segs hpl hfill
  simp [pformat, hscan, renderPercent_eq_fill, hfill, Except.map, this, flat_escVals]

theorem htmlMod_raises (pr : Char → Bool) (tmpl : Text) (args : List Val) (items : List PItem)
    (e : Err) (hscan : scanPercent tmpl = some (.ok items))
    (hfill : fillPercent pr (args.map fun v => htmlEscape v.s) items = .error e)
    (fs : Frags) (hfs : html tmpl = .ok fs) :
    htmlMod pr tmpl args = .ok (some (.error e)) := by
  simp [htmlMod, hfs, pformat, hscan, renderPercent_eq_fill, hfill, Except.map]

/-- the seeded scenario: a number under `%d` next to a hostile string under `%s`.  As the code is
    (escape first, then `%`), `%d` sees the STRING "3": TypeError — the hostile string is never
    interpolated unescaped. -/
example : htmlMod exPr "<b>%d</b> items: %s".toList
    [{ kind := .num, s := "3".toList, r := "3".toList }, { s := "<i>x</i>".toList }] =
    .ok (some (.error .type)) := by rfl

example : htmlMod exPr "<b>%s</b> items: %c%5r".toList
    [{ kind := .num, s := "3".toList, r := "3".toList }, { s := "&".toList }, { s := "<".toList }] =
    .ok (some (.error .type)) ∧
    htmlMod exPr "<b>%s</b>: %s%%".toList
    [{ kind := .num, s := "3".toList, r := "3".toList }, { s := "</b>".toList }] =
    .ok (some (.ok (.ok [⟨"class:b".toList, "3".toList, none⟩, ⟨[], ": </b>%".toList, none⟩]))) := by
  refine ⟨by rfl, by rfl⟩

/-! ### attribute-position values cannot add style words -/

/-- **Pin**: the `str.isspace` ranges the model uses are those of the running interpreter -/
theorem pySpaceRanges_pinned : Gen.isSpaceRanges = pySpaceRanges := by decide

/-- `s.split()`: the maximal runs of non-white-space characters (`cur` = the word being read) -/
def splitWs : Text → Text → List Text
  | cur, [] => if cur.isEmpty then [] else [cur]
  | cur, c :: cs =>
    if isPySpace c then (if cur.isEmpty then splitWs [] cs else cur :: splitWs [] cs)
    else splitWs (cur ++ [c]) cs

theorem splitWs_noSpace (cur t : Text) (h : hasPySpace t = false) (hne : cur ++ t ≠ []) :
    splitWs cur t = [cur ++ t] := by
  induction t generalizing cur with
  | nil =>
    have : cur ≠ [] := by simpa using hne
    simp [splitWs, this]
  | cons c cs ih =>
    simp only [hasPySpace, List.any_cons, Bool.or_eq_false_iff] at h
    simp only [splitWs, h.1, Bool.false_eq_true, if_false]
    rw [ih (cur ++ [c]) (by simpa [hasPySpace] using h.2) (by simp)]
    simp

/-- the style words `get_current_style()` builds from a colour on the stack -/
def fgWord (fg : Text) : Text := "fg:".toList ++ fg
def bgWord (bg : Text) : Text := "bg:".toList ++ bg

/-- **A value accepted in `fg=` / `bg=` / `color=` position is exactly ONE style word.**  When
    `process_node` enters an element without raising, the colours it pushes contain no white space
    of any kind (`str.isspace`), so `"fg:" + value` / `"bg:" + value` survive `str.split()` whole:
    whatever an interpolated value contains, it cannot add a style word. -/
theorem accepted_color_is_one_word (s s' : Stk) (name : Text) (attrs : List (Text × Text))
    (h : stackStep s (.elemOpen name attrs) = .ok s') :
    splitWs [] (fgWord (attrColors attrs ([], [])).1) = [fgWord (attrColors attrs ([], [])).1] ∧
    splitWs [] (bgWord (attrColors attrs ([], [])).2) = [bgWord (attrColors attrs ([], [])).2] := by
  simp only [stackStep] at h
  generalize attrColors attrs ([], []) = p at h ⊢
  obtain ⟨fg, bg⟩ := p
  simp only at h
  split at h
  · simp at h
  · split at h
    · simp at h
    · rename_i h1 h2
      have hfg : hasPySpace fg = false := by simpa using h1
      have hbg : hasPySpace bg = false := by simpa using h2
      have hp : hasPySpace "fg:".toList = false := by decide
      have hq : hasPySpace "bg:".toList = false := by decide
      constructor
      · apply splitWs_noSpace [] (fgWord fg)
        · simp only [fgWord, hasPySpace, List.any_append, Bool.or_eq_false_iff]
          exact ⟨hp, hfg⟩
        · simp [fgWord]
      · apply splitWs_noSpace [] (bgWord bg)
        · simp only [bgWord, hasPySpace, List.any_append, Bool.or_eq_false_iff]
          exact ⟨hq, hbg⟩
        · simp [bgWord]

/-- the repaired defect: a carriage return (which `html_escape` lets through as `&#13;`) or a
    no-break space in a colour is rejected like a space -/
example : html "<style fg=\"ansired&#13;bold\">x</style>".toList = .error .value ∧
    html ("<style color='a".toList ++ [Char.ofNat 0xA0] ++ "bold'>x</style>".toList) = .error .value ∧
    html "<style bg='a&#x2003;b'>x</style>".toList = .error .value ∧
    html "<style fg='ansired'>x</style>".toList = .ok [⟨"fg:ansired".toList, "x".toList, none⟩] := by
  refine ⟨by rfl, by rfl, by rfl, by rfl⟩

example : splitWs [] "fg:a\rbold  x".toList = ["fg:a".toList, "bold".toList, "x".toList] := by decide

end Ptk.C18
