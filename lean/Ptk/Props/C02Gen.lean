/-
  C02 — audited module: generated character-class tables (Gen/C02Chars, Gen/PyChars) satisfy the
  side conditions under which the model classes are the classes of the compiled regexes.
-/
import Ptk.Gen.PyChars
import Ptk.Gen.C02Chars
import Ptk.Gen.C02Patterns
import Ptk.Props.C02WordB
namespace Ptk.C02
open Ptk.Py

/-! ## 19. the character classes of the model are the character classes of the compiled regexes

  `Gen/C02Chars.lean` is regenerated on every run by running the real `_FIND_WORD_RE` /
  `_FIND_BIG_WORD_RE` objects over all code points.  The theorems are stated for any tables that
  satisfy the decidable side condition `WFClassTables`; `gen_ok` re-decides it for the regenerated
  tables. -/

/-- side condition: class 1 is exactly the model's `[a-zA-Z0-9_]`, and both blank classes are
    exactly the `\s` table that the driver instantiates `sp` with -/
def WFClassTables (w b bb sp : List (Nat × Nat)) : Bool :=
  w == [(48, 57), (65, 90), (95, 95), (97, 122)] && b == sp && bb == sp

theorem isWordChar_ranges (c : Char) :
    isWordChar c = Gen.inRanges [(48, 57), (65, 90), (95, 95), (97, 122)] c := by
  simp only [isWordChar, Gen.inRanges, List.any_cons, List.any_nil, Bool.or_false]
  rw [Bool.eq_iff_iff]
  simp only [Bool.or_eq_true, Bool.and_eq_true, decide_eq_true_eq, beq_iff_eq]
  omega

/-- for well-formed tables the model's classes (with `sp` = membership in the `\s` table) are the
    classes of the tables, for every character -/
theorem cls_of_tables (w b bb sp : List (Nat × Nat)) (h : WFClassTables w b bb sp = true) (c : Char) :
    cls (Gen.inRanges sp) false c =
      (if Gen.inRanges w c then 1 else if Gen.inRanges b c then 0 else 2) ∧
    cls (Gen.inRanges sp) true c = (if Gen.inRanges bb c then 0 else 1) := by
  simp only [WFClassTables, Bool.and_eq_true, beq_iff_eq] at h
  obtain ⟨⟨hw, hb⟩, hbb⟩ := h
  subst hw hb hbb
  simp only [cls, Bool.false_eq_true, if_false, if_true, clsWord, clsBig, isWordChar_ranges]
  trivial

theorem gen_ok : WFClassTables Gen.C02.wordClassRanges Gen.C02.blankClassRanges
    Gen.C02.bigBlankClassRanges Gen.reSpaceRanges = true := by decide

/-- the classes the driver computes with are the classes of the compiled regexes of /repo -/
theorem cls_gen (c : Char) :
    cls Gen.reSpace false c =
      (if Gen.inRanges Gen.C02.wordClassRanges c then 1
       else if Gen.inRanges Gen.C02.blankClassRanges c then 0 else 2) ∧
    cls Gen.reSpace true c = (if Gen.inRanges Gen.C02.bigBlankClassRanges c then 0 else 1) :=
  cls_of_tables _ _ _ _ gen_ok c
example : cls Gen.reSpace false 'é' = 2 ∧ cls Gen.reSpace false '_' = 1 ∧ cls Gen.reSpace true (Char.ofNat 8232) = 0 := by
  decide

/-- every range of `A` lies inside one range of `B` -/
def rangesSub (A B : List (Nat × Nat)) : Bool :=
  A.all fun (a, b) => B.any fun (x, y) => decide (x ≤ a) && decide (b ≤ y)

theorem inRanges_of_sub (A B : List (Nat × Nat)) (h : rangesSub A B = true) (c : Char)
    (hc : Gen.inRanges A c = true) : Gen.inRanges B c = true := by
  simp only [Gen.inRanges, List.any_eq_true, Bool.and_eq_true, decide_eq_true_eq, Prod.exists] at hc ⊢
  obtain ⟨a, b, hab, h1, h2⟩ := hc
  simp only [rangesSub, List.all_eq_true] at h
  have := h (a, b) hab
  simp only [List.any_eq_true, Bool.and_eq_true, decide_eq_true_eq, Prod.exists] at this
  obtain ⟨x, y, hxy, h3, h4⟩ := this
  exact ⟨x, y, hxy, by omega, by omega⟩

/-- regex `\s` ⊆ `str.isspace` for the tables of the running interpreter -/
theorem gen_space_ok : rangesSub Gen.reSpaceRanges Gen.isSpaceRanges = true := by decide

/-- `get_word_before_cursor` with the generated classes: `wordBeforeCursor_spec` without hypothesis -/
theorem wordBeforeCursor_gen (d : Doc) (hc : d.cur ≤ d.text.length) (WORD : Bool) :
    ∃ n : Nat, n ≤ d.cur ∧
      wordBeforeCursor Gen.isSpace Gen.reSpace d WORD = (d.text.take d.cur).drop (d.cur - n) ∧
      (n = 0 ↔ (d.cur = 0 ∨ ∃ c, d.text[d.cur - 1]? = some c ∧ Gen.isSpace c = true)) ∧
      (0 < n → ∃ k, k ≠ 0 ∧
        (∀ p, d.cur - n ≤ p → p < d.cur → clsAt (cls Gen.reSpace WORD) d.text p = some k) ∧
        (d.cur - n = 0 ∨ clsAt (cls Gen.reSpace WORD) d.text (d.cur - n - 1) ≠ some k)) :=
  wordBeforeCursor_spec Gen.isSpace Gen.reSpace
    (fun c h => inRanges_of_sub _ _ gen_space_ok c h) d hc WORD
example : wordBeforeCursor Gen.isSpace Gen.reSpace ⟨['x', ' ', 'a', 'b'], 4⟩ false = ['a', 'b'] := by decide


/-! ### literals of the methods that the model mirrors (regenerated from the source by `ast`) -/

/-- the bracket pairs of `find_matching_bracket_position` are the model's -/
theorem gen_brackets_ok : Gen.C02.bracketPairs = bracketPairs := by decide

/-- all code points of a list of inclusive ranges -/
def rangesExpand (rs : List (Nat × Nat)) : List Nat := rs.flatMap fun (a, b) => List.range' a (b + 1 - a)

theorem mem_rangesExpand (rs : List (Nat × Nat)) (n : Nat) :
    n ∈ rangesExpand rs ↔ ∃ p ∈ rs, p.1 ≤ n ∧ n ≤ p.2 := by
  simp only [rangesExpand, List.mem_flatMap, List.mem_range'_1]
  constructor
  · rintro ⟨p, hp, h1, h2⟩; exact ⟨p, hp, h1, by omega⟩
  · rintro ⟨p, hp, h1, h2⟩; exact ⟨p, hp, h1, by omega⟩

/-- for any alphabet table that expands the four ranges, the model's `isWordChar` is membership in
    the table (the `c1 in alphabet` test of `find_boundaries_of_current_word`) -/
theorem isWordChar_of_alphabet (tbl : List Nat)
    (h : tbl = rangesExpand [(48, 57), (65, 90), (95, 95), (97, 122)]) (c : Char) :
    isWordChar c = true ↔ c.toNat ∈ tbl := by
  subst h
  rw [mem_rangesExpand]
  simp only [isWordChar, Bool.or_eq_true, Bool.and_eq_true, decide_eq_true_eq, beq_iff_eq,
    List.mem_cons, List.not_mem_nil, or_false, exists_eq_or_imp, exists_eq_left]
  omega

theorem gen_alphabet_ok : Gen.C02.boundaryAlphabet = rangesExpand [(48, 57), (65, 90), (95, 95), (97, 122)] := by
  decide

theorem isWordChar_gen (c : Char) : isWordChar c = true ↔ c.toNat ∈ Gen.C02.boundaryAlphabet :=
  isWordChar_of_alphabet _ gen_alphabet_ok c
example : isWordChar '_' = true ∧ isWordChar 'é' = false := by decide


/-! ### pattern pins: the scanners of the model are written for exactly these regexes -/

/-- the six regex pattern strings of `document.py` (regenerated on every run), and their flags
    (32 = `re.UNICODE` only: no IGNORECASE / MULTILINE / DOTALL / ASCII) -/
theorem gen_patterns_ok :
    Gen.C02.findWordRe = "([a-zA-Z0-9_]+|[^a-zA-Z0-9_\\s]+)" ∧
    Gen.C02.findCurrentWordRe = "^([a-zA-Z0-9_]+|[^a-zA-Z0-9_\\s]+)" ∧
    Gen.C02.findCurrentWordWsRe = "^(([a-zA-Z0-9_]+|[^a-zA-Z0-9_\\s]+)\\s*)" ∧
    Gen.C02.findBigWordRe = "([^\\s]+)" ∧
    Gen.C02.findCurrentBigWordRe = "^([^\\s]+)" ∧
    Gen.C02.findCurrentBigWordWsRe = "^([^\\s]+\\s*)" ∧
    [Gen.C02.findWordReFlags, Gen.C02.findCurrentWordReFlags, Gen.C02.findCurrentWordWsReFlags,
     Gen.C02.findBigWordReFlags, Gen.C02.findCurrentBigWordReFlags,
     Gen.C02.findCurrentBigWordWsReFlags] = [32, 32, 32, 32, 32, 32] := by decide


/-! ### who writes the shared line-table cache

  `cache_transparent` models the cache as filled only by the two lazy getters.  That premise is
  pinned: the set of functions of document.py that assign `_cache.lines` / `_cache.line_indexes`
  (found by `ast` on every run) must be exactly these two.  A method that seeds the cache of a
  document it produces (e.g. a paste handing over its own line list) breaks this obligation; the
  cache sessions of the harness (documents produced by paste / insert / cut interleaved with plain
  constructions) then exhibit the failing input. -/
theorem gen_cache_writers_ok :
    Gen.C02.cacheWriters = ["Document._line_start_indexes", "Document.lines"] := by decide


/-- a document-producing method that hands a line list `ls` to the (still empty) cache entry of the
    text `t` it produced (what a "don't split again" optimisation would do) -/
def seedLines (s : Store) (t : Text) (ls : List Text) : Store :=
  if (s.get t).lines.isNone then s.set t { s.get t with lines := some ls } else s

/-- **cache transparency over sessions with produced documents**: seeding keeps the store
    consistent — and therefore every later interleaving of queries transparent
    (`cache_transparent`) — provided the seeded list is `text.split("\n")` -/
theorem seedLines_ok (s : Store) (hs : s.Ok) (t : Text) (ls : List Text) (h : ls = lines t) :
    (seedLines s t ls).Ok ∧
    ∀ ops, (cacheRun (seedLines s t ls) ops).1 = ops.map pureAns := by
  have hok : (seedLines s t ls).Ok := by
    unfold seedLines
    split
    · apply s.set_ok hs
      have hc := s.get_ok hs t
      refine ⟨?_, hc.2⟩
      intro ls' hls'
      simp only [Option.some.injEq] at hls'
      rw [← hls', h]
    · exact hs
  exact ⟨hok, fun ops => (cache_transparent _ hok ops).1⟩

/-- … and the proviso is needed: a list that merely joins back to the text (one element with an
    embedded newline, as `[data.text] * count` of a multi-line LINES paste) makes a later plain
    `lines` query on an equal text answer wrongly -/
theorem seedLines_wrong_breaks :
    ∃ (t : Text) (ls : List Text), join ['\n'] ls = t ∧ ls ≠ lines t ∧
      (cacheRun (seedLines [] t ls) [.lines t, .indexToPos t 2]).1 ≠
        [pureAns (.lines t), pureAns (.indexToPos t 2)] :=
  ⟨['a', '\n', 'b'], [['a', '\n', 'b']], by decide, by decide, by decide⟩
example : (seedLines [] ['a', '\n', 'b'] [['a'], ['b']]).Ok :=
  (seedLines_ok [] (by intro p hp; cases hp) _ _ (by decide)).1

end Ptk.C02
