/-
  C02 — audited module: generated character-class tables (Gen/C02Chars, Gen/PyChars) satisfy the
  side conditions under which the model classes are the classes of the compiled regexes.
-/
import Ptk.Gen.PyChars
import Ptk.Gen.C02Chars
import Ptk.Gen.C02Patterns
import Ptk.Props.C02WordB
namespace Ptk.C02
open Ptk.Py

/-! ## 19. the character classes of the model are the character classes of the compiled regexes

  `Gen/C02Chars.lean` is regenerated on every run by running the real `_FIND_WORD_RE` /
  `_FIND_BIG_WORD_RE` objects over all code points.  The theorems are stated for any tables that
  satisfy the decidable side condition `WFClassTables`; `gen_ok` re-decides it for the regenerated
  tables. -/

/-- side condition: class 1 is exactly the model's `[a-zA-Z0-9_]`, and both blank classes are
    exactly the `\s` table that the driver instantiates `sp` with -/
def WFClassTables (w b bb sp : List (Nat × Nat)) : Bool :=
  w == [(48, 57), (65, 90), (95, 95), (97, 122)] && b == sp && bb == sp

theorem isWordChar_ranges (c : Char) :
    isWordChar c = Gen.inRanges [(48, 57), (65, 90), (95, 95), (97, 122)] c := by
  simp only [isWordChar, Gen.inRanges, List.any_cons, List.any_nil, Bool.or_false]
  rw [Bool.eq_iff_iff]
  simp only [Bool.or_eq_true, Bool.and_eq_true, decide_eq_true_eq, beq_iff_eq]
  omega

/-- for well-formed tables the model's classes (with `sp` = membership in the `\s` table) are the
    classes of the tables, for every character -/
theorem cls_of_tables (w b bb sp : List (Nat × Nat)) (h : WFClassTables w b bb sp = true) (c : Char) :
    cls (Gen.inRanges sp) false c =
      (if Gen.inRanges w c then 1 else if Gen.inRanges b c then 0 else 2) ∧
    cls (Gen.inRanges sp) true c = (if Gen.inRanges bb c then 0 else 1) := by
  simp only [WFClassTables, Bool.and_eq_true, beq_iff_eq] at h
  obtain ⟨⟨hw, hb⟩, hbb⟩ := h
  subst hw hb hbb
  simp only [cls, Bool.false_eq_true, if_false, if_true, clsWord, clsBig, isWordChar_ranges]
  trivial

theorem gen_ok : WFClassTables Gen.C02.wordClassRanges Gen.C02.blankClassRanges
    Gen.C02.bigBlankClassRanges Gen.reSpaceRanges = true := by decide

/-- the classes the driver computes with are the classes of the compiled regexes of /repo -/
theorem cls_gen (c : Char) :
    cls Gen.reSpace false c =
      (if Gen.inRanges Gen.C02.wordClassRanges c then 1
       else if Gen.inRanges Gen.C02.blankClassRanges c then 0 else 2) ∧
    cls Gen.reSpace true c = (if Gen.inRanges Gen.C02.bigBlankClassRanges c then 0 else 1) :=
  cls_of_tables _ _ _ _ gen_ok c
example : cls Gen.reSpace false 'é' = 2 ∧ cls Gen.reSpace false '_' = 1 ∧ cls Gen.reSpace true (Char.ofNat 8232) = 0 := by
  decide

/-- every range of `A` lies inside one range of `B` -/
def rangesSub (A B : List (Nat × Nat)) : Bool :=
  A.all fun (a, b) => B.any fun (x, y) => decide (x ≤ a) && decide (b ≤ y)

theorem inRanges_of_sub (A B : List (Nat × Nat)) (h : rangesSub A B = true) (c : Char)
    (hc : Gen.inRanges A c = true) : Gen.inRanges B c = true := by
  simp only [Gen.inRanges, List.any_eq_true, Bool.and_eq_true, decide_eq_true_eq, Prod.exists] at hc ⊢
  obtain ⟨a, b, hab, h1, h2⟩ := hc
  simp only [rangesSub, List.all_eq_true] at h
  have := h (a, b) hab
  simp only [List.any_eq_true, Bool.and_eq_true, decide_eq_true_eq, Prod.exists] at this
  obtain ⟨x, y, hxy, h3, h4⟩ := this
  exact ⟨x, y, hxy, by omega, by omega⟩

/-- regex `\s` ⊆ `str.isspace` for the tables of the running interpreter -/
theorem gen_space_ok : rangesSub Gen.reSpaceRanges Gen.isSpaceRanges = true := by decide

/-- `get_word_before_cursor` with the generated classes: `wordBeforeCursor_spec` without hypothesis -/
theorem wordBeforeCursor_gen (d : Doc) (hc : d.cur ≤ d.text.length) (WORD : Bool) :
    ∃ n : Nat, n ≤ d.cur ∧
      wordBeforeCursor Gen.isSpace Gen.reSpace d WORD = (d.text.take d.cur).drop (d.cur - n) ∧
      (n = 0 ↔ (d.cur = 0 ∨ ∃ c, d.text[d.cur - 1]? = some c ∧ Gen.isSpace c = true)) ∧
      (0 < n → ∃ k, k ≠ 0 ∧
        (∀ p, d.cur - n ≤ p → p < d.cur → clsAt (cls Gen.reSpace WORD) d.text p = some k) ∧
        (d.cur - n = 0 ∨ clsAt (cls Gen.reSpace WORD) d.text (d.cur - n - 1) ≠ some k)) :=
  wordBeforeCursor_spec Gen.isSpace Gen.reSpace
    (fun c h => inRanges_of_sub _ _ gen_space_ok c h) d hc WORD
example : wordBeforeCursor Gen.isSpace Gen.reSpace ⟨['x', ' ', 'a', 'b'], 4⟩ false = ['a', 'b'] := by decide


/-! ### literals of the methods that the model mirrors (regenerated from the source by `ast`) -/

/-- the bracket pairs of `find_matching_bracket_position` are the model's -/
theorem gen_brackets_ok : Gen.C02.bracketPairs = bracketPairs := by decide

/-- all code points of a list of inclusive ranges -/
def rangesExpand (rs : List (Nat × Nat)) : List Nat := rs.flatMap fun (a, b) => List.range' a (b + 1 - a)

theorem mem_rangesExpand (rs : List (Nat × Nat)) (n : Nat) :
    n ∈ rangesExpand rs ↔ ∃ p ∈ rs, p.1 ≤ n ∧ n ≤ p.2 := by
  simp only [rangesExpand, List.mem_flatMap, List.mem_range'_1]
  constructor
  · rintro ⟨p, hp, h1, h2⟩; exact ⟨p, hp, h1, by omega⟩
  · rintro ⟨p, hp, h1, h2⟩; exact ⟨p, hp, h1, by omega⟩

/-- for any alphabet table that expands the four ranges, the model's `isWordChar` is membership in
    the table (the `c1 in alphabet` test of `find_boundaries_of_current_word`) -/
theorem isWordChar_of_alphabet (tbl : List Nat)
    (h : tbl = rangesExpand [(48, 57), (65, 90), (95, 95), (97, 122)]) (c : Char) :
    isWordChar c = true ↔ c.toNat ∈ tbl := by
  subst h
  rw [mem_rangesExpand]
  simp only [isWordChar, Bool.or_eq_true, Bool.and_eq_true, decide_eq_true_eq, beq_iff_eq,
    List.mem_cons, List.not_mem_nil, or_false, exists_eq_or_imp, exists_eq_left]
  omega

theorem gen_alphabet_ok : Gen.C02.boundaryAlphabet = rangesExpand [(48, 57), (65, 90), (95, 95), (97, 122)] := by
  decide

theorem isWordChar_gen (c : Char) : isWordChar c = true ↔ c.toNat ∈ Gen.C02.boundaryAlphabet :=
  isWordChar_of_alphabet _ gen_alphabet_ok c
example : isWordChar '_' = true ∧ isWordChar 'é' = false := by decide


/-! ### pattern pins: the scanners of the model are written for exactly these regexes -/

/-- the six regex pattern strings of `document.py` (regenerated on every run), and their flags
    (32 = `re.UNICODE` only: no IGNORECASE / MULTILINE / DOTALL / ASCII) -/
theorem gen_patterns_ok :
    Gen.C02.findWordRe = "([a-zA-Z0-9_]+|[^a-zA-Z0-9_\\s]+)" ∧
    Gen.C02.findCurrentWordRe = "^([a-zA-Z0-9_]+|[^a-zA-Z0-9_\\s]+)" ∧
    Gen.C02.findCurrentWordWsRe = "^(([a-zA-Z0-9_]+|[^a-zA-Z0-9_\\s]+)\\s*)" ∧
    Gen.C02.findBigWordRe = "([^\\s]+)" ∧
    Gen.C02.findCurrentBigWordRe = "^([^\\s]+)" ∧
    Gen.C02.findCurrentBigWordWsRe = "^([^\\s]+\\s*)" ∧
    [Gen.C02.findWordReFlags, Gen.C02.findCurrentWordReFlags, Gen.C02.findCurrentWordWsReFlags,
     Gen.C02.findBigWordReFlags, Gen.C02.findCurrentBigWordReFlags,
     Gen.C02.findCurrentBigWordWsReFlags] = [32, 32, 32, 32, 32, 32] := by decide

end Ptk.C02
