/-
  C20 — the `patch_stdout()` context manager (`Ptk.Model.C20Patch`): every write call made by any thread, at any
  time during or after the `with` block, reaches either the terminal (through the proxy, before the sentinel) or
  the restored stream, exactly once and in the order of the calls — because `sys.stdout` is restored BEFORE the
  proxy is closed.  With the two teardown steps swapped, text written while `close()` waits for the flush
  thread lands behind the sentinel and is lost (witness; seeded regression C20-j).
-/
import Ptk.Props.C20
import Ptk.Model.C20Patch
namespace Ptk.C20Patch
open Ptk.Py Ptk.C20

theorem textsOf_append (a b : List (Nat × Text)) : textsOf (a ++ b) = textsOf a ++ textsOf b := by
  simp [textsOf]

/-- the proxy part never sees an application: the flush thread always writes directly -/
structure NoApp (p : C20.St) : Prop where
  app : p.appOn = false
  wind : p.winding = false
  pend : p.pending = []
  tasks : p.tasks = []
  lost : p.lost = []
  reg : p.regTasks = false
  direct : ∀ g t d, p.fl ≠ .ready (some g) t d ∧ p.fl ≠ .relook g t d

theorem noApp_noReg {p : C20.St} (h : NoApp p) : NoReg p := ⟨h.reg, by simp [h.tasks]⟩

theorem noApp_init (raw : Bool) : NoApp (C20.init raw) := by
  constructor <;> simp [C20.init]

theorem noApp_write {p : C20.St} (h : NoApp p) (d : Text) : NoApp (doWrite p d) := by
  obtain ⟨h1, h2, h3, h4, h5, h6, h7⟩ := h
  simp only [doWrite]; split <;> exact ⟨h1, h2, h3, h4, h5, h6, h7⟩

theorem noApp_flush {p : C20.St} (h : NoApp p) : NoApp (doFlush p) := by
  obtain ⟨h1, h2, h3, h4, h5, h6, h7⟩ := h
  exact ⟨h1, h2, h3, h4, h5, h6, h7⟩

theorem noApp_close {p : C20.St} (h : NoApp p) : NoApp { p with queue := p.queue ++ [.done] } := by
  obtain ⟨h1, h2, h3, h4, h5, h6, h7⟩ := h
  exact ⟨h1, h2, h3, h4, h5, h6, h7⟩

theorem afterEmit_cases (dn : Bool) : afterEmit dn = .idle ∨ afterEmit dn = .exited := by
  cases dn <;> simp [afterEmit]

theorem noApp_fl {p : C20.St} (h : NoApp p) : NoApp (flStep p) := by
  obtain ⟨h1, h2, h3, h4, h5, h6, h7⟩ := h
  simp only [flStep]
  cases hf : p.fl with
  | idle =>
    simp only
    cases hq : p.queue with
    | nil => exact ⟨h1, h2, h3, h4, h5, h6, h7⟩
    | cons i q =>
      cases i with
      | done => exact ⟨h1, h2, h3, h4, h5, h6, by simp⟩
      | text t =>
        cases t with
        | nil => exact ⟨h1, h2, h3, h4, h5, h6, by simpa using h7⟩
        | cons c cs => exact ⟨h1, h2, h3, h4, h5, h6, by simp⟩
  | batch txt dn =>
    have : appLoop p = none := by simp [appLoop, h1, h2]
    simp only [this]
    exact ⟨h1, h2, h3, h4, h5, h6, by simp⟩
  | ready lp txt dn =>
    cases lp with
    | none =>
      refine ⟨h1, h2, h3, h4, h5, h6, ?_⟩
      intro g t d
      rcases afterEmit_cases dn with e | e <;> simp [e]
    | some g => exact absurd hf (h7 g txt dn).1
  | relook g txt dn => exact absurd hf (h7 g txt dn).2
  | exited => exact ⟨h1, h2, h3, h4, h5, h6, by simp [hf]⟩

/-- invariant of the code's order (restore, then close) -/
structure PInv (s : St) : Prop where
  order : s.closeFirst = false
  noApp : NoApp s.p
  stream : C20.stream s.p = textsOf s.viaProxy
  orig : s.orig = textsOf s.viaOrig
  calls : s.calls = s.viaProxy ++ s.viaOrig
  early : s.bound = true → s.viaOrig = []
  inside : s.pc = .inside → s.bound = true ∧ hasDone s.p.queue = false ∧ flDone s.p.fl = false
  after : s.pc ≠ .inside → s.bound = false ∧ CInv s.p
  fin : s.pc = .done → s.p.fl = .exited

theorem pinv_init (raw : Bool) : PInv (init raw) := by
  refine ⟨rfl, noApp_init raw, ?_, rfl, rfl, fun _ => rfl, ?_, ?_, ?_⟩
  · simp [init, C20.init, C20.stream, outText, cat, held, qText, textsOf, taskTexts]
  · intro _; simp [init, C20.init, hasDone, flDone]
  · intro h; simp [init] at h
  · intro h; simp [init] at h

theorem loopIdle_noApp {p : C20.St} (h : NoApp p) : loopIdle p = true := by
  simp [loopIdle, h.pend, h.tasks]

theorem pinv_step (s : St) (o : Op) (h : PInv s) : PInv (step s o) := by
  obtain ⟨ho, hn, hs, hor, hc, he, hi, ha, hf⟩ := h
  cases o with
  | write t d =>
    simp only [step]
    by_cases hb : s.bound = true
    · rw [if_pos hb]
      have hst := (stream_step s.p (.write t d) (noApp_noReg hn) rfl).1
      simp only [C20.step, opText] at hst
      have hpc : s.pc = .inside := by
        cases hp : s.pc <;> first | rfl | (have := (ha (by simp [hp])).1; simp [hb] at this)
      obtain ⟨-, hd, hfd⟩ := hi hpc
      have hal := alive_step s.p (.write t d) (by simp) ⟨hd, hfd⟩
      simp only [C20.step] at hal
      refine ⟨ho, noApp_write hn d, ?_, hor, ?_, he, fun _ => ⟨hb, hal.1, hal.2⟩, ?_, ?_⟩
      · rw [hst, hs, textsOf_append]; simp [textsOf]
      · simp [hc, he hb]
      · intro hne; exact absurd hpc hne
      · intro hd'; rw [hpc] at hd'; cases hd'
    · rw [if_neg hb]
      have hb' : s.bound = false := by simpa using hb
      refine ⟨ho, hn, hs, ?_, ?_, ?_, ?_, ha, hf⟩
      · rw [hor, textsOf_append]; simp [textsOf]
      · simp [hc]
      · intro h'; rw [hb'] at h'; cases h'
      · intro hpc; have := (hi hpc).1; rw [hb'] at this; cases this
  | flush t =>
    simp only [step]
    by_cases hb : s.bound = true
    · rw [if_pos hb]
      have hst := (stream_step s.p (.flush t) (noApp_noReg hn) rfl).1
      simp only [C20.step, opText, List.append_nil] at hst
      have hpc : s.pc = .inside := by
        cases hp : s.pc <;> first | rfl | (have := (ha (by simp [hp])).1; simp [hb] at this)
      obtain ⟨-, hd, hfd⟩ := hi hpc
      have hal := alive_step s.p (.flush t) (by simp) ⟨hd, hfd⟩
      simp only [C20.step] at hal
      refine ⟨ho, noApp_flush hn, by rw [hst, hs], hor, hc, he, fun _ => ⟨hb, hal.1, hal.2⟩, ?_, ?_⟩
      · intro hne; exact absurd hpc hne
      · intro hd'; rw [hpc] at hd'; cases hd'
    · rw [if_neg hb]; exact ⟨ho, hn, hs, hor, hc, he, hi, ha, hf⟩
  | fl =>
    simp only [step]
    have hcalm : calmStep s.p .fl = true := by
      simp only [calmStep]; split <;> simp [loopIdle_noApp hn]
    have hst := (stream_step s.p .fl (noApp_noReg hn) hcalm).1
    simp only [C20.step, opText, List.append_nil] at hst
    refine ⟨ho, noApp_fl hn, by rw [hst, hs], hor, hc, he, ?_, ?_, ?_⟩
    · intro hpc
      obtain ⟨hb, hd, hfd⟩ := hi hpc
      have hal := alive_step s.p .fl (by simp) ⟨hd, hfd⟩
      simp only [C20.step] at hal
      exact ⟨hb, hal.1, hal.2⟩
    · intro hne
      obtain ⟨hb, hci⟩ := ha hne
      have := cinv_flrun s.p .fl (Or.inl rfl) hci
      exact ⟨hb, by simpa [C20.step] using this⟩
    · intro hd
      have he' := hf hd
      simp [flStep, he']
  | leave =>
    simp only [step]
    cases hp : s.pc with
    | inside =>
      obtain ⟨hb, hd, hfd⟩ := hi hp
      obtain ⟨ha1, ha2⟩ := afterDone_noDone hd .done
      have hst := (stream_step s.p .close (noApp_noReg hn) rfl).1
      simp only [C20.step, opText, List.append_nil] at hst
      simp only [ho, Bool.false_eq_true, if_false]
      refine ⟨rfl, noApp_close hn, by rw [hst, hs], hor, hc, ?_, ?_, ?_, ?_⟩
      · intro h'; cases h'
      · intro h'; cases h'
      · intro _
        refine ⟨rfl, ha1, Or.inl (ha2 rfl), ?_, ?_⟩
        · intro hd'; rw [hfd] at hd'; cases hd'
        · intro he'
          have he'' : s.p.fl = .exited := he'
          rw [he''] at hfd; simp [flDone] at hfd
      · intro h'; cases h'
    | joining => simp only; exact ⟨ho, hn, hs, hor, hc, he, by simpa [hp] using hi, by simpa [hp] using ha, by simpa [hp] using hf⟩
    | done => simp only; exact ⟨ho, hn, hs, hor, hc, he, by simpa [hp] using hi, by simpa [hp] using ha, by simpa [hp] using hf⟩
  | joined =>
    simp only [step]
    cases hp : s.pc with
    | inside => simp only; exact ⟨ho, hn, hs, hor, hc, he, by simpa [hp] using hi, by simpa [hp] using ha, by simpa [hp] using hf⟩
    | done => simp only; exact ⟨ho, hn, hs, hor, hc, he, by simpa [hp] using hi, by simpa [hp] using ha, by simpa [hp] using hf⟩
    | joining =>
      simp only
      obtain ⟨hb, hci⟩ := ha (by simp [hp])
      by_cases hex : s.p.fl = .exited
      · rw [if_pos hex]
        refine ⟨ho, hn, hs, hor, hc, ?_, ?_, ?_, fun _ => hex⟩
        · intro h'; cases h'
        · intro h'; cases h'
        · intro _; exact ⟨rfl, hci⟩
      · rw [if_neg hex]
        exact ⟨ho, hn, hs, hor, hc, he, by simpa [hp] using hi, by simpa [hp] using ha, by simpa [hp] using hf⟩

theorem pinv_run (s : St) (ops : List Op) (h : PInv s) : PInv (runOps s ops) := by
  induction ops generalizing s with
  | nil => exact h
  | cons o os ih => exact ih _ (pinv_step s o h)

/-- **patch_stdout_routes_every_write.**  At every moment of every schedule — any number of threads writing
    through `sys.stdout` before, while and after the main thread leaves `with patch_stdout():` — the write calls
    split, in call order, into those that went to the proxy and those that went to the restored stream (the first
    group entirely before the second); the proxy's stream (terminal ++ what is in flight) is exactly the text of
    the first group, the restored stream has received exactly the text of the second: nothing is lost,
    duplicated or reordered. -/
theorem patch_stdout_routes_every_write (raw : Bool) (ops : List Op) :
    let s := runOps (init raw) ops
    s.calls = s.viaProxy ++ s.viaOrig ∧ C20.stream s.p = textsOf s.viaProxy ∧ s.orig = textsOf s.viaOrig ∧
    s.p.lost = [] := by
  have h := pinv_run _ ops (pinv_init raw)
  exact ⟨h.calls, h.stream, h.orig, h.noApp.lost⟩

/-- **patch_stdout_delivers.**  Once `patch_stdout()` has returned (`close()` joined the flush thread), the terminal
    has received exactly the text of every write call that went through the proxy — but for an unfinished last
    line that nobody flushed, which is still in the line buffer — and nothing is left in the queue or in the
    flush thread: no write call landed behind the sentinel. -/
theorem patch_stdout_delivers (raw : Bool) (ops : List Op) (hd : (runOps (init raw) ops).pc = .done) :
    let s := runOps (init raw) ops
    outText s.p.log ++ cat s.p.buffer = textsOf s.viaProxy ∧ qText s.p.queue = [] ∧ s.p.fl = .exited ∧
    s.orig = textsOf s.viaOrig ∧ s.calls = s.viaProxy ++ s.viaOrig ∧ s.bound = false := by
  intro s
  have h := pinv_run _ ops (pinv_init raw)
  have hex := h.fin hd
  obtain ⟨hb, hci⟩ := h.after (by rw [hd]; simp)
  have hq := hci.gone hex
  refine ⟨?_, hq, hex, h.orig, h.calls, hb⟩
  have hs := h.stream
  simp only [C20.stream, h.noApp.pend, h.noApp.tasks, hex, held, hq] at hs
  simpa [taskTexts, cat] using hs

-- non-vacuity: two writers; the main thread leaves while the flush thread still holds a batch; a write that comes
-- while `close()` waits goes to the restored stream
example :
    let ops : List Op := [.write 0 ['a', '\n'], .fl, .fl, .leave, .write 1 ['b', '\n'], .fl, .joined, .fl, .joined,
      .write 0 ['c', '\n']]
    (runOps (init false) ops).pc = .done ∧ outText (runOps (init false) ops).p.log = ['a', '\n'] ∧
    (runOps (init false) ops).orig = ['b', '\n', 'c', '\n'] := by decide

/-- the swapped teardown order: close the proxy first, restore `sys.stdout` after `join()` returned -/
def initSwapped (raw : Bool) : St := { init raw with closeFirst := true }

/-- the main thread leaves the block while the flush thread is busy with `a`; `close()` queues the sentinel and
    waits; meanwhile thread 1 writes `b` through `sys.stdout` -/
def seedJ : List Op := [.write 0 ['a', '\n'], .fl, .fl, .leave, .write 1 ['b', '\n'], .fl, .fl, .joined,
  .write 1 ['c', '\n']]

/-- **swapped_teardown_loses_text_witness.**  On `seedJ` the code delivers `a` to the terminal and `b`, `c` to the
    restored stream.  With the swapped order `b` is still written through the proxy, lands behind the sentinel,
    the flush thread ends without taking it: after `patch_stdout()` has returned it is neither on the terminal
    nor in the restored stream. -/
theorem swapped_teardown_loses_text_witness :
    (runOps (init false) seedJ).pc = .done ∧
    outText (runOps (init false) seedJ).p.log = ['a', '\n'] ∧
    (runOps (init false) seedJ).orig = ['b', '\n', 'c', '\n'] ∧
    (runOps (initSwapped false) seedJ).pc = .done ∧
    outText (runOps (initSwapped false) seedJ).p.log = ['a', '\n'] ∧
    (runOps (initSwapped false) seedJ).orig = ['c', '\n'] ∧
    qText (runOps (initSwapped false) seedJ).p.queue = ['b', '\n'] ∧
    (runOps (initSwapped false) seedJ).p.fl = .exited := by decide

end Ptk.C20Patch
