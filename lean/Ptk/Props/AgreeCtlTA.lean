/-
  Cross-model agreement, cluster "undo stack, validation, coroutine guard, typeahead, parser glue".

  Part 3 — the type-ahead store (src/prompt_toolkit/input/typeahead.py: `_buffer`,
  `store_typeahead`, `get_typeahead`, `clear_typeahead`): C03 (`Ptk.C03.Utf8.TA` with `TA.get`,
  `TA.set`, `TA.store`, `TA.take`, `TA.clear`) vs C17 (`Ptk.C17.Store.Buf` with `getD`, `put`,
  `storeTypeahead`, `getTypeahead`, `clearTypeahead`; and the single-input field
  `Ptk.C17.St.typeahead` of the first layer).

  The two models represent the `defaultdict(list)` differently (C03: newest binding first, older
  bindings of the key filtered out; C17: updated in place, new keys appended) and use different
  key and value types (C03: `input.typeahead_hash()` as a `String`, `KeyPress` as `(key, data)`;
  C17: an opaque `Nat` hash, the accept-boundary alphabet `Key`).  Translation: ANY injective
  `κ : String → Hash` and ANY `π : Press → Key`; the two dicts are related when they have the same
  DENOTATION — `R`: for every key, the stored list of C03 mapped through `π` is the stored list of
  C17 under `κ`.  Every function of the module preserves `R` and returns related results; hence
  every sequence of calls observes the same lists (`run_C03_C17`).
-/
import Ptk.Model.C03Read
import Ptk.Model.C17Store
import Ptk.Props.C17Store
namespace Ptk.AgreeCtl.TA
open Ptk.C17 Ptk.C17.Store
open Ptk.C03 (Press)
open Ptk.C03.Utf8 (TA)

/-- `_buffer[key]` after `_buffer[k] = v` (C03's representation) -/
theorem get_set (b : TA) (k k' : String) (v : List Press) :
    (TA.set b k v).get k' = if k' = k then v else b.get k' := by
  unfold TA.set TA.get
  by_cases h : k' = k
  · simp [h]
  · have h1 : (k == k') = false := by simpa using fun e => h e.symm
    simp only [List.find?_cons, h1, h, if_false]
    rw [List.find?_filter]
    have : (fun a : String × List Press => decide ((!(a.1 == k)) = true ∧ (a.1 == k') = true))
        = fun a => a.1 == k' := by
      funext a
      by_cases hk : a.1 = k'
      · have : ¬ a.1 = k := fun e => h (hk ▸ e)
        simp [hk, h]
      · simp [hk]
    rw [this]

/-- `_buffer[key]` after `_buffer[h] = v` (C17's representation) -/
theorem getD_put (d : Buf) (h h' : Hash) (v : List Key) :
    getD (put d h v) h' [] = if h' = h then v else getD d h' [] := by
  by_cases e : h' = h
  · simp [e, getD_put_same]
  · simp [e, getD_put_other d h h' v [] e]

variable (κ : String → Hash) (π : Press → Key)

/-- same denotation: every entry of C03's dict, mapped, is the entry of C17's dict -/
def R (b : TA) (d : Buf) : Prop := ∀ k, (b.get k).map π = getD d (κ k) []

/-- the empty `defaultdict` -/
theorem R_init : R κ π [] [] := fun _ => rfl

/-- input/typeahead.py::store_typeahead — `Ptk.C03.Utf8.TA.store` vs `Ptk.C17.Store.storeTypeahead` -/
theorem store_C03_C17 (hκ : Function.Injective κ) (b : TA) (d : Buf) (hR : R κ π b d)
    (k : String) (ps : List Press) :
    R κ π (b.store k ps) (storeTypeahead d (κ k) (ps.map π)) := by
  intro k'
  unfold TA.store storeTypeahead
  rw [get_set, getD_put]
  by_cases h : k' = k
  · simp [h, ← hR k]
  · have : κ k' ≠ κ k := fun e => h (hκ e)
    simp [h, this, hR k']

/-- input/typeahead.py::get_typeahead — `Ptk.C03.Utf8.TA.take` vs `Ptk.C17.Store.getTypeahead`:
    the returned list and the dict afterwards -/
theorem take_C03_C17 (hκ : Function.Injective κ) (b : TA) (d : Buf) (hR : R κ π b d) (k : String) :
    (b.take k).1.map π = (getTypeahead d (κ k)).1 ∧
    R κ π (b.take k).2 (getTypeahead d (κ k)).2 := by
  refine ⟨hR k, ?_⟩
  intro k'
  unfold TA.take getTypeahead
  simp only []
  rw [get_set, getD_put]
  by_cases h : k' = k
  · simp [h]
  · have : κ k' ≠ κ k := fun e => h (hκ e)
    simp [h, this, hR k']

/-- input/typeahead.py::clear_typeahead — `Ptk.C03.Utf8.TA.clear` vs `Ptk.C17.Store.clearTypeahead` -/
theorem clear_C03_C17 (hκ : Function.Injective κ) (b : TA) (d : Buf) (hR : R κ π b d) (k : String) :
    R κ π (b.clear k) (clearTypeahead d (κ k)) :=
  (take_C03_C17 κ π hκ b d hR k).2

/-! ### every sequence of calls -/

/-- one call of the module -/
inductive TOp
  | store (k : String) (ps : List Press)
  | take (k : String)
  | clear (k : String)

/-- C03: the dict afterwards and what the `get_typeahead` calls returned -/
def run03 : TA → List TOp → TA × List (List Press)
  | b, [] => (b, [])
  | b, .store k ps :: ops => run03 (b.store k ps) ops
  | b, .take k :: ops => let r := run03 (b.take k).2 ops; (r.1, (b.take k).1 :: r.2)
  | b, .clear k :: ops => run03 (b.clear k) ops

/-- C17, keys through `κ`, key presses through `π` -/
def run17 : Buf → List TOp → Buf × List (List Key)
  | d, [] => (d, [])
  | d, .store k ps :: ops => run17 (storeTypeahead d (κ k) (ps.map π)) ops
  | d, .take k :: ops =>
    let r := run17 (getTypeahead d (κ k)).2 ops; (r.1, (getTypeahead d (κ k)).1 :: r.2)
  | d, .clear k :: ops => run17 (clearTypeahead d (κ k)) ops

/-- input/typeahead.py (the whole module) — any sequence of `store_typeahead` / `get_typeahead` /
    `clear_typeahead` calls on any number of input objects: the two models return the same lists
    and end in dicts with the same denotation -/
theorem run_C03_C17 (hκ : Function.Injective κ) : ∀ (ops : List TOp) (b : TA) (d : Buf), R κ π b d →
    (run03 b ops).2.map (List.map π) = (run17 κ π d ops).2 ∧
    R κ π (run03 b ops).1 (run17 κ π d ops).1
  | [], _, _, hR => ⟨rfl, hR⟩
  | .store k ps :: ops, b, d, hR => run_C03_C17 hκ ops _ _ (store_C03_C17 κ π hκ b d hR k ps)
  | .take k :: ops, b, d, hR => by
    have h := take_C03_C17 κ π hκ b d hR k
    have ih := run_C03_C17 hκ ops _ _ h.2
    simp only [run03, run17, List.map_cons]
    exact ⟨by rw [h.1, ih.1], ih.2⟩
  | .clear k :: ops, b, d, hR => run_C03_C17 hκ ops _ _ (clear_C03_C17 κ π hκ b d hR k)

/-! ### the single-input store of C17's first layer -/

/-- input/typeahead.py::store_typeahead / get_typeahead as used by `Application.run_async` on ONE
    input object — the field `Ptk.C17.St.typeahead` (`leave`: `typeahead ++ …`; `.start`: read and
    reset to `[]`) is the entry of that input in C03's dict: `store` appends, `take` returns the
    entry and leaves `[]` -/
theorem single_input_C03_C17 (b : TA) (k : String) (ps : List Press) :
    ((b.store k ps).get k).map π = (b.get k).map π ++ ps.map π ∧
    (b.take k).1 = b.get k ∧ (b.take k).2.get k = [] := by
  refine ⟨?_, rfl, ?_⟩
  · unfold TA.store; rw [get_set]; simp
  · unfold TA.take; simp only []; rw [get_set]; simp

/-- non-vacuity: two input objects, interleaved calls -/
example :
    let κ : String → Hash := String.length
    let π : Press → Key := fun p => .other p.data.length
    let ops : List TOp := [.store "fd-0" [⟨"a", ['a']⟩], .store "pipe-1" [⟨"b", []⟩], .take "fd-0",
      .store "fd-0" [⟨"c", ['c', 'c']⟩], .take "pipe-1", .clear "fd-0", .take "fd-0"]
    (run03 [] ops).2.map (List.map π) = (run17 κ π [] ops).2 ∧
    (run17 κ π [] ops).2 = [[.other 1], [.other 0], []] := by decide

end Ptk.AgreeCtl.TA
