/-
  C19 — the class-name construction of `get_attrs_for_style_str`, spelled out:
  `_expand_classname('a.b.c')` is exactly the list of dotted PREFIXES (lower-cased), a rule takes
  part iff each of its class names is a dotted prefix of some class named in a `class:` part
  (comma lists split, everything lower-cased), parts in square brackets ('[transparent]',
  '[SetCursorPosition]', '[ZeroWidthEscape]') change nothing, and a part / rule containing
  'noinherit' sets every attribute (it resets whatever came before it).
-/
import Ptk.Props.C19Cascade
import Ptk.Props.C19Style
namespace Ptk.C19
open Ptk.Py

/-- the `k`-th dotted prefix of a class name (`k ≥ 1`), lower-cased: `'.'.join(parts[:k]).lower()` -/
def dottedPrefix (name : Text) (k : Nat) : Text := lower (join ['.'] ((splitOn '.' name).take k))

theorem mem_prefixesFrom (parts : List Text) (x : Text) (i n : Nat) :
    x ∈ prefixesFrom parts i n ↔ ∃ j, i ≤ j ∧ j < i + n ∧ x = lower (join ['.'] (parts.take j)) := by
  induction n generalizing i with
  | zero =>
    simp only [prefixesFrom, List.not_mem_nil, false_iff]
    rintro ⟨j, h1, h2, _⟩
    omega
  | succ n ih =>
    simp only [prefixesFrom, List.mem_cons, ih]
    constructor
    · rintro (rfl | ⟨j, h1, h2, rfl⟩)
      · exact ⟨i, Nat.le_refl _, by omega, rfl⟩
      · exact ⟨j, by omega, by omega, rfl⟩
    · rintro ⟨j, h1, h2, rfl⟩
      by_cases hj : j = i
      · left; rw [hj]
      · right; exact ⟨j, by omega, by omega, rfl⟩

/-- **C19-ac (`_expand_classname`).**  `'a.b.c'` expands to `'a'`, `'a.b'`, `'a.b.c'`: exactly the
    non-empty dotted prefixes, lower-cased, shortest first. -/
theorem mem_expandClassname (name x : Text) :
    x ∈ expandClassname name ↔ ∃ k, 1 ≤ k ∧ k ≤ (splitOn '.' name).length ∧ x = dottedPrefix name k := by
  unfold expandClassname dottedPrefix
  simp only [mem_prefixesFrom]
  constructor
  · rintro ⟨j, h1, h2, rfl⟩; exact ⟨j, h1, by omega, rfl⟩
  · rintro ⟨j, h1, h2, rfl⟩; exact ⟨j, h1, by omega, rfl⟩

theorem prefixesFrom_length (parts : List Text) (i n : Nat) : (prefixesFrom parts i n).length = n := by
  induction n generalizing i with
  | zero => rfl
  | succ n ih => simp [prefixesFrom, ih]

theorem expandClassname_length (name : Text) : (expandClassname name).length = (splitOn '.' name).length := by
  unfold expandClassname
  exact prefixesFrom_length _ _ _

theorem mem_classNames (parts : List Text) (x : Text) :
    x ∈ classNames parts ↔
      ∃ part ∈ parts, startsWith "class:".toList part = true ∧
        ∃ piece ∈ splitOn ',' (lower (part.drop 6)), x ∈ expandClassname piece := by
  unfold classNames classPartNames
  simp only [List.mem_flatMap, List.mem_filter, List.mem_flatten, List.mem_map]
  constructor
  · rintro ⟨part, ⟨hp, hc⟩, l, ⟨piece, hpiece, rfl⟩, hx⟩
    exact ⟨part, hp, hc, piece, hpiece, hx⟩
  · rintro ⟨part, hp, hc, piece, hpiece, hx⟩
    exact ⟨part, ⟨hp, hc⟩, _, ⟨piece, hpiece, rfl⟩, hx⟩

/-- **C19-ac' (which rules take part, dotted names).**  A rule contributes to the resolution of a
    style string iff EVERY one of its class names is a dotted prefix (`a`, `a.b`, … of `a.b.c`) of
    some comma-separated piece of some `class:` part of the string (pieces lower-cased). -/
theorem rule_used_iff_prefix (T : Tables) (sp : Char → Bool) (rules : List Rule) (s : Text) (d : Attrs)
    (srcs : List Src) (h : sources T sp rules s d = some srcs) (r : Rule) :
    Src.rule r ∈ srcs ↔ r ∈ rules ∧ ∀ n ∈ r.names,
      ∃ part ∈ splitWs sp s, startsWith "class:".toList part = true ∧
        ∃ piece ∈ splitOn ',' (lower (part.drop 6)),
          ∃ k, 1 ≤ k ∧ k ≤ (splitOn '.' piece).length ∧ n = dottedPrefix piece k := by
  rw [rule_used_iff T sp rules s d srcs h r]
  constructor
  · rintro ⟨hr, hall⟩
    refine ⟨hr, fun n hn => ?_⟩
    obtain ⟨part, hp, hc, piece, hpiece, hx⟩ := (mem_classNames _ n).mp (hall n hn)
    exact ⟨part, hp, hc, piece, hpiece, (mem_expandClassname piece n).mp hx⟩
  · rintro ⟨hr, hall⟩
    refine ⟨hr, fun n hn => ?_⟩
    obtain ⟨part, hp, hc, piece, hpiece, hk⟩ := hall n hn
    exact (mem_classNames _ n).mpr ⟨part, hp, hc, piece, hpiece, (mem_expandClassname piece n).mpr hk⟩

/-! ### parts in square brackets -/

/-- **C19-ad.**  A part that starts with '[' and ends with ']' ('[transparent]', '[SetCursorPosition]',
    '[ZeroWidthEscape]', …) leaves the attributes as they are. -/
theorem parsePart_bracket (T : Tables) (a : Attrs) (part : Text)
    (h1 : startsWith ['['] part = true) (h2 : endsWith [']'] part = true) : parsePart T a part = some a := by
  cases part with
  | nil => simp [startsWith] at h1
  | cons x xs =>
    have hx : x = '[' := by
      simp [startsWith] at h1
      exact h1
    subst hx
    unfold parsePart
    simp [h1, h2]

end Ptk.C19
