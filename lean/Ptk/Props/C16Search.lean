/-
  C16 — one search step (`search_once` of `Buffer._search`): the early-return loops over the
  history with their wrap-around index, characterised exactly for both directions.
-/
import Ptk.Props.C16Scan
namespace Ptk.C16
open Ptk.Py

/-! ### the early-return loops -/

theorem firstSome_none_iff {β : Type} (f : Nat → Option β) (l : List Nat) :
    firstSome f l = none ↔ ∀ j ∈ l, f j = none := by
  induction l with
  | nil => simp [firstSome]
  | cons i is ih =>
    unfold firstSome
    cases h : f i with
    | some r => simp [h]
    | none => simp [h, ih]

theorem firstSome_append {β : Type} (f : Nat → Option β) (l1 l2 : List Nat) :
    firstSome f (l1 ++ l2) =
      match firstSome f l1 with
      | some r => some r
      | none => firstSome f l2 := by
  induction l1 with
  | nil => simp [firstSome]
  | cons i is ih =>
    simp only [List.cons_append, firstSome]
    cases h : f i with
    | some r => simp
    | none => simp [ih]

theorem firstSome_map {β : Type} (f : Nat → Option β) (g : Nat → Nat) (l : List Nat) :
    firstSome f (l.map g) = firstSome (fun i => f (g i)) l := by
  induction l with
  | nil => rfl
  | cons i is ih => simp [firstSome, ih]

theorem firstSome_range' {β : Type} (f : Nat → Option β) (a m : Nat) (r : β)
    (h : firstSome f (List.range' a m) = some r) :
    ∃ i, a ≤ i ∧ i < a + m ∧ f i = some r ∧ ∀ j, a ≤ j → j < i → f j = none := by
  induction m generalizing a with
  | zero => simp [firstSome] at h
  | succ m ih =>
    rw [List.range'_succ] at h
    unfold firstSome at h
    cases hf : f a with
    | some r' =>
      simp [hf] at h; subst h
      exact ⟨a, by omega, by omega, hf, by intro j h1 h2; omega⟩
    | none =>
      simp [hf] at h
      obtain ⟨i, h1, h2, h3, h4⟩ := ih (a + 1) h
      refine ⟨i, by omega, by omega, h3, ?_⟩
      intro j hj1 hj2
      by_cases hja : j = a
      · subst hja; exact hf
      · exact h4 j (by omega) hj2

theorem firstSome_range_rev {β : Type} (f : Nat → Option β) (w : Nat) (r : β)
    (h : firstSome f (List.range w).reverse = some r) :
    ∃ i, i < w ∧ f i = some r ∧ ∀ j, i < j → j < w → f j = none := by
  induction w with
  | zero => simp [firstSome] at h
  | succ w ih =>
    rw [List.range_succ, List.reverse_append] at h
    simp only [List.reverse_cons, List.reverse_nil, List.nil_append, List.cons_append] at h
    unfold firstSome at h
    cases hf : f w with
    | some r' =>
      simp [hf] at h; subst h
      exact ⟨w, by omega, hf, by intro j h1 h2; omega⟩
    | none =>
      simp [hf] at h
      obtain ⟨i, h1, h2, h3⟩ := ih h
      refine ⟨i, by omega, h2, ?_⟩
      intro j hj1 hj2
      by_cases hjw : j = w
      · subst hjw; exact hf
      · exact h3 j hj1 (by omega)

/-! ### positions, occurrences in a history, travel order -/

/-- buffer invariant for a position (entry index, cursor) -/
def WF (ls : List Text) (p : Nat × Nat) : Prop :=
  p.1 < ls.length ∧ p.2 ≤ (entry ls p.1).length

/-- the needle occurs in entry `j` of the history at position `q` -/
def Occ (eq : Char → Char → Bool) (ls : List Text) (sub : Text) (j q : Nat) : Prop :=
  j < ls.length ∧ OccAt eq sub (entry ls j) q

/-- `(j, q)` lies ahead of the cursor `(w, c)` when travelling forward: in the current entry
    from the cursor on (strictly behind it when the current position is excluded), or in a
    later entry -/
def AheadF (incl : Bool) (w c j q : Nat) : Prop := (j = w ∧ c + lo incl ≤ q) ∨ w < j

/-- `(j, q)` lies ahead of the cursor `(w, c)` when travelling backward: an occurrence of `sub`
    in the current entry that ends at or before the cursor, or anything in an earlier entry -/
def AheadB (sub : Text) (w c j q : Nat) : Prop := (j = w ∧ q + sub.length ≤ c) ∨ j < w

/-- document order on positions: earlier entry, or same entry and smaller offset -/
def Before (a b : Nat × Nat) : Prop := a.1 < b.1 ∨ (a.1 = b.1 ∧ a.2 < b.2)

/-! ### one search step, forward -/

theorem fwdBody_some (eq : Char → Char → Bool) (ls : List Text) (sub : Text) (i i' p : Nat)
    (h : (docFind eq (entry ls i) 0 sub true).map (fun k => (i, k)) = some (i', p)) :
    i' = i ∧ OccAt eq sub (entry ls i) p ∧ ∀ q, q < p → ¬ OccAt eq sub (entry ls i) q := by
  cases hf : docFind eq (entry ls i) 0 sub true with
  | none => simp [hf] at h
  | some k =>
    simp [hf] at h
    obtain ⟨rfl, rfl⟩ := h
    obtain ⟨_, h2, h3⟩ := (docFind_some_iff eq _ 0 sub true k (by omega)).1 hf
    simp only [Nat.zero_add] at h2 h3
    exact ⟨rfl, h2, fun q hq => h3 q (by simp [lo]) hq⟩

theorem fwdBody_none (eq : Char → Char → Bool) (ls : List Text) (sub : Text) (i : Nat)
    (h : (docFind eq (entry ls i) 0 sub true).map (fun k => (i, k)) = none) :
    ∀ q, ¬ OccAt eq sub (entry ls i) q := by
  rw [Option.map_eq_none_iff, docFind_none_iff _ _ _ _ _ (by omega)] at h
  intro q
  have := h q (by simp [lo])
  simpa using this

/-- the three ways a forward step can succeed -/
theorem searchOnce_fwd_cases (eq : Char → Char → Bool) (ls : List Text) (sub : Text) (incl : Bool)
    (w c i p : Nat) (hwf : WF ls (w, c))
    (h : searchOnce eq ls sub .fwd incl (w, c) = some (i, p)) :
    -- (A) found in the current entry, at or behind the cursor
    (i = w ∧ c + lo incl ≤ p ∧ OccAt eq sub (entry ls w) p ∧
        ∀ q, c + lo incl ≤ q → q < p → ¬ OccAt eq sub (entry ls w) q) ∨
    -- (B) found in a later entry
    ((∀ q, c + lo incl ≤ q → ¬ OccAt eq sub (entry ls w) q) ∧ w < i ∧ i < ls.length ∧
        (∀ j, w < j → j < i → ∀ q, ¬ OccAt eq sub (entry ls j) q) ∧
        OccAt eq sub (entry ls i) p ∧ ∀ q, q < p → ¬ OccAt eq sub (entry ls i) q) ∨
    -- (C) nothing ahead: the loop's last index `len % len = 0` revisits entry 0 from its start
    ((∀ q, c + lo incl ≤ q → ¬ OccAt eq sub (entry ls w) q) ∧
        (∀ j, w < j → j < ls.length → ∀ q, ¬ OccAt eq sub (entry ls j) q) ∧
        i = 0 ∧ OccAt eq sub (entry ls 0) p ∧ ∀ q, q < p → ¬ OccAt eq sub (entry ls 0) q) := by
  obtain ⟨hw, hc⟩ := hwf
  simp only at hw hc
  simp only [searchOnce] at h
  cases hd : docFind eq (entry ls w) c sub incl with
  | some k =>
    simp only [hd] at h
    cases h
    obtain ⟨h1, h2, h3⟩ := (docFind_some_iff eq _ c sub incl k hc).1 hd
    left
    refine ⟨rfl, by omega, h2, ?_⟩
    intro q hq1 hq2
    have := h3 (q - c) (by omega) (by omega)
    rwa [show c + (q - c) = q by omega] at this
  | none =>
    simp only [hd] at h
    have hnone : ∀ q, c + lo incl ≤ q → ¬ OccAt eq sub (entry ls w) q := by
      intro q hq
      have := (docFind_none_iff eq _ c sub incl hc).1 hd (q - c) (by omega)
      rwa [show c + (q - c) = q by omega] at this
    right
    unfold fwdCands at h
    rw [firstSome_map] at h
    obtain ⟨i0, h1, h2, h3, h4⟩ := firstSome_range' _ _ _ _ h
    by_cases hi : i0 < ls.length
    · left
      rw [Nat.mod_eq_of_lt hi] at h3
      obtain ⟨rfl, ho, hmin⟩ := fwdBody_some eq ls sub i0 i p h3
      refine ⟨hnone, by omega, hi, ?_, ho, hmin⟩
      intro j hj1 hj2
      have := h4 j (by omega) hj2
      rw [Nat.mod_eq_of_lt (by omega)] at this
      exact fwdBody_none eq ls sub j this
    · right
      have : i0 = ls.length := by omega
      subst this
      rw [Nat.mod_self] at h3
      obtain ⟨rfl, ho, hmin⟩ := fwdBody_some eq ls sub 0 i p h3
      refine ⟨hnone, ?_, rfl, ho, hmin⟩
      intro j hj1 hj2
      have := h4 j (by omega) hj2
      rw [Nat.mod_eq_of_lt (by omega)] at this
      exact fwdBody_none eq ls sub j this

/-- a forward step fails only if there is no occurrence ahead (and none in entry 0) -/
theorem searchOnce_fwd_none (eq : Char → Char → Bool) (ls : List Text) (sub : Text) (incl : Bool)
    (w c : Nat) (hwf : WF ls (w, c))
    (h : searchOnce eq ls sub .fwd incl (w, c) = none) :
    (∀ q, c + lo incl ≤ q → ¬ OccAt eq sub (entry ls w) q) ∧
    (∀ j, w < j → j < ls.length → ∀ q, ¬ OccAt eq sub (entry ls j) q) ∧
    (∀ q, ¬ OccAt eq sub (entry ls 0) q) := by
  obtain ⟨hw, hc⟩ := hwf
  simp only at hw hc
  simp only [searchOnce] at h
  cases hd : docFind eq (entry ls w) c sub incl with
  | some k => simp [hd] at h
  | none =>
    simp only [hd] at h
    have hnone : ∀ q, c + lo incl ≤ q → ¬ OccAt eq sub (entry ls w) q := by
      intro q hq
      have := (docFind_none_iff eq _ c sub incl hc).1 hd (q - c) (by omega)
      rwa [show c + (q - c) = q by omega] at this
    unfold fwdCands at h
    rw [firstSome_map, firstSome_none_iff] at h
    refine ⟨hnone, ?_, ?_⟩
    · intro j hj1 hj2
      have := h j (by simp [List.mem_range'_1]; omega)
      simp only [Nat.mod_eq_of_lt hj2] at this
      exact fwdBody_none eq ls sub j this
    · have := h ls.length (by simp [List.mem_range'_1]; omega)
      simp only [Nat.mod_self] at this
      exact fwdBody_none eq ls sub 0 this


/-! ### one search step, backward -/

theorem bwdBody_some (eq : Char → Char → Bool) (ls : List Text) (sub : Text) (i i' p : Nat)
    (h : (docFindBack eq (entry ls i) (entry ls i).length sub).map
          (fun k => (i, (((entry ls i).length : Int) + k).toNat)) = some (i', p)) :
    i' = i ∧ OccAt eq sub (entry ls i) p ∧ ∀ q, p < q → ¬ OccAt eq sub (entry ls i) q := by
  cases hf : docFindBack eq (entry ls i) (entry ls i).length sub with
  | none => simp [hf] at h
  | some k =>
    simp only [hf, Option.map_some, Option.some.injEq, Prod.mk.injEq] at h
    obtain ⟨rfl, hp⟩ := h
    obtain ⟨p0, rfl, h1, h2, h3⟩ := (docFindBack_some_iff eq _ _ sub k (Nat.le_refl _)).1 hf
    have : p = p0 := by omega
    subst this
    exact ⟨rfl, h2, fun q hq ho => h3 q hq (occAt_le ho) ho⟩

theorem bwdBody_none (eq : Char → Char → Bool) (ls : List Text) (sub : Text) (i : Nat)
    (h : (docFindBack eq (entry ls i) (entry ls i).length sub).map
          (fun k => (i, (((entry ls i).length : Int) + k).toNat)) = none) :
    ∀ q, ¬ OccAt eq sub (entry ls i) q := by
  rw [Option.map_eq_none_iff, docFindBack_none_iff _ _ _ _ (Nat.le_refl _)] at h
  intro q ho
  exact h q (occAt_le ho) ho

/-- the three ways a backward step can succeed -/
theorem searchOnce_bwd_cases (eq : Char → Char → Bool) (ls : List Text) (sub : Text) (incl : Bool)
    (w c i p : Nat) (hwf : WF ls (w, c))
    (h : searchOnce eq ls sub .bwd incl (w, c) = some (i, p)) :
    -- (A) found in the current entry, ending at or before the cursor
    (i = w ∧ p + sub.length ≤ c ∧ OccAt eq sub (entry ls w) p ∧
        ∀ q, p < q → q + sub.length ≤ c → ¬ OccAt eq sub (entry ls w) q) ∨
    -- (B) found in an earlier entry
    ((∀ q, q + sub.length ≤ c → ¬ OccAt eq sub (entry ls w) q) ∧ i < w ∧
        (∀ j, i < j → j < w → ∀ q, ¬ OccAt eq sub (entry ls j) q) ∧
        OccAt eq sub (entry ls i) p ∧ ∀ q, p < q → ¬ OccAt eq sub (entry ls i) q) ∨
    -- (C) nothing ahead: the loop's last index `-1 % len` revisits the last entry from its end
    ((∀ q, q + sub.length ≤ c → ¬ OccAt eq sub (entry ls w) q) ∧
        (∀ j, j < w → ∀ q, ¬ OccAt eq sub (entry ls j) q) ∧
        i = ls.length - 1 ∧ OccAt eq sub (entry ls (ls.length - 1)) p ∧
        ∀ q, p < q → ¬ OccAt eq sub (entry ls (ls.length - 1)) q) := by
  obtain ⟨hw, hc⟩ := hwf
  simp only at hw hc
  simp only [searchOnce] at h
  cases hd : docFindBack eq (entry ls w) c sub with
  | some k =>
    simp only [hd] at h
    cases h
    obtain ⟨p0, rfl, h1, h2, h3⟩ := (docFindBack_some_iff eq _ c sub k hc).1 hd
    left
    have : ((c : Int) + ((p0 : Int) - (c : Int))).toNat = p0 := by omega
    rw [this]
    exact ⟨rfl, h1, h2, h3⟩
  | none =>
    simp only [hd] at h
    have hnone := (docFindBack_none_iff eq _ c sub hc).1 hd
    right
    unfold bwdCands at h
    rw [firstSome_append] at h
    split at h
    · rename_i r hr
      cases h
      left
      obtain ⟨i0, h1, h2, h3⟩ := firstSome_range_rev _ _ _ hr
      obtain ⟨rfl, ho, hmax⟩ := bwdBody_some eq ls sub i0 i p h2
      refine ⟨hnone, h1, ?_, ho, hmax⟩
      intro j hj1 hj2
      exact bwdBody_none eq ls sub j (h3 j hj1 hj2)
    · rename_i hr
      right
      rw [firstSome_none_iff] at hr
      simp only [firstSome] at h
      split at h
      · rename_i r hr2
        cases h
        obtain ⟨rfl, ho, hmax⟩ := bwdBody_some eq ls sub _ i p hr2
        refine ⟨hnone, ?_, rfl, ho, hmax⟩
        intro j hj
        exact bwdBody_none eq ls sub j (hr j (by simp; exact hj))
      · cases h

/-- a backward step fails only if there is no occurrence ahead (and none in the last entry) -/
theorem searchOnce_bwd_none (eq : Char → Char → Bool) (ls : List Text) (sub : Text) (incl : Bool)
    (w c : Nat) (hwf : WF ls (w, c))
    (h : searchOnce eq ls sub .bwd incl (w, c) = none) :
    (∀ q, q + sub.length ≤ c → ¬ OccAt eq sub (entry ls w) q) ∧
    (∀ j, j < w → ∀ q, ¬ OccAt eq sub (entry ls j) q) ∧
    (∀ q, ¬ OccAt eq sub (entry ls (ls.length - 1)) q) := by
  obtain ⟨hw, hc⟩ := hwf
  simp only at hw hc
  simp only [searchOnce] at h
  cases hd : docFindBack eq (entry ls w) c sub with
  | some k => simp [hd] at h
  | none =>
    simp only [hd] at h
    have hnone := (docFindBack_none_iff eq _ c sub hc).1 hd
    unfold bwdCands at h
    rw [firstSome_none_iff] at h
    refine ⟨hnone, ?_, ?_⟩
    · intro j hj
      exact bwdBody_none eq ls sub j (h j (by simp; left; exact hj))
    · exact bwdBody_none eq ls sub _ (h _ (by simp))

end Ptk.C16
