/-
  C04 — termination for the scripted world (`Ptk.C04.World`): the feed budget is the number of
  keys the script entries that have not been used yet can still feed (`worldBudget`); as long as
  no script entry replays a macro, `process_keys` terminates within `len(input_queue) + worldBudget`
  iterations (`world_terminates`) — whatever bindings, wrappers, conditions and registry
  operations are involved.
-/
import Ptk.Props.C04Term
import Ptk.Props.C04Arg
namespace Ptk.C04

/-! ### the scripted world: the budget is what the scripts can still feed -/

/-- the keys one script entry feeds -/
def feedLen (e : Eff) : Nat := (e.feeds.map fun f => f.1.length).sum

/-- the script entries handler `hid` has not used yet -/
def remaining (sc : List (List Eff)) (hc : List Nat) (hid : Nat) : List Eff :=
  (sc.getD hid []).drop (hc.getD hid 0)

def budgetOf (sc : List (List Eff)) (hc : List Nat) : Nat :=
  ((List.range sc.length).map fun hid => ((remaining sc hc hid).map feedLen).sum).sum

/-- **the feed budget of the scripted world**: all keys the unused script entries would feed -/
def worldBudget (x : World) : Nat := budgetOf x.scripts x.hcount

/-- the invocation counter after one more invocation of handler `hid` -/
def bumpCount (hc : List Nat) (hid : Nat) : List Nat :=
  if hid < hc.length then hc.set hid (hc.getD hid 0 + 1)
  else hc ++ List.replicate (hid - hc.length) 0 ++ [1]

theorem bumpCount_getD (hc : List Nat) (hid j : Nat) :
    (bumpCount hc hid).getD j 0 = if j = hid then hc.getD hid 0 + 1 else hc.getD j 0 := by
  unfold bumpCount
  split
  · next hlt =>
    rw [List.getD_eq_getElem?_getD, List.getD_eq_getElem?_getD, List.getElem?_set]
    by_cases hj : j = hid
    · subst hj; simp [hlt]
    · have : ¬ hid = j := fun h => hj h.symm
      simp [hj, this]
  · next hge =>
    have hge : hc.length ≤ hid := Nat.le_of_not_lt hge
    have h0 : hc.getD hid 0 = 0 := by
      rw [List.getD_eq_getElem?_getD, List.getElem?_eq_none_iff.mpr hge]; rfl
    rw [List.getD_eq_getElem?_getD, List.getD_eq_getElem?_getD (l := hc) (i := j)]
    by_cases hj : j < hc.length
    · have : j ≠ hid := by omega
      rw [List.append_assoc, List.getElem?_append_left hj]; simp [this]
    · have hj : hc.length ≤ j := Nat.le_of_not_lt hj
      rw [List.getElem?_eq_none_iff.mpr hj]
      rw [List.append_assoc, List.getElem?_append_right hj]
      by_cases hj2 : j - hc.length < hid - hc.length
      · have : j ≠ hid := by omega
        rw [List.getElem?_append_left (by simpa using hj2)]
        simp [this, hj2]
      · have hj2 : hid - hc.length ≤ j - hc.length := Nat.le_of_not_lt hj2
        rw [List.getElem?_append_right (by simpa using hj2)]
        simp only [List.length_replicate]
        by_cases hj3 : j = hid
        · subst hj3
          rw [List.getD_eq_getElem?_getD] at h0
          simp [h0]
        · have : j - hc.length - (hid - hc.length) ≠ 0 := by omega
          simp [hj3]
          cases hk : j - hc.length - (hid - hc.length) with
          | zero => exact absurd hk this
          | succ k => simp

theorem sum_range_point (f g : Nat → Nat) (N hid c : Nat) (hlt : hid < N) (hp : f hid = g hid + c)
    (ho : ∀ j, j ≠ hid → f j = g j) :
    ((List.range N).map f).sum = ((List.range N).map g).sum + c := by
  induction N with
  | zero => omega
  | succ N ih =>
    rw [List.range_succ, List.map_append, List.map_append, List.sum_append, List.sum_append]
    simp only [List.map_cons, List.map_nil, List.sum_cons, List.sum_nil, Nat.add_zero]
    by_cases h : hid = N
    · subst h
      have : ((List.range hid).map f) = ((List.range hid).map g) := by
        apply List.map_congr_left
        intro j hj
        exact ho j (by have := List.mem_range.mp hj; omega)
      rw [this, hp]; omega
    · rw [ih (by omega), ho N (fun e => h e.symm)]; omega

theorem sum_range_congr (f g : Nat → Nat) (N : Nat) (h : ∀ j, f j = g j) :
    ((List.range N).map f).sum = ((List.range N).map g).sum := by
  congr 1; apply List.map_congr_left; intro j _; exact h j

/-- using a script entry moves what it feeds out of the budget -/
theorem budget_bump_some (sc : List (List Eff)) (hc : List Nat) (hid : Nat) (e : Eff)
    (he : (sc.getD hid [])[hc.getD hid 0]? = some e) :
    budgetOf sc (bumpCount hc hid) + feedLen e = budgetOf sc hc := by
  have hlt : hid < sc.length := by
    apply Nat.lt_of_not_le
    intro hge
    rw [List.getD_eq_getElem?_getD, List.getElem?_eq_none_iff.mpr hge] at he
    simp at he
  have hn : hc.getD hid 0 < (sc.getD hid []).length := by
    rw [List.getElem?_eq_some_iff] at he; exact he.1
  have hdrop : (sc.getD hid []).drop (hc.getD hid 0) =
      e :: (sc.getD hid []).drop (hc.getD hid 0 + 1) := by
    rw [List.drop_eq_getElem_cons hn]
    congr 1
    rw [List.getElem?_eq_some_iff] at he; exact he.2
  unfold budgetOf
  symm
  apply sum_range_point _ _ _ hid _ hlt
  · simp only [remaining, bumpCount_getD, if_true, hdrop, List.map_cons, List.sum_cons]; omega
  · intro j hj
    simp only [remaining, bumpCount_getD, hj, if_false]

/-- … and an invocation without a script entry costs nothing -/
theorem budget_bump_none (sc : List (List Eff)) (hc : List Nat) (hid : Nat)
    (he : (sc.getD hid [])[hc.getD hid 0]? = none) :
    budgetOf sc (bumpCount hc hid) = budgetOf sc hc := by
  have hn : (sc.getD hid []).length ≤ hc.getD hid 0 := List.getElem?_eq_none_iff.mp he
  unfold budgetOf
  apply sum_range_congr
  intro j
  simp only [remaining, bumpCount_getD]
  by_cases hj : j = hid
  · subst hj
    simp only [if_true]
    rw [List.drop_eq_nil_of_le hn, List.drop_eq_nil_of_le (by omega)]
  · simp [hj]

theorem feeds_len (feeds : List (List KP × Bool)) (q : List KP) :
    (feeds.foldl (fun q f => feedMultiple q f.1 f.2) q).length =
      q.length + (feeds.map fun f => f.1.length).sum ∧
    cprCount (feeds.foldl (fun q f => feedMultiple q f.1 f.2) q) ≤
      cprCount q + (feeds.map fun f => f.1.length).sum := by
  induction feeds generalizing q with
  | nil => simp
  | cons f fs ih =>
    obtain ⟨i1, i2⟩ := ih (feedMultiple q f.1 f.2)
    have hl : (feedMultiple q f.1 f.2).length = q.length + f.1.length := by
      unfold feedMultiple; split <;> simp <;> omega
    have hc : cprCount (feedMultiple q f.1 f.2) ≤ cprCount q + f.1.length := by
      have := cprCount_le f.1
      unfold feedMultiple; split <;> rw [cprCount_append] <;> omega
    simp only [List.foldl_cons, List.map_cons, List.sum_cons]
    exact ⟨by rw [i1, hl]; omega, by omega⟩

/-- the world after a scripted invocation, when the entry has no macro operations -/
theorem worldCall_nomacro (x : World) (q : List KP) (b : Binding) (s p : List KP) (ev : EvX)
    (h : NoMacroScripts x) :
    (worldCall x q b s p ev).1.scripts = x.scripts ∧
    (worldCall x q b s p ev).1.hcount = bumpCount x.hcount b.hid ∧
    (x.done = true → (worldCall x q b s p ev).1.done = true) ∧
    match (x.scripts.getD b.hid [])[x.hcount.getD b.hid 0]? with
    | some e => (worldCall x q b s p ev).2.1 = e.feeds.foldl (fun q f => feedMultiple q f.1 f.2) q
    | none => (worldCall x q b s p ev).2.1 = q := by
  simp only [worldCall]
  cases he : (x.scripts.getD b.hid [])[x.hcount.getD b.hid 0]? with
  | none => simp only []; exact ⟨trivial, rfl, fun h => h, trivial⟩
  | some e =>
    have hm : e.macros = [] := by
      rcases getD_mem_or_nil x.scripts b.hid with hm | hm
      · exact h _ hm e (List.mem_of_getElem? he)
      · rw [hm] at he; simp at he
    simp only [applyEff, hm, List.foldl_nil]
    exact ⟨trivial, rfl, fun h => by simp [h], trivial⟩

/-- **the scripted world has a feed budget** (as long as no script entry replays a macro) -/
theorem world_budget : Budget worldIface worldBudget NoMacroScripts := by
  refine ⟨fun _ _ h => h, fun _ _ _ => Nat.le_refl _, fun _ _ _ => rfl,
    fun _ _ h => h, fun _ _ _ => Nat.le_refl _, fun _ _ _ => rfl,
    fun _ _ h => h, fun _ _ _ => Nat.le_refl _, fun _ _ _ => rfl,
    fun _ _ h => h, fun _ _ _ => Nat.le_refl _, fun _ _ _ => rfl,
    fun w q b s p x h => world_recOK.g_call w q b s p x h, ?_, ?_, ?_⟩
  · intro x q b s p ev h
    obtain ⟨h1, h2, _, h4⟩ := worldCall_nomacro x q b s p ev h
    show (worldCall x q b s p ev).2.1.length + worldBudget (worldCall x q b s p ev).1 ≤ _
    unfold worldBudget
    rw [h1, h2]
    cases he : (x.scripts.getD b.hid [])[x.hcount.getD b.hid 0]? with
    | none => rw [he] at h4; rw [h4, budget_bump_none _ _ _ he]; exact Nat.le_refl _
    | some e =>
      rw [he] at h4
      have := budget_bump_some _ _ _ e he
      rw [h4, (feeds_len e.feeds q).1]
      unfold feedLen at this; omega
  · intro x q b s p ev h
    obtain ⟨h1, h2, _, h4⟩ := worldCall_nomacro x q b s p ev h
    show cprCount (worldCall x q b s p ev).2.1 + worldBudget (worldCall x q b s p ev).1 ≤ _
    unfold worldBudget
    rw [h1, h2]
    cases he : (x.scripts.getD b.hid [])[x.hcount.getD b.hid 0]? with
    | none => rw [he] at h4; rw [h4, budget_bump_none _ _ _ he]; exact Nat.le_refl _
    | some e =>
      rw [he] at h4
      have := budget_bump_some _ _ _ e he
      have h5 := (feeds_len e.feeds q).2
      rw [h4]
      unfold feedLen at this; omega
  · intro x q b s p ev h hd
    exact (worldCall_nomacro x q b s p ev h).2.2.1 hd

/-- **`process_keys` of the scripted world terminates**: `len(input_queue)` plus the number of keys
    the unused script entries can feed is enough fuel, whatever the bindings, wrappers and
    conditions are -/
theorem world_terminates (ps : PS World) (hb : NoCprBuf ps) (hm : NoMacroScripts ps.w) (k : Nat) :
    processKeys worldIface (ps.queue.length + worldBudget ps.w + k) ps =
      processKeys worldIface (ps.queue.length + worldBudget ps.w) ps :=
  processKeys_fuel_enough world_budget ps hb hm k

/-- non-vacuity: handler 1 feeds two keys once; queue of one key: budget 2, bound 3 -/
example : worldBudget { exArgWorld with
    scripts := [[], [{ feeds := [([.key 2 7, .key 2 8], false)] }]] } = 2 := by decide

end Ptk.C04
