/-
  C17 (fourth layer) — the input object (pipe of characters + `Vt100Parser`) in front of the accept
  boundary (`Ptk.Model.C17Paste.St`): theorems for EVERY normal-mode generator, every schedule of
  writes / reads of any size / starts / finishes / CPR waits.

    pinv_step / reachable_pinv      the invariant: parser state = specification after the text read
                                    so far, the first layer's invariant holds for the keys delivered
    bytes_no_loss_no_dup            conservation at the level of CHARACTERS (incl. what the parser
                                    and the unread pipe will still deliver)
    bytes_results_are_segments / bytes_schedule_independent
    paste_lines_k_prompts           k lines of typed text and bracketed pastes -> exactly these lines
    render_line / gen_paste_lines   accepted line = typed text + pasted text (current tree)
    parser_survives_accept          the parser (pending sequence, paste mode) survives the boundary
    waiting_prompt_has_consumed_everything / no_accepting_key_swallowed   liveness: no Enter stuck in the parser
    gen_start_ok / gen_enter_ok / gen_heads_ok / gen_plain
                                    side conditions re-decided on the regenerated sequence table
    search_in_new_data_only_swallows_enter   the witness for seeded/C17-f
-/
import Ptk.Props.C17
import Ptk.Props.C17Paste
namespace Ptk.C17.Paste
open Ptk.Py Ptk.C17

variable {ν : Type}

theorem active_iff (s : C17.St) :
    active s = true ↔ (s.running = true ∨ (s.exiting = true ∧ 0 < s.kp.waiting)) := by
  simp [active]

/-- reading through the parser = the keys appear in the first layer's pipe and are all read -/
theorem read_sim (l : C17.St) (ks : List Key) (hp : l.pipe = []) (ha : active l = true) :
    ({ l with kp := processKeys { l.kp with queue := l.kp.queue ++ ks } } : C17.St) =
      C17.step (C17.step l (.write ks)) (.read ks.length) := by
  have ha' := (active_iff l).1 ha
  have e1 : C17.step l (.write ks) = { l with pipe := ks } := by simp [C17.step, hp]
  rw [e1, step_read_active _ _ (by simpa using ha')]
  simp [hp]

theorem step_pipe_nowrite (l : C17.St) (e : C17.Ev) (he : evWritten e = []) (hr : ∀ n, e ≠ .read n) :
    (C17.step l e).pipe = l.pipe := by
  cases e with
  | write c => simp [evWritten] at he; subst he; simp [C17.step]
  | read n => exact absurd rfl (hr n)
  | start => simp only [C17.step]; split <;> rfl
  | finish =>
    simp only [C17.step]
    split
    · split <;> simp [leave]
    · rfl
  | endWait =>
    simp only [C17.step]
    split
    · simp [leave]
    · rfl

/-- the invariant of the input object in front of the accept boundary: `W` = everything written so
    far; it splits into the part that was read (`R`) and the part still in the pipe; the parser is
    where the specification is after `R`, and the keys `K` it has delivered are what the accept
    boundary (first layer, its invariant `C17.Inv`) has been given — all of them, in order. -/
structure PInv (N : Norm ν) (g : ν) (s : St ν) (W : Text) : Prop where
  ex : ∃ R K, W = R ++ s.bytes ∧ parse N ⟨g, false, []⟩ R = (s.ps, K) ∧ C17.Inv s.l1 K
  pipe : s.l1.pipe = []
  ready : Ready s.ps

def evText : Ev → Text
  | .write c => c
  | _ => []

theorem pinv_init (N : Norm ν) (g : ν) (r : Bool) : PInv N g (St.init g r) [] :=
  ⟨⟨[], [], rfl, rfl, inv_init r⟩, rfl, ready_init g⟩

theorem pinv_step (N : Norm ν) (g : ν) {s : St ν} {W : Text} (h : PInv N g s W) (e : Ev) :
    PInv N g (step N s e) (W ++ evText e) := by
  obtain ⟨⟨R, K, hW, hP, hI⟩, hp, hr⟩ := h
  cases e with
  | write c =>
    exact ⟨⟨R, K, by simp [step, evText, hW], hP, hI⟩, hp, hr⟩
  | start =>
    refine ⟨⟨R, K, by simp [step, evText, hW], hP, ?_⟩, ?_, hr⟩
    · have := inv_step hI .start
      simpa [evWritten, step] using this
    · simp only [step]; rw [step_pipe_nowrite _ _ rfl (by intro n h; cases h)]; exact hp
  | finish =>
    refine ⟨⟨R, K, by simp [step, evText, hW], hP, ?_⟩, ?_, hr⟩
    · have := inv_step hI .finish
      simpa [evWritten, step] using this
    · simp only [step]; rw [step_pipe_nowrite _ _ rfl (by intro n h; cases h)]; exact hp
  | endWait =>
    refine ⟨⟨R, K, by simp [step, evText, hW], hP, ?_⟩, ?_, hr⟩
    · have := inv_step hI .endWait
      simpa [evWritten, step] using this
    · simp only [step]; rw [step_pipe_nowrite _ _ rfl (by intro n h; cases h)]; exact hp
  | read n =>
    simp only [step, evText, List.append_nil]
    by_cases ha : active s.l1 = true
    · simp only [ha, Bool.not_true, Bool.false_eq_true, if_false]
      have ef := feed_eq_parse N s.ps (s.bytes.take n) hr
      refine ⟨⟨R ++ s.bytes.take n, K ++ (feed N s.ps (s.bytes.take n)).2, ?_, ?_, ?_⟩, ?_, ?_⟩
      · simp [hW]
      · rw [parse_append, hP, ef]
      · rw [read_sim s.l1 _ hp ha]
        have := inv_step (inv_step hI (.write (feed N s.ps (s.bytes.take n)).2))
          (.read (feed N s.ps (s.bytes.take n)).2.length)
        simpa [evWritten] using this
      · exact hp
      · rw [ef]; exact parseFrom_ready N _ _ hr
    · simp only [ha, Bool.not_false, if_true]
      exact ⟨⟨R, K, hW, hP, hI⟩, hp, hr⟩

theorem written_cons (e : Ev) (es : List Ev) : written (e :: es) = evText e ++ written es := by
  cases e <;> simp [written, evText]

theorem pinv_run (N : Norm ν) (g : ν) {s : St ν} {W : Text} (h : PInv N g s W) (evs : List Ev) :
    PInv N g (run N s evs) (W ++ written evs) := by
  induction evs generalizing s W with
  | nil => simpa [run, written] using h
  | cons e es ih =>
    have := ih (pinv_step N g h e)
    simp only [run]
    rw [written_cons, ← List.append_assoc]; exact this

theorem reachable_pinv (N : Norm ν) (g : ν) (r : Bool) (evs : List Ev) :
    PInv N g (run N (St.init g r) evs) (written evs) := by
  simpa using pinv_run N g (pinv_init N g r) evs

/-- all key presses of the written characters: what the parser makes of the whole stream -/
def allKeys (N : Norm ν) (g : ν) (evs : List Ev) : List Key := (parse N ⟨g, false, []⟩ (written evs)).2

/-- the key presses that are still to come out of pipe + parser -/
def future (N : Norm ν) (s : St ν) : List Key := (parse N s.ps s.bytes).2

/-- **No keystroke of the character stream is lost, duplicated or reordered** — for every
    normal-mode generator, every schedule, every read size (chunk boundaries anywhere: inside
    escape sequences, inside both paste marks, inside the pasted text): the keys consumed by the
    finished prompts ++ those taken by the current prompt ++ type-ahead store ++ input queue ++
    the keys that the unread characters will still produce (from the parser's present state)
    = the keys of the whole stream parsed at once. -/
theorem bytes_no_loss_no_dup (N : Norm ν) (g : ν) (r : Bool) (evs : List Ev) :
    ∀ s, s = run N (St.init g r) evs →
    flat s.l1.results ++ cur s.l1.kp ++ norm s.l1.typeahead ++ norm s.l1.kp.queue ++ norm (future N s)
      = norm (allKeys N g evs) := by
  intro s hs
  obtain ⟨⟨R, K, hW, hP, hI⟩, hp, _⟩ := hs ▸ reachable_pinv N g r evs
  have hc := hI.cons
  rw [hp] at hc
  simp only [norm_nil, List.append_nil] at hc
  unfold allKeys future
  rw [hW, parse_append, hP]
  simp only [norm_append]
  rw [← hc]

/-- the finished prompts are exactly the first lines of the key stream of the whole text -/
theorem bytes_results_are_segments (N : Norm ν) (g : ν) (r : Bool) (evs : List Ev) :
    ∀ s, s = run N (St.init g r) evs →
    ∃ more, segments (norm (allKeys N g evs)) = s.l1.results ++ more := by
  intro s hs
  obtain ⟨⟨R, K, hW, hP, hI⟩, hp, _⟩ := hs ▸ reachable_pinv N g r evs
  have h := bytes_no_loss_no_dup N g r evs s hs
  simp only [List.append_assoc] at h
  refine ⟨segments (cur s.l1.kp ++ (norm s.l1.typeahead ++ (norm s.l1.kp.queue ++ norm (future N s)))), ?_⟩
  rw [← h]; exact segments_flat _ _ hI.results

theorem bytes_results_eq_take (N : Norm ν) (g : ν) (r : Bool) (evs : List Ev) :
    (run N (St.init g r) evs).l1.results =
      (segments (norm (allKeys N g evs))).take (run N (St.init g r) evs).l1.results.length := by
  obtain ⟨more, h⟩ := bytes_results_are_segments N g r evs _ rfl
  rw [h]; simp

/-- **Timing and chunking of the BYTES do not matter**: two schedules that write the same
    characters (in any chunks, read in any portions) and complete the same number of prompts return
    the same lines. -/
theorem bytes_schedule_independent (N : Norm ν) (g : ν) (r : Bool) (evs₁ evs₂ : List Ev)
    (hw : written evs₁ = written evs₂)
    (hn : (run N (St.init g r) evs₁).l1.results.length = (run N (St.init g r) evs₂).l1.results.length) :
    (run N (St.init g r) evs₁).l1.results = (run N (St.init g r) evs₂).l1.results := by
  rw [bytes_results_eq_take N g r evs₁, bytes_results_eq_take N g r evs₂]
  unfold allKeys; rw [hw, hn]


/-! ### lines that contain pastes -/

/-- the generator, with nothing pending, turns the character into one ordinary key press -/
def Plain (N : Norm ν) (g : ν) (c : Char) : Prop := N.send g c = (g, [.other c.toNat], false)

/-- … and a carriage return into the accepting key -/
def EnterOk (N : Norm ν) (g : ν) : Prop := N.send g '\r' = (g, [.accept], false)

def chars (t : Text) : List Key := t.map fun c => .other c.toNat

inductive Item where
  | typed (t : Text)       -- characters typed one by one
  | paste (b : Text)       -- a bracketed paste with this content
deriving DecidableEq, Repr

def Item.text : Item → Text
  | .typed t => t
  | .paste b => startMark ++ b ++ endMark

def Item.keys : Item → List Key
  | .typed t => chars t
  | .paste b => [pasteKey b]

def Item.Ok (N : Norm ν) (g : ν) : Item → Prop
  | .typed t => ∀ c ∈ t, Plain N g c
  | .paste b => CleanBody b

/-- what the line shows: the typed characters and the pasted text (line endings as `\n`) -/
def Item.shown : Item → Text
  | .typed t => t
  | .paste b => crlf b

def lineText (l : List Item) : Text := (l.map Item.text).flatten ++ ['\r']
def lineKeys (l : List Item) : List Key := (l.map Item.keys).flatten

def scriptText : List (List Item) → Text
  | [] => []
  | l :: ls => lineText l ++ scriptText ls

theorem parse_cons (N : Norm ν) (s : PS ν) (c : Char) (d : Text) :
    parse N s (c :: d) =
      ((parse N (stepChar N (s, []) c).1 d).1, (stepChar N (s, []) c).2 ++ (parse N (stepChar N (s, []) c).1 d).2) := by
  unfold parse
  rw [parseFrom_cons, parseFrom_out N (stepChar N (s, []) c).1 (stepChar N (s, []) c).2]

theorem parse_plain (N : Norm ν) (g : ν) (t post : Text) (h : ∀ c ∈ t, Plain N g c) :
    parse N ⟨g, false, []⟩ (t ++ post) =
      ((parse N ⟨g, false, []⟩ post).1, chars t ++ (parse N ⟨g, false, []⟩ post).2) := by
  induction t with
  | nil => simp [chars]
  | cons c t ih =>
    have hc : Plain N g c := h c (List.mem_cons_self ..)
    have e : stepChar N (⟨g, false, []⟩, []) c = (⟨g, false, []⟩, [.other c.toNat]) := by
      unfold Plain at hc
      simp [stepChar, hc]
    rw [List.cons_append, parse_cons, e, ih (fun x hx => h x (List.mem_cons_of_mem _ hx))]
    simp [chars]

theorem parse_items (N : Norm ν) (g : ν) (hs : StartOk N g) (l : List Item) (post : Text)
    (h : ∀ i ∈ l, i.Ok N g) :
    parse N ⟨g, false, []⟩ ((l.map Item.text).flatten ++ post) =
      ((parse N ⟨g, false, []⟩ post).1, lineKeys l ++ (parse N ⟨g, false, []⟩ post).2) := by
  induction l with
  | nil => simp [lineKeys]
  | cons i l ih =>
    have hi := h i (List.mem_cons_self ..)
    have ih' := ih (fun x hx => h x (List.mem_cons_of_mem _ hx))
    cases i with
    | typed t =>
      simp only [List.map_cons, List.flatten_cons, Item.text, List.append_assoc]
      rw [parse_plain N g t _ hi, ih']
      simp [lineKeys, Item.keys]
    | paste b =>
      simp only [List.map_cons, List.flatten_cons, Item.text, List.append_assoc]
      have := paste_spec N g hs b ((l.map Item.text).flatten ++ post) hi
      simp only [List.append_assoc] at this
      rw [this, ih']
      simp [lineKeys, Item.keys]

theorem parse_script (N : Norm ν) (g : ν) (hs : StartOk N g) (he : EnterOk N g)
    (lines : List (List Item)) (post : Text) (h : ∀ l ∈ lines, ∀ i ∈ l, i.Ok N g) :
    parse N ⟨g, false, []⟩ (scriptText lines ++ post) =
      ((parse N ⟨g, false, []⟩ post).1, script (lines.map lineKeys) ++ (parse N ⟨g, false, []⟩ post).2) := by
  induction lines with
  | nil => simp [scriptText, script]
  | cons l ls ih =>
    have hl := h l (List.mem_cons_self ..)
    have ih' := ih (fun x hx => h x (List.mem_cons_of_mem _ hx))
    simp only [scriptText, lineText, List.append_assoc]
    rw [parse_items N g hs l _ hl]
    have e : stepChar N (⟨g, false, []⟩, []) '\r' = (⟨g, false, []⟩, [.accept]) := by
      unfold EnterOk at he
      simp [stepChar, he]
    rw [List.singleton_append, parse_cons, e, ih']
    simp [script]

theorem chars_allOther (t : Text) : AllOther (chars t) := by
  intro k hk; simp [chars] at hk; obtain ⟨c, _, rfl⟩ := hk; rfl

theorem lineKeys_allOther (l : List Item) : AllOther (lineKeys l) := by
  intro k hk
  simp only [lineKeys, List.mem_flatten, List.mem_map] at hk
  obtain ⟨ks, ⟨i, _, rfl⟩, hk⟩ := hk
  cases i with
  | typed t => exact chars_allOther t k hk
  | paste b => simp [Item.keys, pasteKey] at hk; subst hk; rfl

theorem norm_of_plain (l : List Key) (h : ∀ k ∈ l, k.isCpr = false ∧ k ≠ .cj) : norm l = l := by
  induction l with
  | nil => rfl
  | cons k l ih =>
    have hk := h k (List.mem_cons_self ..)
    have := ih (fun x hx => h x (List.mem_cons_of_mem _ hx))
    simp only [norm] at this ⊢
    simp only [dropCpr, hk.1, Bool.false_eq_true, if_false, List.map_cons, this]
    cases k <;> simp_all [normKey]

theorem norm_script_chars (ls : List (List Key)) (t : Text) (h : ∀ l ∈ ls, AllOther l) :
    norm (script ls ++ chars t) = script ls ++ chars t := by
  apply norm_of_plain
  intro k hk
  rw [List.mem_append] at hk
  rcases hk with hk | hk
  · induction ls with
    | nil => simp [script] at hk
    | cons l ls ih =>
      simp only [script, List.mem_append, List.mem_singleton] at hk
      rcases hk with (hk | hk) | hk
      · have := h l (List.mem_cons_self ..) k hk
        cases k <;> simp_all [Key.isOther, Key.isCpr]
      · subst hk; simp [Key.isCpr]
      · exact ih (fun x hx => h x (List.mem_cons_of_mem _ hx)) hk
  · have := chars_allOther t k hk
    cases k <;> simp_all [Key.isOther, Key.isCpr]

/-- **Lines with pastes → prompts**: the characters written are `line₁ \r line₂ \r … line_k \r tail`
    where every line is any mixture of typed characters and bracketed pastes.  Then under EVERY
    schedule — any chunking of the writes, any read sizes (so any cut inside the start mark, the
    pasted text or the end mark), starts and finishes anywhere, for every normal-mode generator
    that types plain characters, recognises `\r` and the start mark — the prompts that finish
    return exactly these lines in order: line i consists of its typed keys and ONE paste key press
    per paste carrying the pasted text; nothing of a later line, and in particular the `\r` behind
    a paste is the accepting key, not swallowed by the paste. -/
theorem paste_lines_k_prompts (N : Norm ν) (g : ν) (hs : StartOk N g) (he : EnterOk N g) (r : Bool)
    {α : Type} (render : List Key → α) (lines : List (List Item)) (tail : Text)
    (hl : ∀ l ∈ lines, ∀ i ∈ l, i.Ok N g) (ht : ∀ c ∈ tail, Plain N g c)
    (evs : List Ev) (hw : written evs = scriptText lines ++ tail) :
    ∀ s, s = run N (St.init g r) evs →
    s.l1.results.length ≤ lines.length ∧
    s.l1.results.map (fun x => (render x.1, x.2)) =
      (lines.take s.l1.results.length).map (fun l => (render (lineKeys l), Key.accept)) ∧
    (s.l1.results.length = lines.length →
      s.l1.results.map (fun x => render x.1) = lines.map (fun l => render (lineKeys l))) := by
  intro s hs'
  have hkeys : allKeys N g evs = script (lines.map lineKeys) ++ chars tail := by
    unfold allKeys
    rw [hw, parse_script N g hs he lines tail hl]
    have := parse_plain N g tail [] ht
    simp only [List.append_nil] at this
    rw [this]; simp [parse, parseFrom]
  have hall : ∀ l ∈ lines.map lineKeys, AllOther l := by
    intro l hl'; simp at hl'; obtain ⟨x, _, rfl⟩ := hl'; exact lineKeys_allOther x
  have hgood : ∀ x ∈ (lines.map lineKeys).map (fun l => (l, Key.accept)), GoodRes x := by
    intro x hx; simp at hx; obtain ⟨l, _, rfl⟩ := hx; exact ⟨lineKeys_allOther l, rfl⟩
  have hseg : segments (norm (allKeys N g evs)) = (lines.map lineKeys).map (fun l => (l, Key.accept)) := by
    rw [hkeys, norm_script_chars _ _ hall, script_eq_flat, segments_flat _ _ hgood]
    simp [segments, segs_noFin [] (chars tail) (chars_allOther tail).noFin]
  have ht := bytes_results_eq_take N g r evs
  rw [hseg, ← hs'] at ht
  have hlen : s.l1.results.length ≤ lines.length := by
    have := congrArg List.length ht
    simp at this; omega
  have hres : s.l1.results = (lines.take s.l1.results.length).map (fun l => (lineKeys l, Key.accept)) := by
    rw [List.map_take] ; rw [List.map_map] at ht; exact ht
  generalize s.l1.results.length = n at hres hlen
  refine ⟨hlen, ?_, ?_⟩
  · rw [hres]; simp [Function.comp_def]
  · intro hk
    rw [hres, hk]; simp [Function.comp_def]

/-! ### what the default line editor shows for such a line -/

theorem keyK_char (e : Ed.E) (c : Char) (h : e.cur = e.text.length) :
    Ed.keyK e (.other c.toNat) = ⟨e.text ++ [c], e.cur + 1⟩ := by
  have hc : c.toNat < Ed.base := by
    have := char_lt c; simp only [encBase] at this; simp only [Ed.base]; omega
  simp [Ed.keyK, Ed.key, hc, h, Char.ofNat_toNat]

theorem keyK_paste (e : Ed.E) (b : Text) (h : e.cur = e.text.length) :
    Ed.keyK e (pasteKey b) = ⟨e.text ++ crlf b, e.cur + (crlf b).length⟩ := by
  simp only [Ed.keyK, pasteKey, Ed.key]
  have h0 : ¬ (pasteBase + encText b < Ed.base) := by simp only [pasteBase, Ed.base]; omega
  have hne : ∀ j, j ≤ 15 → ¬ (pasteBase + encText b = Ed.base + j) := by
    intro j hj; simp only [pasteBase, Ed.base]; omega
  simp only [h0, if_false, Ed.kBackspace, Ed.kDelete, Ed.kLeft, Ed.kRight, Ed.kHome, Ed.kEnd, Ed.kCtrlK,
    Ed.kCtrlU, Ed.kCtrlA, Ed.kCtrlE, Ed.kCtrlB, Ed.kCtrlF, Ed.kCtrlD, hne _ (by omega : (0:Nat) ≤ 15),
    hne 1 (by omega), hne 2 (by omega), hne 3 (by omega), hne 4 (by omega), hne 5 (by omega),
    hne 6 (by omega), hne 7 (by omega), hne 8 (by omega), hne 9 (by omega), hne 10 (by omega),
    hne 11 (by omega), hne 15 (by omega), or_self]
  simp [decText_encText, h]

theorem render_line_aux (l : List Item) (e : Ed.E) (h : e.cur = e.text.length) :
    ((lineKeys l).foldl Ed.keyK e).text = e.text ++ (l.map Item.shown).flatten ∧
    ((lineKeys l).foldl Ed.keyK e).cur = ((lineKeys l).foldl Ed.keyK e).text.length := by
  induction l generalizing e with
  | nil => simp [lineKeys, h]
  | cons i l ih =>
    cases i with
    | typed t =>
      simp only [lineKeys, List.map_cons, List.flatten_cons, Item.keys, List.foldl_append, Item.shown]
      have : ∀ (t : Text) (e : Ed.E), e.cur = e.text.length →
          ((chars t).foldl Ed.keyK e).text = e.text ++ t ∧
          ((chars t).foldl Ed.keyK e).cur = ((chars t).foldl Ed.keyK e).text.length := by
        intro t
        induction t with
        | nil => intro e h; simp [chars, h]
        | cons c t iht =>
          intro e h
          simp only [chars, List.map_cons, List.foldl_cons]
          rw [keyK_char e c h]
          have := iht ⟨e.text ++ [c], e.cur + 1⟩ (by simp [h])
          simp only [chars] at this
          simpa using this
      obtain ⟨t1, t2⟩ := this t e h
      have := ih _ t2
      simp only [lineKeys] at this
      refine ⟨by rw [this.1, t1]; simp, this.2⟩
    | paste b =>
      simp only [lineKeys, List.map_cons, List.flatten_cons, Item.keys, List.foldl_append, Item.shown,
        List.foldl_cons, List.foldl_nil]
      rw [keyK_paste e b h]
      have := ih ⟨e.text ++ crlf b, e.cur + (crlf b).length⟩ (by simp [h])
      simp only [lineKeys] at this
      refine ⟨by rw [this.1]; simp, this.2⟩

/-- **An accepted line that contains pastes is exactly typed text + pasted text**: the default
    editor shows the typed characters and the pasted texts in the order they arrived, nothing else. -/
theorem render_line (l : List Item) : (Ed.render (lineKeys l)).text = (l.map Item.shown).flatten := by
  have := (render_line_aux l ⟨[], 0⟩ rfl).1
  simpa [Ed.render] using this

/-! ### the parser belongs to the input object: it survives the accept boundary -/

/-- ending a prompt and starting the next one touch neither the parser (its pending escape
    sequence, its paste mode, its paste buffer) nor the unread characters -/
theorem parser_survives_accept (N : Norm ν) (s : St ν) :
    (step N s .finish).ps = s.ps ∧ (step N s .endWait).ps = s.ps ∧ (step N s .start).ps = s.ps ∧
    (step N s .finish).bytes = s.bytes ∧ (step N s .endWait).bytes = s.bytes ∧
    (step N s .start).bytes = s.bytes := by
  simp [step]

/-- a read while no application is running (or waiting for CPR answers) consumes nothing -/
theorem read_ignored_when_inactive (N : Norm ν) (s : St ν) (n : Nat) (h : active s.l1 = false) :
    step N s (.read n) = s := by
  simp [step, h]

/-! ### the concrete generator of the current tree satisfies the hypotheses -/
namespace Conc

/-- no sequence of the table starts with this character -/
def fresh (cfg : Cfg) (c : Char) : Bool := cfg.table.all fun kv => kv.1.head? != some c

theorem csi_single (c : Char) : csi [c] = none := rfl

theorem lookup_fresh (cfg : Cfg) (c : Char) (h : fresh cfg c = true) : lookup cfg.table [c] = [] := by
  unfold lookup
  have : cfg.table.find? (fun kv => kv.1 == [c]) = none := by
    rw [List.find?_eq_none]
    intro kv hkv hk
    have := List.all_eq_true.1 h kv hkv
    have e : kv.1 = [c] := by simpa using hk
    simp [e] at this
  rw [this]

theorem any_fresh (cfg : Cfg) (c : Char) (h : fresh cfg c = true) :
    (cfg.table.any fun kv => !kv.2.isEmpty && [c].isPrefixOf kv.1 && kv.1 != [c]) = false := by
  rw [List.any_eq_false]
  intro kv hkv hk
  have := List.all_eq_true.1 h kv hkv
  simp only [Bool.and_eq_true] at hk
  have hp := hk.1.2
  cases hkk : kv.1 with
  | nil => rw [hkk] at hp; simp at hp
  | cons x xs =>
    rw [hkk] at hp this
    simp at hp this
    exact this hp.symm

/-- a character that starts no sequence is one ordinary key press, nothing stays pending -/
theorem plain_of_fresh (cfg : Cfg) (c : Char) (h : fresh cfg c = true) : Plain (norm cfg) [] c := by
  unfold Plain norm send
  have hm : getMatch cfg [c] = [] := by simp [getMatch, isCpr, isMouse, csi_single, lookup_fresh cfg c h]
  have hp : isPrefixOfLonger cfg [c] = false := by
    simp [isPrefixOfLonger, isCprPrefix, isMousePrefix, csi_single, any_fresh cfg c h]
  simp [process, hp, hm, shiftStep, shiftLoop]

/-- every sequence of the table starts with a control character, DEL or the 8-bit CSI -/
def headsOk (cfg : Cfg) : Bool :=
  cfg.table.all fun kv => match kv.1.head? with
    | some h => h.toNat < 32 || h.toNat == 127 || h.toNat == 155
    | none => true

theorem fresh_of_headsOk (cfg : Cfg) (hk : headsOk cfg = true) (c : Char)
    (h1 : 32 ≤ c.toNat) (h2 : c.toNat ≠ 127) (h3 : c.toNat ≠ 155) : fresh cfg c = true := by
  unfold fresh
  rw [List.all_eq_true]
  intro kv hkv
  have := List.all_eq_true.1 hk kv hkv
  cases hh : kv.1.head? with
  | none => simp
  | some x =>
    rw [hh] at this
    simp only [Bool.or_eq_true, decide_eq_true_eq, beq_iff_eq] at this
    simp only [bne_iff_ne, ne_eq, Option.some.injEq]
    rintro rfl; omega

end Conc

/-- side conditions re-decided by the kernel on the table regenerated from /repo on every run -/
theorem gen_heads_ok : Conc.headsOk Conc.genCfg = true := by decide +kernel

/-- the start mark switches the generator of the current tree to paste mode and leaves nothing
    pending (`ANSI_SEQUENCES["\x1b[200~"] = Keys.BracketedPaste`, no longer sequence starts with it) -/
theorem gen_start_ok : StartOk (Conc.norm Conc.genCfg) [] := by
  unfold StartOk; decide +kernel

theorem gen_enter_ok : EnterOk (Conc.norm Conc.genCfg) [] := by
  unfold EnterOk; decide +kernel

/-- every printable character is one ordinary key press for the generator of the current tree -/
theorem gen_plain (c : Char) (h1 : 32 ≤ c.toNat) (h2 : c.toNat ≠ 127) (h3 : c.toNat ≠ 155) :
    Plain (Conc.norm Conc.genCfg) [] c :=
  Conc.plain_of_fresh _ c (Conc.fresh_of_headsOk _ gen_heads_ok c h1 h2 h3)

/-- printable: not a control character, not DEL, not the 8-bit CSI -/
def Printable (c : Char) : Prop := 32 ≤ c.toNat ∧ c.toNat ≠ 127 ∧ c.toNat ≠ 155

def Item.GenOk : Item → Prop
  | .typed t => ∀ c ∈ t, Printable c
  | .paste b => CleanBody b

/-- **The headline for the code as it is now** (sequence table regenerated from /repo): k lines of
    printable typed text and bracketed pastes, each ended by `\r`, written in any chunks and read in
    any portions under any schedule of starts / finishes: the finished prompts return exactly these
    lines, and the default editor shows typed text + pasted text. -/
theorem gen_paste_lines (r : Bool) (lines : List (List Item)) (tail : Text)
    (hl : ∀ l ∈ lines, ∀ i ∈ l, i.GenOk) (ht : ∀ c ∈ tail, Printable c)
    (evs : List Ev) (hw : written evs = scriptText lines ++ tail) :
    ∀ s, s = run (Conc.norm Conc.genCfg) (St.init [] r) evs →
    s.l1.results.length ≤ lines.length ∧
    s.l1.results.map (fun x => ((Ed.render x.1).text, x.2)) =
      (lines.take s.l1.results.length).map (fun l => ((l.map Item.shown).flatten, Key.accept)) := by
  intro s hs
  have hl' : ∀ l ∈ lines, ∀ i ∈ l, i.Ok (Conc.norm Conc.genCfg) [] := by
    intro l hlm i him
    have := hl l hlm i him
    cases i with
    | typed t => intro c hc; exact gen_plain c (this c hc).1 (this c hc).2.1 (this c hc).2.2
    | paste b => exact this
  have ht' : ∀ c ∈ tail, Plain (Conc.norm Conc.genCfg) [] c :=
    fun c hc => gen_plain c (ht c hc).1 (ht c hc).2.1 (ht c hc).2.2
  have := paste_lines_k_prompts (Conc.norm Conc.genCfg) [] gen_start_ok gen_enter_ok r
    (fun ks => (Ed.render ks).text) lines tail hl' ht' evs hw s hs
  refine ⟨this.1, ?_⟩
  rw [this.2.1]
  simp [render_line]

/-! ## Non-vacuity, on the concrete generator -/
section examples

def N0 : Norm Text := Conc.norm Conc.genCfg

/-- `ab` PASTE(`x\ry`) `!` Enter `n` Left `m` Enter, as characters -/
def exText : Text :=
  "ab".toList ++ startMark ++ ['x', '\r', 'y'] ++ endMark ++ "!\r".toList ++
  "n".toList ++ [ESC, '[', 'D'] ++ "m\r".toList

def exKeys : List Key :=
  [.other 97, .other 98, pasteKey ['x', '\r', 'y'], .other 33, .accept,
   .other 110, .other (0x110000 + 2), .other 109, .accept]

example : (parse N0 ⟨[], false, []⟩ exText).2 = exKeys := by decide +kernel
-- cut in the middle of the end mark, in the middle of the start mark and inside Left
example : (feeds N0 ⟨[], false, []⟩ [exText.take 3, (exText.drop 3).take 11, (exText.drop 14).take 10,
    exText.drop 24]).2 = exKeys := by decide +kernel
example : exText.take 14 = "ab".toList ++ startMark ++ ['x', '\r', 'y'] ++ endMark.take 3 := by decide
-- between the two reads the parser is in paste mode and holds the beginning of the end mark
example : (feed N0 ⟨[], false, []⟩ (exText.take 14)).1 = ⟨[], true, ['x', '\r', 'y'] ++ endMark.take 3⟩ := by
  decide +kernel
example : CleanBody ['x', '\r', 'y'] := cleanBody_of_no_esc _ (by decide)

/-- the whole machinery: written in three chunks (cut inside the end mark), first prompt reads 14
    characters, then the rest; second prompt gets its line from the type-ahead -/
def exEvs : List Ev :=
  [.write (exText.take 9), .start, .write (exText.drop 9), .read 14, .read 1000, .finish, .start, .finish]

example : written exEvs = exText := by decide
example : ((run N0 (St.init [] false) exEvs).l1.results.map fun x => ((Ed.render x.1).text, x.2)) =
    [("abx\ny!".toList, .accept), ("mn".toList, .accept)] := by decide +kernel
example : exText = scriptText [[.typed "ab".toList, .paste ['x', '\r', 'y'], .typed "!".toList]] ++
    ("n".toList ++ [ESC, '[', 'D'] ++ "m\r".toList) := by decide

-- an escape sequence split across the accept boundary: Enter and the first byte of Left are read by
-- prompt 1, the rest by prompt 2 — the parser keeps the pending ESC, Left reaches prompt 2
def exSplit : List Ev :=
  [.start, .write ("a\r".toList ++ [ESC]), .read 10, .finish,
   .write (['[', 'D'] ++ "b\r".toList), .start, .read 10, .finish]
example : (run N0 (St.init [] false) (exSplit.take 4)).ps = ⟨[ESC], false, []⟩ := by decide +kernel
example : ((run N0 (St.init [] false) exSplit).l1.results.map fun x => x.1) =
    [[.other 97], [.other (0x110000 + 2), .other 98]] := by decide +kernel

end examples

/-- **Nothing is stuck in the parser**: while a prompt waits for its result, every key the parser
    has delivered has been handed to the bindings, and the key stream of everything written is
    finished lines ++ keys applied to this prompt ++ what the unread characters will still give. -/
theorem waiting_prompt_has_consumed_everything (N : Norm ν) (g : ν) (r : Bool) (evs : List Ev) :
    ∀ s, s = run N (St.init g r) evs → s.l1.running = true → s.l1.kp.done = none →
    s.l1.kp.queue = [] ∧ s.l1.typeahead = [] ∧
    norm (allKeys N g evs) = flat s.l1.results ++ s.l1.kp.applied ++ norm (future N s) := by
  intro s hs hr hd
  obtain ⟨⟨R, K, hW, hP, hI⟩, hp, _⟩ := hs ▸ reachable_pinv N g r evs
  have hq := hI.settled.drained hd
  have hta := hI.taEmpty (Or.inl hr)
  refine ⟨hq, hta, ?_⟩
  have h := bytes_no_loss_no_dup N g r evs s hs
  rw [hq, hta] at h
  simp only [cur, hd, norm_nil, List.append_nil] at h
  exact h.symm

/-- **No accepting key is swallowed** (liveness, for every chunking and every schedule): if a
    prompt is still waiting although every written character has been read and the parser would
    deliver nothing more for them, then ALL complete lines of the stream have already been returned —
    there is no Enter left anywhere, in particular none inside the parser's paste buffer.  (With
    seeded/C17-f the Enter behind a paste whose end mark was cut by a read sits in the paste buffer
    for ever: this statement fails.) -/
theorem no_accepting_key_swallowed (N : Norm ν) (g : ν) (r : Bool) (evs : List Ev) :
    ∀ s, s = run N (St.init g r) evs → s.l1.running = true → s.l1.kp.done = none →
    s.bytes = [] →
    segments (norm (allKeys N g evs)) = s.l1.results := by
  intro s hs hr hd hb
  obtain ⟨⟨R, K, hW, hP, hI⟩, hp, _⟩ := hs ▸ reachable_pinv N g r evs
  obtain ⟨_, _, h⟩ := waiting_prompt_has_consumed_everything N g r evs s hs hr hd
  have hf : future N s = [] := by simp [future, hb, parse, parseFrom]
  rw [hf, norm_nil, List.append_nil] at h
  rw [h, segments_flat _ _ hI.results, segments_noFin _ hI.settled.applied.noFin, List.append_nil]

-- non-vacuity: a reachable waiting state with an empty pipe — both lines of `exText` minus its last
-- Enter have been read; the first line is returned, the second is being typed
example : (run N0 (St.init [] false)
      [Ev.write (exText.take 24), .start, .read 14, .read 1000, .finish, .start]).l1.running = true ∧
    (run N0 (St.init [] false)
      [Ev.write (exText.take 24), .start, .read 14, .read 1000, .finish, .start]).l1.kp.done = none ∧
    (run N0 (St.init [] false)
      [Ev.write (exText.take 24), .start, .read 14, .read 1000, .finish, .start]).bytes = [] ∧
    (run N0 (St.init [] false)
      [Ev.write (exText.take 24), .start, .read 14, .read 1000, .finish, .start]).l1.results.length = 1 := by
  decide +kernel


/-! ### why the end mark must be searched in the ACCUMULATED buffer

  `feedBad` is `Vt100Parser.feed` with `if end_mark in data` instead of
  `if end_mark in self._paste_buffer` (seeded/C17-f).  A read boundary inside the end mark makes it
  miss the mark: the parser stays in paste mode and swallows the Enter, the prompt never returns. -/
def feedFuelBad (N : Norm ν) : Nat → PS ν → Text → List Key → PS ν × List Key
  | 0, s, _, out => (s, out)
  | n + 1, s, data, out =>
    if s.inPaste then
      let buf := s.pbuf ++ data
      match findSub? endMark data, findSub? endMark buf with
      | some _, some j =>
        feedFuelBad N n { s with inPaste := false, pbuf := [] } (buf.drop (j + endMark.length))
          (out ++ [pasteKey (buf.take j)])
      | _, _ => ({ s with pbuf := buf }, out)
    else
      let r := feedNormal N data s out
      if r.2.2.isEmpty then (r.1, r.2.1) else feedFuelBad N n r.1 r.2.2 r.2.1

def feedBad (N : Norm ν) (s : PS ν) (data : Text) : PS ν × List Key :=
  feedFuelBad N (s.pbuf.length + data.length + 1) s data []

theorem search_in_new_data_only_swallows_enter :
    let t : Text := startMark ++ ['x'] ++ endMark ++ ['\r']
    -- all at once both agree
    (feedBad N0 ⟨[], false, []⟩ t).2 = [pasteKey ['x'], .accept] ∧
    (feed N0 ⟨[], false, []⟩ t).2 = [pasteKey ['x'], .accept] ∧
    -- cut inside the end mark: the real code still delivers paste and Enter …
    (feed N0 (feed N0 ⟨[], false, []⟩ (t.take 10)).1 (t.drop 10)).2 = [pasteKey ['x'], .accept] ∧
    -- … the variant delivers nothing and stays in paste mode with the Enter in its buffer
    (feedBad N0 (feedBad N0 ⟨[], false, []⟩ (t.take 10)).1 (t.drop 10)).2 = [] ∧
    (feedBad N0 (feedBad N0 ⟨[], false, []⟩ (t.take 10)).1 (t.drop 10)).1 =
      ⟨[], true, ['x'] ++ endMark ++ ['\r']⟩ := by decide +kernel
end Ptk.C17.Paste
