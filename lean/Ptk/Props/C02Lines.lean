/-
  C02 — helper lemmas: lines of a text, line start indexes, bisect, and the
  normal form  text = pre A ++ m1 ++ m2 ++ post B  (cursor between m1 and m2).
-/
import Ptk.Model.C02
namespace Ptk.C02
open Ptk.Py

/-- a line: contains no newline -/
def NoNL (l : Text) : Prop := '\n' ∉ l
/-- a list of lines -/
def AllNoNL (ls : List Text) : Prop := ∀ l ∈ ls, NoNL l

/-- the lines `A` before the current line, each followed by its newline -/
def pre : List Text → Text
  | [] => []
  | a :: as => a ++ '\n' :: pre as

/-- the lines `B` after the current line, each preceded by its newline -/
def post : List Text → Text
  | [] => []
  | b :: bs => '\n' :: (b ++ post bs)

/-- start index of every line, the first line starting at `p` -/
def startsOf : Nat → List Text → List Nat
  | _, [] => []
  | p, l :: ls => p :: startsOf (p + l.length + 1) ls

/-! ### splitOn -/

theorem splitOn_ne_nil (c : Char) (t : Text) : splitOn c t ≠ [] := by
  induction t with
  | nil => simp [splitOn]
  | cons x xs ih =>
    unfold splitOn
    split
    · simp
    · split <;> simp

theorem splitOn_of_not_mem (c : Char) (l : Text) (h : c ∉ l) : splitOn c l = [l] := by
  induction l with
  | nil => simp [splitOn]
  | cons x xs ih =>
    have hx : x ≠ c := by intro e; apply h; simp [e]
    have hxs : c ∉ xs := by intro e; apply h; simp [e]
    rw [splitOn]
    simp [hx, ih hxs]

theorem splitOn_append_sep (c : Char) (l t : Text) (h : c ∉ l) :
    splitOn c (l ++ c :: t) = l :: splitOn c t := by
  induction l with
  | nil => simp [splitOn]
  | cons x xs ih =>
    have hx : x ≠ c := by intro e; apply h; simp [e]
    have hxs : c ∉ xs := by intro e; apply h; simp [e]
    show splitOn c (x :: (xs ++ c :: t)) = _
    rw [splitOn]
    simp [hx, ih hxs]

/-- lines of a text in normal form -/
theorem lines_normal (A B : List Text) (m : Text) (hA : AllNoNL A) (hm : NoNL m) (hB : AllNoNL B) :
    lines (pre A ++ m ++ post B) = A ++ [m] ++ B := by
  induction A with
  | nil =>
    simp only [pre, List.nil_append]
    induction B generalizing m with
    | nil => simpa [post, lines] using splitOn_of_not_mem '\n' m hm
    | cons b bs ih =>
      have hb : NoNL b := hB b (by simp)
      have hbs : AllNoNL bs := fun l hl => hB l (by simp [hl])
      have := ih b hb hbs
      simp only [post, lines] at this ⊢
      rw [splitOn_append_sep '\n' m _ hm, this]
      simp
  | cons a as ih =>
    have ha : NoNL a := hA a (by simp)
    have has : AllNoNL as := fun l hl => hA l (by simp [hl])
    have := ih has
    simp only [pre, lines, List.append_assoc, List.cons_append] at this ⊢
    rw [splitOn_append_sep '\n' a _ ha, this]

/-! ### existence of the normal form -/

theorem exists_pre (s : Text) : ∃ A m, AllNoNL A ∧ NoNL m ∧ s = pre A ++ m := by
  induction s with
  | nil => exact ⟨[], [], by simp [AllNoNL], by simp [NoNL], by simp [pre]⟩
  | cons x xs ih =>
    obtain ⟨A, m, hA, hm, rfl⟩ := ih
    by_cases hx : x = '\n'
    · refine ⟨[] :: A, m, ?_, hm, by simp [pre, hx]⟩
      intro l hl
      rcases List.mem_cons.mp hl with rfl | h
      · simp [NoNL]
      · exact hA l h
    · cases A with
      | nil => exact ⟨[], x :: m, hA, by simp [NoNL] at hm ⊢; exact ⟨fun e => hx e.symm, hm⟩, by simp [pre]⟩
      | cons a as =>
        refine ⟨(x :: a) :: as, m, ?_, hm, by simp [pre]⟩
        intro l hl
        rcases List.mem_cons.mp hl with rfl | h
        · have := hA a (by simp)
          simp [NoNL] at this ⊢
          exact ⟨fun e => hx e.symm, this⟩
        · exact hA l (by simp [h])

theorem exists_post (s : Text) : ∃ m B, NoNL m ∧ AllNoNL B ∧ s = m ++ post B := by
  induction s with
  | nil => exact ⟨[], [], by simp [NoNL], by simp [AllNoNL], by simp [post]⟩
  | cons x xs ih =>
    obtain ⟨m, B, hm, hB, rfl⟩ := ih
    by_cases hx : x = '\n'
    · refine ⟨[], m :: B, by simp [NoNL], ?_, by simp [post, hx]⟩
      intro l hl
      rcases List.mem_cons.mp hl with rfl | h
      · exact hm
      · exact hB l h
    · refine ⟨x :: m, B, ?_, hB, by simp⟩
      simp [NoNL] at hm ⊢
      exact ⟨fun e => hx e.symm, hm⟩

/-- every (text, index) pair has a normal form -/
theorem exists_normal (t : Text) (i : Nat) (_hi : i ≤ t.length) :
    ∃ A m1 m2 B, AllNoNL A ∧ NoNL m1 ∧ NoNL m2 ∧ AllNoNL B ∧
      t.take i = pre A ++ m1 ∧ t.drop i = m2 ++ post B := by
  obtain ⟨A, m1, hA, hm1, h1⟩ := exists_pre (t.take i)
  obtain ⟨m2, B, hm2, hB, h2⟩ := exists_post (t.drop i)
  exact ⟨A, m1, m2, B, hA, hm1, hm2, hB, h1, h2⟩

/-! ### line start indexes -/

theorem cumul_ne_nil (p : Nat) (l : Text) (ls : List Text) : cumul p (l :: ls) ≠ [] := by
  simp [cumul]

theorem dropLast_cumul (p : Nat) (ls : List Text) (h : ls ≠ []) :
    (p :: cumul p ls).dropLast = startsOf p ls := by
  induction ls generalizing p with
  | nil => exact absurd rfl h
  | cons l ls ih =>
    cases ls with
    | nil => simp [cumul, startsOf]
    | cons l' ls' =>
      have := ih (p + l.length + 1) (by simp)
      simp only [cumul, startsOf] at this ⊢
      rw [List.dropLast_cons_cons, this]

/-- the code's `[0] + cumulative sums` with the last item popped is the list of line starts -/
theorem lineStarts_eq (t : Text) : lineStarts t = startsOf 0 (lines t) := by
  have hne : lines t ≠ [] := splitOn_ne_nil _ _
  unfold lineStarts
  have hlen : (0 :: cumul 0 (lines t)).length > 1 := by
    cases h : lines t with
    | nil => exact absurd h hne
    | cons l ls => simp [cumul]
  simp only [hlen, if_true]
  exact dropLast_cumul 0 _ hne

theorem pre_length_append (A : List Text) (m : Text) : (pre A ++ m).length = (pre A).length + m.length := by
  simp

theorem startsOf_length (p : Nat) (ls : List Text) : (startsOf p ls).length = ls.length := by
  induction ls generalizing p with
  | nil => rfl
  | cons l ls ih => simp [startsOf, ih]

/-- the start of the line that follows the lines `A` -/
theorem startsOf_get (p : Nat) (A B : List Text) (m : Text) :
    (startsOf p (A ++ m :: B))[A.length]? = some (p + (pre A).length) := by
  induction A generalizing p with
  | nil => simp [startsOf, pre]
  | cons a as ih =>
    simp only [List.cons_append, startsOf, List.length_cons, List.getElem?_cons_succ, pre,
      List.length_append]
    rw [ih]
    congr 1
    omega

theorem takeWhile_startsOf_gt (q x : Nat) (B : List Text) (h : x < q) :
    (startsOf q B).takeWhile (· ≤ x) = [] := by
  cases B with
  | nil => simp [startsOf]
  | cons b bs =>
    simp only [startsOf]
    rw [List.takeWhile_cons_of_neg]
    simp; omega

/-- `bisect_right` over the line starts finds the line that contains the index -/
theorem bisect_startsOf' (p : Nat) (A B : List Text) (m : Text) (x : Nat)
    (h1 : p + (pre A).length ≤ x) (h2 : x ≤ p + (pre A).length + m.length) :
    bisectRight (startsOf p (A ++ m :: B)) x = A.length + 1 := by
  induction A generalizing p with
  | nil =>
    simp only [pre, List.length_nil] at h1 h2
    simp only [List.nil_append, startsOf, List.length_nil, bisectRight]
    rw [List.takeWhile_cons_of_pos (by simp; omega)]
    rw [takeWhile_startsOf_gt _ _ _ (by omega)]
    simp
  | cons a as ih =>
    simp only [pre, List.length_append, List.length_cons] at h1 h2
    simp only [List.cons_append, startsOf, List.length_cons, bisectRight]
    rw [List.takeWhile_cons_of_pos (by simp; omega)]
    have := ih (p + a.length + 1) (by omega) (by omega)
    simp only [bisectRight] at this
    simp [this]

theorem bisect_startsOf (p : Nat) (A B : List Text) (m : Text) (c : Nat) (hc : c ≤ m.length) :
    bisectRight (startsOf p (A ++ m :: B)) (p + (pre A).length + c) = A.length + 1 :=
  bisect_startsOf' p A B m _ (by omega) (by omega)

/-! ### `bisect_right`: the binary search equals its specification on sorted lists -/

theorem takeWhile_le_sorted (a : List Nat) (hs : a.Pairwise (· ≤ ·)) (x : Nat) :
    (∀ j v, j < (a.takeWhile (· ≤ x)).length → a[j]? = some v → v ≤ x) ∧
    (∀ j v, (a.takeWhile (· ≤ x)).length ≤ j → a[j]? = some v → x < v) ∧
    (a.takeWhile (· ≤ x)).length ≤ a.length := by
  induction a with
  | nil => simp
  | cons b bs ih =>
    rw [List.pairwise_cons] at hs
    obtain ⟨i1, i2, i3⟩ := ih hs.2
    by_cases hb : b ≤ x
    · simp only [List.takeWhile_cons, hb, decide_true, if_true, List.length_cons]
      refine ⟨?_, ?_, by omega⟩
      · intro j v hj hv
        cases j with
        | zero => simp at hv; omega
        | succ j => exact i1 j v (by omega) (by simpa using hv)
      · intro j v hj1 hv
        cases j with
        | zero => omega
        | succ j => exact i2 j v (by omega) (by simpa using hv)
    · simp only [List.takeWhile_cons, hb, decide_false, Bool.false_eq_true, if_false, List.length_nil]
      refine ⟨by intro j v hj; omega, ?_, by simp⟩
      intro j v _ hv
      cases j with
      | zero => simp at hv; omega
      | succ j =>
        have hmem : v ∈ bs := List.mem_of_getElem? (by simpa using hv)
        have := hs.1 _ hmem
        omega

/-- on a sorted list the binary search of `bisect_right` returns the number of entries `≤ x` -/
theorem bisectRightAlg_eq (a : List Nat) (hs : a.Pairwise (· ≤ ·)) (x : Nat) :
    bisectRightAlg a x = bisectRight a x := by
  obtain ⟨h1, h2, h3⟩ := takeWhile_le_sorted a hs x
  unfold bisectRight
  generalize (a.takeWhile (· ≤ x)).length = r at h1 h2 h3
  have key : ∀ fuel lo hi, lo ≤ r → r ≤ hi → hi ≤ a.length → hi - lo < fuel → bisectLoop a x fuel lo hi = r := by
    intro fuel
    induction fuel with
    | zero => intro lo hi _ _ _ h; omega
    | succ f ih =>
      intro lo hi hlo hhi hlen hf
      simp only [bisectLoop]
      split
      · rename_i hlt
        have hmid1 : lo ≤ (lo + hi) / 2 := by omega
        have hmid2 : (lo + hi) / 2 < hi := by omega
        have hget : a[(lo + hi) / 2]? = some a[(lo + hi) / 2] := List.getElem?_eq_getElem (by omega)
        simp only [hget, Option.getD_some]
        split
        · rename_i hx
          -- x < a[mid]: mid is not among the first r entries
          have : r ≤ (lo + hi) / 2 := by
            rcases Nat.lt_or_ge ((lo + hi) / 2) r with h | h
            · have := h1 _ _ h hget; omega
            · exact h
          exact ih lo _ hlo this (by omega) (by omega)
        · rename_i hx
          have : (lo + hi) / 2 < r := by
            rcases Nat.lt_or_ge ((lo + hi) / 2) r with h | h
            · exact h
            · have := h2 _ _ h hget; omega
          exact ih _ hi (by omega) hhi hlen (by omega)
      · omega
  exact key _ 0 a.length (Nat.zero_le _) h3 (Nat.le_refl _) (by omega)

/-- line starts are increasing -/
theorem startsOf_sorted (p : Nat) (ls : List Text) :
    (∀ x ∈ startsOf p ls, p ≤ x) ∧ (startsOf p ls).Pairwise (· ≤ ·) := by
  induction ls generalizing p with
  | nil => simp [startsOf]
  | cons l ls ih =>
    obtain ⟨h1, h2⟩ := ih (p + l.length + 1)
    simp only [startsOf, List.mem_cons, List.pairwise_cons]
    refine ⟨?_, ?_, h2⟩
    · rintro x (rfl | hx)
      · exact Nat.le_refl _
      · have := h1 x hx; omega
    · intro x hx; have := h1 x hx; omega

/-! ### the views of a document in normal form -/

/-- `(t, i)` in normal form: `A` the lines before the current one, `m1`/`m2` the current line
    before/after index `i`, `B` the lines after it -/
structure Normal (t : Text) (i : Nat) (A : List Text) (m1 m2 : Text) (B : List Text) : Prop where
  hA : AllNoNL A
  h1 : NoNL m1
  h2 : NoNL m2
  hB : AllNoNL B
  text : t = pre A ++ m1 ++ m2 ++ post B
  idx : i = (pre A).length + m1.length

theorem Normal.noNL12 (h : Normal t i A m1 m2 B) : NoNL (m1 ++ m2) := by
  have a := h.h1; have b := h.h2
  simp [NoNL] at a b ⊢; exact ⟨a, b⟩

theorem exists_normal' (t : Text) (i : Nat) (hi : i ≤ t.length) :
    ∃ A m1 m2 B, Normal t i A m1 m2 B := by
  obtain ⟨A, m1, m2, B, hA, h1, h2, hB, e1, e2⟩ := exists_normal t i hi
  refine ⟨A, m1, m2, B, hA, h1, h2, hB, ?_, ?_⟩
  · have := List.take_append_drop i t
    rw [e1, e2] at this
    simp [← this]
  · have : (t.take i).length = i := by simp; omega
    rw [e1] at this
    simp at this; omega

theorem Normal.take (h : Normal t i A m1 m2 B) : t.take i = pre A ++ m1 := by
  rw [h.text, h.idx]
  have : (pre A ++ m1).length = (pre A).length + m1.length := by simp
  rw [List.append_assoc (pre A ++ m1)]
  exact List.take_left' this

theorem Normal.drop (h : Normal t i A m1 m2 B) : t.drop i = m2 ++ post B := by
  rw [h.text, h.idx]
  have : (pre A ++ m1).length = (pre A).length + m1.length := by simp
  rw [List.append_assoc (pre A ++ m1)]
  exact List.drop_left' this

theorem Normal.le (h : Normal t i A m1 m2 B) : i ≤ t.length := by
  rw [h.text, h.idx]; simp

theorem Normal.length (h : Normal t i A m1 m2 B) :
    t.length = (pre A).length + m1.length + m2.length + (post B).length := by
  rw [h.text]; simp; omega

theorem Normal.lines (h : Normal t i A m1 m2 B) : lines t = A ++ [m1 ++ m2] ++ B := by
  rw [h.text]
  have := lines_normal A B (m1 ++ m2) h.hA h.noNL12 h.hB
  simpa [List.append_assoc] using this

theorem Normal.lineStarts (h : Normal t i A m1 m2 B) :
    lineStarts t = startsOf 0 (A ++ (m1 ++ m2) :: B) := by
  rw [lineStarts_eq, h.lines]; simp

theorem Normal.findLineStart (h : Normal t i A m1 m2 B) :
    findLineStart t i = (A.length, (pre A).length) := by
  unfold Ptk.C02.findLineStart
  simp only
  rw [bisectRightAlg_eq _ (by rw [lineStarts_eq]; exact (startsOf_sorted 0 _).2)]
  rw [h.lineStarts, h.idx]
  have hb := bisect_startsOf 0 A B (m1 ++ m2) m1.length (by simp)
  simp only [Nat.zero_add] at hb
  simp only [hb, Nat.add_sub_cancel]
  rw [startsOf_get]
  simp

theorem Normal.indexToPos (h : Normal t i A m1 m2 B) : indexToPos t i = (A.length, m1.length) := by
  unfold Ptk.C02.indexToPos
  rw [h.findLineStart, h.idx]
  simp

/-- `pre A` is empty or ends with a newline -/
theorem pre_reverse (A : List Text) : (pre A).reverse = [] ∨ ∃ R, (pre A).reverse = '\n' :: R := by
  induction A with
  | nil => left; rfl
  | cons a as ih =>
    right
    rcases ih with h | ⟨R, h⟩
    · exact ⟨a.reverse, by simp [pre, h]⟩
    · exact ⟨R ++ '\n' :: a.reverse, by simp [pre, h]⟩

theorem rpartLast_normal (A : List Text) (m : Text) (hm : NoNL m) : rpartLast (pre A ++ m) = m := by
  unfold rpartLast
  rw [List.reverse_append, List.takeWhile_append_of_pos]
  · rcases pre_reverse A with h | ⟨R, h⟩ <;> simp [h]
  · intro a ha
    have : a ∈ m := by simpa using ha
    simp [NoNL] at hm
    simp; intro e; exact hm (e ▸ this)

theorem partFirst_normal (B : List Text) (m : Text) (hm : NoNL m) : partFirst (m ++ post B) = m := by
  unfold partFirst
  rw [List.takeWhile_append_of_pos]
  · cases B <;> simp [post]
  · intro a ha
    simp [NoNL] at hm
    simp; intro e; exact hm (e ▸ ha)

theorem Normal.lineBefore (h : Normal t i A m1 m2 B) : lineBefore ⟨t, i⟩ = m1 := by
  simp only [Ptk.C02.lineBefore, Doc.before]
  rw [h.take, rpartLast_normal A m1 h.h1]

theorem Normal.lineAfter (h : Normal t i A m1 m2 B) : lineAfter ⟨t, i⟩ = m2 := by
  simp only [Ptk.C02.lineAfter, Doc.after]
  rw [h.drop, partFirst_normal B m2 h.h2]

theorem Normal.currentLine (h : Normal t i A m1 m2 B) : currentLine ⟨t, i⟩ = m1 ++ m2 := by
  simp only [Ptk.C02.currentLine, h.lineBefore, h.lineAfter]

theorem Normal.row (h : Normal t i A m1 m2 B) : row ⟨t, i⟩ = A.length := by
  simp only [Ptk.C02.row, h.findLineStart]

theorem Normal.col (h : Normal t i A m1 m2 B) : col ⟨t, i⟩ = m1.length := by
  show i - (Ptk.C02.findLineStart t i).2 = _
  rw [h.findLineStart, h.idx]; simp

/-! ### join, and normal forms addressed by (row, col) -/

theorem join_cons_post (m : Text) (B : List Text) : join ['\n'] (m :: B) = m ++ post B := by
  induction B generalizing m with
  | nil => simp [join, post]
  | cons b bs ih => simp [join, post, ih]

theorem join_normal (A B : List Text) (m : Text) :
    join ['\n'] (A ++ m :: B) = pre A ++ m ++ post B := by
  induction A with
  | nil => simp [pre, join_cons_post]
  | cons a as ih =>
    cases as with
    | nil => simp [pre, join_cons_post, post]
    | cons a' as' =>
      simp only [List.cons_append, join, pre] at ih ⊢
      rw [ih]; simp

theorem lines_allNoNL (t : Text) : AllNoNL (lines t) := by
  obtain ⟨A, m1, m2, B, h⟩ := exists_normal' t 0 (Nat.zero_le _)
  rw [h.lines]
  intro l hl
  simp only [List.mem_append, List.mem_singleton] at hl
  rcases hl with (hl | hl) | hl
  · exact h.hA l hl
  · exact hl ▸ h.noNL12
  · exact h.hB l hl

/-- `"\n".join(text.split("\n")) == text` -/
theorem join_lines (t : Text) : join ['\n'] (lines t) = t := by
  obtain ⟨A, m1, m2, B, h⟩ := exists_normal' t 0 (Nat.zero_le _)
  rw [h.lines]
  have := join_normal A B (m1 ++ m2)
  simp only [List.append_assoc, List.singleton_append] at this ⊢
  rw [this, h.text]; simp

/-- the normal form at a valid (row, col) -/
theorem normal_of_rowcol (t : Text) (r c : Nat) (hr : r < (lines t).length)
    (hc : c ≤ ((lines t)[r]).length) :
    Normal t ((pre ((lines t).take r)).length + c) ((lines t).take r)
      (((lines t)[r]).take c) (((lines t)[r]).drop c) ((lines t).drop (r + 1)) := by
  have hall := lines_allNoNL t
  have hsplit : lines t = (lines t).take r ++ (lines t)[r] :: (lines t).drop (r + 1) := by
    simp
  have hm : NoNL (lines t)[r] := hall _ (List.getElem_mem hr)
  refine ⟨fun l hl => hall l (List.mem_of_mem_take hl), ?_, ?_,
          fun l hl => hall l (List.mem_of_mem_drop hl), ?_, ?_⟩
  · intro hmem; exact hm (List.mem_of_mem_take hmem)
  · intro hmem; exact hm (List.mem_of_mem_drop hmem)
  · have := join_lines t
    rw [hsplit, join_normal] at this
    rw [List.append_assoc (pre _), List.take_append_drop]
    exact this.symm
  · simp; omega

theorem index?_natCast {α : Type} (l : List α) (n : Nat) : index? l (n : Int) = l[n]? := by
  unfold index?
  have : ¬ ((n : Int) < 0) := by omega
  simp [this]

theorem Normal.rowColToIndex (h : Normal t i A m1 m2 B) (c : Int) :
    rowColToIndex t (A.length : Int) c =
      (pre A).length + (max 0 (min c ((m1 ++ m2).length : Int))).toNat := by
  have hl : (A ++ [m1 ++ m2] ++ B)[A.length]? = some (m1 ++ m2) := by simp
  have hlen := h.length
  simp only [Ptk.C02.rowColToIndex, index?_natCast, h.lineStarts, h.lines, startsOf_get, hl]
  simp only [List.length_append] at hlen ⊢
  omega

end Ptk.C02
