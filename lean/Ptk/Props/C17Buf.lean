/-
  C17, second layer — theorems about the key processor WITH its key buffer
  (`Ptk.Model.C17Buf`: `KeyProcessor._process` retry loop, multi-key bindings, prefix waiting,
  flush timer, keys pushed back to the queue when a handler ends the application, CPR responses
  dispatched outside the key buffer), for EVERY binding registry `T` (state dependent `exact`,
  `longer`, `handler`) whose CPR binding does not exit, every initial handler state and every
  schedule of writes / starts / reads / timer expiries / finishes.

    no_loss_no_dup_buf             conservation including key buffer and flush markers
    nothing_dispatched_after_exit  the call that ended a prompt is followed by CPR calls only
    accepted_prompt_frozen_buf     … also for reads and timer expiries after the result is set
    key_buffer_empty_when_done     reset() at the next start drops nothing
    never_double_exit              "Return value already set" cannot happen
    no_key_stuck_buf, dispatch_total, processKeys_stable   progress / termination
    cpr_leaves_arg_alone, key_after_cpr_same_as_without    a CPR response changes neither the numeric
                                   argument / key buffer / is_repeat information nor what the next key does
-/
import Ptk.Model.C17Buf
import Ptk.Props.C17
namespace Ptk.C17.Buf
open Ptk.C17

variable {σ : Type}

/-! ### the key-binding lookup helpers -/
theorem longestMatch_bounds (T : Tbl σ) (ed : σ) (buf : List Key) :
    ∀ n i, longestMatch T ed buf n = some i → 1 ≤ i ∧ i ≤ n := by
  intro n
  induction n with
  | zero => intro i h; simp [longestMatch] at h
  | succ n ih =>
    intro i h
    simp only [longestMatch] at h
    split at h
    · cases h; omega
    · have := ih i h; omega

/-! ### what one call of a handler does -/
theorem callHandler_queue (T : Tbl σ) (p : KP σ) (ks : List Key) :
    (callHandler T p ks).queue = p.queue ∧ (callHandler T p ks).buffer = p.buffer := by
  unfold callHandler
  generalize T.handler p.ed p.arg ks = o
  obtain ⟨ed', eff, a'⟩ := o
  cases eff <;> simp <;> split <;> simp

theorem callHandler_trace (T : Tbl σ) (p : KP σ) (ks : List Key) :
    (callHandler T p ks).trace = p.trace ++ [.call ks ((T.handler p.ed p.arg ks).eff == .exit)] := by
  unfold callHandler
  generalize T.handler p.ed p.arg ks = o
  obtain ⟨ed', eff, a'⟩ := o
  cases eff <;> simp <;> split <;> simp

/-- from a state without result: the result is set iff the handler exits; no crash -/
theorem callHandler_live (T : Tbl σ) (p : KP σ) (ks : List Key) (hd : p.done = false) :
    (callHandler T p ks).done = ((T.handler p.ed p.arg ks).eff == .exit) ∧
    (callHandler T p ks).crashed = p.crashed := by
  unfold callHandler
  generalize T.handler p.ed p.arg ks = o
  obtain ⟨ed', eff, a'⟩ := o
  cases eff <;> simp [hd]

/-! ### bookkeeping functions -/
def allKeys : List Disp → List Key
  | [] => []
  | d :: tr => d.keys ++ allKeys tr

theorem allKeys_append (a b : List Disp) : allKeys (a ++ b) = allKeys a ++ allKeys b := by
  induction a with
  | nil => rfl
  | cons d a ih => simp [allKeys, ih]

/-- the key presses in a queue (the `_Flush` markers are not keys) -/
def qk : List QK → List Key
  | [] => []
  | none :: q => qk q
  | some k :: q => k :: qk q

theorem qk_append (a b : List QK) : qk (a ++ b) = qk a ++ qk b := by
  induction a with
  | nil => rfl
  | cons k a ih => cases k <;> simp [qk, ih]

theorem qk_map_some (b : List Key) : qk (b.map some) = b := by
  induction b with
  | nil => rfl
  | cons k b ih => simp [qk, ih]

def Disp.exited : Disp → Bool
  | .call _ e => e
  | .drop _ => false

def NoExit (tr : List Disp) : Prop := ∀ d ∈ tr, d.exited = false

theorem NoExit.nil : NoExit ([] : List Disp) := by intro d h; cases h
theorem NoExit.append {a b : List Disp} (ha : NoExit a) (hb : NoExit b) : NoExit (a ++ b) := by
  intro d h; rcases List.mem_append.1 h with h | h
  · exact ha d h
  · exact hb d h

/-- how a call of `_process` from a state without result relates input and output state -/
structure DispOK (p p' : KP σ) : Prop where
  cons : allKeys p'.trace ++ p'.buffer ++ qk p'.queue = allKeys p.trace ++ p.buffer ++ qk p.queue
  queue : ∃ b : List Key, p'.queue = b.map some ++ p.queue ∧ (∀ k ∈ b, k ∈ p.buffer)
  pushDone : p'.done = false → p'.queue = p.queue
  doneBuf : p'.done = true → p'.buffer = []
  bufSub : ∀ k ∈ p'.buffer, k ∈ p.buffer
  crashed : p'.crashed = p.crashed
  trace : ∃ added, p'.trace = p.trace ++ added ∧
    (if p'.done then ∃ pre ks, added = pre ++ [Disp.call ks true] ∧ NoExit pre else NoExit added)

theorem DispOK.refl (p : KP σ) (hd : p.done = false) : DispOK p p :=
  ⟨rfl, ⟨[], by simp, by simp⟩, fun _ => rfl, by simp [hd], fun _ h => h, rfl,
   ⟨[], by simp, by simp [hd, NoExit.nil]⟩⟩

/-- one pass through the `no match` branch -/
structure RetryOK (p p1 : KP σ) : Prop where
  cons : allKeys p1.trace ++ p1.buffer = allKeys p.trace ++ p.buffer
  queue : p1.queue = p.queue
  shorter : p1.buffer.length < p.buffer.length
  bufSub : ∀ k ∈ p1.buffer, k ∈ p.buffer
  crashed : p1.crashed = p.crashed
  trace : ∃ d, p1.trace = p.trace ++ [d] ∧ (p1.done = d.exited)

theorem retryStep_ok (T : Tbl σ) (p : KP σ) (hd : p.done = false) (hb : p.buffer ≠ []) :
    RetryOK p (retryStep T p) := by
  unfold retryStep
  cases hm : longestMatch T p.ed p.buffer p.buffer.length with
  | some i =>
    have hi := longestMatch_bounds T p.ed p.buffer _ i hm
    have hq := callHandler_queue T p (p.buffer.take i)
    have ht := callHandler_trace T p (p.buffer.take i)
    have hl := callHandler_live T p (p.buffer.take i) hd
    refine ⟨?_, hq.1, ?_, ?_, hl.2, ⟨_, ht, ?_⟩⟩
    · simp only [ht, allKeys_append, allKeys, Disp.keys, List.append_nil, List.append_assoc,
        List.take_append_drop]
    · simp only [List.length_drop]; omega
    · intro k hk; exact List.mem_of_mem_drop hk
    · simp [hl.1, Disp.exited]
  | none =>
    simp only []
    split
    · rename_i hbuf; exact absurd hbuf hb
    · rename_i k rest hbuf
      refine ⟨?_, rfl, by simp [hbuf], ?_, rfl, ⟨.drop k, rfl, ?_⟩⟩
      · simp [allKeys_append, allKeys, Disp.keys, hbuf]
      · intro x hx; rw [hbuf]; exact List.mem_cons_of_mem _ hx
      · simp [hd, Disp.exited]

theorem dispatchFuel_spec (T : Tbl σ) : ∀ (fuel : Nat) (flush : Bool) (p p' : KP σ),
    p.done = false → dispatchFuel T fuel flush p = some p' → DispOK p p' := by
  intro fuel
  induction fuel with
  | zero => intro flush p p' _ h; simp [dispatchFuel] at h
  | succ fuel ih =>
    intro flush p p' hd h
    simp only [dispatchFuel] at h
    generalize isPrefix T flush p = pre at h
    generalize hex : T.exact p.ed p.buffer = ex at h
    split at h
    · cases h; exact DispOK.refl p hd
    · rename_i hne
      have hb : p.buffer ≠ [] := by intro e; simp [e] at hne
      split at h
      · -- exact match
        have hq := callHandler_queue T p p.buffer
        have ht := callHandler_trace T p p.buffer
        have hl := callHandler_live T p p.buffer hd
        cases h
        refine ⟨?_, ⟨[], by simp [hq.1], by simp⟩, fun _ => hq.1, fun _ => rfl, by simp, hl.2, ?_⟩
        · simp [ht, hq.1, allKeys_append, allKeys, Disp.keys]
        · refine ⟨_, ht, ?_⟩
          simp only [hl.1]
          cases he : ((T.handler p.ed p.arg p.buffer).eff == Eff.exit)
          · simp only [Bool.false_eq_true, if_false]; intro d hd'; simp at hd'; subst hd'; rfl
          · simp only [if_true]; exact ⟨[], _, rfl, NoExit.nil⟩
      · split at h
        · -- no match: retry
          have r := retryStep_ok T p hd hb
          obtain ⟨d, htr, hdd⟩ := r.trace
          split at h
          · -- the handler ended the application: the rest of the buffer goes back to the queue
            rename_i hpush
            simp only [Bool.and_eq_true, Bool.not_eq_eq_eq_not, Bool.not_true] at hpush
            cases h
            refine ⟨?_, ⟨(retryStep T p).buffer, by simp [r.queue], r.bufSub⟩, ?_, fun _ => rfl,
              by simp, r.crashed, ?_⟩
            · simp only [qk_append, qk_map_some, List.append_nil]
              rw [← List.append_assoc, r.cons, r.queue]
            · intro hf; simp [hpush.2] at hf
            · refine ⟨[d], htr, ?_⟩
              have hde : d.exited = true := by rw [← hdd]; exact hpush.2
              simp only [hpush.2, if_true]
              cases d with
              | drop k => simp [Disp.exited] at hde
              | call ks e => simp [Disp.exited] at hde; subst hde; exact ⟨[], ks, rfl, NoExit.nil⟩
          · rename_i hnopush
            -- either the buffer is empty now, or no result is set: continue
            cases hd1 : (retryStep T p).done with
            | false =>
              have o := ih false _ p' hd1 h
              obtain ⟨b, hbq, hbm⟩ := o.queue
              obtain ⟨added, hadd, hshape⟩ := o.trace
              have hdn : d.exited = false := by rw [← hdd]; exact hd1
              refine ⟨?_, ⟨b, by rw [hbq, r.queue], fun k hk => r.bufSub k (hbm k hk)⟩, ?_, o.doneBuf,
                fun k hk => r.bufSub k (o.bufSub k hk), o.crashed.trans r.crashed, ?_⟩
              · rw [o.cons, r.cons, r.queue]
              · intro hf; rw [o.pushDone hf, r.queue]
              · refine ⟨d :: added, by rw [hadd, htr]; simp, ?_⟩
                have hd0 : NoExit [d] := by intro x hx; simp at hx; subst hx; exact hdn
                split
                · rename_i hp'
                  simp only [hp', if_true] at hshape
                  obtain ⟨pre, ks, e1, e2⟩ := hshape
                  exact ⟨d :: pre, ks, by simp [e1], hd0.append e2⟩
                · rename_i hp'
                  simp only [hp', Bool.false_eq_true, if_false] at hshape
                  exact hd0.append hshape
            | true =>
              -- result set and the buffer is empty: `_process` yields
              have hbe : (retryStep T p).buffer = [] := by
                cases hbb : (retryStep T p).buffer with
                | nil => rfl
                | cons x xs => simp [hbb, hd1] at hnopush
              have hp' : p' = retryStep T p := by
                cases fuel with
                | zero => simp [dispatchFuel] at h
                | succ f => simp [dispatchFuel, hbe] at h; exact h.symm
              subst hp'
              have hde : d.exited = true := by rw [← hdd]; exact hd1
              refine ⟨?_, ⟨[], by simp [r.queue], by simp⟩, fun _ => r.queue, fun _ => hbe,
                r.bufSub, r.crashed, ⟨[d], htr, ?_⟩⟩
              · rw [r.cons, r.queue]
              · simp only [hd1, if_true]
                cases d with
                | drop k => simp [Disp.exited] at hde
                | call ks e => simp [Disp.exited] at hde; subst hde; exact ⟨[], ks, rfl, NoExit.nil⟩
        · -- prefix of a longer match: wait for the next key
          cases h; exact DispOK.refl p hd

/-- the retry loop of `_process` always comes back to its `yield` -/
theorem dispatchFuel_total (T : Tbl σ) : ∀ (fuel : Nat) (flush : Bool) (p : KP σ),
    p.done = false → p.buffer.length < fuel → (dispatchFuel T fuel flush p).isSome = true := by
  intro fuel
  induction fuel with
  | zero => intro _ p _ h; omega
  | succ fuel ih =>
    intro flush p hd hlen
    simp only [dispatchFuel]
    generalize isPrefix T flush p = pre
    generalize T.exact p.ed p.buffer = ex
    split
    · rfl
    · rename_i hne
      have hb : p.buffer ≠ [] := by intro e; simp [e] at hne
      split
      · rfl
      · split
        · have r := retryStep_ok T p hd hb
          split
          · rfl
          · rename_i hnopush
            cases hd1 : (retryStep T p).done with
            | false => exact ih false _ hd1 (by have := r.shorter; omega)
            | true =>
              have hbe : (retryStep T p).buffer = [] := by
                cases hbb : (retryStep T p).buffer with
                | nil => rfl
                | cons x xs => simp [hbb, hd1] at hnopush
              cases fuel with
              | zero => have := r.shorter; omega
              | succ f => simp [dispatchFuel, hbe]
        · rfl

theorem dispatch_ok (T : Tbl σ) (flush : Bool) (p : KP σ) (hd : p.done = false) :
    DispOK p (dispatch T flush p) := by
  unfold dispatch
  have ht := dispatchFuel_total T (p.buffer.length + 1) flush p hd (by omega)
  cases h : dispatchFuel T (p.buffer.length + 1) flush p with
  | none => simp [h] at ht
  | some p' => simpa using dispatchFuel_spec T _ flush p p' hd h


/-! ### `process_keys` with the key buffer -/

/-- the CPR binding only reports to the renderer (key_binding/bindings/cpr.py): it never exits -/
def CprStay (T : Tbl σ) : Prop := ∀ ed, (T.handler ed none [.cpr]).eff = Eff.stay

def isCprCall (d : Disp) : Prop := d = Disp.call [.cpr] false

/-- nothing is dispatched after the call that ended the application, except CPR responses -/
def TraceShape (tr : List Disp) (done : Bool) : Prop :=
  if done then ∃ pre ks post, tr = pre ++ [Disp.call ks true] ++ post ∧ NoExit pre ∧ ∀ d ∈ post, isCprCall d
  else NoExit tr

structure KInv (p : KP σ) : Prop where
  bufNoCpr : NoCpr p.buffer
  doneBuf : p.done = true → p.buffer = []
  notCrashed : p.crashed = false
  shape : TraceShape p.trace p.done

/-- the keys (CPR responses removed) this key processor holds or has dispatched, in stream order -/
def dq (q : List QK) : List Key := dropCpr (qk q)

def held (p : KP σ) : List Key := dropCpr (allKeys p.trace) ++ p.buffer ++ dq p.queue

theorem dq_append (a b : List QK) : dq (a ++ b) = dq a ++ dq b := by
  simp [dq, qk_append, dropCpr_append]

theorem dq_map_some (b : List Key) : dq (b.map some) = dropCpr b := by simp [dq, qk_map_some]

theorem dq_removeFirst (q : List QK) : dq (removeFirstCprQ q) = dq q := by
  induction q with
  | nil => rfl
  | cons k q ih =>
    cases k with
    | none => simp [removeFirstCprQ, QK.isCpr, dq, qk] at ih ⊢; exact ih
    | some k =>
      cases hk : k.isCpr
      · simp only [removeFirstCprQ, QK.isCpr, hk, Bool.false_eq_true, if_false]
        simp only [dq, qk, dropCpr, hk, Bool.false_eq_true, if_false] at ih ⊢; rw [ih]
      · simp [removeFirstCprQ, QK.isCpr, hk, dq, qk, dropCpr]

theorem dq_dropCprQ (q : List QK) : dq (dropCprQ q) = dq q := by
  induction q with
  | nil => rfl
  | cons k q ih =>
    cases k with
    | none => simp [dropCprQ, QK.isCpr, dq, qk] at ih ⊢; exact ih
    | some k =>
      cases hk : k.isCpr
      · simp only [dropCprQ, QK.isCpr, hk, Bool.false_eq_true, if_false]
        simp only [dq, qk, dropCpr, hk, Bool.false_eq_true, if_false] at ih ⊢; rw [ih]
      · simp only [dropCprQ, QK.isCpr, hk, if_true]
        simp only [dq, qk, dropCpr, hk, if_true] at ih ⊢; exact ih

theorem noCpr_dropCpr_id {l : List Key} (h : NoCpr l) : dropCpr l = l :=
  dropCpr_of_count_zero l h

theorem noCpr_mem {b : List Key} (hb : NoCpr b) {k : Key} (hk : k ∈ b) : k.isCpr = false := by
  induction b with
  | nil => cases hk
  | cons x b ih =>
    cases hx : x.isCpr
    · have hb' : NoCpr b := by simpa [NoCpr, countCpr, hx] using hb
      rcases List.mem_cons.1 hk with rfl | hk
      · exact hx
      · exact ih hb' hk
    · simp [NoCpr, countCpr, hx] at hb

theorem noCpr_of_subset {a b : List Key} (hb : NoCpr b) (h : ∀ k ∈ a, k ∈ b) : NoCpr a := by
  induction a with
  | nil => rfl
  | cons k a ih =>
    have hk : k.isCpr = false := noCpr_mem hb (h k (List.mem_cons_self ..))
    have := ih (fun x hx => h x (List.mem_cons_of_mem _ hx))
    simp [NoCpr, countCpr, hk]; exact this

theorem processCpr_spec (T : Tbl σ) (hT : CprStay T) (p : KP σ) (h : KInv p) :
    KInv (processCpr T p) ∧ (processCpr T p).queue = p.queue ∧ (processCpr T p).buffer = p.buffer ∧
    (processCpr T p).done = p.done ∧ dropCpr (allKeys (processCpr T p).trace) = dropCpr (allKeys p.trace) ∧
    ∃ post, (processCpr T p).trace = p.trace ++ post ∧ ∀ d ∈ post, isCprCall d := by
  unfold processCpr
  split
  · have hs := hT p.ed
    generalize T.handler p.ed none [.cpr] = o at hs ⊢
    obtain ⟨ed', eff, a'⟩ := o
    simp only at hs; subst hs
    have hpost : ∀ d ∈ [Disp.call [Key.cpr] (Eff.stay == Eff.exit)], isCprCall d := by
      intro d hd; simp at hd; subst hd; rfl
    refine ⟨⟨h.bufNoCpr, h.doneBuf, h.notCrashed, ?_⟩, rfl, rfl, rfl, ?_, ⟨_, rfl, hpost⟩⟩
    · have hsh := h.shape
      unfold TraceShape at hsh ⊢
      simp only []
      split
      · rename_i hd; simp only [hd, if_true] at hsh
        obtain ⟨pre, ks, post, e, h1, h2⟩ := hsh
        refine ⟨pre, ks, post ++ [Disp.call [Key.cpr] (Eff.stay == Eff.exit)], by simp [e], h1, ?_⟩
        intro d hd'; rcases List.mem_append.1 hd' with hd' | hd'
        · exact h2 d hd'
        · exact hpost d hd'
      · rename_i hd; simp only [hd, Bool.false_eq_true, if_false] at hsh
        exact hsh.append (by intro d hd'; simp at hd'; subst hd'; rfl)
    · simp [allKeys_append, allKeys, Disp.keys, dropCpr_append, dropCpr, Key.isCpr]
  · exact ⟨h, rfl, rfl, rfl, rfl, ⟨[], by simp, by simp⟩⟩

/-- sending a key press (not a CPR response) or the flush marker while no result is set -/
theorem send_spec (T : Tbl σ) (p : KP σ) (k : QK) (h : KInv p) (hd : p.done = false)
    (hk : k.isCpr = false) :
    KInv (send T p k) ∧ held (send T p k) = dropCpr (allKeys p.trace) ++ p.buffer ++ dq (k :: p.queue) ∧
    (∃ b : List Key, (send T p k).queue = b.map some ++ p.queue ∧ NoCpr b) ∧
    ((send T p k).done = false → (send T p k).queue = p.queue) := by
  -- the state `_process` starts from
  obtain ⟨p0, hp0, hbuf0, hheld0⟩ : ∃ p0 : KP σ, send T p k = dispatch T (k.isNone) p0 ∧
      (p0.done = false ∧ p0.queue = p.queue ∧ p0.trace = p.trace ∧ p0.crashed = p.crashed ∧ NoCpr p0.buffer) ∧
      p0.buffer ++ dq p.queue = p.buffer ++ dq (k :: p.queue) := by
    cases k with
    | none => exact ⟨p, rfl, ⟨hd, rfl, rfl, rfl, h.bufNoCpr⟩, by simp [dq, qk]⟩
    | some key =>
      have hkey : key.isCpr = false := by simpa [QK.isCpr] using hk
      refine ⟨{ p with buffer := p.buffer ++ [key] }, rfl, ⟨hd, rfl, rfl, rfl, ?_⟩, ?_⟩
      · exact h.bufNoCpr.append (by simp [NoCpr, countCpr, hkey])
      · simp [dq, qk, dropCpr, hkey]
  obtain ⟨hd0, hq0, ht0, hc0, hn0⟩ := hbuf0
  have o := dispatch_ok T k.isNone p0 hd0
  rw [hp0]
  obtain ⟨b, hbq, hbm⟩ := o.queue
  obtain ⟨added, hadd, hshape⟩ := o.trace
  have hbn : NoCpr b := noCpr_of_subset hn0 hbm
  have hbufn : NoCpr (dispatch T k.isNone p0).buffer := noCpr_of_subset hn0 o.bufSub
  refine ⟨⟨hbufn, o.doneBuf, by rw [o.crashed, hc0]; exact h.notCrashed, ?_⟩, ?_,
    ⟨b, by rw [hbq, hq0], hbn⟩, fun hf => by rw [o.pushDone hf, hq0]⟩
  · -- trace shape
    have hsh := h.shape
    simp only [TraceShape, hd, Bool.false_eq_true, if_false] at hsh
    unfold TraceShape
    rw [hadd, ht0]
    split
    · rename_i hdn; simp only [hdn, if_true] at hshape
      obtain ⟨pre, ks, e1, e2⟩ := hshape
      exact ⟨p.trace ++ pre, ks, [], by simp [e1], hsh.append e2, by simp⟩
    · rename_i hdn; simp only [hdn, Bool.false_eq_true, if_false] at hshape
      exact hsh.append hshape
  · -- conservation
    have hc := congrArg dropCpr o.cons
    simp only [dropCpr_append, noCpr_dropCpr_id hbufn, noCpr_dropCpr_id hn0] at hc
    simp only [held, dq]
    rw [hc, ht0, hq0]
    simp only [List.append_assoc]
    congr 1


def cntQ : List QK → Nat
  | [] => 0
  | k :: q => if k.isCpr then cntQ q + 1 else cntQ q

theorem cntQ_le_length (q : List QK) : cntQ q ≤ q.length := by
  induction q with
  | nil => simp [cntQ]
  | cons k q ih => simp only [cntQ, List.length_cons]; split <;> omega

theorem hasCprQ_iff (q : List QK) : hasCprQ q = true ↔ 0 < cntQ q := by
  induction q with
  | nil => simp [hasCprQ, cntQ]
  | cons k q ih => cases h : k.isCpr <;> simp [hasCprQ, cntQ, h, ih]

theorem cntQ_removeFirst (q : List QK) (h : hasCprQ q = true) :
    cntQ (removeFirstCprQ q) + 1 = cntQ q := by
  induction q with
  | nil => simp [hasCprQ] at h
  | cons k q ih =>
    cases hk : k.isCpr
    · simp [hasCprQ, hk] at h; simp [removeFirstCprQ, cntQ, hk, ih h]
    · simp [removeFirstCprQ, cntQ, hk]

theorem cntQ_append (a b : List QK) : cntQ (a ++ b) = cntQ a + cntQ b := by
  induction a with
  | nil => simp [cntQ]
  | cons k a ih => simp only [List.cons_append, cntQ]; split <;> omega

theorem cntQ_map_some (b : List Key) : cntQ (b.map some) = countCpr b := by
  induction b with
  | nil => rfl
  | cons k b ih => simp [cntQ, countCpr, QK.isCpr, ih]

/-- iterations `process_keys` still needs -/
def todo (p : KP σ) : Nat := if p.done then cntQ p.queue else p.queue.length + 1

/-- relation between the states before and after one iteration of `process_keys` -/
structure IterOK (p p' : KP σ) : Prop where
  inv : KInv p'
  held : held p' = held p
  less : todo p' < todo p
  frozen : p.done = true → p'.done = true ∧ p'.buffer = p.buffer ∧
    ∃ post, p'.trace = p.trace ++ post ∧ ∀ d ∈ post, isCprCall d

theorem todo_lt_done {p p' : KP σ} (hd : p.done = true) (hd' : p'.done = true)
    (hq : cntQ p'.queue + 1 = cntQ p.queue) : todo p' < todo p := by
  simp only [todo, hd, hd', if_true]; omega

theorem todo_lt_live {p p' : KP σ} (hd : p.done = false) (hd' : p'.done = false)
    (hq : p'.queue.length < p.queue.length) : todo p' < todo p := by
  simp only [todo, hd, hd', Bool.false_eq_true, if_false]; omega

theorem todo_lt_exit {p p' : KP σ} (hd : p.done = false) (hd' : p'.done = true)
    (hq : cntQ p'.queue < p.queue.length + 1) : todo p' < todo p := by
  simp only [todo, hd, hd', Bool.false_eq_true, if_false, if_true]; omega

theorem kinv_queue (p : KP σ) (q : List QK) (h : KInv p) : KInv { p with queue := q } :=
  ⟨h.bufNoCpr, h.doneBuf, h.notCrashed, h.shape⟩

theorem procStep_ok (T : Tbl σ) (hT : CprStay T) (p p' : KP σ) (h : KInv p)
    (hs : procStep T p = some p') : IterOK p p' := by
  unfold procStep at hs
  split at hs
  · rename_i hne
    split at hs
    · -- result set: only CPR responses are taken
      rename_i hd
      cases hs
      have hcpr : hasCprQ p.queue = true := by simpa [notEmpty, hd] using hne
      obtain ⟨hi, hq, hb, hdn, htr, post, hpost, hall⟩ :=
        processCpr_spec T hT _ (kinv_queue p (removeFirstCprQ p.queue) h)
      refine ⟨hi, ?_, ?_, fun _ => ⟨by rw [hdn]; exact hd, hb, post, hpost, hall⟩⟩
      · simp only [held, htr, hb, hq, dq_removeFirst]
      · exact todo_lt_done hd (hdn.trans hd) (by rw [hq]; exact cntQ_removeFirst p.queue hcpr)
    · rename_i hd
      have hd' : p.done = false := by simpa using hd
      split at hs
      · cases hs
      · rename_i k q hq
        cases hs
        unfold deliver
        split
        · -- a CPR response at the head of the queue
          rename_i hk
          obtain ⟨hi, hq', hb, hdn, htr, _⟩ := processCpr_spec T hT _ (kinv_queue p q h)
          refine ⟨hi, ?_, ?_, fun hdt => by rw [hd'] at hdt; cases hdt⟩
          · simp only [held, htr, hb, hq', hq]
            cases k with
            | none => simp [QK.isCpr] at hk
            | some key => simp [QK.isCpr] at hk; simp [dq, qk, dropCpr, hk]
          · exact todo_lt_live hd' (hdn.trans hd') (by rw [hq', hq]; simp)
        · rename_i hk
          have hk' : k.isCpr = false := by simpa using hk
          obtain ⟨hi, hh, ⟨b, hbq, hbn⟩, hpush⟩ := send_spec T _ k (kinv_queue p q h) hd' hk'
          refine ⟨hi, by rw [hh]; simp [held, hq], ?_, fun hdt => by rw [hd'] at hdt; cases hdt⟩
          cases hdn : (send T { p with queue := q } k).done with
          | true =>
            refine todo_lt_exit hd' hdn ?_
            rw [hbq, hq]; simp only [cntQ_append, cntQ_map_some, List.length_cons]
            have : countCpr b = 0 := hbn
            have := cntQ_le_length q
            omega
          | false =>
            refine todo_lt_live hd' hdn ?_
            rw [hpush hdn, hq]; simp
  · cases hs

theorem iter_ok (T : Tbl σ) (hT : CprStay T) : ∀ (n : Nat) (p : KP σ), KInv p →
    KInv (iter T n p) ∧ held (iter T n p) = held p ∧
    (todo p ≤ n → procStep T (iter T n p) = none) ∧
    (p.done = true → (iter T n p).done = true ∧ (iter T n p).buffer = p.buffer ∧
      ∃ post, (iter T n p).trace = p.trace ++ post ∧ ∀ d ∈ post, isCprCall d) := by
  intro n
  induction n with
  | zero =>
    intro p h
    refine ⟨h, rfl, ?_, fun hd => ⟨hd, rfl, [], by simp [iter], by simp⟩⟩
    intro ht
    simp only [iter]
    cases hs : procStep T p with
    | none => rfl
    | some p' => have := (procStep_ok T hT p p' h hs).less; omega
  | succ n ih =>
    intro p h
    simp only [iter]
    cases hs : procStep T p with
    | none =>
      exact ⟨h, rfl, fun _ => hs, fun hd => ⟨hd, rfl, [], by simp, by simp⟩⟩
    | some p' =>
      have o := procStep_ok T hT p p' h hs
      obtain ⟨i1, i2, i3, i4⟩ := ih p' o.inv
      refine ⟨i1, i2.trans o.held, fun ht => i3 (by have := o.less; omega), ?_⟩
      intro hd
      obtain ⟨f1, f2, post, f3, f4⟩ := o.frozen hd
      obtain ⟨g1, g2, post', g3, g4⟩ := i4 f1
      refine ⟨g1, g2.trans f2, post ++ post', by rw [g3, f3]; simp, ?_⟩
      intro d hd'; rcases List.mem_append.1 hd' with hd' | hd'
      · exact f4 d hd'
      · exact g4 d hd'

theorem todo_le (p : KP σ) : todo p ≤ p.queue.length + 1 := by
  unfold todo; split
  · have := cntQ_le_length p.queue; omega
  · omega

/-- `process_keys` terminates with its loop condition false, keeps the invariant and the keys -/
theorem processKeys_ok (T : Tbl σ) (hT : CprStay T) (p : KP σ) (h : KInv p) :
    KInv (processKeys T p) ∧ held (processKeys T p) = held p ∧
    procStep T (processKeys T p) = none ∧
    (p.done = true → (processKeys T p).done = true ∧ (processKeys T p).buffer = p.buffer ∧
      ∃ post, (processKeys T p).trace = p.trace ++ post ∧ ∀ d ∈ post, isCprCall d) := by
  obtain ⟨a, b, c, d⟩ := iter_ok T hT (p.queue.length + 1) p h
  exact ⟨a, b, c (todo_le p), d⟩

/-- after `process_keys`: without result the queue is empty; with result no CPR response is left -/
theorem drained_of_stable (T : Tbl σ) (p : KP σ) (h : procStep T p = none) :
    (p.done = false → p.queue = []) ∧ (p.done = true → hasCprQ p.queue = false) := by
  unfold procStep at h
  constructor
  · intro hd
    cases hq : p.queue with
    | nil => rfl
    | cons k q => simp [notEmpty, hd, hq] at h
  · intro hd
    cases hc : hasCprQ p.queue with
    | false => rfl
    | true => simp [notEmpty, hd, hc] at h


/-! ### the reachable states of the whole system -/
def resKeys : List (List Disp × σ) → List Key
  | [] => []
  | r :: rs => dropCpr (allKeys r.1) ++ resKeys rs

theorem resKeys_append (a b : List (List Disp × σ)) : resKeys (a ++ b) = resKeys a ++ resKeys b := by
  induction a with
  | nil => rfl
  | cons r a ih => simp [resKeys, ih]

structure Inv (T : Tbl σ) (s : St σ) (w : List Key) : Prop where
  /-- conservation: dispatched keys ++ stored type-ahead ++ key buffer/queue ++ unread pipe = typed keys -/
  cons : resKeys s.results ++ dq s.typeahead ++ held s.kp ++ dropCpr s.pipe = dropCpr w
  kinv : KInv s.kp
  stable : procStep T s.kp = none
  idle : s.running = false →
    s.kp.queue = [] ∧ s.kp.buffer = [] ∧ s.kp.trace = [] ∧ s.kp.done = false
  taEmpty : s.running = true → s.typeahead = []
  results : ∀ r ∈ s.results, TraceShape r.1 true

theorem kinv_fresh (q : List QK) (ed : σ) : KInv (KP.fresh q ed) :=
  ⟨rfl, fun _ => rfl, rfl, by simp [TraceShape, KP.fresh, NoExit.nil]⟩

theorem inv_init (T : Tbl σ) (ed : σ) : Inv T (St.init ed) [] :=
  ⟨rfl, kinv_fresh [] ed, by simp [St.init, KP.fresh, procStep, notEmpty],
   fun _ => ⟨rfl, rfl, rfl, rfl⟩, fun h => by simp [St.init] at h, by intro r h; cases h⟩

def evWritten : Ev → List Key
  | .write c => c
  | _ => []

theorem held_fresh (q : List QK) (ed : σ) : held (KP.fresh q ed) = dq q := by
  simp [held, KP.fresh, allKeys, dropCpr]

theorem inv_step (T : Tbl σ) (hT : CprStay T) {s : St σ} {w : List Key} (h : Inv T s w) (e : Ev) :
    Inv T (step T s e) (w ++ evWritten e) := by
  cases e with
  | write c =>
    refine ⟨?_, h.kinv, h.stable, h.idle, h.taEmpty, h.results⟩
    simp only [step, evWritten, dropCpr_append, ← h.cons]; simp
  | start =>
    simp only [step, evWritten, List.append_nil]
    cases hr : s.running with
    | true => simpa [hr] using h
    | false =>
      simp only [Bool.false_eq_true, if_false]
      obtain ⟨hq, hb, ht, hd⟩ := h.idle hr
      obtain ⟨k1, k2, k3, _⟩ := processKeys_ok T hT (KP.fresh s.typeahead (T.reset s.kp.ed))
        (kinv_fresh _ _)
      refine ⟨?_, k1, k3, by simp, by simp, h.results⟩
      rw [k2, held_fresh, ← h.cons]
      simp [held, hq, hb, ht, allKeys, dropCpr, dq, qk]
  | read n =>
    simp only [step, evWritten, List.append_nil]
    cases hr : s.running with
    | false => simpa [hr] using h
    | true =>
      simp only [Bool.not_true, Bool.false_eq_true, if_false]
      obtain ⟨k1, k2, k3, _⟩ := processKeys_ok T hT
        { s.kp with queue := s.kp.queue ++ (s.pipe.take n).map some } (kinv_queue _ _ h.kinv)
      refine ⟨?_, k1, k3, by simp, by intro _; exact h.taEmpty hr, h.results⟩
      rw [k2, ← h.cons]
      have : dropCpr s.pipe = dropCpr (s.pipe.take n) ++ dropCpr (s.pipe.drop n) := by
        rw [← dropCpr_append, List.take_append_drop]
      have e : held { s.kp with queue := s.kp.queue ++ (s.pipe.take n).map some } =
          held s.kp ++ dropCpr (s.pipe.take n) := by
        simp only [held, dq_append, dq_map_some, List.append_assoc]
      rw [e, this]; simp only [List.append_assoc]
  | timeout =>
    simp only [step, evWritten, List.append_nil]
    split
    · exact h
    · rename_i hc
      obtain ⟨k1, k2, k3, _⟩ := processKeys_ok T hT
        { s.kp with queue := s.kp.queue ++ [none] } (kinv_queue _ _ h.kinv)
      have hr : s.running = true := by
        cases hr : s.running with
        | true => rfl
        | false => rw [hr] at hc; simp at hc
      refine ⟨?_, k1, k3, by simp [hr], h.taEmpty, h.results⟩
      rw [k2, ← h.cons]
      have e : held { s.kp with queue := s.kp.queue ++ [none] } = held s.kp := by
        simp [held, dq, qk_append, qk]
      rw [e]
  | finish =>
    simp only [step, evWritten, List.append_nil]
    split
    · rename_i hc
      simp only [Bool.and_eq_true] at hc
      have hta := h.taEmpty hc.1
      have hbuf := h.kinv.doneBuf hc.2
      refine ⟨?_, ⟨h.kinv.bufNoCpr, by simp, h.kinv.notCrashed, by simp [TraceShape, NoExit.nil]⟩,
        by simp [procStep, notEmpty], fun _ => ⟨rfl, hbuf, rfl, rfl⟩, by simp, ?_⟩
      · rw [← h.cons, hta]
        have e := dq_dropCprQ s.kp.queue
        simp only [dq] at e
        simp [resKeys_append, resKeys, held, hbuf, allKeys, dropCpr, dq, qk, e]
      · intro r hrm
        rcases List.mem_append.1 hrm with hrm | hrm
        · exact h.results r hrm
        · simp at hrm; subst hrm
          have := h.kinv.shape; rwa [hc.2] at this
    · exact h

theorem run_written_eq (evs : List Ev) : written evs = (evs.map evWritten).flatten := by
  induction evs with
  | nil => rfl
  | cons e es ih => cases e <;> simp [written, evWritten, ih]

theorem inv_run (T : Tbl σ) (hT : CprStay T) {s : St σ} {w : List Key} (h : Inv T s w)
    (evs : List Ev) : Inv T (run T s evs) (w ++ written evs) := by
  induction evs generalizing s w with
  | nil => simpa [run, written] using h
  | cons e es ih =>
    have := ih (inv_step T hT h e)
    simp only [run]
    have hw : w ++ written (e :: es) = w ++ evWritten e ++ written es := by
      cases e <;> simp [written, evWritten]
    rw [hw]; exact this


/-! ## Property theorems of the second layer (every binding registry `T` whose CPR binding does
    not exit, every initial handler state, every schedule incl. the flush timer) -/

theorem reachable_inv (T : Tbl σ) (hT : CprStay T) (ed : σ) (evs : List Ev) :
    Inv T (run T (St.init ed) evs) (written evs) := by
  simpa using inv_run T hT (inv_init T ed) evs

/-- **No key is lost or duplicated, with multi-key bindings, prefix waiting, retries and the
    flush timer**: keys dispatched to finished prompts ++ stored type-ahead ++ (keys dispatched to
    the current prompt ++ key buffer ++ input queue) ++ unread pipe = typed keys (CPR removed). -/
theorem no_loss_no_dup_buf (T : Tbl σ) (hT : CprStay T) (ed : σ) (evs : List Ev) :
    ∀ s, s = run T (St.init ed) evs →
    resKeys s.results ++ dq s.typeahead ++
      (dropCpr (allKeys s.kp.trace) ++ s.kp.buffer ++ dq s.kp.queue) ++ dropCpr s.pipe
      = dropCpr (written evs) := by
  intro s hs; exact hs ▸ (reachable_inv T hT ed evs).cons

/-- **Nothing is dispatched to a finished prompt**: in the dispatch trace of the current and of
    every finished application, the call that ended the application is followed by CPR responses
    only (this is what c3d528b repaired: the rest of the key buffer used to be dispatched). -/
theorem nothing_dispatched_after_exit (T : Tbl σ) (hT : CprStay T) (ed : σ) (evs : List Ev) :
    ∀ s, s = run T (St.init ed) evs →
    TraceShape s.kp.trace s.kp.done ∧ ∀ r ∈ s.results, TraceShape r.1 true := by
  intro s hs
  have h := hs ▸ reachable_inv T hT ed evs
  exact ⟨h.kinv.shape, h.results⟩

/-- `app.exit()` is never called twice ("Return value already set") -/
theorem never_double_exit (T : Tbl σ) (hT : CprStay T) (ed : σ) (evs : List Ev) :
    (run T (St.init ed) evs).kp.crashed = false :=
  (reachable_inv T hT ed evs).kinv.notCrashed

/-- **`reset()` at the next start drops nothing**: once the result is set the key buffer is empty
    (what was in it went back to the front of the queue and becomes type-ahead), and between two
    prompts key buffer and queue are empty. -/
theorem key_buffer_empty_when_done (T : Tbl σ) (hT : CprStay T) (ed : σ) (evs : List Ev) :
    ∀ s, s = run T (St.init ed) evs →
    (s.kp.done = true → s.kp.buffer = []) ∧
    (s.running = false → s.kp.buffer = [] ∧ s.kp.queue = []) ∧
    NoCpr s.kp.buffer := by
  intro s hs
  have h := hs ▸ reachable_inv T hT ed evs
  exact ⟨h.kinv.doneBuf, fun hr => ⟨(h.idle hr).2.1, (h.idle hr).1⟩, h.kinv.bufNoCpr⟩

/-- while a prompt waits for its result every key that was read has been sent to `_process`
    (the queue is empty), and `process_keys` always ends with its loop condition false -/
theorem no_key_stuck_buf (T : Tbl σ) (hT : CprStay T) (ed : σ) (evs : List Ev) :
    ∀ s, s = run T (St.init ed) evs →
    procStep T s.kp = none ∧ (s.kp.done = false → s.kp.queue = []) ∧
    (s.kp.done = true → hasCprQ s.kp.queue = false) := by
  intro s hs
  have h := hs ▸ reachable_inv T hT ed evs
  exact ⟨h.stable, (drained_of_stable T s.kp h.stable).1, (drained_of_stable T s.kp h.stable).2⟩

theorem step_read_running (T : Tbl σ) (s : St σ) (n : Nat) (hr : s.running = true) :
    step T s (.read n) =
      { s with
        pipe := s.pipe.drop n
        kp := processKeys T { s.kp with queue := s.kp.queue ++ (s.pipe.take n).map some } } := by
  simp [step, hr]

/-- **The accepted prompt is frozen**: once the result is set, no event except the end of the
    application dispatches anything but CPR responses; the result, the finished prompts and the
    (empty) key buffer stay as they are — also when the flush timer fires. -/
theorem accepted_prompt_frozen_buf (T : Tbl σ) (hT : CprStay T) {s : St σ} {w : List Key}
    (h : Inv T s w) (hr : s.running = true) (hd : s.kp.done = true) (e : Ev) (he : e ≠ .finish) :
    (step T s e).kp.done = true ∧ (step T s e).results = s.results ∧
    (step T s e).running = true ∧ (step T s e).kp.buffer = [] ∧
    ∃ post, (step T s e).kp.trace = s.kp.trace ++ post ∧ ∀ d ∈ post, isCprCall d := by
  have hb := h.kinv.doneBuf hd
  cases e with
  | finish => exact absurd rfl he
  | write c => exact ⟨hd, rfl, hr, hb, [], by simp [step], by simp⟩
  | start =>
    have e : step T s .start = s := by simp [step, hr]
    rw [e]; exact ⟨hd, rfl, hr, hb, [], by simp, by simp⟩
  | timeout =>
    have e : step T s .timeout = s := by simp [step, hb]
    rw [e]; exact ⟨hd, rfl, hr, hb, [], by simp, by simp⟩
  | read n =>
    rw [step_read_running T s n hr]
    obtain ⟨_, _, _, k4⟩ := processKeys_ok T hT
      { s.kp with queue := s.kp.queue ++ (s.pipe.take n).map some } (kinv_queue _ _ h.kinv)
    obtain ⟨f1, f2, post, f3, f4⟩ := k4 hd
    exact ⟨f1, rfl, hr, f2.trans hb, post, f3, f4⟩

/-- the retry loop of `_process` always returns to its `yield` (for every registry) -/
theorem dispatch_total (T : Tbl σ) (flush : Bool) (p : KP σ) (hd : p.done = false) :
    (dispatchFuel T (p.buffer.length + 1) flush p).isSome = true :=
  dispatchFuel_total T _ flush p hd (by omega)

/-- `process_keys` terminates with its loop condition false -/
theorem processKeys_stable (T : Tbl σ) (hT : CprStay T) (p : KP σ) (h : KInv p) :
    procStep T (processKeys T p) = none := (processKeys_ok T hT p h).2.2.1

/-! ### the concrete registry of the correspondence satisfies the hypothesis, and the model shows
    the behaviours the theorems talk about -/
theorem emacs_cprStay : CprStay Emacs.tbl := by intro ed; rfl

section examples
open Emacs

def ed0 : S := ⟨⟨[], 0⟩, false, false⟩
def k (c : Char) : Key := .other c.toNat
def cSpace : Key := .other kCtrlAt
def cX : Key := .other kCtrlX
def esc : Key := .other kEsc

/-- `a C-Space C-c Enter b`: c-c waits (c-c > exists while a selection is active); Enter forces the
    retry, the abort handler ends the prompt, and Enter goes back to the queue (c3d528b) -/
def ex1 : List Ev := [.start, .write [k 'a', cSpace, .abort, .accept, k 'b'], .read 3]

example : (run tbl (St.init ed0) ex1).kp.buffer = [.abort] := by decide
example : (run tbl (St.init ed0) (ex1 ++ [.read 1])).kp.done = true ∧
    (run tbl (St.init ed0) (ex1 ++ [.read 1])).kp.queue = [some .accept] ∧
    (run tbl (St.init ed0) (ex1 ++ [.read 1])).kp.buffer = [] := by decide
-- … and Enter is the type-ahead that immediately accepts the (empty) next prompt, `b` stays
example : ((run tbl (St.init ed0) (ex1 ++ [.read 2, .finish, .start])).results.map (·.1)) =
    [[.call [k 'a'] false, .call [cSpace] false, .call [.abort] true]] ∧
    (run tbl (St.init ed0) (ex1 ++ [.read 2, .finish, .start])).kp.trace = [.call [.accept] true] ∧
    (run tbl (St.init ed0) (ex1 ++ [.read 2, .finish, .start])).kp.queue = [some (k 'b')] := by decide
-- the flush timer fires the pending c-c
example : (run tbl (St.init ed0) (ex1 ++ [.timeout])).kp.done = true ∧
    (run tbl (St.init ed0) (ex1 ++ [.timeout])).kp.queue = [] := by decide
-- a CPR response between c-x and c-x does not break the sequence (it bypasses the key buffer)
example : (run tbl (St.init ed0)
    [.start, .write [k 'a', cX, .cpr, cX, k 'b', .accept], .read 9]).kp.trace =
    [.call [k 'a'] false, .call [.cpr] false, .call [cX, cX] false, .call [k 'b'] false,
     .call [.accept] true] := by decide
-- c-x followed by a key without binding: c-x gets its own (ignore) handler, then the key
example : (run tbl (St.init ed0) [.start, .write [cX, k 'q'], .read 9]).kp.trace =
    [.call [cX] false, .call [k 'q'] false] := by decide
-- escape Enter: a two-key binding that accepts
example : (run tbl (St.init ed0) [.start, .write [esc, .accept, k 'z'], .read 9]).kp.trace =
    [.call [esc, .accept] true] ∧
    (run tbl (St.init ed0) [.start, .write [esc, .accept, k 'z'], .read 9]).kp.queue = [some (k 'z')] := by
  decide

/-! ### why the push-back matters: `_process` as it was before c3d528b (the retry loop went on
    dispatching the rest of the key buffer to the finished application) violates the theorems -/
def dispatchFuelOld (T : Tbl σ) : Nat → Bool → KP σ → Option (KP σ)
  | 0, _, _ => none
  | fuel + 1, flush, p =>
    if p.buffer.isEmpty then some p else
    let ex := T.exact p.ed p.buffer
    let pre := isPrefix T flush p
    if !pre && ex then some { callHandler T p p.buffer with buffer := [] }
    else if !pre && !ex then dispatchFuelOld T fuel false (retryStep T p)
    else some p

/-- `a C-Space C-c Enter`, old code: Enter is dispatched to the prompt that c-c just aborted and
    `app.exit()` is called a second time ("Return value already set") -/
theorem old_code_dispatches_after_exit :
    ∃ p', dispatchFuelOld Emacs.tbl 3 false
        ⟨[], [.abort, .accept], false, false, [], ⟨⟨['a'], 1⟩, true, false⟩, none, []⟩ = some p' ∧
      p'.crashed = true ∧
      p'.trace = [.call [.abort] true, .call [.accept] true] := by
  refine ⟨_, rfl, ?_, ?_⟩ <;> decide

/-- the same input, current code: Enter goes back to the queue -/
example : (dispatch Emacs.tbl false
      ⟨[], [.abort, .accept], false, false, [], ⟨⟨['a'], 1⟩, true, false⟩, none, []⟩).crashed = false ∧
    (dispatch Emacs.tbl false
      ⟨[], [.abort, .accept], false, false, [], ⟨⟨['a'], 1⟩, true, false⟩, none, []⟩).queue = [some .accept] ∧
    (dispatch Emacs.tbl false
      ⟨[], [.abort, .accept], false, false, [], ⟨⟨['a'], 1⟩, true, false⟩, none, []⟩).trace = [.call [.abort] true] := by
  decide

end examples

/-! ### a CPR response is invisible to the keys typed around it -/

/-- the CPR binding only talks to the renderer: handler-visible state, result and numeric argument
    are left alone (key_binding/bindings/cpr.py) -/
def CprInert (T : Tbl σ) : Prop :=
  ∀ ed, T.exact ed [.cpr] = true → T.handler ed none [.cpr] = ⟨ed, Eff.stay, none⟩

/-- everything in the key processor except the dispatch trace -/
def KP.sameCore (p p' : KP σ) : Prop :=
  p'.queue = p.queue ∧ p'.buffer = p.buffer ∧ p'.done = p.done ∧ p'.crashed = p.crashed ∧
  p'.ed = p.ed ∧ p'.arg = p.arg ∧ p'.prev = p.prev

theorem KP.sameCore.refl (p : KP σ) : p.sameCore p := ⟨rfl, rfl, rfl, rfl, rfl, rfl, rfl⟩
theorem KP.sameCore.trans {a b c : KP σ} (h1 : a.sameCore b) (h2 : b.sameCore c) : a.sameCore c := by
  obtain ⟨a1, a2, a3, a4, a5, a6, a7⟩ := h1
  obtain ⟨b1, b2, b3, b4, b5, b6, b7⟩ := h2
  exact ⟨b1.trans a1, b2.trans a2, b3.trans a3, b4.trans a4, b5.trans a5, b6.trans a6, b7.trans a7⟩

/-- **A CPR response leaves the pending numeric argument alone** — and the key buffer, the
    previous key sequence (`is_repeat`), the handler-visible state and the result: only the
    dispatch trace records it. -/
theorem cpr_leaves_arg_alone (T : Tbl σ) (hT : CprInert T) (p : KP σ) :
    p.sameCore (processCpr T p) := by
  unfold processCpr
  split
  · rename_i hx
    rw [hT p.ed hx]
    exact ⟨rfl, rfl, rfl, rfl, rfl, rfl, rfl⟩
  · exact KP.sameCore.refl p

/-- two key processors that differ in the dispatch trace only -/
theorem sameCore_iff (p p' : KP σ) : p.sameCore p' ↔ ∃ t, p' = { p with trace := t } := by
  constructor
  · intro h
    obtain ⟨q, b, d, c, t, e, a, pv⟩ := p
    obtain ⟨q', b', d', c', t', e', a', pv'⟩ := p'
    obtain ⟨h1, h2, h3, h4, h5, h6, h7⟩ := h
    simp only at h1 h2 h3 h4 h5 h6 h7
    subst h1 h2 h3 h4 h5 h6 h7
    exact ⟨t', rfl⟩
  · rintro ⟨t, rfl⟩; exact ⟨rfl, rfl, rfl, rfl, rfl, rfl, rfl⟩

theorem callHandler_core (T : Tbl σ) {p p' : KP σ} (h : p.sameCore p') (ks : List Key) :
    (callHandler T p ks).sameCore (callHandler T p' ks) := by
  obtain ⟨t, rfl⟩ := (sameCore_iff p p').1 h
  unfold callHandler
  simp only []
  generalize T.handler p.ed p.arg ks = o
  obtain ⟨ed', eff, a'⟩ := o
  cases eff
  · exact ⟨rfl, rfl, rfl, rfl, rfl, rfl, rfl⟩
  · simp only []
    split <;> exact ⟨rfl, rfl, rfl, rfl, rfl, rfl, rfl⟩

theorem retryStep_core (T : Tbl σ) {p p' : KP σ} (h : p.sameCore p') :
    (retryStep T p).sameCore (retryStep T p') := by
  obtain ⟨t, rfl⟩ := (sameCore_iff p p').1 h
  unfold retryStep
  simp only []
  split
  · rename_i i _
    obtain ⟨c1, c2, c3, c4, c5, c6, c7⟩ := callHandler_core T h (p.buffer.take i)
    exact ⟨c1, rfl, c3, c4, c5, c6, c7⟩
  · split
    · exact h
    · exact ⟨rfl, rfl, rfl, rfl, rfl, rfl, rfl⟩

/-- `_process` does not look at what was dispatched before -/
theorem dispatchFuel_core (T : Tbl σ) : ∀ (fuel : Nat) (flush : Bool) (p p' : KP σ), p.sameCore p' →
    ((dispatchFuel T fuel flush p).isSome = (dispatchFuel T fuel flush p').isSome) ∧
    ∀ r r', dispatchFuel T fuel flush p = some r → dispatchFuel T fuel flush p' = some r' →
      r.sameCore r' := by
  intro fuel
  induction fuel with
  | zero => intro _ p p' _; simp [dispatchFuel]
  | succ fuel ih =>
    intro flush p p' h
    obtain ⟨t, rfl⟩ := (sameCore_iff p p').1 h
    simp only [dispatchFuel]
    have hpre : isPrefix T flush { p with trace := t } = isPrefix T flush p := rfl
    rw [hpre]
    generalize isPrefix T flush p = pre
    generalize T.exact p.ed p.buffer = ex
    by_cases hb : p.buffer.isEmpty = true
    · simp only [hb, if_true]
      exact ⟨rfl, fun r r' e e' => by cases e; cases e'; exact h⟩
    · simp only [hb, if_false]
      by_cases h1 : (!pre && ex) = true
      · simp only [h1, if_true]
        refine ⟨rfl, fun r r' e e' => ?_⟩
        cases e; cases e'
        obtain ⟨c1, c2, c3, c4, c5, c6, c7⟩ := callHandler_core T h p.buffer
        exact ⟨c1, rfl, c3, c4, c5, c6, c7⟩
      · simp only [h1, if_false]
        by_cases h2 : (!pre && !ex) = true
        · simp only [h2, if_true]
          have r := retryStep_core T h
          obtain ⟨r1, r2, r3, r4, r5, r6, r7⟩ := r
          simp only [r2, r3]
          by_cases h3 : (!(retryStep T p).buffer.isEmpty && (retryStep T p).done) = true
          · simp only [h3, if_true]
            refine ⟨rfl, fun x x' e e' => ?_⟩
            cases e; cases e'
            exact ⟨by simp [r1], rfl, rfl, r4, r5, r6, r7⟩
          · simp only [h3, if_false]
            exact ih false _ _ (retryStep_core T h)
        · simp only [h2, if_false]
          exact ⟨rfl, fun r r' e e' => by cases e; cases e'; exact h⟩

theorem dispatch_core (T : Tbl σ) (flush : Bool) {p p' : KP σ} (h : p.sameCore p') :
    (dispatch T flush p).sameCore (dispatch T flush p') := by
  unfold dispatch
  obtain ⟨hs, hr⟩ := dispatchFuel_core T (p.buffer.length + 1) flush p p' h
  rw [h.2.1]
  cases e : dispatchFuel T (p.buffer.length + 1) flush p with
  | none =>
    rw [e] at hs
    cases e' : dispatchFuel T (p.buffer.length + 1) flush p' with
    | none => simpa using h
    | some r' => rw [e'] at hs; simp at hs
  | some r =>
    rw [e] at hs
    cases e' : dispatchFuel T (p.buffer.length + 1) flush p' with
    | none => rw [e'] at hs; simp at hs
    | some r' => simpa using hr r r' e e'

theorem send_core (T : Tbl σ) {p p' : KP σ} (h : p.sameCore p') (k : QK) :
    (send T p k).sameCore (send T p' k) := by
  obtain ⟨t, rfl⟩ := (sameCore_iff p p').1 h
  cases k with
  | none => exact dispatch_core T true h
  | some key => exact dispatch_core T false ⟨rfl, rfl, rfl, rfl, rfl, rfl, rfl⟩

/-- **What a key does is the same with and without a CPR response in front of it** (numeric
    argument, key buffer, `is_repeat` information and editor state included): this is the
    statement that the seeded change `if is_cpr and self.key_buffer:` violates. -/
theorem key_after_cpr_same_as_without (T : Tbl σ) (hT : CprInert T) (p : KP σ) (k : QK) :
    (send T p k).sameCore (send T (processCpr T p) k) :=
  send_core T (cpr_leaves_arg_alone T hT p) k

theorem emacs_cprInert : CprInert Emacs.tbl := by
  intro ed _; cases ed; simp [Emacs.tbl, Emacs.tblV, Emacs.handlerV, Emacs.handlerCore]

-- `a escape-3 CPR x`: the argument survives the CPR response and `x` is inserted three times
example : (run Emacs.tbl (St.init ⟨⟨[], 0⟩, false, false⟩)
    [.start, .write [.other 97, .other Emacs.kEsc, .other 51, .cpr, .other 120, .accept], .read 9]).kp.ed.e.text
    = ['a', 'x', 'x', 'x'] := by decide
example : (run Emacs.tbl (St.init ⟨⟨[], 0⟩, false, false⟩)
    [.start, .write [.other 97, .other Emacs.kEsc, .other 51, .cpr], .read 9]).kp.arg = some 3 := by decide


/-! ### validators that reject the line, and handlers that exit with an exception (c-c, c-d)

  Nothing in the theorems above depends on WHICH handler calls end the application: the registry
  decides, call by call and depending on its state, whether a handler returns or calls `app.exit`.
  An Enter that the validator rejects is a handler call that returns: it is no boundary. -/

/-- a handler call that returns (a rejected Enter, for instance) leaves the application running
    exactly as it was: not done, not crashed, the key sequence recorded as dispatched-without-exit -/
theorem returning_call_is_no_boundary (T : Tbl σ) (p : KP σ) (ks : List Key)
    (h : (T.handler p.ed p.arg ks).eff = Eff.stay) :
    (callHandler T p ks).done = p.done ∧ (callHandler T p ks).crashed = p.crashed ∧
    (callHandler T p ks).queue = p.queue ∧
    (callHandler T p ks).trace = p.trace ++ [.call ks false] := by
  simp [callHandler, h]

/-- **A prompt ends only at a handler call that exits**: in every reachable state, the dispatch trace
    of every finished prompt is `calls that returned ++ [the ONE call that exited] ++ CPR responses`,
    and the current prompt, while it has no result, has seen returning calls only.  So with a
    validator that rejects, the keys after the rejected Enter keep editing the SAME prompt, and the
    keys after an exiting c-c / c-d / accepted Enter go to the NEXT one (conservation:
    `no_loss_no_dup_buf`). -/
theorem prompt_ends_only_at_exiting_call (T : Tbl σ) (hT : CprStay T) (ed : σ) (evs : List Ev) :
    ∀ s, s = run T (St.init ed) evs →
    (∀ r ∈ s.results, ∃ pre ks post, r.1 = pre ++ [Disp.call ks true] ++ post ∧ NoExit pre ∧
      ∀ d ∈ post, isCprCall d) ∧
    (s.kp.done = false → NoExit s.kp.trace) := by
  intro s hs
  obtain ⟨h1, h2⟩ := nothing_dispatched_after_exit T hT ed evs s hs
  refine ⟨fun r hr => by simpa [TraceShape] using h2 r hr, fun hd => ?_⟩
  simpa [TraceShape, hd] using h1

theorem emacsV_cprStay (v : Nat) : CprStay (Emacs.tblV v) := by intro ed; rfl
theorem emacsV_cprInert (v : Nat) : CprInert (Emacs.tblV v) := by
  intro ed _; cases ed; simp [Emacs.tblV, Emacs.handlerV, Emacs.handlerCore]

section examplesV
open Emacs

-- validator 1 (text must not be empty): the first Enter is rejected and is no boundary, `a Enter`
-- is accepted, `b` is type-ahead
example : (run (tblV 1) (St.init ed0) [.start, .write [.accept, k 'a', .accept, k 'b'], .read 9]).kp.trace =
    [.call [.accept] false, .call [k 'a'] false, .call [.accept] true] ∧
    (run (tblV 1) (St.init ed0) [.start, .write [.accept, k 'a', .accept, k 'b'], .read 9]).kp.queue =
      [some (k 'b')] := by decide
-- validator 2 (no `x`, error position = end): `a x Enter` is rejected, Backspace repairs it
example : (run (tblV 2) (St.init ed0)
    [.start, .write [k 'a', k 'x', .accept, .other Ed.kBackspace, .accept], .read 9, .finish]).results.map
      (fun r => r.2.e.text) = [['a']] := by decide
-- c-d on an empty buffer ends the prompt (EOFError), on a non-empty buffer it deletes
example : (run tbl (St.init ed0) [.start, .write [.other Ed.kCtrlD, k 'z'], .read 9]).kp.trace =
    [.call [.other Ed.kCtrlD] true] ∧
    (run tbl (St.init ed0) [.start, .write [.other Ed.kCtrlD, k 'z'], .read 9]).kp.queue = [some (k 'z')] := by
  decide
example : (run tbl (St.init ed0)
    [.start, .write [k 'a', k 'b', .other Ed.kCtrlA, .other Ed.kCtrlD, .accept], .read 9]).kp.ed.e.text = ['b'] := by
  decide

end examplesV


end Ptk.C17.Buf
