/-
  Cross-model agreement, cluster "KeyProcessor and key bindings".

  Part 2 — the key processor with its key buffer: C17 (second layer, `Ptk.C17.Buf`) vs the
  canonical C04 (`Ptk.C04`, generic in an `Iface`).

  src/prompt_toolkit/key_binding/key_processor.py: `KeyProcessor._process` (`_get_matches`,
  `_is_prefix_of_longer_match`, exact / wait / longest-prefix retry / drop, keys pushed back when
  the application is done), `_call_handler`, `_process_cpr_response`, `process_keys`
  (`not_empty`, `get_next`), `reset`, `empty_queue`, `feed`, `feed_multiple`.

  C17's registry `Tbl σ` (`exact`, `longer`, `handler`, state dependent) is turned into an
  interface `iface T enc : C04.Iface (Wd σ)`:
    * `get_bindings_for_keys(keys)` = one always-active, non-eager binding when `T.exact`;
    * `get_bindings_starting_with_keys(keys)` = one active binding when `T.longer`;
    * `handler.call(event)` = `T.handler` on the handler-visible state, `event._arg` read as a
      number (`absNat`), `app.exit()` = `done := true`; a second `app.exit()` raises (C17 keeps a
      `crashed` flag instead and proves it is never set: `never_double_exit`), so the theorems
      that call a handler carry the hypothesis that excludes exactly that call;
    * `key_processor.arg` is a string in C04 and a number in C17: `enc` is any printer with
      `val (enc n) = n` (`natStr` below is one).
  State correspondence `R ps p`: world = (handler state, is_done, crashed, calls so far), key
  buffer, input queue (`_Flush` = `none`), previous key sequence, argument (`absNat`).
  The dispatch trace of C17 is compared with C04's observation log (`projO`; the exit flags of the
  calls are compared through the world: `R.calls`).
-/
import Ptk.Model.C04
import Ptk.Model.C17Buf
import Ptk.Props.AgreeKeyArg
namespace Ptk.AgreeKey.B17
open Ptk.C17 (Key)
open Ptk.C17.Buf

variable {σ : Type}

/-- key numbering: `Keys.CPRResponse` is C04's `Key.cpr = 1`; `Keys.Any = 0` is not a key press -/
def kc : C17.Key → C04.Key
  | .cpr => 1 | .accept => 2 | .abort => 3 | .cj => 4 | .other n => n + 5

def unk (k : C04.Key) : C17.Key :=
  if k = 1 then .cpr else if k = 2 then .accept else if k = 3 then .abort else if k = 4 then .cj
  else .other (k - 5)

@[simp] theorem unk_kc (k : C17.Key) : unk (kc k) = k := by
  cases k <;> simp [kc, unk]

/-- a key press of C17 as a `KeyPress` of C04 (no `data`) -/
def kp (k : C17.Key) : C04.KP := .key (kc k) 0

def unkp : C04.KP → C17.Key
  | .key k _ => unk k
  | .flush => .other 0

@[simp] theorem unkp_kp (k : C17.Key) : unkp (kp k) = k := by simp [unkp, kp]

/-- an element of the input queue: `none` is the `_Flush` marker -/
def qk : QK → C04.KP
  | none => .flush
  | some k => kp k

@[simp] theorem map_unkp_kp (l : List C17.Key) : (l.map kp).map unkp = l := by
  induction l <;> simp_all

theorem keysOf_map (l : List C17.Key) : C04.keysOf (l.map kp) = l.map kc := by
  induction l <;> simp_all [C04.keysOf, kp]

@[simp] theorem map_unk_kc (l : List C17.Key) : (l.map kc).map unk = l := by
  induction l <;> simp_all

@[simp] theorem kp_isCpr (k : C17.Key) : (kp k).isCpr = k.isCpr := by
  cases k <;> simp [kp, kc, C04.KP.isCpr, C17.Key.isCpr, C04.Key.cpr]

@[simp] theorem qk_isCpr (k : QK) : (qk k).isCpr = k.isCpr := by
  cases k with
  | none => rfl
  | some k => exact kp_isCpr k

@[simp] theorem kp_isFlush (k : C17.Key) : (kp k).isFlush = false := rfl

/-- the part of C17's key processor state that is "the world" for C04's processor: the
    handler-visible state, `app.is_done`, and the calls made so far with their exit flags -/
structure Wd (σ : Type) where
  ed : σ
  done : Bool
  crashed : Bool
  calls : List Disp

def bnd (ks : List C04.Key) : C04.Binding :=
  { keys := ks, hid := 0, filter := .always, eager := .never, isGlobal := .never }

/-- C04's interface instantiated with a registry `T` of C17 -/
def iface (T : Tbl σ) (enc : Nat → List Char) : C04.Iface (Wd σ) where
  getFor := fun w ks => (w, if T.exact w.ed (ks.map unk) then [bnd ks] else [])
  getStart := fun w ks => (w, if T.longer w.ed (ks.map unk) then [bnd ks] else [])
  evalF := fun _ f => f.eval fun _ => false
  call := fun w q _ seq _ ev =>
    let o := T.handler w.ed (absNat ev.arg) (seq.map unkp)
    let ex := o.eff == Eff.exit
    ({ ed := o.ed, done := w.done || ex, crashed := w.crashed,
       calls := w.calls ++ [.call (seq.map unkp) ex] }, q,
     if ex && w.done then .raise else .ok)
  done := fun w => w.done
  argOut := fun w _ seq ev => (T.handler w.ed (absNat ev.arg) (seq.map unkp)).arg.map enc

theorem unkp_comp_kp : unkp ∘ kp = id := funext unkp_kp

section
variable (T : Tbl σ) (enc : Nat → List Char)
theorem iface_call (w : Wd σ) (q : List C04.KP) (b : C04.Binding) (seq prev : List C04.KP) (ev : C04.EvX) :
    (iface T enc).call w q b seq prev ev =
      ({ ed := (T.handler w.ed (absNat ev.arg) (seq.map unkp)).ed,
         done := w.done || ((T.handler w.ed (absNat ev.arg) (seq.map unkp)).eff == Eff.exit),
         crashed := w.crashed,
         calls := w.calls ++ [.call (seq.map unkp)
                    ((T.handler w.ed (absNat ev.arg) (seq.map unkp)).eff == Eff.exit)] }, q,
       if ((T.handler w.ed (absNat ev.arg) (seq.map unkp)).eff == Eff.exit) && w.done then .raise
       else .ok) := rfl
theorem iface_argOut (w : Wd σ) (b : C04.Binding) (seq : List C04.KP) (ev : C04.EvX) :
    (iface T enc).argOut w b seq ev
      = (T.handler w.ed (absNat ev.arg) (seq.map unkp)).arg.map enc := rfl
theorem iface_done (w : Wd σ) : (iface T enc).done w = w.done := rfl
theorem iface_recE (w : Wd σ) : (iface T enc).recE w = false := rfl
theorem iface_recV (w : Wd σ) : (iface T enc).recV w = false := rfl
end

def isCall : Disp → Bool
  | .call _ _ => true
  | .drop _ => false

/-- the state correspondence -/
structure R (ps : C04.PS (Wd σ)) (p : KP σ) : Prop where
  ed : ps.w.ed = p.ed
  done : ps.w.done = p.done
  crashed : ps.w.crashed = p.crashed
  calls : ps.w.calls = p.trace.filter isCall
  buffer : ps.buffer = p.buffer.map kp
  queue : ps.queue = p.queue.map qk
  prev : ps.prev = p.prev.map kp
  arg : absNat ps.arg = p.arg

/-- trace entries without the exit flag (what C04's observation log shows of them) -/
def erase : Disp → Disp
  | .call ks _ => .call ks false
  | .drop k => .drop k

def projO : C04.Obs → Option Disp
  | .call _ seq _ => some (.call (seq.map unkp) false)
  | .drop k => some (.drop (unkp k))
  | .cpr (some _) k _ => some (.call [unkp k] false)
  | _ => none

variable (T : Tbl σ) (enc : Nat → List Char)

theorem getMatches_eq (w : Wd σ) (buf : List C17.Key) :
    C04.getMatches (iface T enc) w (buf.map kp)
      = (w, if T.exact w.ed buf then [bnd (buf.map kc)] else []) := by
  simp only [C04.getMatches, iface, keysOf_map, map_unk_kc]
  split <;> simp [bnd, C04.F.eval]

theorem isPrefix_eq (w : Wd σ) (buf : List C17.Key) :
    C04.isPrefixOfLonger (iface T enc) w (buf.map kp) = (w, T.longer w.ed buf) := by
  simp only [C04.isPrefixOfLonger, iface, keysOf_map, map_unk_kc]
  split <;> simp_all [bnd, C04.F.eval]

theorem scan_eq (w : Wd σ) (buf : List C17.Key) (i : Nat) :
    C04.scan (iface T enc) (buf.map kp) i w
      = (w, (longestMatch T w.ed buf i).map fun j => (j, bnd ((buf.take j).map kc))) := by
  induction i with
  | zero => simp [C04.scan, longestMatch]
  | succ i ih =>
    simp only [C04.scan, longestMatch, ← List.map_take, getMatches_eq]
    by_cases h : T.exact w.ed (buf.take (i + 1)) = true
    · simp [h]
    · simp [h, ih]


theorem recordMacro_off (w : Wd σ) (b : C04.Binding) (seq : List C04.KP) :
    C04.recordMacro (iface T enc) false false w b seq = (w, []) := by
  simp only [C04.recordMacro, iface]
  by_cases hh : C04.F.eval (fun _ => false) b.rim = true <;> simp [hh]

theorem decideOf_eq {ps : C04.PS (Wd σ)} {p : KP σ} (h : R ps p) (flush : Bool) :
    C04.decideOf (iface T enc) ps flush = (ps.w,
      if p.buffer.isEmpty then C04.Decision.idle
      else if isPrefix T flush p then .wait
      else if T.exact p.ed p.buffer then .fire (bnd (p.buffer.map kc)) p.buffer.length true
      else match longestMatch T p.ed p.buffer p.buffer.length with
        | some i => .fire (bnd ((p.buffer.take i).map kc)) i false
        | none => .dropOne) := by
  have hed := h.ed
  have hbuf := h.buffer
  obtain ⟨⟨ed, dn, cr, cl⟩, buffer, queue, prev, arg, prevH⟩ := ps
  simp only at hed hbuf
  subst hed hbuf
  unfold C04.decideOf
  by_cases hb : p.buffer.isEmpty = true
  · simp [hb]
  · simp only [List.isEmpty_map, hb, Bool.false_eq_true, if_false, getMatches_eq, isPrefix_eq,
      List.length_map, scan_eq]
    cases flush <;> by_cases hl : T.longer p.ed p.buffer = true <;>
      by_cases he : T.exact p.ed p.buffer = true <;>
      simp [isPrefix, hl, he, bnd, iface, C04.F.eval] <;>
      cases longestMatch T p.ed p.buffer p.buffer.length <;> simp


theorem callHandler_agree (henc : ∀ n, val (enc n) = n) {ps : C04.PS (Wd σ)} {p : KP σ} (h : R ps p)
    (b : C04.Binding) (ks : List C17.Key)
    (hok : ¬ ((T.handler p.ed p.arg ks).eff = Eff.exit ∧ p.done = true)) :
    (C04.callHandler (iface T enc) ps b (ks.map kp)).2.2 = false ∧
    R (C04.callHandler (iface T enc) ps b (ks.map kp)).1 (callHandler T p ks) ∧
    (C04.callHandler (iface T enc) ps b (ks.map kp)).2.1.filterMap projO = [.call ks false] ∧
    (callHandler T p ks).trace.map erase = p.trace.map erase ++ [.call ks false] := by
  obtain ⟨hed, hdn, hcr, hcl, hbuf, hq, hpv, harg⟩ := h
  obtain ⟨⟨ed, dn, cr, cl⟩, buffer, queue, prev, arg, prevH⟩ := ps
  simp only at hed hdn hcr hcl hbuf hq hpv harg
  subst hed hdn hcr hcl hbuf hq hpv
  have habs : ∀ o : Option Nat, absNat (o.map enc) = o := by
    intro o; cases o <;> simp [absNat, henc]
  cases he : (T.handler p.ed p.arg ks).eff
  · simp [C04.callHandler, C04.eventOf, iface_call, iface_argOut, iface_recE, iface_recV, harg, he,
      recordMacro_off, callHandler, erase, unkp_comp_kp]
    exact ⟨⟨rfl, by simp, rfl, by simp [List.filter, isCall], rfl, rfl, rfl, habs _⟩, by simp [List.filterMap, projO, unkp_comp_kp]⟩
  · have hd : p.done = false := by
      cases hd : p.done
      · rfl
      · exact absurd ⟨he, hd⟩ hok
    simp [C04.callHandler, C04.eventOf, iface_call, iface_argOut, iface_recE, iface_recV, harg, he, hd,
      recordMacro_off, callHandler, erase, unkp_comp_kp]
    exact ⟨⟨rfl, by simp, rfl, by simp [List.filter, isCall], rfl, rfl, rfl, habs _⟩, by simp [List.filterMap, projO, unkp_comp_kp]⟩


/-- one pass through the body of the `while True` loop of `_process`, on C17's state; the flag is
    `retry` -/
def pass17 (flush : Bool) (p : KP σ) : KP σ × Bool :=
  if p.buffer.isEmpty then (p, false)
  else if isPrefix T flush p then (p, false)
  else if T.exact p.ed p.buffer then ({ callHandler T p p.buffer with buffer := [] }, false)
  else (retryStep T p, true)

theorem dispatchFuel_pass (fuel : Nat) (flush : Bool) (p : KP σ) :
    dispatchFuel T (fuel + 1) flush p =
      if (pass17 T flush p).2 then
        if !(pass17 T flush p).1.buffer.isEmpty && (pass17 T flush p).1.done then
          some { (pass17 T flush p).1 with
                 queue := (pass17 T flush p).1.buffer.map some ++ (pass17 T flush p).1.queue, buffer := [] }
        else dispatchFuel T fuel false (pass17 T flush p).1
      else some (pass17 T flush p).1 := by
  simp only [dispatchFuel, pass17]
  by_cases hb : p.buffer.isEmpty = true
  · simp [hb]
  · by_cases hp : isPrefix T flush p = true
    · simp [hb, hp]
    · by_cases he : T.exact p.ed p.buffer = true
      · simp [hb, hp, he]
      · simp [hb, hp, he]

theorem longestMatch_pos (ed : σ) (buf : List C17.Key) (n i : Nat)
    (h : longestMatch T ed buf n = some i) : 0 < i ∧ i ≤ n := by
  induction n with
  | zero => simp [longestMatch] at h
  | succ n ih =>
    simp only [longestMatch] at h
    split at h
    · simp at h; omega
    · have := ih h; omega

theorem R.setBuffer {ps : C04.PS (Wd σ)} {p : KP σ} (h : R ps p) (b : List C17.Key) :
    R { ps with buffer := b.map kp } { p with buffer := b } :=
  ⟨h.ed, h.done, h.crashed, h.calls, rfl, h.queue, h.prev, h.arg⟩


theorem examine_agree (henc : ∀ n, val (enc n) = n) {ps : C04.PS (Wd σ)} {p : KP σ} (h : R ps p)
    (flush : Bool) (hdone : p.done = false ∨ p.buffer = []) :
    (C04.examine (iface T enc) ps flush).2.2
        = (if (pass17 T flush p).2 then C04.Ctl.retry else C04.Ctl.yield_) ∧
    R (C04.examine (iface T enc) ps flush).1 (pass17 T flush p).1 ∧
    (pass17 T flush p).1.trace.map erase
        = p.trace.map erase ++ (C04.examine (iface T enc) ps flush).2.1.filterMap projO ∧
    ((pass17 T flush p).2 = true → (pass17 T flush p).1.buffer.length < p.buffer.length) := by
  have hd := decideOf_eq T enc h flush
  simp only [C04.examine, hd, pass17]
  by_cases hb : p.buffer.isEmpty = true
  · simp only [hb, if_true, C04.exec]
    exact ⟨by simp, h, by simp, by simp⟩
  · have hne : p.buffer ≠ [] := by intro e; simp [e] at hb
    have hdn : p.done = false := by
      rcases hdone with h1 | h1
      · exact h1
      · exact absurd h1 hne
    simp only [hb, Bool.false_eq_true, if_false]
    by_cases hp : isPrefix T flush p = true
    · simp only [hp, if_true, C04.exec]
      exact ⟨by simp, h, by simp, by simp⟩
    · simp only [hp, Bool.false_eq_true, if_false]
      by_cases he : T.exact p.ed p.buffer = true
      · simp only [he, if_true, C04.exec]
        have htake : ps.buffer.take p.buffer.length = p.buffer.map kp := by
          rw [h.buffer]; exact List.take_of_length_le (by simp)
        have hdrop : ps.buffer.drop p.buffer.length = ([] : List C17.Key).map kp := by
          rw [h.buffer, List.drop_of_length_le (by simp)]; rfl
        rw [htake, hdrop]
        obtain ⟨c1, c2, c3, c4⟩ := callHandler_agree T enc henc h (bnd (p.buffer.map kc)) p.buffer
          (by rw [hdn]; simp)
        simp only [c1, Bool.false_eq_true, if_false]
        exact ⟨by simp, c2.setBuffer [], by rw [c3]; exact c4, by simp⟩
      · simp only [he, Bool.false_eq_true, if_false, retryStep]
        cases hl : longestMatch T p.ed p.buffer p.buffer.length with
        | some i =>
          obtain ⟨hi0, hile⟩ := longestMatch_pos T _ _ _ _ hl
          simp only [C04.exec]
          have htake : ps.buffer.take i = (p.buffer.take i).map kp := by
            rw [h.buffer, List.map_take]
          have hdrop : ps.buffer.drop i = (p.buffer.drop i).map kp := by
            rw [h.buffer, List.map_drop]
          rw [htake, hdrop]
          obtain ⟨c1, c2, c3, c4⟩ := callHandler_agree T enc henc h (bnd ((p.buffer.take i).map kc))
            (p.buffer.take i) (by rw [hdn]; simp)
          simp only [c1, Bool.false_eq_true, if_false]
          refine ⟨by simp, c2.setBuffer _, by rw [c3]; exact c4, ?_⟩
          intro _
          simp only [List.length_drop]
          have : 0 < p.buffer.length := List.length_pos_iff.mpr hne
          omega
        | none =>
          simp only [C04.exec]
          cases hbuf : p.buffer with
          | nil => exact absurd hbuf hne
          | cons k rest =>
            have hpb : ps.buffer = kp k :: rest.map kp := by rw [h.buffer, hbuf]; rfl
            rw [hpb]
            refine ⟨by simp, ⟨h.ed, h.done, h.crashed, ?_, by simp, h.queue, h.prev, h.arg⟩, ?_, ?_⟩
            · simp [h.calls, List.filter_append, List.filter, isCall]
            · simp [projO, erase]
            · simp


theorem runLoop_agree (henc : ∀ n, val (enc n) = n) : ∀ (fuel : Nat) (flush : Bool)
    (ps : C04.PS (Wd σ)) (p : KP σ), R ps p → p.buffer.length < fuel →
    (p.done = false ∨ p.buffer = []) →
    ∃ p', dispatchFuel T fuel flush p = some p' ∧
      (C04.runLoop (iface T enc) fuel ps flush).2.2 = false ∧
      R (C04.runLoop (iface T enc) fuel ps flush).1 p' ∧
      p'.trace.map erase
        = p.trace.map erase ++ (C04.runLoop (iface T enc) fuel ps flush).2.1.filterMap projO := by
  intro fuel
  induction fuel with
  | zero => intro _ _ _ _ hl; omega
  | succ n ih =>
    intro flush ps p h hlen hdone
    obtain ⟨e1, e2, e3, e4⟩ := examine_agree T enc henc h flush hdone
    rw [dispatchFuel_pass]
    simp only [C04.runLoop]
    by_cases hr : (pass17 T flush p).2 = true
    · simp only [hr, if_true] at e1 ⊢
      simp only [e1]
      have hbe : (C04.examine (iface T enc) ps flush).1.buffer.isEmpty
          = (pass17 T flush p).1.buffer.isEmpty := by rw [e2.buffer]; simp
      have hdn : (iface T enc).done (C04.examine (iface T enc) ps flush).1.w
          = (pass17 T flush p).1.done := by rw [iface_done]; exact e2.done
      rw [hbe, hdn]
      by_cases hq : (!(pass17 T flush p).1.buffer.isEmpty && (pass17 T flush p).1.done) = true
      · simp only [hq, if_true]
        refine ⟨_, rfl, trivial, ⟨e2.ed, e2.done, e2.crashed, e2.calls, rfl, ?_, e2.prev, e2.arg⟩, ?_⟩
        · simp only [e2.buffer, e2.queue, List.map_append, List.map_map]; rfl
        · simp [e3, List.filterMap_append, projO]
      · simp only [hq, Bool.false_eq_true, if_false]
        have hd' : (pass17 T flush p).1.done = false ∨ (pass17 T flush p).1.buffer = [] := by
          cases hbb : (pass17 T flush p).1.buffer.isEmpty
          · left; simpa [hbb] using hq
          · right; simpa using hbb
        obtain ⟨p', f1, f2, f3, f4⟩ := ih false _ _ e2 (by have := e4 hr; omega) hd'
        exact ⟨p', f1, f2, f3, by rw [f4, e3, List.filterMap_append, List.append_assoc]⟩
    · have hr' : (pass17 T flush p).2 = false := by simpa using hr
      simp only [hr', Bool.false_eq_true, if_false] at e1 ⊢
      simp only [e1]
      exact ⟨_, rfl, trivial, e2, e3⟩


theorem send_agree (henc : ∀ n, val (enc n) = n) {ps : C04.PS (Wd σ)} {p : KP σ} (h : R ps p)
    (k : QK) (hd : p.done = false) :
    (C04.send (iface T enc) ps (qk k)).2.2 = false ∧
    R (C04.send (iface T enc) ps (qk k)).1 (send T p k) ∧
    (send T p k).trace.map erase
      = p.trace.map erase ++ (C04.send (iface T enc) ps (qk k)).2.1.filterMap projO := by
  have hlen : ps.buffer.length = p.buffer.length := by rw [h.buffer]; simp
  cases k with
  | none =>
    simp only [qk, C04.send, send, dispatch, hlen]
    obtain ⟨p', f1, f2, f3, f4⟩ :=
      runLoop_agree T enc henc (p.buffer.length + 1) true ps p h (by omega) (Or.inl hd)
    rw [f1]
    exact ⟨f2, f3, f4⟩
  | some k =>
    simp only [qk, kp, C04.send, send, dispatch, hlen]
    have h' : R { ps with buffer := ps.buffer ++ [C04.KP.key (kc k) 0] }
        { p with buffer := p.buffer ++ [k] } := by
      have := h.setBuffer (p.buffer ++ [k])
      simpa [h.buffer, kp] using this
    obtain ⟨p', f1, f2, f3, f4⟩ :=
      runLoop_agree T enc henc (p.buffer.length + 2) false _ _ h' (by simp) (Or.inl hd)
    have hl2 : ({ p with buffer := p.buffer ++ [k] } : KP σ).buffer.length + 1 = p.buffer.length + 2 := by
      simp
    rw [hl2, f1]
    exact ⟨f2, f3, f4⟩

theorem any_isCpr (q : List QK) : (q.map qk).any C04.KP.isCpr = hasCprQ q := by
  induction q with
  | nil => rfl
  | cons k q ih => simp [hasCprQ, ih]

theorem takeCpr_map (q : List QK) :
    C04.takeCpr (q.map qk) =
      if hasCprQ q then some (kp .cpr, (removeFirstCprQ q).map qk) else none := by
  induction q with
  | nil => rfl
  | cons k q ih =>
    simp only [List.map_cons, C04.takeCpr, qk_isCpr, hasCprQ, removeFirstCprQ]
    by_cases hk : k.isCpr = true
    · have : k = some .cpr := by
        cases k with
        | none => simp [QK.isCpr] at hk
        | some k => cases k <;> simp_all [QK.isCpr, C17.Key.isCpr]
      subst this
      simp [qk, QK.isCpr, C17.Key.isCpr]
    · simp only [hk, Bool.false_eq_true, if_false, ih, Bool.false_or]
      by_cases hq : hasCprQ q = true <;> simp [hq]

theorem processCpr_agree (henc : ∀ n, val (enc n) = n) {ps : C04.PS (Wd σ)} {p : KP σ} (h : R ps p)
    (hok : (T.handler p.ed none [.cpr]).eff = Eff.stay ∨ p.done = false) :
    (C04.cprResponse (iface T enc) ps (kp .cpr)).2.2 = false ∧
    R (C04.cprResponse (iface T enc) ps (kp .cpr)).1 (processCpr T p) ∧
    (processCpr T p).trace.map erase
      = p.trace.map erase ++ (C04.cprResponse (iface T enc) ps (kp .cpr)).2.1.filterMap projO := by
  obtain ⟨hed, hdn, hcr, hcl, hbuf, hq, hpv, harg⟩ := h
  obtain ⟨⟨ed, dn, cr, cl⟩, buffer, queue, prev, arg, prevH⟩ := ps
  simp only at hed hdn hcr hcl hbuf hq hpv harg
  subst hed hdn hcr hcl hbuf hq hpv
  have habs : ∀ o : Option Nat, absNat (o.map enc) = o := by
    intro o; cases o <;> simp [absNat, henc]
  have hg := getMatches_eq T enc ⟨p.ed, p.done, p.crashed, p.trace.filter isCall⟩ [.cpr]
  simp only [List.map_cons, List.map_nil] at hg
  simp only [C04.cprResponse, hg, processCpr]
  by_cases hx : T.exact p.ed [.cpr] = true
  · simp only [hx, if_true, List.getLast?_singleton, iface_call, iface_argOut]
    have hab : absNat ({} : C04.EvX).arg = none := rfl
    simp only [hab, List.map_cons, List.map_nil, unkp_kp]
    cases he : (T.handler p.ed none [.cpr]).eff
    · simp only [show (Eff.stay == Eff.exit) = false from rfl, Bool.false_and, Bool.false_eq_true,
        if_false, Bool.or_false]
      refine ⟨trivial, ⟨rfl, rfl, rfl, by simp [List.filter_append, List.filter, isCall], rfl, rfl, rfl, ?_⟩, ?_⟩
      · cases ha : (T.handler p.ed none [.cpr]).arg with
        | none => simpa [Option.orElse] using harg
        | some a => simp [Option.orElse, absNat, henc]
      · simp [projO, erase]
    · have hd : p.done = false := by
        rcases hok with h1 | h1
        · rw [he] at h1; cases h1
        · exact h1
      simp only [hd, show (Eff.exit == Eff.exit) = true from rfl, Bool.and_false, Bool.false_eq_true,
        if_false, Bool.or_true]
      refine ⟨trivial, ⟨rfl, rfl, rfl, by simp [List.filter_append, List.filter, isCall], rfl, rfl, rfl, ?_⟩, ?_⟩
      · cases ha : (T.handler p.ed none [.cpr]).arg with
        | none => simpa [Option.orElse] using harg
        | some a => simp [Option.orElse, absNat, henc]
      · simp [projO, erase]
  · simp only [hx, Bool.false_eq_true, if_false, List.getLast?_nil]
    exact ⟨trivial, ⟨rfl, rfl, rfl, rfl, rfl, rfl, rfl, harg⟩, by simp [projO]⟩


theorem R.setQueue {ps : C04.PS (Wd σ)} {p : KP σ} (h : R ps p) (q : List QK) :
    R { ps with queue := q.map qk } { p with queue := q } :=
  ⟨h.ed, h.done, h.crashed, h.calls, h.buffer, rfl, h.prev, h.arg⟩

theorem filterMap_projO_wrap (k : C04.KP) (plain : Bool) (obs : List C04.Obs) :
    (C04.Obs.pop k :: (if plain then [C04.Obs.before] else []) ++ obs
        ++ (if plain then [C04.Obs.after] else [])).filterMap projO = obs.filterMap projO := by
  have h1 : projO (C04.Obs.pop k) = none := rfl
  have h2 : projO C04.Obs.before = none := rfl
  have h3 : projO C04.Obs.after = none := rfl
  cases plain <;> simp [List.filterMap_append, h1, h2, h3]

/-- one iteration of the `while not_empty():` loop of `process_keys` -/
theorem pkStep_agree (henc : ∀ n, val (enc n) = n)
    (hT : ∀ ed, (T.handler ed none [.cpr]).eff = Eff.stay)
    {ps : C04.PS (Wd σ)} {p : KP σ} (h : R ps p) :
    match procStep T p with
    | none => C04.pkStep (iface T enc) ps = none
    | some p' => ∃ ps' obs, C04.pkStep (iface T enc) ps = some (ps', obs, false) ∧ R ps' p' ∧
        p'.trace.map erase = p.trace.map erase ++ obs.filterMap projO := by
  have hne : C04.notEmpty (iface T enc) ps = notEmpty p := by
    simp only [C04.notEmpty, notEmpty, iface_done, h.done, h.queue, any_isCpr, List.isEmpty_map]
  simp only [procStep, C04.pkStep, hne]
  by_cases hn : notEmpty p = true
  · simp only [hn, if_true, Bool.not_true, Bool.false_eq_true, if_false, C04.getNext, iface_done, h.done]
    by_cases hd : p.done = true
    · have hc : hasCprQ p.queue = true := by simpa [notEmpty, hd] using hn
      simp only [hd, if_true, h.queue, takeCpr_map, hc]
      have h' := h.setQueue (removeFirstCprQ p.queue)
      obtain ⟨c1, c2, c3⟩ := processCpr_agree T enc henc h' (Or.inl (hT _))
      simp only [hd] at c2 c3
      simp only [C04.dispatchKey, kp_isCpr, C17.Key.isCpr, if_true, c1, Bool.false_eq_true, if_false]
      refine ⟨_, _, rfl, c2, ?_⟩
      rw [c3, filterMap_projO_wrap]
    · have hd' : p.done = false := by simpa using hd
      simp only [hd', Bool.false_eq_true, if_false, h.queue]
      cases hq : p.queue with
      | nil => simp [notEmpty, hd', hq] at hn
      | cons k q =>
        simp only [List.map_cons]
        have h' : R { ps with queue := q.map qk } { p with queue := q } := h.setQueue q
        simp only [C04.dispatchKey, deliver, qk_isCpr]
        by_cases hk : k.isCpr = true
        · have : k = some .cpr := by
            cases k with
            | none => simp [QK.isCpr] at hk
            | some k => cases k <;> simp_all [QK.isCpr, C17.Key.isCpr]
          subst this
          obtain ⟨c1, c2, c3⟩ := processCpr_agree T enc henc h' (Or.inr hd')
          simp only [hd'] at c2 c3
          simp only [hk, if_true, qk, c1, Bool.false_eq_true, if_false]
          refine ⟨_, _, rfl, c2, ?_⟩
          rw [c3, filterMap_projO_wrap]
        · obtain ⟨c1, c2, c3⟩ := send_agree T enc henc h' k hd'
          simp only [hd'] at c2 c3
          simp only [hk, Bool.false_eq_true, if_false, c1]
          refine ⟨_, _, rfl, c2, ?_⟩
          rw [c3, filterMap_projO_wrap]
  · simp [hn]

/-- `process_keys()`: C04's loop with `n` iterations of fuel is C17's `iter … n` -/
theorem processKeys_agree (henc : ∀ n, val (enc n) = n)
    (hT : ∀ ed, (T.handler ed none [.cpr]).eff = Eff.stay) :
    ∀ (n : Nat) (ps : C04.PS (Wd σ)) (p : KP σ), R ps p →
      (C04.processKeys (iface T enc) n ps).2.2 = false ∧
      R (C04.processKeys (iface T enc) n ps).1 (iter T n p) ∧
      (iter T n p).trace.map erase
        = p.trace.map erase ++ (C04.processKeys (iface T enc) n ps).2.1.filterMap projO := by
  intro n
  induction n with
  | zero => intro ps p h; exact ⟨rfl, h, by simp [C04.processKeys, iter]⟩
  | succ n ih =>
    intro ps p h
    have hs := pkStep_agree T enc henc hT h
    simp only [C04.processKeys, iter]
    cases hp : procStep T p with
    | none =>
      rw [hp] at hs
      simp only [hs]
      exact ⟨trivial, h, by simp⟩
    | some p' =>
      rw [hp] at hs
      obtain ⟨ps', obs, e1, e2, e3⟩ := hs
      obtain ⟨f1, f2, f3⟩ := ih ps' p' e2
      simp only [e1]
      exact ⟨f1, f2, by rw [f3, e3, List.filterMap_append, List.append_assoc]⟩


/-! ### a printer for the argument (`str(n)`), so that the `enc` hypothesis can be discharged -/

def natStr (n : Nat) : List Char :=
  if n < 10 then [dch n] else natStr (n / 10) ++ [dch (n % 10)]
termination_by n
decreasing_by omega

theorem val_natStr : ∀ n, val (natStr n) = n := by
  intro n
  induction n using Nat.strongRecOn with
  | _ n ih =>
    rw [natStr]
    split
    · rename_i h; rw [val_single, dch_val h]
    · rw [val_snoc, ih (n / 10) (by omega), dch_val (by omega)]; omega

/-! ### headline theorems (with `enc := natStr`) -/

/-- C04's interface for the registry `T` of C17 -/
def iface17 (T : Tbl σ) : C04.Iface (Wd σ) := iface T natStr

/-- key_processor.py::KeyProcessor._get_matches — `Ptk.C04.getMatches` at `iface17 T` is
    non-empty exactly when `Ptk.C17.Buf.Tbl.exact` -/
theorem getMatches_C04_C17 (w : Wd σ) (buf : List C17.Key) :
    C04.getMatches (iface17 T) w (buf.map kp)
      = (w, if T.exact w.ed buf then [bnd (buf.map kc)] else []) := getMatches_eq T natStr w buf

/-- key_processor.py::KeyProcessor._is_prefix_of_longer_match — `Ptk.C04.isPrefixOfLonger` at
    `iface17 T` = `Ptk.C17.Buf.Tbl.longer` -/
theorem isPrefix_C04_C17 (w : Wd σ) (buf : List C17.Key) :
    C04.isPrefixOfLonger (iface17 T) w (buf.map kp) = (w, T.longer w.ed buf) :=
  isPrefix_eq T natStr w buf

/-- key_processor.py::KeyProcessor._process (the `for i in range(len(buffer), 0, -1)` loop) —
    `Ptk.C04.scan` = `Ptk.C17.Buf.longestMatch` -/
theorem scan_C04_C17 (w : Wd σ) (buf : List C17.Key) (i : Nat) :
    C04.scan (iface17 T) (buf.map kp) i w
      = (w, (longestMatch T w.ed buf i).map fun j => (j, bnd ((buf.take j).map kc))) :=
  scan_eq T natStr w buf i

/-- key_processor.py::KeyProcessor._process (one pass: idle / wait / fire / drop) —
    `Ptk.C04.decideOf` = the branch structure of `Ptk.C17.Buf.dispatchFuel` / `retryStep` -/
theorem decide_C04_C17 {ps : C04.PS (Wd σ)} {p : KP σ} (h : R ps p) (flush : Bool) :
    C04.decideOf (iface17 T) ps flush = (ps.w,
      if p.buffer.isEmpty then C04.Decision.idle
      else if isPrefix T flush p then .wait
      else if T.exact p.ed p.buffer then .fire (bnd (p.buffer.map kc)) p.buffer.length true
      else match longestMatch T p.ed p.buffer p.buffer.length with
        | some i => .fire (bnd ((p.buffer.take i).map kc)) i false
        | none => .dropOne) := decideOf_eq T natStr h flush

/-- key_processor.py::KeyProcessor._call_handler — `Ptk.C04.callHandler` = `Ptk.C17.Buf.callHandler`
    (state, `arg` cleared and re-set by the handler, previous key sequence, call log), for every
    call that is not a second `app.exit()` -/
theorem callHandler_C04_C17 {ps : C04.PS (Wd σ)} {p : KP σ} (h : R ps p)
    (b : C04.Binding) (ks : List C17.Key)
    (hok : ¬ ((T.handler p.ed p.arg ks).eff = Eff.exit ∧ p.done = true)) :
    (C04.callHandler (iface17 T) ps b (ks.map kp)).2.2 = false ∧
    R (C04.callHandler (iface17 T) ps b (ks.map kp)).1 (callHandler T p ks) ∧
    (C04.callHandler (iface17 T) ps b (ks.map kp)).2.1.filterMap projO = [.call ks false] ∧
    (callHandler T p ks).trace.map erase = p.trace.map erase ++ [.call ks false] :=
  callHandler_agree T natStr val_natStr h b ks hok

/-- key_processor.py::KeyProcessor._process (`_process_coroutine.send(key_press)`, a key or
    `_Flush`) — `Ptk.C04.send` = `Ptk.C17.Buf.send`: same fuel, same state afterwards (key buffer,
    queue with the pushed-back keys, world, argument, previous key sequence), no exception, and
    C04's observation log is the new part of C17's dispatch trace -/
theorem send_C04_C17 {ps : C04.PS (Wd σ)} {p : KP σ} (h : R ps p) (k : QK) (hd : p.done = false) :
    (C04.send (iface17 T) ps (qk k)).2.2 = false ∧
    R (C04.send (iface17 T) ps (qk k)).1 (send T p k) ∧
    (send T p k).trace.map erase
      = p.trace.map erase ++ (C04.send (iface17 T) ps (qk k)).2.1.filterMap projO :=
  send_agree T natStr val_natStr h k hd

/-- key_processor.py::KeyProcessor._process_cpr_response — `Ptk.C04.cprResponse` =
    `Ptk.C17.Buf.processCpr` (key buffer, previous key sequence untouched; `arg` kept unless the
    handler sets it) -/
theorem cprResponse_C04_C17 {ps : C04.PS (Wd σ)} {p : KP σ} (h : R ps p)
    (hok : (T.handler p.ed none [.cpr]).eff = Eff.stay ∨ p.done = false) :
    (C04.cprResponse (iface17 T) ps (kp .cpr)).2.2 = false ∧
    R (C04.cprResponse (iface17 T) ps (kp .cpr)).1 (processCpr T p) ∧
    (processCpr T p).trace.map erase
      = p.trace.map erase ++ (C04.cprResponse (iface17 T) ps (kp .cpr)).2.1.filterMap projO :=
  processCpr_agree T natStr val_natStr h hok

/-- key_processor.py::KeyProcessor.process_keys (`not_empty`, `get_next`, one loop iteration) —
    `Ptk.C04.pkStep` = `Ptk.C17.Buf.procStep`, for every registry whose CPR binding does not exit
    (`Ptk.C17.Buf.CprStay`, the hypothesis of C17's own theorems) -/
theorem pkStep_C04_C17 (hT : ∀ ed, (T.handler ed none [.cpr]).eff = Eff.stay)
    {ps : C04.PS (Wd σ)} {p : KP σ} (h : R ps p) :
    match procStep T p with
    | none => C04.pkStep (iface17 T) ps = none
    | some p' => ∃ ps' obs, C04.pkStep (iface17 T) ps = some (ps', obs, false) ∧ R ps' p' ∧
        p'.trace.map erase = p.trace.map erase ++ obs.filterMap projO :=
  pkStep_agree T natStr val_natStr hT h

/-- key_processor.py::KeyProcessor.process_keys — `Ptk.C04.processKeys` with the fuel of
    `Ptk.C17.Buf.processKeys` = `Ptk.C17.Buf.processKeys` -/
theorem processKeys_C04_C17 (hT : ∀ ed, (T.handler ed none [.cpr]).eff = Eff.stay)
    {ps : C04.PS (Wd σ)} {p : KP σ} (h : R ps p) :
    (C04.processKeys (iface17 T) (p.queue.length + 1) ps).2.2 = false ∧
    R (C04.processKeys (iface17 T) (p.queue.length + 1) ps).1 (processKeys T p) ∧
    (processKeys T p).trace.map erase = p.trace.map erase ++
      (C04.processKeys (iface17 T) (p.queue.length + 1) ps).2.1.filterMap projO :=
  processKeys_agree T natStr val_natStr hT (p.queue.length + 1) ps p h

/-! ### `reset`, `empty_queue`, `feed`, `feed_multiple` -/

/-- key_processor.py::KeyProcessor.reset (+ `feed_multiple(typeahead)`) — `Ptk.C04.resetPS` then
    `Ptk.C04.feedMultiple` = `Ptk.C17.Buf.KP.fresh` (for a new application: not done, no calls) -/
theorem reset_C04_C17 (ps : C04.PS (Wd σ)) (q : List QK)
    (h1 : ps.w.done = false) (h2 : ps.w.crashed = false) (h3 : ps.w.calls = []) :
    R { C04.resetPS ps with queue := C04.feedMultiple (C04.resetPS ps).queue (q.map qk) false }
      (KP.fresh q ps.w.ed) :=
  ⟨rfl, h1, h2, h3, rfl, by simp [C04.resetPS, C04.feedMultiple, KP.fresh], rfl, rfl⟩

theorem filter_notCpr_map (q : List QK) :
    (q.map qk).filter (fun k => !k.isCpr) = (dropCprQ q).map qk := by
  induction q with
  | nil => rfl
  | cons k q ih =>
    simp only [List.map_cons, List.filter_cons, qk_isCpr, dropCprQ]
    by_cases hk : k.isCpr = true <;> simp [hk, ih]

/-- key_processor.py::KeyProcessor.empty_queue — `Ptk.C04.emptyQueue` = `Ptk.C17.Buf.dropCprQ`
    of the queue (the value C17's `.finish` stores as typeahead), queue emptied -/
theorem emptyQueue_C04_C17 {ps : C04.PS (Wd σ)} {p : KP σ} (h : R ps p) :
    (C04.emptyQueue ps).2 = (dropCprQ p.queue).map qk ∧
    R (C04.emptyQueue ps).1 { p with queue := [] } := by
  refine ⟨?_, h.setQueue []⟩
  simp only [C04.emptyQueue, h.queue]
  exact filter_notCpr_map p.queue

/-- key_processor.py::KeyProcessor.feed_multiple / feed — `Ptk.C04.feedMultiple` / `Ptk.C04.feed`
    = the queue updates of `Ptk.C17.Buf.step` (`.read`: keys appended; `.timeout`: `_Flush`
    appended) -/
theorem feed_C04_C17 {ps : C04.PS (Wd σ)} {p : KP σ} (h : R ps p) (ks : List C17.Key) :
    R { ps with queue := C04.feedMultiple ps.queue ((ks.map some).map qk) false }
      { p with queue := p.queue ++ ks.map some } ∧
    R (C04.feed ps .flush false) { p with queue := p.queue ++ [none] } := by
  constructor
  · have := h.setQueue (p.queue ++ ks.map some)
    simpa [C04.feedMultiple, h.queue] using this
  · have := h.setQueue (p.queue ++ [none])
    simpa [C04.feed, h.queue, qk] using this

/-! ### non-vacuity: the concrete emacs registry of C17's correspondence -/

/-- a fresh processor with the keys `escape`, `1`, `a`, Enter, `b` queued -/
def demoP : KP Emacs.S :=
  KP.fresh [some (.other Emacs.kEsc), some (.other 49), some (.other 97), some .accept, some (.other 98)]
    ⟨⟨[], 0⟩, false, false⟩

def demoPS : C04.PS (Wd Emacs.S) :=
  { w := ⟨demoP.ed, false, false, []⟩, queue := demoP.queue.map qk }

example : R demoPS demoP := ⟨rfl, rfl, rfl, rfl, rfl, rfl, rfl, rfl⟩
example : ∀ ed, (Emacs.tbl.handler ed none [.cpr]).eff = Eff.stay := fun _ => rfl
/-- after `process_keys`: `a` inserted once (argument 1), Enter accepted, `b` left as typeahead -/
example : (processKeys Emacs.tbl demoP).ed.e.text = ['a'] ∧ (processKeys Emacs.tbl demoP).done = true ∧
    (processKeys Emacs.tbl demoP).queue = [some (.other 98)] := by decide

end Ptk.AgreeKey.B17
