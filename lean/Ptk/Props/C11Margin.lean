/-
  C11 — NumberedMargin: the line numbers in the margin are the document rows shown.  `displayed_lines`
  (sorted rows of `visible_line_to_row_col`) is already in screen order (`chain_reverse`, `isort_mono`), so
  without intra-line scroll margin row `k` belongs to SCREEN row `k` (`margin_index_is_screen_row`); it shows
  `lineno + 1` on the first screen row of a document line and nothing on wrapped continuation rows
  (`margin_number_first_row`).  Any character widths, prefixes, scroll positions.
-/
import Ptk.Props.C11Rows
import Ptk.Props.C11Mouse
namespace Ptk.C11
open Ptk.Py

/-- adjacent elements do not decrease -/
inductive Mono : List Nat → Prop
  | nil : Mono []
  | single (a) : Mono [a]
  | cons (a b rest) : a ≤ b → Mono (b :: rest) → Mono (a :: b :: rest)

theorem isort_mono {l : List Nat} (h : Mono l) : isort l = l := by
  induction h with
  | nil => rfl
  | single a => rfl
  | cons a b rest hab _ ih => rw [isort, ih, insertSorted, if_pos hab]

/-- a chain read oldest first: screen rows count up from the first one, document rows never go down -/
theorem chain_reverse {same : Bool} {vl : List (Int × Nat × Int)} (h : Chain same vl) :
    Mono (vl.reverse.map fun e => e.2.1) ∧
      ∀ y0 r0 c0, vl.getLast? = some (y0, r0, c0) → ∀ (k : Nat) (q : Int × Nat × Int), vl.reverse[k]? = some q → q.1 = y0 + (k : Int) := by
  induction h with
  | nil => exact ⟨Mono.nil, fun _ _ _ _ k q hq => by simp at hq⟩
  | single e =>
    refine ⟨Mono.single _, fun y0 r0 c0 hl k q hq => ?_⟩
    simp at hl
    cases k with
    | zero => simp at hq; rw [← hq, hl]; simp
    | succ k => simp at hq
  | cons y r r' c c' rest hor hch ih =>
    obtain ⟨ih1, ih2⟩ := ih
    constructor
    · -- append r' at the end of a Mono list whose last element is r
      have hrev : ((y + 1, r', c') :: (y, r, c) :: rest).reverse.map (fun e => e.2.1) =
          (((y, r, c) :: rest).reverse.map fun e => e.2.1) ++ [r'] := by simp
      rw [hrev]
      have hlast : (((y, r, c) :: rest).reverse.map fun e => e.2.1).getLast? = some r := by simp
      have hle : r ≤ r' := by rcases hor with h | h <;> omega
      generalize (((y, r, c) :: rest).reverse.map fun e => e.2.1) = l at *
      clear ih2 hrev hch
      induction ih1 with
      | nil => simp at hlast
      | single a => simp at hlast; subst hlast; exact Mono.cons _ _ _ hle (Mono.single _)
      | cons a b rest' hab hm ih' =>
        have : (b :: rest').getLast? = some r := by rw [List.getLast?_cons_cons] at hlast; exact hlast
        exact Mono.cons _ _ _ hab (ih' this)
    · intro y0 r0 c0 hl k q hq
      rw [List.getLast?_cons_cons] at hl
      have hlen : ((y, r, c) :: rest).reverse.length = rest.length + 1 := by simp
      rw [List.reverse_cons] at hq
      by_cases hk : k < ((y, r, c) :: rest).reverse.length
      · rw [List.getElem?_append_left hk] at hq
        exact ih2 y0 r0 c0 hl k q hq
      · rw [List.getElem?_append_right (by omega)] at hq
        have hk2 : k - ((y, r, c) :: rest).reverse.length = 0 := by
          rcases Nat.eq_zero_or_pos (k - ((y, r, c) :: rest).reverse.length) with h | h
          · exact h
          · rw [List.getElem?_eq_none (by simp; omega)] at hq; cases hq
        rw [hk2] at hq
        simp at hq
        -- the previous newest entry is the last of the reversed tail
        have hprev := ih2 y0 r0 c0 hl rest.length (y, r, c) (by
          rw [List.reverse_cons, List.getElem?_append_right (by simp)]; simp)
        simp only at hprev
        rw [← hq]; simp only
        have : k = rest.length + 1 := by rw [hlen] at hk hk2; omega
        rw [this]; push_cast; omega

/-- **the margin is aligned with the rows shown** (any character widths, prefixes, scroll position;
    no intra-line scroll): entry `k` of `displayed_lines` — the one `NumberedMargin` uses for margin row
    `k` — is the document line shown on SCREEN row `k` -/
theorem margin_index_is_screen_row (e : Env) (lines : List Text) (s : Scroll) (hv2 : s.vs2 = 0) :
    let r := copyBody e lines s
    displayedLines r = r.vl.reverse.map (fun q => q.2.1) ∧
    ∀ (k : Nat) (q : Int × Nat × Int), r.vl.reverse[k]? = some q →
      q.1 = (k : Int) ∧ (displayedLines r)[k]? = some q.2.1 := by
  intro r
  have hch := (rows_consecutive e lines s).1
  obtain ⟨hm, hidx⟩ := chain_reverse hch
  have hdl : displayedLines r = r.vl.reverse.map (fun q => q.2.1) := isort_mono hm
  refine ⟨hdl, fun k q hq => ?_⟩
  constructor
  · rcases copyBody_vl_cases e lines s with hnil | hlast
    · have : r.vl = [] := hnil
      rw [this] at hq; simp at hq
    · have := hidx _ _ _ hlast k q hq
      rw [hv2] at this; omega
  · rw [hdl, List.getElem?_map, hq]; rfl

/-- **line numbers equal the document rows shown; continuation rows are blank**: margin row `k`
    shows `lineno + 1` (right-aligned) exactly when screen row `k` is the FIRST screen row of document
    line `lineno` in the window, and nothing when it continues the line of the row above -/
theorem margin_number_first_row (e : Env) (lines : List Text) (s : Scroll) (hv2 : s.vs2 = 0) (width : Nat)
    (k : Nat) (q : Int × Nat × Int) (hq : (copyBody e lines s).vl.reverse[k]? = some q) :
    marginLine width (displayedLines (copyBody e lines s)) k =
      if k = 0 ∨ ((copyBody e lines s).vl.reverse[k - 1]?).map (fun p => p.2.1) ≠ some q.2.1
      then numberText width q.2.1 else [] := by
  obtain ⟨hdl, hrow⟩ := margin_index_is_screen_row e lines s hv2
  obtain ⟨_, hk⟩ := hrow k q hq
  unfold marginLine
  rw [hk]
  simp only []
  rw [hdl, List.getElem?_map]

/-- rows below the last displayed line get no number -/
theorem margin_below_content (width : Nat) (dl : List Nat) (k : Nat) (h : dl.length ≤ k) :
    marginLine width dl k = [] := by
  unfold marginLine
  rw [List.getElem?_eq_none h]

-- non-vacuity: 3 lines, width 4, height 4, wrapping: line 0 takes two rows -> numbers on rows 0, 2, 3
example : let r := copyBody { W := { rw := fun _ => 1, disp := fun c => [c] }, width := 4, height := 4, wrap := true,
                               xpos := 3, ypos := 0, pfx := none }
                    ["abcdef ".toList, "g ".toList, "h ".toList] { vs := 0, hs := 0, vs2 := 0 }
    displayedLines r = [0, 0, 1, 2] ∧
    (List.range 4).map (marginCells 3 (displayedLines r)) = [" 1 ".toList, "   ".toList, " 2 ".toList, " 3 ".toList] := by
  decide

end Ptk.C11
