/-
  C11 — mouse: the handler `Window._write_to_screen_at_index` installs.  With one-column cells no two
  `rowcol_to_yx` entries share a screen cell (`copyBody_rc_injective`), so a mouse event on a drawn
  input cell is mapped back to exactly that cell's `(row, col)` (`click_recorded_cell`,
  `click_cursor_cell`): the inverse of the cursor placement theorems.
-/
import Ptk.Props.C11Gen
import Ptk.Props.C11Rows
namespace Ptk.C11
open Ptk.Py

/-! ### every screen cell gets at most one `rowcol_to_yx` entry (one-column cells) -/

/-- inside a line: every recorded screen position lies strictly before the current one, and no two
    entries share a position -/
def RcOK (e : Env) (st : CS) : Prop :=
  (∀ p ∈ st.rc, Before (st.y + e.ypos) (st.x + e.xpos) p.2) ∧ st.rc.Pairwise (fun a b => a.2 ≠ b.2)

/-- between lines: every recorded position is on a row above the current one -/
def RcRows (e : Env) (st : CS) : Prop :=
  (∀ p ∈ st.rc, p.2.1 < st.y + e.ypos) ∧ st.rc.Pairwise (fun a b => a.2 ≠ b.2)

theorem RcRows.toOK {e : Env} {st : CS} (h : RcRows e st) : RcOK e st :=
  ⟨fun p hp => Or.inl (h.1 p hp), h.2⟩

theorem RcOK.move {e : Env} {a b : CS} (h : RcOK e a) (hrc : b.rc = a.rc) (hpos : Later a.y a.x b.y b.x) :
    RcOK e b := by
  refine ⟨fun p hp => ?_, by rw [hrc]; exact h.2⟩
  have := h.1 p (by rw [← hrc]; exact hp)
  unfold Before Later at *; omega

theorem putChar_rcOK {e : Env} (hW : W1 e.W) (i : Bool) (l s : Nat) (st : CS) (c : Char) (h : RcOK e st) :
    RcOK e (putChar e i l s st c) := by
  obtain ⟨gx, gy, _⟩ := putChar_geom hW i l s st c
  rcases putChar_rc e i l s st c with hr | hr
  · exact h.move hr (by rw [gx, gy]; exact Or.inr ⟨rfl, by omega⟩)
  · refine ⟨fun p hp => ?_, ?_⟩
    · rw [gx, gy]
      rw [hr] at hp
      rcases List.mem_cons.mp hp with rfl | hp
      · right; simp; omega
      · have := h.1 p hp; unfold Before at *; omega
    · rw [hr, List.pairwise_cons]
      refine ⟨fun p hp he => ?_, h.2⟩
      have := h.1 p hp
      rw [← he] at this; unfold Before at this; simp at this

theorem wrapSt_rcOK (e : Env) (l : Nat) (st : CS) (h : RcOK e st) : RcOK e (wrapSt l st) := by
  refine ⟨fun p hp => ?_, h.2⟩
  have := h.1 p hp
  show Before (st.y + 1 + e.ypos) (0 + e.xpos) p.2
  unfold Before at *; omega

theorem step_rcOK {e : Env} (hW : W1 e.W) (i : Bool) (l s : Nat) (hook : CS → CS)
    (hh : ∀ st, RcOK e st → RcOK e (hook st)) (st : CS) (c : Char) (h : RcOK e st) :
    RcOK e (step e i l s hook st c) := by
  unfold step
  split
  · exact h
  · split
    · have h2 := hh _ (wrapSt_rcOK e l st h)
      simp only []
      split
      · exact ⟨h2.1, h2.2⟩
      · exact putChar_rcOK hW i l s _ c h2
    · exact putChar_rcOK hW i l s st c h

theorem fold_rcOK {e : Env} (hW : W1 e.W) (i : Bool) (l s : Nat) (hook : CS → CS)
    (hh : ∀ st, RcOK e st → RcOK e (hook st)) (cs : Text) :
    ∀ st, RcOK e st → RcOK e (cs.foldl (step e i l s hook) st) := by
  induction cs with
  | nil => intro st h; exact h
  | cons c cs ih => intro st h; exact ih _ (step_rcOK hW i l s hook hh st c h)

theorem prefixHook_rcOK {e : Env} (hW : W1 e.W) (l : Nat) : ∀ st, RcOK e st → RcOK e (prefixHook e l st) := by
  intro st h
  have hx := prefixHook_ok hW false l 0 st
  obtain ⟨nw, hn, hz, _⟩ := hx.rc
  exact h.move (by rw [hn, hz rfl]; rfl) hx.pos

theorem copyLine_rcRows {e : Env} (hW : W1 e.W) (hs : Int) (l : Nat) (line : Text) (st : CS)
    (h : RcRows e st) : RcOK e (copyLine e hs l line st) := by
  unfold copyLine
  have h0 : RcRows e (lineInit st) := h
  have hx := prefixHook_ok hW false l 0 (lineInit st)
  obtain ⟨nw, hn, hz, _⟩ := hx.rc
  have h1 : RcRows e (prefixHook e l (lineInit st)) := by
    have hp := hx.pos
    refine ⟨fun p hp' => ?_, by rw [hn, hz rfl]; exact h0.2⟩
    rw [hn, hz rfl] at hp'
    have := h0.1 p hp'
    unfold Later at hp; omega
  generalize prefixHook e l (lineInit st) = s1 at *
  generalize hskip e.W hs line = tr
  obtain ⟨hh, ln, sk⟩ := tr
  simp only []
  have h2 : RcRows e (shiftX s1 hh) := h1
  exact fold_rcOK hW true l sk _ (prefixHook_rcOK hW l) ln _ h2.toOK

theorem copyLines_rcRows {e : Env} (hW : W1 e.W) (hs : Int) (lines : List Text) :
    ∀ (l0 : Nat) (st : CS), RcRows e st → RcRows e (copyLines e hs lines l0 st) := by
  induction lines with
  | nil => intro l0 st h; exact h
  | cons ln rest ih =>
    intro l0 st h
    unfold copyLines
    split
    · have h1 : RcRows e (lineStart hs l0 st) := h
      have h2 := copyLine_rcRows hW hs l0 ln _ h1
      refine ih (l0 + 1) _ ⟨fun p hp => ?_, h2.2⟩
      have := h2.1 p hp
      show p.2.1 < (copyLine e hs l0 ln (lineStart hs l0 st)).y + 1 + e.ypos
      unfold Before at this; omega
    · exact h

/-- **one cell, one position**: after a body copy with one-column cells no two `rowcol_to_yx` entries
    share a screen position, so the inverted dictionary of the mouse handler loses nothing -/
theorem copyBody_rc_injective {e : Env} (hW : W1 e.W) (lines : List Text) (s : Scroll) :
    (copyBody e lines s).rc.Pairwise (fun a b => a.2 ≠ b.2) :=
  (copyLines_rcRows hW s.hs _ s.vs.toNat (initCS s.vs2) (And.intro (fun p hp => nomatch hp) List.Pairwise.nil)).2

theorem yxLookup_of_mem (st : CS) (hinj : st.rc.Pairwise (fun a b => a.2 ≠ b.2))
    (p : (Nat × Nat) × (Int × Int)) (hp : p ∈ st.rc) : yxLookup st p.2 = some p.1 := by
  unfold yxLookup
  generalize st.rc = rc at *
  induction rc with
  | nil => cases hp
  | cons a as ih =>
    rw [List.pairwise_cons] at hinj
    rcases List.mem_cons.mp hp with rfl | hp
    · simp
    · have hne : (a.2 == p.2) = false := by
        have := hinj.1 p hp; simpa using this
      rw [List.find?_cons, hne]
      exact ih hinj.2 hp

theorem clickLoop_hit (st : CS) (y : Int) (x : Nat) (rc : Nat × Nat) (h : yxLookup st (y, (x : Int)) = some rc) :
    clickLoop st y x = rc := by
  cases x with
  | zero => simp [clickLoop, show ((0 : Nat) : Int) = 0 from rfl] at h ⊢; simp [h]
  | succ x => rw [clickLoop, h]

/-! ### the clamp `y = min(max_y, y)` does not move a click on a recorded cell -/

theorem chain_span {same : Bool} {vl : List (Int × Nat × Int)} (h : Chain same vl) :
    ∀ y0 r0 c0, vl.getLast? = some (y0, r0, c0) → ∀ q ∈ vl, q.1 ≤ y0 + (vl.length : Int) - 1 := by
  induction h with
  | nil => intro _ _ _ _ q hq; cases hq
  | single e =>
    intro y0 r0 c0 hl q hq
    simp at hl hq
    subst hq; rw [hl]; simp
  | cons y r r' c c' rest hor hch ih =>
    intro y0 r0 c0 hl q hq
    rw [List.getLast?_cons_cons] at hl
    have := ih y0 r0 c0 hl
    rcases List.mem_cons.mp hq with rfl | hq
    · have := this (y, r, c) (by simp)
      simp only [List.length_cons] at this ⊢
      push_cast at this ⊢; omega
    · have := this q hq
      simp only [List.length_cons] at this ⊢
      push_cast at this ⊢; omega

theorem copyBody_vl_cases (e : Env) (lines : List Text) (s : Scroll) :
    (copyBody e lines s).vl = [] ∨ (copyBody e lines s).vl.getLast? = some (-s.vs2, s.vs.toNat, s.hs) := by
  by_cases h1 : s.vs.toNat < lines.length
  · by_cases h2 : -s.vs2 < e.height
    · exact Or.inr ((rows_consecutive e lines s).2 h1 h2)
    · left
      unfold copyBody
      rw [List.drop_eq_getElem_cons h1, copyLines, if_neg (show ¬ (initCS s.vs2).y < e.height from h2)]
      rfl
  · left
    unfold copyBody
    rw [List.drop_eq_nil_of_le (by omega), copyLines]
    rfl

/-- **a click on a drawn cell maps back** (window level, one-column cells): for every `rowcol_to_yx`
    entry `(row, col) ↦ (Y, X)` of a body copy, the window's mouse handler turns a mouse event at
    `(Y, X)` into `(row, col)` — the clamp to the last displayed row and the leftward search do not
    move it, and no other entry shares the cell -/
theorem click_recorded_cell {e : Env} (hW : W1 e.W) (lines : List Text) (s : Scroll) (hv2 : 0 ≤ s.vs2)
    (p : (Nat × Nat) × (Int × Int)) (hp : p ∈ (copyBody e lines s).rc) (hx : 0 ≤ p.2.2) :
    windowClick (copyBody e lines s) e.ypos p.2.1 p.2.2 = p.1 := by
  have hinj := copyBody_rc_injective hW lines s
  have hlook := yxLookup_of_mem _ hinj p hp
  obtain ⟨⟨c0, hc0⟩, _⟩ := drawn_cell_row_recorded e lines s p hp
  have hch := (rows_consecutive e lines s).1
  have hclamp : p.2.1 ≤ e.ypos + ((copyBody e lines s).vl.length : Int) - 1 := by
    rcases copyBody_vl_cases e lines s with hnil | hlast
    · rw [hnil] at hc0; cases hc0
    · have := chain_span hch _ _ _ hlast _ hc0
      simp only at this; omega
  unfold windowClick
  simp only []
  rw [Int.min_eq_right hclamp, if_neg (by omega)]
  apply clickLoop_hit
  rw [Int.toNat_of_nonneg hx]
  exact hlook

/-- clicking on the cell where the cursor was drawn gives back the cursor's `(row, col)` -/
theorem click_cursor_cell {e : Env} (hW : W1 e.W) (lines : List Text) (s : Scroll) (hv2 : 0 ≤ s.vs2)
    (row col : Nat) (hf : cursorFound (copyBody e lines s) row col = true)
    (hx : 0 ≤ (cursorScreen (copyBody e lines s) row col).2) :
    windowClick (copyBody e lines s) e.ypos (cursorScreen (copyBody e lines s) row col).1
      (cursorScreen (copyBody e lines s) row col).2 = (row, col) := by
  unfold cursorFound at hf
  obtain ⟨p, hfe⟩ := Option.isSome_iff_exists.mp hf
  have hmem := List.mem_of_find?_eq_some hfe
  have hkey : p.1 = (row, col) := by simpa using List.find?_some hfe
  have hcs : cursorScreen (copyBody e lines s) row col = p.2 := by simp [cursorScreen, hfe]
  rw [hcs] at hx ⊢
  rw [click_recorded_cell hW lines s hv2 p hmem hx, hkey]

theorem scrollFor_vs2_nonneg (W : Widths) (c : Cfg) (lines : List Text) (width : Int) (height : Nat) (wrap : Bool)
    (cy cx : Nat) (s : Scroll) : 0 ≤ (scrollFor W c lines width height wrap cy cx s).vs2 := by
  unfold scrollFor
  split
  · split
    · simp
    · unfold scrollWrap
      simp only []
      split
      · show 0 ≤ max _ _; omega
      · exact Int.le_refl _
  · simp [scrollNoWrap]

end Ptk.C11
