/-
  C11 — ARBITRARY cell widths (double-width, zero-width / combining, control characters drawn as ^X),
  the code as it is: footprint of the copy loop (`ExtG`: a cell before the current position is only
  ever extended by merged zero-width characters), the horizontal-scroll skip loop (`skipLoop_spec`),
  and the NO-WRAP window theorem for all inputs (`nowrap_cursor_in_window_gen`).
-/
import Ptk.Props.C11Exact
import Ptk.Props.C11Window
namespace Ptk.C11
open Ptk.Py

/-- every character of `zs` is drawn with zero width (combining characters) -/
def ZW (W : Widths) (zs : Text) : Prop := ∀ z ∈ zs, cellW W z = 0

theorem ZW.nil (W : Widths) : ZW W [] := by intro z hz; cases hz

theorem ZW.append {W : Widths} {a b : Text} (ha : ZW W a) (hb : ZW W b) : ZW W (a ++ b) := by
  intro z hz
  rcases List.mem_append.mp hz with h | h
  · exact ha z h
  · exact hb z h

theorem measWidth_dm {W : Widths} (hdm : W.dm = true) (t : Text) : measWidth W t = cellsWidth W t := by
  induction t with
  | nil => rfl
  | cons c cs ih => simp [measWidth, cellsWidth, measure, hdm, ih]

/-- `p` comes strictly before `(y0, x0)` in reading order -/
def Before (y0 x0 : Int) (p : Int × Int) : Prop := p.1 < y0 ∨ (p.1 = y0 ∧ p.2 < x0)

theorem cellAt_cons (q : Int × Int) (t : Text) (cells : List ((Int × Int) × Text)) (p : Int × Int) :
    cellAt ((q, t) :: cells) p = if q = p then t else cellAt cells p := by
  unfold cellAt
  simp only [List.find?_cons]
  by_cases h : q = p
  · simp [h]
  · have : (q == p) = false := by simpa using h
    simp [this, h]

theorem cellAt_eraseRight (y x : Int) (p : Int × Int) (n : Nat) :
    ∀ (cells : List ((Int × Int) × Text)) (i : Nat), (∀ j : Nat, i ≤ j → p ≠ (y, x + j)) →
      cellAt (eraseRight cells y x n i) p = cellAt cells p := by
  induction n with
  | zero => intro cells i _; rfl
  | succ n ih =>
    intro cells i h
    rw [eraseRight, ih _ _ (fun j hj => h j (by omega)), cellAt_cons, if_neg]
    exact fun he => h i (Nat.le_refl _) he.symm

theorem cellAt_mergeZero (W : Widths) (cells : List ((Int × Int) × Text)) (y x xr : Int) (c : Char)
    (pw : Int) (p : Int × Int) :
    cellAt (mergeZero W cells y x xr c pw) p = cellAt cells p ∨
      (p = (y, x - pw) ∧ cellAt (mergeZero W cells y x xr c pw) p = cellAt cells p ++ [c]) := by
  unfold mergeZero
  split
  · rw [cellAt_cons]
    by_cases h : (y, x - pw) = p
    · right; subst h; simp
    · left; simp [h]
  · left; rfl

/-- footprint of a piece of the copy loop for ARBITRARY cell widths: it moves forward in reading
    order; a cell strictly before its starting point is only ever extended by zero-width characters
    (merged combining characters); new `rowcol_to_yx` entries are for line `lineno`, columns
    `≥ a.col + skipped` -/
structure ExtG (e : Env) (isInput : Bool) (lineno skipped : Nat) (a r : CS) : Prop where
  pos : Later a.y a.x r.y r.x
  col : a.col ≤ r.col
  cells : ∀ p, Before (a.y + e.ypos) (a.x + e.xpos) p →
    ∃ zs, ZW e.W zs ∧ cellAt r.cells p = cellAt a.cells p ++ zs
  rc : ∃ nw, r.rc = nw ++ a.rc ∧ (isInput = false → nw = []) ∧
    ∀ p ∈ nw, p.1.1 = lineno ∧ a.col + skipped ≤ p.1.2

theorem ExtG.refl (e : Env) (i : Bool) (l s : Nat) (a : CS) : ExtG e i l s a a :=
  ⟨Or.inr ⟨rfl, Int.le_refl _⟩, Nat.le_refl _, fun _ _ => ⟨[], ZW.nil _, by simp⟩,
   ⟨[], rfl, by simp, by simp⟩⟩

theorem ExtG.trans {e : Env} {i : Bool} {l s : Nat} {a b c : CS} (h1 : ExtG e i l s a b)
    (h2 : ExtG e i l s b c) : ExtG e i l s a c := by
  obtain ⟨p1, c1, f1, ⟨m1, g1, z1, k1⟩⟩ := h1
  obtain ⟨p2, c2, f2, ⟨m2, g2, z2, k2⟩⟩ := h2
  refine ⟨p1.trans p2, Nat.le_trans c1 c2, ?_, ⟨m2 ++ m1, by simp [g2, g1], fun h => by simp [z1 h, z2 h], ?_⟩⟩
  · intro p hp
    obtain ⟨zs1, hz1, e1⟩ := f1 p hp
    have hp2 : Before (b.y + e.ypos) (b.x + e.xpos) p := by
      unfold Before Later at *; omega
    obtain ⟨zs2, hz2, e2⟩ := f2 p hp2
    exact ⟨zs1 ++ zs2, hz1.append hz2, by rw [e2, e1, List.append_assoc]⟩
  · intro p hp
    rcases List.mem_append.mp hp with hp | hp
    · have := k2 p hp; exact ⟨this.1, by omega⟩
    · exact k1 p hp

theorem putChar_extG (e : Env) (i : Bool) (l s : Nat) (st : CS) (c : Char) :
    ExtG e i l s st (putChar e i l s st c) := by
  have hpos : Later st.y st.x (putChar e i l s st c).y (putChar e i l s st c).x := by
    obtain ⟨gx, gy, _⟩ := putChar_geom_gen e i l s st c
    rw [gx, gy]; exact Or.inr ⟨rfl, by omega⟩
  have hcol : st.col ≤ (putChar e i l s st c).col := by
    obtain ⟨_, _, _, gc, _⟩ := putChar_geom_gen e i l s st c
    rw [gc]; omega
  refine ⟨hpos, hcol, ?_, ?_⟩
  · intro p hp
    unfold putChar
    simp only []
    split
    · simp only []
      split
      · refine ⟨[], ZW.nil _, ?_⟩
        rw [cellAt_eraseRight _ _ _ _ _ _ (fun j hj he => by
          unfold Before at hp; rw [he] at hp; simp at hp; omega), cellAt_cons, if_neg]
        · simp
        · intro he; unfold Before at hp; rw [← he] at hp; simp at hp
      · split
        · rename_i hw0
          have hbase : cellAt (((st.y + e.ypos, st.x + e.xpos), e.W.disp c) :: st.cells) p = cellAt st.cells p := by
            rw [cellAt_cons, if_neg]
            intro he; unfold Before at hp; rw [← he] at hp; simp at hp
          have hz : ZW e.W [c] := by intro z hz; simp at hz; subst hz; exact hw0
          rcases cellAt_mergeZero e.W (mergeZero e.W (((st.y + e.ypos, st.x + e.xpos), e.W.disp c) :: st.cells)
            (st.y + e.ypos) (st.x + e.xpos) st.x c 2) (st.y + e.ypos) (st.x + e.xpos) st.x c 1 p with h1 | ⟨h1p, h1⟩ <;>
          rcases cellAt_mergeZero e.W (((st.y + e.ypos, st.x + e.xpos), e.W.disp c) :: st.cells)
            (st.y + e.ypos) (st.x + e.xpos) st.x c 2 p with h2 | ⟨h2p, h2⟩
          · exact ⟨[], ZW.nil _, by rw [h1, h2, hbase]; simp⟩
          · exact ⟨[c], hz, by rw [h1, h2, hbase]⟩
          · exact ⟨[c], hz, by rw [h1, h2, hbase]⟩
          · rw [h1p] at h2p; simp at h2p
        · refine ⟨[], ZW.nil _, ?_⟩
          rw [cellAt_cons, if_neg]
          · simp
          · intro he; unfold Before at hp; rw [← he] at hp; simp at hp
    · exact ⟨[], ZW.nil _, by simp⟩
  · unfold putChar
    simp only []
    split
    · cases i
      · exact ⟨[], by simp, by simp, by simp⟩
      · exact ⟨[((l, st.col + s), (st.y + e.ypos, st.x + e.xpos))], by simp, by simp, by simp⟩
    · exact ⟨[], by simp, by simp, by simp⟩

/-- contract of the continuation-prefix hook (any widths) -/
def HookOKG (e : Env) (i : Bool) (l s : Nat) (hook : CS → CS) : Prop := ∀ st, ExtG e i l s st (hook st)

theorem wrapSt_extG (e : Env) (i : Bool) (l s : Nat) (st : CS) : ExtG e i l s st (wrapSt l st) :=
  ⟨Or.inl (by show st.y < st.y + 1; omega), by simp [wrapSt], fun _ _ => ⟨[], ZW.nil _, by simp [wrapSt]⟩,
   ⟨[], by simp [wrapSt], by simp, by simp⟩⟩

theorem step_extG (e : Env) (i : Bool) (l s : Nat) (hook : CS → CS)
    (hh : HookOKG e i l s hook) (st : CS) (c : Char) :
    ExtG e i l s st (step e i l s hook st c) := by
  unfold step
  split
  · exact ExtG.refl ..
  · split
    · have h2 := (wrapSt_extG e i l s st).trans (hh _)
      simp only []
      split
      · exact ⟨h2.pos, h2.col, h2.cells, h2.rc⟩
      · exact h2.trans (putChar_extG ..)
    · exact putChar_extG ..

theorem fold_extG (e : Env) (i : Bool) (l s : Nat) (hook : CS → CS)
    (hh : HookOKG e i l s hook) (cs : Text) (st : CS) :
    ExtG e i l s st (cs.foldl (step e i l s hook) st) := by
  induction cs generalizing st with
  | nil => exact ExtG.refl ..
  | cons c cs ih => exact (step_extG e i l s hook hh st c).trans (ih _)

theorem copyPlain_extG (e : Env) (i : Bool) (l s : Nat) (st : CS) (t : Text) :
    ExtG e i l s st (copyPlain e l st t) := by
  unfold copyPlain
  have h := fold_extG e false l 0 id (fun s => ExtG.refl ..) t { st with col := 0, wc := 0, ret := false }
  obtain ⟨p, _, c, ⟨nw, hn, hz, _⟩⟩ := h
  refine ⟨p, Nat.le_refl _, c, ⟨[], ?_, by simp, by simp⟩⟩
  simp [hn, hz rfl]

theorem prefixHook_okG (e : Env) (i : Bool) (l s : Nat) : HookOKG e i l s (prefixHook e l) := by
  intro st
  unfold prefixHook
  split
  · exact ExtG.refl ..
  · exact copyPlain_extG ..

/-! ### the horizontal-scroll skip loop, any widths -/

theorem measWidth_take_succ (W : Widths) (c : Char) (cs : Text) (j : Nat) :
    measWidth W ((c :: cs).take (j + 1)) = measure W c + measWidth W (cs.take j) := rfl

theorem skipLoop_spec (W : Widths) (line : Text) :
    ∀ (h : Int) (k : Nat), ∃ j, j ≤ line.length ∧
      skipLoop W h line k = (h - (measWidth W (line.take j) : Nat), line.drop j, k + j) ∧
      (∀ i, i < j → 0 < h - (measWidth W (line.take i) : Nat)) ∧
      (j < line.length → h - (measWidth W (line.take j) : Nat) ≤ 0) := by
  induction line with
  | nil => intro h k; exact ⟨0, by simp, by simp [skipLoop, measWidth], by simp, by simp⟩
  | cons c cs ih =>
    intro h k
    by_cases hp : h > 0
    · obtain ⟨j, j1, j2, j3, j4⟩ := ih (h - (measure W c : Nat)) (k + 1)
      refine ⟨j + 1, by simp; omega, ?_, ?_, ?_⟩
      · rw [skipLoop, if_pos hp, j2, measWidth_take_succ]
        simp only [List.drop_succ_cons]
        congr 1
        · push_cast; omega
        · congr 1; omega
      · intro i hi
        cases i with
        | zero => simp [measWidth]; omega
        | succ i =>
          have := j3 i (by omega)
          rw [measWidth_take_succ]; push_cast; omega
      · intro hj
        have := j4 (by simpa using hj)
        rw [measWidth_take_succ]; push_cast; omega
    · refine ⟨0, by simp, ?_, by simp, ?_⟩
      · rw [skipLoop, if_neg hp]; simp [measWidth]
      · intro _; simp [measWidth]; omega

/-- the skip before the cursor: with `0 ≤ hs ≤ width of the text before the cursor`, the loop stops
    at some `j` at or before the cursor column, with a non-positive remainder -/
theorem hskip_spec (W : Widths) (a : Text) (c : Char) (b : Text) (hs : Nat)
    (hle : hs ≤ measWidth W a) :
    ∃ j, j ≤ a.length ∧
      hskip W (hs : Int) (a ++ c :: b) = ((hs : Int) - (measWidth W (a.take j) : Nat), (a ++ c :: b).drop j, j) ∧
      (hs : Int) - (measWidth W (a.take j) : Nat) ≤ 0 := by
  unfold hskip
  split
  · obtain ⟨j, j1, j2, j3, j4⟩ := skipLoop_spec W (a ++ c :: b) (hs : Int) 0
    have hja : j ≤ a.length := by
      rcases Nat.lt_or_ge a.length j with hlt | hge
      · have := j3 a.length hlt
        rw [List.take_left' rfl] at this
        omega
      · exact hge
    have htk : (a ++ c :: b).take j = a.take j := List.take_append_of_le_length hja
    refine ⟨j, hja, by rw [j2, htk]; simp, ?_⟩
    have := j4 (by simp; omega)
    rw [htk] at this; exact this
  · rename_i h0
    have : hs = 0 := by simpa using h0
    subst this
    exact ⟨0, by simp, by simp [measWidth], by simp [measWidth]⟩

/-! ### no wrapping, any widths -/

theorem fold_nowrap_gen (e : Env) (hwrap : e.wrap = false) (i : Bool) (l s : Nat) (hook : CS → CS) (cs : Text) :
    ∀ (st : CS), st.ret = false →
      let r := cs.foldl (step e i l s hook) st
      r.x = st.x + cellsWidth e.W cs ∧ r.y = st.y ∧ r.wc = st.wc ∧ r.col = st.col + cs.length ∧ r.ret = false := by
  induction cs with
  | nil => intro st hr; simp [hr, cellsWidth]
  | cons c cs ih =>
    intro st hr
    obtain ⟨gx, gy, gw, gc, gr⟩ := putChar_geom_gen e i l s st c
    simp only [List.foldl_cons, step_nowrap hwrap i l s hook st c hr]
    obtain ⟨a1, a2, a3, a4, a5⟩ := ih (putChar e i l s st c) (by rw [gr, hr])
    refine ⟨by rw [a1, gx]; simp only [cellsWidth]; push_cast; omega, by rw [a2, gy], by rw [a3, gw],
      by rw [a4, gc]; simp; omega, a5⟩

/-- drawing a visible character at least one column wide: its cell shows it, `rowcol_to_yx` gets
    its entry -/
theorem putChar_cursor_gen (e : Env) (l s : Nat) (st : CS) (c : Char)
    (hv : 0 ≤ st.x ∧ 0 ≤ st.y ∧ st.x < e.width) :
    let r := putChar e true l s st c
    (1 ≤ cellW e.W c → cellAt r.cells (st.y + e.ypos, st.x + e.xpos) = e.W.disp c) ∧
      r.rc = ((l, st.col + s), (st.y + e.ypos, st.x + e.xpos)) :: st.rc := by
  unfold putChar
  simp only [hv, and_self, if_true]
  constructor
  · intro hw
    split
    · rw [cellAt_eraseRight _ _ _ _ _ _ (fun j hj he => by simp at he; omega), cellAt_cons, if_pos rfl]
    · rw [if_neg (by omega), cellAt_cons, if_pos rfl]
  · trivial

theorem cellsWidth_append (W : Widths) (a b : Text) : cellsWidth W (a ++ b) = cellsWidth W a + cellsWidth W b := by
  induction a with
  | nil => simp [cellsWidth]
  | cons c cs ih => simp [cellsWidth, ih]; omega

theorem cellsWidth_take_drop (W : Widths) (a : Text) (j : Nat) :
    cellsWidth W (a.take j) + cellsWidth W (a.drop j) = cellsWidth W a := by
  rw [← cellsWidth_append, List.take_append_drop]

/-- the cursor cell of an unwrapped line, ANY cell widths (wide, zero-width, control characters):
    drawn at column `prefix + (display width of the text before the cursor) − horizontal_scroll` of its
    row; later characters only merge zero-width characters into it -/
theorem copyLine_nowrap_cursor_gen {e : Env} (hdm : e.W.dm = true) (hwrap : e.wrap = false) (l : Nat)
    (a b : Text) (c : Char) (hs : Nat) (hhs : hs ≤ cellsWidth e.W a)
    (st : CS) (hx : st.x = 0) (hy0 : 0 ≤ st.y)
    (hvis : ((pwD e l 0 + cellsWidth e.W a - hs : Nat) : Int) < e.width) :
    let r := copyLine e hs l (a ++ c :: b) st
    let xc := pwD e l 0 + cellsWidth e.W a - hs
    r.rc.find? (fun p => p.1 == (l, a.length)) = some ((l, a.length), (st.y + e.ypos, (xc : Int) + e.xpos)) ∧
      (1 ≤ cellW e.W c →
        ∃ zs, ZW e.W zs ∧ cellAt r.cells (st.y + e.ypos, (xc : Int) + e.xpos) = e.W.disp c ++ zs) ∧
      r.y = st.y := by
  unfold copyLine
  obtain ⟨j, hj, hsk, hrem⟩ := hskip_spec e.W a c b hs (by rw [measWidth_dm hdm]; exact hhs)
  rw [hsk]
  simp only []
  rw [measWidth_dm hdm] at hrem ⊢
  have hdrop : (a ++ c :: b).drop j = (a.drop j ++ [c]) ++ b := by
    rw [List.drop_append_of_le_length hj]; simp
  rw [hdrop, List.foldl_append, List.foldl_append]
  have hg := prefixHook_geom_gen e l (fun h => by simp [hwrap] at h)
  obtain ⟨q1, q2, q3, q4, q5⟩ := hg (lineInit st) hx rfl
  simp only [lineInit_y, lineInit_wc, lineInit_col] at q1 q2 q3 q4
  generalize prefixHook e l (lineInit st) = s1 at *
  have hsplit := cellsWidth_take_drop e.W a j
  have hsr : (shiftX s1 ((hs : Int) - (cellsWidth e.W (a.take j) : Nat))).ret = false := q5
  obtain ⟨f1, f2, _, f4, f5⟩ := fold_nowrap_gen e hwrap true l j (prefixHook e l) (a.drop j)
    (shiftX s1 ((hs : Int) - (cellsWidth e.W (a.take j) : Nat))) hsr
  generalize List.foldl (step e true l j (prefixHook e l))
    (shiftX s1 ((hs : Int) - (cellsWidth e.W (a.take j) : Nat))) (a.drop j) = m1 at *
  simp only [List.foldl_cons, List.foldl_nil]
  rw [step_nowrap hwrap true l j _ m1 c f5]
  have hm1x : m1.x = ((pwD e l 0 + cellsWidth e.W a - hs : Nat) : Int) := by
    rw [f1]; show s1.x - _ + _ = _; rw [q1]; push_cast at hrem ⊢; omega
  have hm1y : m1.y = st.y := by rw [f2]; exact q2
  have hv : 0 ≤ m1.x ∧ 0 ≤ m1.y ∧ m1.x < e.width := by
    refine ⟨by rw [hm1x]; simp, by rw [hm1y]; exact hy0, by rw [hm1x]; exact hvis⟩
  obtain ⟨k1, k2⟩ := putChar_cursor_gen e l j m1 c hv
  obtain ⟨gx, gy, _, gc, gr⟩ := putChar_geom_gen e true l j m1 c
  have hext := fold_extG e true l j (prefixHook e l) (prefixHook_okG e true l j) b (putChar e true l j m1 c)
  obtain ⟨a1, a2, _, _, _⟩ := fold_nowrap_gen e hwrap true l j (prefixHook e l) b (putChar e true l j m1 c)
    (by rw [gr, f5])
  generalize putChar e true l j m1 c = m2 at *
  obtain ⟨nr, hnr, _, hkeys⟩ := hext.rc
  have hcells := hext.cells
  generalize List.foldl (step e true l j (prefixHook e l)) m2 b = r at *
  have hcol : m1.col + j = a.length := by
    rw [f4]; show s1.col + _ + _ = _; rw [q4]; simp; omega
  rw [hm1y, hm1x] at k1 k2
  rw [hcol] at k2
  refine ⟨?_, ?_, by rw [a2, gy, hm1y]⟩
  · rw [hnr, find_rc_append, k2]
    · simp
    · intro p hp he
      have := (hkeys p hp).2
      rw [he, gc] at this; simp at this; omega
  · intro hc
    obtain ⟨zs, hz, hzc⟩ := hcells (st.y + e.ypos, ((pwD e l 0 + cellsWidth e.W a - hs : Nat) : Int) + e.xpos) (by
      right; rw [gy, gx, hm1y, hm1x]; simp; omega)
    exact ⟨zs, hz, by rw [hzc, k1 hc]⟩

/-! ### whole lines, any widths -/

/-- weak footprint of copying lines starting at `a` (any widths): never moves up; cells on rows
    above `a.y` are only extended by zero-width characters; new `rowcol_to_yx` entries are for
    lines `≥ l0` -/
structure ExtYG (e : Env) (l0 : Nat) (a r : CS) : Prop where
  y : a.y ≤ r.y
  cells : ∀ p : Int × Int, p.1 < a.y + e.ypos → ∃ zs, ZW e.W zs ∧ cellAt r.cells p = cellAt a.cells p ++ zs
  rc : ∃ nw, r.rc = nw ++ a.rc ∧ ∀ p ∈ nw, l0 ≤ p.1.1

theorem ExtYG.refl (e : Env) (l0 : Nat) (a : CS) : ExtYG e l0 a a :=
  ⟨Int.le_refl _, fun _ _ => ⟨[], ZW.nil _, by simp⟩, ⟨[], rfl, by simp⟩⟩

theorem ExtYG.trans {e : Env} {l0 l1 : Nat} {a b c : CS} (hl : l0 ≤ l1) (h1 : ExtYG e l0 a b)
    (h2 : ExtYG e l1 b c) : ExtYG e l0 a c := by
  obtain ⟨y1, f1, ⟨m1, g1, k1⟩⟩ := h1
  obtain ⟨y2, f2, ⟨m2, g2, k2⟩⟩ := h2
  refine ⟨Int.le_trans y1 y2, ?_, ⟨m2 ++ m1, by simp [g2, g1], ?_⟩⟩
  · intro p hp
    obtain ⟨z1, hz1, e1⟩ := f1 p hp
    obtain ⟨z2, hz2, e2⟩ := f2 p (by omega)
    exact ⟨z1 ++ z2, hz1.append hz2, by rw [e2, e1, List.append_assoc]⟩
  · intro p hp
    rcases List.mem_append.mp hp with hp | hp
    · have := k2 p hp; omega
    · exact k1 p hp

theorem ExtG.toExtYG {e : Env} {i : Bool} {l s : Nat} {a r : CS} (h : ExtG e i l s a r) : ExtYG e l a r := by
  obtain ⟨p, _, f, ⟨m, em, _, km⟩⟩ := h
  refine ⟨by unfold Later at p; omega, fun q hq => f q (Or.inl hq), ⟨m, em, fun q hq => ?_⟩⟩
  have := (km q hq).1; omega

theorem copyLine_extYG (e : Env) (hs : Int) (l : Nat) (line : Text) (st : CS) :
    ExtYG e l st (copyLine e hs l line st) := by
  unfold copyLine
  have h1 : ExtYG e l st (prefixHook e l (lineInit st)) := by
    have := (prefixHook_okG e true l 0 (lineInit st)).toExtYG
    exact ⟨this.y, this.cells, this.rc⟩
  generalize prefixHook e l (lineInit st) = s1 at *
  generalize hskip e.W hs line = tr
  obtain ⟨h, ln, sk⟩ := tr
  simp only []
  have h2 : ExtYG e l s1 (shiftX s1 h) := ⟨Int.le_refl _, fun _ _ => ⟨[], ZW.nil _, by simp [shiftX]⟩, ⟨[], rfl, by simp⟩⟩
  have h3 := (fold_extG e true l sk (prefixHook e l) (prefixHook_okG e true l sk) ln (shiftX s1 h)).toExtYG
  exact (h1.trans (Nat.le_refl _) h2).trans (Nat.le_refl _) h3

theorem copyLines_extYG (e : Env) (hs : Int) (lines : List Text) :
    ∀ (l0 : Nat) (st : CS), ExtYG e l0 st (copyLines e hs lines l0 st) := by
  induction lines with
  | nil => intro l0 st; exact ExtYG.refl ..
  | cons ln rest ih =>
    intro l0 st
    unfold copyLines
    split
    · have h1 : ExtYG e l0 st (lineStart hs l0 st) :=
        ⟨Int.le_refl _, fun _ _ => ⟨[], ZW.nil _, by simp [lineStart]⟩, ⟨[], rfl, by simp⟩⟩
      have h2 := copyLine_extYG e hs l0 ln (lineStart hs l0 st)
      generalize copyLine e hs l0 ln (lineStart hs l0 st) = s2 at *
      have h3 : ExtYG e l0 s2 (lineEnd s2) :=
        ⟨by show s2.y ≤ s2.y + 1; omega, fun _ _ => ⟨[], ZW.nil _, by simp [lineEnd]⟩, ⟨[], rfl, by simp⟩⟩
      have h4 := ih (l0 + 1) (lineEnd s2)
      exact ExtYG.trans (Nat.le_succ l0) ((h1.trans (Nat.le_refl _) h2).trans (Nat.le_refl _) h3) h4
    · exact ExtYG.refl ..

/-- without wrapping a line stays on its row (any widths) -/
theorem copyLine_nowrap_y_gen (e : Env) (hwrap : e.wrap = false) (hs : Int) (l : Nat)
    (line : Text) (st : CS) (hx : st.x = 0) : (copyLine e hs l line st).y = st.y := by
  unfold copyLine
  have hg := prefixHook_geom_gen e l (fun h => by simp [hwrap] at h)
  obtain ⟨_, q2, _, _, q5⟩ := hg (lineInit st) hx rfl
  generalize prefixHook e l (lineInit st) = s1 at *
  generalize hskip e.W hs line = tr
  obtain ⟨h, ln, sk⟩ := tr
  have := fold_nowrap_gen e hwrap true l sk (prefixHook e l) ln (shiftX s1 h) q5
  simp only []
  rw [this.2.1]; exact q2

theorem copyLines_nowrap_y_gen (e : Env) (hwrap : e.wrap = false) (hs : Int) (pre : List Text) :
    ∀ (l0 : Nat) (st : CS), st.y + pre.length ≤ e.height →
      (copyLines e hs pre l0 st).y = st.y + pre.length := by
  induction pre with
  | nil => intro l0 st _; simp [copyLines]
  | cons t ts ih =>
    intro l0 st hy
    simp only [List.length_cons] at hy ⊢
    push_cast at hy ⊢
    rw [copyLines, if_pos (by omega)]
    have h1 : (lineEnd (copyLine e hs l0 t (lineStart hs l0 st))).y = st.y + 1 := by
      show (copyLine e hs l0 t (lineStart hs l0 st)).y + 1 = _
      rw [copyLine_nowrap_y_gen e hwrap _ _ _ _ rfl]; rfl
    rw [ih (l0 + 1) _ (by rw [h1]; omega), h1]; omega

/-- **the cursor cell after an unwrapped render, ANY cell widths** (model level) -/
theorem copyBody_nowrap_cursor_gen {e : Env} (hdm : e.W.dm = true) (hwrap : e.wrap = false)
    (lines pre post : List Text) (a b : Text) (c : Char) (s : Scroll)
    (vs hs : Nat) (hvs : s.vs = vs) (hhs : s.hs = hs) (hv2 : s.vs2 = 0)
    (hsplit : lines.drop vs = pre ++ (a ++ c :: b) :: post)
    (hrow : (pre.length : Int) < e.height) (hle : hs ≤ cellsWidth e.W a)
    (hvis : ((pwD e (vs + pre.length) 0 + cellsWidth e.W a - hs : Nat) : Int) < e.width) :
    let r := copyBody e lines s
    let xc := pwD e (vs + pre.length) 0 + cellsWidth e.W a - hs
    cursorFound r (vs + pre.length) a.length = true ∧
      cursorScreen r (vs + pre.length) a.length = ((pre.length : Int) + e.ypos, (xc : Int) + e.xpos) ∧
      (1 ≤ cellW e.W c →
        ∃ zs, ZW e.W zs ∧ cellAt r.cells ((pre.length : Int) + e.ypos, (xc : Int) + e.xpos) = e.W.disp c ++ zs) := by
  unfold copyBody
  rw [hvs, hhs, hv2]
  simp only [Int.toNat_natCast]
  rw [hsplit, copyLines_append]
  have hpre := copyLines_nowrap_y_gen e hwrap hs pre vs (initCS 0) (by show -0 + _ ≤ _; omega)
  have hpre : (copyLines e hs pre vs (initCS 0)).y = pre.length := by rw [hpre]; show -0 + _ = _; omega
  generalize copyLines e hs pre vs (initCS 0) = s1 at *
  rw [copyLines, if_pos (by omega)]
  have hc := copyLine_nowrap_cursor_gen hdm hwrap (vs + pre.length) a b c hs hle (lineStart hs (vs + pre.length) s1)
    rfl (by show 0 ≤ s1.y; omega) hvis
  obtain ⟨hfind, hcell, hy2⟩ := hc
  have hsy : (lineStart (hs : Int) (vs + pre.length) s1).y = pre.length := hpre
  rw [hsy] at hfind hcell hy2
  generalize copyLine e hs (vs + pre.length) (a ++ c :: b) (lineStart hs (vs + pre.length) s1) = s2 at *
  have hpost := copyLines_extYG e hs post (vs + pre.length + 1) (lineEnd s2)
  obtain ⟨_, hcy, ⟨nr, hnr, hrw⟩⟩ := hpost
  have hnr : (copyLines e hs post (vs + pre.length + 1) (lineEnd s2)).rc = nr ++ s2.rc := hnr
  have hfind' : (copyLines e hs post (vs + pre.length + 1) (lineEnd s2)).rc.find?
      (fun p => p.1 == (vs + pre.length, a.length)) =
      some ((vs + pre.length, a.length), ((pre.length : Int) + e.ypos,
        ((pwD e (vs + pre.length) 0 + cellsWidth e.W a - hs : Nat) : Int) + e.xpos)) := by
    rw [hnr, find_rc_append _ _ _ (fun p hp he => by have := hrw p hp; rw [he] at this; simp at this; omega)]
    exact hfind
  refine ⟨?_, ?_, ?_⟩
  · simp [cursorFound, hfind']
  · simp [cursorScreen, hfind']
  · intro hcw
    obtain ⟨zs, hz, hcell⟩ := hcell hcw
    obtain ⟨zs2, hz2, hc2⟩ := hcy ((pre.length : Int) + e.ypos,
      ((pwD e (vs + pre.length) 0 + cellsWidth e.W a - hs : Nat) : Int) + e.xpos) (by
        show _ < (lineEnd s2).y + e.ypos
        have hy3 : (lineEnd s2).y = s2.y + 1 := rfl
        rw [hy3, hy2]; simp; omega)
    have hc2' : cellAt (copyLines e hs post (vs + pre.length + 1) (lineEnd s2)).cells _ = cellAt s2.cells _ ++ zs2 := hc2
    exact ⟨zs ++ zs2, hz.append hz2, by rw [hc2', hcell, List.append_assoc]⟩

theorem pwD_envFor (W : Widths) (c : Cfg) (width : Int) (height : Nat) (wrap : Bool) (mw l : Nat) :
    pwD (envFor W c width height wrap mw) l = fun k =>
      match c.prefixFn with
      | none => 0
      | some f => cellsWidth W (f l k) := rfl

/-- **nowrap_cursor_in_window for ANY cell widths** (double-width, zero-width / combining, control
    characters drawn as `^X`), the code as it is (the scroll code measures characters as drawn, `dm`).
    Wrapping off, window at least 1 high, the cursor line's prefix narrower than the window and
    measured as it is drawn, something at or after the cursor at least one column wide (the trailing
    blank of `BufferControl`): for EVERY previous scroll state the cursor cell is recorded by
    `rowcol_to_yx` at row `cy - vertical_scroll`, inside the window; and when the character under the
    cursor is at least one column wide, the screen cell there shows it (followed only by the zero-width
    characters merged into it). -/
theorem nowrap_cursor_in_window_gen {W : Widths} (hdm : W.dm = true) (c : Cfg) (lines : List Text)
    (w height mw : Nat) (hh : 1 ≤ height)
    (hpfx : match c.prefixFn with
      | none => 1 ≤ w
      | some f => ∀ l, cellsWidth W (f l 0) < w ∧ textWidth W (f l 0) = cellsWidth W (f l 0))
    (cy cx : Nat) (hcy : cy < lines.length) (hcx : cx < (lines.getD cy []).length)
    (hafter : cellsWidth W ((lines.getD cy []).take cx) < cellsWidth W (lines.getD cy [])) (s : Scroll) :
    let s' := scrollFor W c lines w height false cy cx s
    let r := copyBody (envFor W c w height false mw) lines s'
    ∃ (yc xc : Nat), yc < height ∧ xc < w ∧ (yc : Int) = cy - s'.vs ∧ cursorFound r cy cx = true ∧
      cursorScreen r cy cx = ((yc : Int) + c.ypos, (xc : Int) + (c.xpos + mw)) ∧
      (1 ≤ cellW W ((lines.getD cy [])[cx]) → ∃ zs, ZW W zs ∧
        cellAt r.cells ((yc : Int) + c.ypos, (xc : Int) + (c.xpos + mw)) = W.disp ((lines.getD cy [])[cx]) ++ zs) := by
  intro s' r
  let e := envFor W c w height false mw
  have hline : lines.getD cy [] = lines[cy] := by simp [List.getD, hcy]
  have hcx' : cx < lines[cy].length := by rw [← hline]; exact hcx
  have hdec := split_at lines[cy] cx hcx'
  have hch : (lines.getD cy [])[cx] = lines[cy][cx] := List.getElem_of_eq hline _
  rw [hline] at hafter
  have hp0 : pwD e cy 0 < w ∧ prefix0Width W c.prefixFn cy = pwD e cy 0 := by
    show pwD (envFor W c w height false mw) cy 0 < w ∧ _ = pwD (envFor W c w height false mw) cy 0
    rw [pwD_envFor]; unfold prefix0Width
    cases h : c.prefixFn with
    | none => rw [h] at hpfx; exact ⟨hpfx, rfl⟩
    | some f => rw [h] at hpfx; exact ⟨(hpfx cy).1, (hpfx cy).2⟩
  obtain ⟨hp0, hp0e⟩ := hp0
  -- the scroll state
  have hv := doScroll_visible c.beyond s.vs c.top c.bottom cy height lines.length (by omega) (by omega)
    (by omega) (by omega) (by omega)
  have hh' := doScroll_visible c.beyond s.hs c.left c.right (cellsWidth W (lines[cy].take cx)) ((w : Int) - pwD e cy 0)
    (max (cellsWidth W lines[cy] : Int) (s.hs + w)) (by omega) (by omega) (by omega) (by omega) (by omega)
  have hs' : s' = { vs := doScroll c.beyond s.vs c.top c.bottom cy height lines.length,
                    hs := doScroll c.beyond s.hs c.left c.right (cellsWidth W (lines[cy].take cx)) ((w : Int) - pwD e cy 0)
                            (max (cellsWidth W lines[cy] : Int) (s.hs + w)),
                    vs2 := 0 } := by
    show scrollFor W c lines w height false cy cx s = _
    unfold scrollFor scrollNoWrap
    simp only [Bool.false_eq_true, if_false]
    rw [hp0e, measWidth_dm hdm, measWidth_dm hdm, hline]
  generalize doScroll c.beyond s.vs c.top c.bottom cy height lines.length = V at *
  generalize doScroll c.beyond s.hs c.left c.right (cellsWidth W (lines[cy].take cx)) ((w : Int) - pwD e cy 0)
    (max (cellsWidth W lines[cy] : Int) (s.hs + w)) = H at *
  have hlen : (lines[cy].take cx).length = cx := by simp; omega
  have hpl : ((lines.drop V.toNat).take (cy - V.toNat)).length = cy - V.toNat := by simp; omega
  have := copyBody_nowrap_cursor_gen (e := e) hdm rfl lines ((lines.drop V.toNat).take (cy - V.toNat))
    (lines.drop (cy + 1)) (lines[cy].take cx) (lines[cy].drop (cx + 1)) lines[cy][cx] s' V.toNat H.toNat
    (by rw [hs']; simp; omega) (by rw [hs']; simp; omega) (by rw [hs'])
    (by rw [← hdec]; exact drop_split lines V.toNat cy (by omega) hcy)
    (by rw [hpl]; show ((cy - V.toNat : Nat) : Int) < (height : Int); omega)
    (by show H.toNat ≤ cellsWidth W (lines[cy].take cx); omega)
    (by rw [hpl]
        have : V.toNat + (cy - V.toNat) = cy := by omega
        rw [this]; show ((pwD e cy 0 + cellsWidth W (lines[cy].take cx) - H.toNat : Nat) : Int) < (w : Int); omega)
  rw [hpl, hlen] at this
  have hvc : V.toNat + (cy - V.toNat) = cy := by omega
  rw [hvc] at this
  obtain ⟨f1, f2, f3⟩ := this
  refine ⟨cy - V.toNat, pwD e cy 0 + cellsWidth W (lines[cy].take cx) - H.toNat, by omega, by omega,
    by rw [hs']; simp; omega, f1, ?_, ?_⟩
  · rw [f2]; rfl
  · rw [hch]; exact f3

end Ptk.C11
