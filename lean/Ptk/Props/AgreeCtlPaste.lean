/-
  Cross-model agreement, cluster "undo stack, validation, coroutine guard, typeahead, parser glue".

  Part 4a — `Vt100Parser.feed` (src/prompt_toolkit/input/vt100_parser.py: paste mode, the re-feed
  of the remaining data, `_call_handler`'s switch to paste mode): C03 (`Ptk.C03.feed`, the full
  parser over its own state `Ptk.C03.St`) vs C17 (`Ptk.C17.Paste.feed`, paste mode in front of a
  PARAMETRIC normal-mode generator `Norm`).

  Result (`feed_C03_C17`, `feeds_C03_C17`): C17's layer instantiated with C03's normal-mode
  generator (`N03`: `Ptk.C03.sendChar` started from the generator's local `prefix`) IS C03's
  `feed` — for EVERY parser state, EVERY chunk and every chunk sequence: the projection of C03's
  state after the chunk is C17's state after the chunk, and the key presses C03 appended to its
  callback buffer are, one by one, the keys C17 returned.

  Translations (total):
    * state: `proj : C03.St → PS Text` keeps the generator's `prefix`, `_in_bracketed_paste`, and
      `_paste_buffer` while in paste mode (C17 resets its `pbuf` field to `""` after every
      normal-mode character; the code leaves `_paste_buffer` alone there — it is only read in
      paste mode, after `_call_handler` has cleared it, so the projection forgets it outside
      paste mode);
    * key presses: `trP cfg κ`: `KeyPress(Keys.BracketedPaste, data)` ↦ `Ptk.C17.pasteKey data`,
      every other press through an ARBITRARY `κ : C03.Press → C17.Key` (C17's accept-boundary
      alphabet is coarser than C03's; the theorem holds for every such map);
    * output: C03 accumulates the callback buffer in `St.out`, C17 returns the keys of the call.
  No hypothesis on the state is needed: the two definitions use different recursion bounds when
  `_paste_buffer` is non-empty outside paste mode (unreachable), `Ptk.C03.feedFuel_stable` shows
  that C03's bound is never reached.
-/
import Ptk.Model.C03
import Ptk.Model.C17Paste
import Ptk.Props.C03Lemmas
import Ptk.Props.C17Paste
namespace Ptk.AgreeCtl.Paste
open Ptk.Py Ptk.C17 Ptk.C17.Paste

/-- C03's key press ↦ C17's key: a delivered paste is `pasteKey data`; everything else through `κ` -/
def trP (cfg : C03.Cfg) (κ : C03.Press → Key) (p : C03.Press) : Key :=
  if p.key == cfg.pasteKey then pasteKey p.data else κ p

/-- C03's normal-mode generator (`_input_parser_generator` through `Ptk.C03.sendChar`) as an instance
    of C17's parameter `Norm`: started from the local `prefix` alone, it reports the new prefix, the
    presses handed to the callback and whether `_call_handler` saw `Keys.BracketedPaste` -/
def N03 (cfg : C03.Cfg) (κ : C03.Press → Key) : Norm Text :=
  ⟨fun pre c =>
    let s := C03.sendChar cfg ⟨pre, false, [], []⟩ c
    (s.pre, s.out.map (trP cfg κ), s.inPaste)⟩

/-- C03's parser state ↦ C17's `PS` -/
def proj (s : C03.St) : PS Text := ⟨s.pre, s.inPaste, if s.inPaste then s.paste else []⟩

/-- `r` run "inside" `s` -/
def emb (s r : C03.St) : C03.St :=
  { pre := r.pre, inPaste := s.inPaste || r.inPaste,
    paste := if r.inPaste then r.paste else s.paste, out := s.out ++ r.out }

theorem emb_pre (s r : C03.St) (p : Text) : { emb s r with pre := p } = emb s { r with pre := p } := rfl

theorem callHandler_emb (cfg : C03.Cfg) (s : C03.St) : ∀ (m : List String) (r : C03.St) (d : Text),
    C03.callHandler cfg (emb s r) m d = emb s (C03.callHandler cfg r m d)
  | [], r, d => rfl
  | k :: ks, r, d => by
    rw [C03.callHandler, C03.callHandler]
    by_cases hk : (k == cfg.pasteKey) = true
    · simp only [hk, if_true]
      rw [← callHandler_emb cfg s ks]
      congr 1
      simp [emb]
    · simp only [hk, if_false, Bool.false_eq_true]
      rw [← callHandler_emb cfg s ks]
      congr 1
      simp [emb]

theorem shiftLoop_emb (cfg : C03.Cfg) (s : C03.St) : ∀ (i : Nat) (r : C03.St) (f : Bool),
    C03.shiftLoop cfg i (emb s r) f = (emb s (C03.shiftLoop cfg i r f).1, (C03.shiftLoop cfg i r f).2)
  | 0, r, f => rfl
  | i + 1, r, f => by
    rw [C03.shiftLoop, C03.shiftLoop]
    have hp : (emb s r).pre = r.pre := rfl
    simp only [hp]
    split
    · rw [emb_pre, callHandler_emb, shiftLoop_emb cfg s i]
    · rw [shiftLoop_emb cfg s i]

theorem shiftStep_emb (cfg : C03.Cfg) (s r : C03.St) :
    C03.shiftStep cfg (emb s r) = emb s (C03.shiftStep cfg r) := by
  unfold C03.shiftStep
  have hp : (emb s r).pre = r.pre := rfl
  rw [hp, shiftLoop_emb]
  simp only []
  split
  · rfl
  · have hp2 : (emb s (C03.shiftLoop cfg r.pre.length r false).1).pre
        = (C03.shiftLoop cfg r.pre.length r false).1.pre := rfl
    rw [hp2]
    split
    · rw [emb_pre, callHandler_emb]
    · rfl

theorem process_emb (cfg : C03.Cfg) (s : C03.St) : ∀ (n : Nat) (fl : Bool) (r : C03.St),
    C03.process cfg n fl (emb s r) = emb s (C03.process cfg n fl r)
  | 0, _, _ => rfl
  | n + 1, fl, r => by
    rw [C03.process, C03.process]
    have hp : (emb s r).pre = r.pre := rfl
    simp only [hp]
    split
    · rfl
    · split
      · split
        · rw [emb_pre, callHandler_emb]
        · rw [shiftStep_emb, process_emb cfg s n]
      · rfl

/-- input/vt100_parser.py::Vt100Parser._input_parser_generator — `Ptk.C03.sendChar` neither reads nor
    (except through `_call_handler`) writes the callback buffer, `_in_bracketed_paste`, `_paste_buffer`:
    running it inside any state `s` is running it on the prefix alone (the frame property that makes
    C17's parametrisation `Norm` — state = the local `prefix` — sound for C03's generator) -/
theorem sendChar_emb (cfg : C03.Cfg) (s r : C03.St) (c : Char) :
    C03.sendChar cfg (emb s r) c = emb s (C03.sendChar cfg r c) := by
  unfold C03.sendChar
  have hp : (emb s r).pre = r.pre := rfl
  simp only [hp]
  rw [emb_pre, process_emb]


/-- a state in normal mode is its own prefix run inside itself -/
theorem emb_self (s : C03.St) (h : s.inPaste = false) : emb s ⟨s.pre, false, [], []⟩ = s := by
  cases s; simp_all [emb]

theorem sendChar_paste_nil (cfg : C03.Cfg) (pre : Text) (c : Char) :
    (C03.sendChar cfg ⟨pre, false, [], []⟩ c).paste = [] := by
  rw [C03.sendChar_eq]
  exact C03.proc_pasteQ (fun _ p => p = []) rfl cfg false _ rfl

variable (cfg : C03.Cfg) (κ : C03.Press → Key)

theorem proj_sendChar (s : C03.St) (h : s.inPaste = false) (c : Char) :
    let r := (N03 cfg κ).send s.pre c
    proj (C03.sendChar cfg s c) = ⟨r.1, r.2.2, []⟩ ∧
    (C03.sendChar cfg s c).out.map (trP cfg κ) = s.out.map (trP cfg κ) ++ r.2.1 := by
  intro r
  have e := sendChar_emb cfg s ⟨s.pre, false, [], []⟩ c
  rw [emb_self s h] at e
  rw [e]
  have hp := sendChar_paste_nil cfg s.pre c
  simp only [r, N03, proj, emb, h, Bool.false_or, List.map_append, and_true, hp]
  cases (C03.sendChar cfg ⟨s.pre, false, [], []⟩ c).inPaste <;> simp

/-- input/vt100_parser.py::Vt100Parser.feed, the `for i, c in enumerate(data)` loop —
    `Ptk.C03.feedNormal` = `Ptk.C17.Paste.feedNormal` at `N03` -/
theorem feedNormal_agree : ∀ (d : Text) (s : C03.St),
    Paste.feedNormal (N03 cfg κ) d (proj s) (s.out.map (trP cfg κ)) =
      (proj (C03.feedNormal cfg d s).1, (C03.feedNormal cfg d s).1.out.map (trP cfg κ),
       (C03.feedNormal cfg d s).2)
  | [], s => rfl
  | c :: cs, s => by
    rw [Paste.feedNormal, C03.feedNormal]
    by_cases h : s.inPaste = true
    · simp [proj, h]
    · have h' : s.inPaste = false := by simpa using h
      have hp : (proj s).inPaste = false := h'
      simp only [hp, h', Bool.false_eq_true, if_false]
      have := proj_sendChar cfg κ s h' c
      simp only [] at this
      have ih := feedNormal_agree cs (C03.sendChar cfg s c)
      rw [this.1, this.2] at ih
      exact ih


theorem endMark_eq : Paste.endMark = C03.endMark := rfl

/-- input/vt100_parser.py::Vt100Parser.feed — `Ptk.C03.feedFuel` = `Ptk.C17.Paste.feedFuel` at `N03`
    for every recursion bound -/
theorem feedFuel_agree : ∀ (n : Nat) (s : C03.St) (d : Text),
    Paste.feedFuel (N03 cfg κ) n (proj s) d (s.out.map (trP cfg κ)) =
      (proj (C03.feedFuel cfg n s d), (C03.feedFuel cfg n s d).out.map (trP cfg κ))
  | 0, s, d => rfl
  | n + 1, s, d => by
    rw [Paste.feedFuel, C03.feedFuel]
    by_cases h : s.inPaste = true
    · have hp : (proj s).inPaste = true := h
      have hb : (proj s).pbuf = s.paste := by simp [proj, h]
      simp only [hp, h, if_true, hb, endMark_eq]
      cases hf : findSub? C03.endMark (s.paste ++ d) with
      | none => simp [proj, h]
      | some j =>
        simp only []
        have ih := feedFuel_agree n
          { s with out := s.out ++ [⟨cfg.pasteKey, (s.paste ++ d).take j⟩], inPaste := false, paste := [] }
          ((s.paste ++ d).drop (j + C03.endMark.length))
        rw [← ih]
        simp [proj, trP]
    · have h' : s.inPaste = false := by simpa using h
      have hp : (proj s).inPaste = false := h'
      simp only [hp, h', Bool.false_eq_true, if_false]
      rw [feedNormal_agree]
      simp only []
      generalize C03.feedNormal cfg d s = r
      obtain ⟨s1, rest⟩ := r
      simp only []
      split
      · rfl
      · exact feedFuel_agree n s1 rest


theorem feedNormal_out {ν : Type} (N : Norm ν) : ∀ (d : Text) (s : PS ν) (o o' : List Key),
    Paste.feedNormal N d s (o ++ o') =
      ((Paste.feedNormal N d s o').1, o ++ (Paste.feedNormal N d s o').2.1, (Paste.feedNormal N d s o').2.2)
  | [], s, o, o' => rfl
  | c :: cs, s, o, o' => by
    rw [Paste.feedNormal, Paste.feedNormal]
    split
    · rfl
    · simp only []
      rw [List.append_assoc, feedNormal_out N cs]

theorem feedFuel_out {ν : Type} (N : Norm ν) : ∀ (n : Nat) (s : PS ν) (d : Text) (o o' : List Key),
    Paste.feedFuel N n s d (o ++ o') = ((Paste.feedFuel N n s d o').1, o ++ (Paste.feedFuel N n s d o').2)
  | 0, s, d, o, o' => rfl
  | n + 1, s, d, o, o' => by
    rw [Paste.feedFuel, Paste.feedFuel]
    split
    · simp only []
      cases findSub? endMark (s.pbuf ++ d) with
      | some j => simp only []; rw [List.append_assoc, feedFuel_out N n]
      | none => rfl
    · simp only []
      rw [feedNormal_out]
      simp only []
      split
      · rfl
      · rw [feedFuel_out N n]

/-- input/vt100_parser.py::Vt100Parser.feed — `Ptk.C03.feed` = `Ptk.C17.Paste.feed` at `N03`: state
    projection and key output, for every parser state and every chunk -/
theorem feed_C03_C17 (s : C03.St) (d : Text) :
    (Paste.feed (N03 cfg κ) (proj s) d).1 = proj (C03.feed cfg s d) ∧
    (C03.feed cfg s d).out.map (trP cfg κ) =
      s.out.map (trP cfg κ) ++ (Paste.feed (N03 cfg κ) (proj s) d).2 := by
  have hfuel : C03.feed cfg s d = C03.feedFuel cfg ((proj s).pbuf.length + d.length + 1) s d := by
    unfold C03.feed
    apply C03.feedFuel_stable <;> (simp only [C03.meas, proj]; split <;> simp <;> omega)
  have h := feedFuel_agree cfg κ ((proj s).pbuf.length + d.length + 1) s d
  have ho := feedFuel_out (N03 cfg κ) ((proj s).pbuf.length + d.length + 1) (proj s) d
    (s.out.map (trP cfg κ)) []
  rw [List.append_nil, h] at ho
  rw [hfuel]
  unfold Paste.feed
  constructor
  · exact (congrArg Prod.fst ho).symm
  · exact (congrArg Prod.snd ho)


/-- input/vt100_parser.py::Vt100Parser.feed over a sequence of reads — `List.foldl (Ptk.C03.feed cfg)`
    = `Ptk.C17.Paste.feeds` (the chunks fed one after the other, key presses concatenated) -/
theorem feeds_C03_C17 : ∀ (cs : List Text) (s : C03.St),
    (Paste.feeds (N03 cfg κ) (proj s) cs).1 = proj (cs.foldl (C03.feed cfg) s) ∧
    (cs.foldl (C03.feed cfg) s).out.map (trP cfg κ) =
      s.out.map (trP cfg κ) ++ (Paste.feeds (N03 cfg κ) (proj s) cs).2
  | [], s => by simp [Paste.feeds]
  | c :: cs, s => by
    have h1 := feed_C03_C17 cfg κ s c
    have ih := feeds_C03_C17 cs (C03.feed cfg s c)
    simp only [Paste.feeds, List.foldl_cons]
    rw [h1.1]
    refine ⟨ih.1, ?_⟩
    rw [ih.2, h1.2, List.append_assoc]

/-- input/vt100_parser.py::Vt100Parser._call_handler — `Ptk.C03.callHandler` (a tuple of keys)
    seen through the projection is what C17's `Norm` interface reports: the presses handed to the
    callback, and "`Keys.BracketedPaste` was among the keys" ↦ `_in_bracketed_paste = True,
    _paste_buffer = ""` -/
theorem callHandler_C03_C17 (s : C03.St) (h : s.inPaste = false) (m : List String) (d : Text) :
    proj (C03.callHandler cfg s m d) =
      ⟨s.pre, (C03.callHandler cfg ⟨s.pre, false, [], []⟩ m d).inPaste, []⟩ ∧
    (C03.callHandler cfg s m d).out.map (trP cfg κ) =
      s.out.map (trP cfg κ) ++ (C03.callHandler cfg ⟨s.pre, false, [], []⟩ m d).out.map (trP cfg κ) ∧
    (C03.callHandler cfg ⟨s.pre, false, [], []⟩ m d).inPaste = m.contains cfg.pasteKey := by
  have e := callHandler_emb cfg s m ⟨s.pre, false, [], []⟩ d
  rw [emb_self s h] at e
  generalize hr : C03.callHandler cfg ⟨s.pre, false, [], []⟩ m d = r at e
  have hp : r.paste = [] := by
    rw [← hr]; exact C03.callHandler_pasteQ (fun _ p => p = []) rfl cfg _ m d rfl
  have hpre : r.pre = s.pre := by rw [← hr]; exact C03.callHandler_pre cfg _ m d
  have hc : ∀ (m : List String) (x : C03.St) (d : Text),
      (C03.callHandler cfg x m d).inPaste = (x.inPaste || m.contains cfg.pasteKey) := by
    intro m
    induction m with
    | nil => intro x d; simp [C03.callHandler]
    | cons k ks ih =>
      intro x d
      rw [C03.callHandler, ih]
      by_cases hk : k = cfg.pasteKey
      · simp [hk]
      · have hk' : (k == cfg.pasteKey) = false := by simpa using hk
        have : ¬ cfg.pasteKey = k := fun h => hk h.symm
        simp [hk', this]
  refine ⟨?_, ?_, ?_⟩
  · rw [e]
    simp only [proj, emb, h, Bool.false_or, hp, hpre]
    cases r.inPaste <;> simp
  · rw [e]; simp [emb]
  · have := hc m ⟨s.pre, false, [], []⟩ d
    rw [hr] at this
    simpa using this

/-- non-vacuity on the table of the current tree: a bracketed paste cut in the middle of the start
    mark, of the content and of the end mark — same state projection, same three key presses -/
example :
    let cfg := C03.genCfg
    let κ : C03.Press → Key := fun p => .other p.data.length
    let cs : List Text := [[ESC, '[', '2'], ['0', '0', '~', 'h', 'i'], [ESC, '['], ['2', '0', '1', '~', 'x']]
    (Paste.feeds (N03 cfg κ) (proj C03.St.init) cs).2 = [pasteKey ['h', 'i'], .other 1] ∧
    (cs.foldl (C03.feed cfg) C03.St.init).out = [⟨cfg.pasteKey, ['h', 'i']⟩, ⟨"x", ['x']⟩] := by
  decide +kernel

end Ptk.AgreeCtl.Paste
