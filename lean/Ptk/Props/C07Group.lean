/-
  C07 — which runs of commands are undone as ONE group (the `if_no_repeat` rule of basic.py), and which
  are not: insertion runs, deletion runs, runs followed by motions, two runs split by a motion, runs with
  cursor position reports in between, and the default rule (no grouping).  All statements are about
  ANY handler identity `h` and ANY rule with the stated two bits; `C07Table` instantiates them with
  the bits READ from the shipped bindings.
-/
import Ptk.Props.C07
namespace Ptk.C07
open Ptk.Py

/-! ## 1. A run of repeats of one grouped handler is undone as one group -/

/-- **group_undone_as_one.**  Let `h` be a handler with the `if_no_repeat` rule (it saves when it
    is not a repeat and does not save when it is).  From any state whose previous handler is not
    `h`, run ANY non-empty sequence of calls of `h` (a run of typed characters / of Backspaces).
    If the run changed the text, ONE undo restores exactly the (text, cursor) from before the
    run, the redo stack holds exactly the state after the run, and redo brings that state back. -/
theorem group_undone_as_one (h : Nat) (rule : Bool → Bool) (hr0 : rule false = true)
    (hr1 : rule true = false) (k0 : KSt) (hp : k0.prev ≠ some h) (f : Buf → Buf)
    (fs : List (Buf → Buf)) :
    let k1 := runSame h rule (f :: fs) k0
    k1.st.buf.text ≠ k0.st.buf.text →
      (undo k1.st).buf = k0.st.buf ∧ (undo k1.st).redo = [k1.st.buf] ∧
        (redo (undo k1.st)).buf = k1.st.buf := by
  intro k1 hne
  -- the first call is not a repeat: it saves
  have hfirst : callHandler h rule [Act.edit f] k0 =
      { st := { (saveToUndo true k0.st) with buf := f k0.st.buf }, prev := some h } := by
    simp [callHandler_eq, boundary, hp, hr0, act, saveToUndo_buf]
  obtain ⟨rest, hrest⟩ := saveToUndo_top true k0.st
  have hrun := runSame_repeat h rule fs (callHandler h rule [Act.edit f] k0) (by rw [hfirst]) hr1
  have hk1 : k1 = runSame h rule fs (callHandler h rule [Act.edit f] k0) := rfl
  rw [← hk1, hfirst] at hrun
  simp only [save_clears_redo] at hrun
  obtain ⟨hu, hr⟩ := hrun
  rw [hrest] at hu
  have hl : undoLoop k1.st.buf k1.st.undo = some (k0.st.buf, rest) := by
    rw [hu]; unfold undoLoop; rw [if_pos (fun e => hne e.symm)]
  have hundo := undo_some hl
  refine ⟨by rw [hundo], by rw [hundo, hr], ?_⟩
  exact (redo_undo k1.st (by rw [hundo]; exact fun e => hne e.symm)).1

/-- typing a non-empty string changes the text (it gets longer) -/
theorem runSame_typing_text_ne (h : Nat) (rule : Bool → Bool) (k0 : KSt) (c : Char) (cs : List Char) :
    (runSame h rule ((c :: cs).map fun ch => insertText [ch]) k0).st.buf.text ≠ k0.st.buf.text := by
  have hlen : ∀ (fs : List Char) (k : KSt),
      (runSame h rule (fs.map fun ch => insertText [ch]) k).st.buf.text.length =
        k.st.buf.text.length + fs.length := by
    intro fs
    induction fs with
    | nil => intro k; rfl
    | cons x xs ih =>
      intro k
      have hstep : (callHandler h rule [Act.edit (insertText [x])] k).st.buf.text.length =
          k.st.buf.text.length + 1 := by
        simp only [callHandler_eq, List.foldl_cons, List.foldl_nil, act, boundary_buf, insertText,
          List.length_append, List.length_take, List.length_drop, List.length_cons, List.length_nil]
        omega
      simp only [List.map_cons, runSame, List.foldl_cons]
      have := ih (callHandler h rule [Act.edit (insertText [x])] k)
      simp only [runSame] at this
      rw [this, hstep, List.length_cons]; omega
  intro e
  have := hlen (c :: cs) k0
  rw [e] at this
  simp at this

/-- **typing_then_undo.**  The everyday instance: after anything that was not self-insert, type ANY
    non-empty string character by character through a handler with the `if_no_repeat` rule; ONE
    undo restores exactly the text and cursor from before the first character. -/
theorem typing_then_undo (h : Nat) (rule : Bool → Bool) (hr0 : rule false = true)
    (hr1 : rule true = false) (k0 : KSt) (hp : k0.prev ≠ some h) (c : Char) (cs : List Char) :
    (undo (runSame h rule ((c :: cs).map fun ch => insertText [ch]) k0).st).buf = k0.st.buf :=
  (group_undone_as_one h rule hr0 hr1 k0 hp (insertText [c]) (cs.map fun ch => insertText [ch])
    (runSame_typing_text_ne h rule k0 c cs)).1

/-- commands that keep the text (cursor motions, Escape, mode switches, …): any handlers, any rules -/
def runKeep (ms : List (Nat × (Bool → Bool) × (Buf → Buf))) (k : KSt) : KSt :=
  ms.foldl (fun k m => callHandler m.1 m.2.1 [Act.edit m.2.2] k) k

/-- the buffer text and prev after a run of one handler only depend on the bodies -/
theorem runSame_prev (h : Nat) (rule : Bool → Bool) (f : Buf → Buf) (fs : List (Buf → Buf)) (k : KSt) :
    (runSame h rule (f :: fs) k).prev = some h := by
  induction fs generalizing k f with
  | nil => rfl
  | cons g gs ih => exact ih g (callHandler h rule [Act.edit f] k)

/-- **group_keep_stack** (what the stack looks like after a grouped run followed by text-preserving
    commands): the entry saved when the run started — exactly the (text, cursor) from before the run —
    is on top, or right below ONE entry that carries the current text. -/
theorem group_keep_stack (h : Nat) (rule : Bool → Bool) (hr0 : rule false = true)
    (hr1 : rule true = false) (k0 : KSt) (hp : k0.prev ≠ some h) (f : Buf → Buf)
    (fs : List (Buf → Buf)) (ms : List (Nat × (Bool → Bool) × (Buf → Buf)))
    (hms : ∀ m ∈ ms, ∀ b, (m.2.2 b).text = b.text) :
    let k1 := runSame h rule (f :: fs) k0
    let k2 := runKeep ms k1
    k1.st.buf.text ≠ k0.st.buf.text →
      ∃ rest, (saveToUndo true k0.st).undo = k0.st.buf :: rest ∧ k2.st.buf.text = k1.st.buf.text ∧
        (k2.st.undo = k0.st.buf :: rest ∨
          ∃ p, p.text = k1.st.buf.text ∧ k2.st.undo = p :: k0.st.buf :: rest) := by
  intro k1 k2 hne
  have hfirst : callHandler h rule [Act.edit f] k0 =
      { st := { (saveToUndo true k0.st) with buf := f k0.st.buf }, prev := some h } := by
    simp [callHandler_eq, boundary, hp, hr0, act, saveToUndo_buf]
  obtain ⟨rest, hrest⟩ := saveToUndo_top true k0.st
  have hrun := runSame_repeat h rule fs (callHandler h rule [Act.edit f] k0) (by rw [hfirst]) hr1
  have hk1 : k1 = runSame h rule fs (callHandler h rule [Act.edit f] k0) := rfl
  rw [← hk1, hfirst] at hrun
  have hu : k1.st.undo = k0.st.buf :: rest := by rw [hrun.1]; exact hrest
  refine ⟨rest, hrest, ?_⟩
  -- invariant along the text-preserving commands
  have hinv : ∀ (ms : List (Nat × (Bool → Bool) × (Buf → Buf))) (k : KSt),
      (∀ m ∈ ms, ∀ b, (m.2.2 b).text = b.text) →
      k.st.buf.text = k1.st.buf.text →
      (k.st.undo = k0.st.buf :: rest ∨ ∃ p, p.text = k1.st.buf.text ∧ k.st.undo = p :: k0.st.buf :: rest) →
      (runKeep ms k).st.buf.text = k1.st.buf.text ∧
      ((runKeep ms k).st.undo = k0.st.buf :: rest ∨
        ∃ p, p.text = k1.st.buf.text ∧ (runKeep ms k).st.undo = p :: k0.st.buf :: rest) := by
    intro ms
    induction ms with
    | nil => intro k _ ht hs; exact ⟨ht, hs⟩
    | cons m ms ih =>
      intro k hm ht hs
      apply ih (callHandler m.1 m.2.1 [Act.edit m.2.2] k) (fun m' hm' => hm m' (List.mem_cons_of_mem _ hm'))
      · simp only [callHandler_eq, List.foldl_cons, List.foldl_nil, act, boundary_buf]
        rw [hm m (by simp)]; exact ht
      · simp only [callHandler_eq, List.foldl_cons, List.foldl_nil, act]
        unfold boundary
        split
        · -- the boundary saved
          unfold saveToUndo
          rcases hs with hs | ⟨p, hpt, hs⟩
          · right
            rw [hs]
            have : ¬ (k0.st.buf.text = k.st.buf.text) := by rw [ht]; exact fun e => hne e.symm
            simp only [this, if_false]
            exact ⟨k.st.buf, ht, rfl⟩
          · right
            rw [hs]
            have : p.text = k.st.buf.text := by rw [hpt, ht]
            simp only [this, if_true]
            exact ⟨_, ht, rfl⟩
        · exact hs
  exact hinv ms k1 hms rfl (Or.inl hu)

/-- **group_then_motions_then_undo.**  As `group_undone_as_one`, but between the run and the undo
    ANY number of text-preserving commands may happen (e.g. Vi: `i` … typed text … Escape, then
    `u`; emacs: typed text, cursor keys, then C-_): the first undo still restores exactly the
    (text, cursor) from before the run. -/
theorem group_then_motions_then_undo (h : Nat) (rule : Bool → Bool) (hr0 : rule false = true)
    (hr1 : rule true = false) (k0 : KSt) (hp : k0.prev ≠ some h) (f : Buf → Buf)
    (fs : List (Buf → Buf)) (ms : List (Nat × (Bool → Bool) × (Buf → Buf)))
    (hms : ∀ m ∈ ms, ∀ b, (m.2.2 b).text = b.text) :
    let k1 := runSame h rule (f :: fs) k0
    k1.st.buf.text ≠ k0.st.buf.text → (undo (runKeep ms k1).st).buf = k0.st.buf := by
  intro k1 hne
  obtain ⟨rest, _, ht, hs⟩ := group_keep_stack h rule hr0 hr1 k0 hp f fs ms hms hne
  have hne' : k0.st.buf.text ≠ (runKeep ms k1).st.buf.text := by rw [ht]; exact fun e => hne e.symm
  rcases hs with hs | ⟨p, hpt, hs⟩
  · have hl : undoLoop (runKeep ms k1).st.buf (runKeep ms k1).st.undo = some (k0.st.buf, rest) := by
      rw [hs]; unfold undoLoop; rw [if_pos hne']
    rw [undo_some hl]
  · have hl : undoLoop (runKeep ms k1).st.buf (runKeep ms k1).st.undo = some (k0.st.buf, rest) := by
      rw [hs]; unfold undoLoop
      rw [if_neg (by rw [hpt, ht]; simp)]
      unfold undoLoop; rw [if_pos hne']
    rw [undo_some hl]

/-- **two_groups_two_undos** (a motion splits a run; which undo step restores what).  A grouped run of
    handler `h1`, then text-preserving commands (cursor keys, Escape, …) the last of which is not `h2`,
    then a grouped run of `h2` (possibly `h2 = h1`: typing, Left, typing): the FIRST undo restores exactly
    the (text, cursor) held right before the second run, the SECOND undo exactly the (text, cursor)
    from before the first run. -/
theorem two_groups_two_undos (h1 h2 : Nat) (r1 r2 : Bool → Bool)
    (h10 : r1 false = true) (h11 : r1 true = false) (h20 : r2 false = true) (h21 : r2 true = false)
    (k0 : KSt) (hp : k0.prev ≠ some h1) (f : Buf → Buf) (fs : List (Buf → Buf))
    (ms : List (Nat × (Bool → Bool) × (Buf → Buf))) (hms : ∀ m ∈ ms, ∀ b, (m.2.2 b).text = b.text)
    (g : Buf → Buf) (gs : List (Buf → Buf)) :
    let k1 := runSame h1 r1 (f :: fs) k0
    let k2 := runKeep ms k1
    let k3 := runSame h2 r2 (g :: gs) k2
    k2.prev ≠ some h2 → k1.st.buf.text ≠ k0.st.buf.text → k3.st.buf.text ≠ k2.st.buf.text →
      (undo k3.st).buf = k2.st.buf ∧ (undo (undo k3.st)).buf = k0.st.buf := by
  intro k1 k2 k3 hp2 hne1 hne3
  obtain ⟨rest, _, ht, hs⟩ := group_keep_stack h1 r1 h10 h11 k0 hp f fs ms hms hne1
  -- the second run, seen from k2
  have hfirst : callHandler h2 r2 [Act.edit g] k2 =
      { st := { (saveToUndo true k2.st) with buf := g k2.st.buf }, prev := some h2 } := by
    simp [callHandler_eq, boundary, hp2, h20, act, saveToUndo_buf]
  have hrun := runSame_repeat h2 r2 gs (callHandler h2 r2 [Act.edit g] k2) (by rw [hfirst]) h21
  have hk3 : k3 = runSame h2 r2 gs (callHandler h2 r2 [Act.edit g] k2) := rfl
  rw [← hk3, hfirst] at hrun
  -- the stack saved at the start of the second run
  have hsave : (saveToUndo true k2.st).undo = k2.st.buf :: k0.st.buf :: rest := by
    have hne' : ¬ (k0.st.buf.text = k2.st.buf.text) := by
      show ¬ (k0.st.buf.text = (runKeep ms k1).st.buf.text)
      rw [ht]; exact fun e => hne1 e.symm
    unfold saveToUndo
    rcases hs with hs | ⟨p, hpt, hs⟩
    · show (match k2.st.undo with | top :: rest => _ | [] => _) = _
      have : k2.st.undo = k0.st.buf :: rest := hs
      rw [this]; simp [hne']
    · have : k2.st.undo = p :: k0.st.buf :: rest := hs
      have hpe : p.text = k2.st.buf.text := by
        show p.text = (runKeep ms k1).st.buf.text
        rw [hpt, ht]
      show (match k2.st.undo with | top :: rest => _ | [] => _) = _
      rw [this]; simp only [hpe, if_true]
  have hu3 : k3.st.undo = k2.st.buf :: k0.st.buf :: rest := by rw [hrun.1]; exact hsave
  have hl : undoLoop k3.st.buf k3.st.undo = some (k2.st.buf, k0.st.buf :: rest) := by
    rw [hu3]; unfold undoLoop; rw [if_pos (fun e => hne3 e.symm)]
  have hundo := undo_some hl
  refine ⟨by rw [hundo], ?_⟩
  rw [hundo]
  have hl2 : undoLoop k2.st.buf (k0.st.buf :: rest) = some (k0.st.buf, rest) := by
    unfold undoLoop
    rw [if_pos]
    show k0.st.buf.text ≠ (runKeep ms k1).st.buf.text
    rw [ht]; exact fun e => hne1 e.symm
  rw [undo_some (s := { buf := k2.st.buf, undo := k0.st.buf :: rest, redo := k3.st.buf :: k3.st.redo }) hl2]

/-- **always_rule_not_grouped.**  A handler whose `save_before` is the default (always) is NOT grouped:
    after two consecutive calls that both change the text, one undo restores exactly the (text, cursor)
    between the two calls. -/
theorem always_rule_not_grouped (h : Nat) (rule : Bool → Bool) (hr : ∀ rep, rule rep = true) (k0 : KSt)
    (f g : Buf → Buf) :
    let k1 := callHandler h rule [Act.edit f] k0
    let k2 := callHandler h rule [Act.edit g] k1
    k2.st.buf.text ≠ k1.st.buf.text → (undo k2.st).buf = k1.st.buf := by
  intro k1 k2 hne
  obtain ⟨rest, hrest⟩ := saveToUndo_top true k1.st
  have hk2 : k2.st = { (saveToUndo true k1.st) with buf := g k1.st.buf } := by
    show (callHandler h rule [Act.edit g] k1).st = _
    simp [callHandler_eq, boundary, hr, act, saveToUndo_buf]
  have hl : undoLoop k2.st.buf k2.st.undo = some (k1.st.buf, rest) := by
    have hu : k2.st.undo = k1.st.buf :: rest := by rw [hk2]; exact hrest
    rw [hu]; unfold undoLoop; rw [if_pos (fun e => hne e.symm)]
  rw [undo_some hl]

/-! ### deletion runs -/

/-- along a run of one handler, if no body ever makes the text longer and the first one makes it
    shorter, the text after the run differs from the text before it -/
theorem runSame_shrinks_text_ne (h : Nat) (rule : Bool → Bool) (k0 : KSt) (f : Buf → Buf)
    (fs : List (Buf → Buf)) (hmono : ∀ g ∈ f :: fs, ∀ b, (g b).text.length ≤ b.text.length)
    (hfirst : (f k0.st.buf).text.length < k0.st.buf.text.length) :
    (runSame h rule (f :: fs) k0).st.buf.text ≠ k0.st.buf.text := by
  have hlen : ∀ (gs : List (Buf → Buf)) (k : KSt), (∀ g ∈ gs, ∀ b, (g b).text.length ≤ b.text.length) →
      (runSame h rule gs k).st.buf.text.length ≤ k.st.buf.text.length := by
    intro gs
    induction gs with
    | nil => intro k _; exact Nat.le_refl _
    | cons g gs ih =>
      intro k hg
      have h1 := ih (callHandler h rule [Act.edit g] k) (fun g' hg' => hg g' (List.mem_cons_of_mem _ hg'))
      have h2 : (callHandler h rule [Act.edit g] k).st.buf.text.length ≤ k.st.buf.text.length := by
        simp only [callHandler_eq, List.foldl_cons, List.foldl_nil, act, boundary_buf]
        exact hg g (by simp) _
      exact Nat.le_trans h1 h2
  intro e
  have h1 := hlen fs (callHandler h rule [Act.edit f] k0) (fun g hg => hmono g (List.mem_cons_of_mem _ hg))
  have h2 : (callHandler h rule [Act.edit f] k0).st.buf.text.length < k0.st.buf.text.length := by
    simp only [callHandler_eq, List.foldl_cons, List.foldl_nil, act, boundary_buf]
    exact hfirst
  have : (runSame h rule (f :: fs) k0).st.buf.text.length < k0.st.buf.text.length := Nat.lt_of_le_of_lt h1 h2
  rw [e] at this
  exact Nat.lt_irrefl _ this

/-- along a run of one handler, if every body makes the text longer (a typed character inserted at one or
    more cursors), the text after the run differs from the text before it -/
theorem runSame_grows_text_ne (h : Nat) (rule : Bool → Bool) (k0 : KSt) (f : Buf → Buf)
    (fs : List (Buf → Buf)) (hgrow : ∀ g ∈ f :: fs, ∀ b, b.text.length < (g b).text.length) :
    (runSame h rule (f :: fs) k0).st.buf.text ≠ k0.st.buf.text := by
  have hlen : ∀ (gs : List (Buf → Buf)) (k : KSt), (∀ g ∈ gs, ∀ b, b.text.length < (g b).text.length) →
      k.st.buf.text.length ≤ (runSame h rule gs k).st.buf.text.length := by
    intro gs
    induction gs with
    | nil => intro k _; exact Nat.le_refl _
    | cons g gs ih =>
      intro k hg
      have h1 := ih (callHandler h rule [Act.edit g] k) (fun g' hg' => hg g' (List.mem_cons_of_mem _ hg'))
      have h2 : k.st.buf.text.length < (callHandler h rule [Act.edit g] k).st.buf.text.length := by
        simp only [callHandler_eq, List.foldl_cons, List.foldl_nil, act, boundary_buf]
        exact hg g (by simp) _
      exact Nat.le_trans (Nat.le_of_lt h2) h1
  intro e
  have h1 := hlen fs (callHandler h rule [Act.edit f] k0) (fun g hg => hgrow g (List.mem_cons_of_mem _ hg))
  have h2 : k0.st.buf.text.length < (callHandler h rule [Act.edit f] k0).st.buf.text.length := by
    simp only [callHandler_eq, List.foldl_cons, List.foldl_nil, act, boundary_buf]
    exact hgrow f (by simp) _
  have : k0.st.buf.text.length < (runSame h rule (f :: fs) k0).st.buf.text.length := Nat.lt_of_lt_of_le h2 h1
  rw [e] at this
  exact Nat.lt_irrefl _ this

theorem deleteBefore_len_le (n : Nat) (b : Buf) : (deleteBefore n b).text.length ≤ b.text.length := by
  simp only [deleteBefore, List.length_append, List.length_take, List.length_drop]; omega

theorem delete_len_le (n : Nat) (b : Buf) : (Ptk.C07.delete n b).text.length ≤ b.text.length := by
  simp only [Ptk.C07.delete, List.length_append, List.length_take, List.length_drop]; omega

/-- **backspacing_then_undo.**  After anything that was not Backspace, with the cursor inside the text
    and not at its start, press Backspace ANY number (≥ 1) of times through a handler with the
    `if_no_repeat` rule: ONE undo restores exactly the text and cursor from before the first Backspace
    (also when later Backspaces hit the start of the text and delete nothing). -/
theorem backspacing_then_undo (h : Nat) (rule : Bool → Bool) (hr0 : rule false = true)
    (hr1 : rule true = false) (k0 : KSt) (hp : k0.prev ≠ some h)
    (hc0 : 0 < k0.st.buf.cur) (hc1 : k0.st.buf.cur ≤ k0.st.buf.text.length) (n : Nat) :
    (undo (runSame h rule (List.replicate (n + 1) (deleteBefore 1)) k0).st).buf = k0.st.buf := by
  have hne : (runSame h rule (deleteBefore 1 :: List.replicate n (deleteBefore 1)) k0).st.buf.text ≠ k0.st.buf.text := by
    apply runSame_shrinks_text_ne
    · intro g hg b
      have : g = deleteBefore 1 := by
        rcases List.mem_cons.mp hg with rfl | hg
        · rfl
        · exact List.eq_of_mem_replicate hg
      subst this; exact deleteBefore_len_le 1 b
    · simp only [deleteBefore, List.length_append, List.length_take, List.length_drop]; omega
  exact (group_undone_as_one h rule hr0 hr1 k0 hp (deleteBefore 1) (List.replicate n (deleteBefore 1)) hne).1

/-- **deleting_then_undo.**  The same for the Delete key (`delete-char`): with the cursor before the end
    of the text, ANY number (≥ 1) of Deletes is undone by ONE undo. -/
theorem deleting_then_undo (h : Nat) (rule : Bool → Bool) (hr0 : rule false = true)
    (hr1 : rule true = false) (k0 : KSt) (hp : k0.prev ≠ some h)
    (hc : k0.st.buf.cur < k0.st.buf.text.length) (n : Nat) :
    (undo (runSame h rule (List.replicate (n + 1) (Ptk.C07.delete 1)) k0).st).buf = k0.st.buf := by
  have hne : (runSame h rule (Ptk.C07.delete 1 :: List.replicate n (Ptk.C07.delete 1)) k0).st.buf.text ≠ k0.st.buf.text := by
    apply runSame_shrinks_text_ne
    · intro g hg b
      have : g = Ptk.C07.delete 1 := by
        rcases List.mem_cons.mp hg with rfl | hg
        · rfl
        · exact List.eq_of_mem_replicate hg
      subst this; exact delete_len_le 1 b
    · simp only [Ptk.C07.delete, List.length_append, List.length_take, List.length_drop]; omega
  exact (group_undone_as_one h rule hr0 hr1 k0 hp (Ptk.C07.delete 1) (List.replicate n (Ptk.C07.delete 1)) hne).1

/-! ### cursor position reports are invisible to undo -/

/-- a run of one handler with cursor position reports (`none`) arriving at arbitrary key boundaries -/
def runSameCpr (h : Nat) (rule : Bool → Bool) (items : List (Option (Buf → Buf))) (k : KSt) : KSt :=
  items.foldl (fun k it => match it with
    | some f => callHandler h rule [Act.edit f] k
    | none => cprResponse k) k

/-- **cpr_keeps_everything.**  A CPR response changes neither the buffer, nor the undo / redo
    stacks, nor the previous handler. -/
theorem cpr_keeps_everything (k : KSt) :
    (cprResponse k).st = k.st ∧ (cprResponse k).prev = k.prev := ⟨rfl, rfl⟩

/-- **cpr_invisible_in_run.**  CPR responses interleaved with the keys of a run change nothing:
    the result is that of the run without them (same text, same stacks, same grouping). -/
theorem cpr_invisible_in_run (h : Nat) (rule : Bool → Bool) (items : List (Option (Buf → Buf)))
    (k : KSt) : runSameCpr h rule items k = runSame h rule (items.filterMap id) k := by
  induction items generalizing k with
  | nil => rfl
  | cons it its ih =>
    cases it with
    | none => simpa [runSameCpr, cprResponse] using ih k
    | some f => simpa [runSameCpr, runSame] using ih (callHandler h rule [Act.edit f] k)

/-- **group_with_cpr_undone_as_one.**  `type a b <CPR> c d`, undo: a run of an `if_no_repeat`
    handler with CPR responses at ANY key boundaries (before, between, after the keys) is still
    undone by ONE undo, back to the exact (text, cursor) from before the run. -/
theorem group_with_cpr_undone_as_one (h : Nat) (rule : Bool → Bool) (hr0 : rule false = true)
    (hr1 : rule true = false) (k0 : KSt) (hp : k0.prev ≠ some h)
    (items : List (Option (Buf → Buf))) (f : Buf → Buf) (fs : List (Buf → Buf))
    (hitems : items.filterMap id = f :: fs) :
    let k1 := runSameCpr h rule items k0
    k1.st.buf.text ≠ k0.st.buf.text → (undo k1.st).buf = k0.st.buf := by
  intro k1 hne
  have hk : k1 = runSame h rule (f :: fs) k0 := by
    show runSameCpr h rule items k0 = _
    rw [cpr_invisible_in_run, hitems]
  rw [hk] at hne ⊢
  exact (group_undone_as_one h rule hr0 hr1 k0 hp f fs hne).1

/-- **cpr_through_call_handler_splits_run** (why `_process_cpr_response` must not touch
    `_previous_handler`): if the report were dispatched like a key — a `_call_handler` of the CPR
    binding (identity 99, `save_before` never, empty body), which records itself as the previous
    handler — then after `a b <CPR> c d` one undo would give `ab`, not the text before the run. -/
theorem cpr_through_call_handler_splits_run :
    let rule : Bool → Bool := fun rep => !rep
    let k0 := kInit { text := [], cur := 0 }
    let k1 := runSame 0 rule [insertText ['a'], insertText ['b']] k0
    let k2 := callHandler 99 (fun _ => false) [] k1
    let k3 := runSame 0 rule [insertText ['c'], insertText ['d']] k2
    (undo k3.st).buf = { text := ['a', 'b'], cur := 2 } ∧
    (undo (runSame 0 rule [insertText ['c'], insertText ['d']] (cprResponse k1)).st).buf = k0.st.buf := by
  decide

/-- **ungrouped_when_every_call_saves** (the defect found in /repo, shown on the model).
    If the effective rule of the self-insert binding is `always` — which is what
    `KeyBindings.add(..., save_before=if_no_repeat)(<Binding>)` produced before /repo commit 3961882,
    because the explicit `save_before` was ignored — typing `a`, `b` at `x|y` and undoing once gives
    `xa|y`, not `x|y`: the run is NOT undone as one group.  (Replayed on the real code by the
    corpus witness `emacs "x|y" a b C-_`; `group_undone_as_one` is what holds after the fix.) -/
theorem ungrouped_when_every_call_saves :
    let k0 := kInit { text := ['x', 'y'], cur := 1 }
    let k1 := runSame 0 (fun _ => true) [insertText ['a'], insertText ['b']] k0
    (undo k1.st).buf = { text := ['x', 'a', 'y'], cur := 2 } ∧ (undo k1.st).buf ≠ k0.st.buf := by
  decide

/-! ## Non-vacuity -/

section Examples

/-- group_undone_as_one: hypotheses hold for the `if_no_repeat` rule after a motion command -/
example :
    let rule : Bool → Bool := fun rep => !rep
    let k0 : KSt := { st := { buf := exB0, undo := [{ text := [], cur := 0 }], redo := [exB0] }, prev := some 7 }
    rule false = true ∧ rule true = false ∧ k0.prev ≠ some 0 ∧
      (runSame 0 rule [insertText ['a'], insertText ['b'], insertText ['c']] k0).st.buf.text ≠ k0.st.buf.text := by
  decide

/-- typing_then_undo on a concrete state: three typed characters, one undo, the old state is back -/
example :
    let k0 : KSt := { st := { buf := exB0, undo := [{ text := [], cur := 0 }], redo := [exB0] }, prev := some 7 }
    (undo (runSame 0 (fun rep => !rep) (['a', 'b', 'c'].map fun ch => insertText [ch]) k0).st).buf = exB0 ∧
    (runSame 0 (fun rep => !rep) (['a', 'b', 'c'].map fun ch => insertText [ch]) k0).st.buf =
      { text := ['x', 'a', 'b', 'c', 'y'], cur := 4 } := by
  decide

/-- group_with_cpr_undone_as_one: `a b <CPR> c d` with a leading and a trailing CPR satisfies its hypotheses -/
example :
    let items : List (Option (Buf → Buf)) :=
      [none, some (insertText ['a']), some (insertText ['b']), none, some (insertText ['c']),
       some (insertText ['d']), none]
    let k0 : KSt := { st := { buf := exB0, undo := [], redo := [exB0] }, prev := some 7 }
    (runSameCpr 0 (fun rep => !rep) items k0).st.buf = { text := ['x', 'a', 'b', 'c', 'd', 'y'], cur := 5 } ∧
    (undo (runSameCpr 0 (fun rep => !rep) items k0).st).buf = exB0 := by
  decide

/-- two_groups_two_undos on `x|y`: type `a b`, Left, Left (handler 3, default rule), type `c`:
    the hypotheses hold, the first undo gives `x|aby` (the state right before `c`), the second `x|y` -/
example :
    let r : Bool → Bool := fun rep => !rep
    let k0 := kInit exB0
    let k1 := runSame 0 r [insertText ['a'], insertText ['b']] k0
    let ms : List (Nat × (Bool → Bool) × (Buf → Buf)) :=
      [(3, (fun _ => true), leftInLine), (3, (fun _ => true), leftInLine)]
    let k2 := runKeep ms k1
    let k3 := runSame 0 r [insertText ['c']] k2
    k0.prev ≠ some 0 ∧ k2.prev ≠ some 0 ∧ k1.st.buf.text ≠ k0.st.buf.text ∧ k3.st.buf.text ≠ k2.st.buf.text ∧
      k3.st.buf = { text := ['x', 'c', 'a', 'b', 'y'], cur := 2 } ∧
      (undo k3.st).buf = { text := ['x', 'a', 'b', 'y'], cur := 1 } ∧ (undo (undo k3.st)).buf = exB0 := by
  decide

/-- backspacing_then_undo on `xy|`: three Backspaces (the third finds nothing left), one undo -/
example :
    let k0 : KSt := { st := { buf := { text := ['x', 'y'], cur := 2 }, undo := [], redo := [] }, prev := some 7 }
    0 < k0.st.buf.cur ∧ k0.st.buf.cur ≤ k0.st.buf.text.length ∧
    (runSame 1 (fun rep => !rep) (List.replicate 3 (deleteBefore 1)) k0).st.buf = { text := [], cur := 0 } ∧
    (undo (runSame 1 (fun rep => !rep) (List.replicate 3 (deleteBefore 1)) k0).st).buf = k0.st.buf := by
  decide

/-- deleting_then_undo on `|xy` -/
example :
    let k0 : KSt := { st := { buf := { text := ['x', 'y'], cur := 0 }, undo := [], redo := [] }, prev := none }
    k0.st.buf.cur < k0.st.buf.text.length ∧
    (undo (runSame 2 (fun rep => !rep) (List.replicate 2 (Ptk.C07.delete 1)) k0).st).buf = k0.st.buf := by
  decide

/-- always_rule_not_grouped: two C-k style calls of a default-rule handler on `|x⏎y` -/
example :
    let k0 := kInit { text := ['x', '\n', 'y'], cur := 0 }
    let k1 := callHandler 7 (fun _ => true) [Act.edit killLine] k0
    let k2 := callHandler 7 (fun _ => true) [Act.edit killLine] k1
    k2.st.buf.text ≠ k1.st.buf.text ∧ (undo k2.st).buf = { text := ['\n', 'y'], cur := 0 } := by
  decide

end Examples

end Ptk.C07
