/-
  C03 — property theorems for the VT100 input decoder model (`Ptk.Model.C03`).
-/
import Ptk.Props.C03Decode
import Ptk.Props.C03Utf8
import Ptk.Props.C03Refine
import Ptk.Props.C03Gen1
import Ptk.Props.C03Gen2
import Ptk.Props.C03Read
import Ptk.Props.C03Keys
namespace Ptk.C03
open Ptk.Py

/-! ## 1. chunk independence -/

/-- Feeding `a ++ b` in one read is the same as feeding `a`, then `b` — keys delivered, paste
    state and pending prefix all agree — from EVERY parser state (also inside a paste, also with a
    pending prefix), for every table and digit class. -/
theorem feed_append (cfg : Cfg) (s : St) (a b : Text) :
    feed cfg s (a ++ b) = feed cfg (feed cfg s a) b := feed_append_aux cfg s a b

/-- non-vacuity: from a state inside an open paste whose buffer already holds half an end mark, and
    from a state with a pending CSI prefix -/
example :
    let s := feed genCfg St.init [ESC, '[', '2', '0', '0', '~', 'a', ESC, '[', '2']
    s.inPaste = true ∧ s.paste = ['a', ESC, '[', '2'] ∧
    feed genCfg s (['0', '1'] ++ ['~', 'b', ESC]) = feed genCfg (feed genCfg s ['0', '1']) ['~', 'b', ESC] ∧
    (feed genCfg s ['0', '1', '~', 'b', ESC]).out = [⟨"<bracketed-paste>", ['a']⟩, ⟨"b", ['b']⟩] := by
  decide +kernel
example :
    let s := feed genCfg St.init [ESC, '[', '1', ';']
    s.pre = [ESC, '[', '1', ';'] ∧ feed genCfg s (['5'] ++ ['A']) = feed genCfg (feed genCfg s ['5']) ['A'] ∧
    (feed genCfg s ['5', 'A']).out = [⟨"c-up", [ESC, '[', '1', ';', '5', 'A']⟩] := by
  decide +kernel

/-- Any way of cutting a stream into successive reads gives the same result as one read of the
    whole stream (keys delivered and complete final state). -/
theorem feeds_eq_flatten (cfg : Cfg) (s : St) (hs : Ready s) (cs : List Text) :
    cs.foldl (feed cfg) s = feed cfg s cs.flatten := by
  induction cs generalizing s with
  | nil => simp [feed_nil cfg s hs]
  | cons c cs ih =>
    rw [List.foldl_cons, ih _ (feed_ready cfg s c hs), List.flatten_cons, feed_append]

/-- two chunkings of the same stream cannot be told apart -/
theorem chunk_independent (cfg : Cfg) (cs₁ cs₂ : List Text) (h : cs₁.flatten = cs₂.flatten) :
    cs₁.foldl (feed cfg) St.init = cs₂.foldl (feed cfg) St.init := by
  rw [feeds_eq_flatten cfg _ ready_init, feeds_eq_flatten cfg _ ready_init, h]

example : [[ESC, '['], ['A', ESC], []].foldl (feed genCfg) St.init
    = [[ESC], ['[', 'A'], [ESC]].foldl (feed genCfg) St.init :=
  chunk_independent genCfg _ _ (by decide)

/-! ### schedules: reads interleaved with flush timeouts -/

/-- the stream segments between the flushes of a schedule (`cur` = segment being read) -/
def segs : List Op → Text → List Text
  | [], cur => [cur]
  | .feed d :: r, cur => segs r (cur ++ d)
  | .flush :: r, cur => cur :: segs r []

/-- feed one segment per read, flush between the segments -/
def runSegs (cfg : Cfg) : St → List Text → St
  | s, [] => s
  | s, [d] => feed cfg s d
  | s, d :: r => runSegs cfg (flush cfg (feed cfg s d)) r

theorem segs_ne_nil (ops : List Op) (cur : Text) : segs ops cur ≠ [] := by
  induction ops generalizing cur with
  | nil => simp [segs]
  | cons o r ih => cases o <;> simp [segs, ih]

theorem run_eq_runSegs_aux (cfg : Cfg) (ops : List Op) (s : St) (cur : Text) (hs : Ready s) :
    run cfg (feed cfg s cur) ops = runSegs cfg s (segs ops cur) := by
  induction ops generalizing s cur with
  | nil => simp [run, segs, runSegs]
  | cons o r ih =>
    cases o with
    | feed d =>
      have := ih s (cur ++ d) hs
      simp only [run, List.foldl_cons, step, segs] at this ⊢
      rw [← feed_append]; exact this
    | flush =>
      have hne := segs_ne_nil r []
      have hr : Ready (flush cfg (feed cfg s cur)) := flush_ready cfg _ (feed_ready cfg s cur hs)
      have := ih (flush cfg (feed cfg s cur)) [] hr
      rw [feed_nil cfg _ hr] at this
      simp only [run, List.foldl_cons, step, segs] at this ⊢
      rw [this]
      cases hq : segs r [] with
      | nil => exact absurd hq hne
      | cons x xs => simp [runSegs]

/-- A schedule (reads and flush timeouts in any order) is equivalent to: one read per segment
    between flushes. -/
theorem run_eq_runSegs (cfg : Cfg) (ops : List Op) (s : St) (hs : Ready s) :
    run cfg s ops = runSegs cfg s (segs ops []) := by
  have := run_eq_runSegs_aux cfg ops s [] hs
  rwa [feed_nil cfg s hs] at this

/-- **Chunk independence with flushes**: two schedules that deliver the same characters with the
    flushes at the same stream positions produce the same key presses and the same final state,
    however differently the reads are cut. -/
theorem schedule_independent (cfg : Cfg) (ops₁ ops₂ : List Op) (s : St) (hs : Ready s)
    (h : segs ops₁ [] = segs ops₂ []) : run cfg s ops₁ = run cfg s ops₂ := by
  rw [run_eq_runSegs cfg ops₁ s hs, run_eq_runSegs cfg ops₂ s hs, h]

example : run genCfg St.init [.feed [ESC], .feed ['[', 'M'], .flush, .feed [ESC, 'O'], .feed ['P']]
    = run genCfg St.init [.feed [ESC, '[', 'M'], .feed [], .flush, .feed [ESC], .feed ['O', 'P']] :=
  schedule_independent genCfg _ _ _ ready_init (by decide)

/-! ## 2. flush -/

/-- **After a flush nothing is left in the prefix** (whatever the table): the only thing that can
    remain buffered is `paste`, and only while `inPaste`. -/
theorem flush_empties (cfg : Cfg) (s : St) : (flush cfg s).pre = [] := by
  rcases proc_post cfg true s with h | ⟨h, _⟩
  · exact h
  · cases h

theorem flush_idempotent (cfg : Cfg) (s : St) : flush cfg (flush cfg s) = flush cfg s := by
  rw [flush_eq cfg (flush cfg s), proc_nil cfg true _ (flush_empties cfg s)]

/-- while characters are only being fed, whatever stays pending can still grow into a longer
    sequence (nothing is held back without reason) -/
theorem sendChar_pending (cfg : Cfg) (s : St) (c : Char) :
    (sendChar cfg s c).pre = [] ∨ isPrefixOfLonger cfg (sendChar cfg s c).pre = true := by
  rcases proc_post cfg false { s with pre := s.pre ++ [c] } with h | ⟨_, h⟩
  · exact Or.inl h
  · exact Or.inr h

/-- the F2 witness of DESIGN §8 (`ESC [ M ESC`, flush): with the persisting flush flag all four
    characters come out -/
example : (flush genCfg (feed genCfg St.init [ESC, '[', 'M', ESC])).pre = [] := flush_empties _ _
example : (flush genCfg (feed genCfg St.init [ESC, '[', 'M', ESC])).out
    = [⟨"escape", [ESC]⟩, ⟨"[", ['[']⟩, ⟨"M", ['M']⟩, ⟨"escape", [ESC]⟩] := by decide +kernel

/-! ## 3. table sequences decode to their keys (longest match) -/

/-- **A known escape sequence, followed by a flush, decodes to exactly its key(s)**: although
    every proper prefix of it may itself be a key (ESC, ESC [ …), nothing is delivered before the
    whole sequence is there (longest match), and the handler is called once with the table value
    and the whole sequence as data.  Holds for every table entry `(k, v)` that is the dict value of
    `k` and does not look like a CPR / mouse report. -/
theorem table_decode (cfg : Cfg) (k : Text) (v : List String) (hk : k ≠ []) (hv : v ≠ [])
    (hl : lookup cfg.table k = v) (hc : isCpr cfg.isDigit k = false) (hmo : isMouse cfg.isDigit k = false)
    (s : St) (hs : s.pre = []) (hp : s.inPaste = false) :
    flush cfg (feed cfg s k) = callHandler cfg s v k := by
  have hg : getMatch cfg k = v := by simp [getMatch, hc, hmo, hl]
  have hm := lookup_mem hl hv
  exact decode_held cfg k v hk hv hg
    (fun p hp hne _ => isPrefixOfLonger_of_mem cfg hm hv hp hne) s hs hp

/-- **A complete cursor-position report `ESC [ rows ; cols R` decodes to one CPR key press carrying
    the whole report**, for any digit class, however it arrives — provided a lone ESC is held back
    (true of every table that has some `ESC …` sequence). -/
theorem cpr_decode (cfg : Cfg) (hesc : isPrefixOfLonger cfg [ESC] = true) (k : Text)
    (hc : isCpr cfg.isDigit k = true) (s : St) (hs : s.pre = []) (hp : s.inPaste = false) :
    flush cfg (feed cfg s k) = callHandler cfg s [cfg.cprKey] k :=
  decode_held cfg k [cfg.cprKey] (isCpr_ne_nil hc) (by simp) (by simp [getMatch, hc])
    (cpr_held cfg hesc hc) s hs hp

/-- **A complete mouse report** (`ESC [ M x y z`, `ESC [ n ; n ; n M`, `ESC [ < n ; n ; n m`)
    **decodes to one mouse key press carrying the whole report**. -/
theorem mouse_decode (cfg : Cfg) (hesc : isPrefixOfLonger cfg [ESC] = true) (k : Text)
    (hc : isCpr cfg.isDigit k = false) (hmo : isMouse cfg.isDigit k = true)
    (s : St) (hs : s.pre = []) (hp : s.inPaste = false) :
    flush cfg (feed cfg s k) = callHandler cfg s [cfg.mouseKey] k :=
  decode_held cfg k [cfg.mouseKey] (isMouse_ne_nil hmo) (by simp) (by simp [getMatch, hc, hmo])
    (mouse_held cfg hesc hmo) s hs hp

/-! ### inside a stream: sequences that cannot grow are decoded at once -/

/-- a complete sequence (table entry, CPR or mouse report) with its keys: it has a match, all its
    proper prefixes are held back, it is not itself a prefix of something longer, and it is not
    the paste start mark -/
structure Token (cfg : Cfg) (k : Text) (v : List String) : Prop where
  ne : k ≠ []
  val : v ≠ []
  isMatch : getMatch cfg k = v
  held : ∀ p : Text, p <+: k → p ≠ k → p ≠ [] → isPrefixOfLonger cfg p = true
  final : isPrefixOfLonger cfg k = false
  noPaste : cfg.pasteKey ∉ v

/-- the table entries that are tokens: everything that is not a prefix of a longer sequence -/
theorem token_of_table {cfg : Cfg} {k : Text} {v : List String} (hk : k ≠ []) (hv : v ≠ [])
    (hl : lookup cfg.table k = v) (hc : isCpr cfg.isDigit k = false) (hmo : isMouse cfg.isDigit k = false)
    (hfin : isPrefixOfLonger cfg k = false) (hnp : cfg.pasteKey ∉ v) : Token cfg k v :=
  ⟨hk, hv, by simp [getMatch, hc, hmo, hl],
    fun _ hp hne _ => isPrefixOfLonger_of_mem cfg (lookup_mem hl hv) hv hp hne, hfin, hnp⟩

/-- complete CPR / mouse reports are tokens (when nothing longer starts with them) -/
theorem token_of_cpr {cfg : Cfg} (h : WF cfg) (hesc : isPrefixOfLonger cfg [ESC] = true) {k : Text}
    (hc : isCpr cfg.isDigit k = true) (hfin : isPrefixOfLonger cfg k = false) :
    Token cfg k [cfg.cprKey] :=
  ⟨isCpr_ne_nil hc, by simp, by simp [getMatch, hc], cpr_held cfg hesc hc, hfin,
    by simp only [List.mem_singleton]; exact fun e => h.cpr e.symm⟩

theorem token_of_mouse {cfg : Cfg} (h : WF cfg) (hesc : isPrefixOfLonger cfg [ESC] = true) {k : Text}
    (hc : isCpr cfg.isDigit k = false) (hm : isMouse cfg.isDigit k = true)
    (hfin : isPrefixOfLonger cfg k = false) : Token cfg k [cfg.mouseKey] :=
  ⟨isMouse_ne_nil hm, by simp, by simp [getMatch, hc, hm], mouse_held cfg hesc hm, hfin,
    by simp only [List.mem_singleton]; exact fun e => h.mouse e.symm⟩

/-- **A token at the head of a stream is decoded to its keys at once, whatever follows** (no
    flush needed, no interference from the following characters). -/
theorem token_decode (cfg : Cfg) {k : Text} {v : List String} (tk : Token cfg k v) (d : Text)
    (s : St) (hs : s.pre = []) (hp : s.inPaste = false) :
    feed cfg s (k ++ d) = feed cfg { s with out := s.out ++ presses v k } d := by
  rw [feed_append, decode_now cfg k v tk.ne tk.val tk.isMatch tk.held tk.final s hs hp,
    callHandler_noPaste cfg _ _ _ tk.noPaste]

/-- **A stream that is a concatenation of tokens decodes to the concatenation of their keys**, in
    order, each key press carrying exactly its own sequence, nothing left pending. -/
theorem tokens_decode (cfg : Cfg) (toks : List (Text × List String))
    (h : ∀ kv ∈ toks, Token cfg kv.1 kv.2) (s : St) (hs : s.pre = []) (hp : s.inPaste = false)
    (hr : Ready s) :
    feed cfg s (toks.flatMap (·.1)) = { s with out := s.out ++ toks.flatMap (fun kv => presses kv.2 kv.1) } := by
  induction toks generalizing s with
  | nil => simp [feed_nil cfg s hr]
  | cons kv r ih =>
    rw [List.flatMap_cons, token_decode cfg (h kv (by simp)) _ s hs hp,
      ih (fun x hx => h x (by simp [hx])) { s with out := s.out ++ presses kv.2 kv.1 } hs hp
        (by intro hq; rw [hp] at hq; cases hq)]
    simp [List.append_assoc]

/-- on the current table: `ESC [ A`, `ESC [ 1 ; 5 C`, a CPR report and `ESC [ 3 ~` in one stream -/
example : (feed genCfg St.init
      ([ESC, '[', 'A'] ++ [ESC, '[', '1', ';', '5', 'C'] ++ [ESC, '[', '3', ';', '7', 'R'] ++ [ESC, '[', '3', '~'])).out
    = [⟨"up", [ESC, '[', 'A']⟩, ⟨"c-right", [ESC, '[', '1', ';', '5', 'C']⟩,
       ⟨"<cursor-position-response>", [ESC, '[', '3', ';', '7', 'R']⟩, ⟨"delete", [ESC, '[', '3', '~']⟩] := by
  decide +kernel
example : Token genCfg [ESC, '[', '3', '~'] ["delete"] :=
  token_of_table (by decide) (by decide) (by decide +kernel) (by decide +kernel) (by decide +kernel)
    (by decide +kernel) (by decide)

/-- in terms of key presses: `v = (k₀, k₁, …)` arrives as `(k₀, data = sequence), (k₁, ""), …` -/
theorem table_decode_presses (cfg : Cfg) (k : Text) (v : List String) (hk : k ≠ []) (hv : v ≠ [])
    (hl : lookup cfg.table k = v) (hc : isCpr cfg.isDigit k = false) (hmo : isMouse cfg.isDigit k = false)
    (hnp : cfg.pasteKey ∉ v) :
    flush cfg (feed cfg St.init k) = { St.init with out := presses v k } := by
  rw [table_decode cfg k v hk hv hl hc hmo St.init rfl rfl, callHandler_noPaste cfg _ _ _ hnp]
  simp [St.init]

/-! ## 4. side conditions, re-decided by the kernel on the table regenerated from /repo -/

/- `gen_ok : WF genCfg` (first set of side conditions, `wf`) is decided in `Props/C03Gen1.lean`,
   `gen_ok2 : WF2 genCfg` (second set, `wf2`) in `Props/C03Gen2.lean` — files of their own so that
   the kernel evaluations run in parallel with this file. -/

/-! ## 5. losslessness -/

/-- **Every character fed is accounted for exactly once and in order**: the data of the key
    presses delivered so far (a paste event standing for `ESC[200~` + its content + `ESC[201~`),
    followed by what is still buffered (pending prefix, or the open paste), is exactly what was
    there before followed by the new data.  Holds from every reachable (`Good`) state. -/
theorem feed_lossless {cfg : Cfg} (h : WF cfg) (s : St) (d : Text) (g : Good cfg s) :
    recon cfg (feed cfg s d) = recon cfg s ++ d := (feed_lossless' h s d g).1

/-- a flush only moves characters from the pending prefix into key presses -/
theorem flush_lossless {cfg : Cfg} (h : WF cfg) (s : St) (g : Good cfg s) :
    recon cfg (flush cfg s) = recon cfg s := (flush_lossless' h s g).1

/-- the characters delivered by a schedule -/
def stream : List Op → Text
  | [] => []
  | .feed d :: r => d ++ stream r
  | .flush :: r => stream r

theorem run_lossless' {cfg : Cfg} (h : WF cfg) (ops : List Op) (s : St) (g : Good cfg s) :
    recon cfg (run cfg s ops) = recon cfg s ++ stream ops ∧ Good cfg (run cfg s ops) := by
  induction ops generalizing s with
  | nil => simp [run, stream, g]
  | cons o r ih =>
    cases o with
    | feed d =>
      obtain ⟨h1, h2⟩ := feed_lossless' h s d g
      obtain ⟨h3, h4⟩ := ih _ h2
      simp only [run, List.foldl_cons, step] at h3 h4 ⊢
      exact ⟨by rw [h3, h1]; simp [stream], h4⟩
    | flush =>
      obtain ⟨h1, h2⟩ := flush_lossless' h s g
      obtain ⟨h3, h4⟩ := ih _ h2
      simp only [run, List.foldl_cons, step] at h3 h4 ⊢
      exact ⟨by rw [h3, h1]; simp [stream], h4⟩

/-- **Losslessness for every schedule from the initial parser**: whatever reads and flushes
    happen, the key presses (in order) plus the buffered rest spell exactly the stream received. -/
theorem run_lossless {cfg : Cfg} (h : WF cfg) (ops : List Op) :
    recon cfg (run cfg St.init ops) = stream ops := by
  rw [(run_lossless' h ops St.init (good_init cfg)).1]; simp [recon, pending, St.init]

/-- … for the table of the current tree -/
theorem run_lossless_gen (ops : List Op) : recon genCfg (run genCfg St.init ops) = stream ops :=
  run_lossless gen_ok ops

/-- reachable states: a paste is only collected with an empty coroutine prefix, and a pending
    prefix can always still grow into a longer sequence -/
theorem run_good {cfg : Cfg} (h : WF cfg) (ops : List Op) : Good cfg (run cfg St.init ops) :=
  (run_lossless' h ops St.init (good_init cfg)).2

/-- **After a flush nothing remains buffered except an unterminated bracketed paste**: the
    stream is exactly the delivered key presses, plus `ESC[200~` + paste buffer if a paste is open. -/
theorem flush_delivers_all {cfg : Cfg} (h : WF cfg) (ops : List Op) :
    let s := run cfg St.init (ops ++ [.flush])
    s.pre = [] ∧
    stream ops = s.out.flatMap (pressText cfg) ++ (if s.inPaste then pasteStart ++ s.paste else []) := by
  intro s
  have hpre : s.pre = [] := by
    show (run cfg St.init (ops ++ [.flush])).pre = []
    simp only [run, List.foldl_append, List.foldl_cons, List.foldl_nil, step]
    exact flush_empties cfg _
  refine ⟨hpre, ?_⟩
  have := run_lossless h (ops ++ [.flush])
  have hst : ∀ l : List Op, stream (l ++ [.flush]) = stream l := by
    intro l
    induction l with
    | nil => rfl
    | cons o r ih => cases o <;> simp [stream, ih]
  have hst := hst ops
  rw [hst] at this
  rw [← this]
  show recon cfg s = _
  simp only [recon, pending, hpre]

/-- non-vacuity of `Good`: a reachable state with a non-empty pending prefix, and one inside a paste -/
example : Good genCfg (run genCfg St.init [.feed [ESC, '[', '<', '3']]) ∧
    (run genCfg St.init [.feed [ESC, '[', '<', '3']]).pre = [ESC, '[', '<', '3'] :=
  ⟨run_good gen_ok _, by decide +kernel⟩
example : Good genCfg (run genCfg St.init [.feed [ESC, '[', '2', '0', '0', '~', 'x']]) ∧
    (run genCfg St.init [.feed [ESC, '[', '2', '0', '0', '~', 'x']]).inPaste = true :=
  ⟨run_good gen_ok _, by decide +kernel⟩

/-- non-vacuity: a paste block cut in the middle of its end mark, a held-back ESC, then a flush -/
example :
    let ops := [Op.feed [ESC, '[', '2', '0', '0', '~', 'h', 'i', ESC, '['], .feed ['2', '0', '1', '~', 'x', ESC], .flush]
    (run genCfg St.init ops).out = [⟨"<bracketed-paste>", ['h', 'i']⟩, ⟨"x", ['x']⟩, ⟨"escape", [ESC]⟩]
    ∧ recon genCfg (run genCfg St.init ops) = stream ops := by decide +kernel

/-! ## 6. decoding of the sequences of the current table -/

/-- every entry of the regenerated `ANSI_SEQUENCES` decodes, after a flush, to exactly its keys -/
theorem table_decode_gen (k : Text) (v : List String) (hm : (k, v) ∈ genCfg.table)
    (s : St) (hs : s.pre = []) (hp : s.inPaste = false) :
    flush genCfg (feed genCfg s k) = callHandler genCfg s v k := by
  have he := gen_ok.entry _ hm
  simp only [wfEntry, Bool.and_eq_true, Bool.not_eq_true', beq_iff_eq] at he
  obtain ⟨⟨⟨⟨⟨⟨h1, h2⟩, h3⟩, h4⟩, h5⟩, _⟩, _⟩ := he
  exact table_decode genCfg k v (by simpa [List.isEmpty_iff] using h1)
    (by simpa [List.isEmpty_iff] using h2) h3 h4 h5 s hs hp

/-- a lone ESC is held back by the current table -/
theorem gen_esc_held : isPrefixOfLonger genCfg [ESC] = true := by decide +kernel

/-- reports on the current tree: one key press with the whole report as data -/
theorem cpr_decode_gen (k : Text) (hc : isCpr genCfg.isDigit k = true) :
    flush genCfg (feed genCfg St.init k) = { St.init with out := [⟨"<cursor-position-response>", k⟩] } := by
  rw [cpr_decode genCfg gen_esc_held k hc St.init rfl rfl]
  rw [callHandler_noPaste genCfg _ _ _ (by decide)]
  rfl

theorem mouse_decode_gen (k : Text) (hc : isCpr genCfg.isDigit k = false)
    (hm : isMouse genCfg.isDigit k = true) :
    flush genCfg (feed genCfg St.init k) = { St.init with out := [⟨"<vt100-mouse-event>", k⟩] } := by
  rw [mouse_decode genCfg gen_esc_held k hc hm St.init rfl rfl]
  rw [callHandler_noPaste genCfg _ _ _ (by decide)]
  rfl

example : isCpr genCfg.isDigit [ESC, '[', '2', '4', ';', '8', '0', 'R'] = true := by decide +kernel
example : isMouse genCfg.isDigit [ESC, '[', '<', '6', '4', ';', '8', '5', ';', '1', '2', 'M'] = true
    ∧ isCpr genCfg.isDigit [ESC, '[', '<', '6', '4', ';', '8', '5', ';', '1', '2', 'M'] = false := by
  decide +kernel
example : isMouse genCfg.isDigit [ESC, '[', 'M', 'a', ESC, '*'] = true := by decide +kernel

/-- e.g. `ESC [ 1 ; 5 A` (control-up) although `ESC`, `ESC [`, `ESC [ 1`, … are held back first;
    `ESC [ 2 ; 3 ~` delivers the tuple (escape, insert) with the data on the first key only -/
example : (flush genCfg (feed genCfg St.init [ESC, '[', '1', ';', '5', 'A'])).out
    = [⟨"c-up", [ESC, '[', '1', ';', '5', 'A']⟩] := by decide +kernel
example : (flush genCfg (feed genCfg St.init [ESC, '[', '2', ';', '3', '~'])).out
    = [⟨"escape", [ESC, '[', '2', ';', '3', '~']⟩, ⟨"insert", []⟩] := by decide +kernel
example : ([ESC, '[', '1', ';', '5', 'A'], ["c-up"]) ∈ genCfg.table := by decide +kernel

/-! ## 7. REFINEMENT: the parser computes the maximal-munch tokenisation of the whole stream

  `spec` / `tokenize` (`Model/C03Spec.lean`) is a plain recursive function on the complete stream:
  next token = the longest prefix of what is left that `_get_match` recognises, else one raw
  character; `ESC[200~` switches to verbatim paste until `ESC[201~`.  The theorems below say that
  the coroutine with its pending prefix, retry loop (a `for` without `break`), flush flag, paste
  fast path and re-feed computes exactly this function, however the stream is cut into reads. -/

/-- **The token the spec takes is the LONGEST recognised prefix** of what is left of the stream:
    it is recognised, and no longer prefix is. -/
theorem spec_longest (cfg : Cfg) (s : Text) (h0 : lm cfg s ≠ 0) :
    getMatch cfg (s.take (lm cfg s)) ≠ [] ∧
    ∀ j, lm cfg s < j → j ≤ s.length → getMatch cfg (s.take j) = [] :=
  ⟨lm_match cfg s h0, fun j h1 h2 => (lm_max cfg s j h1).resolve_right (by omega)⟩

/-- … and if nothing is recognised, no prefix at all is (the first character is a raw key) -/
theorem spec_raw (cfg : Cfg) (s : Text) (h0 : lm cfg s = 0) :
    ∀ j, 1 ≤ j → j ≤ s.length → getMatch cfg (s.take j) = [] :=
  fun j h1 h2 => (lm_max cfg s j (by omega)).resolve_right (by omega)

example : lm genCfg [ESC, '[', '1', ';', '5', 'A', ESC, '[', 'B'] = 6 ∧ lm genCfg ['[', 'A'] = 0
    ∧ lm genCfg [ESC, 'x'] = 1 := by decide +kernel

/-- **REFINEMENT.**  For every table satisfying the side conditions, every stream and every way
    of cutting it into reads: the parser (reads, then the flush) delivers exactly the key presses
    of the spec on the whole stream, and ends in exactly the state the spec prescribes (nothing
    pending; inside a paste iff the spec ends inside an unterminated paste, with the same text). -/
theorem parser_refines_spec {cfg : Cfg} (h : WF cfg) (h2 : WF2 cfg) (cs : List Text) :
    flush cfg (cs.foldl (feed cfg) St.init) = St.after St.init (spec cfg cs.flatten) := by
  rw [feeds_eq_flatten cfg _ ready_init]
  exact flush_feed_refines h h2 St.init atRest_init _

/-- … on the table of the current tree -/
theorem parser_refines_spec_gen (cs : List Text) :
    flush genCfg (cs.foldl (feed genCfg) St.init) = St.after St.init (spec genCfg cs.flatten) :=
  parser_refines_spec gen_ok gen_ok2 cs

/-- non-vacuity: two table sequences, a CPR report, an X10 mouse report containing ESC, a raw
    character, a complete paste, a held-back ESC — cut in the middle of sequences -/
example :
    let cs : List Text := [[ESC, '[', '1', ';'], ['5', 'C', ESC, '[', 'A', ESC, '[', '3'], [';', '7', 'R', ESC, '[', 'M', ESC],
      ['[', 'A', 'x', ESC, '[', '2', '0', '0', '~', 'p', ESC, '[', '2'], ['0', '1', '~', ESC]]
    flush genCfg (cs.foldl (feed genCfg) St.init) = St.after St.init (spec genCfg cs.flatten) ∧
    (spec genCfg cs.flatten).keys =
      [⟨"c-right", [ESC, '[', '1', ';', '5', 'C']⟩, ⟨"up", [ESC, '[', 'A']⟩,
       ⟨"<cursor-position-response>", [ESC, '[', '3', ';', '7', 'R']⟩,
       ⟨"<vt100-mouse-event>", [ESC, '[', 'M', ESC, '[', 'A']⟩, ⟨"x", ['x']⟩,
       ⟨"<bracketed-paste>", ['p']⟩, ⟨"escape", [ESC]⟩] ∧
    (spec genCfg cs.flatten).openPaste = none :=
  ⟨parser_refines_spec_gen _, by decide +kernel, by decide +kernel⟩

/-- an unterminated paste stays open, in the spec and in the parser -/
example : spec genCfg [ESC, '[', '2', '0', '0', '~', 'a', ESC, '[', '2', '0', '1'] =
    ⟨[], some ['a', ESC, '[', '2', '0', '1']⟩ := by decide +kernel

/-- **Chunk independence is a corollary**: two chunkings of one stream give the same result. -/
theorem chunk_independent_of_spec {cfg : Cfg} (h : WF cfg) (h2 : WF2 cfg) (cs₁ cs₂ : List Text)
    (he : cs₁.flatten = cs₂.flatten) :
    flush cfg (cs₁.foldl (feed cfg) St.init) = flush cfg (cs₂.foldl (feed cfg) St.init) := by
  rw [parser_refines_spec h h2, parser_refines_spec h h2, he]

/-- **Losslessness is a corollary**: the data of the key presses delivered for a flushed stream
    (a paste press standing for `ESC[200~` text `ESC[201~`), plus an unterminated paste, spell
    exactly the stream — because the spec's tokens do (`tokenize_lossless`). -/
theorem lossless_of_spec {cfg : Cfg} (h : WF cfg) (h2 : WF2 cfg) (cs : List Text) :
    recon cfg (flush cfg (cs.foldl (feed cfg) St.init)) = cs.flatten := by
  rw [parser_refines_spec h h2]
  have := tokenize_lossless h none cs.flatten
  unfold spec
  generalize tokenize cfg none cs.flatten = d at this ⊢
  obtain ⟨keys, op⟩ := d
  cases op <;> simpa [recon, pending, St.after, St.init, pasteText] using this

/-- the segments of a schedule that ends with a flush -/
theorem segs_flush (ops : List Op) (cur : Text) : segs (ops ++ [.flush]) cur = segs ops cur ++ [[]] := by
  induction ops generalizing cur with
  | nil => rfl
  | cons o r ih => cases o <;> simp [segs, ih]

theorem runSegs_flushed (cfg : Cfg) (l : List Text) (hl : l ≠ []) (s : St) (hs : Ready s) :
    runSegs cfg s (l ++ [[]]) = l.foldl (fun s d => flush cfg (feed cfg s d)) s := by
  induction l generalizing s with
  | nil => exact absurd rfl hl
  | cons d r ih =>
    have hr : Ready (flush cfg (feed cfg s d)) := flush_ready cfg _ (feed_ready cfg s d hs)
    cases r with
    | nil => simp [runSegs, feed_nil cfg _ hr]
    | cons d' r' =>
      show runSegs cfg (flush cfg (feed cfg s d)) ((d' :: r') ++ [[]]) = _
      rw [ih (by simp) _ hr]
      rfl

/-- **Refinement for schedules**: reads and flush timeouts in any order, ending with a flush, give
    exactly what the spec gives segment by segment (a segment = the characters between two
    flushes; the paste state is carried from one segment to the next). -/
theorem schedule_refines_spec {cfg : Cfg} (h : WF cfg) (h2 : WF2 cfg) (ops : List Op) :
    run cfg St.init (ops ++ [.flush]) = specSegs cfg St.init (segs ops []) := by
  rw [run_eq_runSegs cfg _ St.init ready_init, segs_flush,
    runSegs_flushed cfg _ (segs_ne_nil ops []) St.init ready_init]
  exact segments_refine h h2 St.init atRest_init _

theorem schedule_refines_spec_gen (ops : List Op) :
    run genCfg St.init (ops ++ [.flush]) = specSegs genCfg St.init (segs ops []) :=
  schedule_refines_spec gen_ok gen_ok2 ops

/-- a paste opened before a flush and closed after it; ESC flushed as a key of its own -/
example :
    let ops := [Op.feed [ESC], .flush, .feed [ESC, '[', '2', '0', '0', '~', 'a'], .flush, .feed ['b', ESC, '[', '2', '0'],
      .feed ['1', '~', ESC, 'O', 'P']]
    (run genCfg St.init (ops ++ [.flush])).out =
      [⟨"escape", [ESC]⟩, ⟨"<bracketed-paste>", ['a', 'b']⟩, ⟨"f1", [ESC, 'O', 'P']⟩] ∧
    run genCfg St.init (ops ++ [.flush]) = specSegs genCfg St.init (segs ops []) :=
  ⟨by decide +kernel, schedule_refines_spec_gen _⟩

/-! ## 7b. keys with data -/

/-- **Every entry of the regenerated table, alone and flushed, yields exactly the presses of its
    value: the first carries the whole sequence as `data`, the others `""`** (the paste start mark
    yields no press: it opens a paste). -/
theorem table_presses_gen (k : Text) (v : List String) (hm : (k, v) ∈ genCfg.table) (hk : k ≠ pasteStart) :
    flush genCfg (feed genCfg St.init k) = { St.init with out := presses v k } := by
  have he := gen_ok.entry _ hm
  simp only [wfEntry, Bool.and_eq_true, Bool.not_eq_true', beq_iff_eq] at he
  obtain ⟨⟨⟨⟨⟨⟨h1, h2⟩, h3⟩, h4⟩, h5⟩, h6⟩, _⟩ := he
  rw [if_neg hk] at h6
  have h6 : genCfg.pasteKey ∉ v := by simpa using h6
  exact table_decode_presses genCfg k v (by simpa [List.isEmpty_iff] using h1)
    (by simpa [List.isEmpty_iff] using h2) h3 h4 h5 h6

/-- the meta prefix on the current table: `ESC x` = escape, then `x`; `ESC ESC x` likewise -/
example : (flush genCfg (feed genCfg St.init [ESC, 'x', ESC, '[', 'A'])).out
    = [⟨"escape", [ESC]⟩, ⟨"x", ['x']⟩, ⟨"up", [ESC, '[', 'A']⟩] := by decide +kernel
example : lm genCfg [ESC, 'x', ESC, '[', 'A'] = 1 :=
  lm_esc_char gen_ok2 'x' _ (by decide +kernel) (by decide +kernel) (by decide +kernel)
example : tokenize genCfg none ['q', ESC, 'O', 'P'] =
    Decoded.cons [⟨"q", ['q']⟩] (tokenize genCfg none [ESC, 'O', 'P']) :=
  tokenize_raw_char gen_ok2 'q' _ (by decide) (by decide +kernel)

/-! ## 8. below the parser: byte reads through the incremental UTF-8 decoder -/

namespace Utf8

/-- **The incremental decoder is chunk independent**: decoding `a` and then `b` (carrying the
    undecoded tail over) yields the same text and the same tail as decoding `a ++ b` at once —
    for arbitrary bytes, including invalid UTF-8 and cuts inside a multi-byte sequence. -/
theorem decode_append (buf a b : Bytes) :
    decode buf (a ++ b) =
      ((decode buf a).1 ++ (decode (decode buf a).2 b).1, (decode (decode buf a).2 b).2) :=
  decode_append_aux buf a b

/-- **Byte-level chunk independence of `Vt100Input.read_keys`**: two `os.read`s delivering `a`
    then `b` leave decoder buffer, parser state and delivered key presses exactly as one read
    delivering `a ++ b` — wherever the OS cuts, also inside a UTF-8 sequence or an escape sequence. -/
theorem readKeys_append (cfg : Cfg) (st : InSt) (a b : Bytes) :
    readKeys cfg st (a ++ b) = readKeys cfg (readKeys cfg st a) b :=
  readKeys_append_aux cfg st a b

/-- the byte segments between the flushes of a schedule -/
def bsegs : List BOp → Bytes → List Bytes
  | [], cur => [cur]
  | .read d :: r, cur => bsegs r (cur ++ d)
  | .flush :: r, cur => cur :: bsegs r []

def brunSegs (cfg : Cfg) : InSt → List Bytes → InSt
  | s, [] => s
  | s, [d] => readKeys cfg s d
  | s, d :: r => brunSegs cfg (flushKeys cfg (readKeys cfg s d)) r

theorem bsegs_ne_nil (ops : List BOp) (cur : Bytes) : bsegs ops cur ≠ [] := by
  induction ops generalizing cur with
  | nil => simp [bsegs]
  | cons o r ih => cases o <;> simp [bsegs, ih]

theorem brun_eq_segs_aux (cfg : Cfg) (ops : List BOp) (s : InSt) (cur : Bytes) (hs : InReady s) :
    brun cfg (readKeys cfg s cur) ops = brunSegs cfg s (bsegs ops cur) := by
  induction ops generalizing s cur with
  | nil => simp [brun, bsegs, brunSegs]
  | cons o r ih =>
    cases o with
    | read d =>
      have := ih s (cur ++ d) hs
      simp only [brun, List.foldl_cons, bstep, bsegs] at this ⊢
      rw [← readKeys_append]; exact this
    | flush =>
      have hne := bsegs_ne_nil r []
      have hr : InReady (flushKeys cfg (readKeys cfg s cur)) :=
        flushKeys_ready cfg _ (readKeys_ready cfg s cur hs)
      have := ih (flushKeys cfg (readKeys cfg s cur)) [] hr
      rw [readKeys_nil cfg _ hr] at this
      simp only [brun, List.foldl_cons, bstep, bsegs] at this ⊢
      rw [this]
      cases hq : bsegs r [] with
      | nil => exact absurd hq hne
      | cons x xs => simp [brunSegs]

/-- **Schedules of byte reads and flush timeouts**: the result (decoder buffer, parser state, all
    key presses) depends only on the bytes and on the positions of the flushes in the byte
    stream, not on how the bytes were cut into reads. -/
theorem byte_schedule_independent (cfg : Cfg) (ops₁ ops₂ : List BOp) (s : InSt) (hs : InReady s)
    (h : bsegs ops₁ [] = bsegs ops₂ []) : brun cfg s ops₁ = brun cfg s ops₂ := by
  have e1 := brun_eq_segs_aux cfg ops₁ s [] hs
  have e2 := brun_eq_segs_aux cfg ops₂ s [] hs
  rw [readKeys_nil cfg s hs] at e1 e2
  rw [e1, e2, h]

/-- `世` (E4 B8 96) cut after its first byte, then `ESC [ A` cut after the ESC -/
example :
    (brun genCfg InSt.init [.read [0xE4], .read [0xB8, 0x96, 27], .read [91, 65], .flush]).p.out
      = [⟨"世", ['世']⟩, ⟨"up", [ESC, '[', 'A']⟩]
    ∧ brun genCfg InSt.init [.read [0xE4], .read [0xB8, 0x96, 27], .read [91, 65], .flush]
      = brun genCfg InSt.init [.read [0xE4, 0xB8, 0x96, 27, 91, 65], .flush] := by
  refine ⟨by decide +kernel, byte_schedule_independent genCfg _ _ _ inReady_init (by decide)⟩

/-- invalid bytes: `E0 80` is rejected as soon as the `80` is seen, `ED A0` is held until the next byte -/
example : decode [] [0xE0, 0x80] = ([0xDCE0, 0xDC80], []) ∧ decode [] [0xED, 0xA0] = ([], [0xED, 0xA0])
    ∧ decode [0xED, 0xA0] [0x41] = ([0xDCED, 0xDCA0, 0x41], []) := by decide +kernel

/-! ## 9. the read path as it is: 1024-byte reads, EOF, `OSError`; end to end -/

/-- the text a byte stream decodes to under the input's encoding (UTF-8: a trailing incomplete
    sequence stays in the decoder) -/
def decodedText (c : Codec) (bs : Bytes) : Text := (c.decode [] bs).1.map Char.ofNat

/-- **End to end, for the encoding the input was created with: pipe → `os.read(≤ count)` →
    incremental decoder of `stdin.encoding` → parser → flush = the spec on the DECODED text.**
    Whatever bytes are waiting on the descriptor, `n` calls of `read_keys()` (enough to drain them,
    `count` = 1024 in the source) followed by `flush_keys()` deliver exactly the key presses of the
    tokenisation spec on the text these bytes spell in that encoding, wherever the read boundaries
    fall. -/
theorem pipe_refines_spec {cfg : Cfg} (h : WF cfg) (h2 : WF2 cfg) (c : Codec) (count : Nat)
    (hc : 1 ≤ count) (bs : Bytes) (n : Nat) (hn : bs.length ≤ n * count) :
    (Inp.flushKeys cfg (Inp.readKeysN cfg count n (Inp.new c) ⟨bs, false, false⟩).1).p
      = St.after St.init (spec cfg (decodedText c bs)) := by
  rw [readKeysN_drain cfg count hc n (Inp.new c) ⟨bs, false, false⟩ (inpReady_new c) rfl rfl rfl hn]
  simp only [Inp.flushKeys, readKeysC, Inp.new, Reader.new, Inp.of]
  exact flush_feed_refines h h2 St.init atRest_init _

/-- … and with the writers gone: everything written is delivered, then `closed` is set -/
theorem pipe_eof_refines_spec {cfg : Cfg} (h : WF cfg) (h2 : WF2 cfg) (c : Codec) (count : Nat)
    (hc : 1 ≤ count) (bs : Bytes) (n : Nat) (hn : bs.length + count ≤ n * count) :
    let r := (Inp.readKeysN cfg count n (Inp.new c) ⟨bs, true, false⟩).1
    r.closed = true ∧ (Inp.flushKeys cfg r).p = St.after St.init (spec cfg (decodedText c bs)) := by
  intro r
  have hr : r = _ := congrArg Prod.fst
    (readKeysN_eof cfg count hc n (Inp.new c) ⟨bs, true, false⟩ (inpReady_new c) rfl rfl rfl hn)
  rw [hr]
  refine ⟨rfl, ?_⟩
  simp only [Inp.flushKeys, readKeysC, Inp.new, Reader.new, Inp.of]
  exact flush_feed_refines h h2 St.init atRest_init _

/-- **single-byte code pages: the decoded text has exactly one character per byte** — the byte's
    table entry, or its escape — so no two input characters can merge into one key press and no
    character can be split (the reader is trivially chunk independent: nothing is ever pending) -/
theorem decodedText_single (tbl : List (Option Nat)) (bs : Bytes) :
    decodedText (.single tbl) bs = bs.map (fun b => Char.ofNat (sbChar tbl b)) ∧
    (decodedText (.single tbl) bs).length = bs.length := by
  simp [decodedText, Codec.decode]

/-- a Latin-1 terminal: `é` is the byte E9, `Ã©` the bytes C3 A9 (two characters, two presses),
    9B is the 8-bit table sequence — whereas a UTF-8 terminal reads C3 A9 as one `é` -/
example :
    (codecOf "latin-1").map (fun c =>
      (Inp.flushKeys genCfg (Inp.readKeysN genCfg 3 2 (Inp.new c) ⟨[0xE9, 0xC3, 0xA9, 0x9B], false, false⟩).1).p.out)
      = some [⟨"é", ['é']⟩, ⟨"Ã", ['Ã']⟩, ⟨"©", ['©']⟩, ⟨"s-escape", [Char.ofNat 0x9B]⟩]
    ∧ (Inp.flushKeys genCfg (Inp.readKeysN genCfg 3 2 (Inp.new .utf8) ⟨[0xC3, 0xA9], false, false⟩).1).p.out
      = [⟨"é", ['é']⟩]
    ∧ (Inp.ofEncoding "no-such-codec").isNone = true := by
  decide +kernel

/-- 3 bytes per read: `世` (E4 B8 96) + `ESC [ A` + `é` (C3 A9), cut inside the escape sequence
    and inside `é`; three reads drain it -/
example :
    let bs : Bytes := [0xE4, 0xB8, 0x96, 27, 91, 65, 0xC3, 0xA9]
    (Inp.flushKeys genCfg (Inp.readKeysN genCfg 3 3 Inp.init ⟨bs, false, false⟩).1).p.out
      = [⟨"世", ['世']⟩, ⟨"up", [ESC, '[', 'A']⟩, ⟨"é", ['é']⟩]
    ∧ (spec genCfg (decodedText .utf8 bs)).keys = [⟨"世", ['世']⟩, ⟨"up", [ESC, '[', 'A']⟩, ⟨"é", ['é']⟩] := by
  decide +kernel

/-- EOF: the fourth read finds nothing and sets `closed`; a dead descriptor closes at once -/
example :
    (Inp.readKeysN genCfg 3 4 Inp.init ⟨[0x61, 0x62, 0x63, 0x64], true, false⟩).1.closed = true
    ∧ (Inp.readKeysN genCfg 3 2 Inp.init ⟨[0x61, 0x62, 0x63, 0x64], true, false⟩).1.closed = false
    ∧ (Inp.readKeys genCfg 1024 Inp.init ⟨[0x61], false, true⟩).1.closed = true
    ∧ (Inp.readKeys genCfg 1024 Inp.init ⟨[0x61], false, true⟩).1.p.out = [] := by
  decide +kernel

end Utf8

end Ptk.C03
