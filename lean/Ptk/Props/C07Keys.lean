/-
  C07 — hypothesis-free instances for the fully modelled emacs and Vi key sets of `Ptk.Model.C07`.

  `EKey` = {printable characters, Backspace, Delete, Left, Right, Home, End, C-a, C-e, C-b, C-f,
  C-k, C-u, C-_, C-x C-u, redo}; `VKey` = {i, a, A, x, X, u, the count digits 2 and 3, Escape, redo} with the
  Vi input mode and the numeric argument.  The `save_before` rule of every key is LOOKED UP in the
  regenerated table (`ruleOf`), the facts needed about the lookups are re-decided by the kernel here, and
  the correspondence checks on every run that the real `PromptSession` agrees with `ekey` / `vkey` key by
  key (text, cursor, both stacks, previous handler, input mode).
-/
import Ptk.Props.C07Table
namespace Ptk.C07
open Ptk.Py

/-! ## 1. The shipped emacs bindings -/

/-- the same key as a `Cmd` of the general session model -/
def EKey.toCmd (key : EKey) : Cmd :=
  { h := key.hid, rule := key.rule,
    body := match key with
      | .undo => .undo 1 id
      | .undoXU => .undo 1 id
      | .redo => .redo id
      | k => .edit k.edit }

/-- handlers 8, 9 are undo, 10 is the harness redo binding; everything else edits -/
def eIsEdit : Nat → Bool := fun h => !(h == 8 || h == 9 || h == 10)

theorem ekey_eq_stepK (k : KSt) (key : EKey) : ekey k key = stepK k key.toCmd := by
  cases key <;> rfl

/-- a whole emacs key session -/
def eRun (keys : List EKey) (k : KSt) : KSt := keys.foldl ekey k

theorem eRun_eq_runI (keys : List EKey) (k : KSt) :
    eRun keys k = runI (cmdsI (keys.map EKey.toCmd)) k := by
  rw [runI_cmds]
  induction keys generalizing k with
  | nil => rfl
  | cons x xs ih => simp only [eRun, List.foldl_cons, List.map_cons, runK] at *; rw [ekey_eq_stepK]; exact ih _

/-- every editing key of the set snapshots when it is not a repeat (re-decided on the regenerated table) -/
theorem eRule_saves (key : EKey) (h : eIsEdit key.hid = true) : key.rule false = true := by
  cases key with
  | char c => show ruleOf "named_commands.self_insert" "<any>" false = true; decide +kernel
  | undo => simp [eIsEdit, EKey.hid] at h
  | undoXU => simp [eIsEdit, EKey.hid] at h
  | redo => simp [eIsEdit, EKey.hid] at h
  | backspace => decide +kernel
  | delete => decide +kernel
  | left => decide +kernel
  | right => decide +kernel
  | home => decide +kernel
  | eol => decide +kernel
  | killLine => decide +kernel
  | ctrlA => decide +kernel
  | ctrlE => decide +kernel
  | ctrlB => decide +kernel
  | ctrlF => decide +kernel
  | ctrlU => decide +kernel

/-- the undo keys never snapshot (re-decided on the regenerated table) -/
theorem eRule_undo_never : ∀ rep, EKey.undo.rule rep = false ∧ EKey.undoXU.rule rep = false ∧ EKey.redo.rule rep = false := by
  intro rep; cases rep <;> decide +kernel

theorem mem_cmdsI {c : Cmd} {cs : List Cmd} (h : Item.cmd c ∈ cmdsI cs) : c ∈ cs := by
  simp only [cmdsI, List.mem_map] at h
  obtain ⟨c', hc', he⟩ := h
  cases he; exact hc'

theorem eWF (keys : List EKey) : WF eIsEdit (cmdsI (keys.map EKey.toCmd)) where
  saves := by
    intro c hc hh
    obtain ⟨key, _, rfl⟩ := List.mem_map.mp (mem_cmdsI hc)
    exact eRule_saves key hh
  kind := by
    intro c hc
    obtain ⟨key, _, rfl⟩ := List.mem_map.mp (mem_cmdsI hc)
    cases key <;> rfl
  post := by
    intro c hc
    obtain ⟨key, _, rfl⟩ := List.mem_map.mp (mem_cmdsI hc)
    cases key <;> simp [EKey.toCmd, Body.PostKeepsText]
  noReset := by
    intro c hc
    obtain ⟨key, _, rfl⟩ := List.mem_map.mp (mem_cmdsI hc)
    cases key <;> rfl
  roFixed := by
    intro c hc
    obtain ⟨key, _, rfl⟩ := List.mem_map.mp (mem_cmdsI hc)
    cases key <;> simp [EKey.toCmd, Body.RoFixed]

theorem extOK_cmdsI (cs : List Cmd) (k : KSt) : ExtOK (cmdsI cs) k := by
  induction cs generalizing k with
  | nil => trivial
  | cons c cs ih => exact ⟨trivial, ih _⟩

/-- **emacs_undo_reaches_initial.**  For EVERY sequence of these emacs keys from EVERY initial
    document: undoing at least as often as the stack is high ends on the initial text. -/
theorem emacs_undo_reaches_initial (keys : List EKey) (b0 : Buf) (n : Nat)
    (hn : (eRun keys (kInit b0)).st.undo.length ≤ n) :
    (undoN n (eRun keys (kInit b0)).st).buf.text = b0.text := by
  rw [eRun_eq_runI] at hn ⊢
  exact (undo_reaches_initial eIsEdit _ b0 (eWF keys) (extOK_cmdsI _ _) n hn).1

/-- **emacs_edit_discards_redo.**  For every key sequence: right after any key that is not undo /
    redo, the redo stack is empty. -/
theorem emacs_edit_discards_redo (keys : List EKey) (key : EKey) (b0 : Buf)
    (hk : key ≠ .undo ∧ key ≠ .undoXU ∧ key ≠ .redo) :
    (eRun (keys ++ [key]) (kInit b0)).st.redo = [] := by
  rw [eRun_eq_runI, List.map_append]
  have hcm : cmdsI (keys.map EKey.toCmd ++ [key].map EKey.toCmd) =
      cmdsI (keys.map EKey.toCmd) ++ [.cmd key.toCmd] := by simp [cmdsI]
  rw [hcm]
  apply edit_discards_redo eIsEdit _ _ b0
  · have := eWF (keys ++ [key]); rw [List.map_append, hcm] at this; exact this
  · rw [← hcm]; exact extOK_cmdsI _ _
  · obtain ⟨h1, h2, h3⟩ := hk
    cases key <;> first | rfl | exact absurd rfl h1 | exact absurd rfl h2 | exact absurd rfl h3
  · cases key <;> simp [EKey.toCmd]

/-- **emacs_undo_lands_on_logged_state.**  For every key sequence, pressing C-_ afterwards either
    changes nothing or lands on a (text, cursor) the buffer had right before one of the earlier
    keys, with a different text. -/
theorem emacs_undo_lands_on_logged_state (keys : List EKey) (b0 : Buf) :
    let g := runG (cmdsI (keys.map EKey.toCmd)) (gInit b0)
    g.k = eRun keys (kInit b0) ∧
    ((ekey g.k .undo).st.buf = g.k.st.buf ∨
      ((ekey g.k .undo).st.buf ∈ g.log ∧ (ekey g.k .undo).st.buf.text ≠ g.k.st.buf.text)) := by
  intro g
  refine ⟨by rw [eRun_eq_runI]; exact runG_k _ _, ?_⟩
  have h := undo_restores_logged (cmdsI (keys.map EKey.toCmd)) b0
  have he : (ekey g.k .undo).st = undo g.k.st := by
    have hr := (eRule_undo_never (decide (g.k.prev = some EKey.undo.hid))).1
    simp [ekey, callHandler_eq, boundary, hr, EKey.acts, act]
  rw [he]; exact h

/-- **emacs_undo_redo_chain.**  Any mix of C-_ and C-x C-u presses that each restore something, followed by as
    many redos, brings back exactly the text and cursor from before the first undo key. -/
theorem emacs_undo_redo_chain (us : List Bool) (k : KSt)
    (hch : CmdsChange (us.map fun b => if b then EKey.undo.toCmd else EKey.undoXU.toCmd) k) :
    (redoN us.length (eRun (us.map fun b => if b then EKey.undo else EKey.undoXU) k).st).buf = k.st.buf := by
  have hrun : eRun (us.map fun b => if b then EKey.undo else EKey.undoXU) k =
      runK (us.map fun b => if b then EKey.undo.toCmd else EKey.undoXU.toCmd) k := by
    rw [eRun_eq_runI, runI_cmds]
    congr 1
    rw [List.map_map]
    apply List.map_congr_left
    intro b _; cases b <;> rfl
  rw [hrun]
  have := undo_chain_then_redos_exact (us.map fun b => if b then EKey.undo.toCmd else EKey.undoXU.toCmd)
    (by
      intro c hc
      obtain ⟨b, _, rfl⟩ := List.mem_map.mp hc
      cases b
      · exact ⟨(eRule_undo_never false).2.1, (eRule_undo_never true).2.1, id, rfl⟩
      · exact ⟨(eRule_undo_never false).1, (eRule_undo_never true).1, id, rfl⟩) k hch
  simpa using this.1

/-- **emacs_typing_then_undo.**  After any key sequence that does not end in a printable character,
    type any non-empty string and press C-_ once: text and cursor are exactly as before the string. -/
theorem emacs_typing_then_undo (keys : List EKey) (b0 : Buf) (c : Char) (cs : List Char)
    (hlast : ∀ k ∈ keys.getLast?, ∀ ch, k ≠ .char ch) :
    (ekey (eRun ((c :: cs).map EKey.char) (eRun keys (kInit b0))) .undo).st.buf =
      (eRun keys (kInit b0)).st.buf := by
  have hp : (eRun keys (kInit b0)).prev ≠ some 0 := by
    cases hl : keys.getLast? with
    | none =>
      have : keys = [] := List.getLast?_eq_none_iff.mp hl
      subst this; simp [eRun, kInit]
    | some k =>
      obtain ⟨ys, rfl⟩ : ∃ ys, keys = ys ++ [k] := by
        have := List.getLast?_eq_some_iff.mp hl
        obtain ⟨ys, h⟩ := this; exact ⟨ys, h⟩
      have hk := hlast k (by simp [hl])
      simp only [eRun, List.foldl_append, List.foldl_cons, List.foldl_nil, ekey, callHandler_eq]
      intro e
      simp only [Option.some.injEq] at e
      cases k <;> simp [EKey.hid] at e
      exact hk _ rfl
  have hrun : ∀ (l : List Char) (k : KSt),
      eRun (l.map EKey.char) k =
        runSame 0 (ruleOf "named_commands.self_insert" "<any>") (l.map fun ch => insertText [ch]) k := by
    intro l
    induction l with
    | nil => intro k; rfl
    | cons x xs ih => intro k; simp only [List.map_cons, eRun, runSame, List.foldl_cons] at *; exact ih _
  have he : ∀ k : KSt, (ekey k .undo).st = undo k.st := by
    intro k
    have hr := (eRule_undo_never (decide (k.prev = some EKey.undo.hid))).1
    simp [ekey, callHandler_eq, boundary, hr, EKey.acts, act]
  rw [he, hrun]
  exact shipped_typing_then_undo 0 _ hp c cs

/-- **emacs_backspacing_then_undo.**  After any key sequence that does not end in Backspace, with the cursor
    inside the text and not at its start: any number (≥ 1) of Backspaces, then C-_ once — text and cursor
    are exactly as before the first Backspace. -/
theorem emacs_backspacing_then_undo (k0 : KSt) (hp : k0.prev ≠ some 1)
    (hc0 : 0 < k0.st.buf.cur) (hc1 : k0.st.buf.cur ≤ k0.st.buf.text.length) (n : Nat) :
    (ekey (eRun (List.replicate (n + 1) EKey.backspace) k0) .undo).st.buf = k0.st.buf := by
  have hrun : ∀ (m : Nat) (k : KSt), eRun (List.replicate m EKey.backspace) k =
      runSame 1 (ruleOf "named_commands.backward_delete_char" "c-h") (List.replicate m (deleteBefore 1)) k := by
    intro m
    induction m with
    | zero => intro k; rfl
    | succ m ih => intro k; simp only [List.replicate_succ, eRun, runSame, List.foldl_cons] at *; exact ih _
  have he : ∀ k : KSt, (ekey k .undo).st = undo k.st := by
    intro k
    have hr := (eRule_undo_never (decide (k.prev = some EKey.undo.hid))).1
    simp [ekey, callHandler_eq, boundary, hr, EKey.acts, act]
  rw [he, hrun]
  exact shipped_backspacing_then_undo 1 k0 hp hc0 hc1 n

/-! ## 2. The shipped Vi bindings -/

def vIsEdit : Nat → Bool := fun h => !(h == 10 || h == 24)

/-- the command a key turns into, given the input mode and the pending numeric argument -/
def vcmd (ins : Bool) (arg : Option Nat) (key : VKey) : Cmd :=
  let n := argVal arg
  if ins then
    match key with
    | .escape => ⟨20, vRuleOf "_back_to_navigation" "escape", .edit fun b => viFix (leftInLine b), .ok⟩
    | .redo => ⟨10, fun _ => false, .redo id, .ok⟩
    | .i | .a | .x | .u | .bigA | .bigX | .d2 | .d3 =>
      ⟨0, ruleOf "named_commands.self_insert" "<any>", .edit (insertText [key.letter]), .ok⟩
  else
    match key with
    | .i => ⟨21, vRuleOf "_i" "i", .edit id, .ok⟩
    | .a => ⟨22, vRuleOf "_a" "a", .edit rightInLine, .ok⟩
    | .bigA => ⟨25, vRuleOf "_A" "A", .edit toEol, .ok⟩
    | .x => ⟨23, vRuleOf "_delete" "x", .edit fun b => viFix (viX n b), .ok⟩
    | .bigX => ⟨26, vRuleOf "_delete_before_cursor" "X", .edit fun b => viFix (viBigX n b), .ok⟩
    | .u => ⟨24, vRuleOf "_undo" "u", .undo n viFix, .ok⟩
    | .escape => ⟨20, vRuleOf "_back_to_navigation" "escape", .edit viFix, .ok⟩
    | .redo => ⟨10, fun _ => false, .redo viFix, .ok⟩
    | .d2 => ⟨27, vRuleOf "_arg" "2", .edit viFix, .ok⟩
    | .d3 => ⟨28, vRuleOf "_arg" "3", .edit viFix, .ok⟩

def vmode (ins : Bool) (key : VKey) : Bool :=
  if ins then key != .escape else (key == .i || key == .a || key == .bigA)

def varg (ins : Bool) (arg : Option Nat) (key : VKey) : Option Nat :=
  if ins then none else
    match key with
    | .d2 => some (arg.getD 0 * 10 + 2)
    | .d3 => some (arg.getD 0 * 10 + 3)
    | _ => none

theorem vkey_eq (v : VSt) (key : VKey) :
    vkey v key = { k := stepK v.k (vcmd v.ins v.arg key), ins := vmode v.ins key, arg := varg v.ins v.arg key } := by
  obtain ⟨k, ins, arg⟩ := v
  cases ins <;> cases key <;> rfl

def vRun (keys : List VKey) (v : VSt) : VSt := keys.foldl vkey v

/-- the commands a key sequence turns into, starting in the given mode with the given argument -/
def vcmds : Bool → Option Nat → List VKey → List Cmd
  | _, _, [] => []
  | ins, arg, key :: ks => vcmd ins arg key :: vcmds (vmode ins key) (varg ins arg key) ks

theorem vRun_k (keys : List VKey) (v : VSt) :
    (vRun keys v).k = runI (cmdsI (vcmds v.ins v.arg keys)) v.k := by
  rw [runI_cmds]
  induction keys generalizing v with
  | nil => rfl
  | cons ky xs ih =>
    simp only [vRun, List.foldl_cons, vcmds, runK] at *
    rw [ih (vkey v ky), vkey_eq]

/-- every editing Vi binding of the set snapshots when it is not a repeat (re-decided on the regenerated table) -/
theorem vRule_saves :
    vRuleOf "_back_to_navigation" "escape" false = true ∧ ruleOf "named_commands.self_insert" "<any>" false = true ∧
    vRuleOf "_i" "i" false = true ∧ vRuleOf "_a" "a" false = true ∧ vRuleOf "_A" "A" false = true ∧
    vRuleOf "_delete" "x" false = true ∧ vRuleOf "_delete_before_cursor" "X" false = true ∧
    vRuleOf "_arg" "2" false = true ∧ vRuleOf "_arg" "3" false = true := by decide +kernel

theorem vRule_u_never : ∀ rep, vRuleOf "_undo" "u" rep = false := by
  intro rep; cases rep <;> decide +kernel

theorem vcmds_mem {c : Cmd} {ins : Bool} {arg : Option Nat} {keys : List VKey} (hc : c ∈ vcmds ins arg keys) :
    ∃ ins' arg' ky, c = vcmd ins' arg' ky := by
  induction keys generalizing ins arg with
  | nil => simp [vcmds] at hc
  | cons ky xs ih =>
    simp only [vcmds, List.mem_cons] at hc
    rcases hc with rfl | hc
    · exact ⟨_, _, _, rfl⟩
    · exact ih hc

theorem vWF (ins : Bool) (arg : Option Nat) (keys : List VKey) : WF vIsEdit (cmdsI (vcmds ins arg keys)) where
  saves := by
    intro c hc hh
    obtain ⟨ins', arg', ky, rfl⟩ := vcmds_mem (mem_cmdsI hc)
    obtain ⟨h1, h2, h3, h4, h5, h6, h7, h8, h9⟩ := vRule_saves
    cases ins' <;> cases ky <;>
      first
      | exact h1 | exact h2 | exact h3 | exact h4 | exact h5 | exact h6 | exact h7 | exact h8 | exact h9
      | exact absurd (show vIsEdit 24 = true from hh) (by decide)
      | exact absurd (show vIsEdit 10 = true from hh) (by decide)
  kind := by
    intro c hc
    obtain ⟨ins', arg', ky, rfl⟩ := vcmds_mem (mem_cmdsI hc)
    cases ins' <;> cases ky <;> rfl
  post := by
    intro c hc
    obtain ⟨ins', arg', ky, rfl⟩ := vcmds_mem (mem_cmdsI hc)
    cases ins' <;> cases ky <;> first | exact trivial | exact viFix_text | exact fun _ => rfl
  noReset := by
    intro c hc
    obtain ⟨ins', arg', ky, rfl⟩ := vcmds_mem (mem_cmdsI hc)
    cases ins' <;> cases ky <;> rfl
  roFixed := by
    intro c hc
    obtain ⟨ins', arg', ky, rfl⟩ := vcmds_mem (mem_cmdsI hc)
    cases ins' <;> cases ky <;> exact trivial

/-- **vi_undo_reaches_initial.**  For EVERY sequence of these Vi keys (counts included) from EVERY initial
    document: undoing at least as often as the stack is high ends on the initial text. -/
theorem vi_undo_reaches_initial (keys : List VKey) (b0 : Buf) (n : Nat)
    (hn : (vRun keys (vInit b0)).k.st.undo.length ≤ n) :
    (undoN n (vRun keys (vInit b0)).k.st).buf.text = b0.text := by
  rw [vRun_k] at hn ⊢
  exact (undo_reaches_initial vIsEdit _ b0 (vWF true none keys) (extOK_cmdsI _ _) n hn).1

/-- **vi_redo_empty_after_edit.**  For every Vi key sequence: whenever the last handler was not
    undo / redo, the redo stack is empty. -/
theorem vi_redo_empty_after_edit (keys : List VKey) (b0 : Buf) (h : Nat)
    (hp : (vRun keys (vInit b0)).k.prev = some h) (h10 : h ≠ 10) (h24 : h ≠ 24) :
    (vRun keys (vInit b0)).k.st.redo = [] := by
  rw [vRun_k] at hp ⊢
  have hI := (wf_disciplined vIsEdit _ (kInit b0) (vWF true none keys) (extOK_cmdsI _ _) (pinv_init vIsEdit b0)).2
  exact (hI h hp (by simp [vIsEdit, h10, h24])).2

/-- **vi_u_with_count.**  In navigation mode, `<digits> u` performs exactly `count` calls of `Buffer.undo()`
    in ONE command without a snapshot, then the cursor fix: e.g. `3 u`. -/
theorem vi_u_with_count (v : VSt) (hnav : v.ins = false) :
    (vkey v .u).k.st.buf = viFix (undoN (argVal v.arg) v.k.st).buf ∧
    (vkey (vkey v .d3) .u).k.st.buf = viFix (undoN (argVal (some (v.arg.getD 0 * 10 + 3))) (vkey v .d3).k.st).buf := by
  have hb : ∀ (k : KSt), boundary (vRuleOf "_undo" "u") 24 k = k.st := by
    intro k; unfold boundary; rw [vRule_u_never]; rfl
  constructor
  · rw [vkey_eq, hnav]
    simp only [vcmd, stepK_eq, Body.run, Bool.false_eq_true, if_false, hb]
  · rw [vkey_eq (vkey v .d3)]
    have h1 : (vkey v .d3).ins = false := by rw [vkey_eq, hnav]; rfl
    have h2 : (vkey v .d3).arg = some (v.arg.getD 0 * 10 + 3) := by rw [vkey_eq, hnav]; rfl
    rw [h1, h2]
    simp only [vcmd, stepK_eq, Body.run, Bool.false_eq_true, if_false, hb]

/-- **vi_insert_escape_u.**  From ANY navigation-mode state: `i`, then any non-empty sequence of
    typed letters, then Escape, then `u` — the buffer is back at the (text, cursor) it had before
    `i` (up to the navigation-mode cursor fix): the whole insert is ONE undo step, as in Vim. -/
theorem vi_insert_escape_u (v : VSt) (hnav : v.ins = false) (c : VKey) (cs : List VKey)
    (hl : ∀ ky ∈ c :: cs, ky ≠ .escape ∧ ky ≠ .redo) :
    (vRun ([.i] ++ (c :: cs) ++ [.escape, .u]) v).k.st.buf = viFix v.k.st.buf := by
  obtain ⟨k, ins, arg⟩ := v
  simp only at hnav
  subst hnav
  obtain ⟨hesc, hsi, hi, _⟩ := vRule_saves
  -- after `i`
  let k0 : KSt := callHandler 21 (vRuleOf "_i" "i") [] k
  have hk0b : k0.st.buf = k.st.buf := by simp [k0, callHandler_eq, boundary_buf]
  have hk0p : k0.prev ≠ some 0 := by simp [k0, callHandler_eq]
  -- typed letters = a run of the self-insert handler
  have hrun : ∀ (l : List VKey) (k' : KSt) (a : Option Nat), (∀ ky ∈ l, ky ≠ .escape ∧ ky ≠ .redo) → l ≠ [] →
      vRun l { k := k', ins := true, arg := a } =
        { k := runSame 0 (ruleOf "named_commands.self_insert" "<any>")
            ((l.map VKey.letter).map fun ch => insertText [ch]) k', ins := true, arg := none } := by
    intro l
    induction l with
    | nil => intro k' a _ hne; exact absurd rfl hne
    | cons ky xs ih =>
      intro k' a hx _
      have hx1 := hx ky (by simp)
      have hstep : vkey { k := k', ins := true, arg := a } ky =
          { k := callHandler 0 (ruleOf "named_commands.self_insert" "<any>") [Act.edit (insertText [ky.letter])] k',
            ins := true, arg := none } := by
        cases ky <;> first | rfl | exact absurd rfl hx1.1 | exact absurd rfl hx1.2
      simp only [vRun, List.foldl_cons, List.map_cons, runSame] at *
      rw [hstep]
      cases xs with
      | nil => rfl
      | cons y ys => exact ih _ none (fun z hz => hx z (List.mem_cons_of_mem _ hz)) (by simp)
  have h1 : vRun ([.i] ++ (c :: cs) ++ [.escape, .u]) { k := k, ins := false, arg := arg } =
      vkey (vkey (vRun (c :: cs) { k := k0, ins := true, arg := none }) .escape) .u := by
    simp only [vRun, List.foldl_append, List.foldl_cons, List.foldl_nil]
    rfl
  rw [h1, hrun (c :: cs) k0 none hl (by simp)]
  have hne := runSame_typing_text_ne 0 (ruleOf "named_commands.self_insert" "<any>") k0 c.letter (cs.map VKey.letter)
  have hg := group_then_motions_then_undo 0 (ruleOf "named_commands.self_insert" "<any>")
    selfInsert_bits.1 selfInsert_bits.2 k0 hk0p (insertText [c.letter])
    ((cs.map VKey.letter).map fun ch => insertText [ch])
    [(20, vRuleOf "_back_to_navigation" "escape", fun b => viFix (leftInLine b))]
    (by intro m hm b; simp at hm; subst hm; simp [viFix_text, leftInLine, setCursor])
    (by simpa using hne)
  simp only [List.map_cons] at hg ⊢
  rw [← hk0b, ← hg]
  have hb : ∀ (k : KSt), boundary (vRuleOf "_undo" "u") 24 k = k.st := by
    intro k; unfold boundary; rw [vRule_u_never]; rfl
  generalize runSame 0 (ruleOf "named_commands.self_insert" "<any>")
    (insertText [c.letter] :: List.map (fun ch => insertText [ch]) (List.map VKey.letter cs)) k0 = R
  have e1 : vkey { k := R, ins := true, arg := none } .escape =
      { k := callHandler 20 (vRuleOf "_back_to_navigation" "escape") [.edit leftInLine, .edit viFix] R,
        ins := false, arg := none } := rfl
  have e2 : ∀ K : KSt, vkey { k := K, ins := false, arg := none } .u =
      { k := callHandler 24 (vRuleOf "_undo" "u") ([Act.undo] ++ [.edit viFix]) K, ins := false, arg := none } :=
    fun K => rfl
  rw [e1, e2]
  simp only [callHandler_eq, hb, List.cons_append, List.nil_append, List.foldl_cons, List.foldl_nil, act, runKeep]

/-! ## 3. Non-vacuity -/

section Examples

/-- emacs_typing_then_undo: its side condition holds for a key sequence ending in C-b;
    emacs_edit_discards_redo: there is a non-empty redo stack for C-u to discard -/
example :
    (∀ k ∈ ([EKey.char 'a', .ctrlB] : List EKey).getLast?, ∀ ch, k ≠ .char ch) ∧
    (eRun [.char 'a', .char 'b', .ctrlB, .char 'c', .undo] (kInit exB0)).st.redo ≠ [] ∧
    (eRun [.char 'a', .char 'b', .ctrlB, .char 'c', .undo, .ctrlU] (kInit exB0)).st.redo = [] ∧
    (eRun [.char 'a', .char 'b', .ctrlB, .char 'c', .undo, .ctrlU] (kInit exB0)).st.buf = { text := ['b', 'y'], cur := 0 } := by
  refine ⟨?_, by decide +kernel, by decide +kernel, by decide +kernel⟩
  intro k hk ch
  simp at hk
  subst hk
  simp

/-- emacs_undo_redo_chain: C-_ then C-x C-u both restore something after `a ← b` -/
example :
    let k := eRun [.char 'a', .left, .char 'b'] (kInit exB0)
    CmdsChange ([true, false].map fun b => if b then EKey.undo.toCmd else EKey.undoXU.toCmd) k ∧
    (eRun [.undo, .undoXU] k).st.buf = exB0 :=
  ⟨⟨by decide +kernel, by decide +kernel, trivial⟩, by decide +kernel⟩

/-- emacs_backspacing_then_undo on `xab|y` after C-e … no: after Right -/
example :
    let k0 := eRun [.char 'a', .char 'b', .left, .right] (kInit exB0)
    k0.prev ≠ some 1 ∧ 0 < k0.st.buf.cur ∧ k0.st.buf.cur ≤ k0.st.buf.text.length ∧
    (eRun [.backspace, .backspace, .backspace, .backspace] k0).st.buf = { text := ['y'], cur := 0 } ∧
    (ekey (eRun [.backspace, .backspace, .backspace, .backspace] k0) .undo).st.buf = k0.st.buf := by
  decide +kernel

/-- vi_insert_escape_u on a concrete navigation-mode state: `i x u Esc u` returns to it, while the
    typed text really had changed the buffer; vi_u_with_count: `2 u` undoes two steps at once -/
example :
    let v := vRun [.a, .escape] (vInit exB0)
    v.ins = false ∧
    (vRun ([.i] ++ [.x, .u] ++ [.escape, .u]) v).k.st.buf = viFix v.k.st.buf ∧
    (vRun [.i, .x, .u] v).k.st.buf ≠ v.k.st.buf ∧
    (vRun [.bigA, .x, .escape, .bigX, .d2, .u] v).k.st.buf.text = ['x', 'a', 'y'] ∧
    (vRun [.bigA, .x, .escape, .bigX, .u] v).k.st.buf.text = ['x', 'a', 'y', 'x'] := by
  decide +kernel

end Examples

end Ptk.C07
