/-
  C04 — the wrappers (`ConditionalKeyBindings`, `_MergedKeyBindings`, `DynamicKeyBindings`,
  `GlobalOnlyKeyBindings`) of `Ptk.Model.C04KB`: lookups, `.bindings` and `_version` through any
  nesting of wrappers always reflect the bindings that are in the underlying `KeyBindings`
  objects *now*.

  Specification side (no caches, no versions stored): the *skeleton* of the object table
  (binding lists and version counters of the registries, the shape of the wrappers) determines
    `flatV`   the flattened list of binding views,
    `pureVer` the version value the object reports,
    `dcur`    the content named by a version value, if that value is current for every
              registry it mentions (whatever the dynamic wrappers point to at the moment),
    `Bnd`     "not a version of the future".
  Invariant (`Inv`): for every wrapper, if the stored `_last_version` names current content, the
  stored `_bindings2` is that content (`Coh`), and the stored version is not from the future.
-/
import Ptk.Props.C04F
import Ptk.Props.C04KB
namespace Ptk.C04

/-! ### views: what a binding means under an assignment of the conditions -/

structure View where
  keys : List Key
  hid : Nat
  act : Bool     -- filter()
  eag : Bool     -- eager()
  glb : Bool     -- is_global()
deriving DecidableEq, Repr

def viewOf (ρ : Nat → Bool) (b : Binding) : View :=
  ⟨b.keys, b.hid, b.filter.eval ρ, b.eager.eval ρ, b.isGlobal.eval ρ⟩

/-- the extra condition of a `ConditionalKeyBindings` -/
def View.gate (g : Bool) (v : View) : View := { v with act := g && v.act }

/-! ### skeleton of the object table -/

inductive Skel where
  | kb (bs : List Binding) (ver : Nat)
  | cond (c : Nat) (flt : F)
  | merged (cs : List Nat)
  | dyn (t : Option Nat)
  | glob (c : Nat)

def Reg.skel : Reg → Skel
  | .kb k => .kb k.bs k.ver
  | .cond c flt _ _ => .cond c flt
  | .merged cs _ _ => .merged cs
  | .dyn t _ => .dyn t
  | .glob c _ _ => .glob c

abbrev SkelMap := Nat → Option Skel

def skelOf (w : W) : SkelMap := fun j => (w.regs[j]?).map Reg.skel

/-- the flattened content of object `i` -/
def flatV (ρ : Nat → Bool) (sk : SkelMap) (i : Nat) : List View :=
  match sk i with
  | some (.kb bs _) => bs.map (viewOf ρ)
  | some (.cond c flt) => if _h : c < i then (flatV ρ sk c).map (View.gate (flt.eval ρ)) else []
  | some (.merged cs) => cs.flatMap fun c => if _h : c < i then flatV ρ sk c else []
  | some (.dyn (some t)) => if _h : t < i then flatV ρ sk t else []
  | some (.dyn none) => []
  | some (.glob c) => if _h : c < i then (flatV ρ sk c).filter (·.glb) else []
  | none => []
termination_by i

/-- the value of `_version` of object `i` -/
def pureVer (sk : SkelMap) (i : Nat) : Ver :=
  match sk i with
  | some (.kb _ ver) => .num ver
  | some (.cond c _) => if _h : c < i then pureVer sk c else .tup []
  | some (.merged cs) => .tup (cs.map fun c => if _h : c < i then pureVer sk c else .tup [])
  | some (.dyn (some t)) => if _h : t < i then .dyn t (pureVer sk t) else .tup []
  | some (.dyn none) => .dyn i (.num 0)
  | some (.glob c) => if _h : c < i then pureVer sk c else .tup []
  | none => .tup []
termination_by i

end Ptk.C04
