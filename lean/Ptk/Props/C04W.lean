/-
  C04 — the wrappers (`ConditionalKeyBindings`, `_MergedKeyBindings`, `DynamicKeyBindings`,
  `GlobalOnlyKeyBindings`) of `Ptk.Model.C04KB`: lookups, `.bindings` and `_version` through any
  nesting of wrappers always reflect the bindings that are in the underlying `KeyBindings`
  objects *now*.

  Specification side (no caches, no versions stored): the *skeleton* of the object table
  (binding lists and version counters of the registries, the shape of the wrappers) determines
    `flatV`   the flattened list of binding views,
    `pureVer` the version value the object reports,
    `dcur`    the content named by a version value, if that value is current for every
              registry it mentions (whatever the dynamic wrappers point to at the moment),
    `Bnd`     "not a version of the future".
  Invariant (`Inv`): for every wrapper, if the stored `_last_version` names current content, the
  stored `_bindings2` is that content (`Coh`), and the stored version is not from the future.
-/
import Ptk.Props.C04F
import Ptk.Props.C04KB
namespace Ptk.C04

/-! ### views: what a binding means under an assignment of the conditions -/

structure View where
  keys : List Key
  hid : Nat
  act : Bool     -- filter()
  eag : Bool     -- eager()
  glb : Bool     -- is_global()
deriving DecidableEq, Repr

def viewOf (ρ : Nat → Bool) (b : Binding) : View :=
  ⟨b.keys, b.hid, b.filter.eval ρ, b.eager.eval ρ, b.isGlobal.eval ρ⟩

/-- the extra condition of a `ConditionalKeyBindings` -/
def View.gate (g : Bool) (v : View) : View := { v with act := g && v.act }

/-! ### skeleton of the object table -/

inductive Skel where
  | kb (bs : List Binding) (ver : Nat)
  | cond (c : Nat) (flt : F)
  | merged (cs : List Nat)
  | dyn (t : Option Nat)
  | glob (c : Nat)

def Reg.skel : Reg → Skel
  | .kb k => .kb k.bs k.ver
  | .cond c flt _ _ => .cond c flt
  | .merged cs _ _ => .merged cs
  | .dyn t _ => .dyn t
  | .glob c _ _ => .glob c

abbrev SkelMap := Nat → Option Skel

def skelOf (w : W) : SkelMap := fun j => (w.regs[j]?).map Reg.skel

/-- the flattened content of object `i` -/
def flatV (ρ : Nat → Bool) (sk : SkelMap) (i : Nat) : List View :=
  match sk i with
  | some (.kb bs _) => bs.map (viewOf ρ)
  | some (.cond c flt) => if _h : c < i then (flatV ρ sk c).map (View.gate (flt.eval ρ)) else []
  | some (.merged cs) => cs.flatMap fun c => if _h : c < i then flatV ρ sk c else []
  | some (.dyn (some t)) => if _h : t < i then flatV ρ sk t else []
  | some (.dyn none) => []
  | some (.glob c) => if _h : c < i then (flatV ρ sk c).filter (·.glb) else []
  | none => []
termination_by i

/-- the value of `_version` of object `i` -/
def pureVer (sk : SkelMap) (i : Nat) : Ver :=
  match sk i with
  | some (.kb _ ver) => .num ver
  | some (.cond c _) => if _h : c < i then pureVer sk c else .tup []
  | some (.merged cs) => .tup (cs.map fun c => if _h : c < i then pureVer sk c else .tup [])
  | some (.dyn (some t)) => if _h : t < i then .dyn t (pureVer sk t) else .tup []
  | some (.dyn none) => .dyn i (.num 0)
  | some (.glob c) => if _h : c < i then pureVer sk c else .tup []
  | none => .tup []
termination_by i

def dcurList (f : Nat → Ver → Option (List View)) : List Nat → List Ver → Option (List View)
  | [], [] => some []
  | c :: cs, v :: vs =>
    match f c v, dcurList f cs vs with
    | some a, some b => some (a ++ b)
    | _, _ => none
  | _, _ => none

/-- the content named by the version value `v` of object `i`, provided `v` is current for every
    registry it mentions; dynamic wrappers are followed through the target recorded *in `v`* -/
def dcur (ρ : Nat → Bool) (sk : SkelMap) (i : Nat) (v : Ver) : Option (List View) :=
  match sk i with
  | some (.kb bs ver) =>
    match v with
    | .num m => if m = ver then some (bs.map (viewOf ρ)) else none
    | _ => none
  | some (.cond c flt) =>
    if _h : c < i then (dcur ρ sk c v).map (·.map (View.gate (flt.eval ρ))) else none
  | some (.glob c) => if _h : c < i then (dcur ρ sk c v).map (·.filter (·.glb)) else none
  | some (.merged cs) =>
    match v with
    | .tup vs => dcurList (fun c x => if _h : c < i then dcur ρ sk c x else none) cs vs
    | _ => none
  | some (.dyn _) =>
    match v with
    | .dyn t v' =>
      if t = i then (match v' with | .num 0 => some [] | _ => none)
      else if _h : t < i then dcur ρ sk t v' else none
    | _ => none
  | none => none
termination_by i

def bndList (f : Nat → Ver → Prop) : List Nat → List Ver → Prop
  | [], [] => True
  | c :: cs, v :: vs => f c v ∧ bndList f cs vs
  | _, _ => False

/-- `v` has the shape of a version of object `i` and mentions no registry version of the future -/
def Bnd (sk : SkelMap) (i : Nat) (v : Ver) : Prop :=
  match sk i with
  | some (.kb _ ver) =>
    match v with
    | .num m => m ≤ ver
    | _ => False
  | some (.cond c _) => if _h : c < i then Bnd sk c v else False
  | some (.glob c) => if _h : c < i then Bnd sk c v else False
  | some (.merged cs) =>
    match v with
    | .tup vs => bndList (fun c x => if _h : c < i then Bnd sk c x else False) cs vs
    | _ => False
  | some (.dyn _) =>
    match v with
    | .dyn t v' => if t = i then v' = .num 0 else if _h : t < i then Bnd sk t v' else False
    | _ => False
  | none => False
termination_by i

/-- children exist and come before their parents -/
def WFSkel (i : Nat) (sk : SkelMap) : Skel → Prop
  | .kb _ _ => True
  | .cond c _ => c < i ∧ (sk c).isSome
  | .merged cs => ∀ c ∈ cs, c < i ∧ (sk c).isSome
  | .dyn (some t) => t < i ∧ (sk t).isSome
  | .dyn none => True
  | .glob c => c < i ∧ (sk c).isSome

def WFsk (sk : SkelMap) : Prop := ∀ i s, sk i = some s → WFSkel i sk s

/-! ### unfolding lemmas -/

section unfold
variable {ρ : Nat → Bool} {sk : SkelMap} {i : Nat}

theorem flatV_kb {bs ver} (h : sk i = some (.kb bs ver)) : flatV ρ sk i = bs.map (viewOf ρ) := by
  rw [flatV.eq_def]; simp [h]
theorem flatV_cond {c flt} (h : sk i = some (.cond c flt)) (hc : c < i) :
    flatV ρ sk i = (flatV ρ sk c).map (View.gate (flt.eval ρ)) := by
  rw [flatV.eq_def]; simp [h, hc]
theorem flatV_glob {c} (h : sk i = some (.glob c)) (hc : c < i) :
    flatV ρ sk i = (flatV ρ sk c).filter (·.glb) := by
  rw [flatV.eq_def]; simp [h, hc]
theorem flatV_merged {cs} (h : sk i = some (.merged cs)) :
    flatV ρ sk i = cs.flatMap fun c => if _h : c < i then flatV ρ sk c else [] := by
  rw [flatV.eq_def]; simp [h]
theorem flatV_dyn {t} (h : sk i = some (.dyn (some t))) (ht : t < i) : flatV ρ sk i = flatV ρ sk t := by
  rw [flatV.eq_def]; simp [h, ht]
theorem flatV_dynNone (h : sk i = some (.dyn none)) : flatV ρ sk i = [] := by
  rw [flatV.eq_def]; simp [h]

theorem pureVer_kb {bs ver} (h : sk i = some (.kb bs ver)) : pureVer sk i = .num ver := by
  rw [pureVer.eq_def]; simp [h]
theorem pureVer_cond {c flt} (h : sk i = some (.cond c flt)) (hc : c < i) : pureVer sk i = pureVer sk c := by
  rw [pureVer.eq_def]; simp [h, hc]
theorem pureVer_glob {c} (h : sk i = some (.glob c)) (hc : c < i) : pureVer sk i = pureVer sk c := by
  rw [pureVer.eq_def]; simp [h, hc]
theorem pureVer_merged {cs} (h : sk i = some (.merged cs)) :
    pureVer sk i = .tup (cs.map fun c => if _h : c < i then pureVer sk c else .tup []) := by
  rw [pureVer.eq_def]; simp [h]
theorem pureVer_dyn {t} (h : sk i = some (.dyn (some t))) (ht : t < i) :
    pureVer sk i = .dyn t (pureVer sk t) := by
  rw [pureVer.eq_def]; simp [h, ht]
theorem pureVer_dynNone (h : sk i = some (.dyn none)) : pureVer sk i = .dyn i (.num 0) := by
  rw [pureVer.eq_def]; simp [h]

theorem dcur_kb {bs ver} (h : sk i = some (.kb bs ver)) (v : Ver) :
    dcur ρ sk i v = match v with
      | .num m => if m = ver then some (bs.map (viewOf ρ)) else none
      | _ => none := by
  rw [dcur.eq_def]; simp [h]
theorem dcur_cond {c flt} (h : sk i = some (.cond c flt)) (hc : c < i) (v : Ver) :
    dcur ρ sk i v = (dcur ρ sk c v).map (·.map (View.gate (flt.eval ρ))) := by
  rw [dcur.eq_def]; simp [h, hc]
theorem dcur_glob {c} (h : sk i = some (.glob c)) (hc : c < i) (v : Ver) :
    dcur ρ sk i v = (dcur ρ sk c v).map (·.filter (·.glb)) := by
  rw [dcur.eq_def]; simp [h, hc]
theorem dcur_merged {cs} (h : sk i = some (.merged cs)) (v : Ver) :
    dcur ρ sk i v = match v with
      | .tup vs => dcurList (fun c x => if _h : c < i then dcur ρ sk c x else none) cs vs
      | _ => none := by
  rw [dcur.eq_def]; simp [h]
theorem dcur_dyn {t0} (h : sk i = some (.dyn t0)) (v : Ver) :
    dcur ρ sk i v = match v with
      | .dyn t v' =>
        if t = i then (match v' with | .num 0 => some [] | _ => none)
        else if _h : t < i then dcur ρ sk t v' else none
      | _ => none := by
  rw [dcur.eq_def]; simp [h]
theorem dcur_none (h : sk i = none) (v : Ver) : dcur ρ sk i v = none := by
  rw [dcur.eq_def]; simp [h]

theorem Bnd_kb {bs ver} (h : sk i = some (.kb bs ver)) (v : Ver) :
    Bnd sk i v ↔ match v with
      | .num m => m ≤ ver
      | _ => False := by
  rw [Bnd.eq_def]; simp [h]
theorem Bnd_cond {c flt} (h : sk i = some (.cond c flt)) (hc : c < i) (v : Ver) :
    Bnd sk i v ↔ Bnd sk c v := by
  rw [Bnd.eq_def]; simp [h, hc]
theorem Bnd_glob {c} (h : sk i = some (.glob c)) (hc : c < i) (v : Ver) : Bnd sk i v ↔ Bnd sk c v := by
  rw [Bnd.eq_def]; simp [h, hc]
theorem Bnd_merged {cs} (h : sk i = some (.merged cs)) (v : Ver) :
    Bnd sk i v ↔ match v with
      | .tup vs => bndList (fun c x => if _h : c < i then Bnd sk c x else False) cs vs
      | _ => False := by
  rw [Bnd.eq_def]; simp [h]
theorem Bnd_dyn {t0} (h : sk i = some (.dyn t0)) (v : Ver) :
    Bnd sk i v ↔ match v with
      | .dyn t v' => if t = i then v' = .num 0 else if _h : t < i then Bnd sk t v' else False
      | _ => False := by
  rw [Bnd.eq_def]; simp [h]
theorem Bnd_none (h : sk i = none) (v : Ver) : ¬ Bnd sk i v := by
  rw [Bnd.eq_def]; simp [h]
end unfold

/-! ### the current version names the current content -/

theorem dcur_pureVer (ρ : Nat → Bool) (sk : SkelMap) (wf : WFsk sk) (i : Nat) (hi : (sk i).isSome) :
    dcur ρ sk i (pureVer sk i) = some (flatV ρ sk i) := by
  induction i using Nat.strongRecOn with
  | ind i ih =>
    cases hs : sk i with
    | none => simp [hs] at hi
    | some s =>
      have hw := wf i s hs
      cases s with
      | kb bs ver => rw [dcur_kb hs, pureVer_kb hs, flatV_kb hs]; simp
      | cond c flt =>
        simp only [WFSkel] at hw
        rw [dcur_cond hs hw.1, pureVer_cond hs hw.1, flatV_cond hs hw.1, ih c hw.1 hw.2]; rfl
      | glob c =>
        simp only [WFSkel] at hw
        rw [dcur_glob hs hw.1, pureVer_glob hs hw.1, flatV_glob hs hw.1, ih c hw.1 hw.2]; rfl
      | dyn t =>
        cases t with
        | none => rw [dcur_dyn hs, pureVer_dynNone hs, flatV_dynNone hs]; simp
        | some t =>
          simp only [WFSkel] at hw
          have : t ≠ i := Nat.ne_of_lt hw.1
          rw [dcur_dyn hs, pureVer_dyn hs hw.1, flatV_dyn hs hw.1]
          simp [this, hw.1, ih t hw.1 hw.2]
      | merged cs =>
        simp only [WFSkel] at hw
        rw [dcur_merged hs, pureVer_merged hs, flatV_merged hs]
        simp only []
        have key : ∀ (l : List Nat), (∀ c ∈ l, c < i ∧ (sk c).isSome) →
            dcurList (fun c x => if _h : c < i then dcur ρ sk c x else none) l
              (l.map fun c => if _h : c < i then pureVer sk c else .tup []) =
            some (l.flatMap fun c => if _h : c < i then flatV ρ sk c else []) := by
          intro l hl
          induction l with
          | nil => simp [dcurList]
          | cons c l ihl =>
            have hc := hl c (List.mem_cons_self ..)
            have h2 := ihl (fun x hx => hl x (List.mem_cons_of_mem _ hx))
            simp only [List.map_cons, dcurList, hc.1, dite_true, ih c hc.1 hc.2, List.flatMap_cons]
            rw [h2]
        exact key cs hw

theorem Bnd_pureVer (sk : SkelMap) (wf : WFsk sk) (i : Nat) (hi : (sk i).isSome) :
    Bnd sk i (pureVer sk i) := by
  induction i using Nat.strongRecOn with
  | ind i ih =>
    cases hs : sk i with
    | none => simp [hs] at hi
    | some s =>
      have hw := wf i s hs
      cases s with
      | kb bs ver => rw [Bnd_kb hs, pureVer_kb hs]; simp
      | cond c flt =>
        simp only [WFSkel] at hw
        rw [Bnd_cond hs hw.1, pureVer_cond hs hw.1]; exact ih c hw.1 hw.2
      | glob c =>
        simp only [WFSkel] at hw
        rw [Bnd_glob hs hw.1, pureVer_glob hs hw.1]; exact ih c hw.1 hw.2
      | dyn t =>
        cases t with
        | none => rw [Bnd_dyn hs, pureVer_dynNone hs]; simp
        | some t =>
          simp only [WFSkel] at hw
          have : t ≠ i := Nat.ne_of_lt hw.1
          rw [Bnd_dyn hs, pureVer_dyn hs hw.1]
          simp [this, hw.1, ih t hw.1 hw.2]
      | merged cs =>
        simp only [WFSkel] at hw
        rw [Bnd_merged hs, pureVer_merged hs]
        simp only []
        have key : ∀ (l : List Nat), (∀ c ∈ l, c < i ∧ (sk c).isSome) →
            bndList (fun c x => if _h : c < i then Bnd sk c x else False) l
              (l.map fun c => if _h : c < i then pureVer sk c else .tup []) := by
          intro l hl
          induction l with
          | nil => simp [bndList]
          | cons c l ihl =>
            have hc := hl c (List.mem_cons_self ..)
            have h2 := ihl (fun x hx => hl x (List.mem_cons_of_mem _ hx))
            simp only [List.map_cons, bndList, hc.1, dite_true]
            exact ⟨ih c hc.1 hc.2, h2⟩
        exact key cs hw

/-- the initial `_last_version = ()` names content only for an object without registries -/
theorem dcur_tup_nil (ρ : Nat → Bool) (sk : SkelMap) (i : Nat) (content : List View)
    (h : dcur ρ sk i (.tup []) = some content) : content = [] := by
  induction i using Nat.strongRecOn generalizing content with
  | ind i ih =>
    cases hs : sk i with
    | none => rw [dcur_none hs] at h; cases h
    | some s =>
      cases s with
      | kb bs ver => rw [dcur_kb hs] at h; simp at h
      | cond c flt =>
        by_cases hc : c < i
        · rw [dcur_cond hs hc] at h
          cases hd : dcur ρ sk c (.tup []) with
          | none => simp [hd] at h
          | some x => simp [hd] at h; rw [← h, ih c hc x hd]; rfl
        · rw [dcur.eq_def] at h; simp [hs, hc] at h
      | glob c =>
        by_cases hc : c < i
        · rw [dcur_glob hs hc] at h
          cases hd : dcur ρ sk c (.tup []) with
          | none => simp [hd] at h
          | some x => simp [hd] at h; rw [← h, ih c hc x hd]; rfl
        · rw [dcur.eq_def] at h; simp [hs, hc] at h
      | dyn t => rw [dcur_dyn hs] at h; simp at h
      | merged cs =>
        rw [dcur_merged hs] at h
        simp only [] at h
        cases cs with
        | nil => simp [dcurList] at h; exact h
        | cons c cs => simp [dcurList] at h

/-! ### views of the lookups -/

def exactV (ks : List Key) (v : View) : Bool := ks.length == v.keys.length && zipMatch v.keys ks

def insDescV (b : View) : List View → List View
  | [] => [b]
  | c :: cs => if anyCount c.keys ≤ anyCount b.keys then b :: c :: cs else c :: insDescV b cs

def sortDescV (l : List View) : List View := l.foldr insDescV []

/-- `get_bindings_for_keys` over views -/
def matchForV (vs : List View) (ks : List Key) : List View := sortDescV (vs.filter (exactV ks))

/-- `get_bindings_starting_with_keys` over views -/
def matchStartingV (vs : List View) (ks : List Key) : List View :=
  vs.filter fun v => decide (ks.length < v.keys.length) && zipMatch v.keys ks

theorem insDesc_view (ρ : Nat → Bool) (b : Binding) (s : List Binding) :
    (insDesc b s).map (viewOf ρ) = insDescV (viewOf ρ b) (s.map (viewOf ρ)) := by
  induction s with
  | nil => rfl
  | cons c cs ih =>
    simp only [insDesc, List.map_cons, insDescV]
    have : (viewOf ρ c).keys = c.keys ∧ (viewOf ρ b).keys = b.keys := ⟨rfl, rfl⟩
    rw [this.1, this.2]
    split
    · rfl
    · simp [ih]

theorem sortDesc_view (ρ : Nat → Bool) (l : List Binding) :
    (sortDesc l).map (viewOf ρ) = sortDescV (l.map (viewOf ρ)) := by
  induction l with
  | nil => rfl
  | cons x l ih =>
    have : sortDesc (x :: l) = insDesc x (sortDesc l) := rfl
    rw [this, insDesc_view, ih]; rfl

theorem matchFor_view (ρ : Nat → Bool) (bs : List Binding) (ks : List Key) :
    (matchFor bs ks).map (viewOf ρ) = matchForV (bs.map (viewOf ρ)) ks := by
  unfold matchFor matchForV
  rw [sortDesc_view, List.filter_map]
  rfl

theorem matchStarting_view (ρ : Nat → Bool) (bs : List Binding) (ks : List Key) :
    (matchStarting bs ks).map (viewOf ρ) = matchStartingV (bs.map (viewOf ρ)) ks := by
  unfold matchStarting matchStartingV
  rw [List.filter_map]
  rfl

/-! ### the invariant of the object table -/

/-- the filters of the bindings are live objects; `is_global` is a constant (`True`/`False`) -/
def BsOK (h : Heap) (bs : List Binding) : Prop :=
  ∀ b ∈ bs, Known h b.filter ∧ b.isGlobal.isConst = true

/-- a wrapper's stored copy: if the stored version names current content, the copy *is* that
    content; and the stored version is the initial `()` or not from the future -/
def ProxyOK (sk : SkelMap) (i : Nat) (b2 : KB) (last : Ver) : Prop :=
  (∀ ρ content, dcur ρ sk i last = some content → b2.bs.map (viewOf ρ) = content) ∧
  ((last = .tup [] ∧ b2.bs = []) ∨ Bnd sk i last)

def EntOK (h : Heap) (sk : SkelMap) (i : Nat) : Reg → Prop
  | .kb k => KBOK k ∧ BsOK h k.bs
  | .cond c flt b2 last => c < i ∧ KBOK b2 ∧ BsOK h b2.bs ∧ Known h flt ∧ ProxyOK sk i b2 last
  | .merged cs b2 last => (∀ c ∈ cs, c < i) ∧ KBOK b2 ∧ BsOK h b2.bs ∧ ProxyOK sk i b2 last
  | .glob c b2 last => c < i ∧ KBOK b2 ∧ BsOK h b2.bs ∧ ProxyOK sk i b2 last
  | .dyn t d => (∀ t', t = some t' → t' < i) ∧ KBOK d ∧ d.bs = [] ∧ d.ver = 0

structure Inv (w : W) : Prop where
  heap : HeapOK w.heap
  ent : ∀ i r, w.regs[i]? = some r → EntOK w.heap (skelOf w) i r

/-- `w'` differs from `w` only in caches/stored copies of objects `< bound` and by heap growth -/
structure Frame (w w' : W) (bound : Nat) : Prop where
  env : w'.env = w.env
  skel : skelOf w' = skelOf w
  heap : ∀ f, Known w.heap f → Known w'.heap f
  above : ∀ j, bound ≤ j → w'.regs[j]? = w.regs[j]?

theorem Frame.refl (w : W) (b : Nat) : Frame w w b := ⟨rfl, rfl, fun _ h => h, fun _ _ => rfl⟩

theorem Frame.trans {w1 w2 w3 : W} {b1 b2 b : Nat} (f1 : Frame w1 w2 b1) (f2 : Frame w2 w3 b2)
    (h1 : b1 ≤ b) (h2 : b2 ≤ b) : Frame w1 w3 b :=
  ⟨f2.env.trans f1.env, f2.skel.trans f1.skel, fun f h => f2.heap f (f1.heap f h),
   fun j hj => (f2.above j (by omega)).trans (f1.above j (by omega))⟩

theorem BsOK.mono {h h' : Heap} {bs : List Binding} (ok : BsOK h bs)
    (hm : ∀ f, Known h f → Known h' f) : BsOK h' bs :=
  fun b hb => ⟨hm _ (ok b hb).1, (ok b hb).2⟩

theorem EntOK.mono {h h' : Heap} {sk : SkelMap} {i : Nat} {r : Reg} (ok : EntOK h sk i r)
    (hm : ∀ f, Known h f → Known h' f) : EntOK h' sk i r := by
  cases r with
  | kb k => exact ⟨ok.1, ok.2.mono hm⟩
  | cond c flt b2 last => exact ⟨ok.1, ok.2.1, ok.2.2.1.mono hm, hm _ ok.2.2.2.1, ok.2.2.2.2⟩
  | merged cs b2 last => exact ⟨ok.1, ok.2.1, ok.2.2.1.mono hm, ok.2.2.2⟩
  | glob c b2 last => exact ⟨ok.1, ok.2.1, ok.2.2.1.mono hm, ok.2.2.2⟩
  | dyn t d => exact ok

theorem skelOf_isSome (w : W) (j : Nat) : (skelOf w j).isSome = true ↔ j < w.regs.length := by
  unfold skelOf
  cases h : w.regs[j]? with
  | none => simp; exact List.getElem?_eq_none_iff.mp h
  | some r =>
    simp
    exact (List.getElem?_eq_some_iff.mp h).1

theorem Inv.wfsk {w : W} (inv : Inv w) : WFsk (skelOf w) := by
  intro i s hs
  unfold skelOf at hs
  cases hr : w.regs[i]? with
  | none => simp [hr] at hs
  | some r =>
    simp [hr] at hs
    have hlt : i < w.regs.length := (List.getElem?_eq_some_iff.mp hr).1
    have ok := inv.ent i r hr
    subst hs
    cases r with
    | kb k => trivial
    | cond c flt b2 last =>
      exact ⟨ok.1, (skelOf_isSome w c).mpr (Nat.lt_trans ok.1 hlt)⟩
    | glob c b2 last =>
      exact ⟨ok.1, (skelOf_isSome w c).mpr (Nat.lt_trans ok.1 hlt)⟩
    | merged cs b2 last =>
      intro c hc
      exact ⟨ok.1 c hc, (skelOf_isSome w c).mpr (Nat.lt_trans (ok.1 c hc) hlt)⟩
    | dyn t d =>
      cases t with
      | none => trivial
      | some t =>
        have := ok.1 t rfl
        exact ⟨this, (skelOf_isSome w t).mpr (Nat.lt_trans this hlt)⟩

/-- replacing an entry by one with the same skeleton does not change the skeleton map -/
theorem skelOf_setReg (w : W) (i : Nat) (r old : Reg) (ho : w.regs[i]? = some old)
    (hs : r.skel = old.skel) : skelOf (setReg w i r) = skelOf w := by
  funext j
  unfold skelOf setReg
  simp only [List.getElem?_set]
  by_cases hij : i = j
  · subst hij
    have hlt : i < w.regs.length := (List.getElem?_eq_some_iff.mp ho).1
    simp [hlt, ho, hs]
    have := (List.getElem?_eq_some_iff.mp ho).2
    rw [this]
  · simp [hij]

theorem setReg_get_ne (w : W) (i j : Nat) (r : Reg) (h : i ≠ j) :
    (setReg w i r).regs[j]? = w.regs[j]? := by
  unfold setReg; simp [List.getElem?_set, h]

theorem setReg_get_eq (w : W) (i : Nat) (r : Reg) (h : i < w.regs.length) :
    (setReg w i r).regs[i]? = some r := by
  unfold setReg; simp [List.getElem?_set, h]

/-- the copy loop of `ConditionalKeyBindings._update_cache` -/
theorem condCopy_spec {h : Heap} (ok : HeapOK h) (flt : F) (kf : Known h flt) (bs : List Binding)
    (kb : BsOK h bs) :
    HeapOK (condCopy h flt bs).1 ∧ (∀ f, Known h f → Known (condCopy h flt bs).1 f) ∧
    BsOK (condCopy h flt bs).1 (condCopy h flt bs).2 ∧
    ∀ ρ, (condCopy h flt bs).2.map (viewOf ρ) = (bs.map (viewOf ρ)).map (View.gate (flt.eval ρ)) := by
  induction bs generalizing h with
  | nil => exact ⟨ok, fun _ hf => hf, (fun b hb => nomatch hb), fun _ => rfl⟩
  | cons b bs ih =>
    obtain ⟨⟨o1, k1, m1⟩, e1⟩ := fAnd_spec ok flt b.filter kf (kb b (List.mem_cons_self ..)).1
    have kb' : BsOK (fAnd h flt b.filter).1 bs :=
      fun x hx => ⟨m1 _ (kb x (List.mem_cons_of_mem _ hx)).1, (kb x (List.mem_cons_of_mem _ hx)).2⟩
    obtain ⟨o2, m2, b2, e2⟩ := ih o1 (m1 _ kf) kb'
    simp only [condCopy]
    refine ⟨o2, fun f hf => m2 f (m1 f hf), ?_, ?_⟩
    · intro x hx
      rcases List.mem_cons.mp hx with rfl | hx
      · exact ⟨m2 _ k1, (kb b (List.mem_cons_self ..)).2⟩
      · exact b2 x hx
    · intro ρ
      simp only [List.map_cons, e2 ρ]
      congr 1
      simp [viewOf, View.gate, e1 ρ]

/-- renumbering the copies (fresh `Binding` identities) changes nothing a lookup or the matching
    loop can see -/
theorem renumber_view (ρ : Nat → Bool) (nb : Nat) (l : List Binding) :
    (renumber nb l).map (viewOf ρ) = l.map (viewOf ρ) := by
  induction l generalizing nb with
  | nil => rfl
  | cons b bs ih => simp only [renumber, List.map_cons, ih]; rfl

theorem renumber_BsOK {h : Heap} {l : List Binding} (ok : BsOK h l) (nb : Nat) :
    BsOK h (renumber nb l) := by
  induction l generalizing nb with
  | nil => exact fun b hb => nomatch hb
  | cons b bs ih =>
    intro x hx
    simp only [renumber, List.mem_cons] at hx
    rcases hx with rfl | hx
    · exact ok b (List.mem_cons_self ..)
    · exact ih (fun y hy => ok y (List.mem_cons_of_mem _ hy)) (nb + 1) x hx

/-- the allocation counter of `Binding` objects is not mentioned by the invariant -/
theorem Inv.setNextB {w : W} (inv : Inv w) (n : Nat) : Inv { w with nextB := n } :=
  ⟨inv.heap, inv.ent⟩

theorem Frame.setNextB {w w' : W} {b : Nat} (f : Frame w w' b) (n : Nat) :
    Frame w { w' with nextB := n } b :=
  ⟨f.env, f.skel, f.heap, f.above⟩

theorem Frame.len {w w' : W} {b : Nat} (f : Frame w w' b) : w'.regs.length = w.regs.length := by
  have h1 := skelOf_isSome w'
  have h2 := skelOf_isSome w
  rw [f.skel] at h1
  have : ∀ j, j < w'.regs.length ↔ j < w.regs.length := fun j => (h1 j).symm.trans (h2 j)
  have a := (this w.regs.length).mp
  have b := (this w'.regs.length).mpr
  omega

mutual
theorem Ver.beq_eq : ∀ a b : Ver, Ver.beq a b = true → a = b
  | .num a, .num b, h => by simp [Ver.beq] at h; rw [h]
  | .tup a, .tup b, h => by simp [Ver.beq] at h; rw [Ver.beqL_eq a b h]
  | .dyn t v, .dyn t' v', h => by simp [Ver.beq] at h; rw [h.1, Ver.beq_eq v v' h.2]
  | .num _, .tup _, h => by simp [Ver.beq] at h
  | .num _, .dyn _ _, h => by simp [Ver.beq] at h
  | .tup _, .num _, h => by simp [Ver.beq] at h
  | .tup _, .dyn _ _, h => by simp [Ver.beq] at h
  | .dyn _ _, .num _, h => by simp [Ver.beq] at h
  | .dyn _ _, .tup _, h => by simp [Ver.beq] at h
theorem Ver.beqL_eq : ∀ a b : List Ver, Ver.beqL a b = true → a = b
  | [], [], _ => rfl
  | x :: xs, y :: ys, h => by
    simp [Ver.beqL] at h; rw [Ver.beq_eq x y h.1, Ver.beqL_eq xs ys h.2]
  | [], _ :: _, h => by simp [Ver.beqL] at h
  | _ :: _, [], h => by simp [Ver.beqL] at h
end

/-! ### the five operations on objects nested at most `n` deep -/

structure OpsOK (p : Fns) (n : Nat) : Prop where
  version : ∀ w i, Inv w → i < n → i < w.regs.length →
    Inv (p.version w i).1 ∧ Frame w (p.version w i).1 (i + 1) ∧
    (p.version w i).2 = pureVer (skelOf w) i
  bindings : ∀ w i, Inv w → i < n → i < w.regs.length →
    Inv (p.bindings w i).1 ∧ Frame w (p.bindings w i).1 (i + 1) ∧
    BsOK (p.bindings w i).1.heap (p.bindings w i).2 ∧
    ∀ ρ, (p.bindings w i).2.map (viewOf ρ) = flatV ρ (skelOf w) i
  getFor : ∀ w i ks, Inv w → i < n → i < w.regs.length →
    Inv (p.getFor w i ks).1 ∧ Frame w (p.getFor w i ks).1 (i + 1) ∧
    ∀ ρ, (p.getFor w i ks).2.map (viewOf ρ) = matchForV (flatV ρ (skelOf w) i) ks
  getStart : ∀ w i ks, Inv w → i < n → i < w.regs.length →
    Inv (p.getStart w i ks).1 ∧ Frame w (p.getStart w i ks).1 (i + 1) ∧
    ∀ ρ, (p.getStart w i ks).2.map (viewOf ρ) = matchStartingV (flatV ρ (skelOf w) i) ks

theorem opsOK_bottom : OpsOK Fns.bottom 0 :=
  ⟨fun _ _ _ h => absurd h (Nat.not_lt_zero _), fun _ _ _ h => absurd h (Nat.not_lt_zero _),
   fun _ _ _ _ h => absurd h (Nat.not_lt_zero _), fun _ _ _ _ h => absurd h (Nat.not_lt_zero _)⟩

section step
variable {p : Fns} {n : Nat} (hp : OpsOK p n)
include hp

theorem versionsOf_ok (i : Nat) (cs : List Nat) (w : W) (inv : Inv w)
    (hcs : ∀ c ∈ cs, c < n ∧ c < i ∧ c < w.regs.length) :
    Inv (versionsOf p w cs).1 ∧ Frame w (versionsOf p w cs).1 i ∧
    (versionsOf p w cs).2 = cs.map (pureVer (skelOf w)) := by
  induction cs generalizing w with
  | nil => exact ⟨inv, Frame.refl _ _, rfl⟩
  | cons c cs ih =>
    have hc := hcs c (List.mem_cons_self ..)
    obtain ⟨i1, f1, v1⟩ := hp.version w c inv hc.1 hc.2.2
    have hcs' : ∀ x ∈ cs, x < n ∧ x < i ∧ x < (p.version w c).1.regs.length := by
      intro x hx
      have := hcs x (List.mem_cons_of_mem _ hx)
      exact ⟨this.1, this.2.1, by rw [f1.len]; exact this.2.2⟩
    obtain ⟨i2, f2, v2⟩ := ih (p.version w c).1 i1 hcs'
    simp only [versionsOf]
    refine ⟨i2, f1.trans f2 (by omega) (Nat.le_refl _), ?_⟩
    simp only [List.map_cons, v1, v2, f1.skel]

theorem bindingsOfAll_ok (i : Nat) (cs : List Nat) (w : W) (inv : Inv w)
    (hcs : ∀ c ∈ cs, c < n ∧ c < i ∧ c < w.regs.length) :
    Inv (bindingsOfAll p w cs).1 ∧ Frame w (bindingsOfAll p w cs).1 i ∧
    BsOK (bindingsOfAll p w cs).1.heap (bindingsOfAll p w cs).2 ∧
    ∀ ρ, (bindingsOfAll p w cs).2.map (viewOf ρ) = cs.flatMap (flatV ρ (skelOf w)) := by
  induction cs generalizing w with
  | nil => exact ⟨inv, Frame.refl _ _, (fun b hb => nomatch hb), fun _ => rfl⟩
  | cons c cs ih =>
    have hc := hcs c (List.mem_cons_self ..)
    obtain ⟨i1, f1, b1, v1⟩ := hp.bindings w c inv hc.1 hc.2.2
    have hcs' : ∀ x ∈ cs, x < n ∧ x < i ∧ x < (p.bindings w c).1.regs.length := by
      intro x hx
      have := hcs x (List.mem_cons_of_mem _ hx)
      exact ⟨this.1, this.2.1, by rw [f1.len]; exact this.2.2⟩
    obtain ⟨i2, f2, b2, v2⟩ := ih (p.bindings w c).1 i1 hcs'
    simp only [bindingsOfAll]
    refine ⟨i2, f1.trans f2 (by omega) (Nat.le_refl _), ?_, ?_⟩
    · intro b hb
      rcases List.mem_append.mp hb with h | h
      · exact ⟨f2.heap _ (b1 b h).1, (b1 b h).2⟩
      · exact b2 b h
    · intro ρ
      simp only [List.map_append, List.flatMap_cons, v1 ρ, v2 ρ, f1.skel]
end step

theorem skelOf_of_get {w : W} {i : Nat} {r : Reg} (h : w.regs[i]? = some r) :
    skelOf w i = some r.skel := by
  simp [skelOf, h]

/-- replace entry `i` by a new one with the same skeleton (heap may have grown) -/
theorem Inv.setEntry {w : W} (inv : Inv w) (h' : Heap) (hh : HeapOK h')
    (hm : ∀ f, Known w.heap f → Known h' f) (i : Nat) (old new : Reg)
    (ho : w.regs[i]? = some old) (hs : new.skel = old.skel)
    (hnew : EntOK h' (skelOf w) i new) :
    Inv (setReg { w with heap := h' } i new) ∧ Frame w (setReg { w with heap := h' } i new) (i + 1) := by
  have hsk : skelOf (setReg { w with heap := h' } i new) = skelOf w :=
    skelOf_setReg { w with heap := h' } i new old ho hs
  have hlt : i < w.regs.length := (List.getElem?_eq_some_iff.mp ho).1
  refine ⟨⟨hh, ?_⟩, ⟨rfl, hsk, hm, ?_⟩⟩
  · intro j r hr
    rw [hsk]
    by_cases hij : i = j
    · subst hij
      rw [setReg_get_eq { w with heap := h' } i new hlt] at hr
      cases hr
      exact hnew
    · rw [setReg_get_ne { w with heap := h' } i j new hij] at hr
      exact (inv.ent j r hr).mono hm
  · intro j hj
    exact setReg_get_ne _ _ _ _ (by omega)

/-- after `_update_cache` the wrapper `i` stores the current version -/
def Synced (w w' : W) (i : Nat) : Prop :=
  match w.regs[i]? with
  | some (.cond c flt _ _) => ∃ b2, w'.regs[i]? = some (.cond c flt b2 (pureVer (skelOf w) i))
  | some (.merged cs _ _) => ∃ b2, w'.regs[i]? = some (.merged cs b2 (pureVer (skelOf w) i))
  | some (.glob c _ _) => ∃ b2, w'.regs[i]? = some (.glob c b2 (pureVer (skelOf w) i))
  | _ => True

section step2
variable {p : Fns} {n : Nat} (hp : OpsOK p n)
include hp

theorem updateWith_cond {w : W} {i c : Nat} {flt : F} {b2 : KB} {last : Ver} (inv : Inv w)
    (hi : i ≤ n) (he : w.regs[i]? = some (.cond c flt b2 last)) :
    Inv (updateWith p w i) ∧ Frame w (updateWith p w i) (i + 1) ∧
    ∃ b2', (updateWith p w i).regs[i]? = some (.cond c flt b2' (pureVer (skelOf w) i)) := by
  have ok := inv.ent i _ he
  obtain ⟨hci, okb2, bsb2, kflt, pok⟩ := ok
  have hlt : i < w.regs.length := (List.getElem?_eq_some_iff.mp he).1
  have hsk : skelOf w i = some (.cond c flt) := skelOf_of_get he
  have hpv : pureVer (skelOf w) i = pureVer (skelOf w) c := pureVer_cond hsk hci
  obtain ⟨i1, f1, v1⟩ := hp.version w c inv (by omega) (by omega)
  have he1 : (p.version w c).1.regs[i]? = some (.cond c flt b2 last) := by
    rw [f1.above i (by omega)]; exact he
  unfold updateWith
  simp only [he]
  split
  · -- refill
    have hlen1 : c < (p.version w c).1.regs.length := by rw [f1.len]; omega
    obtain ⟨i2, f2, bs2, v2⟩ := hp.bindings (p.version w c).1 c i1 (by omega) hlen1
    have he2 : (p.bindings (p.version w c).1 c).1.regs[i]? = some (.cond c flt b2 last) := by
      rw [f2.above i (by omega)]; exact he1
    have kflt2 : Known (p.bindings (p.version w c).1 c).1.heap flt := f2.heap _ (f1.heap _ kflt)
    obtain ⟨c1, c2, c3, c4⟩ := condCopy_spec i2.heap flt kflt2 _ bs2
    have sk2 : skelOf (p.bindings (p.version w c).1 c).1 = skelOf w := f2.skel.trans f1.skel
    have hnew : EntOK (condCopy (p.bindings (p.version w c).1 c).1.heap flt (p.bindings (p.version w c).1 c).2).1
        (skelOf (p.bindings (p.version w c).1 c).1) i
        (.cond c flt { bs := (renumber (p.bindings (p.version w c).1 c).1.nextB
          (condCopy (p.bindings (p.version w c).1 c).1.heap flt
          (p.bindings (p.version w c).1 c).2).2) } (p.version w c).2) := by
      refine ⟨hci, KBOK.fresh _ _, renumber_BsOK c3 _, c2 _ kflt2, ?_, ?_⟩
      · intro ρ content hd
        rw [sk2, v1, dcur_cond hsk hci, dcur_pureVer ρ _ inv.wfsk c
          ((skelOf_isSome w c).mpr (by omega))] at hd
        simp at hd
        show (renumber _ _).map (viewOf ρ) = content
        rw [renumber_view, ← hd, c4 ρ, v2 ρ, f1.skel]
      · right
        rw [sk2, v1, Bnd_cond hsk hci]
        exact Bnd_pureVer _ inv.wfsk c ((skelOf_isSome w c).mpr (by omega))
    obtain ⟨i3, f3⟩ := i2.setEntry _ c1 c2 i (.cond c flt b2 last)
      (.cond c flt { bs := (renumber (p.bindings (p.version w c).1 c).1.nextB
          (condCopy (p.bindings (p.version w c).1 c).1.heap flt
          (p.bindings (p.version w c).1 c).2).2) } (p.version w c).2) he2 rfl hnew
    refine ⟨i3.setNextB _, ((f1.trans f2 (by omega) (by omega)).trans f3 (Nat.le_refl _)
      (Nat.le_refl _)).setNextB _, ?_⟩
    refine ⟨{ bs := (renumber (p.bindings (p.version w c).1 c).1.nextB
          (condCopy (p.bindings (p.version w c).1 c).1.heap flt
          (p.bindings (p.version w c).1 c).2).2) }, ?_⟩
    have hl2 : i < (p.bindings (p.version w c).1 c).1.regs.length := by rw [f2.len, f1.len]; exact hlt
    rw [hpv, ← v1]
    exact setReg_get_eq { (p.bindings (p.version w c).1 c).1 with heap := _ } i _ hl2
  · -- the stored version is current
    next hb =>
    have hbeq : last = (p.version w c).2 := Ver.beq_eq _ _ (by simpa using hb)
    refine ⟨i1, ⟨f1.env, f1.skel, f1.heap, fun j hj => f1.above j (by omega)⟩, b2, ?_⟩
    rw [he1, hbeq, v1, hpv]
theorem updateWith_glob {w : W} {i c : Nat} {b2 : KB} {last : Ver} (inv : Inv w)
    (hi : i ≤ n) (he : w.regs[i]? = some (.glob c b2 last)) :
    Inv (updateWith p w i) ∧ Frame w (updateWith p w i) (i + 1) ∧
    ∃ b2', (updateWith p w i).regs[i]? = some (.glob c b2' (pureVer (skelOf w) i)) := by
  have ok := inv.ent i _ he
  obtain ⟨hci, okb2, bsb2, pok⟩ := ok
  have hlt : i < w.regs.length := (List.getElem?_eq_some_iff.mp he).1
  have hsk : skelOf w i = some (.glob c) := skelOf_of_get he
  have hpv : pureVer (skelOf w) i = pureVer (skelOf w) c := pureVer_glob hsk hci
  obtain ⟨i1, f1, v1⟩ := hp.version w c inv (by omega) (by omega)
  have he1 : (p.version w c).1.regs[i]? = some (.glob c b2 last) := by
    rw [f1.above i (by omega)]; exact he
  unfold updateWith
  simp only [he]
  split
  · have hlen1 : c < (p.version w c).1.regs.length := by rw [f1.len]; omega
    obtain ⟨i2, f2, bs2, v2⟩ := hp.bindings (p.version w c).1 c i1 (by omega) hlen1
    have he2 : (p.bindings (p.version w c).1 c).1.regs[i]? = some (.glob c b2 last) := by
      rw [f2.above i (by omega)]; exact he1
    have sk2 : skelOf (p.bindings (p.version w c).1 c).1 = skelOf w := f2.skel.trans f1.skel
    have hnew : EntOK (p.bindings (p.version w c).1 c).1.heap
        (skelOf (p.bindings (p.version w c).1 c).1) i
        (.glob c { bs := (p.bindings (p.version w c).1 c).2.filter fun b =>
            b.isGlobal.eval (envFn (p.bindings (p.version w c).1 c).1.env) } (p.version w c).2) := by
      refine ⟨hci, KBOK.fresh _ _, fun b hb => bs2 b (List.mem_filter.mp hb).1, ?_, ?_⟩
      · intro ρ content hd
        rw [sk2, v1, ← hpv, dcur_pureVer ρ _ inv.wfsk i ((skelOf_isSome w i).mpr hlt)] at hd
        simp at hd
        rw [← hd, flatV_glob hsk hci, ← f1.skel, ← v2 ρ, List.filter_map]
        congr 1
        apply List.filter_congr
        intro b hb
        have hc := (bs2 b hb).2
        show b.isGlobal.eval _ = (viewOf ρ b).glb
        simp only [viewOf]
        cases hg : b.isGlobal <;> simp [hg, F.isConst] at hc ⊢
      · right
        rw [sk2, v1, ← hpv]
        exact Bnd_pureVer _ inv.wfsk i ((skelOf_isSome w i).mpr hlt)
    obtain ⟨i3, f3⟩ := i2.setEntry _ i2.heap (fun _ h => h) i (.glob c b2 last)
      (.glob c { bs := (p.bindings (p.version w c).1 c).2.filter fun b =>
            b.isGlobal.eval (envFn (p.bindings (p.version w c).1 c).1.env) } (p.version w c).2)
      he2 rfl hnew
    refine ⟨i3, (f1.trans f2 (by omega) (by omega)).trans f3 (Nat.le_refl _) (Nat.le_refl _), ?_⟩
    refine ⟨{ bs := (p.bindings (p.version w c).1 c).2.filter fun b =>
            b.isGlobal.eval (envFn (p.bindings (p.version w c).1 c).1.env) }, ?_⟩
    have hl2 : i < (p.bindings (p.version w c).1 c).1.regs.length := by rw [f2.len, f1.len]; exact hlt
    rw [hpv, ← v1]
    exact setReg_get_eq (p.bindings (p.version w c).1 c).1 i _ hl2
  · next hb =>
    have hbeq : last = (p.version w c).2 := Ver.beq_eq _ _ (by simpa using hb)
    refine ⟨i1, ⟨f1.env, f1.skel, f1.heap, fun j hj => f1.above j (by omega)⟩, b2, ?_⟩
    rw [he1, hbeq, v1, hpv]

theorem updateWith_merged {w : W} {i : Nat} {cs : List Nat} {b2 : KB} {last : Ver} (inv : Inv w)
    (hi : i ≤ n) (he : w.regs[i]? = some (.merged cs b2 last)) :
    Inv (updateWith p w i) ∧ Frame w (updateWith p w i) (i + 1) ∧
    ∃ b2', (updateWith p w i).regs[i]? = some (.merged cs b2' (pureVer (skelOf w) i)) := by
  have ok := inv.ent i _ he
  obtain ⟨hci, okb2, bsb2, pok⟩ := ok
  have hlt : i < w.regs.length := (List.getElem?_eq_some_iff.mp he).1
  have hsk : skelOf w i = some (.merged cs) := skelOf_of_get he
  have hpv : pureVer (skelOf w) i = .tup (cs.map (pureVer (skelOf w))) := by
    rw [pureVer_merged hsk]
    congr 1
    apply List.map_congr_left
    intro c hc
    simp [hci c hc]
  have hfl : ∀ ρ, flatV ρ (skelOf w) i = cs.flatMap (flatV ρ (skelOf w)) := by
    intro ρ
    rw [flatV_merged hsk]
    have : ∀ (l : List Nat), (∀ c ∈ l, c < i) →
        (l.flatMap fun c => if _h : c < i then flatV ρ (skelOf w) c else []) =
          l.flatMap (flatV ρ (skelOf w)) := by
      intro l hl
      induction l with
      | nil => rfl
      | cons c l ih =>
        have h1 := ih (fun x hx => hl x (List.mem_cons_of_mem _ hx))
        simp only [List.flatMap_cons, hl c (List.mem_cons_self ..), dite_true]
        rw [h1]
    exact this cs hci
  obtain ⟨i1, f1, v1⟩ := versionsOf_ok hp i cs w inv
    (fun c hc => ⟨by have := hci c hc; omega, hci c hc, by have := hci c hc; omega⟩)
  have he1 : (versionsOf p w cs).1.regs[i]? = some (.merged cs b2 last) := by
    rw [f1.above i (Nat.le_refl _)]; exact he
  unfold updateWith
  simp only [he]
  split
  · obtain ⟨i2, f2, bs2, v2⟩ := bindingsOfAll_ok hp i cs (versionsOf p w cs).1 i1
      (fun c hc => ⟨by have := hci c hc; omega, hci c hc, by rw [f1.len]; have := hci c hc; omega⟩)
    have he2 : (bindingsOfAll p (versionsOf p w cs).1 cs).1.regs[i]? = some (.merged cs b2 last) := by
      rw [f2.above i (Nat.le_refl _)]; exact he1
    have sk2 : skelOf (bindingsOfAll p (versionsOf p w cs).1 cs).1 = skelOf w := f2.skel.trans f1.skel
    have hnew : EntOK (bindingsOfAll p (versionsOf p w cs).1 cs).1.heap
        (skelOf (bindingsOfAll p (versionsOf p w cs).1 cs).1) i
        (.merged cs { bs := (bindingsOfAll p (versionsOf p w cs).1 cs).2 } (.tup (versionsOf p w cs).2)) := by
      refine ⟨hci, KBOK.fresh _ _, bs2, ?_, ?_⟩
      · intro ρ content hd
        rw [sk2, v1, ← hpv, dcur_pureVer ρ _ inv.wfsk i ((skelOf_isSome w i).mpr hlt)] at hd
        simp at hd
        rw [← hd, hfl ρ, v2 ρ, f1.skel]
      · right
        rw [sk2, v1, ← hpv]
        exact Bnd_pureVer _ inv.wfsk i ((skelOf_isSome w i).mpr hlt)
    obtain ⟨i3, f3⟩ := i2.setEntry _ i2.heap (fun _ h => h) i (.merged cs b2 last)
      (.merged cs { bs := (bindingsOfAll p (versionsOf p w cs).1 cs).2 } (.tup (versionsOf p w cs).2))
      he2 rfl hnew
    refine ⟨i3, (f1.trans f2 (Nat.le_refl i) (Nat.le_refl i)).trans f3 (Nat.le_succ i) (Nat.le_refl _), ?_⟩
    refine ⟨{ bs := (bindingsOfAll p (versionsOf p w cs).1 cs).2 }, ?_⟩
    have hl2 : i < (bindingsOfAll p (versionsOf p w cs).1 cs).1.regs.length := by
      rw [f2.len, f1.len]; exact hlt
    rw [hpv, ← v1]
    exact setReg_get_eq (bindingsOfAll p (versionsOf p w cs).1 cs).1 i _ hl2
  · next hb =>
    have hbeq : last = .tup (versionsOf p w cs).2 := Ver.beq_eq _ _ (by simpa using hb)
    refine ⟨i1, ⟨f1.env, f1.skel, f1.heap, fun j hj => f1.above j (by omega)⟩, b2, ?_⟩
    rw [he1, hbeq, v1, hpv]
end step2

/-! ### reading the (synchronised) copy -/

theorem ProxyOK.of_bs {sk : SkelMap} {i : Nat} {b2 b2' : KB} {last : Ver} (h : ProxyOK sk i b2 last)
    (e : b2'.bs = b2.bs) : ProxyOK sk i b2' last := by
  unfold ProxyOK at *
  rw [e]; exact h

/-- the stored copy of a synchronised wrapper is the flattened content -/
theorem ProxyOK.views {w : W} (inv : Inv w) {i : Nat} (hlt : i < w.regs.length) {b2 : KB}
    (h : ProxyOK (skelOf w) i b2 (pureVer (skelOf w) i)) (ρ : Nat → Bool) :
    b2.bs.map (viewOf ρ) = flatV ρ (skelOf w) i :=
  h.1 ρ _ (dcur_pureVer ρ _ inv.wfsk i ((skelOf_isSome w i).mpr hlt))

def SyncCond (w : W) (i : Nat) : Reg → Prop
  | .cond _ _ _ last => last = pureVer (skelOf w) i
  | .merged _ _ last => last = pureVer (skelOf w) i
  | .glob _ _ last => last = pureVer (skelOf w) i
  | .dyn t _ => t = none
  | .kb _ => True

/-- `lookupOwn` on an object whose own copy is synchronised (or which is a registry / dummy) -/
theorem lookupOwn_ok {w : W} (inv : Inv w) {i : Nat} (hlt : i < w.regs.length) (ks : List Key)
    (starting : Bool)
    (hsync : ∀ r, w.regs[i]? = some r → SyncCond w i r) :
    Inv (lookupOwn w i ks starting).1 ∧ Frame w (lookupOwn w i ks starting).1 (i + 1) ∧
    ∀ ρ, (lookupOwn w i ks starting).2.map (viewOf ρ) =
      if starting then matchStartingV (flatV ρ (skelOf w) i) ks else matchForV (flatV ρ (skelOf w) i) ks := by
  have hlook : ∀ (k : KB), KBOK k →
      let r := (if starting then k.getStarting ks else k.getFor ks)
      KBOK r.1 ∧ r.1.bs = k.bs ∧ r.1.ver = k.ver ∧
      ∀ ρ, r.2.map (viewOf ρ) = if starting then matchStartingV (k.bs.map (viewOf ρ)) ks
                                 else matchForV (k.bs.map (viewOf ρ)) ks := by
    intro k ok
    cases starting with
    | true =>
      have := KB.getStarting_spec ok ks
      exact ⟨this.2.1, this.2.2.1, this.2.2.2, fun ρ => by simp [this.1, matchStarting_view]⟩
    | false =>
      have := KB.getFor_spec ok ks
      exact ⟨this.2.1, this.2.2.1, this.2.2.2, fun ρ => by simp [this.1, matchFor_view]⟩
  cases he : w.regs[i]? with
  | none => exact absurd (List.getElem?_eq_none_iff.mp he) (by omega)
  | some r =>
    have ok := inv.ent i r he
    have hs := hsync r he
    cases r with
    | kb k =>
      obtain ⟨l1, l2, l3, l4⟩ := hlook k ok.1
      have hnew : EntOK w.heap (skelOf w) i
          (.kb (if starting then k.getStarting ks else k.getFor ks).1) := ⟨l1, by rw [l2]; exact ok.2⟩
      obtain ⟨i3, f3⟩ := inv.setEntry _ inv.heap (fun _ h => h) i (.kb k)
        (.kb (if starting then k.getStarting ks else k.getFor ks).1) he
        (by simp [Reg.skel, l2, l3]) hnew
      unfold lookupOwn
      simp only [he]
      refine ⟨i3, f3, fun ρ => ?_⟩
      rw [l4 ρ, flatV_kb (skelOf_of_get he)]
    | cond c flt b2 last =>
      obtain ⟨l1, l2, l3, l4⟩ := hlook b2 ok.2.1
      simp only [SyncCond] at hs; subst hs
      have hnew : EntOK w.heap (skelOf w) i
          (.cond c flt (if starting then b2.getStarting ks else b2.getFor ks).1 (pureVer (skelOf w) i)) :=
        ⟨ok.1, l1, by rw [l2]; exact ok.2.2.1, ok.2.2.2.1, ok.2.2.2.2.of_bs l2⟩
      obtain ⟨i3, f3⟩ := inv.setEntry _ inv.heap (fun _ h => h) i (.cond c flt b2 _)
        (.cond c flt (if starting then b2.getStarting ks else b2.getFor ks).1 (pureVer (skelOf w) i))
        he rfl hnew
      unfold lookupOwn
      simp only [he]
      refine ⟨i3, f3, fun ρ => ?_⟩
      rw [l4 ρ, ok.2.2.2.2.views inv hlt ρ]
    | merged cs b2 last =>
      obtain ⟨l1, l2, l3, l4⟩ := hlook b2 ok.2.1
      simp only [SyncCond] at hs; subst hs
      have hnew : EntOK w.heap (skelOf w) i
          (.merged cs (if starting then b2.getStarting ks else b2.getFor ks).1 (pureVer (skelOf w) i)) :=
        ⟨ok.1, l1, by rw [l2]; exact ok.2.2.1, ok.2.2.2.of_bs l2⟩
      obtain ⟨i3, f3⟩ := inv.setEntry _ inv.heap (fun _ h => h) i (.merged cs b2 _)
        (.merged cs (if starting then b2.getStarting ks else b2.getFor ks).1 (pureVer (skelOf w) i))
        he rfl hnew
      unfold lookupOwn
      simp only [he]
      refine ⟨i3, f3, fun ρ => ?_⟩
      rw [l4 ρ, ok.2.2.2.views inv hlt ρ]
    | glob c b2 last =>
      obtain ⟨l1, l2, l3, l4⟩ := hlook b2 ok.2.1
      simp only [SyncCond] at hs; subst hs
      have hnew : EntOK w.heap (skelOf w) i
          (.glob c (if starting then b2.getStarting ks else b2.getFor ks).1 (pureVer (skelOf w) i)) :=
        ⟨ok.1, l1, by rw [l2]; exact ok.2.2.1, ok.2.2.2.of_bs l2⟩
      obtain ⟨i3, f3⟩ := inv.setEntry _ inv.heap (fun _ h => h) i (.glob c b2 _)
        (.glob c (if starting then b2.getStarting ks else b2.getFor ks).1 (pureVer (skelOf w) i))
        he rfl hnew
      unfold lookupOwn
      simp only [he]
      refine ⟨i3, f3, fun ρ => ?_⟩
      rw [l4 ρ, ok.2.2.2.views inv hlt ρ]
    | dyn t d =>
      simp only [SyncCond] at hs; subst hs
      obtain ⟨l1, l2, l3, l4⟩ := hlook d ok.2.1
      have hnew : EntOK w.heap (skelOf w) i
          (.dyn none (if starting then d.getStarting ks else d.getFor ks).1) :=
        ⟨ok.1, l1, by rw [l2]; exact ok.2.2.1, by rw [l3]; exact ok.2.2.2⟩
      obtain ⟨i3, f3⟩ := inv.setEntry _ inv.heap (fun _ h => h) i (.dyn none d)
        (.dyn none (if starting then d.getStarting ks else d.getFor ks).1) he rfl hnew
      unfold lookupOwn
      simp only [he]
      refine ⟨i3, f3, fun ρ => ?_⟩
      rw [l4 ρ, ok.2.2.1, flatV_dynNone (skelOf_of_get he)]
      cases starting <;> rfl

/-! ### one more level of nesting -/

section step3
variable {p : Fns} {n : Nat} (hp : OpsOK p n)
include hp

theorem updateWith_ok {w : W} {i : Nat} (inv : Inv w) (hi : i ≤ n) (hlt : i < w.regs.length) :
    Inv (updateWith p w i) ∧ Frame w (updateWith p w i) (i + 1) ∧
    ((∀ t d, w.regs[i]? ≠ some (.dyn (some t) d)) →
      ∀ r, (updateWith p w i).regs[i]? = some r → SyncCond (updateWith p w i) i r) := by
  cases he : w.regs[i]? with
  | none => exact absurd (List.getElem?_eq_none_iff.mp he) (by omega)
  | some r =>
    cases r with
    | kb k =>
      have : updateWith p w i = w := by simp [updateWith, he]
      rw [this]
      refine ⟨inv, Frame.refl _ _, fun _ r hr => ?_⟩
      rw [he] at hr; cases hr; trivial
    | cond c flt b2 last =>
      obtain ⟨a1, a2, b2', a3⟩ := updateWith_cond hp inv hi he
      refine ⟨a1, a2, fun _ r hr => ?_⟩
      rw [a3] at hr; cases hr
      show pureVer (skelOf w) i = pureVer (skelOf (updateWith p w i)) i
      rw [a2.skel]
    | merged cs b2 last =>
      obtain ⟨a1, a2, b2', a3⟩ := updateWith_merged hp inv hi he
      refine ⟨a1, a2, fun _ r hr => ?_⟩
      rw [a3] at hr; cases hr
      show pureVer (skelOf w) i = pureVer (skelOf (updateWith p w i)) i
      rw [a2.skel]
    | glob c b2 last =>
      obtain ⟨a1, a2, b2', a3⟩ := updateWith_glob hp inv hi he
      refine ⟨a1, a2, fun _ r hr => ?_⟩
      rw [a3] at hr; cases hr
      show pureVer (skelOf w) i = pureVer (skelOf (updateWith p w i)) i
      rw [a2.skel]
    | dyn t d =>
      cases t with
      | none =>
        have : updateWith p w i = w := by simp [updateWith, he]
        rw [this]
        refine ⟨inv, Frame.refl _ _, fun _ r hr => ?_⟩
        rw [he] at hr; cases hr; rfl
      | some t =>
        have ht : t < i := (inv.ent i _ he).1 t rfl
        have : updateWith p w i = (p.version w t).1 := by simp [updateWith, he]
        rw [this]
        obtain ⟨a1, a2, _⟩ := hp.version w t inv (by omega) (by omega)
        exact ⟨a1, ⟨a2.env, a2.skel, a2.heap, fun j hj => a2.above j (by omega)⟩,
          fun h => absurd rfl (h t d)⟩

theorem opsOK_step : OpsOK p.step (n + 1) := by
  constructor
  · -- version
    intro w i inv hi hlt
    have hi' : i ≤ n := by omega
    cases he : w.regs[i]? with
    | none => exact absurd (List.getElem?_eq_none_iff.mp he) (by omega)
    | some r =>
      have hsk := skelOf_of_get he
      cases r with
      | kb k =>
        simp only [Fns.step, he]
        exact ⟨inv, Frame.refl _ _, (pureVer_kb hsk).symm⟩
      | dyn t d =>
        cases t with
        | none =>
          simp only [Fns.step, he]
          refine ⟨inv, Frame.refl _ _, ?_⟩
          rw [pureVer_dynNone hsk, (inv.ent i _ he).2.2.2]
        | some t =>
          have ht : t < i := (inv.ent i _ he).1 t rfl
          simp only [Fns.step, he]
          obtain ⟨a1, a2, a3⟩ := hp.version w t inv (by omega) (by omega)
          refine ⟨a1, ⟨a2.env, a2.skel, a2.heap, fun j hj => a2.above j (by omega)⟩, ?_⟩
          rw [pureVer_dyn hsk ht, a3]
      | cond c flt b2 last =>
        obtain ⟨a1, a2, b2', a3⟩ := updateWith_cond hp inv hi' he
        simp only [Fns.step, he, a3]
        exact ⟨a1, a2, trivial⟩
      | merged cs b2 last =>
        obtain ⟨a1, a2, b2', a3⟩ := updateWith_merged hp inv hi' he
        simp only [Fns.step, he, a3]
        exact ⟨a1, a2, trivial⟩
      | glob c b2 last =>
        obtain ⟨a1, a2, b2', a3⟩ := updateWith_glob hp inv hi' he
        simp only [Fns.step, he, a3]
        exact ⟨a1, a2, trivial⟩
  · -- bindings
    intro w i inv hi hlt
    have hi' : i ≤ n := by omega
    cases he : w.regs[i]? with
    | none => exact absurd (List.getElem?_eq_none_iff.mp he) (by omega)
    | some r =>
      have hsk := skelOf_of_get he
      cases r with
      | kb k =>
        simp only [Fns.step, he]
        exact ⟨inv, Frame.refl _ _, (inv.ent i _ he).2, fun ρ => (flatV_kb hsk).symm⟩
      | dyn t d =>
        cases t with
        | none =>
          simp only [Fns.step, he]
          refine ⟨inv, Frame.refl _ _, ?_, fun ρ => ?_⟩
          · rw [(inv.ent i _ he).2.2.1]; exact fun b hb => nomatch hb
          · rw [(inv.ent i _ he).2.2.1, flatV_dynNone hsk]; rfl
        | some t =>
          have ht : t < i := (inv.ent i _ he).1 t rfl
          simp only [Fns.step, he]
          obtain ⟨a1, a2, a3⟩ := hp.version w t inv (by omega) (by omega)
          obtain ⟨b1, b2, b3, b4⟩ := hp.bindings (p.version w t).1 t a1 (by omega)
            (by rw [a2.len]; omega)
          refine ⟨b1, (a2.trans b2 (Nat.le_refl _) (Nat.le_refl _)).trans (Frame.refl _ _)
            (by omega) (Nat.le_refl _), b3, fun ρ => ?_⟩
          rw [b4 ρ, a2.skel, flatV_dyn hsk ht]
      | cond c flt b2 last =>
        obtain ⟨a1, a2, b2', a3⟩ := updateWith_cond hp inv hi' he
        simp only [Fns.step, he, a3]
        have ok := a1.ent i _ a3
        refine ⟨a1, a2, ok.2.2.1, fun ρ => ?_⟩
        have := ok.2.2.2.2
        rw [a2.skel] at this
        have h2 := this.1 ρ _ (dcur_pureVer ρ _ inv.wfsk i ((skelOf_isSome w i).mpr hlt))
        exact h2
      | merged cs b2 last =>
        obtain ⟨a1, a2, b2', a3⟩ := updateWith_merged hp inv hi' he
        simp only [Fns.step, he, a3]
        have ok := a1.ent i _ a3
        refine ⟨a1, a2, ok.2.2.1, fun ρ => ?_⟩
        have := ok.2.2.2
        rw [a2.skel] at this
        exact this.1 ρ _ (dcur_pureVer ρ _ inv.wfsk i ((skelOf_isSome w i).mpr hlt))
      | glob c b2 last =>
        obtain ⟨a1, a2, b2', a3⟩ := updateWith_glob hp inv hi' he
        simp only [Fns.step, he, a3]
        have ok := a1.ent i _ a3
        refine ⟨a1, a2, ok.2.2.1, fun ρ => ?_⟩
        have := ok.2.2.2
        rw [a2.skel] at this
        exact this.1 ρ _ (dcur_pureVer ρ _ inv.wfsk i ((skelOf_isSome w i).mpr hlt))
  · -- get_bindings_for_keys
    intro w i ks inv hi hlt
    have hi' : i ≤ n := by omega
    by_cases hd : ∃ t d, w.regs[i]? = some (.dyn (some t) d)
    · obtain ⟨t, d, he⟩ := hd
      have hsk := skelOf_of_get he
      have ht : t < i := (inv.ent i _ he).1 t rfl
      simp only [Fns.step, he]
      obtain ⟨a1, a2, a3⟩ := hp.version w t inv (by omega) (by omega)
      obtain ⟨b1, b2, b4⟩ := hp.getFor (p.version w t).1 t ks a1 (by omega) (by rw [a2.len]; omega)
      refine ⟨b1, (a2.trans b2 (Nat.le_refl _) (Nat.le_refl _)).trans (Frame.refl _ _)
        (by omega) (Nat.le_refl _), fun ρ => ?_⟩
      rw [b4 ρ, a2.skel, flatV_dyn hsk ht]
    · have hnd : ∀ t d, w.regs[i]? ≠ some (.dyn (some t) d) := fun t d h => hd ⟨t, d, h⟩
      obtain ⟨u1, u2, u3⟩ := updateWith_ok hp inv hi' hlt
      have hl' : i < (updateWith p w i).regs.length := by rw [u2.len]; exact hlt
      obtain ⟨l1, l2, l3⟩ := lookupOwn_ok u1 hl' ks false (u3 hnd)
      have hstep : p.step.getFor w i ks = lookupOwn (updateWith p w i) i ks false := by
        cases he : w.regs[i]? with
        | none => exact absurd (List.getElem?_eq_none_iff.mp he) (by omega)
        | some r =>
          cases r with
          | dyn t d =>
            cases t with
            | none => simp [Fns.step, he]
            | some t => exact absurd he (hnd t d)
          | _ => simp [Fns.step, he]
      rw [hstep]
      refine ⟨l1, u2.trans l2 (Nat.le_refl _) (Nat.le_refl _), fun ρ => ?_⟩
      rw [l3 ρ, u2.skel]; rfl
  · -- get_bindings_starting_with_keys
    intro w i ks inv hi hlt
    have hi' : i ≤ n := by omega
    by_cases hd : ∃ t d, w.regs[i]? = some (.dyn (some t) d)
    · obtain ⟨t, d, he⟩ := hd
      have hsk := skelOf_of_get he
      have ht : t < i := (inv.ent i _ he).1 t rfl
      simp only [Fns.step, he]
      obtain ⟨a1, a2, a3⟩ := hp.version w t inv (by omega) (by omega)
      obtain ⟨b1, b2, b4⟩ := hp.getStart (p.version w t).1 t ks a1 (by omega) (by rw [a2.len]; omega)
      refine ⟨b1, (a2.trans b2 (Nat.le_refl _) (Nat.le_refl _)).trans (Frame.refl _ _)
        (by omega) (Nat.le_refl _), fun ρ => ?_⟩
      rw [b4 ρ, a2.skel, flatV_dyn hsk ht]
    · have hnd : ∀ t d, w.regs[i]? ≠ some (.dyn (some t) d) := fun t d h => hd ⟨t, d, h⟩
      obtain ⟨u1, u2, u3⟩ := updateWith_ok hp inv hi' hlt
      have hl' : i < (updateWith p w i).regs.length := by rw [u2.len]; exact hlt
      obtain ⟨l1, l2, l3⟩ := lookupOwn_ok u1 hl' ks true (u3 hnd)
      have hstep : p.step.getStart w i ks = lookupOwn (updateWith p w i) i ks true := by
        cases he : w.regs[i]? with
        | none => exact absurd (List.getElem?_eq_none_iff.mp he) (by omega)
        | some r =>
          cases r with
          | dyn t d =>
            cases t with
            | none => simp [Fns.step, he]
            | some t => exact absurd he (hnd t d)
          | _ => simp [Fns.step, he]
      rw [hstep]
      refine ⟨l1, u2.trans l2 (Nat.le_refl _) (Nat.le_refl _), fun ρ => ?_⟩
      rw [l3 ρ, u2.skel]; rfl
end step3

theorem fns_ok : ∀ n, OpsOK (fns n) n
  | 0 => opsOK_bottom
  | n + 1 => opsOK_step (fns_ok n)

/-- **wrapper_reflects**: in every object table satisfying the invariant, for every object `i`
    (any nesting of conditional / merged / dynamic / global-only wrappers over registries,
    shared or not), `get_bindings_for_keys`, `get_bindings_starting_with_keys`, `.bindings` and
    `_version` called through `i` return — under every assignment `ρ` of the conditions — exactly
    what the documented lookup gives on the bindings that are in the underlying registries *now*
    (`flatV`), whatever the wrappers had cached before; the call keeps the invariant and changes
    neither the registries nor the shape of the wrappers. -/
theorem wrapper_reflects (w : W) (inv : Inv w) (i : Nat) (hi : i < w.regs.length) (ks : List Key) :
    (Inv (w.fns.getFor w i ks).1 ∧ skelOf (w.fns.getFor w i ks).1 = skelOf w ∧
      ∀ ρ, (w.fns.getFor w i ks).2.map (viewOf ρ) = matchForV (flatV ρ (skelOf w) i) ks) ∧
    (Inv (w.fns.getStart w i ks).1 ∧ skelOf (w.fns.getStart w i ks).1 = skelOf w ∧
      ∀ ρ, (w.fns.getStart w i ks).2.map (viewOf ρ) = matchStartingV (flatV ρ (skelOf w) i) ks) ∧
    (Inv (w.fns.bindings w i).1 ∧ skelOf (w.fns.bindings w i).1 = skelOf w ∧
      ∀ ρ, (w.fns.bindings w i).2.map (viewOf ρ) = flatV ρ (skelOf w) i) ∧
    (Inv (w.fns.version w i).1 ∧ skelOf (w.fns.version w i).1 = skelOf w ∧
      (w.fns.version w i).2 = pureVer (skelOf w) i) := by
  have ok := fns_ok (w.regs.length + 1)
  have hi' : i < w.regs.length + 1 := by omega
  obtain ⟨a1, a2, a3⟩ := ok.getFor w i ks inv hi' hi
  obtain ⟨b1, b2, b3⟩ := ok.getStart w i ks inv hi' hi
  obtain ⟨c1, c2, _, c3⟩ := ok.bindings w i inv hi' hi
  obtain ⟨d1, d2, d3⟩ := ok.version w i inv hi' hi
  exact ⟨⟨a1, a2.skel, a3⟩, ⟨b1, b2.skel, b3⟩, ⟨c1, c2.skel, c3⟩, ⟨d1, d2.skel, d3⟩⟩

end Ptk.C04
