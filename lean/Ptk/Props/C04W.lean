/-
  C04 — the wrappers (`ConditionalKeyBindings`, `_MergedKeyBindings`, `DynamicKeyBindings`,
  `GlobalOnlyKeyBindings`) of `Ptk.Model.C04KB`: lookups, `.bindings` and `_version` through any
  nesting of wrappers always reflect the bindings that are in the underlying `KeyBindings`
  objects *now*.

  Specification side (no caches, no versions stored): the *skeleton* of the object table
  (binding lists and version counters of the registries, the shape of the wrappers) determines
    `flatV`   the flattened list of binding views,
    `pureVer` the version value the object reports,
    `dcur`    the content named by a version value, if that value is current for every
              registry it mentions (whatever the dynamic wrappers point to at the moment),
    `Bnd`     "not a version of the future".
  Invariant (`Inv`): for every wrapper, if the stored `_last_version` names current content, the
  stored `_bindings2` is that content (`Coh`), and the stored version is not from the future.
-/
import Ptk.Props.C04F
import Ptk.Props.C04KB
namespace Ptk.C04

/-! ### views: what a binding means under an assignment of the conditions -/

structure View where
  keys : List Key
  hid : Nat
  act : Bool     -- filter()
  eag : Bool     -- eager()
  glb : Bool     -- is_global()
deriving DecidableEq, Repr

def viewOf (ρ : Nat → Bool) (b : Binding) : View :=
  ⟨b.keys, b.hid, b.filter.eval ρ, b.eager.eval ρ, b.isGlobal.eval ρ⟩

/-- the extra condition of a `ConditionalKeyBindings` -/
def View.gate (g : Bool) (v : View) : View := { v with act := g && v.act }

/-! ### skeleton of the object table -/

inductive Skel where
  | kb (bs : List Binding) (ver : Nat)
  | cond (c : Nat) (flt : F)
  | merged (cs : List Nat)
  | dyn (t : Option Nat)
  | glob (c : Nat)

def Reg.skel : Reg → Skel
  | .kb k => .kb k.bs k.ver
  | .cond c flt _ _ => .cond c flt
  | .merged cs _ _ => .merged cs
  | .dyn t _ => .dyn t
  | .glob c _ _ => .glob c

abbrev SkelMap := Nat → Option Skel

def skelOf (w : W) : SkelMap := fun j => (w.regs[j]?).map Reg.skel

/-- the flattened content of object `i` -/
def flatV (ρ : Nat → Bool) (sk : SkelMap) (i : Nat) : List View :=
  match sk i with
  | some (.kb bs _) => bs.map (viewOf ρ)
  | some (.cond c flt) => if _h : c < i then (flatV ρ sk c).map (View.gate (flt.eval ρ)) else []
  | some (.merged cs) => cs.flatMap fun c => if _h : c < i then flatV ρ sk c else []
  | some (.dyn (some t)) => if _h : t < i then flatV ρ sk t else []
  | some (.dyn none) => []
  | some (.glob c) => if _h : c < i then (flatV ρ sk c).filter (·.glb) else []
  | none => []
termination_by i

/-- the value of `_version` of object `i` -/
def pureVer (sk : SkelMap) (i : Nat) : Ver :=
  match sk i with
  | some (.kb _ ver) => .num ver
  | some (.cond c _) => if _h : c < i then pureVer sk c else .tup []
  | some (.merged cs) => .tup (cs.map fun c => if _h : c < i then pureVer sk c else .tup [])
  | some (.dyn (some t)) => if _h : t < i then .dyn t (pureVer sk t) else .tup []
  | some (.dyn none) => .dyn i (.num 0)
  | some (.glob c) => if _h : c < i then pureVer sk c else .tup []
  | none => .tup []
termination_by i

def dcurList (f : Nat → Ver → Option (List View)) : List Nat → List Ver → Option (List View)
  | [], [] => some []
  | c :: cs, v :: vs =>
    match f c v, dcurList f cs vs with
    | some a, some b => some (a ++ b)
    | _, _ => none
  | _, _ => none

/-- the content named by the version value `v` of object `i`, provided `v` is current for every
    registry it mentions; dynamic wrappers are followed through the target recorded *in `v`* -/
def dcur (ρ : Nat → Bool) (sk : SkelMap) (i : Nat) (v : Ver) : Option (List View) :=
  match sk i with
  | some (.kb bs ver) =>
    match v with
    | .num m => if m = ver then some (bs.map (viewOf ρ)) else none
    | _ => none
  | some (.cond c flt) =>
    if _h : c < i then (dcur ρ sk c v).map (·.map (View.gate (flt.eval ρ))) else none
  | some (.glob c) => if _h : c < i then (dcur ρ sk c v).map (·.filter (·.glb)) else none
  | some (.merged cs) =>
    match v with
    | .tup vs => dcurList (fun c x => if _h : c < i then dcur ρ sk c x else none) cs vs
    | _ => none
  | some (.dyn _) =>
    match v with
    | .dyn t v' =>
      if t = i then (match v' with | .num 0 => some [] | _ => none)
      else if _h : t < i then dcur ρ sk t v' else none
    | _ => none
  | none => none
termination_by i

def bndList (f : Nat → Ver → Prop) : List Nat → List Ver → Prop
  | [], [] => True
  | c :: cs, v :: vs => f c v ∧ bndList f cs vs
  | _, _ => False

/-- `v` has the shape of a version of object `i` and mentions no registry version of the future -/
def Bnd (sk : SkelMap) (i : Nat) (v : Ver) : Prop :=
  match sk i with
  | some (.kb _ ver) =>
    match v with
    | .num m => m ≤ ver
    | _ => False
  | some (.cond c _) => if _h : c < i then Bnd sk c v else False
  | some (.glob c) => if _h : c < i then Bnd sk c v else False
  | some (.merged cs) =>
    match v with
    | .tup vs => bndList (fun c x => if _h : c < i then Bnd sk c x else False) cs vs
    | _ => False
  | some (.dyn _) =>
    match v with
    | .dyn t v' => if t = i then v' = .num 0 else if _h : t < i then Bnd sk t v' else False
    | _ => False
  | none => False
termination_by i

/-- children exist and come before their parents -/
def WFSkel (i : Nat) (sk : SkelMap) : Skel → Prop
  | .kb _ _ => True
  | .cond c _ => c < i ∧ (sk c).isSome
  | .merged cs => ∀ c ∈ cs, c < i ∧ (sk c).isSome
  | .dyn (some t) => t < i ∧ (sk t).isSome
  | .dyn none => True
  | .glob c => c < i ∧ (sk c).isSome

def WFsk (sk : SkelMap) : Prop := ∀ i s, sk i = some s → WFSkel i sk s

/-! ### the current version names the current content -/

theorem dcur_pureVer (ρ : Nat → Bool) (sk : SkelMap) (wf : WFsk sk) (i : Nat) (hi : (sk i).isSome) :
    dcur ρ sk i (pureVer sk i) = some (flatV ρ sk i) := by
  induction i using Nat.strongRecOn with
  | ind i ih =>
    cases hs : sk i with
    | none => simp [hs] at hi
    | some s =>
      have hw := wf i s hs
      rw [dcur, pureVer, flatV]
      cases s with
      | kb bs ver => simp [hs]
      | cond c flt =>
        simp only [WFSkel] at hw
        simp [hs, hw.1, ih c hw.1 hw.2]
      | glob c =>
        simp only [WFSkel] at hw
        simp [hs, hw.1, ih c hw.1 hw.2]
      | dyn t =>
        cases t with
        | none => simp [hs]
        | some t =>
          simp only [WFSkel] at hw
          have : t ≠ i := Nat.ne_of_lt hw.1
          simp [hs, hw.1, this, ih t hw.1 hw.2]
      | merged cs =>
        simp only [WFSkel] at hw
        simp only [hs]
        have key : ∀ (l : List Nat), (∀ c ∈ l, c < i ∧ (sk c).isSome) →
            dcurList (fun c x => if _h : c < i then dcur ρ sk c x else none) l
              (l.map fun c => if _h : c < i then pureVer sk c else .tup []) =
            some (l.flatMap fun c => if _h : c < i then flatV ρ sk c else []) := by
          intro l hl
          induction l with
          | nil => simp [dcurList]
          | cons c l ihl =>
            have hc := hl c (List.mem_cons_self ..)
            have := ihl (fun x hx => hl x (List.mem_cons_of_mem _ hx))
            simp [dcurList, hc.1, ih c hc.1 hc.2, this]
        exact key cs hw

end Ptk.C04
