/-
  C01 — the readline named commands as LOCAL EDITS (part 1: character-level commands).

  `LocalEdit b b' m k x`: the text after the command is
      (text before the cursor minus its last m characters) ++ x ++ (text after the cursor minus its first k)
  and the cursor stands behind x.  Every theorem holds for all texts, cursors and INTEGER arguments
  (negative and oversized included).
-/
import Ptk.Props.C01
import Ptk.Model.C01Cmd
namespace Ptk.C01
open Ptk.Py

def LocalEdit (b b' : Buf) (m k : Nat) (x : Text) : Prop :=
  m ≤ b.cur ∧ k ≤ b.after.length ∧
  b'.text = b.before.take (b.cur - m) ++ x ++ b.after.drop k ∧
  b'.cur = b.cur - m + x.length

instance (b b' : Buf) (m k : Nat) (x : Text) : Decidable (LocalEdit b b' m k x) := by
  unfold LocalEdit; infer_instance

@[simp] theorem before_take_self (b : Buf) : b.before.take b.cur = b.before := by
  simp [Buf.before, List.take_take]

theorem localEdit_inv {b b' : Buf} {m k : Nat} {x : Text} (h : Inv b) (he : LocalEdit b b' m k x) :
    Inv b' := by
  obtain ⟨hm, hk, ht, hc⟩ := he
  unfold Inv at *
  rw [ht, hc]
  simp [Buf.before, Buf.after] at hk ⊢
  omega

theorem sliceTo_nonneg (l : Text) (n : Nat) : sliceTo l (n : Int) = l.take n := by
  unfold sliceTo slice normIdx
  simp
  have : ¬ ((n : Int) < 0) := by omega
  simp [this]

theorem sliceTo_neg (l : Text) (n : Int) (h : n < 0) : sliceTo l n = l.take (l.length - (-n).toNat) := by
  unfold sliceTo slice normIdx
  simp [h]
  congr 1; omega

theorem deleteI_nonneg (b : Buf) (n : Nat) : deleteI b (n : Int) = delete b n := by
  unfold deleteI delete
  rw [sliceTo_nonneg]

theorem deleteI_frame (b : Buf) (h : Inv b) (n : Int) :
    ∃ k, k ≤ b.after.length ∧ (deleteI b n).2 = b.after.take k ∧
      (deleteI b n).1.text = b.before ++ b.after.drop k ∧ (deleteI b n).1.cur = b.cur ∧
      (0 ≤ n → k = min n.toNat b.after.length) ∧ (n < 0 → k = b.after.length - (-n).toNat) := by
  by_cases hn : 0 ≤ n
  · obtain ⟨m, rfl⟩ := Int.eq_ofNat_of_zero_le hn
    have := delete_spec b h m
    rw [deleteI_nonneg]
    refine ⟨min m b.after.length, by omega, this.1, this.2.1, this.2.2, by simp, by omega⟩
  · have hn' : n < 0 := by omega
    refine ⟨b.after.length - (-n).toNat, by omega, ?_, ?_, ?_, by omega, fun _ => rfl⟩
    all_goals
      unfold deleteI
      unfold Inv at h
      split
      · rw [sliceTo_neg _ _ hn']
        try (simp [setText, Buf.before, Buf.after, List.drop_drop] <;> omega)
      · rename_i hge
        have : b.cur = b.text.length := by omega
        simp [Buf.before, Buf.after, this]

theorem before_length (b : Buf) (h : Inv b) : b.before.length = b.cur := by
  unfold Inv at h; simp [Buf.before]; omega
theorem after_length (b : Buf) : b.after.length = b.text.length - b.cur := by
  simp [Buf.after]

/-- `Buffer.delete(count)` for ANY integer count is a local edit that removes a prefix of the text
    after the cursor and returns exactly that prefix; for `count ≥ 0` its length is
    `min(count, available)` -/
theorem deleteI_local (b : Buf) (h : Inv b) (n : Int) :
    ∃ k, LocalEdit b (deleteI b n).1 0 k [] ∧ (deleteI b n).2 = b.after.take k ∧
      (0 ≤ n → k = min n.toNat b.after.length) ∧ (n < 0 → k = b.after.length - (-n).toNat) := by
  obtain ⟨k, hk, hr, ht, hc, h1, h2⟩ := deleteI_frame b h n
  refine ⟨k, ⟨by omega, hk, ?_, ?_⟩, hr, h1, h2⟩
  · simp [ht]
  · simp [hc]

/-- `delete_before_cursor(count)` is a local edit removing the last `min(count, cursor)` characters
    before the cursor, which are what it returns -/
theorem deleteBefore_local (b : Buf) (h : Inv b) (n : Nat) :
    LocalEdit b (deleteBefore b n).1 (min n b.cur) 0 [] ∧
    (deleteBefore b n).2 = b.before.drop (b.cur - min n b.cur) := by
  have := deleteBefore_spec b h n
  simp only at this
  obtain ⟨h1, _, h3, h4⟩ := this
  refine ⟨⟨by omega, by omega, ?_, ?_⟩, h1⟩
  · simp [h3]
  · simp [h4]

example : LocalEdit { text := "hello".toList, cur := 2 } (deleteBefore { text := "hello".toList, cur := 2 } 3).1 2 0 [] := by
  decide

/-- `backward-delete-char` for every integer argument: `arg ≥ 0` removes (and hands back) exactly
    the last `min(arg, cursor)` characters before the cursor, `arg < 0` exactly the first
    `min(-arg, available)` characters after it -/
theorem backwardDeleteChar_full (b : Buf) (h : Inv b) (arg : Int) :
    (0 ≤ arg → LocalEdit b (backwardDeleteChar b arg).1 (min arg.toNat b.cur) 0 [] ∧
        (backwardDeleteChar b arg).2 = b.before.drop (b.cur - min arg.toNat b.cur)) ∧
    (arg < 0 → LocalEdit b (backwardDeleteChar b arg).1 0 (min (-arg).toNat b.after.length) [] ∧
        (backwardDeleteChar b arg).2 = b.after.take (min (-arg).toNat b.after.length)) := by
  constructor
  · intro h0
    rw [(backwardDeleteChar_spec b h arg).1 h0]
    exact deleteBefore_local b h _
  · intro h0
    rw [(backwardDeleteChar_spec b h arg).2 h0]
    have := delete_spec b h (-arg).toNat
    refine ⟨⟨by omega, by omega, ?_, ?_⟩, this.1⟩
    · simp [this.2.1]
    · simp [this.2.2]

/-- `delete-char` for every integer argument (mirror image of `backward-delete-char`) -/
theorem deleteChar_full (b : Buf) (h : Inv b) (arg : Int) :
    (0 ≤ arg → LocalEdit b (deleteChar b arg).1 0 (min arg.toNat b.after.length) [] ∧
        (deleteChar b arg).2 = b.after.take (min arg.toNat b.after.length)) ∧
    (arg < 0 → LocalEdit b (deleteChar b arg).1 (min (-arg).toNat b.cur) 0 [] ∧
        (deleteChar b arg).2 = b.before.drop (b.cur - min (-arg).toNat b.cur)) := by
  constructor
  · intro h0
    rw [(deleteChar_spec b h arg).1 h0]
    have := delete_spec b h arg.toNat
    refine ⟨⟨by omega, by omega, ?_, ?_⟩, this.1⟩
    · simp [this.2.1]
    · simp [this.2.2]
  · intro h0
    rw [(deleteChar_spec b h arg).2 h0]
    exact deleteBefore_local b h _

example : (deleteChar { text := "hello".toList, cur := 2 } (-5)) = ({ text := "llo".toList, cur := 0 }, "he".toList) := by
  decide

/-- `self-insert` with numeric argument: `data * arg` is inserted at the cursor (nothing for `arg ≤ 0`) -/
theorem selfInsert_spec (b : Buf) (h : Inv b) (d : Text) (arg : Int) :
    LocalEdit b (selfInsert b d arg) 0 0 (repeatText d arg.toNat) ∧
    (arg ≤ 0 → selfInsert b d arg = b) := by
  have := insert_spec b h (repeatText d arg.toNat) true
  unfold selfInsert
  refine ⟨⟨by omega, by omega, ?_, ?_⟩, ?_⟩
  · simp [this.1]
  · simp [this.2]
  · intro h0
    have : arg.toNat = 0 := by omega
    unfold Inv at h
    rw [this]
    simp only [repeatText, insertText]
    cases b with
    | mk t c => simp at h ⊢; omega

example : selfInsert { text := "ab".toList, cur := 1 } ['x'] 3 = { text := "axxxb".toList, cur := 4 } := by decide

/-- `quoted-insert` + key: the key's data is inserted verbatim at the cursor -/
theorem quotedInsert_spec (b : Buf) (h : Inv b) (d : Text) : LocalEdit b (quotedInsert b d) 0 0 d := by
  have := insert_spec b h d true
  unfold quotedInsert
  refine ⟨by omega, by omega, ?_, ?_⟩
  · simp [this.1]
  · simp [this.2]

/-- `transpose-chars`: nothing at the start of the buffer; at the end of a line / of the buffer the
    two characters before the cursor are exchanged (cursor stays); inside a line the characters on
    both sides of the cursor are exchanged and the cursor moves one to the right -/
theorem transposeChars_spec (b : Buf) :
    (b.cur = 0 → transposeChars b = b) ∧
    (0 < b.cur → (b.cur = b.text.length ∨ b.text[b.cur]? = some '\n') →
        transposeChars b = swapBeforeCursor b) ∧
    (0 < b.cur → b.cur < b.text.length → b.text[b.cur]? ≠ some '\n' →
        ∃ x y, b.text = b.text.take (b.cur - 1) ++ [x, y] ++ b.text.drop (b.cur + 1) ∧
          (transposeChars b).text = b.text.take (b.cur - 1) ++ [y, x] ++ b.text.drop (b.cur + 1) ∧
          (transposeChars b).cur = b.cur + 1) := by
  refine ⟨?_, ?_, ?_⟩
  · intro h0; simp [transposeChars, h0]
  · intro h0 h1
    have : b.cur ≠ 0 := by omega
    simp [transposeChars, this, h1]
  · intro h0 h1 h2
    have hne : b.cur ≠ 0 := by omega
    have hne2 : ¬ (b.cur = b.text.length ∨ b.text[b.cur]? = some '\n') := by
      intro hh; rcases hh with hh | hh
      · omega
      · exact h2 hh
    have hsc : setCursor b ((b.cur : Int) + 1) = { text := b.text, cur := b.cur + 1 } := by
      simp [setCursor]; omega
    have hi : Inv { text := b.text, cur := b.cur + 1 } := by unfold Inv; simp; omega
    have := (swap_spec { text := b.text, cur := b.cur + 1 } hi).1 (by simp; omega)
    obtain ⟨x, y, e1, e2, e3⟩ := this
    refine ⟨x, y, ?_, ?_, ?_⟩
    · simpa using e1
    · simp only [transposeChars, hne, if_false, hne2, hsc]; simpa using e2
    · simp only [transposeChars, hne, if_false, hne2, hsc]; simpa using e3

example : transposeChars { text := "ab\ncd".toList, cur := 2 } = { text := "ba\ncd".toList, cur := 2 } := by decide
example : transposeChars { text := "abc".toList, cur := 1 } = { text := "bac".toList, cur := 2 } := by decide

end Ptk.C01
