/-
  C07 — several buffers / focus changes: every buffer of a multi-buffer session, looked at on its own, IS a
  single-buffer session of `Ptk.Props.C07` (projection), so every theorem proved there holds per buffer.

  What changes with several buffers is only which commands snapshot a given buffer: exactly those that
  START while it has the focus.  A command that edits a buffer that did not have the focus when the command
  started (accept-search moves the main buffer to the match; a grouped handler whose callback moved the
  focus in the middle of a run) is, for that buffer, an edit without a snapshot of its own — covered when
  a snapshot exists and the redo stack is empty (`Disciplined`), a genuine loss of the initial text
  otherwise (`cross_buffer_repeat_loses_initial`).
-/
import Ptk.Props.C07Keys
import Ptk.Model.C07Multi
namespace Ptk.C07
open Ptk.Py

/-- one command of a multi-buffer session: per buffer a body (`.edit id` for a buffer it does not touch) -/
structure MCmd where
  h : Nat
  rule : Bool → Bool
  on : Nat → Body
  focus : Option Nat := none
  out : Outcome := .ok

inductive MItem
  | cmd (c : MCmd)
  | kpReset
  | cpr
  | ext (b : Nat) (f : Buf → Buf)
  | extFocus (b : Nat)

def stepM (m : MSt) : MItem → MSt
  | .cmd c => callHandlerM c.out c.h c.rule ⟨fun i => (c.on i).acts, c.focus⟩ m
  | .kpReset => kpResetM m
  | .cpr => m
  | .ext b f => extEditM b f m
  | .extFocus b => extFocusM b m

def runM (items : List MItem) (m : MSt) : MSt := items.foldl stepM m

/-- buffer `b` of the application, with the (shared) previous handler -/
def projK (b : Nat) (m : MSt) : KSt := { st := m.bufs b, prev := m.prev }

/-- the same command as buffer `b` sees it when the focus is on `f`: its `save_before` only counts when `b`
    has the focus -/
def projCmd (b f : Nat) (c : MCmd) : Cmd :=
  { h := c.h, rule := if f = b then c.rule else fun _ => false, body := c.on b, out := c.out }

def projItem (b f : Nat) : MItem → Item
  | .cmd c => .cmd (projCmd b f c)
  | .kpReset => .kpReset
  | .cpr => .cpr
  | .ext b' g => if b' = b then .ext g else .cpr
  | .extFocus _ => .cpr

/-- where the focus is after an item -/
def focusAfter (f : Nat) : MItem → Nat
  | .cmd c => c.focus.getD f
  | .extFocus b => b
  | _ => f

def projItems (b : Nat) : Nat → List MItem → List Item
  | _, [] => []
  | f, it :: its => projItem b f it :: projItems b (focusAfter f it) its

theorem stepM_focus (m : MSt) (it : MItem) : (stepM m it).focus = focusAfter m.focus it := by
  cases it <;> rfl

theorem callHandlerM_proj (b : Nat) (o : Outcome) (h : Nat) (rule : Bool → Bool) (body : MBody) (m : MSt) :
    projK b (callHandlerM o h rule body m) =
      callHandlerO o h (if m.focus = b then rule else fun _ => false) (body.on b) (projK b m) := by
  unfold callHandlerM callHandlerO projK
  simp only []
  generalize decide (m.prev = some h) = rep
  by_cases hf : m.focus = b
  · subst hf
    cases hr : rule rep <;> simp [setBuf, hr]
  · have hf' : ¬ b = m.focus := fun e => hf e.symm
    cases rule rep <;> simp [setBuf, hf, hf']

/-- **stepM_proj.**  One item of the multi-buffer session, seen from buffer `b`, is exactly the projected
    item of the single-buffer model. -/
theorem stepM_proj (b : Nat) (m : MSt) (it : MItem) :
    projK b (stepM m it) = stepI (projK b m) (projItem b m.focus it) := by
  cases it with
  | kpReset => rfl
  | cpr => rfl
  | extFocus b' => rfl
  | ext b' g =>
    simp only [stepM, projItem, extEditM, projK, setBuf]
    by_cases hb : b' = b
    · subst hb; simp [stepI, extEdit]
    · have : ¬ b = b' := fun e => hb e.symm
      simp [hb, this, stepI, cprResponse]
  | cmd c => exact callHandlerM_proj b c.out c.h c.rule ⟨fun i => (c.on i).acts, c.focus⟩ m

/-- **runM_proj** (projection).  Buffer `b` of ANY multi-buffer session evolves exactly like the
    single-buffer session made of the projected items. -/
theorem runM_proj (b : Nat) (items : List MItem) (m : MSt) :
    projK b (runM items m) = runI (projItems b m.focus items) (projK b m) := by
  induction items generalizing m with
  | nil => rfl
  | cons it its ih =>
    show projK b (runM its (stepM m it)) = runI (projItems b (focusAfter m.focus it) its) (stepI (projK b m) (projItem b m.focus it))
    rw [ih (stepM m it), stepM_focus, stepM_proj]

theorem projK_mInit (b : Nat) (docs : Nat → Buf) (f : Nat) : projK b (mInit docs f) = kInit (docs b) := rfl

/-! ## per-buffer theorems -/

/-- the ghost log of buffer `b`: its (text, cursor) at every command boundary of the application, whichever
    buffer had the focus -/
def logOf (b : Nat) (items : List MItem) (docs : Nat → Buf) (f : Nat) : List Buf :=
  (runG (projItems b f items) (gInit (docs b))).log

/-- **multi_stack_sublist_log.**  In every multi-buffer session, the undo stack of EVERY buffer is a
    subsequence of the states that buffer really held at command boundaries, newest first; its redo
    entries are such states too. -/
theorem multi_stack_sublist_log (b : Nat) (items : List MItem) (docs : Nat → Buf) (f : Nat) :
    ((runM items (mInit docs f)).bufs b).undo.Sublist (logOf b items docs f) ∧
    ∀ r ∈ ((runM items (mInit docs f)).bufs b).redo, r ∈ logOf b items docs f := by
  have hp := runM_proj b items (mInit docs f)
  rw [projK_mInit] at hp
  have hk := runG_k (projItems b f items) (gInit (docs b))
  have hst : (runM items (mInit docs f)).bufs b = (runG (projItems b f items) (gInit (docs b))).k.st := by
    rw [hk]; exact congrArg KSt.st hp
  rw [hst]
  exact ⟨stack_sublist_log _ _, redo_mem_log _ _⟩

/-- **multi_undo_restores_logged.**  … and an undo on ANY buffer, at any point, either changes nothing or
    restores a (text, cursor) that buffer held at an earlier command boundary, with a different text. -/
theorem multi_undo_restores_logged (b : Nat) (items : List MItem) (docs : Nat → Buf) (f : Nat) :
    let s := (runM items (mInit docs f)).bufs b
    (undo s).buf = s.buf ∨ ((undo s).buf ∈ logOf b items docs f ∧ (undo s).buf.text ≠ s.buf.text) := by
  intro s
  have hp := runM_proj b items (mInit docs f)
  rw [projK_mInit] at hp
  have hk := runG_k (projItems b f items) (gInit (docs b))
  have hst : s = (runG (projItems b f items) (gInit (docs b))).k.st := by
    rw [hk]; exact congrArg KSt.st hp
  rw [hst]
  exact undo_restores_logged _ _

/-- **multi_undo_walks_back.**  Successive undos on any buffer walk its own log backwards. -/
theorem multi_undo_walks_back (b : Nat) (items : List MItem) (docs : Nat → Buf) (f : Nat) (n : Nat) :
    (undoTrace n ((runM items (mInit docs f)).bufs b)).Sublist (logOf b items docs f) := by
  have hp := runM_proj b items (mInit docs f)
  rw [projK_mInit] at hp
  have hk := runG_k (projItems b f items) (gInit (docs b))
  have hst : (runM items (mInit docs f)).bufs b = (runG (projItems b f items) (gInit (docs b))).k.st := by
    rw [hk]; exact congrArg KSt.st hp
  rw [hst]
  exact undo_walks_back _ _ n

/-- **multi_undo_reaches_initial.**  If, seen from buffer `b`, no item changes its text without a snapshot
    (`Disciplined` of the projection: edits of `b` by commands that started with the focus elsewhere count
    as unsaved), repeated undo on `b` reaches the text `b` started with. -/
theorem multi_undo_reaches_initial (b : Nat) (items : List MItem) (docs : Nat → Buf) (f : Nat)
    (hd : Disciplined (projItems b f items) (kInit (docs b))) (n : Nat)
    (hn : ((runM items (mInit docs f)).bufs b).undo.length ≤ n) :
    (undoN n ((runM items (mInit docs f)).bufs b)).buf.text = (docs b).text := by
  have hp := runM_proj b items (mInit docs f)
  rw [projK_mInit] at hp
  have hst : (runM items (mInit docs f)).bufs b = (runI (projItems b f items) (kInit (docs b))).st :=
    congrArg KSt.st hp
  rw [hst] at hn ⊢
  exact (undo_reaches_initial_disciplined _ _ hd n hn).1

/-- **multi_other_buffers_untouched.**  A command that neither has the focus on `b` when it starts nor calls
    `b` leaves text, cursor and both stacks of `b` exactly as they are. -/
theorem multi_other_buffers_untouched (b : Nat) (m : MSt) (c : MCmd) (hf : m.focus ≠ b)
    (hon : c.on b = .edit id) : (stepM m (.cmd c)).bufs b = m.bufs b := by
  have h := congrArg KSt.st (stepM_proj b m (.cmd c))
  simp only [projK] at h
  rw [h]
  simp [projItem, projCmd, stepI, stepK_eq, hf, hon, boundary, Body.run]

/-! ## the two typical flows -/

/-- incremental search, as the shipped bindings do it (buffer 0 = main, 1 = search buffer):
    `C-r` (default rule; saves the MAIN buffer, moves the focus to the search buffer), two typed characters
    (self-insert, grouped; they save the SEARCH buffer once), `Enter` (accept-search: default rule, saves the
    search buffer; `apply_search` moves the main buffer to the match — here another working line, i.e. another
    text —, the search buffer is reset, the focus returns), then `x` typed in the main buffer. -/
def searchFlow : List MItem :=
  [.cmd { h := 30, rule := fun _ => true, on := fun _ => .edit id, focus := some 1 },
   .cmd { h := 0, rule := fun rep => !rep, on := fun i => if i = 1 then .edit (insertText ['o']) else .edit id },
   .cmd { h := 0, rule := fun rep => !rep, on := fun i => if i = 1 then .edit (insertText ['l']) else .edit id },
   .cmd { h := 31, rule := fun _ => true, focus := some 0,
          on := fun i => if i = 0 then .edit (fun _ => { text := ['o', 'l', 'd'], cur := 0 })
                         else if i = 1 then .reset { text := [], cur := 0 } else .edit id },
   .cmd { h := 0, rule := fun rep => !rep, on := fun i => if i = 0 then .edit (insertText ['x']) else .edit id }]

/-- **search_flow_main_buffer.**  In that flow the main buffer is disciplined (the text change made by
    accept-search happens while the snapshot taken at `C-r` is on the stack and the redo stack is empty), its
    stack holds `new|` (saved at C-r) and `|old` (saved when `x` was typed), two undos reach the text it
    started with; the search buffer ends reset, with empty stacks. -/
theorem search_flow_main_buffer :
    let docs : Nat → Buf := fun i => if i = 0 then { text := ['n', 'e', 'w'], cur := 3 } else { text := [], cur := 0 }
    let m := runM searchFlow (mInit docs 0)
    Disciplined (projItems 0 0 searchFlow) (kInit (docs 0)) ∧
    (m.bufs 0).buf = { text := ['x', 'o', 'l', 'd'], cur := 1 } ∧
    (m.bufs 0).undo = [{ text := ['o', 'l', 'd'], cur := 0 }, { text := ['n', 'e', 'w'], cur := 3 }] ∧
    (undoN 2 (m.bufs 0)).buf = docs 0 ∧ (m.bufs 1) = reset { text := [], cur := 0 } ∧ m.focus = 0 := by
  intro docs m
  refine ⟨?_, by decide, by decide, by decide, by decide, by decide⟩
  simp only [searchFlow, projItems, projItem, projCmd, focusAfter, Option.getD, Disciplined, Item.Covered,
    Cmd.Covered, and_true]
  refine ⟨Or.inl rfl, Or.inr (Or.inr rfl), Or.inr (Or.inr rfl), Or.inr (Or.inl ?_), Or.inl ?_⟩
  · decide
  · decide

/-- **cross_buffer_repeat_loses_initial** (a limit of the design, shown on the model; replayed on the real
    code by `.work/c07/p2.py`-style applications with two `BufferControl`s).  `_previous_handler` belongs to
    the key processor, the snapshot to the focused buffer: when the focus moves to buffer 1 in the MIDDLE of a
    run of a grouped handler (a form whose `on_text_insert` callback advances to the next field) the
    following characters are repeats, nothing of buffer 1 is ever saved, and no undo can bring back the text
    buffer 1 started with.  (With a motion key or any other command in between, the first character typed
    into buffer 1 saves it: `multi_undo_reaches_initial` applies.) -/
theorem cross_buffer_repeat_loses_initial :
    let docs : Nat → Buf := fun i => if i = 1 then { text := ['z', 'z'], cur := 2 } else { text := [], cur := 0 }
    let typ (c : Char) (foc : Option Nat) (tgt : Nat) : MItem :=
      .cmd { h := 0, rule := fun rep => !rep, focus := foc,
             on := fun i => if i = tgt then .edit (insertText [c]) else .edit id }
    let bad := runM [typ '1' none 0, typ '2' (some 1) 0, typ '3' none 1, typ '4' none 1] (mInit docs 0)
    let ok := runM [typ '1' none 0, typ '2' none 0, .cmd { h := 40, rule := fun _ => true, on := fun _ => .edit id, focus := some 1 },
                    typ '3' none 1, typ '4' none 1] (mInit docs 0)
    (bad.bufs 1).buf.text = ['z', 'z', '3', '4'] ∧ (bad.bufs 1).undo = [] ∧
      (undoN 3 (bad.bufs 1)).buf.text ≠ (docs 1).text ∧
    (ok.bufs 1).buf.text = ['z', 'z', '3', '4'] ∧ (undoN 1 (ok.bufs 1)).buf = docs 1 := by
  decide

end Ptk.C07
