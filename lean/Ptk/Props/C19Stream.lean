/-
  C19 — escape sequences inside a STREAM: every sequence the encoder emits starts with the reset
  parameter `0`, so in `ANSI(e1 + c1 + e2 + c2 + …)` each fragment is styled by ITS OWN attributes,
  whatever was emitted before (no decoder state leaks from one sequence into the next), and the
  exclusion rule of the 4-bit depth: an RGB background never collapses onto the ANSI colour chosen
  for a different RGB foreground.
-/
import Ptk.Props.C19Sgr
import Ptk.Props.C19Depth
namespace Ptk.C19
open Ptk.Py

/-- a character that `ANSI` takes literally when it is in the ground state -/
def Literal (x : Char) : Prop := x ≠ Char.ofNat 27 ∧ x ≠ Char.ofNat 155 ∧ x ≠ Char.ofNat 1
instance (x : Char) : Decidable (Literal x) := by unfold Literal; infer_instance

/-- one emitted sequence followed by a literal character, read from ANY parser state that is in the
    ground mode: exactly one fragment is appended, styled by the decoder state reached from the
    parameters `0;codes` -/
theorem fold_renderEscape (T : Tables) (codes : List Nat) (hb : ∀ c ∈ codes, c ≤ 9999) (x : Char)
    (hx : Literal x) (p : PSt) (hp : p.mode = .ground) :
    (renderEscape codes ++ [x]).foldl (pstep T) p =
      { mode := .ground,
        sgr := selectGraphicRendition T p.sgr (0 :: codes),
        style := styleString (selectGraphicRendition T p.sgr (0 :: codes)),
        out := p.out ++ [(styleString (selectGraphicRendition T p.sgr (0 :: codes)), [x])] } := by
  rw [renderEscape_eq]
  simp only [List.append_assoc, List.foldl_append]
  have h0 : [Char.ofNat 27, '['].foldl (pstep T) p = { p with mode := .csi [] [] } := by
    simp [pstep, checkCsi, hp]
  rw [h0]
  have := pstep_params T (0 :: codes) (by simp) { p with mode := .csi [] [] } [] rfl
  simp only [List.foldl_append] at this
  rw [this]
  have hmap' : ∀ (cs : List Nat), (∀ c ∈ cs, c ≤ 9999) → cs.map (min · 9999) = cs := by
    intro cs hcs
    induction cs with
    | nil => rfl
    | cons c cs ih =>
      simp only [List.map_cons]
      rw [ih (fun c hc => hcs c (by simp [hc]))]
      have := hcs c (by simp)
      congr 1; omega
  have hmap : (0 :: codes).map (min · 9999) = 0 :: codes := by
    simp only [List.map_cons, hmap' codes hb]
    rfl
  rw [hmap]
  simp [pstep, checkCsi, hx.1, hx.2.1, hx.2.2]

/-- the text of a stream: each item's escape code followed by its character -/
def streamText (T : Tables) (sp : Char → Bool) (depth : Depth) (items : List (Attrs × Char)) : Text :=
  items.flatMap fun it => escapeCode T sp depth it.1 ++ [it.2]

/-- **Streams decode item by item (any depth, given what one sequence decodes to).**  If at this depth
    the parameters emitted for `a` drive the decoder from ANY state to `dec a`, then a stream of
    emitted sequences, each followed by a literal character, is parsed into one fragment per item,
    styled by `dec` of that item's attributes alone. -/
theorem stream_fold (T : Tables) (sp : Char → Bool) (depth : Depth) (dec : Attrs → Sgr)
    (items : List (Attrs × Char))
    (hdec : ∀ it ∈ items, ∀ st0, selectGraphicRendition T st0 (0 :: sgrCodes T sp depth it.1) = dec it.1)
    (hb : ∀ it ∈ items, ∀ c ∈ sgrCodes T sp depth it.1, c ≤ 9999) (hl : ∀ it ∈ items, Literal it.2)
    (p : PSt) (hp : p.mode = .ground) :
    ((streamText T sp depth items).foldl (pstep T) p).out =
      p.out ++ items.map fun it => (styleString (dec it.1), [it.2]) := by
  induction items generalizing p with
  | nil => simp [streamText]
  | cons it rest ih =>
    have e : streamText T sp depth (it :: rest) =
        (renderEscape (sgrCodes T sp depth it.1) ++ [it.2]) ++ streamText T sp depth rest := by
      simp [streamText, escapeCode]
    rw [e, List.foldl_append,
      fold_renderEscape T _ (hb it (by simp)) it.2 (hl it (by simp)) p hp,
      hdec it (by simp) p.sgr]
    rw [ih (fun x hx => hdec x (by simp [hx])) (fun x hx => hb x (by simp [hx]))
      (fun x hx => hl x (by simp [hx])) _ rfl]
    simp

/-- **C19-ab (24-bit streams).**  `ANSI(e(a1) + c1 + e(a2) + c2 + …)` with the 24-bit escape codes of
    valid attributes is exactly `[(style(a1), c1), (style(a2), c2), …]`. -/
theorem stream_decodes_24bit (T : Tables) (hT : EncDecOk T) (hB : CodesBounded T) (sp : Char → Bool)
    (hsp : SpOk sp) (items : List (Attrs × Char)) (hv : ∀ it ∈ items, ValidAttrs T it.1)
    (hl : ∀ it ∈ items, Literal it.2) :
    ansiFragments T (streamText T sp .d24 items) =
      items.map fun it => (styleString (sgrOf T it.1), [it.2]) := by
  unfold ansiFragments
  rw [stream_fold T sp .d24 (sgrOf T) items
    (fun it hit st0 => sgr_roundtrip_24bit T hT sp hsp it.1 (hv it hit) st0)
    (fun it hit => sgrCodes_d24_bound T hT hB sp hsp it.1 (hv it hit)) hl {} rfl]
  simp

/-! ### the exclusion rule of the 16-colour map -/

/-- the 16-colour search never returns an excluded name (it returns 'ansidefault' when nothing is
    admissible) -/
theorem closest16_not_excluded (tbl : List (Text × RGB)) (c : RGB) (ex : List Text) :
    closest16 tbl c ex = "ansidefault".toList ∨ closest16 tbl c ex ∉ ex := by
  rw [closest16_eq]
  rcases argmin_keyed (dist c) (tbl.filter (allowed16 c ex)) ("ansidefault".toList, infinity) with
    ⟨h1, _⟩ | ⟨pre, kx, post, hl, hres, _⟩
  · left; rw [h1]
  · right
    rw [hres]
    have : kx ∈ tbl.filter (allowed16 c ex) := by rw [hl]; simp
    have ha := (List.mem_filter.mp this).2
    unfold allowed16 exclude16 at ha
    simp only [Bool.and_eq_true, Bool.not_eq_true', bne_iff_ne, ne_eq] at ha
    intro hmem
    have hc : (if saturation c > 30 then
        ex ++ ["ansilightgray".toList, "ansidarkgray".toList, "ansiwhite".toList, "ansiblack".toList]
        else ex).contains kx.1 = true := by
      split <;> simp [hmem]
    rw [hc] at ha
    exact absurd ha.2 (by simp)

/-- … and a name it does return is admissible, in particular not 'ansidefault', as soon as one
    admissible table entry exists -/
theorem closest16_ne_default (tbl : List (Text × RGB)) (c : RGB) (ex : List Text)
    (np0 : Text × RGB) (h0 : np0 ∈ tbl) (ha0 : allowed16 c ex np0 = true) (hlt : dist c np0.2 < infinity) :
    closest16 tbl c ex ≠ "ansidefault".toList := by
  obtain ⟨pre, pm, post, _, ha, _⟩ := closest16_nearest tbl c ex np0 h0 ha0 hlt
  unfold allowed16 at ha
  simp only [Bool.and_eq_true, bne_iff_ne, ne_eq] at ha
  exact ha.1

end Ptk.C19
