/-
  C12 — alignment and padding (`HSplit._all_children` / `VSplit._all_children`): what the split
  really divides, stated in terms of the USER's children.

  * `allChildren_structure`: `filler? c₁ pad c₂ … pad cₙ filler?` — children in their listed
    order, exactly one padding window between two neighbours, fillers only at the two ends and
    only for the alignments that ask for them;
  * `divide_allChildren_tooSmall_iff`: 'too small' iff the children's minimums plus (n−1)
    padding minimums do not fit (for every alignment);
  * `children_in_order`: in the drawn layout, child k+1 starts exactly where child k ends plus
    the padding between them.
-/
import Ptk.Props.C12Fuel
import Ptk.Props.C12Dim
namespace Ptk.C12

theorem intersperse_getElem? (p : Dim) : ∀ (cs : List Dim) (k : Nat),
    (cs.intersperse p)[2 * k]? = cs[k]? ∧
    (k + 1 < cs.length → (cs.intersperse p)[2 * k + 1]? = some p) := by
  intro cs
  induction cs with
  | nil => intro k; simp
  | cons c cs ih =>
    intro k
    cases cs with
    | nil =>
      cases k with
      | zero => simp
      | succ k => simp
    | cons c2 cs =>
      rw [List.intersperse_cons_cons]
      cases k with
      | zero => simp
      | succ k =>
        have := ih k
        have e1 : 2 * (k + 1) = 2 * k + 1 + 1 := by ring
        have e2 : 2 * (k + 1) + 1 = 2 * k + 1 + 1 + 1 := by ring
        rw [e1]
        simp only [List.getElem?_cons_succ, List.length_cons] at this ⊢
        exact ⟨this.1, fun h => this.2 (by omega)⟩

theorem intersperse_length (p : Dim) : ∀ (cs : List Dim), cs ≠ [] →
    (cs.intersperse p).length = 2 * cs.length - 1 := by
  intro cs
  induction cs with
  | nil => intro h; exact absurd rfl h
  | cons c cs ih =>
    intro _
    cases cs with
    | nil => rfl
    | cons c2 cs =>
      have := ih (by simp)
      rw [List.intersperse_cons_cons]
      simp only [List.length_cons] at this ⊢
      omega


/-! ### `_all_children`: children in their listed order, one padding between neighbours,
    fillers only at the two ends -/

theorem flatMap_dropLast_intersperse (p : Dim) : ∀ (cs : List Dim), cs ≠ [] →
    (cs.flatMap fun c => [c, p]).dropLast = cs.intersperse p := by
  intro cs
  induction cs with
  | nil => intro h; exact absurd rfl h
  | cons c cs ih =>
    intro _
    cases cs with
    | nil => rfl
    | cons c2 cs =>
      have := ih (by simp)
      simp only [List.flatMap_cons, List.cons_append, List.nil_append] at this ⊢
      rw [List.intersperse_cons_cons]
      simp only [List.dropLast_cons_cons] at this ⊢
      rw [← this]

/-- leading / trailing filler of an alignment -/
def preFill (al : Align) (filler : Dim) : List Dim := if al = .center ∨ al = .stop then [filler] else []
def postFill (al : Align) (filler : Dim) : List Dim := if al = .center ∨ al = .start then [filler] else []

/-- **Structure of `_all_children`**: for a non-empty list of children, the split divides
    `filler? c₁ pad c₂ pad … cₙ filler?` — the children in their listed order, exactly one padding
    window between two neighbours, a filler in front for CENTER and BOTTOM/RIGHT, a filler behind
    for CENTER and TOP/LEFT, none for JUSTIFY. -/
theorem allChildren_structure (al : Align) (filler pad : Dim) {cs : List Dim} (hne : cs ≠ []) :
    allChildren al filler pad cs = preFill al filler ++ cs.intersperse pad ++ postFill al filler := by
  unfold allChildren preFill postFill
  simp only
  congr 1
  have hf : (cs.flatMap fun c => [c, pad]) ≠ [] := by
    cases cs with
    | nil => exact absurd rfl hne
    | cons c cs => simp
  rw [List.dropLast_append_of_ne_nil hf, flatMap_dropLast_intersperse pad cs hne]

/-- without children: only the trailing filler survives (`if result: result.pop()` removes a
    leading one) -/
theorem allChildren_nil (al : Align) (filler pad : Dim) :
    allChildren al filler pad [] = postFill al filler := by
  unfold allChildren postFill
  cases al <;> simp

theorem sumOf_intersperse (f : Dim → Nat) (p : Dim) : ∀ (cs : List Dim), cs ≠ [] →
    sumOf f (cs.intersperse p) = sumOf f cs + (cs.length - 1) * f p := by
  intro cs
  induction cs with
  | nil => intro h; exact absurd rfl h
  | cons c cs ih =>
    intro _
    cases cs with
    | nil => simp [sumOf]
    | cons c2 cs =>
      have := ih (by simp)
      rw [List.intersperse_cons_cons]
      unfold sumOf at this ⊢
      simp only [List.map_cons, List.sum_cons, List.length_cons] at this ⊢
      rw [this]
      have : (cs.length + 1 + 1 - 1) * f p = (cs.length + 1 - 1) * f p + f p := by
        simp only [Nat.add_sub_cancel]; ring
      omega

/-- **Too small, in terms of the user's children**: with fillers of minimum 0, the split reports
    'too small' exactly when the children's minimums plus one padding minimum between each two
    neighbours exceed the available size — for every alignment. -/
theorem divide_allChildren_tooSmall_iff {al : Align} {filler pad : Dim} {cs : List Dim}
    (hf : filler.Valid) (hp : pad.Valid) (hc : ValidDims cs) (hne : cs ≠ []) (hf0 : filler.min = 0)
    (F avail : Nat) (toMax : Bool) :
    divide F (allChildren al filler pad cs) avail toMax = .tooSmall ↔
      avail < sumOf (·.min) cs + (cs.length - 1) * pad.min := by
  rw [tooSmall_iff (allChildren_valid hf hp hc) F avail toMax, allChildren_structure al filler pad hne,
    sumOf_append, sumOf_append, sumOf_intersperse _ pad cs hne]
  have h1 : sumOf (·.min) (preFill al filler) = 0 := by
    unfold preFill; split_ifs <;> simp [sumOf, hf0]
  have h2 : sumOf (·.min) (postFill al filler) = 0 := by
    unfold postFill; split_ifs <;> simp [sumOf, hf0]
  rw [h1, h2]
  simp

example : allChildren .center ⟨0, 0, 9, 1⟩ ⟨1, 1, 1, 1⟩ [⟨2, 2, 2, 1⟩, ⟨3, 3, 3, 1⟩]
    = [⟨0, 0, 9, 1⟩, ⟨2, 2, 2, 1⟩, ⟨1, 1, 1, 1⟩, ⟨3, 3, 3, 1⟩, ⟨0, 0, 9, 1⟩] := by decide


/-! ### where the user's children sit in `_all_children` and on the screen -/

theorem preFill_length_le (al : Align) (filler : Dim) : (preFill al filler).length ≤ 1 := by
  unfold preFill; split_ifs <;> simp

theorem allChildren_child (al : Align) (filler pad : Dim) {cs : List Dim} (hne : cs ≠ [])
    (k : Nat) (hk : k < cs.length) :
    (allChildren al filler pad cs)[(preFill al filler).length + 2 * k]? = cs[k]? := by
  rw [allChildren_structure al filler pad hne, List.append_assoc,
    List.getElem?_append_right (by omega), Nat.add_sub_cancel_left,
    List.getElem?_append_left (by rw [intersperse_length pad cs hne]; omega)]
  exact (intersperse_getElem? pad cs k).1

theorem allChildren_pad (al : Align) (filler pad : Dim) {cs : List Dim} (hne : cs ≠ [])
    (k : Nat) (hk : k + 1 < cs.length) :
    (allChildren al filler pad cs)[(preFill al filler).length + 2 * k + 1]? = some pad := by
  rw [allChildren_structure al filler pad hne, List.append_assoc,
    List.getElem?_append_right (by omega),
    show (preFill al filler).length + 2 * k + 1 - (preFill al filler).length = 2 * k + 1 by omega,
    List.getElem?_append_left (by rw [intersperse_length pad cs hne]; omega)]
  exact (intersperse_getElem? pad cs k).2 hk

theorem allChildren_length (al : Align) (filler pad : Dim) {cs : List Dim} (hne : cs ≠ []) :
    (allChildren al filler pad cs).length
      = (preFill al filler).length + (2 * cs.length - 1) + (postFill al filler).length := by
  rw [allChildren_structure al filler pad hne]
  simp only [List.length_append, intersperse_length pad cs hne]

/-- **Listed order on the screen**: in the layout of a split, the region of child `k + 1` starts
    where the region of child `k` ends plus the size given to the padding window between them —
    adjacent, disjoint, in the order of `children`. -/
theorem children_in_order (al : Align) (filler pad : Dim) {cs : List Dim} (hne : cs ≠ [])
    {start avail : Nat} {sizes : List Nat}
    (hl : sizes.length = (allChildren al filler pad cs).length) (hfit : sizes.sum ≤ avail)
    (k : Nat) (hk : k + 1 < cs.length) :
    let o := (preFill al filler).length
    let regs := (layout start avail sizes).1
    (regs.getD (o + 2 * (k + 1)) (0, 0)).1
      = (regs.getD (o + 2 * k) (0, 0)).1 + (regs.getD (o + 2 * k) (0, 0)).2
        + (regs.getD (o + 2 * k + 1) (0, 0)).2 := by
  intro o regs
  have hlen := allChildren_length al filler pad hne
  obtain ⟨_, _, hadj, _⟩ := layout_adjacent start avail sizes hfit
  have h1 := hadj (o + 2 * k) (by rw [hl, hlen]; omega)
  have h2 := hadj (o + 2 * k + 1) (by rw [hl, hlen]; omega)
  have e : o + 2 * (k + 1) = o + 2 * k + 1 + 1 := by ring
  show ((layout start avail sizes).1.getD (o + 2 * (k + 1)) (0, 0)).1 = _
  rw [e, h2, h1]

example : (layout 0 12 [1, 3, 1, 4, 3]).1 = [(0, 1), (1, 3), (4, 1), (5, 4), (9, 3)] := by decide

end Ptk.C12
