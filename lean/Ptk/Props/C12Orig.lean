/-
  C12 — the original (pre-fix) divide loops: the reported defect as a theorem, and the proof
  that the fix does not change the result for positive weights.
-/
import Ptk.Model.C12Orig
import Ptk.Props.C12
namespace Ptk.C12

/-! ### the defect F4: the original loops never finish on the witness -/

/-- the generator of the witness: only child 1 has a positive weight -/
theorem witness_gen_wf : (Gen.init [0, 1] [0, 1]).WF ∧ (Gen.init [0, 1] [0, 1]).items = [1] := by
  refine ⟨⟨rfl, rfl, by decide, by decide, ?_⟩, rfl⟩
  intro k hk
  have : k = 0 := by simpa [Gen.init] using hk
  subst this
  decide

/-- Once only child 1 is ever offered and child 0 (weight 0) still has to grow, the loop
    condition `sum(sizes) < stop` stays true forever. -/
theorem growLoopOrig_stuck (limits : List Nat) (stop nf : Nat) :
    ∀ (f : Nat) (b : Nat) (g : Gen), g.WF → g.items = [1] → b ≤ limits.getD 1 0 →
      limits.getD 1 0 < stop →
      growLoopOrig limits stop nf f [0, b] 1 g = none := by
  intro f
  induction f with
  | zero =>
    intro b g _ _ hb hs
    unfold growLoopOrig
    rw [if_pos (by simp; omega)]
  | succ f ih =>
    intro b g hwf hit hb hs
    unfold growLoopOrig
    rw [if_pos (by simp; omega)]
    rcases hn : g.next? nf with _ | ⟨i', g'⟩
    · rfl
    · simp only
      obtain ⟨hwf', hit', _, _, hmem⟩ := Gen.next?_spec hwf hn
      rw [hit] at hmem
      have hi : i' = 1 := by simpa using hmem
      subst hi
      by_cases hlt : b < limits.getD 1 0
      · have : bump [0, b] limits 1 = [0, b + 1] := by
          unfold bump
          rw [if_pos (show ([0, b] : List Nat).getD 1 0 < limits.getD 1 0 from hlt)]
          rfl
        rw [this]
        exact ih (b + 1) g' hwf' (by rw [hit', hit]) (by omega) hs
      · have : bump [0, b] limits 1 = [0, b] := by
          unfold bump
          rw [if_neg (show ¬ ([0, b] : List Nat).getD 1 0 < limits.getD 1 0 from hlt)]
        rw [this]
        exact ih b g' hwf' (by rw [hit', hit]) hb hs

/-- **F4 as a theorem**: on `[Dimension(preferred=5, weight=0), Dimension(preferred=5, weight=1)]`
    with 10 available rows the original code does not finish for ANY amount of fuel — the
    first loop waits for `sum(sizes)` to reach 10 while the only child it is ever offered is
    full at 5.  (The fixed `divide` answers `[5, 5]`, see `Ptk.Props.C12`.) -/
theorem orig_hangs_witness (F : Nat) :
    divideOrig F [⟨0, 5, Gen.C12.defaultMax, 0⟩, ⟨0, 5, Gen.C12.defaultMax, 1⟩] 10 true = .hang := by
  have hv : ValidDims [⟨0, 5, Gen.C12.defaultMax, 0⟩, ⟨0, 5, Gen.C12.defaultMax, 1⟩] := by
    intro d hd
    simp only [List.mem_cons, List.not_mem_nil, or_false] at hd
    rcases hd with rfl | rfl <;> (simp only [Dim.Valid]; decide)
  unfold divideOrig
  rw [sumDims_eq hv]
  simp only
  rw [if_neg (by decide)]
  have hg : Gen.init (List.range [(⟨0, 5, Gen.C12.defaultMax, 0⟩ : Dim), ⟨0, 5, Gen.C12.defaultMax, 1⟩].length)
      (List.map (fun x => x.weight) [(⟨0, 5, Gen.C12.defaultMax, 0⟩ : Dim), ⟨0, 5, Gen.C12.defaultMax, 1⟩])
      = Gen.init [0, 1] [0, 1] := by decide
  rw [hg, if_neg (by decide)]
  rcases hn : (Gen.init [0, 1] [0, 1]).next? F with _ | ⟨i, g⟩
  · rfl
  · simp only
    obtain ⟨hwf', hit', _, _, hmem⟩ := Gen.next?_spec witness_gen_wf.1 hn
    rw [witness_gen_wf.2] at hmem hit'
    have hi : i = 1 := by simpa using hmem
    subst hi
    have := growLoopOrig_stuck
      (List.map (fun x => x.pref) [(⟨0, 5, Gen.C12.defaultMax, 0⟩ : Dim), ⟨0, 5, Gen.C12.defaultMax, 1⟩])
      (Nat.min 10 (sumOf (fun x => x.pref) [(⟨0, 5, Gen.C12.defaultMax, 0⟩ : Dim), ⟨0, 5, Gen.C12.defaultMax, 1⟩]))
      F F 0 g hwf' hit' (by decide) (by decide)
    have hmins : List.map (fun x => x.min) [(⟨0, 5, Gen.C12.defaultMax, 0⟩ : Dim), ⟨0, 5, Gen.C12.defaultMax, 1⟩]
        = [0, 0] := rfl
    rw [hmins, this]

/-- with no positive weight at all the original code raised `ValueError` -/
example : divideOrig 50 [⟨0, 0, 0, 0⟩] 0 true = .error := by decide +kernel
/-- ... and on positive weights it worked -/
example : divideOrig 50 [⟨0, 5, 9, 2⟩, ⟨0, 5, 9, 1⟩] 7 true = .ok [5, 2] := by decide +kernel
example : divide 50 [⟨0, 5, 9, 2⟩, ⟨0, 5, 9, 1⟩] 7 true = .ok [5, 2] := by decide +kernel

/-! ### the fix preserves the behaviour for positive weights -/

/-- The original loop (child fetched ahead) and the fixed loop (child fetched at the start of the
    iteration) consume the same stream: if the original loop, holding the prefetched child `i`,
    finishes, the fixed loop started one `next` earlier finishes with the same sizes, one `next`
    behind. -/
theorem growLoop_of_orig (limits : List Nat) (stop nf : Nat) :
    ∀ (f : Nat) (sizes : List Nat) (i : Nat) (g g' : Gen) (s' : List Nat) (i'' : Nat) (g'' : Gen),
      g.next? nf = some (i, g') →
      growLoopOrig limits stop nf f sizes i g' = some (s', i'', g'') →
      ∃ gp, growLoop limits stop nf f sizes g = some (s', gp) ∧ gp.next? nf = some (i'', g'') := by
  intro f
  induction f with
  | zero =>
    intro sizes i g g' s' i'' g'' hn h
    unfold growLoopOrig at h
    unfold growLoop
    by_cases hlt : sizes.sum < stop
    · rw [if_pos hlt] at h; cases h
    · rw [if_neg hlt] at h ⊢
      simp only [Option.some.injEq, Prod.mk.injEq] at h
      obtain ⟨rfl, rfl, rfl⟩ := h
      exact ⟨g, rfl, hn⟩
  | succ f ih =>
    intro sizes i g g' s' i'' g'' hn h
    unfold growLoopOrig at h
    unfold growLoop
    by_cases hlt : sizes.sum < stop
    · rw [if_pos hlt] at h ⊢
      rw [hn]
      simp only
      rcases hn' : g'.next? nf with _ | ⟨i2, g2⟩
      · rw [hn'] at h; cases h
      · rw [hn'] at h
        simp only at h
        exact ih (bump sizes limits i) i2 g' g2 s' i'' g'' hn' h
    · rw [if_neg hlt] at h ⊢
      simp only [Option.some.injEq, Prod.mk.injEq] at h
      obtain ⟨rfl, rfl, rfl⟩ := h
      exact ⟨g, rfl, hn⟩

theorem range_map_getD_pos {W : List Nat} (hpos : ∀ w ∈ W, 0 < w) :
    (List.range W.length).map (fun i => if W.getD i 0 = 0 then 1 else W.getD i 0) = W := by
  apply List.ext_getElem
  · simp
  · intro i h1 h2
    have hi : i < W.length := h2
    simp only [List.getElem_map, List.getElem_range]
    rw [List.getD_eq_getElem?_getD]
    simp only [hi, List.getElem?_eq_getElem, Option.getD_some]
    have := hpos W[i] (List.getElem_mem hi)
    rw [if_neg (by omega)]

/-- with positive weights there is exactly one group: all children, with their own weights -/
theorem childGenerators_pos {dims : List Dim} (hne : dims ≠ []) (hpos : ∀ d ∈ dims, 0 < d.weight) :
    childGenerators dims =
      [(List.range dims.length, Gen.init (List.range dims.length) (dims.map (·.weight)))] := by
  have hW : ∀ w ∈ dims.map (·.weight), 0 < w := by
    intro w hw
    obtain ⟨d, hd, rfl⟩ := List.mem_map.mp hw
    exact hpos d hd
  have hget : ∀ i, i < dims.length → 0 < (dims.map (·.weight)).getD i 0 := by
    intro i hi
    rw [map_getD_lt _ _ hi]
    exact hpos _ (List.getElem_mem hi)
  have ht : groupIdx (dims.map (·.weight)) true = List.range dims.length := by
    unfold groupIdx
    simp only [List.length_map]
    rw [List.filter_eq_self]
    intro i hi
    have := hget i (List.mem_range.mp hi)
    simp only [gt_iff_lt, this, decide_true]
    rfl
  have hf : groupIdx (dims.map (·.weight)) false = [] := by
    unfold groupIdx
    simp only [List.length_map]
    rw [List.filter_eq_nil_iff]
    intro i hi
    have := hget i (List.mem_range.mp hi)
    simp only [gt_iff_lt, this, decide_true]
    decide
  have hr : List.range dims.length ≠ [] := by
    intro h
    have : (List.range dims.length).length = 0 := by rw [h]; rfl
    rw [List.length_range] at this
    exact hne (List.length_eq_zero_iff.mp this)
  rw [childGenerators_eq, ht, hf, if_neg hr, if_pos rfl]
  unfold mkGroupGen
  have := range_map_getD_pos hW
  simp only [List.length_map] at this
  rw [this]
  rfl

/-- **The fix does not change what positive weights compute**: whenever the original code
    returned sizes for children that all have a positive weight, the fixed code returns the same
    sizes (with the same fuel). -/
theorem fix_preserves_positive {dims : List Dim} (hv : ValidDims dims) (hne : dims ≠ [])
    (hpos : ∀ d ∈ dims, 0 < d.weight) {F avail : Nat} {toMax : Bool} {sizes : List Nat}
    (h : divideOrig F dims avail toMax = .ok sizes) : divide F dims avail toMax = .ok sizes := by
  have hmp : sumOf (·.min) dims ≤ sumOf (·.pref) dims := sumOf_le fun d hd => (hv d hd).1
  have hpm : sumOf (·.pref) dims ≤ sumOf (·.max) dims := sumOf_le fun d hd => (hv d hd).2
  have col_mp : ∀ i, (dims.map (·.min)).getD i 0 ≤ (dims.map (·.pref)).getD i 0 := by
    intro i
    by_cases hi : i < dims.length
    · rw [map_getD_lt _ _ hi, map_getD_lt _ _ hi]; exact (hv _ (List.getElem_mem hi)).1
    · rw [map_getD_ge _ _ (by omega), map_getD_ge _ _ (by omega)]
  have col_pm : ∀ i, (dims.map (·.pref)).getD i 0 ≤ (dims.map (·.max)).getD i 0 := by
    intro i
    by_cases hi : i < dims.length
    · rw [map_getD_lt _ _ hi, map_getD_lt _ _ hi]; exact (hv _ (List.getElem_mem hi)).2
    · rw [map_getD_ge _ _ (by omega), map_getD_ge _ _ (by omega)]
  have hW : ∀ w ∈ dims.map (·.weight), 0 < w := by
    intro w hw
    obtain ⟨d, hd, rfl⟩ := List.mem_map.mp hw
    exact hpos d hd
  have hr : List.range dims.length ≠ [] := by
    intro h
    have : (List.range dims.length).length = 0 := by rw [h]; rfl
    rw [List.length_range] at this
    exact hne (List.length_eq_zero_iff.mp this)
  obtain ⟨hwf0, hit0⟩ := Gen.init_ok (items := List.range dims.length)
    (weights := dims.map (·.weight)) (by simp) hW hr
  unfold divideOrig at h
  unfold divide
  rw [sumDims_eq hv] at h ⊢
  simp only at h ⊢
  by_cases hsmall : sumOf (·.min) dims > avail
  · rw [if_pos hsmall] at h; cases h
  rw [if_neg hsmall] at h ⊢
  by_cases hemp : (Gen.init (List.range dims.length) (dims.map (·.weight))).ws.isEmpty = true
  · rw [if_pos hemp] at h; cases h
  rw [if_neg hemp] at h
  rcases hn0 : (Gen.init (List.range dims.length) (dims.map (·.weight))).next? F with _ | ⟨i0, g1⟩
  · rw [hn0] at h; cases h
  rw [hn0] at h
  simp only at h
  rcases h1 : growLoopOrig (dims.map (·.pref)) (Nat.min avail (sumOf (·.pref) dims)) F F
      (dims.map (·.min)) i0 g1 with _ | ⟨s1, i1, g2⟩
  · rw [h1] at h; cases h
  rw [h1] at h
  simp only at h
  obtain ⟨gp1, hf1, hnp1⟩ := growLoop_of_orig _ _ F F _ i0 _ g1 s1 i1 g2 hn0 h1
  -- phase 1 of the fixed code: one group, its stop value is the stop value
  have e1 : (dims.map (·.min)).sum = sumOf (·.min) dims := rfl
  have e2 : (dims.map (·.pref)).sum = sumOf (·.pref) dims := rfl
  have e3 : (dims.map (·.max)).sum = sumOf (·.max) dims := rfl
  have hcap1 := range_cap_sum (dims.map (·.min)) (dims.map (·.pref)) (by simp) col_mp
  simp only [List.length_map] at hcap1
  have hg1 : Nat.min (Nat.min avail (sumOf (·.pref) dims))
      ((dims.map (·.min)).sum + capOf (dims.map (·.min)) (dims.map (·.pref)) (List.range dims.length))
      = Nat.min avail (sumOf (·.pref) dims) := by
    unfold capOf
    simp only [Nat.min_def]; split_ifs <;> omega
  have hstop1 : (dims.map (·.min)).sum ≤ Nat.min avail (sumOf (·.pref) dims) := by
    rw [e1]; simp only [Nat.min_def]; split_ifs <;> omega
  obtain ⟨hwf1, _, _, len1, sum1, _, le1, _⟩ :=
    growLoop_spec _ _ F F _ _ s1 gp1 hwf0 hstop1 hf1
  rw [childGenerators_pos hne hpos]
  unfold growSizes
  simp only
  rw [hg1, hf1]
  simp only [growSizes]
  unfold phase2Orig at h
  unfold phase2
  cases toMax with
  | false => simpa using h
  | true =>
    simp only [if_true] at h ⊢
    rcases h2 : growLoopOrig (dims.map (·.max)) (Nat.min avail (sumOf (·.max) dims)) F F s1 i1 g2
      with _ | ⟨s2, i2, g3⟩
    · rw [h2] at h; cases h
    rw [h2] at h
    simp only [Outcome.ok.injEq] at h
    subst h
    obtain ⟨gp2, hf2, _⟩ := growLoop_of_orig _ _ F F _ i1 _ g2 s2 i2 g3 hnp1 h2
    have s1_le_max : ∀ i, s1.getD i 0 ≤ (dims.map (·.max)).getD i 0 := by
      intro i; have := le1 i; have := col_mp i; have := col_pm i; omega
    simp only [List.length_map] at len1
    have hcap2 := range_cap_sum s1 (dims.map (·.max)) (by simp [len1]) s1_le_max
    rw [len1] at hcap2
    have hg2 : Nat.min (Nat.min avail (sumOf (·.max) dims))
        (s1.sum + capOf s1 (dims.map (·.max)) (List.range dims.length))
        = Nat.min avail (sumOf (·.max) dims) := by
      unfold capOf
      simp only [Nat.min_def]; split_ifs <;> omega
    unfold growSizes
    simp only
    rw [hg2, hf2]
    simp [growSizes]

/-- non-vacuity: an all-positive instance where both versions run (and agree) -/
example : divideOrig 60 [⟨1, 3, 6, 3⟩, ⟨0, 2, 4, 1⟩, ⟨0, 0, 0, 1⟩] 8 true
    = divide 60 [⟨1, 3, 6, 3⟩, ⟨0, 2, 4, 1⟩, ⟨0, 0, 0, 1⟩] 8 true := by decide +kernel

end Ptk.C12
