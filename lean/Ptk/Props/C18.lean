/-
  C18 — theorems about the formatted-text model (Ptk.Model.C18).
-/
import Ptk.Model.C18
import Ptk.Props.C18Frag
namespace Ptk.C18
open Ptk.Py

/-! ## 2. ANSI parser -/

/-- a text that contains none of the characters the parser treats specially -/
def Inert (t : Text) : Prop := ∀ c ∈ t, c ≠ ESC ∧ c ≠ CSI8 ∧ c ≠ SOH ∧ c ≠ STX

/-- `t` as one single-character fragment per character, all in `style` -/
def plainFrags (style : Text) (t : Text) : Frags := t.map fun c => { style := style, text := [c] }

theorem ansiEscape_inert (v : Text) : Inert (ansiEscape v) := by
  intro c hc
  simp only [ansiEscape, List.mem_map] at hc
  obtain ⟨a, _, rfl⟩ := hc
  split
  · decide
  · rename_i h; simp only [not_or] at h
    exact ⟨h.1, h.2.1, h.2.2.1, h.2.2.2.1⟩

theorem run_append (tb : Tables) (s : St) (a b : Text) :
    run tb s (a ++ b) =
      ((run tb (run tb s a).1 b).1, (run tb s a).2 ++ (run tb (run tb s a).1 b).2) := by
  induction a generalizing s with
  | nil => simp [run]
  | cons c cs ih => simp [run, ih, List.append_assoc]

/-- Inert text fed at ground state: every character becomes one fragment in the current style and
    the parser state (mode, attributes, style) is unchanged. -/
theorem run_inert (tb : Tables) (s : St) (hs : s.mode = .ground) (e : Text) (he : Inert e) :
    run tb s e = (s, plainFrags s.style e) := by
  induction e with
  | nil => simp [run, plainFrags]
  | cons c cs ih =>
    have hc := he c (by simp)
    have hcs : Inert cs := fun x hx => he x (by simp [hx])
    have hstep : step tb s c = (s, [{ style := s.style, text := [c] }]) := by
      obtain ⟨m, a, st⟩ := s
      simp only at hs; subst hs
      simp [step, dispatch, hc.1, hc.2.1, hc.2.2.1]
    simp [run, hstep, ih hcs, plainFrags]


/-- **Single hole.**  If the parser is at ground state after `pre`, filling the hole with any
    escaped value `ansiEscape v` gives the fragments of `pre`, then the value's characters one by
    one in the style current at the hole, then exactly what `post` produces without the value —
    and the parser state right after the value equals the state right before it. -/
theorem ansi_hole_inert (tb : Tables) (pre post v : Text)
    (hg : (run tb {} pre).1.mode = .ground) :
    ansi tb (pre ++ ansiEscape v ++ post) =
        (run tb {} pre).2 ++ plainFrags (run tb {} pre).1.style (ansiEscape v)
          ++ (run tb (run tb {} pre).1 post).2
    ∧ ansi tb (pre ++ post) = (run tb {} pre).2 ++ (run tb (run tb {} pre).1 post).2
    ∧ (run tb {} (pre ++ ansiEscape v)).1 = (run tb {} pre).1 := by
  have hi := run_inert tb (run tb {} pre).1 hg (ansiEscape v) (ansiEscape_inert v)
  refine ⟨?_, ?_, ?_⟩
  · simp [ansi, run_append, hi, List.append_assoc]
  · simp [ansi, run_append]
  · simp [run_append, hi]

/-- the hypothesis of `ansi_hole_inert` is satisfiable on a styled template with a hostile value,
    and the conclusion is the expected concrete fragment list -/
example :
    let tb : Tables := { fg := [(31, "ansired".toList)], bg := [], c256 := [] }
    (run tb {} [ESC, '[', '3', '1', 'm', 'a']).1.mode = .ground ∧
    ansi tb ([ESC, '[', '3', '1', 'm', 'a'] ++ ansiEscape [CSI8, '1', 'm', SOH, 'x'] ++ ['b']) =
      [⟨"ansired".toList, ['a'], none⟩, ⟨"ansired".toList, ['?'], none⟩, ⟨"ansired".toList, ['1'], none⟩,
       ⟨"ansired".toList, ['m'], none⟩, ⟨"ansired".toList, ['?'], none⟩, ⟨"ansired".toList, ['x'], none⟩,
       ⟨"ansired".toList, ['b'], none⟩] := by decide

/-- a value in the MIDDLE of a template control sequence is not inert (so the ground-state
    hypothesis cannot be dropped): in `ESC[{}m` the value selects the style of what follows. -/
theorem ansi_hole_not_inert_inside_csi :
    let tb : Tables := { fg := [(31, "ansired".toList)], bg := [], c256 := [] }
    ansi tb ([ESC, '['] ++ ansiEscape ['3', '1'] ++ ['m', 'X']) ≠
      plainFrags [] (ansiEscape ['3', '1']) ++ ansi tb ([ESC, '['] ++ ['m', 'X']) := by decide

/-! ### templates with any number of holes -/

/-- a rendered template: literal template text and (already escaped / formatted) values -/
inductive Seg
  | lit (t : Text)
  | val (e : Text)
deriving Repr, DecidableEq

def flat : List Seg → Text
  | [] => []
  | .lit t :: r => t ++ flat r
  | .val e :: r => e ++ flat r

/-- every hole of the template is reached with the parser at ground state.  The values play no
    role: this is a property of the literal parts alone. -/
def HolesAtGround (tb : Tables) : St → List Seg → Prop
  | _, [] => True
  | s, .lit t :: r => HolesAtGround tb (run tb s t).1 r
  | s, .val _ :: r => s.mode = .ground ∧ HolesAtGround tb s r

/-- the specification: literal parts go through the parser, values do NOT — they are spliced in as
    plain characters in the current style and leave the state untouched -/
def spliceRun (tb : Tables) : St → List Seg → St × Frags
  | s, [] => (s, [])
  | s, .lit t :: r =>
    ((spliceRun tb (run tb s t).1 r).1, (run tb s t).2 ++ (spliceRun tb (run tb s t).1 r).2)
  | s, .val e :: r => ((spliceRun tb s r).1, plainFrags s.style e ++ (spliceRun tb s r).2)

def ValsInert : List Seg → Prop
  | [] => True
  | .lit _ :: r => ValsInert r
  | .val e :: r => Inert e ∧ ValsInert r

/-- **Any number of holes.** -/
theorem run_template_inert (tb : Tables) (s : St) (segs : List Seg)
    (hg : HolesAtGround tb s segs) (hv : ValsInert segs) :
    run tb s (flat segs) = spliceRun tb s segs := by
  induction segs generalizing s with
  | nil => simp [flat, run, spliceRun]
  | cons sg r ih =>
    cases sg with
    | lit t =>
      simp only [HolesAtGround] at hg
      simp only [ValsInert] at hv
      simp [flat, run_append, spliceRun, ih _ hg hv]
    | val e =>
      simp only [HolesAtGround] at hg
      simp only [ValsInert] at hv
      simp [flat, run_append, spliceRun, run_inert tb s hg.1 e hv.1, ih _ hg.2 hv.2]


/-- `HolesAtGround` depends on the literal parts only -/
def shape : List Seg → List (Option Text)
  | [] => []
  | .lit t :: r => some t :: shape r
  | .val _ :: r => none :: shape r

theorem holesAtGround_shape (tb : Tables) (s : St) (a b : List Seg) (h : shape a = shape b) :
    HolesAtGround tb s a ↔ HolesAtGround tb s b := by
  induction a generalizing s b with
  | nil => cases b with
    | nil => simp
    | cons y ys => cases y <;> simp [shape] at h
  | cons x xs ih =>
    cases b with
    | nil => cases x <;> simp [shape] at h
    | cons y ys =>
      cases x <;> cases y <;> simp [shape] at h
      · obtain ⟨rfl, h2⟩ := h
        simp [HolesAtGround, ih _ _ h2]
      · simp [HolesAtGround, ih _ _ h]

/-! ### `ANSI.format` and `ANSI.__mod__` -/

/-- `renderFormat`, keeping the literal / value structure -/
def fillFormat (esc : Text → Text) (pr : Char → Bool) (args : List Val) (kw : List (Text × Val)) :
    Option (Option Nat) → List Item → Except Err (List Seg)
  | _, [] => .ok []
  | st, .lit t :: rest =>
    match fillFormat esc pr args kw st rest with
    | .ok r => .ok (.lit t :: r)
    | .error e => .error e
  | st, .hole h :: rest =>
    match renderHole esc pr args kw st h with
    | .error e => .error e
    | .ok (t, st') =>
      match fillFormat esc pr args kw st' rest with
      | .ok r => .ok (.val t :: r)
      | .error e => .error e

theorem renderFormat_eq_fill (esc : Text → Text) (pr : Char → Bool) (args : List Val)
    (kw : List (Text × Val)) (st : Option (Option Nat)) (items : List Item) :
    renderFormat esc pr args kw st items = (fillFormat esc pr args kw st items).map flat := by
  induction items generalizing st with
  | nil => simp [renderFormat, fillFormat, Except.map, flat]
  | cons it rest ih =>
    cases it with
    | lit t =>
      simp only [renderFormat, fillFormat, ih]
      cases fillFormat esc pr args kw st rest <;> simp [Except.map, flat]
    | hole h =>
      simp only [renderFormat, fillFormat]
      cases renderHole esc pr args kw st h with
      | error e => simp [Except.map]
      | ok p =>
        obtain ⟨t, st'⟩ := p
        simp only [ih]
        cases fillFormat esc pr args kw st' rest <;> simp [Except.map, flat]

/-- what a field contributes is always an escaped text -/
theorem renderHole_escaped (esc : Text → Text) (pr : Char → Bool) (args : List Val)
    (kw : List (Text × Val)) (st st' : Option (Option Nat)) (h : Hole) (t : Text)
    (hr : renderHole esc pr args kw st h = .ok (t, st')) : ∃ x, t = esc x := by
  unfold renderHole at hr
  split at hr
  · simp at hr
  · split at hr
    · simp at hr
    · split at hr
      · simp at hr
      · rename_i x _
        simp at hr
        exact ⟨x, hr.1.symm⟩

theorem fillFormat_valsInert (pr : Char → Bool) (args : List Val) (kw : List (Text × Val))
    (st : Option (Option Nat)) (items : List Item)
    (segs : List Seg) (h : fillFormat ansiEscape pr args kw st items = .ok segs) : ValsInert segs := by
  induction items generalizing st segs with
  | nil => simp [fillFormat] at h; subst h; simp [ValsInert]
  | cons it rest ih =>
    cases it with
    | lit t =>
      simp only [fillFormat] at h
      cases hr : fillFormat ansiEscape pr args kw st rest with
      | error e => simp [hr] at h
      | ok r => simp [hr] at h; subst h; simp [ValsInert]; exact ih _ _ hr
    | hole hh =>
      simp only [fillFormat] at h
      cases hsel : renderHole ansiEscape pr args kw st hh with
      | error e => simp [hsel] at h
      | ok p =>
        obtain ⟨t, st'⟩ := p
        simp only [hsel] at h
        cases hr : fillFormat ansiEscape pr args kw st' rest with
        | error e => simp [hr] at h
        | ok r =>
          simp [hr] at h; subst h
          obtain ⟨x, rfl⟩ := renderHole_escaped _ _ _ _ _ _ _ _ hsel
          exact ⟨ansiEscape_inert _, ih _ _ hr⟩

/-- **`ANSI(tmpl).format(*args, **kwargs)`**: for every template of the modelled grammar (automatic,
    numbered and keyword fields, conversions, format specs) whose holes are at ground state and for
    all argument values, the result is the template's own fragments with the characters of each
    escaped (converted, padded) value spliced in, in the style current at its hole. -/
theorem ansiFormat_inert (tb : Tables) (pr : Char → Bool) (tmpl : Text) (args : List Val)
    (kw : List (Text × Val)) (items : List Item)
    (segs : List Seg)
    (hscan : scanFormat tmpl = some (.ok items))
    (hfill : fillFormat ansiEscape pr args kw none items = .ok segs)
    (hg : HolesAtGround tb {} segs) :
    ansiFormat tb pr tmpl args kw = some (.ok (spliceRun tb {} segs).2) := by
  have hv := fillFormat_valsInert pr args kw none items segs hfill
  simp [ansiFormat, vformat, hscan, renderFormat_eq_fill, hfill, Except.map, ansi,
    run_template_inert tb {} segs hg hv]

/-- `renderPercent`, keeping the literal / value structure (arguments already escaped) -/
def fillPercent (pr : Char → Bool) : List Text → List PItem → Except Err (List Seg)
  | [], [] => .ok []
  | _ :: _, [] => .error .type
  | args, .lit t :: rest =>
    match fillPercent pr args rest with
    | .ok r => .ok (.lit t :: r)
    | .error e => .error e
  | _, .typeErr :: _ => .error .type
  | [], .badChar :: _ => .error .type
  | _ :: _, .badChar :: _ => .error .value
  | _, .incomplete :: _ => .error .value
  | [], .hole _ :: _ => .error .type
  | v :: args, .hole s :: rest =>
    match convArg pr s.conv v with
    | .error e => .error e
    | .ok t =>
      match fillPercent pr args rest with
      | .ok r => .ok (.val (pfmtStr t s) :: r)
      | .error e => .error e

theorem renderPercent_eq_fill (pr : Char → Bool) (args : List Text) (items : List PItem) :
    renderPercent pr args items = (fillPercent pr args items).map flat := by
  induction items generalizing args with
  | nil => cases args <;> simp [renderPercent, fillPercent, Except.map, flat]
  | cons it rest ih =>
    cases it with
    | lit t =>
      have h1 : renderPercent pr args (.lit t :: rest) =
          match renderPercent pr args rest with
          | .ok r => .ok (t ++ r)
          | .error e => .error e := by cases args <;> (simp only [renderPercent]; rfl)
      have h2 : fillPercent pr args (.lit t :: rest) =
          match fillPercent pr args rest with
          | .ok r => .ok (.lit t :: r)
          | .error e => .error e := by cases args <;> simp [fillPercent]
      rw [h1, h2, ih]
      cases fillPercent pr args rest <;> simp [Except.map, flat]
    | hole sp =>
      cases args with
      | nil => simp [renderPercent, fillPercent, Except.map]
      | cons v vs =>
        simp only [renderPercent, fillPercent, ih]
        cases convArg pr sp.conv v with
        | error e => simp [Except.map]
        | ok t =>
          simp only
          cases fillPercent pr vs rest <;> simp [Except.map, flat]
    | typeErr => cases args <;> simp [renderPercent, fillPercent, Except.map]
    | badChar => cases args <;> simp [renderPercent, fillPercent, Except.map]
    | incomplete => cases args <;> simp [renderPercent, fillPercent, Except.map]

theorem inert_pfmtStr (v : Text) (sp : PSpec) (h : Inert v) : Inert (pfmtStr v sp) := by
  intro c hc
  have hsp : ' ' ≠ ESC ∧ ' ' ≠ CSI8 ∧ ' ' ≠ SOH ∧ ' ' ≠ STX := by decide
  have htake : ∀ n, ∀ x ∈ v.take n, x ≠ ESC ∧ x ≠ CSI8 ∧ x ≠ SOH ∧ x ≠ STX :=
    fun n x hx => h x (List.mem_of_mem_take hx)
  unfold pfmtStr at hc
  cases hp : sp.prec <;> simp only [hp] at hc <;> split at hc <;>
    simp only [List.mem_append, List.mem_replicate] at hc
  all_goals
    rcases hc with hc | hc
    all_goals first
      | exact h c hc
      | exact htake _ c hc
      | (obtain ⟨_, rfl⟩ := hc; exact hsp)

/-! `repr` / `ascii` of a text without introducers has no introducer either (they only add quotes,
    backslashes, letters and hexadecimal digits) -/

def PlainCh (c : Char) : Prop := c ≠ ESC ∧ c ≠ CSI8 ∧ c ≠ SOH ∧ c ≠ STX

instance (c : Char) : Decidable (PlainCh c) := inferInstanceAs (Decidable (c ≠ ESC ∧ c ≠ CSI8 ∧ c ≠ SOH ∧ c ≠ STX))

theorem digitChar_plain_small : ∀ k, k < 16 → PlainCh (Nat.digitChar k) := by decide

theorem digitChar_plain (k : Nat) : PlainCh (Nat.digitChar k) := by
  by_cases h : k < 16
  · exact digitChar_plain_small k h
  · obtain ⟨m, rfl⟩ : ∃ m, k = m + 16 := ⟨k - 16, by omega⟩
    simp [Nat.digitChar, PlainCh]; decide

theorem toDigitsCore_plain (fuel n : Nat) (ds : List Char) (h : ∀ c ∈ ds, PlainCh c) :
    ∀ c ∈ Nat.toDigitsCore 16 fuel n ds, PlainCh c := by
  induction fuel generalizing n ds with
  | zero => simpa [Nat.toDigitsCore] using h
  | succ k ih =>
    unfold Nat.toDigitsCore
    have hd : ∀ c ∈ Nat.digitChar (n % 16) :: ds, PlainCh c := by
      intro c hc; rw [List.mem_cons] at hc; rcases hc with rfl | hc
      · exact digitChar_plain _
      · exact h c hc
    simp only
    split
    · exact hd
    · exact ih _ _ hd

theorem hexPad_plain (w n : Nat) : ∀ c ∈ hexPad w n, PlainCh c := by
  intro c hc
  simp only [hexPad, List.mem_append, List.mem_replicate] at hc
  rcases hc with ⟨_, rfl⟩ | hc
  · decide
  · exact toDigitsCore_plain _ _ [] (by simp) c hc

theorem hexEscape_plain (x : Char) : ∀ c ∈ hexEscape x, PlainCh c := by
  intro c hc
  unfold hexEscape at hc
  split at hc
  · simp only [List.mem_cons] at hc
    rcases hc with rfl | rfl | hc
    · decide
    · decide
    · exact hexPad_plain _ _ c hc
  · split at hc
    · simp only [List.mem_cons] at hc
      rcases hc with rfl | rfl | hc
      · decide
      · decide
      · exact hexPad_plain _ _ c hc
    · simp only [List.mem_cons] at hc
      rcases hc with rfl | rfl | hc
      · decide
      · decide
      · exact hexPad_plain _ _ c hc

theorem reprChar_plain (pr : Char → Bool) (q x : Char) (hq : PlainCh q) (hx : PlainCh x) :
    ∀ c ∈ reprChar pr q x, PlainCh c := by
  intro c hc
  unfold reprChar at hc
  have two : ∀ a b : Char, PlainCh a → PlainCh b → c ∈ [a, b] → PlainCh c := by
    intro a b ha hb h; simp at h; rcases h with rfl | rfl <;> assumption
  split at hc
  · exact two _ _ (by decide) hx hc
  · split at hc
    · exact two _ _ (by decide) (by decide) hc
    · split at hc
      · exact two _ _ (by decide) (by decide) hc
      · split at hc
        · exact two _ _ (by decide) (by decide) hc
        · split at hc
          · exact hexEscape_plain x c hc
          · split at hc
            · simp at hc; subst hc; exact hx
            · split at hc
              · simp at hc; subst hc; exact hx
              · exact hexEscape_plain x c hc

theorem pyRepr_inert (pr : Char → Bool) (e : Text) (h : Inert e) : Inert (pyRepr pr e) := by
  intro c hc
  unfold pyRepr at hc
  simp only at hc
  generalize hq : (if (e.contains '\'' && !e.contains '"') = true then '"' else '\'') = q at hc
  have hqp : PlainCh q := by
    rw [← hq]; split <;> decide
  simp only [List.mem_cons, List.mem_append, List.mem_flatMap, List.mem_singleton, List.not_mem_nil,
    or_false] at hc
  rcases hc with rfl | ⟨x, hx, hcx⟩ | rfl
  · exact hqp
  · exact reprChar_plain pr q x hqp (h x hx) c hcx
  · exact hqp

theorem asciiEscape_inert (t : Text) (h : Inert t) : Inert (asciiEscape t) := by
  intro c hc
  simp only [asciiEscape, List.mem_flatMap] at hc
  obtain ⟨x, hx, hcx⟩ := hc
  by_cases hlt : x.toNat < 0x80
  · simp [hlt] at hcx; subst hcx; exact h c hx
  · simp only [hlt, if_false] at hcx; exact hexEscape_plain x c hcx

/-- whatever conversion the template asks for (`%s %r %a %c`), the text made of an escaped value
    holds no introducer -/
theorem convArg_inert (pr : Char → Bool) (cv : PConv) (e t : Text) (h : Inert e)
    (hc : convArg pr cv e = .ok t) : Inert t := by
  cases cv with
  | s => simp [convArg] at hc; subst hc; exact h
  | r => simp [convArg] at hc; subst hc; exact pyRepr_inert pr e h
  | a => simp [convArg] at hc; subst hc; exact asciiEscape_inert _ (pyRepr_inert pr e h)
  | c =>
    simp only [convArg] at hc
    split at hc
    · simp at hc; subst hc; exact h
    · simp at hc

theorem fillPercent_valsInert (pr : Char → Bool) (args : List Text) (items : List PItem)
    (segs : List Seg)
    (ha : ∀ a ∈ args, Inert a) (h : fillPercent pr args items = .ok segs) : ValsInert segs := by
  induction items generalizing args segs with
  | nil => cases args <;> simp [fillPercent] at h; subst h; simp [ValsInert]
  | cons it rest ih =>
    cases it with
    | lit t =>
      have : fillPercent pr args (.lit t :: rest) =
          match fillPercent pr args rest with
          | .ok r => .ok (.lit t :: r)
          | .error e => .error e := by cases args <;> simp [fillPercent]
      rw [this] at h
      cases hr : fillPercent pr args rest with
      | error e => simp [hr] at h
      | ok r => simp [hr] at h; subst h; simp [ValsInert]; exact ih _ _ ha hr
    | hole sp =>
      cases args with
      | nil => simp [fillPercent] at h
      | cons v vs =>
        simp only [fillPercent] at h
        cases hcv : convArg pr sp.conv v with
        | error e => simp [hcv] at h
        | ok t =>
          simp only [hcv] at h
          cases hr : fillPercent pr vs rest with
          | error e => simp [hr] at h
          | ok r =>
            simp [hr] at h; subst h
            exact ⟨inert_pfmtStr t sp (convArg_inert pr sp.conv v t (ha v (by simp)) hcv),
                   ih _ _ (fun a ha' => ha a (by simp [ha'])) hr⟩
    | typeErr => cases args <;> simp [fillPercent] at h
    | badChar => cases args <;> simp [fillPercent] at h
    | incomplete => cases args <;> simp [fillPercent] at h

/-- **`ANSI(tmpl) % args`**, for a tuple of ANY values (strings, numbers, objects: each reaches `%`
    as its escaped `str()`) under every conversion: either the call raises (`fillPercent` is an
    error: a numeric conversion, `*`, a mapping key, an unknown conversion character, `%c` on more
    than one character, too few / too many arguments), or — holes at ground state — the result is
    the template's own fragments with the characters of each converted, padded value spliced in, in
    the style current at its hole. -/
theorem ansiMod_inert (tb : Tables) (pr : Char → Bool) (tmpl : Text) (args : List Val)
    (items : List PItem) (segs : List Seg)
    (hscan : scanPercent tmpl = some (.ok items))
    (hfill : fillPercent pr (args.map fun v => ansiEscape v.s) items = .ok segs)
    (hg : HolesAtGround tb {} segs) :
    ansiMod tb pr tmpl args = some (.ok (spliceRun tb {} segs).2) := by
  have hv := fillPercent_valsInert pr (args.map fun v => ansiEscape v.s) items segs
    (by intro a ha; simp only [List.mem_map] at ha; obtain ⟨x, _, rfl⟩ := ha
        exact ansiEscape_inert x.s) hfill
  simp [ansiMod, pformat, hscan, renderPercent_eq_fill, hfill, Except.map, ansi,
    run_template_inert tb {} segs hg hv]

/-- … and the other half of the dichotomy: when the rendering is an error, so is the call -/
theorem ansiMod_raises (tb : Tables) (pr : Char → Bool) (tmpl : Text) (args : List Val)
    (items : List PItem) (e : Err)
    (hscan : scanPercent tmpl = some (.ok items))
    (hfill : fillPercent pr (args.map fun v => ansiEscape v.s) items = .error e) :
    ansiMod tb pr tmpl args = some (.error e) := by
  simp [ansiMod, pformat, hscan, renderPercent_eq_fill, hfill, Except.map]

/-- a numeric conversion, a `*` or a mapping key anywhere in the part of the template that is
    reached makes the call raise: `%` never sees anything but escaped strings, so no conversion can
    let a value through unescaped -/
theorem fillPercent_typeErr (pr : Char → Bool) (args : List Text) (pre : List PItem)
    (rest : List PItem) (segs : List Seg) :
    fillPercent pr args (pre ++ .typeErr :: rest) ≠ .ok segs := by
  induction pre generalizing args segs with
  | nil => cases args <;> simp [fillPercent]
  | cons it more ih =>
    cases it with
    | lit t =>
      intro h
      have : fillPercent pr args (.lit t :: (more ++ .typeErr :: rest)) =
          match fillPercent pr args (more ++ .typeErr :: rest) with
          | .ok r => .ok (.lit t :: r)
          | .error e => .error e := by cases args <;> simp [fillPercent]
      rw [List.cons_append, this] at h
      cases hr : fillPercent pr args (more ++ .typeErr :: rest) with
      | error e => simp [hr] at h
      | ok r => exact ih args r hr
    | hole sp =>
      cases args with
      | nil => simp [fillPercent]
      | cons v vs =>
        intro h
        simp only [List.cons_append, fillPercent] at h
        cases hcv : convArg pr sp.conv v with
        | error e => simp [hcv] at h
        | ok t =>
          simp only [hcv] at h
          cases hr : fillPercent pr vs (more ++ .typeErr :: rest) with
          | error e => simp [hr] at h
          | ok r => exact ih vs r hr
    | typeErr => cases args <;> simp [fillPercent]
    | badChar => cases args <;> simp [fillPercent]
    | incomplete => cases args <;> simp [fillPercent]


/-- **Plain strings.**  An input without ESC, 8-bit CSI and the zero-width markers is reproduced
    character by character, unstyled. -/
theorem ansi_plain (tb : Tables) (s : Text) (h : Inert s) : ansi tb s = plainFrags [] s := by
  simp [ansi, run_inert tb {} rfl s h]

/-- every fragment produced by one step is a zero-width fragment or one character; no handlers -/
theorem step_shape (tb : Tables) (s : St) (c : Char) :
    ∀ f ∈ (step tb s c).2, f.handler = none ∧ (f.style = zwMarker ∨ f.text.length = 1) := by
  intro f hf
  unfold step at hf
  split at hf
  · split at hf
    · simp at hf
    · unfold dispatch at hf; split at hf
      · simp at hf
      · split at hf <;> simp at hf; subst hf; simp
  · split at hf <;> simp at hf; subst hf; simp
  · unfold dispatch at hf; split at hf
    · simp at hf
    · split at hf <;> simp at hf; subst hf; simp
  · split at hf <;> simp at hf
  · split at hf
    · simp at hf
    · simp only at hf
      split at hf
      · simp at hf
      · split at hf
        · simp at hf
        · split at hf
          · simp [List.mem_replicate] at hf; obtain ⟨_, rfl⟩ := hf; simp
          · simp at hf

theorem run_shape (tb : Tables) (s : St) (t : Text) :
    ∀ f ∈ (run tb s t).2, f.handler = none ∧ (f.style = zwMarker ∨ f.text.length = 1) := by
  induction t generalizing s with
  | nil => simp [run]
  | cons c cs ih =>
    intro f hf
    simp only [run, List.mem_append] at hf
    rcases hf with hf | hf
    · exact step_shape tb s c f hf
    · exact ih _ f hf

/-- **Shape of the output.**  `ANSI(s)` consists of single-character fragments and zero-width
    fragments only, for every input. -/
theorem ansi_shape (tb : Tables) (s : Text) :
    ∀ f ∈ ansi tb s, f.handler = none ∧ (f.style = zwMarker ∨ f.text.length = 1) :=
  run_shape tb {} s


/-- the two facts that make every step well defined in the Python code: the local `style` is the
    style string of the current attributes, and `current` holds ASCII digits only (so
    `int(current or 0)` cannot raise — the root cause of the fixed defect F6a) -/
def StOK (s : St) : Prop :=
  s.style = styleString s.attrs ∧
  match s.mode with
  | .csi cur _ => ∀ c ∈ cur, isAsciiDigit c = true
  | _ => True

theorem step_ok (tb : Tables) (s : St) (c : Char) (h : StOK s) : StOK (step tb s c).1 := by
  obtain ⟨m, a, st⟩ := s
  obtain ⟨h1, h2⟩ := h
  simp only at h1 h2
  cases m with
  | ground =>
    simp only [step, dispatch]
    split
    · exact ⟨h1, trivial⟩
    · split
      · exact ⟨h1, trivial⟩
      · split
        · exact ⟨h1, by simp⟩
        · exact ⟨h1, trivial⟩
  | zw e =>
    simp only [step]; split <;> exact ⟨h1, trivial⟩
  | zwAfter =>
    simp only [step, dispatch]
    split
    · exact ⟨h1, trivial⟩
    · split
      · exact ⟨h1, by simp⟩
      · exact ⟨h1, trivial⟩
  | esc =>
    simp only [step]; split
    · exact ⟨h1, by simp⟩
    · exact ⟨h1, trivial⟩
  | csi cur ps =>
    simp only [step]
    split
    · rename_i hd
      refine ⟨h1, ?_⟩
      simp only
      intro x hx; simp at hx; rcases hx with hx | rfl
      · exact h2 x hx
      · exact hd
    · split
      · exact ⟨h1, fun x hx => by cases hx⟩
      · split
        · exact ⟨rfl, trivial⟩
        · split <;> exact ⟨h1, trivial⟩

theorem run_ok (tb : Tables) (s : St) (t : Text) (h : StOK s) : StOK (run tb s t).1 := by
  induction t generalizing s with
  | nil => simpa [run] using h
  | cons c cs ih => simpa [run] using ih _ (step_ok tb s c h)

/-- **Totality witness.**  In every state the parser can reach, on every input, the parameter
    buffer holds ASCII digits only and the style string is in sync with the attributes. -/
theorem ansi_reachable_ok (tb : Tables) (t : Text) : StOK (run tb {} t).1 :=
  run_ok tb {} t ⟨by decide, trivial⟩

/-! ### the escape functions -/

theorem ansiEscape_length (t : Text) : (ansiEscape t).length = t.length := by simp [ansiEscape]

/-- harmless values are interpolated verbatim -/
theorem ansiEscape_id (t : Text)
    (h : ∀ c ∈ t, c ≠ ESC ∧ c ≠ CSI8 ∧ c ≠ SOH ∧ c ≠ STX ∧ c ≠ BS) : ansiEscape t = t := by
  induction t with
  | nil => rfl
  | cons c cs ih =>
    have hc := h c (by simp)
    have := ih (fun x hx => h x (by simp [hx]))
    simp only [ansiEscape, List.map_cons] at this ⊢
    rw [this]
    simp [hc.1, hc.2.1, hc.2.2.1, hc.2.2.2.1, hc.2.2.2.2]

theorem ansiEscape_idem (t : Text) : ansiEscape (ansiEscape t) = ansiEscape t := by
  apply ansiEscape_id
  intro c hc
  have := ansiEscape_inert t c hc
  refine ⟨this.1, this.2.1, this.2.2.1, this.2.2.2, ?_⟩
  simp only [ansiEscape, List.mem_map] at hc
  obtain ⟨a, _, rfl⟩ := hc
  split
  · decide
  · rename_i h; simp only [not_or] at h; exact h.2.2.2.2

/-- what an XML parser does to character data made of plain characters, the predefined entities
    `&amp; &lt; &gt; &quot;` and the two character references `html_escape` emits
    (specification of the decoding, not code of the library) -/
def htmlUnescape : Text → Text
  | '&' :: 'a' :: 'm' :: 'p' :: ';' :: r => '&' :: htmlUnescape r
  | '&' :: 'l' :: 't' :: ';' :: r => '<' :: htmlUnescape r
  | '&' :: 'g' :: 't' :: ';' :: r => '>' :: htmlUnescape r
  | '&' :: 'q' :: 'u' :: 'o' :: 't' :: ';' :: r => '"' :: htmlUnescape r
  | '&' :: '#' :: '3' :: '9' :: ';' :: r => '\'' :: htmlUnescape r
  | '&' :: '#' :: '1' :: '3' :: ';' :: r => '\r' :: htmlUnescape r
  | c :: r => c :: htmlUnescape r
  | [] => []

def escChar (c : Char) : Text :=
  if c = '&' then "&amp;".toList
  else if c = '<' then "&lt;".toList
  else if c = '>' then "&gt;".toList
  else if c = '"' then "&quot;".toList
  else if c = '\'' then "&#39;".toList
  else if c = '\r' then "&#13;".toList
  else if !xmlLegal c then ['?']
  else [c]

theorem htmlEscape_cons (c : Char) (cs : Text) :
    htmlEscape (c :: cs) = escChar c ++ htmlEscape cs := by simp [htmlEscape, escChar]

/-- **html_escape leaves no markup metacharacter**: no `<`, `>`, `"`, `'`, no carriage return and
    no character outside XML's `Char` production … -/
theorem htmlEscape_noMeta (t : Text) :
    ∀ c ∈ htmlEscape t, c ≠ '<' ∧ c ≠ '>' ∧ c ≠ '"' ∧ c ≠ '\'' ∧ c ≠ '\r' ∧ xmlLegal c = true := by
  intro c hc
  induction t with
  | nil => simp [htmlEscape] at hc
  | cons a as ih =>
    rw [htmlEscape_cons, List.mem_append] at hc
    rcases hc with hc | hc
    · unfold escChar at hc
      split at hc
      · simp at hc; rcases hc with rfl | rfl | rfl | rfl | rfl <;> decide
      · split at hc
        · simp at hc; rcases hc with rfl | rfl | rfl | rfl <;> decide
        · split at hc
          · simp at hc; rcases hc with rfl | rfl | rfl | rfl <;> decide
          · split at hc
            · simp at hc; rcases hc with rfl | rfl | rfl | rfl | rfl | rfl <;> decide
            · split at hc
              · simp at hc; rcases hc with rfl | rfl | rfl | rfl | rfl <;> decide
              · split at hc
                · simp at hc; rcases hc with rfl | rfl | rfl | rfl | rfl <;> decide
                · split at hc
                  · simp at hc; subst hc; decide
                  · simp at hc; subst hc
                    rename_i h1 h2 h3 h4 h5 h6 h7
                    exact ⟨h2, h3, h4, h5, h6, by simpa using h7⟩
    · exact ih hc

theorem htmlUnescape_cons_ne (c : Char) (r : Text) (h : c ≠ '&') :
    htmlUnescape (c :: r) = c :: htmlUnescape r := by
  rw [htmlUnescape.eq_def]; split <;> simp_all

/-- what the value looks like after the round trip: characters XML cannot carry become `?` -/
def xmlClean (t : Text) : Text := t.map fun c => if xmlLegal c then c else '?'

theorem htmlUnescape_escChar (c : Char) (r : Text) :
    htmlUnescape (escChar c ++ r) = (if xmlLegal c then c else '?') :: htmlUnescape r := by
  unfold escChar
  split
  · rename_i hc; subst hc; simp [htmlUnescape]; decide
  · split
    · rename_i hc; subst hc; simp [htmlUnescape]; decide
    · split
      · rename_i hc; subst hc; simp [htmlUnescape]; decide
      · split
        · rename_i hc; subst hc; simp [htmlUnescape]; decide
        · split
          · rename_i hc; subst hc; simp [htmlUnescape]; decide
          · split
            · rename_i hc; subst hc; simp [htmlUnescape]; decide
            · rename_i h1 _ _ _ _ _
              split
              · rename_i hl
                have : xmlLegal c = false := by simpa using hl
                simp [this, htmlUnescape_cons_ne '?' r (by decide)]
              · rename_i hl
                have : xmlLegal c = true := by simpa using hl
                simp [this, htmlUnescape_cons_ne c r h1]

/-- … and decoding the entities gives back the value, character for character (characters that
    XML cannot carry at all are replaced by `?`; every other character, including CR and the
    apostrophe, arrives verbatim) -/
theorem htmlUnescape_escape (t : Text) : htmlUnescape (htmlEscape t) = xmlClean t := by
  induction t with
  | nil => rfl
  | cons c cs ih =>
    rw [htmlEscape_cons, htmlUnescape_escChar, ih]; simp [xmlClean]

theorem xmlClean_id (t : Text) (h : ∀ c ∈ t, xmlLegal c = true) : xmlClean t = t := by
  induction t with
  | nil => rfl
  | cons c cs ih =>
    have hc := h c (by simp)
    have := ih (fun a ha => h a (by simp [ha]))
    simp only [xmlClean, List.map_cons] at this ⊢
    rw [this]; simp [hc]

/-! ### non-vacuity of the template theorems -/

instance decHolesAtGround (tb : Tables) :
    (s : St) → (segs : List Seg) → Decidable (HolesAtGround tb s segs)
  | _, [] => isTrue trivial
  | s, .lit t :: r => decHolesAtGround tb (run tb s t).1 r
  | s, .val _ :: r =>
    have := decHolesAtGround tb s r
    inferInstanceAs (Decidable (s.mode = .ground ∧ HolesAtGround tb s r))

def exTb : Tables := { fg := [(31, "ansired".toList)], bg := [], c256 := [] }
/-- `ESC[31ma{:>3}bESC[0m{}` -/
def exTmpl : Text :=
  [ESC, '[', '3', '1', 'm', 'a', '{', ':', '>', '3', '}', 'b', ESC, '[', '0', 'm', '{', '}']
/-- hostile values: a CSI introducer and a zero-width block -/
def exArgs : List Val := [{ s := [ESC, '['] }, { s := [SOH, 'x', STX] }]
/-- `str.isprintable` stand-in for the examples (ASCII only) -/
def exPr (c : Char) : Bool := 0x20 ≤ c.toNat && c.toNat < 0x7f

example : ∃ items segs, scanFormat exTmpl = some (.ok items) ∧
    fillFormat ansiEscape exPr exArgs [] none items = .ok segs ∧ HolesAtGround exTb {} segs ∧
    ansiFormat exTb exPr exTmpl exArgs [] = some (.ok
      [⟨"ansired".toList, ['a'], none⟩, ⟨"ansired".toList, [' '], none⟩,
       ⟨"ansired".toList, ['?'], none⟩, ⟨"ansired".toList, ['['], none⟩,
       ⟨"ansired".toList, ['b'], none⟩,
       ⟨[], ['?'], none⟩, ⟨[], ['x'], none⟩, ⟨[], ['?'], none⟩]) :=
  ⟨[.lit [ESC, '[', '3', '1', 'm', 'a'],
    .hole { spec := { align := .right, width := 3 }, specEmpty := false },
    .lit ['b', ESC, '[', '0', 'm'], .hole {}], _, rfl, rfl, by decide, rfl⟩

/-- `ESC[31ma%-3sb` -/
def exPTmpl : Text := [ESC, '[', '3', '1', 'm', 'a', '%', '-', '3', 's', 'b']

example : ∃ items segs, scanPercent exPTmpl = some (.ok items) ∧
    fillPercent exPr ([[CSI8, '1']].map ansiEscape) items = .ok segs ∧ HolesAtGround exTb {} segs ∧
    ansiMod exTb exPr exPTmpl [{ s := [CSI8, '1'] }] = some (.ok
      [⟨"ansired".toList, ['a'], none⟩, ⟨"ansired".toList, ['?'], none⟩,
       ⟨"ansired".toList, ['1'], none⟩, ⟨"ansired".toList, [' '], none⟩,
       ⟨"ansired".toList, ['b'], none⟩]) :=
  ⟨[.lit [ESC, '[', '3', '1', 'm', 'a'], .hole { leftAdj := true, width := 3 }, .lit ['b']], _,
   rfl, rfl, by decide, rfl⟩

example : htmlEscape ("a<b & \"c\">'\r".toList ++ [ESC]) =
    "a&lt;b &amp; &quot;c&quot;&gt;&#39;&#13;?".toList := by decide

example : StOK (run exTb {} [ESC, '[', '3', '1']).1 ∧
    (run exTb {} [ESC, '[', '3', '1']).1.mode = .csi ['3', '1'] [] := by
  constructor
  · exact ansi_reachable_ok exTb _
  · decide

end Ptk.C18
