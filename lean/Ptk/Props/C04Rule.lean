/-
  C04 — the dispatch rule.  For every world whose lookups are sound w.r.t. a flat binding
  list (`Sound`; established for the `KeyBindings` registry in `Props/C04World.lean`), the decision of
  one pass of the matching loop is the documented rule (`Rule`), stated declaratively.
-/
import Ptk.Props.C04
namespace Ptk.C04
variable {σ : Type}

/-! ### the last element of the filtered, stably sorted match list -/

def cnt (b : Binding) : Nat := anyCount b.keys

/-- among the elements satisfying `p`: the last one with the fewest wildcards -/
def pickR (p : Binding → Bool) : List Binding → Option Binding
  | [] => none
  | x :: l =>
    match pickR p l with
    | none => if p x then some x else none
    | some m => if p x && decide (cnt x < cnt m) then some x else some m

def lastP (p : Binding → Bool) (l : List Binding) : Option Binding := (l.filter p).getLast?

theorem lastP_nil (p : Binding → Bool) : lastP p [] = none := rfl

theorem getLast?_cons' {α : Type} (a : α) (l : List α) :
    (a :: l).getLast? = match l.getLast? with
      | some m => some m
      | none => some a := by
  cases l with
  | nil => rfl
  | cons b t =>
    rw [List.getLast?_cons_cons]
    cases h : (b :: t).getLast? with
    | none => simp at h
    | some m => rfl

theorem lastP_cons (p : Binding → Bool) (a : Binding) (l : List Binding) :
    lastP p (a :: l) = match lastP p l with
      | some m => some m
      | none => if p a then some a else none := by
  unfold lastP
  by_cases ha : p a = true
  · rw [List.filter_cons_of_pos ha, getLast?_cons']
    cases (l.filter p).getLast? <;> simp [ha]
  · rw [List.filter_cons_of_neg ha]
    cases (l.filter p).getLast? <;> simp [ha]

theorem lastP_mem {p : Binding → Bool} {l : List Binding} {m : Binding} (h : lastP p l = some m) :
    m ∈ l ∧ p m = true := by
  unfold lastP at h
  have := List.mem_of_getLast? h
  simpa [List.mem_filter] using this

def SortedDesc (s : List Binding) : Prop := s.Pairwise fun a b => cnt b ≤ cnt a

theorem insDesc_mem (x : Binding) (s : List Binding) (y : Binding) :
    y ∈ insDesc x s ↔ y = x ∨ y ∈ s := by
  induction s with
  | nil => simp [insDesc]
  | cons c cs ih =>
    unfold insDesc
    split
    · simp
    · simp [ih]; constructor <;> (intro h; rcases h with h | h | h <;> simp [h])

theorem insDesc_sorted (x : Binding) (s : List Binding) (hs : SortedDesc s) :
    SortedDesc (insDesc x s) := by
  induction s with
  | nil => simp [insDesc, SortedDesc]
  | cons c cs ih =>
    unfold SortedDesc at hs ⊢
    rw [List.pairwise_cons] at hs
    unfold insDesc
    split
    · next h =>
      rw [List.pairwise_cons]
      refine ⟨?_, List.pairwise_cons.mpr hs⟩
      intro y hy
      rcases List.mem_cons.mp hy with rfl | hy
      · exact h
      · exact Nat.le_trans (hs.1 y hy) h
    · next h =>
      rw [List.pairwise_cons]
      refine ⟨?_, ih hs.2⟩
      intro y hy
      rcases (insDesc_mem x cs y).mp hy with rfl | hy
      · simp [cnt] at h ⊢; omega
      · exact hs.1 y hy

theorem sortDesc_sorted (l : List Binding) : SortedDesc (sortDesc l) := by
  induction l with
  | nil => simp [sortDesc, SortedDesc]
  | cons x l ih => exact insDesc_sorted x _ ih

theorem sortDesc_mem (l : List Binding) (y : Binding) : y ∈ sortDesc l ↔ y ∈ l := by
  induction l with
  | nil => simp [sortDesc]
  | cons x l ih =>
    have : sortDesc (x :: l) = insDesc x (sortDesc l) := rfl
    rw [this, insDesc_mem, ih]; simp

theorem lastP_insDesc (p : Binding → Bool) (x : Binding) (s : List Binding) (hs : SortedDesc s) :
    lastP p (insDesc x s) = match lastP p s with
      | none => if p x then some x else none
      | some m => if p x && decide (cnt x < cnt m) then some x else some m := by
  induction s with
  | nil => simp [insDesc, lastP_cons, lastP_nil]
  | cons c cs ih =>
    unfold SortedDesc at hs
    rw [List.pairwise_cons] at hs
    have ih := ih hs.2
    unfold insDesc
    split
    · next hle =>
      -- x goes in front: everything behind has at most as many wildcards as x
      rw [lastP_cons p x (c :: cs)]
      cases hl : lastP p (c :: cs) with
      | none => rfl
      | some m =>
        have hm := (lastP_mem hl).1
        have : cnt m ≤ cnt x := by
          rcases List.mem_cons.mp hm with rfl | hm
          · exact hle
          · exact Nat.le_trans (hs.1 m hm) hle
        have : ¬ cnt x < cnt m := by omega
        simp [this]
    · next hgt =>
      have hgt : cnt x < cnt c := by simp [cnt] at hgt ⊢; omega
      rw [lastP_cons p c (insDesc x cs), ih, lastP_cons p c cs]
      cases hl : lastP p cs with
      | some m =>
        simp only []
        by_cases hcond : (p x && decide (cnt x < cnt m)) = true <;> simp [hcond]
      | none =>
        simp only []
        by_cases hx : p x <;> by_cases hc : p c <;> simp [hx, hc, hgt]

theorem lastP_sortDesc (p : Binding → Bool) (l : List Binding) :
    lastP p (sortDesc l) = pickR p l := by
  induction l with
  | nil => rfl
  | cons x l ih =>
    have : sortDesc (x :: l) = insDesc x (sortDesc l) := rfl
    rw [this, lastP_insDesc p x _ (sortDesc_sorted l), ih]
    rfl

theorem pickR_filter (p q : Binding → Bool) (l : List Binding) :
    pickR p (l.filter q) = pickR (fun b => q b && p b) l := by
  induction l with
  | nil => rfl
  | cons x l ih =>
    by_cases hq : q x
    · simp only [List.filter_cons, hq, if_true, pickR, ih, Bool.true_and]
    · rw [List.filter_cons_of_neg hq, ih]
      simp only [pickR]
      cases pickR (fun b => q b && p b) l <;> simp [hq]

/-- `b` is, among the bindings of `bs` with property `P`, one with the fewest wildcards, and
    the last-registered of those -/
def Chosen (bs : List Binding) (P : Binding → Bool) (b : Binding) : Prop :=
  ∃ pre post, bs = pre ++ b :: post ∧ P b = true ∧
    (∀ c ∈ post, P c = true → cnt b < cnt c) ∧ (∀ c ∈ pre, P c = true → cnt b ≤ cnt c)

theorem pickR_none {p : Binding → Bool} {l : List Binding} :
    pickR p l = none ↔ ∀ c ∈ l, p c = false := by
  induction l with
  | nil => simp [pickR]
  | cons x l ih =>
    simp only [pickR]
    cases h : pickR p l with
    | none =>
      have := ih.mp h
      by_cases hx : p x = true
      · simp [hx]
      · simp [hx]; exact this
    | some m =>
      simp only []
      constructor
      · intro hc; split at hc <;> cases hc
      · intro hall
        have : pickR p l = none := ih.mpr (fun c hc => hall c (List.mem_cons_of_mem _ hc))
        rw [this] at h; cases h

theorem pickR_some {p : Binding → Bool} {l : List Binding} {b : Binding} (h : pickR p l = some b) :
    Chosen l p b := by
  induction l generalizing b with
  | nil => simp [pickR] at h
  | cons x l ih =>
    simp only [pickR] at h
    cases hl : pickR p l with
    | none =>
      simp only [hl] at h
      have hnone := pickR_none.mp hl
      by_cases hx : p x
      · simp [hx] at h; subst h
        exact ⟨[], l, rfl, hx, fun c hc hp => by simp [hnone c hc] at hp, by simp⟩
      · simp [hx] at h
    | some m =>
      simp only [hl] at h
      obtain ⟨pre, post, hsplit, hPm, hpost, hpre⟩ := ih hl
      have hall : ∀ c ∈ l, p c = true → cnt m ≤ cnt c := by
        intro c hc hp
        rw [hsplit] at hc
        rcases List.mem_append.mp hc with hc | hc
        · exact hpre c hc hp
        · rcases List.mem_cons.mp hc with rfl | hc
          · exact Nat.le_refl _
          · exact Nat.le_of_lt (hpost c hc hp)
      by_cases hx : (p x && decide (cnt x < cnt m)) = true
      · simp [hx] at h; subst h
        simp at hx
        exact ⟨[], l, rfl, hx.1, fun c hc hp => Nat.lt_of_lt_of_le hx.2 (hall c hc hp), by simp⟩
      · simp [hx] at h; subst h
        refine ⟨x :: pre, post, by simp [hsplit], hPm, hpost, ?_⟩
        intro c hc hp
        rcases List.mem_cons.mp hc with rfl | hc
        · simp [hp] at hx; exact hx
        · exact hpre c hc hp

/-- the chosen binding is unique (as a position in the list) -/
theorem Chosen_unique {bs : List Binding} {P : Binding → Bool} {b b' : Binding}
    (h : Chosen bs P b) (h' : Chosen bs P b') : cnt b = cnt b' := by
  obtain ⟨pre, post, e, hP, hpost, hpre⟩ := h
  obtain ⟨pre', post', e', hP', hpost', hpre'⟩ := h'
  have hb' : b' ∈ pre ++ b :: post := by rw [← e, e']; simp
  have hb : b ∈ pre' ++ b' :: post' := by rw [← e', e]; simp
  have h1 : cnt b ≤ cnt b' := by
    rcases List.mem_append.mp hb' with hm | hm
    · exact hpre b' hm hP'
    · rcases List.mem_cons.mp hm with rfl | hm
      · exact Nat.le_refl _
      · exact Nat.le_of_lt (hpost b' hm hP')
  have h2 : cnt b' ≤ cnt b := by
    rcases List.mem_append.mp hb with hm | hm
    · exact hpre' b hm hP
    · rcases List.mem_cons.mp hm with rfl | hm
      · exact Nat.le_refl _
      · exact Nat.le_of_lt (hpost' b hm hP)
  omega

/-! ### sound lookups -/

/-- `keys` is matched exactly by the key pattern of `b` -/
def exactB (ks : List Key) (b : Binding) : Bool := ks.length == b.keys.length && zipMatch b.keys ks
/-- `keys` is a proper prefix of something matched by the key pattern of `b` -/
def longerB (ks : List Key) (b : Binding) : Bool :=
  decide (ks.length < b.keys.length) && zipMatch b.keys ks

/-- in every world satisfying `G` (an invariant kept by the lookups), the world's lookups are
    those of the flat binding list `B w` (in registration order), and looking up changes neither
    that list nor the value of any filter -/
structure Sound (I : Iface σ) (B : σ → List Binding) (G : σ → Prop) : Prop where
  for_val : ∀ w ks, G w → (I.getFor w ks).2 = matchFor (B w) ks
  for_B : ∀ w ks, G w → B (I.getFor w ks).1 = B w
  for_eval : ∀ w ks f, G w → I.evalF (I.getFor w ks).1 f = I.evalF w f
  for_G : ∀ w ks, G w → G (I.getFor w ks).1
  start_val : ∀ w ks, G w → (I.getStart w ks).2 = matchStarting (B w) ks
  start_B : ∀ w ks, G w → B (I.getStart w ks).1 = B w
  start_eval : ∀ w ks f, G w → I.evalF (I.getStart w ks).1 f = I.evalF w f
  start_G : ∀ w ks, G w → G (I.getStart w ks).1

/-- active exact matches / active eager exact matches for the keys `ks` -/
def PA (act : F → Bool) (ks : List Key) (c : Binding) : Bool := exactB ks c && act c.filter
def PE (act : F → Bool) (ks : List Key) (c : Binding) : Bool :=
  exactB ks c && act c.filter && act c.eager
def PL (act : F → Bool) (ks : List Key) (c : Binding) : Bool := longerB ks c && act c.filter

theorem lastActive (bs : List Binding) (ks : List Key) (p : Binding → Bool) :
    ((matchFor bs ks).filter p).getLast? = pickR (fun c => exactB ks c && p c) bs := by
  have h := lastP_sortDesc p (bs.filter fun b => ks.length == b.keys.length && zipMatch b.keys ks)
  unfold lastP at h
  unfold matchFor
  rw [h, pickR_filter]
  rfl

/-- **The documented dispatch rule**, as a relation between the flat binding list (registration
    order), the current filter values, the key buffer, the flush flag, and the decision. -/
inductive Rule (bs : List Binding) (act : F → Bool) (buf : List KP) (flush : Bool) :
    Decision → Prop where
  /-- nothing buffered -/
  | idle : buf = [] → Rule bs act buf flush .idle
  /-- an active eager exact match fires at once (longer bindings are ignored): the most
      specific one, the last registered among equals -/
  | eager {b : Binding} : buf ≠ [] → Chosen bs (PE act (keysOf buf)) b →
      Rule bs act buf flush (.fire b buf.length true)
  /-- otherwise wait while a longer active binding is still possible (never after a timeout) -/
  | wait : buf ≠ [] → (∀ c ∈ bs, PE act (keysOf buf) c = false) → flush = false →
      (∃ c ∈ bs, PL act (keysOf buf) c = true) → Rule bs act buf flush .wait
  /-- otherwise fire the most specific, last registered active exact match -/
  | exact {b : Binding} : buf ≠ [] → (∀ c ∈ bs, PE act (keysOf buf) c = false) →
      (flush = true ∨ ∀ c ∈ bs, PL act (keysOf buf) c = false) →
      Chosen bs (PA act (keysOf buf)) b → Rule bs act buf flush (.fire b buf.length true)
  /-- otherwise re-examine: the longest prefix of the buffer with an active exact match fires
      its most specific, last registered match (eager plays no role here) -/
  | prefix {b : Binding} {i : Nat} : buf ≠ [] →
      (flush = true ∨ ∀ c ∈ bs, PL act (keysOf buf) c = false) →
      (∀ c ∈ bs, PA act (keysOf buf) c = false) →
      1 ≤ i → i ≤ buf.length → Chosen bs (PA act (keysOf (buf.take i))) b →
      (∀ j, i < j → j ≤ buf.length → ∀ c ∈ bs, PA act (keysOf (buf.take j)) c = false) →
      Rule bs act buf flush (.fire b i false)
  /-- otherwise the first key is dropped -/
  | drop : buf ≠ [] → (flush = true ∨ ∀ c ∈ bs, PL act (keysOf buf) c = false) →
      (∀ j, 1 ≤ j → j ≤ buf.length → ∀ c ∈ bs, PA act (keysOf (buf.take j)) c = false) →
      Rule bs act buf flush .dropOne

section
variable {I : Iface σ} {B : σ → List Binding} {G : σ → Prop}

theorem getMatches_sound (hS : Sound I B G) (w : σ) (hG : G w) (buf : List KP) :
    (getMatches I w buf).2 = (matchFor (B w) (keysOf buf)).filter (fun b => I.evalF w b.filter) ∧
    B (getMatches I w buf).1 = B w ∧ (∀ f, I.evalF (getMatches I w buf).1 f = I.evalF w f) ∧
    G (getMatches I w buf).1 := by
  unfold getMatches
  refine ⟨?_, hS.for_B _ _ hG, fun f => hS.for_eval _ _ f hG, hS.for_G _ _ hG⟩
  have : (fun (b : Binding) => I.evalF (I.getFor w (keysOf buf)).1 b.filter) =
      (fun (b : Binding) => I.evalF w b.filter) := by
    funext b; exact hS.for_eval _ _ _ hG
  simp only [hS.for_val _ _ hG, this]

theorem getMatches_last (hS : Sound I B G) (w : σ) (hG : G w) (buf : List KP) :
    (getMatches I w buf).2.getLast? = pickR (PA (I.evalF w) (keysOf buf)) (B w) := by
  rw [(getMatches_sound hS w hG buf).1, lastActive]; rfl

theorem scan_sound (hS : Sound I B G) (buf : List KP) (n : Nat) (w : σ) (hG : G w) :
    G (scan I buf n w).1 ∧
    B (scan I buf n w).1 = B w ∧ (∀ f, I.evalF (scan I buf n w).1 f = I.evalF w f) ∧
    match (scan I buf n w).2 with
    | some (i, b) => 1 ≤ i ∧ i ≤ n ∧ Chosen (B w) (PA (I.evalF w) (keysOf (buf.take i))) b ∧
        ∀ j, i < j → j ≤ n → ∀ c ∈ B w, PA (I.evalF w) (keysOf (buf.take j)) c = false
    | none => ∀ j, 1 ≤ j → j ≤ n → ∀ c ∈ B w, PA (I.evalF w) (keysOf (buf.take j)) c = false := by
  induction n generalizing w with
  | zero =>
    simp only [scan]
    refine ⟨hG, by simp, by simp, ?_⟩
    intro j h1 h2; omega
  | succ n ih =>
    simp only [scan]
    have hg := getMatches_sound hS w hG (buf.take (n + 1))
    have hl := getMatches_last hS w hG (buf.take (n + 1))
    cases hp : (getMatches I w (buf.take (n + 1))).2.getLast? with
    | some b =>
      simp only []
      refine ⟨hg.2.2.2, hg.2.1, hg.2.2.1, Nat.le_add_left _ _, Nat.le_refl _, ?_, ?_⟩
      · rw [hp] at hl; exact pickR_some hl.symm
      · intro j h1 h2; omega
    | none =>
      simp only []
      have ih := ih (getMatches I w (buf.take (n + 1))).1 hg.2.2.2
      rw [hp] at hl
      have hnone := pickR_none.mp hl.symm
      have hev : I.evalF (getMatches I w (buf.take (n + 1))).1 = I.evalF w := funext hg.2.2.1
      rw [hg.2.1, hev] at ih
      refine ⟨ih.1, ih.2.1, ih.2.2.1, ?_⟩
      cases hs : (scan I buf n (getMatches I w (buf.take (n + 1))).1).2 with
      | none =>
        simp only [hs] at ih ⊢
        intro j h1 h2
        by_cases hj : j = n + 1
        · subst hj; exact hnone
        · exact ih.2.2.2 j h1 (by omega)
      | some r =>
        obtain ⟨i, b⟩ := r
        simp only [hs] at ih ⊢
        obtain ⟨_, _, _, a1, a2, a3, a4⟩ := ih
        refine ⟨a1, by omega, a3, ?_⟩
        intro j h1 h2
        by_cases hj : j = n + 1
        · subst hj; exact hnone
        · exact a4 j h1 (by omega)

/-- **Dispatch**: in a world with sound lookups the decision of one pass of the matching loop
    is the one demanded by the rule, for the bindings and filter values at that moment; the
    lookups change neither. -/
theorem dispatch_spec (hS : Sound I B G) (ps : PS σ) (hG : G ps.w) (flush : Bool) :
    Rule (B ps.w) (I.evalF ps.w) ps.buffer flush (decideOf I ps flush).2 ∧
    B (decideOf I ps flush).1 = B ps.w ∧
    (∀ f, I.evalF (decideOf I ps flush).1 f = I.evalF ps.w f) ∧
    G (decideOf I ps flush).1 := by
  unfold decideOf
  by_cases hb : ps.buffer.isEmpty = true
  · simp only [hb, if_true]
    exact ⟨.idle (by simpa using hb), by simp, by simp, hG⟩
  · simp only [hb]
    have hne : ps.buffer ≠ [] := by simpa using hb
    have g := getMatches_sound hS ps.w hG ps.buffer
    have gl := getMatches_last hS ps.w hG ps.buffer
    -- the world after the (optional) prefix lookup
    have h2 : G (if flush = true then ((getMatches I ps.w ps.buffer).1, false)
          else isPrefixOfLonger I (getMatches I ps.w ps.buffer).1 ps.buffer).1 ∧
        B (if flush = true then ((getMatches I ps.w ps.buffer).1, false)
          else isPrefixOfLonger I (getMatches I ps.w ps.buffer).1 ps.buffer).1 = B ps.w ∧
        (∀ f, I.evalF (if flush = true then ((getMatches I ps.w ps.buffer).1, false)
          else isPrefixOfLonger I (getMatches I ps.w ps.buffer).1 ps.buffer).1 f = I.evalF ps.w f) ∧
        ((if flush = true then ((getMatches I ps.w ps.buffer).1, false)
          else isPrefixOfLonger I (getMatches I ps.w ps.buffer).1 ps.buffer).2 =
          (!flush && (B ps.w).any (PL (I.evalF ps.w) (keysOf ps.buffer)))) := by
      cases flush with
      | true => simp [g.2.1, g.2.2.1, g.2.2.2]
      | false =>
        simp only [isPrefixOfLonger, Bool.false_eq_true, if_false, Bool.not_false, Bool.true_and]
        refine ⟨hS.start_G _ _ g.2.2.2, by rw [hS.start_B _ _ g.2.2.2, g.2.1],
          fun f => by rw [hS.start_eval _ _ _ g.2.2.2, g.2.2.1], ?_⟩
        rw [hS.start_val _ _ g.2.2.2, g.2.1]
        unfold matchStarting
        rw [List.any_filter]
        congr 1
        funext c
        simp only [hS.start_eval _ _ _ g.2.2.2, g.2.2.1, PL, longerB]
    generalize (if flush = true then ((getMatches I ps.w ps.buffer).1, false)
          else isPrefixOfLonger I (getMatches I ps.w ps.buffer).1 ps.buffer) = r2 at h2
    obtain ⟨hG2, hB2, hE2, hP2⟩ := h2
    have hev2 : I.evalF r2.1 = I.evalF ps.w := funext hE2
    simp only [hev2]
    -- eager matches
    have hel : ((getMatches I ps.w ps.buffer).2.filter fun m => I.evalF ps.w m.eager).getLast? =
        pickR (PE (I.evalF ps.w) (keysOf ps.buffer)) (B ps.w) := by
      rw [g.1, List.filter_filter, lastActive]
      congr 1
      funext c
      simp only [PE, Bool.and_assoc]
      cases exactB (keysOf ps.buffer) c <;> cases I.evalF ps.w c.filter <;> simp
    cases he : ((getMatches I ps.w ps.buffer).2.filter fun m => I.evalF ps.w m.eager) with
    | cons e es =>
      simp only [List.isEmpty_cons, Bool.false_eq_true, if_false]
      rw [he] at hel
      cases hlast : (e :: es).getLast? with
      | none => simp at hlast
      | some b =>
        simp only []
        rw [hlast] at hel
        exact ⟨.eager hne (pickR_some hel.symm), hB2, hE2, hG2⟩
    | nil =>
      simp only [List.isEmpty_nil, if_true]
      rw [he] at hel
      have hnoE := pickR_none.mp hel.symm
      by_cases hw : r2.2 = true
      · simp only [hw, if_true]
        rw [hP2] at hw
        simp only [Bool.and_eq_true, Bool.not_eq_true', List.any_eq_true] at hw
        exact ⟨.wait hne hnoE hw.1 hw.2, hB2, hE2, hG2⟩
      · simp only [hw]
        have hnoL : flush = true ∨ ∀ c ∈ B ps.w, PL (I.evalF ps.w) (keysOf ps.buffer) c = false := by
          rw [hP2] at hw
          cases flush with
          | true => exact Or.inl rfl
          | false =>
            right
            intro c hc
            simp only [Bool.not_false, Bool.true_and, List.any_eq_true, not_exists, not_and] at hw
            simpa using hw c hc
        cases hm : (getMatches I ps.w ps.buffer).2.getLast? with
        | some b =>
          simp only []
          rw [hm] at gl
          exact ⟨.exact hne hnoE hnoL (pickR_some gl.symm), hB2, hE2, hG2⟩
        | none =>
          simp only []
          rw [hm] at gl
          have hnoA := pickR_none.mp gl.symm
          have sc := scan_sound hS ps.buffer ps.buffer.length r2.1 hG2
          rw [hB2, hev2] at sc
          cases hs : (scan I ps.buffer ps.buffer.length r2.1).2 with
          | none =>
            simp only [hs] at sc ⊢
            exact ⟨.drop hne hnoL sc.2.2.2, sc.2.1, sc.2.2.1, sc.1⟩
          | some r =>
            obtain ⟨i, b⟩ := r
            simp only [hs] at sc ⊢
            obtain ⟨s0, s1, s2, a1, a2, a3, a4⟩ := sc
            exact ⟨.prefix hne hnoL hnoA a1 a2 a3 a4, s1, s2, s0⟩
end

/-! ### the rule determines the decision -/

/-- the chosen binding is unique: same position in the list, hence the same binding -/
theorem Chosen_eq {bs : List Binding} {P : Binding → Bool} {b b' : Binding}
    (h : Chosen bs P b) (h' : Chosen bs P b') : b = b' := by
  obtain ⟨pre, post, e, hP, hpost, hpre⟩ := h
  obtain ⟨pre', post', e', hP', hpost', hpre'⟩ := h'
  have hh : pre ++ b :: post = pre' ++ b' :: post' := e.symm.trans e'
  rcases List.append_eq_append_iff.mp hh with ⟨a, ha1, ha2⟩ | ⟨c, hc1, hc2⟩
  · cases a with
    | nil => simp at ha2; exact ha2.1
    | cons x a =>
      simp at ha2
      obtain ⟨rfl, rfl⟩ := ha2
      have h1 : cnt b' ≤ cnt b := hpre' b (by rw [ha1]; simp) hP
      have h2 : cnt b < cnt b' := hpost b' (by simp) hP'
      omega
  · cases c with
    | nil => simp at hc2; exact hc2.1.symm
    | cons x c =>
      simp at hc2
      obtain ⟨rfl, rfl⟩ := hc2
      have h1 : cnt b ≤ cnt b' := hpre b' (by rw [hc1]; simp) hP'
      have h2 : cnt b' < cnt b := hpost' b (by simp) hP
      omega

theorem Chosen.mem {bs : List Binding} {P : Binding → Bool} {b : Binding} (h : Chosen bs P b) :
    b ∈ bs ∧ P b = true := by
  obtain ⟨pre, post, e, hP, _, _⟩ := h
  exact ⟨by rw [e]; simp, hP⟩

theorem PE_imp_PA {act : F → Bool} {ks : List Key} {c : Binding} (h : PE act ks c = true) :
    PA act ks c = true := by
  simp only [PE, PA, Bool.and_eq_true] at h ⊢
  exact h.1

/-- **the documented rule is a function**: for given bindings, filter values, key buffer and
    flush flag there is exactly one decision — together with `dispatch_spec`, the model's decision
    is *the* decision of the rule. -/
theorem Rule_deterministic {bs : List Binding} {act : F → Bool} {buf : List KP} {flush : Bool}
    {d d' : Decision} (h : Rule bs act buf flush d) (h' : Rule bs act buf flush d') : d = d' := by
  have take_len : buf.take buf.length = buf := List.take_length
  -- contradictions used below
  have noPE_vs : ∀ {b}, Chosen bs (PE act (keysOf buf)) b →
      (∀ c ∈ bs, PE act (keysOf buf) c = false) → False := by
    intro b hc hn; have := hc.mem; rw [hn b this.1] at this; exact absurd this.2 (by simp)
  have noPA_vs : ∀ {b}, Chosen bs (PA act (keysOf buf)) b →
      (∀ c ∈ bs, PA act (keysOf buf) c = false) → False := by
    intro b hc hn; have := hc.mem; rw [hn b this.1] at this; exact absurd this.2 (by simp)
  have PE_noPA : ∀ {b}, Chosen bs (PE act (keysOf buf)) b →
      (∀ c ∈ bs, PA act (keysOf buf) c = false) → False := by
    intro b hc hn; have := hc.mem
    have h2 := PE_imp_PA this.2; rw [hn b this.1] at h2; exact absurd h2 (by simp)
  have noAll : (∀ j, 1 ≤ j → j ≤ buf.length → ∀ c ∈ bs, PA act (keysOf (buf.take j)) c = false) →
      buf ≠ [] → ∀ c ∈ bs, PA act (keysOf buf) c = false := by
    intro hn hne c hc
    have := hn buf.length (List.length_pos_iff.mpr hne) (Nat.le_refl _) c hc
    rwa [take_len] at this
  have longer_vs : flush = false → (∃ c ∈ bs, PL act (keysOf buf) c = true) →
      (flush = true ∨ ∀ c ∈ bs, PL act (keysOf buf) c = false) → False := by
    intro hf ⟨c, hc, hl⟩ hor
    rcases hor with h1 | h1
    · rw [hf] at h1; cases h1
    · rw [h1 c hc] at hl; cases hl
  cases h with
  | idle e =>
    cases h' with
    | idle _ => rfl
    | eager hne _ => exact absurd e hne
    | wait hne _ _ _ => exact absurd e hne
    | exact hne _ _ _ => exact absurd e hne
    | «prefix» hne _ _ _ _ _ _ => exact absurd e hne
    | drop hne _ _ => exact absurd e hne
  | eager hne hc =>
    cases h' with
    | idle e => exact absurd e hne
    | eager _ hc' => rw [Chosen_eq hc hc']
    | wait _ hn _ _ => exact (noPE_vs hc hn).elim
    | exact _ hn _ _ => exact (noPE_vs hc hn).elim
    | «prefix» _ _ hn _ _ _ _ => exact (PE_noPA hc hn).elim
    | drop _ _ hn => exact (PE_noPA hc (noAll hn hne)).elim
  | wait hne hn hf hl =>
    cases h' with
    | idle e => exact absurd e hne
    | eager _ hc' => exact (noPE_vs hc' hn).elim
    | wait _ _ _ _ => rfl
    | exact _ _ hor _ => exact (longer_vs hf hl hor).elim
    | «prefix» _ hor _ _ _ _ _ => exact (longer_vs hf hl hor).elim
    | drop _ hor _ => exact (longer_vs hf hl hor).elim
  | exact hne hn hor hc =>
    cases h' with
    | idle e => exact absurd e hne
    | eager _ hc' => exact (noPE_vs hc' hn).elim
    | wait _ _ hf hl => exact (longer_vs hf hl hor).elim
    | exact _ _ _ hc' => rw [Chosen_eq hc hc']
    | «prefix» _ _ hnA _ _ _ _ => exact (noPA_vs hc hnA).elim
    | drop _ _ hnA => exact (noPA_vs hc (noAll hnA hne)).elim
  | @«prefix» b i hne hor hnA h1 h2 hc hmax =>
    cases h' with
    | idle e => exact absurd e hne
    | eager _ hc' => exact (PE_noPA hc' hnA).elim
    | wait _ _ hf hl => exact (longer_vs hf hl hor).elim
    | exact _ _ _ hc' => exact (noPA_vs hc' hnA).elim
    | @«prefix» b' i' _ _ _ h1' h2' hc' hmax' =>
      have hi : i = i' := by
        rcases Nat.lt_trichotomy i i' with hlt | heq | hgt
        · have := hc'.mem
          rw [hmax i' hlt h2' b' this.1] at this; exact absurd this.2 (by simp)
        · exact heq
        · have := hc.mem
          rw [hmax' i hgt h2 b this.1] at this; exact absurd this.2 (by simp)
      subst hi
      rw [Chosen_eq hc hc']
    | drop _ _ hnA' =>
      have := hc.mem
      rw [hnA' _ h1 h2 _ this.1] at this; exact absurd this.2 (by simp)
  | drop hne hor hnA =>
    cases h' with
    | idle e => exact absurd e hne
    | eager _ hc' => exact (PE_noPA hc' (noAll hnA hne)).elim
    | wait _ _ hf hl => exact (longer_vs hf hl hor).elim
    | exact _ _ _ hc' => exact (noPA_vs hc' (noAll hnA hne)).elim
    | «prefix» _ _ _ h1' h2' hc' _ =>
      have := hc'.mem
      rw [hnA _ h1' h2' _ this.1] at this; exact absurd this.2 (by simp)
    | drop _ _ _ => rfl

/-- **CPR responses**: a cursor position report is handed, at once and outside the key buffer,
    to the most specific, last registered active exact match for that single key (or to nobody);
    `eager` and longer bindings play no role. -/
theorem cpr_dispatch {I : Iface σ} {B : σ → List Binding} {G : σ → Prop} (hS : Sound I B G)
    (ps : PS σ) (hG : G ps.w) (kp : KP) :
    (∃ b, Chosen (B ps.w) (PA (I.evalF ps.w) (keysOf [kp])) b ∧
      ((cprResponse I ps kp).2.1 = [.cpr (some b.hid) kp ps.prev] ∨
       (cprResponse I ps kp).2.1 = [.cprRaise b.hid kp ps.prev])) ∨
    ((∀ c ∈ B ps.w, PA (I.evalF ps.w) (keysOf [kp]) c = false) ∧
      (cprResponse I ps kp).2.1 = [.cpr none kp ps.prev]) := by
  have gl := getMatches_last hS ps.w hG [kp]
  cases hm : (getMatches I ps.w [kp]).2.getLast? with
  | none =>
    rw [hm] at gl
    exact Or.inr ⟨pickR_none.mp gl.symm, by simp [cprResponse, hm]⟩
  | some b =>
    rw [hm] at gl
    refine Or.inl ⟨b, pickR_some gl.symm, ?_⟩
    cases ho : (I.call (getMatches I ps.w [kp]).1 ps.queue b [kp] ps.prev {}).2.2 <;>
      simp [cprResponse, hm, ho]

/-! ### non-vacuity -/

/-- the toy world has sound lookups over its flat binding list -/
theorem toy_sound : Sound toyI (fun _ => toyBs) (fun _ => True) :=
  ⟨fun _ _ _ => rfl, fun _ _ _ => rfl, fun _ _ _ _ => rfl, fun _ _ _ => trivial,
   fun _ _ _ => rfl, fun _ _ _ => rfl, fun _ _ _ _ => rfl, fun _ _ _ => trivial⟩

/-- each branch of the rule occurs in the toy world:
    `a` waits (for `a b`), `a` + timeout fires h0, `b` fires eager h3, `a c` re-examines and fires h0
    with the one-key prefix, `c` is dropped when condition 0 is off and goes to `Any` when it is on -/
example : (decideOf toyI { w := false, buffer := [.key 2 1] } false).2 matches .wait := by decide
example : (decideOf toyI { w := false, buffer := [.key 2 1] } true).2 matches .fire _ 1 true := by decide
example : (decideOf toyI { w := true, buffer := [.key 3 1] } false).2 matches .fire _ 1 true := by decide
example : (decideOf toyI { w := false, buffer := [.key 2 1, .key 5 2] } false).2
    matches .fire _ 1 false := by decide
example : (decideOf toyI { w := false, buffer := [.key 5 2] } false).2 matches .dropOne := by decide
example : (decideOf toyI { w := true, buffer := [.key 5 2] } false).2 matches .fire _ 1 true := by decide

/-- specificity: with condition 0 on, `b` matches both `Any` (h2) and `b` (h3); the one without
    wildcard is chosen although `Any` … is registered earlier, and `Chosen` is satisfiable -/
example : Chosen toyBs (PA (fun f => f.eval fun _ => true) [3]) toyBs[3] :=
  ⟨toyBs.take 3, [], rfl, by decide, by simp, by decide⟩

/-- a CPR response arriving between `a` and `b` does not break the sequence `a b` (nothing is
    bound to it here, so it goes to nobody), and the log accounts for every key -/
example : (processKeys toyI 10 { w := false, queue := [.key 2 1, .key 1 2, .key 3 3] }).2.1 =
    [.pop (.key 2 1), .before, .after, .pop (.key 1 2), .cpr none (.key 1 2) [],
     .pop (.key 3 3), .before, .ev none false, .call 1 [.key 2 1, .key 3 3] [], .after] := by
  decide

end Ptk.C04
