/-
  C06 — sessions at the level of the bytes on the wire: the renderer (`Ptk.Model.C06Full`) makes its calls,
  `Vt100_Output` (`Ptk.Model.C06Vt.vtEmit`) turns them into bytes, a terminal reads them (`interp`).

    render_vtOk, stepF_vtOk        every call of a session in inline mode is one the interpreter understands
    stepFB_sim, runFB_sim          the byte-reading terminal is in step with the abstract terminal of `runFT`
    session_bytes_eq_scratch       incremental = from scratch, for the terminal that read the bytes
-/
import Ptk.Props.C06Full
import Ptk.Props.C06Vt
namespace Ptk.C06
open Ptk.Py

variable (cw : Char → Nat)

theorem reset_vtOk (R : RState) (sc la : Bool) : ∀ c ∈ (R.reset sc la).2, c.vtOk := by
  intro c hc
  unfold RState.reset at hc
  simp only [List.mem_append, List.mem_cons, List.mem_nil_iff, or_false] at hc
  rcases hc with h | h | h | h | h | h | h
  · split at h
    · simp at h; subst h; trivial
    · cases h
  · split at h
    · simp at h; subst h; trivial
    · cases h
  · split at h
    · simp at h; subst h; trivial
    · cases h
  · split at h
    · simp at h; subst h; trivial
    · cases h
  · subst h; trivial
  · subst h; trivial
  · subst h; trivial

/-- every call `Renderer.render` makes in inline mode (no alternate screen) is one whose bytes the interpreter
    understands -/
theorem render_vtOk (e : Env) (he : e.enc = vtEnc) (hfs : e.fullScreen = false) (R : RState) (s : Screen)
    (ok : BytesOk s) (isDone m : Bool) (k sh : Nat) (hsh : sh < 7) :
    ∀ c ∈ (R.render e s isDone m k sh).2, c.vtOk := by
  have hd := diff_vtOk e he s ok R.pos (R.prevFor e k) R.lastStyle isDone R.prevWidth
  have hmain : ∀ c ∈ (if e.fullScreen && !R.inAlt then [Cmd.enterAlt] else []) ++
      ((if !R.paste then [Cmd.enablePaste] else []) ++
      ((if !R.ckm then [Cmd.resetCkm] else []) ++
      ((if m && !R.mouse then [Cmd.enableMouse] else if !m && R.mouse then [Cmd.disableMouse] else []) ++
      ((diff e s R.pos (R.prevFor e k) R.lastStyle isDone R.prevWidth).cmds ++
      ((if R.shape != some sh then [Cmd.setCursorShape sh] else []) ++ [Cmd.flush]))))), c.vtOk := by
    intro c hc
    simp only [hfs, Bool.false_and, Bool.false_eq_true, if_false, List.nil_append, List.mem_append,
      List.mem_singleton] at hc
    rcases hc with h | h | h | h | h | h
    · split at h
      · simp at h; subst h; trivial
      · cases h
    · split at h
      · simp at h; subst h; trivial
      · cases h
    · split at h
      · simp at h; subst h; trivial
      · split at h
        · simp at h; subst h; trivial
        · cases h
    · exact hd c h
    · split at h
      · simp at h; subst h; exact hsh
      · cases h
    · subst h; trivial
  intro c hc
  unfold RState.render at hc
  simp only [] at hc
  split at hc
  · simp only [List.mem_append] at hc
    rcases hc with h | h
    · exact hmain c (by simpa [List.mem_append] using h)
    · exact reset_vtOk _ _ _ c h
  · exact hmain c (by simpa [List.mem_append] using hc)

theorem erase_vtOk (R : RState) (la : Bool) : ∀ c ∈ (R.erase la).2, c.vtOk := by
  intro c hc
  unfold RState.erase at hc
  simp only [List.mem_append, List.mem_cons, List.mem_nil_iff, or_false] at hc
  rcases hc with (h | h | h | h | h | h) | h
  · subst h; trivial
  · subst h; trivial
  · subst h; trivial
  · subst h; trivial
  · subst h; trivial
  · subst h; trivial
  · exact reset_vtOk _ _ _ c h

/-- what a session operation must satisfy for the byte-level theorem: cell texts without ESC, no raw zero-width
    escapes, a cursor shape that `CursorShape` has -/
def OpBytesOk (st : FSt) : FOp → Prop
  | .render s _ => BytesOk s ∧ st.app.shape < 7
  | .finish s _ => BytesOk s ∧ st.app.shape < 7
  | _ => True

theorem envP_enc (wd : World) (fs : Bool) (a : AppSt) : (a.envP wd fs).enc = wd.enc := rfl
theorem envP_fs (wd : World) (fs : Bool) (a : AppSt) : (a.envP wd fs).fullScreen = fs := rfl

/-- every call of a session operation in inline mode is understood by the interpreter -/
theorem stepF_vtOk (wd : World) (hwd : wd.enc = vtEnc) (st : FSt) (op : FOp) (inv : FInv wd st.r)
    (ok : OpBytesOk st op) : ∀ c ∈ (stepF wd false st op).2, c.vtOk := by
  cases op with
  | setStyle _ => intro c hc; cases hc
  | setTrans _ => intro c hc; cases hc
  | setDepth _ => intro c hc; cases hc
  | setMouse _ => intro c hc; cases hc
  | setShape _ => intro c hc; cases hc
  | resize _ _ => intro c hc; cases hc
  | reportCpr _ => intro c hc; cases hc
  | cprTimeout => intro c hc; cases hc
  | render s pref =>
    obtain ⟨r1, _, _⟩ := render_refines wd false st.r st.app s false pref inv
    show ∀ c ∈ (st.r.render wd false st.app s false pref).cmds, c.vtOk
    rw [r1]
    exact render_vtOk _ (by rw [envP_enc]; exact hwd) (envP_fs wd false st.app) _ s ok.1 false _ _ _ ok.2
  | finish s pref =>
    obtain ⟨r1, _, _⟩ := render_refines wd false st.r st.app s true pref inv
    show ∀ c ∈ (st.r.render wd false st.app s true pref).cmds, c.vtOk
    rw [r1]
    exact render_vtOk _ (by rw [envP_enc]; exact hwd) (envP_fs wd false st.app) _ s ok.1 true _ _ _ ok.2
  | erase la => exact erase_vtOk st.r.toCore la
  | reset sc la => exact reset_vtOk st.r.toCore sc la
  | clear =>
    obtain ⟨q, hq, q', hq', _, e2⟩ := clear_some st.r false st.app.h
    obtain ⟨_, _, c2⟩ := requestCpr_inv wd _ false st.app.h q' (erase_inv wd st.r true inv) hq'
    intro c hc
    simp only [stepF, hq] at hc
    rw [e2] at hc
    simp only [List.mem_append, List.mem_cons, List.mem_nil_iff, or_false] at hc
    rcases hc with h | (h | h | h) | h
    · exact erase_vtOk st.r.toCore true c h
    · subst h; trivial
    · subst h; trivial
    · subst h; trivial
    · rw [c2 c h]; trivial
  | requestCpr =>
    intro c hc
    simp only [stepF] at hc
    cases hq : st.r.requestCpr false st.app.h with
    | none => rw [hq] at hc; cases hc
    | some q =>
      rw [hq] at hc
      obtain ⟨_, _, c2⟩ := requestCpr_inv wd _ false st.app.h q inv hq
      rw [c2 c hc]; trivial


/-! ### sessions at byte level -/

/-- a session as the outside world sees it: the renderer, the `Vt100_Output` object, and a terminal that reads
    the bytes written to the output stream -/
structure BSt where
  f : FSt
  v : VtSt
  b : BTerm

/-- one operation: the renderer makes its calls, `Vt100_Output` turns them into bytes, the terminal reads them
    (after a `done` render the origin moves to the cursor row, as in `stepFT`) -/
def stepFB (wd : World) (fs : Bool) (x : BSt) (op : FOp) : BSt :=
  let r := stepF wd fs x.f op
  let em := vtEmitAll x.v r.2
  let b' := interp cw x.b em.2
  ⟨r.1, em.1, match op with
    | .finish _ _ => { b' with t := b'.t.rebase }
    | _ => b'⟩

def runFB (wd : World) (fs : Bool) : BSt → List FOp → BSt
  | x, [] => x
  | x, op :: ops => runFB wd fs (stepFB cw wd fs x op) ops

/-- the byte-level terminal is in step with the abstract one -/
structure BRel (x : BSt) (T : Term) : Prop where
  t : x.b.t = T
  ground : x.b.ps = .ground
  sgr : T.sgr = x.b.sgr.toAttrs
  vis : ∀ v, x.v.cursorVisible = some v → T.visible = v
  w : 0 < T.w
  col : T.col < T.w

def RunBytesOk (wd : World) (fs : Bool) : FSt → List FOp → Prop
  | _, [] => True
  | st, op :: ops => OpBytesOk st op ∧ RunBytesOk wd fs (stepF wd fs st op).1 ops

theorem stepFB_sim (wd : World) (hwd : wd.enc = vtEnc) (x : BSt) (T : Term) (op : FOp) (inv : FInv wd x.f.r)
    (ok : OpBytesOk x.f op) (rel : BRel x T) :
    (stepFB cw wd false x op).f = (stepFT cw wd false x.f T op).1 ∧
    BRel (stepFB cw wd false x op) (stepFT cw wd false x.f T op).2 := by
  obtain ⟨rt, rg, rs, rv, rw', rc⟩ := rel
  have hx : x.b = ⟨T, x.b.sgr, .ground⟩ := by
    cases hb : x.b with
    | mk t sg ps => rw [hb] at rt rg; simp only at rt rg; subst rt; subst rg; rfl
  obtain ⟨sg', e1, e2, e3, e4, e5⟩ := interp_emitAll cw (stepF wd false x.f op).2 x.v T x.b.sgr
    (stepF_vtOk wd hwd x.f op inv ok) rw' rc rs rv
  have hb : interp cw x.b (vtEmitAll x.v (stepF wd false x.f op).2).2 =
      ⟨exec cw T (stepF wd false x.f op).2, sg', .ground⟩ := by rw [hx]; exact e1
  refine ⟨rfl, ?_⟩
  cases op with
  | finish s pref =>
    simp only [stepFB, stepFT, hb]
    exact ⟨rfl, rfl, e2, e3, by show 0 < (exec cw T _).w; rw [e4]; exact rw',
      by show (exec cw T _).col < (exec cw T _).w; rw [e4]; exact e5⟩
  | _ =>
    simp only [stepFB, stepFT, hb]
    exact ⟨rfl, rfl, e2, e3, by rw [e4]; exact rw', by rw [e4]; exact e5⟩

/-- **runFB_sim** — over every session in inline mode (style / transformation / depth changes, resizes, resets,
    cursor position reports included) whose screens hold no ESC and no raw escapes: the terminal that reads the
    BYTES written by `Vt100_Output` is, after every operation, exactly the abstract terminal of `runFT`. -/
theorem runFB_sim (wd : World) (hwd : wd.enc = vtEnc) : ∀ (ops : List FOp) (x : BSt) (T : Term),
    FInv wd x.f.r → RunBytesOk wd false x.f ops → BRel x T →
    (runFB cw wd false x ops).f = (runFT cw wd false x.f T ops).1 ∧
    BRel (runFB cw wd false x ops) (runFT cw wd false x.f T ops).2 := by
  intro ops
  induction ops with
  | nil => intro x T _ _ rel; exact ⟨rfl, rel⟩
  | cons op ops ih =>
    intro x T inv ok rel
    obtain ⟨s1, s2⟩ := stepFB_sim cw wd hwd x T op inv ok.1 rel
    have inv' : FInv wd (stepFB cw wd false x op).f.r := by
      rw [s1]; exact stepF_inv wd false x.f op inv
    have ok' : RunBytesOk wd false (stepFB cw wd false x op).f ops := by
      rw [s1]; exact ok.2
    obtain ⟨i1, i2⟩ := ih (stepFB cw wd false x op) (stepFT cw wd false x.f T op).2 inv' ok' s2
    simp only [runFB, runFT]
    rw [s1] at i1 i2
    exact ⟨i1, i2⟩

/-- **session_bytes_eq_scratch** — end to end, at the level of the bytes on the wire: after any inline-mode
    session that ends with a render of `s`, the terminal that read every byte `Vt100_Output` wrote shows, on its
    owned rows, visibly the same cells as a terminal with arbitrary contents on which a brand-new `Renderer`
    draws `s` from scratch; cursor position, cursor visibility, SGR state and autowrap agree too. -/
theorem session_bytes_eq_scratch (wd : World) (hwd : wd.enc = vtEnc) (b : Bool) (w h : Nat) (h1 : cw ' ' = 1)
    (wok : WorldOk wd) (ops : List FOp) (x : BSt) (T : Term) (s : Screen) (pref : Nat)
    (inv : RInv (wd.base w h false) x.f.r.toCore T) (finv : FInv wd x.f.r) (hw : x.f.app.w = w)
    (hh : x.f.app.h = h) (rel : BRel x T)
    (ok : RunOkF cw (OpOk cw (wd.base w h false)) wd false x.f T (ops ++ [.render s pref]))
    (okb : RunBytesOk wd false x.f (ops ++ [.render s pref]))
    (junk : Nat → Nat → TCell) :
    (∀ y c, y < (runFB cw wd false x (ops ++ [.render s pref])).b.t.h → c < w →
      ((runFB cw wd false x (ops ++ [.render s pref])).b.t.cells y c).norm =
      ((exec cw (Term.fresh w (runFB cw wd false x (ops ++ [.render s pref])).b.t.h 0 junk)
          ((RFull.init b).1.render wd false (runF wd false x.f ops).app s false pref).cmds).cells y c).norm) ∧
    (runFB cw wd false x (ops ++ [.render s pref])).b.t.row =
      (exec cw (Term.fresh w (runFB cw wd false x (ops ++ [.render s pref])).b.t.h 0 junk)
          ((RFull.init b).1.render wd false (runF wd false x.f ops).app s false pref).cmds).row ∧
    (runFB cw wd false x (ops ++ [.render s pref])).b.t.col =
      (exec cw (Term.fresh w (runFB cw wd false x (ops ++ [.render s pref])).b.t.h 0 junk)
          ((RFull.init b).1.render wd false (runF wd false x.f ops).app s false pref).cmds).col ∧
    (runFB cw wd false x (ops ++ [.render s pref])).b.t.visible =
      (exec cw (Term.fresh w (runFB cw wd false x (ops ++ [.render s pref])).b.t.h 0 junk)
          ((RFull.init b).1.render wd false (runF wd false x.f ops).app s false pref).cmds).visible ∧
    (runFB cw wd false x (ops ++ [.render s pref])).b.t.sgr =
      (exec cw (Term.fresh w (runFB cw wd false x (ops ++ [.render s pref])).b.t.h 0 junk)
          ((RFull.init b).1.render wd false (runF wd false x.f ops).app s false pref).cmds).sgr ∧
    (runFB cw wd false x (ops ++ [.render s pref])).b.t.autowrap =
      (exec cw (Term.fresh w (runFB cw wd false x (ops ++ [.render s pref])).b.t.h 0 junk)
          ((RFull.init b).1.render wd false (runF wd false x.f ops).app s false pref).cmds).autowrap := by
  obtain ⟨_, r2⟩ := runFB_sim cw wd hwd (ops ++ [.render s pref]) x T finv okb rel
  rw [r2.t]
  exact incremental_eq_scratch_full cw wd false b w h h1 wok ops x.f T s pref inv finv hw hh ok junk


section ExamplesBytes

/-- `exWorld` with a real colour name and the real encoder: under sheet 1 style string 2 has a red background -/
def exWorldV : World :=
  ⟨fun sk _ s => if s = 2 ∧ sk = 1 then { Attrs.dflt with bg := "ansired".toList } else Attrs.dflt, vtEnc⟩

theorem exWorldVOk : WorldOk exWorldV :=
  ⟨fun sk tk => by simp [exWorldV, Attrs.hasStyle, Attrs.dflt], fun d a ha => vtEnc_plain d a ha⟩

def exB0 : BSt := ⟨exSt0, VtSt.init, ⟨exT0, Sgr.dflt, .ground⟩⟩

theorem exBRel : BRel exB0 exT0 := ⟨rfl, rfl, rfl, (fun v h => by cases h), by decide, by decide⟩

theorem exOkFV : RunOkF cw1 (OpOk cw1 (exWorldV.base 3 3 false)) exWorldV false exSt0 exT0
    (exOpsF ++ [.render exBar 2]) := by
  refine ⟨rfl, ?_, rfl, ?_, rfl, ?_, trivial⟩
  · intro rop h; cases h
    exact ⟨narrow_of_check _ (by decide), by unfold WF; decide, by decide, by decide, by decide⟩
  · intro rop h; cases h
  · intro rop h; cases h
    exact ⟨narrow_of_check _ (by decide), by unfold WF; decide, by decide, by decide, by decide⟩

theorem exBarBytesOk : BytesOk exBar := ⟨by decide, rfl⟩

/-- `session_bytes_eq_scratch` is not vacuous (the style-swap session of `exOpsF`, at byte level) -/
example (junk : Nat → Nat → TCell) :=
  session_bytes_eq_scratch cw1 exWorldV rfl false 3 3 rfl exWorldVOk exOpsF exB0 exT0 exBar 2
    (init_rinv exWorldV false false 3 3 3 0 _ (by decide) (by decide) (by decide)) (init_inv exWorldV false)
    rfl rfl exBRel exOkFV
    ⟨⟨exBarBytesOk, by decide⟩, trivial, ⟨exBarBytesOk, by decide⟩, trivial⟩ junk

/-- … and the bytes are what a terminal would receive: the render after the style swap repaints
    (`ESC[J`), sets the red background `ESC[0;41m` and paints the trailing blanks and the blank row with it -/
example :
    (vtEmitAll (runFB cw1 exWorldV false exB0 exOpsF).v
      (stepF exWorldV false (runFB cw1 exWorldV false exB0 exOpsF).f (.render exBar 2)).2).2 =
      "\x1b[?25l\x1b[0m\x1b[?7l\x08\x1b[0m\x1b[J\x1b[0ma\x1b[0;41m \x0d\x1b[2C \x1b[0m\x0d\n\x1b[0;41m  \x0d\x1b[2C \x0d\x1b[A\x1b[C\x1b[?7h\x1b[0m\x1b[?12l\x1b[?25h".toList ∧
    (runFB cw1 exWorldV false exB0 (exOpsF ++ [.render exBar 2])).b.t.cells 1 2 =
      ⟨[' '], { Attrs.dflt with bg := "41".toList }⟩ := by
  decide +kernel

end ExamplesBytes

end Ptk.C06
