/-
  C11 — the (row, column) of a cursor index lies inside the lines of the split document
  (`rowOf_lt`, `colOf_le`), so the end-to-end theorem needs no hypothesis about them;
  `Document.translate_row_col_to_index` inverts them (`rowColToIndex_rowcol`, used by the mouse theorems).
-/
import Ptk.Model.C11
namespace Ptk.C11
open Ptk.Py

/-! ### Document row / column of a cursor index lie inside the split lines -/

theorem splitOn_ne_nil (t : Text) : splitOn '\n' t ≠ [] := by
  cases t with
  | nil => simp [splitOn]
  | cons x xs =>
    simp only [splitOn]
    split
    · simp
    · split <;> simp

theorem splitOn_length (t : Text) : (splitOn '\n' t).length = (t.filter (· == '\n')).length + 1 := by
  induction t with
  | nil => simp [splitOn]
  | cons x xs ih =>
    simp only [splitOn]
    by_cases hx : x = '\n'
    · simp [hx, ih]
    · simp only [hx, if_false]
      have hne := splitOn_ne_nil xs
      cases hs : splitOn '\n' xs with
      | nil => exact absurd hs hne
      | cons l ls =>
        rw [hs] at ih
        simp [hx] at ih ⊢
        omega

theorem rowOf_lt (text : Text) (cur : Nat) : rowOf text cur < (splitOn '\n' text).length := by
  rw [splitOn_length]
  unfold rowOf
  have : ((text.take cur).filter (· == '\n')).length ≤ (text.filter (· == '\n')).length :=
    ((List.take_sublist cur text).filter _).length_le
  omega

theorem takeWhile_snoc_false {α : Type} (p : α → Bool) (l : List α) (a : α) (h : p a = false) :
    (l ++ [a]).takeWhile p = l.takeWhile p := by
  induction l with
  | nil => simp [List.takeWhile, h]
  | cons x xs ih => simp only [List.cons_append, List.takeWhile_cons]; split <;> simp [ih]

theorem takeWhile_snoc_true {α : Type} (p : α → Bool) (l : List α) (a : α) (h : p a = true) :
    ((l ++ [a]).takeWhile p).length = if l.all p then l.length + 1 else (l.takeWhile p).length := by
  induction l with
  | nil => simp [List.takeWhile, h]
  | cons x xs ih =>
    simp only [List.cons_append, List.takeWhile_cons, List.all_cons]
    by_cases hx : p x = true
    · simp only [hx, if_true, List.length_cons, Bool.true_and, ih]
      split <;> simp
    · simp [hx]

theorem takeWhile_all {α : Type} (p : α → Bool) (l : List α) (h : ∀ a ∈ l, p a = true) :
    l.takeWhile p = l := by
  induction l with
  | nil => rfl
  | cons x xs ih =>
    rw [List.takeWhile_cons, if_pos (h x (by simp)), ih (fun a ha => h a (by simp [ha]))]

def notNl (c : Char) : Bool := c != '\n'

theorem colOf_eq (text : Text) (cur : Nat) :
    colOf text cur = ((text.take cur).reverse.takeWhile notNl).length := rfl

theorem colOf_le (text : Text) : ∀ cur,
    colOf text cur ≤ ((splitOn '\n' text).getD (rowOf text cur) []).length := by
  induction text with
  | nil => intro cur; simp [colOf, rowOf]
  | cons x xs ih =>
    intro cur
    cases cur with
    | zero => simp [colOf, rowOf]
    | succ k =>
      have ihk := ih k
      rw [colOf_eq] at ihk ⊢
      simp only [List.take_succ_cons, List.reverse_cons]
      by_cases hx : x = '\n'
      · subst hx
        rw [takeWhile_snoc_false _ _ _ (by simp [notNl])]
        have hr : rowOf ('\n' :: xs) (k + 1) = rowOf xs k + 1 := by simp [rowOf]
        rw [hr]
        simp only [splitOn, if_true]
        simpa [List.getD] using ihk
      · have hr : rowOf (x :: xs) (k + 1) = rowOf xs k := by simp [rowOf, hx]
        rw [hr, takeWhile_snoc_true _ _ _ (by simp [notNl, hx])]
        have hne := splitOn_ne_nil xs
        simp only [splitOn, hx, if_false]
        cases hs : splitOn '\n' xs with
        | nil => exact absurd hs hne
        | cons l ls =>
          rw [hs] at ihk
          simp only []
          by_cases hall : (xs.take k).reverse.all notNl = true
          · rw [if_pos hall]
            have hrow0 : rowOf xs k = 0 := by
              unfold rowOf
              rw [List.length_eq_zero_iff, List.filter_eq_nil_iff]
              intro a ha
              have : notNl a = true := by
                rw [List.all_eq_true] at hall
                exact hall a (by simpa using ha)
              simpa [notNl] using this
            rw [hrow0] at ihk ⊢
            have htw : ((xs.take k).reverse.takeWhile notNl) = (xs.take k).reverse := by
              apply takeWhile_all
              intro a ha; rw [List.all_eq_true] at hall; exact hall a ha
            rw [htw] at ihk
            simp [List.getD] at ihk ⊢
            omega
          · rw [if_neg hall]
            have hrowp : rowOf xs k ≠ 0 := by
              intro h0
              apply hall
              rw [List.all_eq_true]
              intro a ha
              unfold rowOf at h0
              rw [List.length_eq_zero_iff, List.filter_eq_nil_iff] at h0
              have := h0 a (by simpa using ha)
              simpa [notNl] using this
            obtain ⟨r, hr2⟩ : ∃ r, rowOf xs k = r + 1 := ⟨rowOf xs k - 1, by omega⟩
            rw [hr2] at ihk ⊢
            simpa [List.getD] using ihk

/-! ### `translate_row_col_to_index` undoes (cursor_position_row, cursor_position_col) -/

theorem rowOf_cons (x : Char) (xs : Text) (k : Nat) :
    rowOf (x :: xs) (k + 1) = rowOf xs k + (if x = '\n' then 1 else 0) := by
  by_cases hx : x = '\n' <;> simp [rowOf, hx]

theorem all_notNl_iff_row0 (xs : Text) (k : Nat) :
    (xs.take k).reverse.all notNl = true ↔ rowOf xs k = 0 := by
  unfold rowOf
  rw [List.length_eq_zero_iff, List.filter_eq_nil_iff, List.all_eq_true]
  constructor
  · intro h a ha
    have := h a (by simpa using ha)
    simpa [notNl] using this
  · intro h a ha
    have := h a (by simpa using ha)
    simpa [notNl] using this

theorem colOf_cons (x : Char) (xs : Text) (k : Nat) :
    colOf (x :: xs) (k + 1) =
      if x = '\n' then colOf xs k else if rowOf xs k = 0 then colOf xs k + 1 else colOf xs k := by
  rw [colOf_eq, colOf_eq]
  simp only [List.take_succ_cons, List.reverse_cons]
  by_cases hx : x = '\n'
  · subst hx
    rw [takeWhile_snoc_false _ _ _ (by simp [notNl])]; simp
  · rw [if_neg hx, takeWhile_snoc_true _ _ _ (by simp [notNl, hx])]
    by_cases hall : (xs.take k).reverse.all notNl = true
    · rw [if_pos hall, if_pos ((all_notNl_iff_row0 xs k).mp hall)]
      rw [takeWhile_all _ _ (by intro a ha; rw [List.all_eq_true] at hall; exact hall a ha)]
    · rw [if_neg hall, if_neg (fun h => hall ((all_notNl_iff_row0 xs k).mpr h))]

/-- `translate_row_col_to_index` for a non-negative column -/
theorem rowColToIndex_nat (text : Text) (row col : Nat) (h : row < (splitOn '\n' text).length) :
    rowColToIndex text row (col : Int) =
      min ((((splitOn '\n' text).take row).map fun (l : Text) => l.length + 1).sum +
        min col ((splitOn '\n' text).getD row []).length) text.length := by
  unfold rowColToIndex
  simp only [h, if_true]
  omega

/-- **translate_row_col_to_index inverts (cursor_position_row, cursor_position_col)** -/
theorem rowColToIndex_rowcol (text : Text) : ∀ cur, cur ≤ text.length →
    rowColToIndex text (rowOf text cur) (colOf text cur : Nat) = cur := by
  induction text with
  | nil => intro cur h; simp at h; subst h; simp [rowColToIndex, rowOf, colOf, splitOn]
  | cons x xs ih =>
    intro cur h
    rw [rowColToIndex_nat _ _ _ (rowOf_lt _ _)]
    cases cur with
    | zero => simp [rowOf, colOf]
    | succ k =>
      have hk : k ≤ xs.length := by simpa using h
      have ihk := ih k hk
      rw [rowColToIndex_nat _ _ _ (rowOf_lt _ _)] at ihk
      rw [rowOf_cons, colOf_cons]
      have hne := splitOn_ne_nil xs
      by_cases hx : x = '\n'
      · subst hx
        simp only [if_true, splitOn, List.take_succ_cons, List.map_cons, List.sum_cons, List.length_nil,
          List.length_cons]
        have : ((([] : Text) :: splitOn '\n' xs).getD (rowOf xs k + 1) []) = (splitOn '\n' xs).getD (rowOf xs k) [] := by
          simp [List.getD]
        rw [this]; omega
      · simp only [hx, if_false, Nat.add_zero, splitOn]
        cases hs : splitOn '\n' xs with
        | nil => exact absurd hs hne
        | cons l ls =>
          rw [hs] at ihk
          simp only [List.length_cons]
          by_cases hr : rowOf xs k = 0
          · rw [hr] at ihk ⊢
            simp only [if_true, List.take_zero, List.map_nil, List.sum_nil, Nat.zero_add] at ihk ⊢
            simp only [List.getD, List.getElem?_cons_zero, Option.getD_some, List.length_cons] at ihk ⊢
            omega
          · obtain ⟨r, hr2⟩ : ∃ r, rowOf xs k = r + 1 := ⟨rowOf xs k - 1, by omega⟩
            rw [hr2] at ihk ⊢
            simp only [Nat.succ_ne_zero, if_false, List.take_succ_cons, List.map_cons, List.sum_cons,
              List.length_cons] at ihk ⊢
            simp only [List.getD, List.getElem?_cons_succ] at ihk ⊢
            omega

end Ptk.C11
