/-
  C11 — the (row, column) of a cursor index lies inside the lines of the split document
  (`rowOf_lt`, `colOf_le`), so the end-to-end theorem needs no hypothesis about them.
-/
import Ptk.Model.C11
namespace Ptk.C11
open Ptk.Py

/-! ### Document row / column of a cursor index lie inside the split lines -/

theorem splitOn_ne_nil (t : Text) : splitOn '\n' t ≠ [] := by
  cases t with
  | nil => simp [splitOn]
  | cons x xs =>
    simp only [splitOn]
    split
    · simp
    · split <;> simp

theorem splitOn_length (t : Text) : (splitOn '\n' t).length = (t.filter (· == '\n')).length + 1 := by
  induction t with
  | nil => simp [splitOn]
  | cons x xs ih =>
    simp only [splitOn]
    by_cases hx : x = '\n'
    · simp [hx, ih]
    · simp only [hx, if_false]
      have hne := splitOn_ne_nil xs
      cases hs : splitOn '\n' xs with
      | nil => exact absurd hs hne
      | cons l ls =>
        rw [hs] at ih
        simp [hx] at ih ⊢
        omega

theorem rowOf_lt (text : Text) (cur : Nat) : rowOf text cur < (splitOn '\n' text).length := by
  rw [splitOn_length]
  unfold rowOf
  have : ((text.take cur).filter (· == '\n')).length ≤ (text.filter (· == '\n')).length :=
    ((List.take_sublist cur text).filter _).length_le
  omega

theorem takeWhile_snoc_false {α : Type} (p : α → Bool) (l : List α) (a : α) (h : p a = false) :
    (l ++ [a]).takeWhile p = l.takeWhile p := by
  induction l with
  | nil => simp [List.takeWhile, h]
  | cons x xs ih => simp only [List.cons_append, List.takeWhile_cons]; split <;> simp [ih]

theorem takeWhile_snoc_true {α : Type} (p : α → Bool) (l : List α) (a : α) (h : p a = true) :
    ((l ++ [a]).takeWhile p).length = if l.all p then l.length + 1 else (l.takeWhile p).length := by
  induction l with
  | nil => simp [List.takeWhile, h]
  | cons x xs ih =>
    simp only [List.cons_append, List.takeWhile_cons, List.all_cons]
    by_cases hx : p x = true
    · simp only [hx, if_true, List.length_cons, Bool.true_and, ih]
      split <;> simp
    · simp [hx]

theorem takeWhile_all {α : Type} (p : α → Bool) (l : List α) (h : ∀ a ∈ l, p a = true) :
    l.takeWhile p = l := by
  induction l with
  | nil => rfl
  | cons x xs ih =>
    rw [List.takeWhile_cons, if_pos (h x (by simp)), ih (fun a ha => h a (by simp [ha]))]

def notNl (c : Char) : Bool := c != '\n'

theorem colOf_eq (text : Text) (cur : Nat) :
    colOf text cur = ((text.take cur).reverse.takeWhile notNl).length := rfl

theorem colOf_le (text : Text) : ∀ cur,
    colOf text cur ≤ ((splitOn '\n' text).getD (rowOf text cur) []).length := by
  induction text with
  | nil => intro cur; simp [colOf, rowOf]
  | cons x xs ih =>
    intro cur
    cases cur with
    | zero => simp [colOf, rowOf]
    | succ k =>
      have ihk := ih k
      rw [colOf_eq] at ihk ⊢
      simp only [List.take_succ_cons, List.reverse_cons]
      by_cases hx : x = '\n'
      · subst hx
        rw [takeWhile_snoc_false _ _ _ (by simp [notNl])]
        have hr : rowOf ('\n' :: xs) (k + 1) = rowOf xs k + 1 := by simp [rowOf]
        rw [hr]
        simp only [splitOn, if_true]
        simpa [List.getD] using ihk
      · have hr : rowOf (x :: xs) (k + 1) = rowOf xs k := by simp [rowOf, hx]
        rw [hr, takeWhile_snoc_true _ _ _ (by simp [notNl, hx])]
        have hne := splitOn_ne_nil xs
        simp only [splitOn, hx, if_false]
        cases hs : splitOn '\n' xs with
        | nil => exact absurd hs hne
        | cons l ls =>
          rw [hs] at ihk
          simp only []
          by_cases hall : (xs.take k).reverse.all notNl = true
          · rw [if_pos hall]
            have hrow0 : rowOf xs k = 0 := by
              unfold rowOf
              rw [List.length_eq_zero_iff, List.filter_eq_nil_iff]
              intro a ha
              have : notNl a = true := by
                rw [List.all_eq_true] at hall
                exact hall a (by simpa using ha)
              simpa [notNl] using this
            rw [hrow0] at ihk ⊢
            have htw : ((xs.take k).reverse.takeWhile notNl) = (xs.take k).reverse := by
              apply takeWhile_all
              intro a ha; rw [List.all_eq_true] at hall; exact hall a ha
            rw [htw] at ihk
            simp [List.getD] at ihk ⊢
            omega
          · rw [if_neg hall]
            have hrowp : rowOf xs k ≠ 0 := by
              intro h0
              apply hall
              rw [List.all_eq_true]
              intro a ha
              unfold rowOf at h0
              rw [List.length_eq_zero_iff, List.filter_eq_nil_iff] at h0
              have := h0 a (by simpa using ha)
              simpa [notNl] using this
            obtain ⟨r, hr2⟩ : ∃ r, rowOf xs k = r + 1 := ⟨rowOf xs k - 1, by omega⟩
            rw [hr2] at ihk ⊢
            simpa [List.getD] using ihk

end Ptk.C11
