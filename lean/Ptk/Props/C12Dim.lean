/-
  C12 — laws of the dimension algebra (layout/dimension.py `Dimension.__init__`, `exact`, `zero`,
  `is_zero`, `to_dimension`, `sum_layout_dimensions`; containers.py `Window._merge_dimensions`).
  The basic facts (`mkDim_valid`, `mkDim_none_iff`, `sumDims_eq`, `maxDims_valid`,
  `maxDims_min_ge`) are in `Ptk.Props.C12`, `mergeDims_some` in `Ptk.Props.C12Tree`.
-/
import Ptk.Props.C12Tree
namespace Ptk.C12

/-! ### `Dimension(...)` -/

/-- the preferred size is the given one (default: the minimum) clamped into `min..max` -/
theorem mkDim_pref {mn mx w pr : Option Nat} {d : Dim} (h : mkDim mn mx w pr = some d) :
    d.pref = Nat.min (Nat.max (pr.getD (mn.getD Gen.C12.defaultMin)) (mn.getD Gen.C12.defaultMin))
      (mx.getD Gen.C12.defaultMax) := by
  unfold mkDim at h
  simp only at h
  split_ifs at h <;> simp only [Option.some.injEq] at h <;> subst h <;>
    simp only [Nat.min_def, Nat.max_def] <;> split_ifs <;> omega

/-- `Dimension()`: nothing specified -/
theorem mkDim_default : mkDim none none none none
    = some ⟨Gen.C12.defaultMin, Gen.C12.defaultMin, Gen.C12.defaultMax, Gen.C12.defaultWeight⟩ := by
  decide

/-- `Dimension.exact(n)`: min = preferred = max = n, default weight; never raises -/
theorem exact_eq (n : Nat) : Dim.exact n = some ⟨n, n, n, Gen.C12.defaultWeight⟩ := by
  unfold Dim.exact mkDim
  simp

/-- `Dimension.zero()` is a zero dimension -/
theorem zero_isZero : ∃ d, Dim.zero = some d ∧ d.isZero = true :=
  ⟨⟨0, 0, 0, Gen.C12.defaultWeight⟩, exact_eq 0, rfl⟩

/-- `is_zero()`: preferred size 0 or maximum 0 -/
theorem isZero_iff (d : Dim) : d.isZero = true ↔ d.pref = 0 ∨ d.max = 0 := by
  unfold Dim.isZero
  simp

/-- a valid dimension with maximum 0 has preferred size 0 (so `is_zero` is `preferred == 0`) -/
theorem isZero_iff_pref {d : Dim} (hv : d.Valid) : d.isZero = true ↔ d.pref = 0 := by
  rw [isZero_iff]
  unfold Dim.Valid at hv
  constructor
  · rintro (h | h) <;> omega
  · exact Or.inl

example : mkDim (some 3) (some 2) none none = none := by decide
example : mkDim (some 2) (some 5) none (some 9) = some ⟨2, 5, 5, Gen.C12.defaultWeight⟩ := by decide

/-! ### `to_dimension` -/

/-- a callable is replaced by what it returns -/
theorem toDimension_call (f : AnyDim) : toDimension (.call f) = toDimension f := rfl

theorem toDimension_int (n : Nat) :
    toDimension (.int n) = some ⟨n, n, n, Gen.C12.defaultWeight⟩ := exact_eq n

theorem toDimension_none : toDimension .none
    = some ⟨Gen.C12.defaultMin, Gen.C12.defaultMin, Gen.C12.defaultMax, Gen.C12.defaultWeight⟩ :=
  mkDim_default

/-- whatever `to_dimension` returns satisfies min ≤ preferred ≤ max; it raises exactly when the
    `Dimension` inside cannot be constructed -/
theorem toDimension_valid : ∀ {a : AnyDim} {d : Dim}, toDimension a = some d → d.Valid
  | .none, _, h => mkDim_valid h
  | .int _, _, h => mkDim_valid h
  | .dim _, _, h => mkDim_valid h
  | .call f, _, h => toDimension_valid (a := f) h

/-- the innermost value of a chain of callables -/
def AnyDim.core : AnyDim → AnyDim
  | .call f => f.core
  | a => a

theorem toDimension_core : ∀ a : AnyDim, toDimension a = toDimension a.core
  | .none => rfl
  | .int _ => rfl
  | .dim _ => rfl
  | .call f => toDimension_core f

example : toDimension (.call (.call (.int 4))) = some ⟨4, 4, 4, Gen.C12.defaultWeight⟩ := by decide
example : toDimension (.dim ⟨some 3, some 1, none, none⟩) = none := by decide

/-! ### `sum_layout_dimensions`: the children fit iff the sum of their minimums fits -/

theorem sumDims_min_le_iff {ds : List Dim} (hv : ValidDims ds) (avail : Nat) :
    (∃ d, sumDims ds = some d ∧ d.min ≤ avail) ↔ sumOf (·.min) ds ≤ avail := by
  rw [sumDims_eq hv]
  simp

/-- `sum_layout_dimensions` of a concatenation is the sum of the sums (componentwise) -/
theorem sumOf_append (f : Dim → Nat) (a b : List Dim) : sumOf f (a ++ b) = sumOf f a + sumOf f b := by
  unfold sumOf
  simp

/-! ### `Window._merge_dimensions` -/

/-- **`dont_extend`**: when the window has a preferred size (its own or the control's), that
    size is also its maximum — the split never makes it larger. -/
theorem mergeDims_dontExtend {s : Spec} {content : Option Nat} {d : Dim}
    (hp : s.pr.isSome = true ∨ content.isSome = true)
    (h : mergeDims s content true = some d) : d.max = d.pref := by
  unfold mergeDims at h
  rcases h0 : mkDim s.mn s.mx s.w s.pr with _ | d0
  · rw [h0] at h; simp at h
  rw [h0] at h
  simp only at h
  -- there is a preferred size `v`
  obtain ⟨v, hv⟩ : ∃ v, (Option.map (fun v => clampSpec v d0 s.mn s.mx)
      (if s.pr.isSome = true then some d0.pref else content)) = some v := by
    rcases hp with hp | hp
    · rw [if_pos hp]; exact ⟨_, rfl⟩
    · split_ifs
      · exact ⟨_, rfl⟩
      · obtain ⟨c, hc⟩ := Option.isSome_iff_exists.mp hp
        rw [hc]; exact ⟨_, rfl⟩
  rw [hv] at h
  simp only [Bool.true_and, Option.isSome_some, if_true, Option.map_some] at h
  obtain ⟨_, f2, _⟩ := mkDim_fields h
  have f4 := mkDim_pref h
  have hval := mkDim_valid h
  unfold Dim.Valid at hval
  simp only [Option.getD_some] at f2 f4
  rw [f2, f4]
  simp only [Nat.min_def, Nat.max_def]
  split_ifs <;> omega

/-- without `dont_extend` and without any preferred size the window reports its explicit bounds
    unchanged (a `DummyControl` window) -/
theorem mergeDims_plain (s : Spec) (hpr : s.pr = none) :
    mergeDims s none false = mkDim s.mn s.mx s.w none := by
  have := windowDim_eq_mergeDims s.mn s.mx s.w none
  rw [windowDim_eq_mkDim] at this
  cases s
  simp only at hpr
  subst hpr
  exact this.symm

example : mergeDims ⟨some 1, none, none, none⟩ (some 6) true = some ⟨1, 6, 6, 1⟩ := by decide
example : mergeDims ⟨none, some 4, none, none⟩ (some 6) true = some ⟨0, 4, 4, 1⟩ := by decide

end Ptk.C12
