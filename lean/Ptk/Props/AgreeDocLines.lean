/-
  Cross-model agreement, cluster "Document queries and motions" (src/prompt_toolkit/document.py).

  Lines module: coordinates (`translate_row_col_to_index`, `translate_index_to_position`,
  `cursor_position_row/col`, `lines`, `_line_start_indexes`, `on_first_line`, `on_last_line`) and the
  character / line motions (`get_cursor_left/right/up/down_position`, `get_start/end_of_line_position`,
  `get_start/end_of_document_position`) of C08, C09, C01, C14, C11 against the canonical C02.

  Where a model inlines the query into a handler (C08 `textObject`, C09 `moveRight`, C14 `cursorLeft` …)
  the theorem is about the inlined expression.  Hypothesis `cur ≤ text.length` = the assertion of
  `Document.__init__`; it is only assumed where stated.
-/
import Ptk.Props.AgreeDocBase
import Ptk.Props.C02Para
import Ptk.Model.C11
import Ptk.Model.C01All
import Ptk.Model.C09Ext
namespace Ptk.AgreeDoc
open Ptk.Py Ptk.C02

theorem pre_length_sum (A : List Text) : (pre A).length = (A.map (·.length + 1)).sum := by
  induction A with
  | nil => rfl
  | cons a as ih => simp [pre, ih]; omega

/-- closed form of `C02.rowColToIndex` for a non-negative row -/
theorem rowColToIndex_nat (t : Text) (r : Nat) (c : Int) :
    rowColToIndex t (r : Int) c =
      (((lines t).take (min r ((lines t).length - 1))).map (·.length + 1)).sum +
        (max 0 (min c (((lines t).getD (min r ((lines t).length - 1)) []).length : Int))).toNat ∧
    (((lines t).take (min r ((lines t).length - 1))).map (·.length + 1)).sum +
        ((lines t).getD (min r ((lines t).length - 1)) []).length ≤ t.length := by
  generalize hls : lines t = ls
  generalize hr'' : min r (ls.length - 1) = r'
  subst hls
  have hne : lines t ≠ [] := splitOn_ne_nil _ _
  have hpos : 0 < (lines t).length := List.length_pos_iff.mpr hne
  have hr' : r' < (lines t).length := by omega
  have key : rowColToIndex t (r : Int) c = rowColToIndex t (r' : Int) c := by
    rcases Nat.lt_or_ge r (lines t).length with h | h
    · have : r' = r := by omega
      rw [this]
    · rw [rowColToIndex_clamp_row _ _ _ (by omega)]
      have : r' = (lines t).length - 1 := by omega
      rw [this]
  have hN := normal_of_rowcol t r' 0 hr' (Nat.zero_le _)
  have hlen : ((lines t).take r').length = r' := by simp; omega
  have e := hN.rowColToIndex c
  have hL := hN.length
  rw [hlen] at e
  have hg : (lines t).getD r' [] = (lines t)[r'] := by simp [List.getD, List.getElem?_eq_getElem hr']
  simp only [List.take_zero, List.drop_zero, List.nil_append, List.length_nil] at e hL
  rw [key, e, hg, pre_length_sum]
  refine ⟨by omega, ?_⟩
  rw [pre_length_sum] at hL
  omega


/-! ### `Document.translate_row_col_to_index` -/

/-- document.py::Document.translate_row_col_to_index — `C02.rowColToIndex` (row, col ≥ 0) vs `C08.rowColToIndex` -/
theorem rowColToIndex_08 (t : Text) (r c : Nat) :
    C08.rowColToIndex t r c = C02.rowColToIndex t (r : Int) (c : Int) := by
  obtain ⟨e, hle⟩ := rowColToIndex_nat t r (c : Int)
  rw [e]
  simp only [C08.rowColToIndex, C08.lines]
  show min _ _ = _
  have : C02.lines t = splitOn '\n' t := rfl
  rw [this] at hle ⊢
  omega

/-- document.py::Document.translate_row_col_to_index — `C02.rowColToIndex` (row, col ≥ 0) vs `C14.rowColToIndex` -/
theorem rowColToIndex_14 (t : Text) (r c : Nat) :
    C14.rowColToIndex t r c = C02.rowColToIndex t (r : Int) (c : Int) := by
  obtain ⟨e, hle⟩ := rowColToIndex_nat t r (c : Int)
  rw [e]
  have hne : splitOn '\n' t ≠ [] := splitOn_ne_nil _ _
  have hpos : 0 < (splitOn '\n' t).length := List.length_pos_iff.mpr hne
  have this : C02.lines t = splitOn '\n' t := rfl
  rw [this] at hle ⊢
  have hr : (if r < (splitOn '\n' t).length then r else (splitOn '\n' t).length - 1)
      = min r ((splitOn '\n' t).length - 1) := by split <;> omega
  simp only [C14.rowColToIndex, hr]
  omega

/-- document.py::Document.translate_row_col_to_index — `C02.rowColToIndex` (row ≥ 0, any col) vs `C11.rowColToIndex` -/
theorem rowColToIndex_11 (t : Text) (r : Nat) (c : Int) :
    C11.rowColToIndex t r c = C02.rowColToIndex t (r : Int) c := by
  obtain ⟨e, hle⟩ := rowColToIndex_nat t r c
  rw [e]
  have hne : splitOn '\n' t ≠ [] := splitOn_ne_nil _ _
  have hpos : 0 < (splitOn '\n' t).length := List.length_pos_iff.mpr hne
  have this : C02.lines t = splitOn '\n' t := rfl
  rw [this] at hle ⊢
  have hr : (if r < (splitOn '\n' t).length then r else (splitOn '\n' t).length - 1)
      = min r ((splitOn '\n' t).length - 1) := by split <;> omega
  simp only [C11.rowColToIndex, hr]
  omega


/-! ### indexes beyond the end of the text (outside the `Document` invariant) -/

theorem startsOf_le (p : Nat) (A : List Text) (m : Text) :
    ∀ y ∈ startsOf p (A ++ [m]), y ≤ p + (pre A).length := by
  induction A generalizing p with
  | nil => simp [startsOf, pre]
  | cons a as ih =>
    intro y hy
    simp only [List.cons_append, startsOf, List.mem_cons] at hy
    rcases hy with rfl | hy
    · omega
    · have := ih _ y hy
      simp only [pre, List.length_append, List.length_cons]
      omega

theorem bisectRight_all (a : List Nat) (x : Nat) (h : ∀ y ∈ a, y ≤ x) : bisectRight a x = a.length := by
  unfold bisectRight
  induction a with
  | nil => rfl
  | cons b bs ih =>
    have hb : b ≤ x := h b (by simp)
    rw [List.takeWhile_cons_of_pos (by simpa using hb)]
    simp [ih (fun y hy => h y (by simp [hy]))]

/-- beyond the end of the text `_find_line_start_index` answers as at the end -/
theorem findLineStart_beyond (t : Text) (i : Nat) (hi : t.length ≤ i) :
    C02.findLineStart t i = C02.findLineStart t t.length := by
  obtain ⟨A, m1, m2, B, h⟩ := exists_normal' t t.length (Nat.le_refl _)
  have hd := h.drop
  have hm2 : m2 = [] ∧ B = [] := by
    have : t.drop t.length = [] := by simp
    rw [this] at hd
    cases m2 with
    | nil => cases B with
      | nil => exact ⟨rfl, rfl⟩
      | cons b bs => simp [post] at hd
    | cons c cs => simp at hd
  obtain ⟨rfl, rfl⟩ := hm2
  have hs : lineStarts t = startsOf 0 (A ++ [m1]) := by rw [h.lineStarts]; simp
  have hall : ∀ y ∈ lineStarts t, y ≤ t.length := by
    intro y hy
    rw [hs] at hy
    have := startsOf_le 0 A m1 y hy
    have := h.idx
    omega
  have hsorted : (lineStarts t).Pairwise (· ≤ ·) := by rw [lineStarts_eq]; exact (startsOf_sorted 0 _).2
  unfold C02.findLineStart
  simp only
  rw [bisectRightAlg_eq _ hsorted, bisectRightAlg_eq _ hsorted,
    bisectRight_all _ _ hall, bisectRight_all _ _ (fun y hy => Nat.le_trans (hall y hy) hi)]

theorem findLineStart_min (t : Text) (i : Nat) :
    C02.findLineStart t i = C02.findLineStart t (min i t.length) := by
  rcases Nat.le_total i t.length with h | h
  · rw [Nat.min_eq_left h]
  · rw [Nat.min_eq_right h, findLineStart_beyond t i h]

theorem row_min (t : Text) (i : Nat) : C02.row ⟨t, i⟩ = C02.row ⟨t, min i t.length⟩ := by
  simp only [C02.row]; rw [findLineStart_min]

theorem take_min (t : Text) (i : Nat) : t.take (min i t.length) = t.take i := by
  rcases Nat.le_total i t.length with h | h
  · rw [Nat.min_eq_left h]
  · rw [Nat.min_eq_right h, List.take_of_length_le h, List.take_length]

theorem lineBefore_min (t : Text) (i : Nat) : C02.lineBefore ⟨t, min i t.length⟩ = C02.lineBefore ⟨t, i⟩ := by
  simp only [C02.lineBefore, C02.Doc.before, take_min]


/-! ### `Document.cursor_position_row` / `cursor_position_col` -/

theorem filter_nl_noNL (p : Char → Bool) (hp : ∀ c, p c = true ↔ c = '\n') (m : Text) (hm : NoNL m) :
    m.filter p = [] := by
  rw [List.filter_eq_nil_iff]
  intro a ha hpa
  exact hm ((hp a).mp hpa ▸ ha)

theorem filter_nl_pre (p : Char → Bool) (hp : ∀ c, p c = true ↔ c = '\n') (A : List Text) (hA : AllNoNL A) :
    ((pre A).filter p).length = A.length := by
  induction A with
  | nil => rfl
  | cons a as ih =>
    have ha : NoNL a := hA a (by simp)
    have has : AllNoNL as := fun l hl => hA l (by simp [hl])
    have hn : p '\n' = true := (hp '\n').mpr rfl
    simp [pre, List.filter_append, filter_nl_noNL p hp a ha, hn, ih has]

theorem nlCount_eq_row' (p : Char → Bool) (hp : ∀ c, p c = true ↔ c = '\n') (t : Text) (i : Nat)
    (hi : i ≤ t.length) : ((t.take i).filter p).length = C02.row ⟨t, i⟩ := by
  obtain ⟨A, m1, m2, B, h⟩ := exists_normal' t i hi
  rw [h.row, h.take, List.filter_append, filter_nl_noNL p hp m1 h.h1, List.append_nil, filter_nl_pre p hp A h.hA]

/-- number of newlines before index `i` = the row of C02 (every index, also beyond the end) -/
theorem nlCount_eq_row (p : Char → Bool) (hp : ∀ c, p c = true ↔ c = '\n') (t : Text) (i : Nat) :
    ((t.take i).filter p).length = C02.row ⟨t, i⟩ := by
  rw [row_min, ← take_min, nlCount_eq_row' p hp t _ (Nat.min_le_right _ _)]

theorem col_eq_lineBefore (t : Text) (i : Nat) (hi : i ≤ t.length) :
    C02.col ⟨t, i⟩ = (C02.lineBefore ⟨t, i⟩).length := by
  obtain ⟨A, m1, m2, B, h⟩ := exists_normal' t i hi
  rw [h.col, h.lineBefore]

theorem lineBefore_length_le (t : Text) (i : Nat) : (C02.lineBefore ⟨t, i⟩).length ≤ min i t.length := by
  simp only [C02.lineBefore, C02.rpartLast, C02.Doc.before, List.length_reverse]
  have := (List.takeWhile_sublist (l := (t.take i).reverse) (fun c => decide (c ≠ '\n'))).length_le
  simp only [List.length_reverse, List.length_take] at this
  exact this

/-- `C08.lineStart` in terms of C02's `lineBefore` (all indexes) -/
theorem lineStart08 (t : Text) (i : Nat) :
    C08.lineStart t i = min i t.length - (C02.lineBefore ⟨t, i⟩).length := by
  simp only [C08.lineStart, C02.lineBefore, C02.rpartLast, C02.Doc.before, notNl08, List.length_reverse,
    List.length_take]

/-- document.py::Document.cursor_position_row — `C02.row` vs `C08.Doc.row` / `C08.rowOf` -/
theorem row_08 (d : C08.Doc) : d.row = C02.row (of08 d) :=
  nlCount_eq_row _ (by simp) d.text d.cur

/-- document.py::Document.cursor_position_row — `C02.row` vs `C14.row` -/
theorem row_14 (t : Text) (cur : Nat) : C14.row t cur = C02.row ⟨t, cur⟩ :=
  nlCount_eq_row _ (by simp) t cur

/-- (auxiliary) `C09.row`, `C01.cursorRow` -/
theorem row_09 (b : C09.Buf) : C09.row b = C02.row (of09 b) :=
  nlCount_eq_row _ (by simp [C09.isNl]) b.text b.cur
theorem row_01 (b : C01.Buf) : C01.cursorRow b = C02.row (of01 b) :=
  nlCount_eq_row _ (by simp) b.text b.cur

/-- document.py::Document.cursor_position_col — `C02.col` vs `C08.Doc.col` -/
theorem col_08 (d : C08.Doc) : d.col = C02.col (of08 d) := by
  obtain ⟨A, m1, m2, B, h⟩ := exists_normal' d.text (min d.cur d.text.length) (Nat.min_le_right _ _)
  have h1 := h.findLineStart
  have h2 := h.lineBefore
  have h3 := h.idx
  rw [lineBefore_min] at h2
  rw [← findLineStart_min] at h1
  simp only [C08.Doc.col, lineStart08, of08, C02.col, h1, h2]
  omega

/-- outside the `Document` invariant (`cur > len(text)`) `C14.col` (= `len(current_line_before_cursor)`) and
    `C02.col` (= `cur - line start`, as the code computes it) differ -/
theorem col_14_outside_disagree : C14.col ['a'] 3 ≠ C02.col ⟨['a'], 3⟩ := by decide

/-- document.py::Document.cursor_position_col — `C02.col` vs `C14.col` -/
theorem col_14 (t : Text) (cur : Nat) (hc : cur ≤ t.length) : C14.col t cur = C02.col ⟨t, cur⟩ := by
  rw [col_eq_lineBefore t cur hc, C14.col, lineBefore_14]

/-- (auxiliary) `C09.col`, `C01.cursorCol` -/
theorem col_09 (b : C09.Buf) (hc : b.cur ≤ b.text.length) : C09.col b = C02.col (of09 b) := by
  rw [of09, col_eq_lineBefore b.text b.cur hc, C09.col, lineBefore_09]; rfl
theorem col_01 (b : C01.Buf) (hc : b.cur ≤ b.text.length) : C01.cursorCol b = C02.col (of01 b) := by
  rw [of01, col_eq_lineBefore b.text b.cur hc, C01.cursorCol, lineBefore_01]; rfl


/-! ### `Document.lines`, `Document._line_start_indexes`, `Document.translate_index_to_position` -/

/-- document.py::Document.lines — `C02.lines` vs the `splitOn '\n' d.text` of `C01.CState.getLines` -/
theorem lines_01 (t : Text) : splitOn '\n' t = C02.lines t := rfl
/-- (auxiliary) `C08.lines`, `C08.lineCount`, `C14.lineCount` -/
theorem lines_08 (t : Text) : C08.lines t = C02.lines t := rfl
theorem lineCount_08 (t : Text) : C08.lineCount t = C02.lineCount t := rfl
theorem lineCount_14 (t : Text) : C14.lineCount t = C02.lineCount t := rfl

theorem lineStartsGo_eq (ls : List Text) (p : Nat) : C01.lineStartsGo ls p = startsOf p ls := by
  induction ls generalizing p with
  | nil => rfl
  | cons l ls ih => simp [C01.lineStartsGo, startsOf, ih]

/-- document.py::Document._line_start_indexes — `C02.lineStarts` vs `C01.lineStarts` (applied to the
    lines of the text, as `C01.CState.getIndexes` does) -/
theorem lineStarts_01 (t : Text) : C01.lineStarts (splitOn '\n' t) = C02.lineStarts t := by
  rw [lineStarts_eq, C01.lineStarts, lineStartsGo_eq]; rfl

/-- document.py::Document.translate_index_to_position — `C02.indexToPos` vs the pair
    `(C08.rowOf t i, i - C08.lineStart t i)` (`C08.Doc.row/col`, `C08.rowI/colI` for `i ≥ 0`) -/
theorem indexToPos_08 (t : Text) (i : Nat) :
    (C08.rowOf t i, i - C08.lineStart t i) = C02.indexToPos t i := by
  have hr := row_08 ⟨t, i⟩
  have hc := col_08 ⟨t, i⟩
  simp only [C08.Doc.row, C08.Doc.col, of08] at hr hc
  rw [hr, hc]; rfl

/-! ### `Document.on_first_line` / `on_last_line` -/

/-- document.py::Document.on_first_line — `C02.onFirstLine` vs the test `d.row = 0` of `C08.textObject … .k` -/
theorem onFirstLine_08 (d : C08.Doc) :
    decide (d.row = 0) = C02.onFirstLine (of08 d) := by
  simp only [C02.onFirstLine, row_08 d]
  rw [Bool.eq_iff_iff]; simp

/-- document.py::Document.on_last_line — `C02.onLastLine` vs the test `d.row = lineCount d.text - 1` of
    `C08.textObject … .j` -/
theorem onLastLine_08 (d : C08.Doc) :
    decide (d.row = C08.lineCount d.text - 1) = C02.onLastLine (of08 d) := by
  simp only [C02.onLastLine, row_08 d, lineCount_08]
  rw [Bool.eq_iff_iff]; simp only [of08, beq_iff_eq]; exact decide_eq_true_iff

/-! ### `get_cursor_left_position` / `get_cursor_right_position` -/

/-- document.py::Document.get_cursor_left_position — `C02.cursorLeft` (count ≥ 0) vs `C08.textObject … .h` -/
theorem cursorLeft_08 (isSpace sp : Char → Bool) (d : C08.Doc) (count : Nat) :
    (C08.textObject isSpace sp d count .h).start = C02.cursorLeft (of08 d) (count : Int) := by
  have h : ¬ ((count : Int) < 0) := by omega
  simp only [C08.textObject, C02.cursorLeft, h, if_false, col_08 d]
  omega

/-- document.py::Document.get_cursor_right_position — `C02.cursorRight` (count ≥ 0) vs `C08.textObject … .l` -/
theorem cursorRight_08 (isSpace sp : Char → Bool) (d : C08.Doc) (count : Nat) :
    (C08.textObject isSpace sp d count .l).start = C02.cursorRight (of08 d) (count : Int) := by
  have h : ¬ ((count : Int) < 0) := by omega
  simp only [C08.textObject, C02.cursorRight, h, if_false, lineAfter_08]
  omega

/-- document.py::Document.get_cursor_right_position — `C02.cursorRight` (every integer count; the negative
    ones delegate to `get_cursor_left_position`) vs `C09.moveRight` (`cursor_position += …`) -/
theorem cursorRight_09 (b : C09.Buf) (hc : b.cur ≤ b.text.length) (count : Int) :
    ((C09.moveRight b count).cur : Int) = (b.cur : Int) + C02.cursorRight (of09 b) count := by
  have hcol := col_09 b hc
  have hle := lineBefore_length_le b.text b.cur
  have hcl := col_eq_lineBefore b.text b.cur hc
  simp only [of09] at hcol hcl ⊢
  simp only [C09.moveRight, C02.cursorRight, lineAfter_09, of09]
  split
  · simp only [hcol]; omega
  · simp only; omega

/-- document.py::Document.get_cursor_left_position — `C02.cursorLeft` (count = 1) vs the
    `b.cur - min (col b) 1` of `C09.escInsert` -/
theorem cursorLeft_09 (b : C09.Buf) (hc : b.cur ≤ b.text.length) :
    ((b.cur - min (C09.col b) 1 : Nat) : Int) = (b.cur : Int) + C02.cursorLeft (of09 b) 1 := by
  have hcol := col_09 b hc
  have hle := lineBefore_length_le b.text b.cur
  have hcl := col_eq_lineBefore b.text b.cur hc
  simp only [of09] at hcol hcl ⊢
  simp only [C02.cursorLeft, hcol]
  omega

/-- document.py::Document.get_cursor_left_position — `C02.cursorLeft` (count = 1) vs `C14.cursorLeft` -/
theorem cursorLeft_14 (s : C14.St) (hc : s.cur ≤ s.text.length) :
    C14.cursorLeft s = C14.setCursorPos s ((s.cur : Int) + C02.cursorLeft ⟨s.text, s.cur⟩ 1) := by
  simp only [C14.cursorLeft, C02.cursorLeft, col_14 _ _ hc]
  congr 1; omega

/-- document.py::Document.get_cursor_right_position — `C02.cursorRight` (count = 1) vs `C14.cursorRight` -/
theorem cursorRight_14 (s : C14.St) :
    C14.cursorRight s = C14.setCursorPos s ((s.cur : Int) + C02.cursorRight ⟨s.text, s.cur⟩ 1) := by
  simp only [C14.cursorRight, C02.cursorRight, lineAfter_14]
  congr 1
  have h : ¬ ((1 : Int) < 0) := by omega
  simp only [h, if_false]
  omega


/-! ### `get_cursor_up_position` / `get_cursor_down_position` -/

/-- document.py::Document.get_cursor_down_position — `C02.cursorDown` (count ≥ 0, no preferred column) vs the
    target of `C08.textObject … .j` (when not on the last line) -/
theorem cursorDown_08 (d : C08.Doc) (count : Nat) :
    (C08.rowColToIndex d.text (d.row + count) d.col : Int) - d.cur
      = C02.cursorDown (of08 d) (count : Int) none := by
  simp only [C02.cursorDown, Option.getD_none, rowColToIndex_08, row_08 d, col_08 d, of08,
    Int.natCast_add]

/-- document.py::Document.get_cursor_up_position — `C02.cursorUp` (count ≥ 0, no preferred column) vs the
    target of `C08.textObject … .k` (when not on the first line) -/
theorem cursorUp_08 (d : C08.Doc) (count : Nat) :
    (C08.rowColToIndex d.text (d.row - count) d.col : Int) - d.cur
      = C02.cursorUp (of08 d) (count : Int) none := by
  have e : max 0 ((C02.row (of08 d) : Int) - (count : Int)) = ((C02.row (of08 d) - count : Nat) : Int) := by omega
  simp only [C02.cursorUp, Option.getD_none, rowColToIndex_08, row_08 d, col_08 d, e]
  rfl

/-- document.py::Document.get_cursor_up_position — `C02.cursorUp` (count ≥ 1, preferred column `oc`) vs the
    target of `C14.cursorUp` -/
theorem cursorUp_14 (t : Text) (cur : Nat) (count : Int) (oc : Nat) :
    (C14.rowColToIndex t ((C14.row t cur : Int) - count).toNat oc : Int) - cur
      = C02.cursorUp ⟨t, cur⟩ count (some (oc : Int)) := by
  have e : max 0 ((C02.row ⟨t, cur⟩ : Int) - count) = ((((C02.row ⟨t, cur⟩ : Int) - count).toNat : Nat) : Int) := by
    omega
  simp only [C02.cursorUp, Option.getD_some, rowColToIndex_14, row_14 t cur, e]

/-- document.py::Document.get_cursor_down_position — `C02.cursorDown` (count ≥ 0, preferred column `oc`) vs
    the target of `C14.cursorDown` -/
theorem cursorDown_14 (t : Text) (cur : Nat) (count : Int) (hcount : 0 ≤ count) (oc : Nat) :
    (C14.rowColToIndex t (C14.row t cur + count.toNat) oc : Int) - cur
      = C02.cursorDown ⟨t, cur⟩ count (some (oc : Int)) := by
  have e : (C02.row ⟨t, cur⟩ : Int) + count = ((C02.row ⟨t, cur⟩ + count.toNat : Nat) : Int) := by omega
  simp only [C02.cursorDown, Option.getD_some, rowColToIndex_14, row_14 t cur, e]

/-- `C14.origColumn` is `preferred_column or cursor_position_col` over C02's column -/
theorem origColumn_14 (s : C14.St) (hc : s.cur ≤ s.text.length) :
    C14.origColumn s = (match s.pref with
      | some p => if p = 0 then C02.col ⟨s.text, s.cur⟩ else p
      | none => C02.col ⟨s.text, s.cur⟩) := by
  simp only [C14.origColumn, col_14 _ _ hc]
  rfl

/-! ### `get_start_of_line_position` / `get_end_of_line_position` / start, end of document -/

/-- document.py::Document.get_start_of_line_position — `C02.startOfLine … false` vs `C08.textObject … .zero` -/
theorem startOfLine_08 (isSpace sp : Char → Bool) (d : C08.Doc) (count : Nat) :
    (C08.textObject isSpace sp d count .zero).start = C02.startOfLine isSpace (of08 d) false := by
  simp [C08.textObject, C02.startOfLine, lineBefore_08]

/-- document.py::Document.get_start_of_line_position — `C02.startOfLine … true` (after_whitespace) vs
    `C08.textObject … .caret` -/
theorem startOfLineWs_08 (isSpace sp : Char → Bool) (d : C08.Doc) (count : Nat) :
    (C08.textObject isSpace sp d count .caret).start = C02.startOfLine isSpace (of08 d) true := by
  simp [C08.textObject, C02.startOfLine, C02.lstrip, currentLine_08, col_08 d]

/-- document.py::Document.get_end_of_line_position — `C02.endOfLine` vs `C08.textObject … .dollar` -/
theorem endOfLine_08 (isSpace sp : Char → Bool) (d : C08.Doc) (count : Nat) :
    (C08.textObject isSpace sp d count .dollar).start = C02.endOfLine (of08 d) := by
  simp [C08.textObject, C02.endOfLine, lineAfter_08]

/-- document.py::Document.get_start_of_line_position — `C02.startOfLine … false` vs the
    `-(lineBefore b).length` of `C09.killLineK` / `C09.lineDiscardK` (`delete_before_cursor(-pos)`) -/
theorem startOfLine_09 (isSpace : Char → Bool) (b : C09.Buf) :
    -((C09.lineBefore b).length : Int) = C02.startOfLine isSpace (of09 b) false := by
  simp [C02.startOfLine, lineBefore_09]

theorem lstripSp_eq (isSp : Char → Bool) (l : Text) : C09.lstripSp isSp l = l.dropWhile isSp := by
  induction l with
  | nil => rfl
  | cons c cs ih => simp only [C09.lstripSp, List.dropWhile_cons]; split <;> simp_all

/-- document.py::Document.get_start_of_line_position — `C02.startOfLine … true` vs the cursor
    `b.cur - col b + ws` of `C09.vstepX … .cc` (`cursor += get_start_of_line_position(after_whitespace=True)`) -/
theorem startOfLineWs_09 (isSp : Char → Bool) (b : C09.Buf) (hc : b.cur ≤ b.text.length) :
    ((b.cur - C09.col b + ((C09.lineBefore b ++ C09.lineAfter b).length -
        (C09.lstripSp isSp (C09.lineBefore b ++ C09.lineAfter b)).length) : Nat) : Int)
      = (b.cur : Int) + C02.startOfLine isSp (of09 b) true := by
  have hcol := col_09 b hc
  have hle := lineBefore_length_le b.text b.cur
  have hcl := col_eq_lineBefore b.text b.cur hc
  have hd := (List.dropWhile_sublist (l := C02.currentLine (of09 b)) isSp).length_le
  simp only [of09] at hcol hcl hd ⊢
  simp only [C02.startOfLine, C02.lstrip, if_true, lstripSp_eq, hcol, lineBefore_09, lineAfter_09, of09]
  simp only [C02.currentLine] at hd ⊢
  omega

/-- document.py::Document.get_end_of_line_position — `C02.endOfLine` vs the `(lineAfter b).length` of
    `C09.killLineK` -/
theorem endOfLine_09 (b : C09.Buf) : ((C09.lineAfter b).length : Int) = C02.endOfLine (of09 b) := by
  simp [C02.endOfLine, lineAfter_09]

/-- document.py::Document.get_start_of_line_position — `C02.startOfLine … false` vs the
    `-(lineBefore b).length` of `C01.insertLineAbove` / `C01.killLine` / `C01.unixLineDiscard` -/
theorem startOfLine_01 (isSpace : Char → Bool) (b : C01.Buf) :
    -((C01.lineBefore b).length : Int) = C02.startOfLine isSpace (of01 b) false := by
  simp [C02.startOfLine, lineBefore_01]

/-- document.py::Document.get_end_of_line_position — `C02.endOfLine` vs the `(lineAfter b).length` of
    `C01.insertLineBelow` / `C01.killLine` -/
theorem endOfLine_01 (b : C01.Buf) : ((C01.lineAfter b).length : Int) = C02.endOfLine (of01 b) := by
  simp [C02.endOfLine, lineAfter_01]

/-- document.py::Document.get_start_of_line_position — `C02.startOfLine … false` vs `C14.home` -/
theorem startOfLine_14 (isSpace : Char → Bool) (s : C14.St) :
    C14.home s = C14.setCursorPos s ((s.cur : Int) + C02.startOfLine isSpace ⟨s.text, s.cur⟩ false) := by
  simp only [C14.home, C02.startOfLine, lineBefore_14]
  congr 1

/-- document.py::Document.get_end_of_line_position — `C02.endOfLine` vs `C14.endl` -/
theorem endOfLine_14 (s : C14.St) :
    C14.endl s = C14.setCursorPos s ((s.cur : Int) + C02.endOfLine ⟨s.text, s.cur⟩) := by
  simp only [C14.endl, C02.endOfLine, lineAfter_14]

/-- document.py::Document.get_start_of_document_position — `C02.startOfDocument` vs the `-(d.cur)` /
    `-(d.before.length)` of `C08.startOfParagraph` / `C08.textObject … (.screen _ none)` -/
theorem startOfDocument_08 (d : C08.Doc) (hc : d.cur ≤ d.text.length) :
    -(d.before.length : Int) = C02.startOfDocument (of08 d) ∧ -(d.cur : Int) = C02.startOfDocument (of08 d) := by
  refine ⟨?_, rfl⟩
  simp only [C02.startOfDocument, C08.Doc.before, List.length_take, of08]
  omega

/-- document.py::Document.get_end_of_document_position — `C02.endOfDocument` vs the `eod` of
    `C08.textObject … .w` and the `d.after.length` of `C08.endOfParagraph` / `(.screen .bottom none)` -/
theorem endOfDocument_08 (d : C08.Doc) (hc : d.cur ≤ d.text.length) :
    ((d.text.length : Int) - d.cur = C02.endOfDocument (of08 d)) ∧
    ((d.after.length : Int) = C02.endOfDocument (of08 d)) := by
  refine ⟨rfl, ?_⟩
  simp only [C02.endOfDocument, C08.Doc.after, List.length_drop, of08]
  omega

end Ptk.AgreeDoc
