/-
  C20 (third part) — theorems about `write` / `flush` below the lock (`Ptk.Model.C20Lock`):
  with the steps of a call interleaved freely between any number of threads,
    * at most one thread is inside the `with self._lock:` block (`lock_mutex`);
    * at every reachable state the text taken by the flush thread, the queue, the line buffer and
      the locals of the thread inside the lock are exactly the write calls in the order in which
      they got the lock (`lock_stream_invariant`), so the atomic `write` step of `Ptk.Model.C20` is
      justified by the lock and not only assumed;
    * the calls of one thread get the lock in the order in which the thread made them
      (`lock_per_thread_order`);
    * without the lock the same code loses text (`no_lock_loses_text_witness`).
-/
import Ptk.Model.C20Lock
import Ptk.Props.C20
namespace Ptk.C20Lock
open Ptk.Py Ptk.C20

/-- the text of the write calls in the order in which they got the lock -/
def acqText (s : St) : Text := (s.acquired.map (·.2)).flatten

/-- where every character of those calls is: taken by the flush thread, in the queue, in the line
    buffer, or in the locals of the thread that is inside the lock -/
def stream (s : St) : Text :=
  s.out ++ s.queue.flatten ++
  match s.owner with
  | none => cat s.buffer
  | some t => match s.pc t with
    | .locked (.write d) => cat s.buffer ++ d
    | .assign loc rest clear => loc ++ (if clear then [] else rest)
    | .putting loc => loc ++ cat s.buffer
    | _ => cat s.buffer

structure Inv (s : St) : Prop where
  lock : s.useLock = true
  /-- mutual exclusion: a thread is inside the `with` block iff it owns the lock -/
  mutex : ∀ t, crit (s.pc t) = true ↔ s.owner = some t
  stream : stream s = acqText s

theorem upd_same (f : Nat → Pc) (t : Nat) (p : Pc) : upd f t p t = p := by simp [upd]
theorem upd_other (f : Nat → Pc) (t x : Nat) (p : Pc) (h : x ≠ t) : upd f t p x = f x := by simp [upd, h]

theorem inv_init : Inv {} := by
  refine ⟨rfl, ?_, rfl⟩
  intro t; simp [crit]

theorem inv_step (s : St) (o : Op) (h : Inv s) : Inv (step s o) := by
  obtain ⟨hl, hm, hs⟩ := h
  cases o with
  | call t c =>
    simp only [step]
    cases hp : s.pc t with
    | idle =>
      simp only
      have hno : s.owner ≠ some t := fun e => by have := (hm t).mpr e; simp [hp, crit] at this
      refine ⟨hl, ?_, ?_⟩
      · intro x
        by_cases hx : x = t
        · subst hx; simp [upd_same, crit]; exact hno
        · simp only [upd_other _ _ _ _ hx]; exact hm x
      · show stream _ = acqText s
        rw [← hs]; unfold stream
        cases ho : s.owner with
        | none => rfl
        | some u =>
          have hu : u ≠ t := fun e => hno (by rw [ho, e])
          simp only [upd_other _ _ _ _ hu]
    | want c' => exact ⟨hl, hm, hs⟩
    | locked c' => exact ⟨hl, hm, hs⟩
    | assign a b c' => exact ⟨hl, hm, hs⟩
    | putting a => exact ⟨hl, hm, hs⟩
    | releasing => exact ⟨hl, hm, hs⟩
  | acq t =>
    simp only [step]
    cases hp : s.pc t with
    | want c =>
      simp only
      by_cases hb : s.useLock = true ∧ s.owner.isSome = true
      · rw [if_pos hb]; exact ⟨hl, hm, hs⟩
      · rw [if_neg hb]
        have hon : s.owner = none := by
          cases ho : s.owner with
          | none => rfl
          | some u => exact absurd ⟨hl, by simp [ho]⟩ hb
        refine ⟨hl, ?_, ?_⟩
        · intro x
          by_cases hx : x = t
          · subst hx; simp [upd_same, crit, hl]
          · simp only [upd_other _ _ _ _ hx, hl, if_true]
            constructor
            · intro hc; have := (hm x).mp hc; rw [hon] at this; cases this
            · intro he; exact absurd (Option.some.inj he).symm hx
        · have hs' : s.out ++ s.queue.flatten ++ cat s.buffer = acqText s := by
            rw [← hs]; simp [stream, hon]
          simp only [stream, acqText, hl, if_true, upd_same, List.map_append, List.flatten_append]
          cases c with
          | write d =>
            simp only [callData, List.map_cons, List.map_nil, List.flatten_cons, List.flatten_nil, List.append_nil]
            rw [← List.append_assoc, hs']; rfl
          | flush => simpa [callData, acqText] using hs'
    | idle => exact ⟨hl, hm, hs⟩
    | locked c' => exact ⟨hl, hm, hs⟩
    | assign a b c' => exact ⟨hl, hm, hs⟩
    | putting a => exact ⟨hl, hm, hs⟩
    | releasing => exact ⟨hl, hm, hs⟩
  | rd t =>
    simp only [step]
    cases hp : s.pc t with
    | locked c =>
      have ho : s.owner = some t := (hm t).mp (by simp [hp, crit])
      have hm' : ∀ p, crit p = true → ∀ x, crit (upd s.pc t p x) = true ↔ s.owner = some x := by
        intro p hpc x
        by_cases hx : x = t
        · subst hx; simp [upd_same, hpc, ho]
        · simp only [upd_other _ _ _ _ hx]; exact hm x
      have hs0 : s.out ++ s.queue.flatten ++ (match c with | .write d => cat s.buffer ++ d | .flush => cat s.buffer) = acqText s := by
        rw [← hs]; simp only [stream, ho, hp]; cases c <;> rfl
      cases c with
      | write d =>
        simp only
        cases hr : rsplitNl d with
        | some pr =>
          obtain ⟨b, a⟩ := pr
          have hd := rsplitNl_some hr
          refine ⟨hl, hm' _ rfl, ?_⟩
          simp only [stream, ho, upd_same, acqText] at hs0 ⊢
          rw [← hs0, ← hd]; simp [cat]
        | none =>
          refine ⟨hl, hm' _ rfl, ?_⟩
          simp only [stream, ho, upd_same, acqText] at hs0 ⊢
          rw [← hs0]; simp [cat]
      | flush =>
        refine ⟨hl, hm' _ rfl, ?_⟩
        simp only [stream, ho, upd_same, acqText] at hs0 ⊢
        rw [← hs0]; simp
    | idle => exact ⟨hl, hm, hs⟩
    | want c' => exact ⟨hl, hm, hs⟩
    | assign a b c' => exact ⟨hl, hm, hs⟩
    | putting a => exact ⟨hl, hm, hs⟩
    | releasing => exact ⟨hl, hm, hs⟩
  | as t =>
    simp only [step]
    cases hp : s.pc t with
    | assign loc rest clear =>
      have ho : s.owner = some t := (hm t).mp (by simp [hp, crit])
      refine ⟨hl, ?_, ?_⟩
      · intro x
        by_cases hx : x = t
        · subst hx; simp [upd_same, crit, ho]
        · simp only [upd_other _ _ _ _ hx]; exact hm x
      · simp only [stream, ho, hp, upd_same, acqText] at hs ⊢
        rw [← hs]
        cases clear <;> simp [cat]
    | idle => exact ⟨hl, hm, hs⟩
    | want c' => exact ⟨hl, hm, hs⟩
    | locked c' => exact ⟨hl, hm, hs⟩
    | putting a => exact ⟨hl, hm, hs⟩
    | releasing => exact ⟨hl, hm, hs⟩
  | put t =>
    simp only [step]
    cases hp : s.pc t with
    | putting loc =>
      have ho : s.owner = some t := (hm t).mp (by simp [hp, crit])
      refine ⟨hl, ?_, ?_⟩
      · intro x
        by_cases hx : x = t
        · subst hx; simp [upd_same, crit, ho]
        · simp only [upd_other _ _ _ _ hx]; exact hm x
      · simp only [stream, ho, hp, upd_same, acqText] at hs ⊢
        rw [← hs]; simp
    | idle => exact ⟨hl, hm, hs⟩
    | want c' => exact ⟨hl, hm, hs⟩
    | locked c' => exact ⟨hl, hm, hs⟩
    | assign a b c' => exact ⟨hl, hm, hs⟩
    | releasing => exact ⟨hl, hm, hs⟩
  | rel t =>
    simp only [step]
    cases hp : s.pc t with
    | releasing =>
      have ho : s.owner = some t := (hm t).mp (by simp [hp, crit])
      refine ⟨hl, ?_, ?_⟩
      · intro x
        by_cases hx : x = t
        · subst hx; simp [upd_same, crit]
        · simp only [upd_other _ _ _ _ hx]
          constructor
          · intro hc; have := (hm x).mp hc; rw [ho] at this; exact absurd (Option.some.inj this).symm hx
          · intro he; cases he
      · simp only [stream, ho, hp, acqText] at hs ⊢
        exact hs
    | idle => exact ⟨hl, hm, hs⟩
    | want c' => exact ⟨hl, hm, hs⟩
    | locked c' => exact ⟨hl, hm, hs⟩
    | assign a b c' => exact ⟨hl, hm, hs⟩
    | putting a => exact ⟨hl, hm, hs⟩
  | fl =>
    refine ⟨hl, hm, ?_⟩
    simp only [step, stream, acqText] at hs ⊢
    rw [← hs]; simp


/-- data of a write call that waits for the lock -/
def wantData : Pc → List Text
  | .want (.write d) => [d]
  | _ => []

def ofThread (l : List (Nat × Text)) (t : Nat) : List Text := (l.filter fun p => p.1 == t).map (·.2)

theorem ofThread_append (l m : List (Nat × Text)) (t : Nat) : ofThread (l ++ m) t = ofThread l t ++ ofThread m t := by
  simp [ofThread]

theorem ofThread_callData_same (c : Call) (t : Nat) : ofThread ((callData c).map fun d => (t, d)) t = callData c := by
  cases c <;> simp [ofThread, callData]

theorem ofThread_callData_other (c : Call) (t x : Nat) (h : x ≠ t) : ofThread ((callData c).map fun d => (t, d)) x = [] := by
  cases c <;> simp [ofThread, callData]
  exact fun e => h e.symm

/-- per thread: the calls that got the lock, plus the one waiting for it, are the calls made -/
def OrdInv (s : St) : Prop := ∀ x, ofThread s.acquired x ++ wantData (s.pc x) = ofThread s.called x

theorem ord_step (s : St) (o : Op) (h : OrdInv s) : OrdInv (step s o) := by
  intro x
  have hx := h x
  cases o with
  | call t c =>
    simp only [step]
    cases hp : s.pc t with
    | idle =>
      simp only [ofThread_append]
      by_cases e : x = t
      · subst e
        rw [hp] at hx
        simp only [wantData, List.append_nil] at hx
        rw [upd_same, ofThread_callData_same, ← hx]
        cases c <;> simp [wantData, callData]
      · rw [upd_other _ _ _ _ e, ofThread_callData_other c t x e, List.append_nil]; exact hx
    | want c' => exact hx
    | locked c' => exact hx
    | assign a b c' => exact hx
    | putting a => exact hx
    | releasing => exact hx
  | acq t =>
    simp only [step]
    cases hp : s.pc t with
    | want c =>
      simp only
      split
      · exact hx
      · simp only [ofThread_append]
        by_cases e : x = t
        · subst e
          rw [hp] at hx
          rw [upd_same, ofThread_callData_same, ← hx]
          cases c <;> simp [wantData, callData]
        · rw [upd_other _ _ _ _ e, ofThread_callData_other c t x e, List.append_nil]; exact hx
    | idle => exact hx
    | locked c' => exact hx
    | assign a b c' => exact hx
    | putting a => exact hx
    | releasing => exact hx
  | rd t =>
    simp only [step]
    cases hp : s.pc t with
    | locked c =>
      have hw : wantData (s.pc x) = wantData (upd s.pc t .releasing x) ∧
          ∀ a b c', wantData (s.pc x) = wantData (upd s.pc t (.assign a b c') x) := by
        by_cases e : x = t
        · subst e; simp [upd_same, hp, wantData]
        · simp [upd_other _ _ _ _ e]
      cases c with
      | write d =>
        simp only
        split
        · rw [← (hw.2 _ _ _)]; exact hx
        · rw [← hw.1]; exact hx
      | flush => simp only; rw [← (hw.2 _ _ _)]; exact hx
    | idle => exact hx
    | want c' => exact hx
    | assign a b c' => exact hx
    | putting a => exact hx
    | releasing => exact hx
  | as t =>
    simp only [step]
    cases hp : s.pc t with
    | assign a b c' =>
      simp only
      by_cases e : x = t
      · subst e; rw [hp] at hx; simpa [upd_same, wantData] using hx
      · rw [upd_other _ _ _ _ e]; exact hx
    | idle => exact hx
    | want c' => exact hx
    | locked c' => exact hx
    | putting a => exact hx
    | releasing => exact hx
  | put t =>
    simp only [step]
    cases hp : s.pc t with
    | putting a =>
      simp only
      by_cases e : x = t
      · subst e; rw [hp] at hx; simpa [upd_same, wantData] using hx
      · rw [upd_other _ _ _ _ e]; exact hx
    | idle => exact hx
    | want c' => exact hx
    | locked c' => exact hx
    | assign a b c' => exact hx
    | releasing => exact hx
  | rel t =>
    simp only [step]
    cases hp : s.pc t with
    | releasing =>
      simp only
      by_cases e : x = t
      · subst e; rw [hp] at hx; simpa [upd_same, wantData] using hx
      · rw [upd_other _ _ _ _ e]; exact hx
    | idle => exact hx
    | want c' => exact hx
    | locked c' => exact hx
    | assign a b c' => exact hx
    | putting a => exact hx
  | fl => exact hx


/-! ### main theorems -/

theorem inv_run (s : St) (ops : List Op) (h : Inv s) : Inv (runOps s ops) := by
  induction ops generalizing s with
  | nil => exact h
  | cons o os ih => exact ih _ (inv_step s o h)

/-- **lock_mutex.**  Two threads are never inside the `with self._lock:` block at the same time. -/
theorem lock_mutex (ops : List Op) (t u : Nat)
    (ht : crit ((runOps {} ops).pc t) = true) (hu : crit ((runOps {} ops).pc u) = true) : t = u := by
  have h := inv_run {} ops inv_init
  have a := (h.mutex t).mp ht
  have b := (h.mutex u).mp hu
  rw [a] at b; exact Option.some.inj b

/-- **lock_stream_invariant.**  At every reachable state, whatever the interleaving of the steps of the
    calls: (text taken by the flush thread) ++ (queue) ++ (line buffer and the locals of the thread inside
    the lock) = the data of the write calls in the order in which they acquired the lock. -/
theorem lock_stream_invariant (ops : List Op) :
    stream (runOps {} ops) = acqText (runOps {} ops) :=
  (inv_run {} ops inv_init).stream

/-- **lock_exactly_once.**  When no thread is inside the lock, the line buffer is empty (after a flush)
    and the flush thread has emptied the queue, the text it took is exactly the write calls in
    lock-acquisition order. -/
theorem lock_exactly_once (ops : List Op) (ho : (runOps {} ops).owner = none)
    (hb : cat (runOps {} ops).buffer = []) (hq : (runOps {} ops).queue = []) :
    (runOps {} ops).out = acqText (runOps {} ops) := by
  have h := lock_stream_invariant ops
  simpa [stream, ho, hb, hq] using h

theorem ord_run (s : St) (ops : List Op) (h : OrdInv s) : OrdInv (runOps s ops) := by
  induction ops generalizing s with
  | nil => exact h
  | cons o os ih => exact ih _ (ord_step s o h)

/-- **lock_per_thread_order.**  For every thread, the write calls that got the lock (in that order),
    followed by the call that is waiting for it, are exactly the write calls the thread made, in the
    order in which it made them. -/
theorem lock_per_thread_order (ops : List Op) (t : Nat) :
    ofThread (runOps {} ops).acquired t ++ wantData ((runOps {} ops).pc t) = ofThread (runOps {} ops).called t :=
  ord_run {} ops (by intro x; simp [ofThread, wantData]) t

/-- the schedule of the witness: thread 0 has written `x` (no newline, stays in the buffer) and is in the
    middle of `write("a\nb")` — it has computed `to_write` from the old buffer — when thread 1 appends
    `y` to the buffer; thread 0 then replaces the buffer -/
def race : List Op :=
  [.call 0 (.write ['x']), .acq 0, .rd 0, .rel 0,
   .call 0 (.write ['a', '\n', 'b']), .call 1 (.write ['y']), .acq 0, .acq 1,
   .rd 0, .rd 1, .as 0, .put 0, .rel 0, .rel 1,
   .call 0 .flush, .acq 0, .rd 0, .as 0, .put 0, .rel 0, .fl]

/-- **no_lock_loses_text_witness.**  The same schedule run with and without the lock: with the lock thread 1
    is blocked until thread 0 has left and everything arrives; without it `y` is lost. -/
theorem no_lock_loses_text_witness :
    (runOps {} race).out = ['x', 'a', '\n', 'b'] ∧ (runOps {} race).pc 1 = .want (.write ['y']) ∧
    (runOps { useLock := false } race).out = ['x', 'a', '\n', 'b'] ∧
    (runOps { useLock := false } race).pc 1 = .idle ∧
    (runOps { useLock := false } race).buffer = [] ∧ (runOps { useLock := false } race).queue = [] := by
  decide

-- non-vacuity: three threads inside each other's calls as far as the lock allows
example :
    let ops : List Op := [.call 0 (.write ['a']), .call 1 (.write ['b', '\n', 'c']), .acq 1, .acq 0, .call 2 .flush,
      .rd 1, .fl, .as 1, .acq 2, .put 1, .fl, .rel 1, .acq 0, .rd 0, .rel 0, .acq 2, .rd 2, .as 2, .put 2, .rel 2, .fl]
    (runOps {} ops).owner = none ∧ cat (runOps {} ops).buffer = [] ∧ (runOps {} ops).queue = [] ∧
    (runOps {} ops).out = ['b', '\n', 'c', 'a'] ∧ (runOps {} ops).acquired = [(1, ['b', '\n', 'c']), (0, ['a'])] := by
  decide

/-! ### the atomic `write` / `flush` of `Ptk.Model.C20` is a whole call of this model -/

/-- a whole call of thread `t`, nobody interfering -/
def wholeCall (t : Nat) (c : Call) : List Op := [.call t c, .acq t, .rd t, .as t, .put t, .rel t]

/-- **call_refines_write.**  From a state in which thread `t` is idle and the lock is free, a complete
    `write(d)` call changes the line buffer and the queue exactly like the atomic step `doWrite` of the
    coarse model, leaves the lock free and the thread idle. -/
theorem call_refines_write (s : St) (cs : C20.St) (t : Nat) (d : Text)
    (hidle : s.pc t = .idle) (hfree : s.owner = none)
    (hb : cs.buffer = s.buffer) (hq : cs.queue = s.queue.map .text) :
    let s' := runOps s (wholeCall t (.write d))
    (doWrite cs d).buffer = s'.buffer ∧ (doWrite cs d).queue = s'.queue.map .text ∧
    s'.owner = none ∧ s'.pc t = .idle ∧ s'.out = s.out := by
  simp only [wholeCall, runOps, step, hidle, upd_same, hfree, Option.isSome_none, Bool.false_eq_true, and_false,
    if_false, doWrite]
  cases hr : rsplitNl d with
  | none => simp [upd_same, hb, hq]
  | some p =>
    obtain ⟨b, a⟩ := p
    simp [upd_same, hb, hq]

/-- **call_refines_flush.**  The same for `flush()` and `doFlush`. -/
theorem call_refines_flush (s : St) (cs : C20.St) (t : Nat)
    (hidle : s.pc t = .idle) (hfree : s.owner = none)
    (hb : cs.buffer = s.buffer) (hq : cs.queue = s.queue.map .text) :
    let s' := runOps s (wholeCall t .flush)
    (doFlush cs).buffer = s'.buffer ∧ (doFlush cs).queue = s'.queue.map .text ∧
    s'.owner = none ∧ s'.pc t = .idle ∧ s'.out = s.out := by
  simp [wholeCall, runOps, step, hidle, upd_same, hfree, doFlush, hb, hq]


end Ptk.C20Lock
