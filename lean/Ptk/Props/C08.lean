/-
  C08 — property theorems for the Vi operator model (`Ptk.Model.C08`).
-/
import Ptk.Model.C08
namespace Ptk.C08
open Ptk.Py

theorem sorted_le (o : TextObject) : o.sorted.1 ≤ o.sorted.2 := by
  unfold TextObject.sorted; split <;> simp <;> omega

end Ptk.C08
