/-
  C08 — property theorems for the Vi operator model (`Ptk.Model.C08`).

  All theorems hold for every text, cursor, text object (offsets inside the text), register
  contents and for every `isSpace` / `\s` classification and transform callback.
  Main statements:
    * `yank_never_edits`                       — y / "xy leave text and cursor alone
    * `delete_charwise_exact`                  — d / c + characterwise span: exactly text[a:b) is
                                                 removed and stored; re-inserting restores the text
    * `delete_linewise_exact`                  — whole lines, LINES register, trailing newline rule
    * `transform_frame`, `indent_frame`        — case / indent operators change nothing outside
    * `empty_span_noop`, `failing_motion_noop` — empty span / failing motion: nothing changes
    * `operatorRange_bounds`, `textObject_inRange`, `run_ok` — the range arithmetic never leaves
                                                 the text for any modelled motion
    * `delete_any_motion`, `yank_any_motion`, `transform_any_motion` — the above composed, for
                                                 EVERY modelled motion / text object and count
    * `repeat_find_type`, `repeat_find_fails` — `;` / `,`: direction and inclusiveness agree
    * `simple_motion_spans`, `f_target_is_char`, `col0_rule_drops_newline`, `motion_span_adjacent`
                                               — what the spans of the simple motions are
-/
import Ptk.Model.C08
namespace Ptk.C08
open Ptk.Py

def Inv (d : Doc) : Prop := d.cur ≤ d.text.length

def InRange (d : Doc) (o : TextObject) : Prop :=
  0 ≤ (d.cur : Int) + o.start ∧ (d.cur : Int) + o.start ≤ d.text.length ∧
  0 ≤ (d.cur : Int) + o.stop ∧ (d.cur : Int) + o.stop ≤ d.text.length

section helpers
variable {α : Type}

theorem length_takeWhile_le' (p : α → Bool) (l : List α) :
    (l.takeWhile p).length ≤ l.length := by
  induction l with
  | nil => simp
  | cons x xs ih => rw [List.takeWhile_cons]; split <;> simp <;> omega

theorem slice_partition (t : List α) (a b : Nat) (h : a ≤ b) :
    t.take a ++ ((t.take b).drop a) ++ t.drop b = t := by
  have h1 : t.take a = (t.take b).take a := by rw [List.take_take]; congr 1; omega
  rw [h1, List.take_append_drop, List.take_append_drop]
end helpers

/-- (46db376) an operator typed with a register name that does not exist does nothing -/
theorem opDelete_bad (s : St) (o : TextObject) (reg : Option Char) (change : Bool)
    (hb : badReg reg = true) : opDelete s o reg change = some s := by
  unfold opDelete; rw [if_pos hb]

theorem opDelete_good (s : St) (o : TextObject) (reg : Option Char) (change : Bool)
    (hb : badReg reg = false) :
    opDelete s o reg change =
      match cut s.doc o with
      | none => none
      | some (d', c) =>
        let s1 := store { s with text := d'.text, cur := d'.cur } reg c
        some { s1 with insert := s1.insert || change } := by
  unfold opDelete; rw [if_neg (by simp [hb])]; rfl

theorem sorted_le (o : TextObject) : o.sorted.1 ≤ o.sorted.2 := by
  unfold TextObject.sorted; split <;> simp <;> omega

theorem sorted_cases (o : TextObject) :
    (o.sorted = (o.start, o.stop)) ∨ (o.sorted = (o.stop, o.start)) := by
  unfold TextObject.sorted; split <;> simp

theorem lineStart_le (t : Text) (i : Nat) : lineStart t i ≤ i ∧ lineStart t i ≤ t.length := by
  unfold lineStart; simp; omega

theorem lineEnd_ge (t : Text) (i : Nat) (h : i ≤ t.length) : i ≤ lineEnd t i := by
  unfold lineEnd; omega

theorem lineEnd_le (t : Text) (i : Nat) : lineEnd t i ≤ t.length := by
  unfold lineEnd
  have := length_takeWhile_le' notNl (t.drop i)
  simp at this; omega

/-- yank never edits -/
theorem store_text (s : St) (reg : Option Char) (c : Clip) :
    (store s reg c).text = s.text ∧ (store s reg c).cur = s.cur ∧ (store s reg c).insert = s.insert := by
  unfold store; split
  · simp
  · split
    · split <;> simp
    · simp

theorem yank_never_edits (s s' : St) (o : TextObject) (reg : Option Char)
    (h : opYank s o reg = some s') :
    s'.text = s.text ∧ s'.cur = s.cur ∧ s'.insert = s.insert := by
  unfold opYank at h
  split at h
  · split at h
    · split at h
      · simp at h
      · simp at h; subst h; exact store_text _ _ _
    · simp at h; subst h; simp
  · split at h
    · simp at h
    · simp at h; subst h; exact store_text _ _ _


theorem sorted_inrange (d : Doc) (o : TextObject) (h : InRange d o) :
    0 ≤ (d.cur : Int) + o.sorted.1 ∧ (d.cur : Int) + o.sorted.2 ≤ d.text.length := by
  obtain ⟨h1, h2, h3, h4⟩ := h
  rcases sorted_cases o with e | e <;> rw [e] <;> simp <;> omega

theorem operatorRange_bounds (d : Doc) (o : TextObject) (h : InRange d o) :
    0 ≤ (d.cur : Int) + (operatorRange d o).1 ∧
    (operatorRange d o).1 ≤ (operatorRange d o).2 ∧
    (d.cur : Int) + (operatorRange d o).2 ≤ d.text.length + (if o.type = .inclusive then 1 else 0) := by
  have hs := sorted_le o
  obtain ⟨h1, h2⟩ := sorted_inrange d o h
  unfold operatorRange
  cases ht : o.type
  · -- exclusive
    simp only []
    split
    · simp; omega
    · simp; omega
  · simp; omega
  · -- linewise
    simp only [lineStartI, lineEndI]
    have ha : ¬ (o.sorted.1 + (d.cur : Int) < 0) := by omega
    have hb : ¬ (o.sorted.2 + (d.cur : Int) < 0) := by omega
    rw [if_neg ha, if_neg hb]
    have l1 := lineStart_le d.text (o.sorted.1 + (d.cur : Int)).toNat
    have l3 := lineEnd_le d.text (o.sorted.2 + (d.cur : Int)).toNat
    have l2 := lineEnd_ge d.text (o.sorted.2 + (d.cur : Int)).toNat (by omega)
    simp; omega

/-- empty (non-linewise) span: every operator is a no-op on text, cursor, clipboard, registers -/
theorem empty_span_noop (env : Env) (s s' : St) (op : Op) (o : TextObject) (count : Nat)
    (ht : o.type ≠ .linewise)
    (he : (operatorRange s.doc o).1 ≥ (operatorRange s.doc o).2)
    (h : applyOp env s op o count = some s') :
    s'.text = s.text ∧ s'.cur = s.cur ∧ s'.clip = s.clip ∧ s'.regs = s.regs := by
  have hcut : cut s.doc o = some (s.doc, { text := [], lines := false }) := by
    unfold cut
    have : (o.type == TOType.linewise) = false := by
      cases h' : o.type <;> simp_all
    simp [this, he]
  have hst : ∀ (x : St) reg, store x reg { text := [], lines := false } = x := by
    intro x reg; unfold store; simp
  cases op with
  | delete reg =>
    cases hb : badReg reg
    · simp [applyOp, opDelete_good _ _ _ _ hb, hcut, hst] at h; subst h; simp [St.doc]
    · simp [applyOp, opDelete_bad _ _ _ _ hb] at h; subst h; simp
  | change reg =>
    cases hb : badReg reg
    · simp [applyOp, opDelete_good _ _ _ _ hb, hcut, hst] at h; subst h; simp [St.doc]
    · simp [applyOp, opDelete_bad _ _ _ _ hb] at h; subst h; simp
  | yank reg =>
    simp only [applyOp, opYank, hcut, hst] at h
    split at h
    · split at h <;> (simp at h; subst h; simp)
    · simp at h; subst h; simp
  | transform k =>
    simp only [applyOp, opTransform] at h
    have : ¬ ((operatorRange s.doc o).1 < (operatorRange s.doc o).2) := by omega
    rw [if_neg this] at h; simp at h; subst h; simp
  | indent =>
    simp only [applyOp, opIndent] at h
    have : spansNothing s.doc o = true := by
      unfold spansNothing
      have : (o.type != TOType.linewise) = true := by cases h' : o.type <;> simp_all
      simp [this]; omega
    rw [if_pos this] at h; simp at h; subst h; simp
  | unindent =>
    simp only [applyOp, opIndent] at h
    have : spansNothing s.doc o = true := by
      unfold spansNothing
      have : (o.type != TOType.linewise) = true := by cases h' : o.type <;> simp_all
      simp [this]; omega
    rw [if_pos this] at h; simp at h; subst h; simp


/-- characterwise cut: exactly `text[a:b)` is removed and returned, the cursor lands on `a` -/
theorem cut_charwise (d : Doc) (o : TextObject) (h : InRange d o) (ht : o.type ≠ .linewise)
    (hne : (operatorRange d o).1 < (operatorRange d o).2) :
    ∃ a b : Nat, (a : Int) = d.cur + (operatorRange d o).1 ∧ (b : Int) = d.cur + (operatorRange d o).2 ∧
      a < b ∧
      cut d o = some ({ text := d.text.take a ++ d.text.drop b, cur := a },
                      { text := (d.text.take b).drop a, lines := false }) := by
  obtain ⟨b1, b2, b3⟩ := operatorRange_bounds d o h
  refine ⟨((d.cur : Int) + (operatorRange d o).1).toNat, ((d.cur : Int) + (operatorRange d o).2).toNat,
    by omega, by omega, by omega, ?_⟩
  have hl : (o.type == TOType.linewise) = false := by cases h' : o.type <;> simp_all
  have b3' : (d.cur : Int) + (operatorRange d o).2 ≤ d.text.length + 1 := by
    split at b3 <;> omega
  unfold cut
  simp only [hl]
  have hnot : ¬ ((operatorRange d o).1 ≥ (operatorRange d o).2) := by omega
  simp only [hnot, decide_false, Bool.not_false, Bool.and_false, Bool.false_eq_true, if_false]
  have hdom : ¬ ((operatorRange d o).1 + (d.cur : Int) < 0 ∨ (operatorRange d o).2 + (d.cur : Int) - 1 < 0 ∨
      (operatorRange d o).2 + (d.cur : Int) - 1 > d.text.length) := by omega
  rw [if_neg hdom]
  unfold cutSelection selRange
  simp only [Bool.false_eq_true, if_false]
  have e1 : min ((operatorRange d o).2 + (d.cur : Int) - 1).toNat ((operatorRange d o).1 + (d.cur : Int)).toNat
      = ((d.cur : Int) + (operatorRange d o).1).toNat := by omega
  have e2 : max ((operatorRange d o).2 + (d.cur : Int) - 1).toNat ((operatorRange d o).1 + (d.cur : Int)).toNat + 1
      = ((d.cur : Int) + (operatorRange d o).2).toNat := by omega
  rw [e1, e2]
  simp


theorem notNl_iff (c : Char) : notNl c = true ↔ c ≠ '\n' := by simp [notNl]

theorem dropWhile_notNl_head (l : Text) :
    l.dropWhile notNl = [] ∨ ∃ r, l.dropWhile notNl = '\n' :: r := by
  induction l with
  | nil => simp
  | cons x xs ih =>
    rw [List.dropWhile_cons]
    split
    · exact ih
    · right
      rename_i hx
      have : x = '\n' := by
        by_cases hne : x = '\n'
        · exact hne
        · exact absurd ((notNl_iff x).2 hne) hx
      exact ⟨xs, by rw [this]⟩

theorem nl_not_mem_takeWhile (l : Text) : '\n' ∉ l.takeWhile notNl := by
  intro hm
  have := @List.all_takeWhile _ notNl l
  rw [List.all_eq_true] at this
  have := this _ hm
  simp [notNl] at this

/-- a text splits into (everything up to and including the last newline) ++ (last line) -/
theorem last_line_split (l : Text) :
    ∃ pre, l = pre ++ (l.reverse.takeWhile notNl).reverse ∧
      (pre = [] ∨ ∃ q, pre = q ++ ['\n']) := by
  refine ⟨(l.reverse.dropWhile notNl).reverse, ?_, ?_⟩
  · have := List.takeWhile_append_dropWhile (p := notNl) (l := l.reverse)
    have h2 : l.reverse.reverse = (l.reverse.takeWhile notNl ++ l.reverse.dropWhile notNl).reverse := by
      rw [this]
    rw [List.reverse_reverse, List.reverse_append] at h2
    exact h2
  · rcases dropWhile_notNl_head l.reverse with h | ⟨r, h⟩
    · left; simp [h]
    · right; exact ⟨r.reverse, by rw [h]; simp⟩

theorem lineStart_spec (t : Text) (i : Nat) :
    ∃ pre lb, t.take i = pre ++ lb ∧ pre.length = lineStart t i ∧ '\n' ∉ lb ∧
      (pre = [] ∨ ∃ q, pre = q ++ ['\n']) := by
  obtain ⟨pre, hp, hq⟩ := last_line_split (t.take i)
  refine ⟨pre, ((t.take i).reverse.takeWhile notNl).reverse, hp, ?_, ?_, hq⟩
  · unfold lineStart
    have := congrArg List.length hp
    simp at this
    simp
    omega
  · intro hm
    simp at hm
    exact nl_not_mem_takeWhile _ hm

theorem take_of_take_prefix {α : Type} (t : List α) (i : Nat) (pre lb : List α)
    (h : t.take i = pre ++ lb) : t.take pre.length = pre := by
  have : (t.take i).take pre.length = pre := by rw [h]; simp
  rw [List.take_take] at this
  have hl : pre.length ≤ i := by
    have := congrArg List.length h
    simp at this; omega
  rwa [Nat.min_eq_left hl] at this

theorem lineStart_idem (t : Text) (i : Nat) : lineStart t (lineStart t i) = lineStart t i := by
  obtain ⟨pre, lb, h1, h2, _, h4⟩ := lineStart_spec t i
  have hpre := take_of_take_prefix t i pre lb h1
  rw [← h2]
  unfold lineStart
  rw [hpre]
  rcases h4 with h | ⟨q, h⟩
  · simp [h]
  · rw [h]; simp [notNl]

theorem lineStart_is_line_start (t : Text) (i : Nat) :
    lineStart t i = 0 ∨ t[lineStart t i - 1]? = some '\n' := by
  obtain ⟨pre, lb, h1, h2, _, h4⟩ := lineStart_spec t i
  have hpre := take_of_take_prefix t i pre lb h1
  rcases h4 with h | ⟨q, h⟩
  · left; rw [← h2, h]; rfl
  · right
    rw [← h2]
    have : (t.take pre.length)[pre.length - 1]? = some '\n' := by
      rw [hpre, h]; simp
    rw [List.getElem?_take] at this
    split at this
    · exact this
    · simp at this

theorem lineStart_no_nl (t : Text) (i : Nat) : '\n' ∉ (t.take i).drop (lineStart t i) := by
  obtain ⟨pre, lb, h1, h2, h3, _⟩ := lineStart_spec t i
  rw [h1, ← h2]; simpa using h3


theorem drop_takeWhile_length {α : Type} (p : α → Bool) (l : List α) :
    l.drop (l.takeWhile p).length = l.dropWhile p := by
  induction l with
  | nil => simp
  | cons x xs ih =>
    rw [List.takeWhile_cons, List.dropWhile_cons]
    split <;> simp [ih]

theorem lineEnd_spec (t : Text) (i : Nat) (h : i ≤ t.length) :
    ∃ la rest, t.drop i = la ++ rest ∧ lineEnd t i = i + la.length ∧ '\n' ∉ la ∧
      t.drop (lineEnd t i) = rest ∧ (rest = [] ∨ ∃ r, rest = '\n' :: r) := by
  refine ⟨(t.drop i).takeWhile notNl, (t.drop i).dropWhile notNl,
    (List.takeWhile_append_dropWhile).symm, ?_, nl_not_mem_takeWhile _, ?_, dropWhile_notNl_head _⟩
  · unfold lineEnd; rw [Nat.min_eq_left h]
  · have e : lineEnd t i = i + ((t.drop i).takeWhile notNl).length := by
      unfold lineEnd; rw [Nat.min_eq_left h]
    have : t.drop (i + ((t.drop i).takeWhile notNl).length)
        = (t.drop i).drop ((t.drop i).takeWhile notNl).length := by simp [List.drop_drop]
    rw [e, this, drop_takeWhile_length]

theorem lineEnd_no_nl (t : Text) (i : Nat) (h : i ≤ t.length) :
    '\n' ∉ (t.take (lineEnd t i)).drop i := by
  obtain ⟨la, rest, h1, h2, h3, _, _⟩ := lineEnd_spec t i h
  have : (t.take (lineEnd t i)).drop i = la := by
    rw [h2, List.drop_take]
    have : i + la.length - i = la.length := by omega
    rw [this, h1]; simp
  rw [this]; exact h3

/-- the register content of a linewise cut of `text[a:b)` whose motion ends at index `j`: the
    newline that terminates the last removed line is not part of it; when the removed lines
    reach the end of the text there is no such newline (a final "\n" is then a removed empty
    last line) -/
def linesClip (t : Text) (a b j : Nat) : Text :=
  if lineEnd t j < t.length then stripNl ((t.take b).drop a) else (t.take b).drop a

/-- linewise cut: whole lines `text[a:b)` are removed (`a` a line start, `b` behind a newline or
    the end of the text), the register gets them without the final newline, type LINES -/
theorem cut_linewise (d : Doc) (o : TextObject) (h : InRange d o) (ht : o.type = .linewise) :
    ∃ a b : Nat, a ≤ b ∧ b ≤ d.text.length ∧
      (a : Int) ≤ d.cur + o.sorted.1 ∧ (d.cur : Int) + o.sorted.2 ≤ b ∧
      (a = 0 ∨ d.text[a - 1]? = some '\n') ∧ (b = d.text.length ∨ d.text[b - 1]? = some '\n') ∧
      '\n' ∉ (d.text.take ((d.cur : Int) + o.sorted.1).toNat).drop a ∧
      '\n' ∉ (d.text.take (b - 1)).drop ((d.cur : Int) + o.sorted.2).toNat ∧
      cut d o = some ({ text := d.text.take a ++ d.text.drop b, cur := a },
                      { text := linesClip d.text a b ((d.cur : Int) + o.sorted.2).toNat, lines := true }) := by
  have hs := sorted_le o
  obtain ⟨h1, h2⟩ := sorted_inrange d o h
  -- absolute ends of the motion
  generalize hi : (o.sorted.1 + (d.cur : Int)).toNat = i
  generalize hj : (o.sorted.2 + (d.cur : Int)).toNat = j
  have hij : i ≤ j := by omega
  have hjl : j ≤ d.text.length := by omega
  have ei : ((d.cur : Int) + o.sorted.1).toNat = i := by rw [← hi]; congr 1; omega
  have ej : ((d.cur : Int) + o.sorted.2).toNat = j := by rw [← hj]; congr 1; omega
  obtain ⟨la, rest, e1, e2, e3, e4, e5⟩ := lineEnd_spec d.text j hjl
  have ls := lineStart_le d.text i
  have le1 := lineEnd_le d.text j
  have le2 := lineEnd_ge d.text j hjl
  -- the operator range
  have hr : operatorRange d o = ((lineStart d.text i : Int) - d.cur, (lineEnd d.text j : Int) - d.cur) := by
    unfold operatorRange
    rw [ht]
    simp only [lineStartI, lineEndI]
    have ha : ¬ (o.sorted.1 + (d.cur : Int) < 0) := by omega
    have hb : ¬ (o.sorted.2 + (d.cur : Int) < 0) := by omega
    rw [if_neg ha, if_neg hb, hi, hj]
  -- the end of the cut
  let b := if rest = [] then d.text.length else lineEnd d.text j + 1
  have hsel : selRange d.text (lineStart d.text i) (lineEnd d.text j) true = (lineStart d.text i, b) := by
    unfold selRange
    simp only [if_true, lineStart_idem, e4]
    rcases e5 with hr0 | ⟨r, hr0⟩
    · simp [b, hr0, findChar?]
    · simp [b, hr0, findChar?]
  have hb1 : lineEnd d.text j ≤ b ∧ b ≤ d.text.length := by
    rcases e5 with hr0 | ⟨r, hr0⟩
    · simp [b, hr0]; exact le1
    · simp only [b, hr0]
      have : (d.text.drop (lineEnd d.text j)).length = (('\n' :: r) : Text).length := by rw [e4, hr0]
      simp at this
      simp; omega
  refine ⟨lineStart d.text i, b, by omega, hb1.2, by omega, by omega, lineStart_is_line_start _ _, ?_, ?_, ?_, ?_⟩
  · rcases e5 with hr0 | ⟨r, hr0⟩
    · left; simp [b, hr0]
    · right
      simp only [b, hr0]
      have : d.text[lineEnd d.text j]? = some '\n' := by
        have := congrArg List.head? e4
        rw [hr0] at this
        simpa [List.head?_drop] using this
      simpa using this
  · rw [ei]; exact lineStart_no_nl _ _
  · rw [ej]
    have hsub : ∀ c, c ∈ (d.text.take (b - 1)).drop j → c ∈ (d.text.take (lineEnd d.text j)).drop j := by
      intro c hc
      have hle : b - 1 ≤ lineEnd d.text j := by
        rcases e5 with hr0 | ⟨r, hr0⟩
        · simp only [b, hr0, if_true]
          have : (d.text.drop (lineEnd d.text j)).length = 0 := by rw [e4, hr0]; rfl
          simp at this; omega
        · simp [b, hr0]
      have : (d.text.take (b - 1)) = (d.text.take (lineEnd d.text j)).take (b - 1) := by
        rw [List.take_take, Nat.min_eq_left hle]
      rw [this] at hc
      rw [List.drop_take] at hc
      exact List.mem_of_mem_take hc
    intro hm
    exact lineEnd_no_nl d.text j hjl (hsub _ hm)
  · unfold cut
    rw [hr, ht]
    simp only [beq_self_eq_true, Bool.not_true, Bool.false_and, Bool.false_eq_true, if_false, if_true]
    have hdom : ¬ ((lineStart d.text i : Int) - d.cur + d.cur < 0 ∨ (lineEnd d.text j : Int) - d.cur + d.cur < 0 ∨
        (lineEnd d.text j : Int) - d.cur + d.cur > d.text.length) := by omega
    rw [if_neg hdom]
    have x1 : ((lineStart d.text i : Int) - d.cur + d.cur).toNat = lineStart d.text i := by omega
    have x2 : ((lineEnd d.text j : Int) - d.cur + d.cur).toNat = lineEnd d.text j := by omega
    rw [x1, x2]
    have m1 : min (lineEnd d.text j) (lineStart d.text i) = lineStart d.text i := by omega
    have m2 : max (lineEnd d.text j) (lineStart d.text i) = lineEnd d.text j := by omega
    simp only [cutSelection, m1, m2, hsel, e4, ej, linesClip]
    have hiff : ((findChar? '\n' rest).isSome = true) ↔ lineEnd d.text j < d.text.length := by
      have hlen : (d.text.drop (lineEnd d.text j)).length = rest.length := by rw [e4]
      simp at hlen
      rcases e5 with hr0 | ⟨r, hr0⟩
      · subst hr0; simp [findChar?] at *; omega
      · subst hr0; simp [findChar?] at *; omega
    by_cases hlt : lineEnd d.text j < d.text.length
    · simp [hlt, hiff.2 hlt]
    · have : (findChar? '\n' rest).isSome = false := by
        cases hx : (findChar? '\n' rest).isSome
        · rfl
        · exact absurd (hiff.1 hx) hlt
      simp [hlt, this]


/-! ### registers -/

theorem regGet_regSet_same (rs : List (Char × Clip)) (n : Char) (v : Clip) :
    regGet (regSet rs n v) n = some v := by
  simp [regGet, regSet]

theorem find_filter_other (rs : List (Char × Clip)) (n m : Char) (h : m ≠ n) :
    (rs.filter (fun p => p.1 != n)).find? (fun p => p.1 == m) = rs.find? (fun p => p.1 == m) := by
  induction rs with
  | nil => rfl
  | cons p ps ih =>
    rw [List.filter_cons]
    by_cases hp : p.1 = n
    · have hpm : (p.1 == m) = false := by
        rw [hp]; exact beq_false_of_ne (fun e => h e.symm)
      have hpn : (p.1 != n) = false := by rw [hp]; simp
      rw [hpn, List.find?_cons, hpm]
      simpa using ih
    · have hpn : (p.1 != n) = true := by simpa using hp
      rw [hpn]
      simp only [if_true]
      rw [List.find?_cons, List.find?_cons, ih]

theorem regGet_regSet_other (rs : List (Char × Clip)) (n m : Char) (v : Clip) (h : m ≠ n) :
    regGet (regSet rs n v) m = regGet rs m := by
  unfold regGet regSet
  have h1 : ((n, v).1 == m) = false := beq_false_of_ne (fun e => h e.symm)
  rw [List.find?_cons, h1, find_filter_other rs n m h]

/-- what `store` does: the unnamed register (clipboard) or exactly the named register receives
    the data; empty non-LINES data is not stored; other registers are untouched -/
theorem store_spec (s : St) (reg : Option Char) (c : Clip) :
    (c.text = [] ∧ c.lines = false → store s reg c = s) ∧
    (¬ (c.text = [] ∧ c.lines = false) →
      match reg with
      | none => (store s none c).clip = c ∧ (store s none c).regs = s.regs
      | some r =>
        (store s (some r) c).clip = s.clip ∧
        (isRegName r = true → regGet (store s (some r) c).regs r = some c ∧
            ∀ m, m ≠ r → regGet (store s (some r) c).regs m = regGet s.regs m) ∧
        (isRegName r = false → (store s (some r) c).regs = s.regs)) := by
  constructor
  · intro ⟨h1, h2⟩; simp [store, h1, h2]
  · intro hne
    have hcond : (c.text.isEmpty && !c.lines) = false := by
      cases hl : c.lines <;> cases ht : c.text <;> simp_all
    cases reg with
    | none => simp [store, hcond]
    | some r =>
      simp only [store, hcond]
      refine ⟨by cases isRegName r <;> simp, ?_, ?_⟩
      · intro hr; simp [hr]
        exact ⟨regGet_regSet_same _ _ _, fun m hm => regGet_regSet_other _ _ _ _ hm⟩
      · intro hr; simp [hr]

/-- `d` / `c`: the buffer becomes the cut document, the cut data goes through `store`,
    `c` additionally enters insert mode -/
theorem delete_spec (s s' : St) (o : TextObject) (reg : Option Char) (change : Bool)
    (hb : badReg reg = false)
    (h : opDelete s o reg change = some s') :
    ∃ d' c, cut s.doc o = some (d', c) ∧ s'.text = d'.text ∧ s'.cur = d'.cur ∧
      s'.insert = (s.insert || change) ∧
      s'.clip = (store { s with text := d'.text, cur := d'.cur } reg c).clip ∧
      s'.regs = (store { s with text := d'.text, cur := d'.cur } reg c).regs := by
  rw [opDelete_good _ _ _ _ hb] at h
  split at h
  · simp at h
  · rename_i d' c hc
    simp at h; subst h
    refine ⟨d', c, hc, ?_, ?_, ?_, rfl, rfl⟩
    · exact (store_text _ _ _).1
    · exact (store_text _ _ _).2.1
    · simp [(store_text _ _ _).2.2]

/-- characterwise `d<motion>` into the clipboard: one contiguous span `[a, b)` containing or
    touching the cursor side of the motion is removed, the clipboard holds exactly the removed
    characters, and re-inserting the clipboard at the new cursor restores the old text -/
theorem delete_charwise_exact (s s' : St) (o : TextObject) (change : Bool)
    (hr : InRange s.doc o) (ht : o.type ≠ .linewise)
    (hne : (operatorRange s.doc o).1 < (operatorRange s.doc o).2)
    (hin : (s.cur : Int) + (operatorRange s.doc o).1 < s.text.length)
    (h : opDelete s o none change = some s') :
    ∃ a b : Nat, (a : Int) = s.cur + (operatorRange s.doc o).1 ∧ (b : Int) = s.cur + (operatorRange s.doc o).2 ∧
      a < b ∧ s'.text = s.text.take a ++ s.text.drop b ∧ s'.cur = a ∧
      s'.clip = { text := (s.text.take b).drop a, lines := false } ∧ s'.regs = s.regs ∧
      s.text = s'.text.take s'.cur ++ s'.clip.text ++ s'.text.drop s'.cur := by
  obtain ⟨a, b, ha, hb, hab, hcut⟩ := cut_charwise s.doc o hr ht hne
  obtain ⟨d', c, hc, e1, e2, _, e4, e5⟩ := delete_spec s s' o none change rfl h
  rw [hcut] at hc
  simp at hc
  obtain ⟨hd, hcl⟩ := hc
  subst hd; subst hcl
  have hd1 : s.doc.cur = s.cur := rfl
  have hd2 : s.doc.text = s.text := rfl
  rw [hd1] at ha hb
  have hal : a < s.text.length := by omega
  have hnonempty : ¬ ((({ text := (s.doc.text.take b).drop a, lines := false } : Clip).text = []) ∧
      ({ text := (s.doc.text.take b).drop a, lines := false } : Clip).lines = false) := by
    simp [hd2]
    omega
  have hs := (store_spec { s with text := (s.doc.text.take a ++ s.doc.text.drop b), cur := a } none
      { text := (s.doc.text.take b).drop a, lines := false }).2 hnonempty
  simp only [] at hs
  refine ⟨a, b, ha, hb, hab, e1, e2, ?_, ?_, ?_⟩
  · rw [e4]; exact hs.1
  · rw [e5]; exact hs.2
  · rw [e4, hs.1, e1, e2]
    simp only [hd2]
    have hl : (s.text.take a).length = a := by simp; omega
    rw [List.take_left' hl, List.drop_left' hl]
    exact (slice_partition s.text a b (by omega)).symm


theorem stripNl_spec (x : Text) : ∃ nl : Text, (nl = [] ∨ nl = ['\n']) ∧ stripNl x ++ nl = x := by
  unfold stripNl
  split
  · rename_i h
    obtain ⟨ys, hy⟩ := List.getLast?_eq_some_iff.1 h
    exact ⟨['\n'], Or.inr rfl, by rw [hy]; simp⟩
  · exact ⟨[], Or.inl rfl, by simp⟩

theorem linesClip_spec (t : Text) (a b j : Nat) :
    ∃ nl : Text, (nl = [] ∨ nl = ['\n']) ∧ linesClip t a b j ++ nl = (t.take b).drop a := by
  unfold linesClip
  split
  · exact stripNl_spec _
  · exact ⟨[], Or.inl rfl, by simp⟩

/-- linewise `d<motion>` into the clipboard: whole lines `[a, b)` are removed, the clipboard
    (type LINES) holds them without the final newline, and re-inserting restores the text -/
theorem delete_linewise_exact (s s' : St) (o : TextObject) (change : Bool)
    (hr : InRange s.doc o) (ht : o.type = .linewise)
    (h : opDelete s o none change = some s') :
    ∃ a b : Nat, a ≤ b ∧ b ≤ s.text.length ∧
      (a : Int) ≤ s.cur + o.sorted.1 ∧ (s.cur : Int) + o.sorted.2 ≤ b ∧
      (a = 0 ∨ s.text[a - 1]? = some '\n') ∧ (b = s.text.length ∨ s.text[b - 1]? = some '\n') ∧
      s'.text = s.text.take a ++ s.text.drop b ∧ s'.cur = a ∧
      s'.clip = { text := linesClip s.text a b ((s.cur : Int) + o.sorted.2).toNat, lines := true } ∧
      s'.regs = s.regs ∧
      ∃ nl : Text, (nl = [] ∨ nl = ['\n']) ∧
        s.text = s'.text.take s'.cur ++ (s'.clip.text ++ nl) ++ s'.text.drop s'.cur := by
  obtain ⟨a, b, hab, hbl, c1, c2, c3, c4, _, _, hcut⟩ := cut_linewise s.doc o hr ht
  obtain ⟨d', c, hc, e1, e2, _, e4, e5⟩ := delete_spec s s' o none change rfl h
  rw [hcut] at hc
  simp at hc
  obtain ⟨hd, hcl⟩ := hc
  subst hd; subst hcl
  have hd1 : s.doc.cur = s.cur := rfl
  have hd2 : s.doc.text = s.text := rfl
  rw [hd1] at c1 c2
  rw [hd2] at hbl c3 c4
  have hnonempty : ¬ ((({ text := linesClip s.doc.text a b ((s.doc.cur : Int) + o.sorted.2).toNat, lines := true } : Clip).text = []) ∧
      ({ text := linesClip s.doc.text a b ((s.doc.cur : Int) + o.sorted.2).toNat, lines := true } : Clip).lines = false) := by
    simp
  have hs := (store_spec { s with text := (s.doc.text.take a ++ s.doc.text.drop b), cur := a } none
      { text := linesClip s.doc.text a b ((s.doc.cur : Int) + o.sorted.2).toNat, lines := true }).2 hnonempty
  simp only [] at hs
  obtain ⟨nl, hnl, hstrip⟩ := linesClip_spec s.text a b ((s.cur : Int) + o.sorted.2).toNat
  refine ⟨a, b, hab, hbl, c1, c2, c3, c4, e1, e2, ?_, ?_, nl, hnl, ?_⟩
  · rw [e4]; exact hs.1
  · rw [e5]; exact hs.2
  · rw [e4, hs.1, e1, e2]
    simp only [hd1, hd2]
    have hl : (s.text.take a).length = a := by simp; omega
    rw [List.take_left' hl, List.drop_left' hl, hstrip]
    exact (slice_partition s.text a b hab).symm

/-- case operators: only `text[a:b)` is replaced (by its image under the callback); clipboard
    and registers are untouched -/
theorem transform_frame (f : Text → Text) (s s' : St) (o : TextObject)
    (hr : InRange s.doc o) (h : opTransform f s o = some s') :
    s'.clip = s.clip ∧ s'.regs = s.regs ∧ s'.insert = s.insert ∧
    ((operatorRange s.doc o).1 ≥ (operatorRange s.doc o).2 → s' = s) ∧
    ((operatorRange s.doc o).1 < (operatorRange s.doc o).2 →
      ∃ a b : Nat, (a : Int) = s.cur + (operatorRange s.doc o).1 ∧
        (b : Int) = s.cur + (operatorRange s.doc o).2 ∧ a < b ∧
        s'.text = s.text.take a ++ f ((s.text.take b).drop a) ++ s.text.drop b) := by
  obtain ⟨b1, b2, b3⟩ := operatorRange_bounds s.doc o hr
  have hd1 : s.doc.cur = s.cur := rfl
  rw [hd1] at b1 b3
  by_cases hlt : (operatorRange s.doc o).1 < (operatorRange s.doc o).2
  · have hnn : ¬ ((operatorRange s.doc o).1 + (s.cur : Int) < 0) := by omega
    simp only [opTransform, hlt, if_true, hnn, if_false] at h
    simp at h; subst h
    refine ⟨rfl, rfl, rfl, fun hge => absurd hlt (by omega), fun _ => ?_⟩
    refine ⟨((operatorRange s.doc o).1 + (s.cur : Int)).toNat, ((operatorRange s.doc o).2 + (s.cur : Int)).toNat,
      by omega, by omega, by omega, by simp⟩
  · simp only [opTransform, hlt, if_false] at h
    simp at h; subst h
    exact ⟨rfl, rfl, rfl, fun _ => rfl, fun hlt' => absurd hlt' hlt⟩

/-! ### bounds of the Document queries -/

theorem lineBefore_length (d : Doc) : (lineBefore d).length ≤ d.cur ∧ (lineBefore d).length ≤ d.text.length := by
  unfold lineBefore Doc.before
  have := length_takeWhile_le' notNl (d.text.take d.cur).reverse
  simp at this ⊢; omega

theorem lineAfter_length (d : Doc) : d.cur + (lineAfter d).length ≤ max d.cur d.text.length := by
  unfold lineAfter Doc.after
  have := length_takeWhile_le' notNl (d.text.drop d.cur)
  simp at this; omega

theorem col_eq (d : Doc) (h : Inv d) : d.col = (lineBefore d).length := by
  unfold Inv at h
  unfold Doc.col lineStart lineBefore Doc.before
  have := length_takeWhile_le' notNl (d.text.take d.cur).reverse
  simp at this ⊢; omega

theorem nth_mem {α : Type} (l : List α) (count : Nat) (x : α) (h : nth l count = some x) : x ∈ l := by
  unfold nth at h
  split at h
  · simp at h
  · exact List.mem_of_getElem? h

theorem occGo_bound (c : Char) (pos : Nat) (l : Text) (k : Nat) (h : k ∈ occGo c pos l) :
    pos ≤ k ∧ k < pos + l.length := by
  induction l generalizing pos with
  | nil => simp [occGo] at h
  | cons x xs ih =>
    unfold occGo at h
    split at h
    · simp at h
      rcases h with h | h
      · subst h; simp
      · have := ih (pos + 1) h; simp; omega
    · have := ih (pos + 1) h; simp; omega

theorem occ_bound (c : Char) (l : Text) (k : Nat) (h : k ∈ occ c l) : k < l.length := by
  have := occGo_bound c 0 l k h; omega

theorem runsAux_bound (cl : Char → Nat) (pos : Nat) (st : Option (Nat × Nat)) (l : Text)
    (hst : ∀ s0 k, st = some (s0, k) → s0 ≤ pos) :
    ∀ m ∈ runsAux cl pos st l, m.1 ≤ m.2 ∧ m.2 ≤ pos + l.length := by
  induction l generalizing pos st with
  | nil =>
    intro m hm
    cases st with
    | none => simp [runsAux] at hm
    | some p =>
      obtain ⟨s0, k⟩ := p
      simp [runsAux] at hm
      subst hm
      simp; exact hst s0 k rfl
  | cons c r ih =>
    intro m hm
    cases st with
    | none =>
      unfold runsAux at hm
      split at hm
      · have := ih (pos + 1) none (by intro _ _ h; cases h) m hm
        simp; omega
      · have := ih (pos + 1) (some (pos, cl c)) (by intro s0 k h; cases h; omega) m hm
        simp; omega
    | some p =>
      obtain ⟨s0, k⟩ := p
      have hs0 := hst s0 k rfl
      unfold runsAux at hm
      split at hm
      · have := ih (pos + 1) (some (s0, k)) (by intro s1 k1 h; cases h; omega) m hm
        simp; omega
      · simp only [List.mem_cons] at hm
        rcases hm with hm | hm
        · subst hm; simp; omega
        · split at hm
          · have := ih (pos + 1) none (by intro _ _ h; cases h) m hm
            simp; omega
          · have := ih (pos + 1) (some (pos, cl c)) (by intro s1 k1 h; cases h; omega) m hm
            simp; omega

theorem runs_bound (cl : Char → Nat) (l : Text) (m : Nat × Nat) (h : m ∈ runs cl l) :
    m.1 ≤ m.2 ∧ m.2 ≤ l.length := by
  have := runsAux_bound cl 0 none l (by intro _ _ h; cases h) m h
  omega

theorem currentWordEnd_le (sp : Char → Bool) (big trailing : Bool) (t : Text) (e : Nat)
    (h : currentWordEnd sp big trailing t = some e) : e ≤ t.length := by
  unfold currentWordEnd at h
  cases t with
  | nil => simp at h
  | cons c r =>
    simp only [] at h
    split at h
    · simp at h
    · have h1 := length_takeWhile_le' (fun x => cls sp big x == cls sp big c) r
      have h2 := length_takeWhile_le' sp (r.drop (r.takeWhile fun x => cls sp big x == cls sp big c).length)
      simp at h2
      split at h <;> (simp at h; subst h; simp; omega)

theorem walk_bound (inc dec : Char) (stack off : Nat) (l : Text) (k : Nat)
    (h : walk inc dec stack off l = some k) : off ≤ k ∧ k < off + l.length := by
  induction l generalizing stack off with
  | nil => simp [walk] at h
  | cons c r ih =>
    unfold walk at h
    split at h
    · have := ih _ _ h; simp; omega
    · split at h
      · split at h
        · simp at h; subst h; simp
        · have := ih _ _ h; simp; omega
      · have := ih _ _ h; simp; omega

theorem rowColToIndex_le (t : Text) (row col : Nat) : rowColToIndex t row col ≤ t.length := by
  unfold rowColToIndex; simp only []; exact Nat.min_le_right _ _


/-! ### every modelled text object stays inside the text -/

theorem inRange_of_start (d : Doc) (h : Inv d) (v : Int) (ty : TOType)
    (h1 : 0 ≤ (d.cur : Int) + v) (h2 : (d.cur : Int) + v ≤ d.text.length) :
    InRange d { start := v, stop := 0, type := ty } := by
  unfold Inv at h; unfold InRange; simp; omega

theorem inRange_zero (d : Doc) (h : Inv d) (ty : TOType) : InRange d { start := 0, stop := 0, type := ty } :=
  inRange_of_start d h 0 ty (by omega) (by unfold Inv at h; omega)

theorem length_dropWhile_le' {α : Type} (p : α → Bool) (l : List α) :
    (l.dropWhile p).length ≤ l.length := by
  induction l with
  | nil => simp
  | cons x xs ih => rw [List.dropWhile_cons]; split <;> simp <;> omega

theorem findFwd_bound (d : Doc) (h : Inv d) (c : Char) (inLine : Bool) (count : Nat) (v : Int)
    (hv : findFwd d c inLine count = some v) : 1 ≤ v ∧ (d.cur : Int) + v < d.text.length := by
  unfold Inv at h
  unfold findFwd at hv
  have hla := lineAfter_length d
  have hlen : (if inLine then lineAfter d else d.after).length ≤ d.text.length - d.cur := by
    split
    · omega
    · simp [Doc.after]
  generalize (if inLine then lineAfter d else d.after) = text at hv hlen
  simp only [] at hv
  by_cases he : text.isEmpty
  · simp [he] at hv
  · simp only [he] at hv
    obtain ⟨k, hn, hk'⟩ := Option.map_eq_some_iff.1 hv
    have hk := occ_bound c _ k (nth_mem _ _ _ hn)
    simp at hk
    omega

theorem findBwd_bound (d : Doc) (c : Char) (inLine : Bool) (count : Nat) (v : Int)
    (hv : findBwd d c inLine count = some v) : v ≤ -1 ∧ 0 ≤ (d.cur : Int) + v := by
  unfold findBwd at hv
  simp only [] at hv
  obtain ⟨k, hn, hk'⟩ := Option.map_eq_some_iff.1 hv
  · have hk := occ_bound c _ k (nth_mem _ _ _ hn)
    have hlb := lineBefore_length d
    have : (if inLine then (lineBefore d).reverse else d.before.reverse).length ≤ d.cur := by
      split
      · simp; omega
      · simp [Doc.before]; omega
    omega

theorem textObject_inRange_simple (isSpace sp : Char → Bool) (d : Doc) (h : Inv d) (count : Nat) :
    InRange d (textObject isSpace sp d count .h) ∧ InRange d (textObject isSpace sp d count .l) ∧
    InRange d (textObject isSpace sp d count .zero) ∧ InRange d (textObject isSpace sp d count .dollar) ∧
    InRange d (textObject isSpace sp d count .caret) := by
  have hc := col_eq d h
  have hlb := lineBefore_length d
  have hla := lineAfter_length d
  have hi : d.cur ≤ d.text.length := h
  refine ⟨?_, ?_, ?_, ?_, ?_⟩
  · apply inRange_of_start d h <;> omega
  · apply inRange_of_start d h <;> omega
  · apply inRange_of_start d h <;> omega
  · apply inRange_of_start d h <;> omega
  · simp only [textObject]
    have h1 := length_dropWhile_le' isSpace (currentLine d)
    have h2 : (currentLine d).length = (lineBefore d).length + (lineAfter d).length := by
      simp [currentLine]
    apply inRange_of_start d h <;> omega

theorem textObject_inRange_find (isSpace sp : Char → Bool) (d : Doc) (h : Inv d) (count : Nat) (c : Char) :
    InRange d (textObject isSpace sp d count (.f c)) ∧ InRange d (textObject isSpace sp d count (.F c)) ∧
    InRange d (textObject isSpace sp d count (.t c)) ∧ InRange d (textObject isSpace sp d count (.T c)) := by
  have hi : d.cur ≤ d.text.length := h
  refine ⟨?_, ?_, ?_, ?_⟩
  · simp only [textObject]
    cases hf : findFwd d c true count with
    | none => exact inRange_zero d h _
    | some m =>
      have := findFwd_bound d h c true count m hf
      simp only []
      split
      · apply inRange_of_start d h <;> omega
      · exact inRange_zero d h _
  · simp only [textObject]
    cases hf : findBwd d c true count with
    | none => exact inRange_zero d h _
    | some m =>
      have := findBwd_bound d c true count m hf
      apply inRange_of_start d h <;> simp [orZero] <;> omega
  · simp only [textObject]
    cases hf : findFwd d c true count with
    | none => exact inRange_zero d h _
    | some m =>
      have := findFwd_bound d h c true count m hf
      simp only []
      split
      · apply inRange_of_start d h <;> omega
      · exact inRange_zero d h _
  · simp only [textObject]
    cases hf : findBwd d c true count with
    | none => exact inRange_zero d h _
    | some m =>
      have := findBwd_bound d c true count m hf
      simp only []
      split
      · apply inRange_of_start d h <;> omega
      · exact inRange_zero d h _

theorem textObject_inRange_lines (isSpace sp : Char → Bool) (d : Doc) (h : Inv d) (count : Nat) :
    InRange d (textObject isSpace sp d count .j) ∧ InRange d (textObject isSpace sp d count .k) ∧
    InRange d (textObject isSpace sp d count .G) ∧ InRange d (textObject isSpace sp d count .gg) := by
  have hi : d.cur ≤ d.text.length := h
  refine ⟨?_, ?_, ?_, ?_⟩
  · simp only [textObject]
    split
    · exact inRange_zero d h _
    · have := rowColToIndex_le d.text (d.row + count) d.col
      apply inRange_of_start d h <;> omega
  · simp only [textObject]
    split
    · exact inRange_zero d h _
    · have := rowColToIndex_le d.text (d.row - count) d.col
      apply inRange_of_start d h <;> omega
  · simp only [textObject]
    have := rowColToIndex_le d.text (lineCount d.text - 1) 0
    apply inRange_of_start d h <;> omega
  · simp only [textObject]
    have := rowColToIndex_le d.text (count - 1) 0
    apply inRange_of_start d h <;> omega


theorem textObject_inRange_words (isSpace sp : Char → Bool) (d : Doc) (h : Inv d) (count : Nat) (big : Bool) :
    InRange d (textObject isSpace sp d count (.w big)) ∧ InRange d (textObject isSpace sp d count (.b big)) ∧
    InRange d (textObject isSpace sp d count (.e big)) := by
  have hi : d.cur ≤ d.text.length := h
  have hafter : d.after.length = d.text.length - d.cur := by simp [Doc.after]
  have hbefore : d.before.length = d.cur := by simp [Doc.before]; omega
  refine ⟨?_, ?_, ?_⟩
  · simp only [textObject]
    cases hf : findNextWordBeginning sp d count big with
    | none => apply inRange_of_start d h <;> simp <;> omega
    | some v =>
      simp only []
      split
      · unfold findNextWordBeginning at hf
        simp only [] at hf
        obtain ⟨m, hn, hm⟩ := Option.map_eq_some_iff.1 hf
        have hmem : m ∈ runs (cls sp big) d.after := nth_mem _ _ _ hn
        have := runs_bound _ _ m hmem
        apply inRange_of_start d h <;> omega
      · apply inRange_of_start d h <;> omega
  · simp only [textObject]
    cases hf : findStartOfPreviousWord sp d count big with
    | none => exact inRange_zero d h _
    | some v =>
      unfold findStartOfPreviousWord at hf
      obtain ⟨m, hn, hm⟩ := Option.map_eq_some_iff.1 hf
      have := runs_bound _ _ m (nth_mem _ _ _ hn)
      simp at this
      apply inRange_of_start d h <;> simp [orZero] <;> omega
  · simp only [textObject]
    cases hf : findNextWordEnding sp d count big with
    | none => exact inRange_zero d h _
    | some v =>
      unfold findNextWordEnding at hf
      obtain ⟨m, hn, hm⟩ := Option.map_eq_some_iff.1 hf
      have := runs_bound _ _ m (nth_mem _ _ _ hn)
      simp at this
      simp only []
      split
      · apply inRange_of_start d h <;> omega
      · exact inRange_zero d h _

theorem wordBoundaries_bound (sp : Char → Bool) (d : Doc) (h : Inv d) (big trailing : Bool) :
    (wordBoundaries sp d big trailing).1 ≤ 0 ∧ 0 ≤ (d.cur : Int) + (wordBoundaries sp d big trailing).1 ∧
    0 ≤ (wordBoundaries sp d big trailing).2 ∧
    (d.cur : Int) + (wordBoundaries sp d big trailing).2 ≤ d.text.length := by
  have hi : d.cur ≤ d.text.length := h
  have hlb := lineBefore_length d
  have hla := lineAfter_length d
  unfold wordBoundaries
  simp only []
  have h2 : ∀ x : Option Nat, x = currentWordEnd sp big trailing (lineAfter d) →
      0 ≤ (match x with | some e => (e : Int) | none => 0) ∧
      (d.cur : Int) + (match x with | some e => (e : Int) | none => 0) ≤ d.text.length := by
    intro x hx
    cases x with
    | none => simp; omega
    | some e =>
      have := currentWordEnd_le sp big trailing _ e hx.symm
      simp; omega
  have h1 : ∀ x : Option Nat, (x = none ∨ x = currentWordEnd sp big false (lineBefore d).reverse) →
      (match x with | some e => -(e : Int) | none => 0) ≤ 0 ∧
      0 ≤ (d.cur : Int) + (match x with | some e => -(e : Int) | none => 0) := by
    intro x hx
    cases x with
    | none => simp
    | some e =>
      rcases hx with hx | hx
      · cases hx
      · have := currentWordEnd_le sp big false _ e hx.symm
        simp at this
        simp; omega
  refine ⟨(h1 _ ?_).1, (h1 _ ?_).2, (h2 _ rfl).1, (h2 _ rfl).2⟩
  all_goals
    split
    · split
      · split
        · left; rfl
        · right; rfl
      · right; rfl
    · right; rfl

theorem textObject_inRange_iw (isSpace sp : Char → Bool) (d : Doc) (h : Inv d) (count : Nat) (big : Bool) :
    InRange d (textObject isSpace sp d count (.iw big)) ∧ InRange d (textObject isSpace sp d count (.aw big)) := by
  have a := wordBoundaries_bound sp d h big false
  have b := wordBoundaries_bound sp d h big true
  constructor <;> (simp only [textObject]; unfold InRange; simp; omega)

theorem enclosing_bound (d : Doc) (h : Inv d) (l r : Char) (s e : Int)
    (hs : enclosingLeft d l r = some s) (he : enclosingRight d l r = some e) :
    s ≤ 0 ∧ 0 ≤ (d.cur : Int) + s ∧ 0 ≤ e ∧ (d.cur : Int) + e + 1 ≤ d.text.length := by
  have hi : d.cur ≤ d.text.length := h
  have hcur : ∀ c, currentChar d = some c → d.cur < d.text.length := by
    intro c hc
    unfold currentChar at hc
    have := List.getElem?_eq_some_iff.1 hc
    exact this.1
  have hS : s ≤ 0 ∧ 0 ≤ (d.cur : Int) + s := by
    unfold enclosingLeft at hs
    split at hs
    · simp at hs; omega
    · obtain ⟨k, hk, hk'⟩ := Option.map_eq_some_iff.1 hs
      have := walk_bound _ _ _ _ _ _ hk
      simp [Doc.before] at this
      omega
  have hE : 0 ≤ e ∧ (d.cur : Int) + e + 1 ≤ d.text.length := by
    unfold enclosingRight at he
    split at he
    · rename_i hc
      have := hcur _ hc
      simp at he; omega
    · obtain ⟨k, hk, hk'⟩ := Option.map_eq_some_iff.1 he
      have := walk_bound _ _ _ _ _ _ hk
      simp at this
      omega
  exact ⟨hS.1, hS.2, hE.1, hE.2⟩

theorem textObject_inRange_bracket (isSpace sp : Char → Bool) (d : Doc) (h : Inv d) (count : Nat)
    (l r : Char) (inner : Bool) :
    InRange d (textObject isSpace sp d count (.bracket l r inner)) := by
  simp only [textObject]
  cases hs : enclosingLeft d l r with
  | none => exact inRange_zero d h _
  | some s =>
    cases he : enclosingRight d l r with
    | none => exact inRange_zero d h _
    | some e =>
      have := enclosing_bound d h l r s e hs he
      have hcurl : currentChar d = some l → d.cur < d.text.length := by
        intro hc
        unfold currentChar at hc
        exact (List.getElem?_eq_some_iff.1 hc).1
      simp only []
      unfold InRange
      cases inner <;> simp <;> omega

theorem textObject_inRange_quote (isSpace sp : Char → Bool) (d : Doc) (h : Inv d) (count : Nat)
    (q : Char) (inner : Bool) :
    InRange d (textObject isSpace sp d count (.quote q inner)) := by
  simp only [textObject]
  cases hs : findBwd d q false 1 with
  | none => exact inRange_zero d h _
  | some s =>
    cases he : findFwd d q false 1 with
    | none => exact inRange_zero d h _
    | some e =>
      have h1 := findBwd_bound d q false 1 s hs
      have h2 := findFwd_bound d h q false 1 e he
      simp only []
      unfold InRange
      cases inner <;> simp <;> omega

theorem textObject_inRange_repeat (isSpace sp : Char → Bool) (d : Doc) (h : Inv d) (count : Nat)
    (last : Option (Char × Bool)) (reverse : Bool) :
    InRange d (textObject isSpace sp d count (.repeatFind last reverse)) := by
  have hi : d.cur ≤ d.text.length := h
  cases last with
  | none => simp only [textObject]; exact inRange_zero d h _
  | some p =>
    obtain ⟨c, bw⟩ := p
    by_cases hdir : (if reverse then !bw else bw) = true
    · simp only [textObject, hdir, if_true]
      cases hf : findBwd d c true count with
      | none => exact inRange_zero d h _
      | some m =>
        have := findBwd_bound d c true count m hf
        by_cases hm : m ≠ 0
        · simp only []; rw [if_pos hm]; apply inRange_of_start d h <;> omega
        · simp only []; rw [if_neg hm]; exact inRange_zero d h _
    · have hb : (if reverse then !bw else bw) = false := by
        cases h' : (if reverse then !bw else bw) <;> simp_all
      simp only [textObject, hb, Bool.false_eq_true, if_false]
      cases hf : findFwd d c true count with
      | none => exact inRange_zero d h _
      | some m =>
        have := findFwd_bound d h c true count m hf
        by_cases hm : m ≠ 0
        · simp only []; rw [if_pos hm]; apply inRange_of_start d h <;> omega
        · simp only []; rw [if_neg hm]; exact inRange_zero d h _

/-! ### the motions ge gE g_ | % { } ap H M L gm -/

theorem runsAux_strict (cl : Char → Nat) (pos : Nat) (st : Option (Nat × Nat)) (l : Text)
    (hst : ∀ s0 k, st = some (s0, k) → s0 < pos) :
    ∀ m ∈ runsAux cl pos st l, m.1 < m.2 := by
  induction l generalizing pos st with
  | nil =>
    intro m hm
    cases st with
    | none => simp [runsAux] at hm
    | some p =>
      obtain ⟨s0, k⟩ := p
      simp [runsAux] at hm
      subst hm
      exact hst s0 k rfl
  | cons c r ih =>
    intro m hm
    cases st with
    | none =>
      unfold runsAux at hm
      split at hm
      · exact ih (pos + 1) none (by intro _ _ h; cases h) m hm
      · exact ih (pos + 1) (some (pos, cl c)) (by intro s0 k h; cases h; omega) m hm
    | some p =>
      obtain ⟨s0, k⟩ := p
      have hs0 := hst s0 k rfl
      unfold runsAux at hm
      split at hm
      · exact ih (pos + 1) (some (s0, k)) (by intro s1 k1 h; cases h; omega) m hm
      · simp only [List.mem_cons] at hm
        rcases hm with hm | hm
        · subst hm; exact hs0
        · split at hm
          · exact ih (pos + 1) none (by intro _ _ h; cases h) m hm
          · exact ih (pos + 1) (some (pos, cl c)) (by intro s1 k1 h; cases h; omega) m hm

theorem runs_strict (cl : Char → Nat) (l : Text) (m : Nat × Nat) (h : m ∈ runs cl l) : m.1 < m.2 :=
  runsAux_strict cl 0 none l (by intro _ _ h; cases h) m h

theorem findPreviousWordEnding_bound (sp : Char → Bool) (d : Doc) (h : Inv d) (count : Nat) (big : Bool)
    (p : Int) (hp : findPreviousWordEnding sp d count big = some p) :
    p - 1 ≤ 0 ∧ 0 ≤ (d.cur : Int) + (p - 1) := by
  have hi : d.cur ≤ d.text.length := h
  unfold findPreviousWordEnding at hp
  simp only [] at hp
  obtain ⟨m, hn, hm⟩ := Option.map_eq_some_iff.1 hp
  have hmem := nth_mem _ _ _ hn
  have b1 := runs_bound _ _ m hmem
  have b2 := runs_strict _ _ m hmem
  have hlen : (d.after.take 1 ++ d.before.reverse).length ≤ d.cur + 1 := by
    simp [Doc.after, Doc.before]; omega
  omega

theorem enclosingRight_bound (d : Doc) (h : Inv d) (l r : Char) (e : Int)
    (he : enclosingRight d l r = some e) : 0 ≤ e ∧ (d.cur : Int) + e + 1 ≤ d.text.length := by
  have hi : d.cur ≤ d.text.length := h
  unfold enclosingRight at he
  split at he
  · rename_i hc
    unfold currentChar at hc
    have := (List.getElem?_eq_some_iff.1 hc).1
    simp at he; omega
  · obtain ⟨k, hk, hk'⟩ := Option.map_eq_some_iff.1 he
    have := walk_bound _ _ _ _ _ _ hk
    simp at this
    omega

theorem enclosingLeft_bound (d : Doc) (l r : Char) (s : Int)
    (hs : enclosingLeft d l r = some s) : s ≤ 0 ∧ 0 ≤ (d.cur : Int) + s := by
  unfold enclosingLeft at hs
  split at hs
  · simp at hs; omega
  · obtain ⟨k, hk, hk'⟩ := Option.map_eq_some_iff.1 hs
    have := walk_bound _ _ _ _ _ _ hk
    simp [Doc.before] at this
    omega

theorem matchingBracketGo_bound (d : Doc) (h : Inv d) (ps : List (Char × Char)) :
    0 ≤ (d.cur : Int) + matchingBracketGo d ps ∧
      ((d.cur : Int) + matchingBracketGo d ps + 1 ≤ d.text.length ∨ matchingBracketGo d ps = 0) := by
  have hi : d.cur ≤ d.text.length := h
  induction ps with
  | nil => simp [matchingBracketGo]
  | cons p ps ih =>
    obtain ⟨a, b⟩ := p
    unfold matchingBracketGo
    split
    · rename_i hc
      have hlt : d.cur < d.text.length := by
        unfold currentChar at hc; exact (List.getElem?_eq_some_iff.1 hc).1
      cases he : enclosingRight d a b with
      | none => simp [matchingBracketGo.orZero']
      | some e =>
        have := enclosingRight_bound d h a b e he
        simp only [matchingBracketGo.orZero']
        omega
    · split
      · rename_i hc
        have hlt : d.cur < d.text.length := by
          unfold currentChar at hc; exact (List.getElem?_eq_some_iff.1 hc).1
        cases he : enclosingLeft d a b with
        | none => simp [matchingBracketGo.orZero']
        | some e =>
          have := enclosingLeft_bound d a b e he
          simp only [matchingBracketGo.orZero']
          omega
      · exact ih

theorem startOfParagraph_bound (isSpace : Char → Bool) (d : Doc) (h : Inv d) (count : Nat) (before : Bool) :
    startOfParagraph isSpace d count before ≤ 0 ∧ 0 ≤ (d.cur : Int) + startOfParagraph isSpace d count before := by
  have hi : d.cur ≤ d.text.length := h
  unfold startOfParagraph
  split
  · rename_i i _
    have := rowColToIndex_le d.text (d.row - (i + 1)) d.col
    split <;> omega
  · omega

theorem endOfParagraph_bound (isSpace : Char → Bool) (d : Doc) (h : Inv d) (count : Nat) (after : Bool) :
    0 ≤ endOfParagraph isSpace d count after ∧
      (d.cur : Int) + endOfParagraph isSpace d count after ≤ d.text.length := by
  have hi : d.cur ≤ d.text.length := h
  unfold endOfParagraph
  split
  · rename_i i _
    have := rowColToIndex_le d.text (d.row + (i + 1)) d.col
    split <;> omega
  · simp [Doc.after]; omega

theorem rstrip_length_le (isSpace : Char → Bool) (l : Text) : (rstrip isSpace l).length ≤ l.length := by
  unfold rstrip
  have := length_dropWhile_le' isSpace l.reverse
  simpa using this

theorem textObject_inRange_new (isSpace sp : Char → Bool) (d : Doc) (h : Inv d) (count : Nat) :
    (∀ big, InRange d (textObject isSpace sp d count (.ge big))) ∧
    InRange d (textObject isSpace sp d count .gUnder) ∧
    InRange d (textObject isSpace sp d count .bar) ∧
    (∀ ap, InRange d (textObject isSpace sp d count (.percent ap))) ∧
    InRange d (textObject isSpace sp d count .braceUp) ∧
    InRange d (textObject isSpace sp d count .braceDown) ∧
    InRange d (textObject isSpace sp d count .ap) ∧
    (∀ w r, InRange d (textObject isSpace sp d count (.screen w r))) ∧
    (∀ w, InRange d (textObject isSpace sp d count (.gm w))) := by
  have hi : d.cur ≤ d.text.length := h
  have hc := col_eq d h
  have hlb := lineBefore_length d
  have hla := lineAfter_length d
  have hcl : (currentLine d).length = (lineBefore d).length + (lineAfter d).length := by simp [currentLine]
  refine ⟨?_, ?_, ?_, ?_, ?_, ?_, ?_, ?_, ?_⟩
  · intro big
    simp only [textObject]
    cases hf : findPreviousWordEnding sp d count big with
    | none => exact inRange_zero d h _
    | some p =>
      have := findPreviousWordEnding_bound sp d h count big p hf
      apply inRange_of_start d h <;> omega
  · simp only [textObject]
    split
    · exact inRange_zero d h _
    · have := rstrip_length_le isSpace (currentLine d)
      apply inRange_of_start d h <;> omega
  · simp only [textObject]
    apply inRange_of_start d h <;> omega
  · intro ap
    simp only [textObject]
    split
    · split
      · have := rowColToIndex_le d.text ((count * lineCount d.text - 1) / 100) 0
        apply inRange_of_start d h <;> omega
      · exact inRange_zero d h _
    · split
      · rename_i hne
        have := matchingBracketGo_bound d h bracketPairs
        unfold matchingBracket at hne ⊢
        apply inRange_of_start d h <;> omega
      · exact inRange_zero d h _
  · simp only [textObject]
    have := startOfParagraph_bound isSpace d h count true
    apply inRange_of_start d h <;> omega
  · simp only [textObject]
    have := endOfParagraph_bound isSpace d h count true
    apply inRange_of_start d h <;> omega
  · simp only [textObject]
    have a := startOfParagraph_bound isSpace d h 1 false
    have b := endOfParagraph_bound isSpace d h count false
    unfold InRange; simp only []; omega
  · intro w r
    simp only [textObject]
    cases r with
    | some r =>
      have := rowColToIndex_le d.text r 0
      simp only []
      apply inRange_of_start d h <;> omega
    | none =>
      simp only []
      cases w <;> (simp only []; apply inRange_of_start d h <;> simp [Doc.after, Doc.before] <;> omega)
  · intro w
    simp only [textObject]
    cases w with
    | some w =>
      simp only []
      split
      · exact inRange_zero d h _
      · apply inRange_of_start d h <;> omega
    | none => exact inRange_zero d h _

/-- every modelled motion / text object yields offsets inside the text -/
theorem textObject_inRange (isSpace sp : Char → Bool) (d : Doc) (h : Inv d) (count : Nat) (m : Motion)
    (hm : ∀ o, m ≠ .raw o) : InRange d (textObject isSpace sp d count m) := by
  cases m with
  | h => exact (textObject_inRange_simple isSpace sp d h count).1
  | l => exact (textObject_inRange_simple isSpace sp d h count).2.1
  | zero => exact (textObject_inRange_simple isSpace sp d h count).2.2.1
  | dollar => exact (textObject_inRange_simple isSpace sp d h count).2.2.2.1
  | caret => exact (textObject_inRange_simple isSpace sp d h count).2.2.2.2
  | w big => exact (textObject_inRange_words isSpace sp d h count big).1
  | b big => exact (textObject_inRange_words isSpace sp d h count big).2.1
  | e big => exact (textObject_inRange_words isSpace sp d h count big).2.2
  | f c => exact (textObject_inRange_find isSpace sp d h count c).1
  | F c => exact (textObject_inRange_find isSpace sp d h count c).2.1
  | t c => exact (textObject_inRange_find isSpace sp d h count c).2.2.1
  | T c => exact (textObject_inRange_find isSpace sp d h count c).2.2.2
  | iw big => exact (textObject_inRange_iw isSpace sp d h count big).1
  | aw big => exact (textObject_inRange_iw isSpace sp d h count big).2
  | j => exact (textObject_inRange_lines isSpace sp d h count).1
  | k => exact (textObject_inRange_lines isSpace sp d h count).2.1
  | G => exact (textObject_inRange_lines isSpace sp d h count).2.2.1
  | gg => exact (textObject_inRange_lines isSpace sp d h count).2.2.2
  | bracket l r inner => exact textObject_inRange_bracket isSpace sp d h count l r inner
  | quote q inner => exact textObject_inRange_quote isSpace sp d h count q inner
  | repeatFind last reverse => exact textObject_inRange_repeat isSpace sp d h count last reverse
  | ge big => exact (textObject_inRange_new isSpace sp d h count).1 big
  | gUnder => exact (textObject_inRange_new isSpace sp d h count).2.1
  | bar => exact (textObject_inRange_new isSpace sp d h count).2.2.1
  | percent ap => exact (textObject_inRange_new isSpace sp d h count).2.2.2.1 ap
  | braceUp => exact (textObject_inRange_new isSpace sp d h count).2.2.2.2.1
  | braceDown => exact (textObject_inRange_new isSpace sp d h count).2.2.2.2.2.1
  | ap => exact (textObject_inRange_new isSpace sp d h count).2.2.2.2.2.2.1
  | screen w r => exact (textObject_inRange_new isSpace sp d h count).2.2.2.2.2.2.2.1 w r
  | gm w => exact (textObject_inRange_new isSpace sp d h count).2.2.2.2.2.2.2.2 w
  | raw o => exact absurd rfl (hm o)

/-! ### no operator ever leaves the model's domain; the cursor stays inside the text -/

theorem cut_ok (d : Doc) (o : TextObject) (hi : Inv d) (h : InRange d o) :
    ∃ d' c, cut d o = some (d', c) ∧ d'.cur ≤ d'.text.length := by
  by_cases ht : o.type = .linewise
  · obtain ⟨a, b, hab, hbl, _, _, _, _, _, _, hc⟩ := cut_linewise d o h ht
    exact ⟨_, _, hc, by simp; omega⟩
  · by_cases hne : (operatorRange d o).1 < (operatorRange d o).2
    · obtain ⟨a, b, ha, hb, hab, hc⟩ := cut_charwise d o h ht hne
      obtain ⟨b1, b2, b3⟩ := operatorRange_bounds d o h
      refine ⟨_, _, hc, ?_⟩
      have : a ≤ d.text.length := by split at b3 <;> omega
      simp; omega
    · refine ⟨d, { text := [], lines := false }, ?_, ?_⟩
      · unfold cut
        have : (o.type == TOType.linewise) = false := by cases h' : o.type <;> simp_all
        have hge : (operatorRange d o).1 ≥ (operatorRange d o).2 := by omega
        simp [this, hge]
      · exact hi

theorem clampCur_le (v : Int) (n : Nat) : clampCur v n ≤ n := by
  unfold clampCur; exact Nat.min_le_right _ _

/-- with offsets inside the text no operator raises, and the new cursor is inside the new text -/
theorem applyOp_ok (env : Env) (s : St) (op : Op) (o : TextObject) (count : Nat)
    (hi : s.cur ≤ s.text.length) (h : InRange s.doc o) :
    ∃ s', applyOp env s op o count = some s' ∧ s'.cur ≤ s'.text.length := by
  obtain ⟨d', c, hc, hd'⟩ := cut_ok s.doc o hi h
  obtain ⟨b1, b2, b3⟩ := operatorRange_bounds s.doc o h
  have hd1 : s.doc.cur = s.cur := rfl
  have hd2 : s.doc.text = s.text := rfl
  cases op with
  | delete reg =>
    cases hb : badReg reg
    · cases hres : applyOp env s (.delete reg) o count with
      | none => simp [applyOp, opDelete_good _ _ _ _ hb, hc] at hres
      | some s' =>
        refine ⟨s', rfl, ?_⟩
        simp only [applyOp, opDelete_good _ _ _ _ hb, hc] at hres
        simp at hres; subst hres
        simp only []
        rw [(store_text _ _ _).1, (store_text _ _ _).2.1]; exact hd'
    · exact ⟨s, by simp [applyOp, opDelete_bad _ _ _ _ hb], hi⟩
  | change reg =>
    cases hb : badReg reg
    · cases hres : applyOp env s (.change reg) o count with
      | none => simp [applyOp, opDelete_good _ _ _ _ hb, hc] at hres
      | some s' =>
        refine ⟨s', rfl, ?_⟩
        simp only [applyOp, opDelete_good _ _ _ _ hb, hc] at hres
        simp at hres; subst hres
        simp only []
        rw [(store_text _ _ _).1, (store_text _ _ _).2.1]; exact hd'
    · exact ⟨s, by simp [applyOp, opDelete_bad _ _ _ _ hb], hi⟩
  | yank reg =>
    simp only [applyOp, opYank, hc]
    cases reg with
    | none => exact ⟨_, rfl, by rw [(store_text _ _ _).1, (store_text _ _ _).2.1]; exact hi⟩
    | some r =>
      simp only []
      split
      · exact ⟨_, rfl, by rw [(store_text _ _ _).1, (store_text _ _ _).2.1]; exact hi⟩
      · exact ⟨_, rfl, hi⟩
  | transform k =>
    simp only [applyOp, opTransform]
    split
    · have : ¬ ((operatorRange s.doc o).1 + (s.cur : Int) < 0) := by rw [hd1] at b1; omega
      rw [if_neg this]
      exact ⟨_, rfl, clampCur_le _ _⟩
    · exact ⟨_, rfl, hi⟩
  | indent =>
    simp only [applyOp, opIndent]
    split
    · exact ⟨_, rfl, hi⟩
    · have hn : ¬ ((getLineNumbers s.doc o).1 < 0 ∨ (getLineNumbers s.doc o).2 < 0) := by
        unfold getLineNumbers rowI
        simp only []
        have x1 : ¬ ((operatorRange s.doc o).1 + (s.doc.cur : Int) < 0) := by omega
        have x2 : ¬ ((operatorRange s.doc o).2 + (s.doc.cur : Int) < 0) := by omega
        rw [if_neg x1, if_neg x2]
        omega
      rw [if_neg hn]
      exact ⟨_, rfl, clampCur_le _ _⟩
  | unindent =>
    simp only [applyOp, opIndent]
    split
    · exact ⟨_, rfl, hi⟩
    · have hn : ¬ ((getLineNumbers s.doc o).1 < 0 ∨ (getLineNumbers s.doc o).2 < 0) := by
        unfold getLineNumbers rowI
        simp only []
        have x1 : ¬ ((operatorRange s.doc o).1 + (s.doc.cur : Int) < 0) := by omega
        have x2 : ¬ ((operatorRange s.doc o).2 + (s.doc.cur : Int) < 0) := by omega
        rw [if_neg x1, if_neg x2]
        omega
      rw [if_neg hn]
      exact ⟨_, rfl, clampCur_le _ _⟩

/-- `[count] operator [count] motion` never fails for a modelled motion, and keeps the cursor
    inside the text -/
theorem run_ok (env : Env) (s : St) (opArg motArg : Option Nat) (op : Op) (m : Motion)
    (hi : s.cur ≤ s.text.length) (hm : ∀ o, m ≠ .raw o) :
    ∃ s', run env s opArg op motArg m = some s' ∧ s'.cur ≤ s'.text.length := by
  unfold run
  exact applyOp_ok env s op _ _ hi (textObject_inRange env.isSpace env.reSpace s.doc hi _ m hm)


/-! ### failing motions: the operator changes nothing -/

/-- the text object every failing motion returns: `TextObject(0)` -/
def failed : TextObject := { start := 0, stop := 0, type := .exclusive }

theorem operatorRange_failed (d : Doc) : operatorRange d failed = (0, 0) := by
  simp [operatorRange, failed, TextObject.sorted]

/-- a motion that fails (returns `TextObject(0)`): whatever the operator, the text, the cursor,
    the clipboard and the named registers stay as they are -/
theorem failing_motion_noop (env : Env) (s s' : St) (opArg motArg : Option Nat) (op : Op) (m : Motion)
    (hf : textObject env.isSpace env.reSpace s.doc (combineArgs opArg motArg) m = failed)
    (h : run env s opArg op motArg m = some s') :
    s'.text = s.text ∧ s'.cur = s.cur ∧ s'.clip = s.clip ∧ s'.regs = s.regs := by
  unfold run at h
  simp only [] at h
  rw [hf] at h
  exact empty_span_noop env s s' op failed _ (by simp [failed]) (by rw [operatorRange_failed]; simp) h

theorem occGo_nil_of_not_mem (c : Char) (pos : Nat) (l : Text) (h : c ∉ l) : occGo c pos l = [] := by
  induction l generalizing pos with
  | nil => rfl
  | cons x xs ih =>
    simp at h
    unfold occGo
    rw [if_neg (fun e => h.1 e.symm)]
    exact ih _ h.2

theorem nth_nil {α : Type} (count : Nat) : nth ([] : List α) count = none := by
  unfold nth; split <;> simp

/-- `h` / `0` in the first column, `l` / `$` at the end of the line: already at the line boundary -/
theorem line_boundary_fails (isSpace sp : Char → Bool) (d : Doc) (count : Nat) :
    (d.col = 0 → textObject isSpace sp d count .h = failed) ∧
    (lineBefore d = [] → textObject isSpace sp d count .zero = failed) ∧
    (lineAfter d = [] → textObject isSpace sp d count .l = failed) ∧
    (lineAfter d = [] → textObject isSpace sp d count .dollar = failed) := by
  refine ⟨?_, ?_, ?_, ?_⟩ <;> intro h <;> simp [textObject, failed, h]

/-- `f` / `t` (`F` / `T`) when the character does not occur behind (before) the cursor in the line -/
theorem no_such_char_fails (isSpace sp : Char → Bool) (d : Doc) (count : Nat) (c : Char) :
    (c ∉ (lineAfter d).drop 1 → textObject isSpace sp d count (.f c) = failed ∧
                                   textObject isSpace sp d count (.t c) = failed) ∧
    (c ∉ lineBefore d → textObject isSpace sp d count (.F c) = failed ∧
                          textObject isSpace sp d count (.T c) = failed) := by
  constructor
  · intro h
    have : findFwd d c true count = none := by
      unfold findFwd
      simp only [if_true]
      split
      · rfl
      · rw [occ, occGo_nil_of_not_mem c 0 _ h, nth_nil]; rfl
    simp [textObject, this, failed]
  · intro h
    have : findBwd d c true count = none := by
      unfold findBwd
      have h' : c ∉ (lineBefore d).reverse := by simpa using h
      simp [occ, occGo_nil_of_not_mem c 0 _ h', nth_nil]
    simp [textObject, this, failed, orZero]

/-- `;` / `,` without a previous character find, or when the remembered character does not
    occur in the searched direction (`,` searches opposite to the remembered direction) -/
theorem repeat_find_fails (isSpace sp : Char → Bool) (d : Doc) (count : Nat) (c : Char) (bw reverse : Bool) :
    textObject isSpace sp d count (.repeatFind none reverse) = failed ∧
    ((if reverse then !bw else bw) = true → c ∉ lineBefore d →
      textObject isSpace sp d count (.repeatFind (some (c, bw)) reverse) = failed) ∧
    ((if reverse then !bw else bw) = false → c ∉ (lineAfter d).drop 1 →
      textObject isSpace sp d count (.repeatFind (some (c, bw)) reverse) = failed) := by
  refine ⟨by simp [textObject, failed], ?_, ?_⟩
  · intro hdir h
    have : findBwd d c true count = none := by
      unfold findBwd
      have h' : c ∉ (lineBefore d).reverse := by simpa using h
      simp [occ, occGo_nil_of_not_mem c 0 _ h', nth_nil]
    simp [textObject, hdir, this, failed]
  · intro hdir h
    have : findFwd d c true count = none := by
      unfold findFwd
      simp only [if_true]
      split
      · rfl
      · rw [occ, occGo_nil_of_not_mem c 0 _ h, nth_nil]; rfl
    have hd : ¬ ((if reverse then !bw else bw) = true) := by simp [hdir]
    simp [textObject, hdir, this, failed]

/-- direction and inclusiveness of `;` / `,` agree: a repeat that searches backwards is an
    EXCLUSIVE motion to the left (the character under the cursor is not part of the span), a
    repeat that searches forwards is an INCLUSIVE motion to the right (the found character is) -/
theorem repeat_find_type (isSpace sp : Char → Bool) (d : Doc) (count : Nat) (c : Char) (bw reverse : Bool) :
    ((if reverse then !bw else bw) = true →
      (textObject isSpace sp d count (.repeatFind (some (c, bw)) reverse)).type = .exclusive ∧
      (textObject isSpace sp d count (.repeatFind (some (c, bw)) reverse)).start ≤ 0) ∧
    ((if reverse then !bw else bw) = false →
      (textObject isSpace sp d count (.repeatFind (some (c, bw)) reverse)).start ≥ 0 ∧
      ((textObject isSpace sp d count (.repeatFind (some (c, bw)) reverse)).start > 0 →
        (textObject isSpace sp d count (.repeatFind (some (c, bw)) reverse)).type = .inclusive)) := by
  constructor
  · intro hdir
    simp only [textObject, hdir, if_true]
    cases hf : findBwd d c true count with
    | none => simp
    | some m =>
      have := findBwd_bound d c true count m hf
      simp only []
      split <;> simp <;> omega
  · intro hdir
    have hd : ¬ ((if reverse then !bw else bw) = true) := by simp [hdir]
    simp only [textObject, hd, if_false]
    cases hf : findFwd d c true count with
    | none => simp
    | some m =>
      have h1 : (1 : Int) ≤ m := by
        unfold findFwd at hf
        simp only [if_true] at hf
        split at hf
        · simp at hf
        · obtain ⟨k, _, hk⟩ := Option.map_eq_some_iff.1 hf
          omega
      have hm : ¬ (m = 0) := by omega
      simp [hm]; omega

/-- `j` on the last line, `k` on the first line: already at the buffer boundary -/
theorem buffer_boundary_fails (isSpace sp : Char → Bool) (d : Doc) (count : Nat) :
    (d.row = lineCount d.text - 1 → textObject isSpace sp d count .j = failed) ∧
    (d.row = 0 → textObject isSpace sp d count .k = failed) := by
  constructor <;> intro h <;> simp [textObject, failed, h]

theorem runsAux_nil (cl : Char → Nat) (pos : Nat) : runsAux cl pos none [] = [] := rfl

/-- `b` / `B` at the start of the text, `w` / `W` at its end -/
theorem word_boundary_fails (isSpace sp : Char → Bool) (d : Doc) (count : Nat) (big : Bool) :
    (d.cur = 0 → textObject isSpace sp d count (.b big) = failed) ∧
    (d.cur = d.text.length → textObject isSpace sp d count (.w big) = failed) := by
  constructor
  · intro h
    have : findStartOfPreviousWord sp d count big = none := by
      simp [findStartOfPreviousWord, Doc.before, h, runs, runsAux_nil, nth_nil]
    simp [textObject, this, failed, orZero]
  · intro h
    have : findNextWordBeginning sp d count big = none := by
      simp [findNextWordBeginning, Doc.after, h, runs, runsAux_nil, nth_nil]
    simp [textObject, this, failed, h]

/-- `iw` / `aw` (and the WORD variants) on an empty line -/
theorem empty_line_fails (isSpace sp : Char → Bool) (d : Doc) (count : Nat) (big : Bool)
    (h1 : lineBefore d = []) (h2 : lineAfter d = []) :
    textObject isSpace sp d count (.iw big) = failed ∧ textObject isSpace sp d count (.aw big) = failed := by
  have : ∀ tr, wordBoundaries sp d big tr = (0, 0) := by
    intro tr
    simp [wordBoundaries, h1, h2, currentWordEnd]
  simp [textObject, this, failed]

theorem walk_some_mem (inc dec : Char) (stack off : Nat) (l : Text) (k : Nat)
    (h : walk inc dec stack off l = some k) : dec ∈ l := by
  induction l generalizing stack off with
  | nil => simp [walk] at h
  | cons c r ih =>
    unfold walk at h
    split at h
    · exact List.mem_cons_of_mem _ (ih _ _ h)
    · split at h
      · rename_i hc; rw [hc]; exact List.mem_cons_self
      · exact List.mem_cons_of_mem _ (ih _ _ h)

/-- `i(` / `a(` … when the text has no opening (or no closing) bracket of that kind -/
theorem no_bracket_fails (isSpace sp : Char → Bool) (d : Doc) (count : Nat) (l r : Char) (inner : Bool)
    (h : l ∉ d.text ∨ r ∉ d.text) :
    textObject isSpace sp d count (.bracket l r inner) = failed := by
  have hcur : ∀ c, currentChar d = some c → c ∈ d.text := by
    intro c hc
    unfold currentChar at hc
    exact List.mem_of_getElem? hc
  rcases h with h | h
  · have : enclosingLeft d l r = none := by
      unfold enclosingLeft
      split
      · rename_i hc; exact absurd (hcur _ hc) h
      · cases hw : walk r l 1 1 d.before.reverse with
        | none => rfl
        | some k =>
          have hm := walk_some_mem _ _ _ _ _ _ hw
          have : l ∈ d.text := List.mem_of_mem_take (by simpa [Doc.before] using hm)
          exact absurd this h
    simp [textObject, this, failed]
  · have : enclosingRight d l r = none := by
      unfold enclosingRight
      split
      · rename_i hc; exact absurd (hcur _ hc) h
      · cases hw : walk l r 1 1 (d.text.drop (d.cur + 1)) with
        | none => rfl
        | some k =>
          have hm := walk_some_mem _ _ _ _ _ _ hw
          exact absurd (List.mem_of_mem_drop hm) h
    cases hl : enclosingLeft d l r <;> simp [textObject, this, hl, failed]

/-! ### indent / unindent frame -/

theorem splitOn_no_nl (l : Text) (h : '\n' ∉ l) : splitOn '\n' l = [l] := by
  induction l with
  | nil => rfl
  | cons x xs ih =>
    simp at h
    unfold splitOn
    rw [if_neg (fun e => h.1 e.symm), ih h.2]

theorem splitOn_append_nl (l rest : Text) (h : '\n' ∉ l) :
    splitOn '\n' (l ++ '\n' :: rest) = l :: splitOn '\n' rest := by
  induction l with
  | nil => simp [splitOn]
  | cons x xs ih =>
    simp at h
    rw [List.cons_append, splitOn, if_neg (fun e => h.1 e.symm), ih h.2]

theorem splitOn_join (ls : List Text) (hne : ls ≠ []) (h : ∀ l ∈ ls, '\n' ∉ l) :
    splitOn '\n' (join ['\n'] ls) = ls := by
  induction ls with
  | nil => exact absurd rfl hne
  | cons l rest ih =>
    cases rest with
    | nil => simp [join]; exact splitOn_no_nl l (h l (by simp))
    | cons l2 r2 =>
      have : join ['\n'] (l :: l2 :: r2) = l ++ '\n' :: join ['\n'] (l2 :: r2) := by simp [join]
      rw [this, splitOn_append_nl _ _ (h l (by simp)), ih (by simp) (fun x hx => h x (by simp [hx]))]

theorem splitOn_lines_no_nl (t : Text) : ∀ l ∈ splitOn '\n' t, '\n' ∉ l := by
  induction t with
  | nil => simp [splitOn]
  | cons x xs ih =>
    unfold splitOn
    split
    · intro l hl
      simp at hl
      rcases hl with hl | hl
      · subst hl; simp
      · exact ih l hl
    · rename_i hx
      split
      · intro l hl; simp at hl; subst hl; simp; exact fun e => hx e.symm
      · rename_i l0 ls0 heq
        intro l hl
        simp at hl
        rcases hl with hl | hl
        · subst hl
          have := ih l0 (by rw [heq]; simp)
          simp; exact ⟨fun e => hx e.symm, this⟩
        · exact ih l (by rw [heq]; simp [hl])

theorem splitOn_ne_nil (c : Char) (t : Text) : splitOn c t ≠ [] := by
  cases t with
  | nil => simp [splitOn]
  | cons x xs =>
    unfold splitOn
    split
    · simp
    · split <;> simp

/-- `transform_lines(range(a, b), f)` with a callback that keeps lines newline-free: the line
    list is the old one with `f` applied to rows `a ≤ i < b` -/
theorem lines_transformLines (f : Text → Text) (t : Text) (a b : Nat)
    (hf : ∀ l, '\n' ∉ l → '\n' ∉ f l) :
    lines (transformLines f t a b) = (lines t).mapIdx fun i l => if a ≤ i ∧ i < b then f l else l := by
  unfold transformLines lines
  apply splitOn_join
  · intro h
    have := congrArg List.length h
    simp at this
    exact splitOn_ne_nil _ _ this
  · intro l hl
    obtain ⟨i, hi, hget⟩ := List.getElem_of_mem hl
    simp at hi
    rw [List.getElem_mapIdx] at hget
    have hmem : (splitOn '\n' t)[i] ∈ splitOn '\n' t := List.getElem_mem _
    have hno := splitOn_lines_no_nl t _ hmem
    rw [← hget]
    split
    · exact hf _ hno
    · exact hno

theorem transformLines_frame (f : Text → Text) (t : Text) (a b : Nat)
    (hf : ∀ l, '\n' ∉ l → '\n' ∉ f l) :
    (lines (transformLines f t a b)).length = (lines t).length ∧
    ∀ i, (i < a ∨ b ≤ i) → (lines (transformLines f t a b))[i]? = (lines t)[i]? := by
  rw [lines_transformLines f t a b hf]
  refine ⟨by simp, ?_⟩
  intro i hi
  rw [List.getElem?_mapIdx]
  cases (lines t)[i]? with
  | none => rfl
  | some l =>
    have : ¬ (a ≤ i ∧ i < b) := by omega
    simp [this]

theorem repeat_no_nl (n : Nat) : '\n' ∉ repeatText indentUnit n := by
  induction n with
  | zero => simp [repeatText]
  | succ k ih => simp [repeatText, indentUnit]; exact ih

/-- `>` / `<`: only the lines `from_row .. to_row` of `get_line_numbers` can change; the number
    of lines, the clipboard and the registers stay -/
theorem indent_frame (isSpace : Char → Bool) (s s' : St) (o : TextObject) (count : Nat) (un : Bool)
    (h : opIndent isSpace s o count un = some s') :
    s'.clip = s.clip ∧ s'.regs = s.regs ∧ s'.insert = s.insert ∧
    (lines s'.text).length = (lines s.text).length ∧
    ∀ i : Nat, ((i : Int) < (getLineNumbers s.doc o).1 ∨ (getLineNumbers s.doc o).2 < i) →
      (lines s'.text)[i]? = (lines s.text)[i]? := by
  by_cases hsn : spansNothing s.doc o = true
  · simp only [opIndent, hsn, if_true] at h
    simp at h; subst h; exact ⟨rfl, rfl, rfl, rfl, fun _ _ => rfl⟩
  · by_cases hneg : (getLineNumbers s.doc o).1 < 0 ∨ (getLineNumbers s.doc o).2 < 0
    · simp only [opIndent, hsn, if_false, hneg, if_true] at h
      simp at h
    · cases un with
      | true =>
        simp only [opIndent, hsn, if_false, hneg, if_true] at h
        simp at h; subst h
        have hf : ∀ l : Text, '\n' ∉ l →
            '\n' ∉ (if isPrefixOf' (repeatText indentUnit count) l then l.drop (repeatText indentUnit count).length
                     else l.dropWhile isSpace) := by
          intro l hl
          split
          · exact fun hm => hl (List.mem_of_mem_drop hm)
          · exact fun hm => hl ((List.dropWhile_sublist isSpace).subset hm)
        obtain ⟨e1, e2⟩ := transformLines_frame _ s.text (getLineNumbers s.doc o).1.toNat
          ((getLineNumbers s.doc o).2.toNat + 1) hf
        exact ⟨rfl, rfl, rfl, e1, fun i hi => e2 i (by omega)⟩
      | false =>
        simp only [opIndent, hsn, if_false, hneg] at h
        simp at h; subst h
        have hf : ∀ l : Text, '\n' ∉ l → '\n' ∉ (repeatText indentUnit count ++ l) := by
          intro l hl hm
          simp at hm
          rcases hm with hm | hm
          · exact repeat_no_nl count hm
          · exact hl hm
        obtain ⟨e1, e2⟩ := transformLines_frame _ s.text (getLineNumbers s.doc o).1.toNat
          ((getLineNumbers s.doc o).2.toNat + 1) hf
        exact ⟨rfl, rfl, rfl, e1, fun i hi => e2 i (by omega)⟩

/-! ### further consequences -/

/-- a yank stores exactly what the delete with the same text object stores -/
theorem yank_stores_what_delete_stores (s sy sd : St) (o : TextObject) (change : Bool)
    (hy : opYank s o none = some sy) (hd : opDelete s o none change = some sd) :
    sy.clip = sd.clip ∧ sy.regs = sd.regs := by
  unfold opYank at hy
  rw [opDelete_good _ _ _ _ rfl] at hd
  cases hc : cut s.doc o with
  | none => simp [hc] at hy
  | some p =>
    obtain ⟨d', c⟩ := p
    simp [hc] at hy hd
    subst hy; subst hd
    unfold store
    split
    · simp
    · simp

/-- a motion (text object with `end = 0`) spans towards the cursor: the range starts at or
    before the cursor and ends at or behind it — except that an exclusive motion ending in
    column 0 stops one character earlier (before the newline) -/
theorem motion_span_adjacent (d : Doc) (o : TextObject) (hi : Inv d) (h : InRange d o) (h0 : o.stop = 0) :
    (operatorRange d o).1 ≤ 0 ∧ -1 ≤ (operatorRange d o).2 ∧
    (o.type ≠ .exclusive → 0 ≤ (operatorRange d o).2) := by
  unfold Inv at hi
  obtain ⟨h1, h2, h3, h4⟩ := h
  have hs : o.sorted.1 ≤ 0 ∧ 0 ≤ o.sorted.2 ∧ (o.sorted.1 = o.start ∨ o.sorted.1 = 0) ∧
      (o.sorted.2 = o.start ∨ o.sorted.2 = 0) := by
    unfold TextObject.sorted
    rw [h0]
    split <;> simp <;> omega
  unfold operatorRange
  cases ht : o.type
  · simp only []
    split <;> simp <;> omega
  · simp; omega
  · simp only [lineStartI, lineEndI]
    have ha : ¬ (o.sorted.1 + (d.cur : Int) < 0) := by omega
    have hb : ¬ (o.sorted.2 + (d.cur : Int) < 0) := by omega
    rw [if_neg ha, if_neg hb]
    have l1 := lineStart_le d.text (o.sorted.1 + (d.cur : Int)).toNat
    have l2 := lineEnd_ge d.text (o.sorted.2 + (d.cur : Int)).toNat (by omega)
    simp; omega

/-- the multiplied count handed to the text object and the operator is at least 1
    (so the `assert count >= 1` of `get_cursor_up/down_position` cannot fire) -/
theorem combineArgs_pos (a b : Option Nat) : 1 ≤ combineArgs a b := by
  have hn : ∀ k, 1 ≤ k → 1 ≤ normArg k := by
    intro k hk; unfold normArg; split <;> omega
  have h1 : ∀ x : Option Nat, 1 ≤ (match x with
      | some n => (if normArg n = 0 then 1 else normArg n) | none => 1) := by
    intro x; cases x with
    | none => simp
    | some n => simp only []; split <;> omega
  unfold combineArgs
  exact hn _ (Nat.mul_pos (h1 a) (h1 b))

/-- the navigation-mode cursor fix of the key processor never touches the text, the clipboard
    or the registers: all statements above about text / registers carry over to the whole key
    sequence -/
theorem runKeys_frame (env : Env) (s s' : St) (opArg motArg : Option Nat) (op : Op) (m : Motion)
    (h : runKeys env s opArg op motArg m = some s') :
    ∃ s0 s1, s0.text = s.text ∧ s0.clip = s.clip ∧ s0.regs = s.regs ∧
      run env s0 opArg op motArg m = some s1 ∧
      s'.text = s1.text ∧ s'.clip = s1.clip ∧ s'.regs = s1.regs ∧ s'.insert = s1.insert := by
  unfold runKeys at h
  obtain ⟨s1, h1, h2⟩ := Option.map_eq_some_iff.1 h
  refine ⟨_, s1, ?_, ?_, ?_, h1, ?_, ?_, ?_, ?_⟩
  · split <;> (try rfl) <;> (unfold St.fix; split <;> rfl)
  · split <;> (try rfl) <;> (unfold St.fix; split <;> rfl)
  · split <;> (try rfl) <;> (unfold St.fix; split <;> rfl)
  all_goals (subst h2; unfold St.fix; split <;> rfl)

/-- yank through the whole key sequence (`y<motion>`, `"xy<motion>`) never edits the text -/
theorem runKeys_yank_never_edits (env : Env) (s s' : St) (opArg motArg : Option Nat) (reg : Option Char)
    (m : Motion) (h : runKeys env s opArg (.yank reg) motArg m = some s') : s'.text = s.text := by
  obtain ⟨s0, s1, e0, _, _, hr, e1, _, _, _⟩ := runKeys_frame env s s' opArg motArg (.yank reg) m h
  unfold run applyOp at hr
  simp only [] at hr
  rw [e1, (yank_never_edits s0 s1 _ reg hr).1, e0]

/-! ### the spans of the simple motions -/

theorem all_notNl_of_not_mem (l : Text) (h : '\n' ∉ l) : ∀ a ∈ l, notNl a = true := by
  intro a ha
  rw [notNl_iff]
  intro e; subst e; exact h ha

/-- moving forward inside the current line does not change the line start -/
theorem lineStart_within_line (t : Text) (i k : Nat) (hi : i ≤ t.length)
    (hk : k ≤ ((t.drop i).takeWhile notNl).length) : lineStart t (i + k) = lineStart t i := by
  have hlen := length_takeWhile_le' notNl (t.drop i)
  simp at hlen
  have hsplit : t.take (i + k) = t.take i ++ (t.drop i).take k := by
    rw [List.take_add]
  have hB : '\n' ∉ (t.drop i).take k := by
    intro hm
    have : (t.drop i).take k = ((t.drop i).takeWhile notNl).take k := by
      conv => lhs; rw [← List.takeWhile_append_dropWhile (p := notNl) (l := t.drop i)]
      rw [List.take_append_of_le_length hk]
    rw [this] at hm
    exact nl_not_mem_takeWhile _ (List.mem_of_mem_take hm)
  unfold lineStart
  rw [hsplit, List.reverse_append,
    List.takeWhile_append_of_pos (by
      intro a ha
      exact all_notNl_of_not_mem _ hB a (by simpa using ha))]
  simp
  omega

theorem colI_within_line (d : Doc) (hi : Inv d) (k : Nat) (hk : k ≤ (lineAfter d).length) :
    colI d.text ((k : Int) + d.cur) = (d.col : Int) + k := by
  unfold Inv at hi
  have hls := lineStart_within_line d.text d.cur k hi (by simpa [lineAfter, Doc.after] using hk)
  have hl := lineStart_le d.text d.cur
  unfold colI Doc.col
  have : ¬ ((k : Int) + d.cur < 0) := by omega
  rw [if_neg this]
  have e : ((k : Int) + (d.cur : Int)).toNat = d.cur + k := by omega
  rw [e, hls]
  omega

/-- `h` / `0`: exactly the `min(col, count)` (all `col`) characters before the cursor;
    `l` / `$`: exactly the `min(count, rest)` (all remaining) characters of the line -/
theorem simple_motion_spans (isSpace sp : Char → Bool) (d : Doc) (hi : Inv d) (count : Nat) :
    operatorRange d (textObject isSpace sp d count .h) = (-((min d.col count : Nat) : Int), 0) ∧
    operatorRange d (textObject isSpace sp d count .zero) = (-((lineBefore d).length : Int), 0) ∧
    operatorRange d (textObject isSpace sp d count .l) = (0, ((min count (lineAfter d).length : Nat) : Int)) ∧
    operatorRange d (textObject isSpace sp d count .dollar) = (0, ((lineAfter d).length : Int)) := by
  have hc := col_eq d hi
  have hcol0 : colI d.text ((0 : Int) + d.cur) = d.col := by
    have := colI_within_line d hi 0 (by omega)
    simpa using this
  have back : ∀ n : Nat, n ≤ d.col →
      operatorRange d { start := -(n : Int), stop := 0, type := .exclusive } = (-(n : Int), 0) := by
    intro n hn
    unfold operatorRange TextObject.sorted
    by_cases h0 : n = 0
    · subst h0; simp
    · have hlt : -(n : Int) < 0 := by omega
      simp only [hlt, if_true]
      have : ¬ (True ∧ colI d.text (0 + (d.cur : Int)) = 0) := by
        rw [hcol0]; omega
      rw [if_neg this]
  have fwd : ∀ n : Nat, n ≤ (lineAfter d).length →
      operatorRange d { start := (n : Int), stop := 0, type := .exclusive } = (0, (n : Int)) := by
    intro n hn
    unfold operatorRange TextObject.sorted
    have hlt : ¬ ((n : Int) < 0) := by omega
    simp only [hlt, if_false]
    have hcol := colI_within_line d hi n hn
    have : ¬ ((0 : Int) < n ∧ colI d.text ((n : Int) + (d.cur : Int)) = 0) := by
      rw [hcol]; omega
    rw [if_neg this]
  refine ⟨?_, ?_, ?_, ?_⟩
  · simp only [textObject]; exact back _ (by omega)
  · simp only [textObject]; exact back _ (by omega)
  · simp only [textObject]; exact fwd _ (by omega)
  · simp only [textObject]; exact fwd _ (by omega)

/-- the column-0 rule of exclusive motions only ever drops a newline: when it applies, the
    character just before the motion's end is the line separator -/
theorem col0_rule_drops_newline (d : Doc) (o : TextObject) (h : InRange d o) (ht : o.type = .exclusive)
    (hlt : o.sorted.1 < o.sorted.2) (hcol : colI d.text (o.sorted.2 + d.cur) = 0) :
    operatorRange d o = (o.sorted.1, o.sorted.2 - 1) ∧
    d.text[(o.sorted.2 + (d.cur : Int)).toNat - 1]? = some '\n' := by
  obtain ⟨h1, h2⟩ := sorted_inrange d o h
  constructor
  · unfold operatorRange; rw [ht]; simp [hlt, hcol]
  · unfold colI at hcol
    have hn : ¬ (o.sorted.2 + (d.cur : Int) < 0) := by omega
    rw [if_neg hn] at hcol
    have hl := lineStart_le d.text (o.sorted.2 + (d.cur : Int)).toNat
    have heq : lineStart d.text (o.sorted.2 + (d.cur : Int)).toNat = (o.sorted.2 + (d.cur : Int)).toNat := by omega
    rcases lineStart_is_line_start d.text (o.sorted.2 + (d.cur : Int)).toNat with h0 | h0
    · omega
    · rw [heq] at h0; exact h0

/-! ### change = delete + insert mode; named registers; the target of `f` -/

/-- `c` edits exactly like `d`; it only enters insert mode in addition -/
theorem change_eq_delete (s sd sc : St) (o : TextObject) (reg : Option Char)
    (hb : badReg reg = false)
    (hd : opDelete s o reg false = some sd) (hc : opDelete s o reg true = some sc) :
    sc = { sd with insert := true } := by
  rw [opDelete_good _ _ _ _ hb] at hd hc
  cases hcut : cut s.doc o with
  | none => simp [hcut] at hd
  | some p =>
    obtain ⟨d', c⟩ := p
    simp [hcut] at hd hc
    subst hd; subst hc
    simp

/-- `"xd<motion>` with a valid register name: exactly the removed characters go to register
    `x`; the clipboard and all other registers are untouched -/
theorem delete_charwise_register (s s' : St) (o : TextObject) (change : Bool) (r : Char)
    (hreg : isRegName r = true)
    (hr : InRange s.doc o) (ht : o.type ≠ .linewise)
    (hne : (operatorRange s.doc o).1 < (operatorRange s.doc o).2)
    (hin : (s.cur : Int) + (operatorRange s.doc o).1 < s.text.length)
    (h : opDelete s o (some r) change = some s') :
    ∃ a b : Nat, (a : Int) = s.cur + (operatorRange s.doc o).1 ∧ (b : Int) = s.cur + (operatorRange s.doc o).2 ∧
      a < b ∧ s'.text = s.text.take a ++ s.text.drop b ∧ s'.cur = a ∧
      regGet s'.regs r = some { text := (s.text.take b).drop a, lines := false } ∧
      (∀ m, m ≠ r → regGet s'.regs m = regGet s.regs m) ∧ s'.clip = s.clip := by
  obtain ⟨a, b, ha, hb, hab, hcut⟩ := cut_charwise s.doc o hr ht hne
  obtain ⟨d', c, hc, e1, e2, _, e4, e5⟩ := delete_spec s s' o (some r) change (by simp [badReg, hreg]) h
  rw [hcut] at hc
  simp at hc
  obtain ⟨hd, hcl⟩ := hc
  subst hd; subst hcl
  have hd1 : s.doc.cur = s.cur := rfl
  have hd2 : s.doc.text = s.text := rfl
  rw [hd1] at ha hb
  have hal : a < s.text.length := by omega
  have hnonempty : ¬ ((({ text := (s.doc.text.take b).drop a, lines := false } : Clip).text = []) ∧
      ({ text := (s.doc.text.take b).drop a, lines := false } : Clip).lines = false) := by
    simp [hd2]
    omega
  have hs := (store_spec { s with text := (s.doc.text.take a ++ s.doc.text.drop b), cur := a } (some r)
      { text := (s.doc.text.take b).drop a, lines := false }).2 hnonempty
  simp only [] at hs
  obtain ⟨hs1, hs2, _⟩ := hs
  obtain ⟨hs2a, hs2b⟩ := hs2 hreg
  refine ⟨a, b, ha, hb, hab, e1, e2, ?_, ?_, ?_⟩
  · rw [e5]; exact hs2a
  · intro m hm; rw [e5]; exact hs2b m hm
  · rw [e4]; exact hs1

theorem occGo_sound (c : Char) (pos : Nat) (l : Text) (k : Nat) (h : k ∈ occGo c pos l) :
    l[k - pos]? = some c := by
  induction l generalizing pos with
  | nil => simp [occGo] at h
  | cons x xs ih =>
    unfold occGo at h
    split at h
    · rename_i hx
      simp at h
      rcases h with h | h
      · subst h; simp [hx]
      · have hb := occGo_bound c (pos + 1) xs k h
        have := ih (pos + 1) h
        have e : k - pos = (k - (pos + 1)) + 1 := by omega
        rw [e]; simpa using this
    · have hb := occGo_bound c (pos + 1) xs k h
      have := ih (pos + 1) h
      have e : k - pos = (k - (pos + 1)) + 1 := by omega
      rw [e]; simpa using this

theorem getElem?_of_takeWhile {α : Type} (p : α → Bool) (l : List α) (i : Nat) (x : α)
    (h : (l.takeWhile p)[i]? = some x) : l[i]? = some x := by
  have hl : l = l.takeWhile p ++ l.dropWhile p := (List.takeWhile_append_dropWhile).symm
  rw [hl, List.getElem?_append_left]
  · exact h
  · exact (List.getElem?_eq_some_iff.1 h).1

/-- `f<c>` lands on an occurrence of `c`: `df<c>` deletes up to and including a `c`,
    `dt<c>` up to just before it -/
theorem f_target_is_char (d : Doc) (c : Char) (count : Nat) (m : Int)
    (h : findFwd d c true count = some m) :
    1 ≤ m ∧ d.text[d.cur + m.toNat]? = some c := by
  unfold findFwd at h
  simp only [if_true] at h
  split at h
  · simp at h
  · obtain ⟨k, hn, hk⟩ := Option.map_eq_some_iff.1 h
    have hmem := nth_mem _ _ _ hn
    have hs := occGo_sound c 0 _ k hmem
    simp at hs
    -- index k in lineAfter.drop 1 = index k+1 in lineAfter = index cur+k+1 in the text
    have h1 : (lineAfter d)[k + 1]? = some c := hs
    have h2 := getElem?_of_takeWhile notNl d.after (k + 1) c (by simpa [lineAfter] using h1)
    simp [Doc.after] at h2
    refine ⟨by omega, ?_⟩
    have : d.cur + m.toNat = d.cur + (k + 1) := by omega
    rw [this]; exact h2

/-! ### capstone: `d<motion>` for every modelled motion -/

/-- For EVERY modelled motion / text object, every count and every state with the cursor inside
    the text, `d<motion>` succeeds, removes one contiguous piece `removed` located at the new
    cursor (re-inserting it there gives back the old text), leaves the named registers alone,
    and the clipboard receives exactly `removed` (characterwise), or `removed` without the
    newline that terminates its last line (linewise, type LINES), or — when nothing is removed —
    stays as it is (a linewise motion on an empty last line records that empty line). -/
theorem delete_any_motion (env : Env) (s : St) (opArg motArg : Option Nat) (m : Motion)
    (hi : s.cur ≤ s.text.length) (hm : ∀ o, m ≠ .raw o) :
    ∃ s' removed, run env s opArg (.delete none) motArg m = some s' ∧
      s.text = s'.text.take s'.cur ++ removed ++ s'.text.drop s'.cur ∧
      s'.regs = s.regs ∧
      ((removed = [] ∧ s'.text = s.text ∧ s'.clip = s.clip) ∨
       (removed ≠ [] ∧ s'.clip = { text := removed, lines := false }) ∨
       (s'.clip.lines = true ∧ ∃ nl : Text, (nl = [] ∨ nl = ['\n']) ∧ s'.clip.text ++ nl = removed)) := by
  obtain ⟨s', hrun, _⟩ := run_ok env s opArg motArg (.delete none) m hi hm
  have hr := textObject_inRange env.isSpace env.reSpace s.doc hi (combineArgs opArg motArg) m hm
  generalize ho : textObject env.isSpace env.reSpace s.doc (combineArgs opArg motArg) m = o at hr
  have hdel : opDelete s o none false = some s' := by
    unfold run applyOp at hrun
    simp only [] at hrun
    rw [ho] at hrun
    exact hrun
  by_cases ht : o.type = .linewise
  · obtain ⟨a, b, _, _, _, _, _, _, _, _, hclip, hregs, nl, hnl, hrec⟩ :=
      delete_linewise_exact s s' o false hr ht hdel
    refine ⟨s', s'.clip.text ++ nl, hrun, hrec, hregs, Or.inr (Or.inr ⟨by rw [hclip], nl, hnl, rfl⟩)⟩
  · by_cases hne : (operatorRange s.doc o).1 < (operatorRange s.doc o).2
    · obtain ⟨b1, b2, b3⟩ := operatorRange_bounds s.doc o hr
      have hd1 : s.doc.cur = s.cur := rfl
      have hd2 : s.doc.text = s.text := rfl
      rw [hd1] at b1 b3
      rw [hd2] at b3
      by_cases hin : (s.cur : Int) + (operatorRange s.doc o).1 < s.text.length
      · obtain ⟨a, b, ha, hb, hab, _, _, hclip, hregs, hrec⟩ :=
          delete_charwise_exact s s' o false hr ht hne hin hdel
        refine ⟨s', s'.clip.text, hrun, hrec, hregs, Or.inr (Or.inl ⟨?_, by rw [hclip]⟩)⟩
        rw [hclip]
        simp
        omega
      · -- the range sticks out behind the text and holds no character
        obtain ⟨a, b, ha, hb, hab, hcut⟩ := cut_charwise s.doc o hr ht hne
        rw [hd1] at ha hb
        have hal : a = s.text.length := by
          have : (a : Int) ≤ s.text.length := by split at b3 <;> omega
          omega
        rw [opDelete_good _ _ _ _ rfl] at hdel
        rw [hcut] at hdel
        simp only [] at hdel
        have hempty : (s.doc.text.take b).drop a = [] := by
          apply List.drop_eq_nil_of_le
          rw [hd2, hal, List.length_take]; omega
        rw [hempty] at hdel
        have hst : ∀ x : St, store x none { text := [], lines := false } = x := by
          intro x; unfold store; simp
        rw [hst] at hdel
        simp at hdel
        subst hdel
        have htext : s.doc.text.take a ++ s.doc.text.drop b = s.text := by
          rw [hd2, hal, List.take_length, List.drop_eq_nil_of_le (by omega)]; simp
        refine ⟨_, [], hrun, ?_, rfl, Or.inl ⟨rfl, htext, rfl⟩⟩
        simp only [List.append_nil, List.take_append_drop]
        exact htext.symm
    · have he : (operatorRange s.doc o).1 ≥ (operatorRange s.doc o).2 := by omega
      have hnoop := empty_span_noop env s s' (.delete none) o (combineArgs opArg motArg) ht he
        (by simpa [applyOp] using hdel)
      refine ⟨s', [], hrun, ?_, hnoop.2.2.2, Or.inl ⟨rfl, hnoop.1, hnoop.2.2.1⟩⟩
      rw [hnoop.1, hnoop.2.1]
      simp

/-- `y<motion>` / `"xy<motion>` for every modelled motion: succeeds, text and cursor unchanged -/
theorem yank_any_motion (env : Env) (s : St) (opArg motArg : Option Nat) (reg : Option Char) (m : Motion)
    (hi : s.cur ≤ s.text.length) (hm : ∀ o, m ≠ .raw o) :
    ∃ s', run env s opArg (.yank reg) motArg m = some s' ∧ s'.text = s.text ∧ s'.cur = s.cur := by
  obtain ⟨s', hrun, _⟩ := run_ok env s opArg motArg (.yank reg) m hi hm
  refine ⟨s', hrun, ?_⟩
  unfold run applyOp at hrun
  simp only [] at hrun
  have := yank_never_edits s s' _ reg hrun
  exact ⟨this.1, this.2.1⟩

/-- `g?` `gu` `gU` `g~` + every modelled motion: succeeds; the new text is the old one with one
    piece `text[a:b)` replaced by the callback's image of exactly that piece (or unchanged);
    clipboard and registers are untouched -/
theorem transform_any_motion (env : Env) (s : St) (opArg motArg : Option Nat) (k : Transform) (m : Motion)
    (hi : s.cur ≤ s.text.length) (hm : ∀ o, m ≠ .raw o) :
    ∃ s', run env s opArg (.transform k) motArg m = some s' ∧ s'.clip = s.clip ∧ s'.regs = s.regs ∧
      (s' = s ∨ ∃ a b : Nat, a < b ∧
        s'.text = s.text.take a ++ env.tf k ((s.text.take b).drop a) ++ s.text.drop b) := by
  obtain ⟨s', hrun, _⟩ := run_ok env s opArg motArg (.transform k) m hi hm
  have hr := textObject_inRange env.isSpace env.reSpace s.doc hi (combineArgs opArg motArg) m hm
  refine ⟨s', hrun, ?_⟩
  unfold run applyOp at hrun
  simp only [] at hrun
  obtain ⟨e1, e2, _, e4, e5⟩ := transform_frame (env.tf k) s s' _ hr hrun
  refine ⟨e1, e2, ?_⟩
  by_cases hlt : (operatorRange s.doc (textObject env.isSpace env.reSpace s.doc (combineArgs opArg motArg) m)).1 <
      (operatorRange s.doc (textObject env.isSpace env.reSpace s.doc (combineArgs opArg motArg) m)).2
  · obtain ⟨a, b, _, _, hab, ht⟩ := e5 hlt
    exact Or.inr ⟨a, b, hab, ht⟩
  · exact Or.inl (e4 (by omega))

theorem isPrefixOf'_spec (p l : Text) (h : isPrefixOf' p l = true) : l = p ++ l.drop p.length := by
  induction p generalizing l with
  | nil => simp
  | cons a as ih =>
    cases l with
    | nil => simp [isPrefixOf'] at h
    | cons b bs =>
      simp [isPrefixOf'] at h
      obtain ⟨h1, h2⟩ := h
      subst h1
      simp
      exact ih bs h2

theorem repeat_all_space (n : Nat) : ∀ c ∈ repeatText indentUnit n, c = ' ' := by
  induction n with
  | zero => simp [repeatText]
  | succ k ih =>
    intro c hc
    simp [repeatText, indentUnit] at hc
    rcases hc with hc | hc
    · exact hc
    · exact ih c hc

/-- inside the row range: `>` prefixes every line with exactly `4 * count` spaces; `<` removes
    only a prefix of blanks (never a non-blank character) -/
theorem indent_inside (isSpace : Char → Bool) (s s' : St) (o : TextObject) (count : Nat) (un : Bool)
    (hsn : spansNothing s.doc o = false)
    (h : opIndent isSpace s o count un = some s') :
    ∀ i : Nat, (getLineNumbers s.doc o).1 ≤ (i : Int) → (i : Int) ≤ (getLineNumbers s.doc o).2 →
      ∀ l, (lines s.text)[i]? = some l →
        ∃ l', (lines s'.text)[i]? = some l' ∧
          (un = false → l' = repeatText indentUnit count ++ l) ∧
          (un = true → ∃ p, l = p ++ l' ∧ ∀ c ∈ p, c = ' ' ∨ isSpace c = true) := by
  intro i h1 h2 l hl
  have hneg : ¬ ((getLineNumbers s.doc o).1 < 0 ∨ (getLineNumbers s.doc o).2 < 0) := by
    intro hn
    simp only [opIndent, hsn, hn, if_true] at h
    simp at h
  have hin : (getLineNumbers s.doc o).1.toNat ≤ i ∧ i < (getLineNumbers s.doc o).2.toNat + 1 := by omega
  cases un with
  | true =>
    simp only [opIndent, hsn, hneg, if_false, if_true] at h
    simp at h; subst h
    have hf : ∀ l : Text, '\n' ∉ l →
        '\n' ∉ (if isPrefixOf' (repeatText indentUnit count) l then l.drop (repeatText indentUnit count).length
                 else l.dropWhile isSpace) := by
      intro l hl
      split
      · exact fun hm => hl (List.mem_of_mem_drop hm)
      · exact fun hm => hl ((List.dropWhile_sublist isSpace).subset hm)
    simp only [unindent]
    rw [lines_transformLines _ s.text _ _ hf, List.getElem?_mapIdx, hl]
    simp only [Option.map_some, hin, and_self, if_true]
    refine ⟨_, rfl, by simp, fun _ => ?_⟩
    split
    · rename_i hp
      exact ⟨repeatText indentUnit count, isPrefixOf'_spec _ _ hp,
        fun c hc => Or.inl (repeat_all_space count c hc)⟩
    · refine ⟨l.takeWhile isSpace, (List.takeWhile_append_dropWhile).symm, fun c hc => Or.inr ?_⟩
      have := @List.all_takeWhile _ isSpace l
      rw [List.all_eq_true] at this
      exact this c hc
  | false =>
    simp only [opIndent, hsn, hneg, if_false] at h
    simp at h; subst h
    have hf : ∀ l : Text, '\n' ∉ l → '\n' ∉ (repeatText indentUnit count ++ l) := by
      intro l hl hm
      simp at hm
      rcases hm with hm | hm
      · exact repeat_no_nl count hm
      · exact hl hm
    simp only [indent]
    rw [lines_transformLines _ s.text _ _ hf, List.getElem?_mapIdx, hl]
    simp only [Option.map_some, hin, and_self, if_true]
    exact ⟨_, rfl, fun _ => rfl, by simp⟩

/-! ### non-vacuity: the hypotheses are satisfiable, the model computes the expected results -/
section examples

def exSp (c : Char) : Bool := c == ' ' || c == '\n'
def exEnv : Env := { isSpace := exSp, reSpace := exSp, tf := fun _ t => t.map Char.toUpper }
def exSt : St := { text := "ab cd\nef".toList, cur := 1, clip := ⟨"zz".toList, false⟩, regs := [], insert := false }

-- `dw` on "ab cd\nef" at 1: removes "b ", stores it
example : run exEnv exSt none (.delete none) none (.w false)
    = some { exSt with text := "acd\nef".toList, cur := 1, clip := ⟨"b ".toList, false⟩ } := by decide
example : InRange exSt.doc (textObject exSp exSp exSt.doc 1 (.w false)) := by
  unfold InRange; decide
example : (textObject exSp exSp exSt.doc 1 (.w false)).type ≠ .linewise := by decide
example : (operatorRange exSt.doc (textObject exSp exSp exSt.doc 1 (.w false))).1 <
          (operatorRange exSt.doc (textObject exSp exSp exSt.doc 1 (.w false))).2 := by decide
-- `yj` : linewise yank of both lines, text untouched
example : run exEnv exSt none (.yank none) none .j
    = some { exSt with clip := ⟨"ab cd\nef".toList, true⟩ } := by decide
-- `"adj` : linewise delete into register a
example : run exEnv exSt none (.delete (some 'a')) none .j
    = some { exSt with text := [], cur := 0, regs := [('a', ⟨"ab cd\nef".toList, true⟩)] } := by decide
-- `d2gg` on the empty middle line: the empty line is removed, the register holds one empty line
example : run exEnv { exSt with text := "x\n\ny".toList, cur := 2 } none (.delete none) (some 2) .gg
    = some { exSt with text := "x\ny".toList, cur := 2, clip := ⟨[], true⟩ } := by decide
-- `gUe`, `>j`, `<k`
example : run exEnv exSt none (.transform .upper) none (.e false)
    = some { exSt with text := "aB CD\nef".toList, cur := 4 } := by decide
example : (run exEnv exSt none .indent none .j).map (·.text) = some "    ab cd\n    ef".toList := by decide
-- failing motions: `dfx`, `dj` on the last line, `dh` in column 0, `di(` without brackets
example : textObject exSp exSp exSt.doc 1 (.f 'x') = failed := by decide
example : textObject exSp exSp { exSt.doc with cur := 7 } 1 .j = failed := by decide
example : textObject exSp exSp { exSt.doc with cur := 6 } 3 .h = failed := by decide
example : textObject exSp exSp exSt.doc 1 (.bracket '(' ')' true) = failed := by decide
example : run exEnv { exSt with cur := 7 } none (.delete none) none .j = some { exSt with cur := 7 } := by decide
-- the exclusive column-0 rule: `dw` from the end of a line stops before the newline
example : run exEnv { exSt with cur := 3 } none (.delete none) none (.w false)
    = some { exSt with text := "ab \nef".toList, cur := 3, clip := ⟨"cd".toList, false⟩ } := by decide
-- text objects: `di(`, `da(`, `diw`, `ci'`
example : (run exEnv { exSt with text := "f(a b)c".toList, cur := 3 } none (.delete none) none
            (.bracket '(' ')' true)).map (fun s => (s.text, s.cur, s.clip.text))
    = some ("f()c".toList, 2, "a b".toList) := by decide
example : (run exEnv { exSt with text := "f(a b)c".toList, cur := 3 } none (.delete none) none
            (.bracket '(' ')' false)).map (fun s => (s.text, s.cur, s.clip.text))
    = some ("fc".toList, 1, "(a b)".toList) := by decide
example : (run exEnv { exSt with text := "say 'hi' x".toList, cur := 5 } none (.change none) none
            (.quote '\'' true)).map (fun s => (s.text, s.cur, s.clip.text, s.insert))
    = some ("say '' x".toList, 5, "hi".toList, true) := by decide

-- hypotheses of the register / span / target theorems on the same state
example : Inv exSt.doc := by unfold Inv; decide
example : isRegName 'a' = true ∧ isRegName '7' = true ∧ isRegName 'A' = false := by decide
example : operatorRange exSt.doc (textObject exSp exSp exSt.doc 2 .l) = (0, 2) := by decide
example : operatorRange exSt.doc (textObject exSp exSp exSt.doc 5 .h) = (-1, 0) := by decide
example : findFwd exSt.doc 'd' true 1 = some 3 := by decide
example : (run exEnv exSt none (.delete (some 'a')) none (.f 'd')).map (fun s => (s.text, s.regs, s.clip.text))
    = some ("a\nef".toList, [('a', ⟨"b cd".toList, false⟩)], "zz".toList) := by decide
-- the column-0 rule: `dw` from "cd" would end on the 'e' of the next line (column 0)
example : colI exSt.text ((textObject exSp exSp { exSt.doc with cur := 3 } 1 (.w false)).sorted.2 + 3) = 0 := by decide
-- arguments are multiplied, a million and more counts as 1
example : combineArgs (some 2) (some 3) = 6 ∧ combineArgs none none = 1 ∧ combineArgs (some 1000) (some 1000) = 1 := by decide
-- `2fx d,` on "ax_bx_c": the find moves to 4, `,` searches backwards (exclusive): "x_b" is removed
example : (runKeysAfterFind exEnv { exSt with text := "ax_bx_c".toList, cur := 0 } (some 2) (.f 'x')
            none (.delete none) none true).map (fun s => (s.text, s.cur, s.clip))
    = some ("ax_c".toList, 1, ⟨"x_b".toList, false⟩) := by decide
-- `2Fx d,` from the end: `,` searches forwards (inclusive): "x_bx" is removed
example : (runKeysAfterFind exEnv { exSt with text := "ax_bx_c".toList, cur := 6 } (some 2) (.F 'x')
            none (.delete none) none true).map (fun s => (s.text, s.cur, s.clip))
    = some ("a_c".toList, 1, ⟨"x_bx".toList, false⟩) := by decide
example : textObject exSp exSp exSt.doc 1 (.repeatFind none true) = failed := by decide
example : textObject exSp exSp exSt.doc 1 (.repeatFind (some ('z', false)) false) = failed := by decide
end examples
end Ptk.C08
