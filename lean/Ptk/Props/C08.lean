/-
  C08 — property theorems for the Vi operator model (`Ptk.Model.C08`).

  All theorems hold for every text, cursor, text object (offsets inside the text), register
  contents and for every `isSpace` / `\s` classification and transform callback.
  Main statements:
    * `yank_never_edits`                       — y / "xy leave text and cursor alone
    * `delete_charwise_exact`                  — d / c + characterwise span: exactly text[a:b) is
                                                 removed and stored; re-inserting restores the text
    * `delete_linewise_exact`                  — whole lines, LINES register, trailing newline rule
    * `transform_frame`, `indent_frame`        — case / indent operators change nothing outside
    * `empty_span_noop`, `failing_motion_noop` — empty span / failing motion: nothing changes
    * `operatorRange_bounds`, `textObject_inRange`, `run_ok` — the range arithmetic never leaves
                                                 the text for any modelled motion
-/
import Ptk.Model.C08
namespace Ptk.C08
open Ptk.Py

def Inv (d : Doc) : Prop := d.cur ≤ d.text.length

def InRange (d : Doc) (o : TextObject) : Prop :=
  0 ≤ (d.cur : Int) + o.start ∧ (d.cur : Int) + o.start ≤ d.text.length ∧
  0 ≤ (d.cur : Int) + o.stop ∧ (d.cur : Int) + o.stop ≤ d.text.length

section helpers
variable {α : Type}

theorem length_takeWhile_le' (p : α → Bool) (l : List α) :
    (l.takeWhile p).length ≤ l.length := by
  induction l with
  | nil => simp
  | cons x xs ih => rw [List.takeWhile_cons]; split <;> simp <;> omega

theorem slice_partition (t : List α) (a b : Nat) (h : a ≤ b) :
    t.take a ++ ((t.take b).drop a) ++ t.drop b = t := by
  have h1 : t.take a = (t.take b).take a := by rw [List.take_take]; congr 1; omega
  rw [h1, List.take_append_drop, List.take_append_drop]
end helpers

theorem sorted_le (o : TextObject) : o.sorted.1 ≤ o.sorted.2 := by
  unfold TextObject.sorted; split <;> simp <;> omega

theorem sorted_cases (o : TextObject) :
    (o.sorted = (o.start, o.stop)) ∨ (o.sorted = (o.stop, o.start)) := by
  unfold TextObject.sorted; split <;> simp

theorem lineStart_le (t : Text) (i : Nat) : lineStart t i ≤ i ∧ lineStart t i ≤ t.length := by
  unfold lineStart; simp; omega

theorem lineEnd_ge (t : Text) (i : Nat) (h : i ≤ t.length) : i ≤ lineEnd t i := by
  unfold lineEnd; omega

theorem lineEnd_le (t : Text) (i : Nat) : lineEnd t i ≤ t.length := by
  unfold lineEnd
  have := length_takeWhile_le' notNl (t.drop i)
  simp at this; omega

/-- yank never edits -/
theorem store_text (s : St) (reg : Option Char) (c : Clip) :
    (store s reg c).text = s.text ∧ (store s reg c).cur = s.cur ∧ (store s reg c).insert = s.insert := by
  unfold store; split
  · simp
  · split
    · split <;> simp
    · simp

theorem yank_never_edits (s s' : St) (o : TextObject) (reg : Option Char)
    (h : opYank s o reg = some s') :
    s'.text = s.text ∧ s'.cur = s.cur ∧ s'.insert = s.insert := by
  unfold opYank at h
  split at h
  · split at h
    · split at h
      · simp at h
      · simp at h; subst h; exact store_text _ _ _
    · simp at h; subst h; simp
  · split at h
    · simp at h
    · simp at h; subst h; exact store_text _ _ _


theorem sorted_inrange (d : Doc) (o : TextObject) (h : InRange d o) :
    0 ≤ (d.cur : Int) + o.sorted.1 ∧ (d.cur : Int) + o.sorted.2 ≤ d.text.length := by
  obtain ⟨h1, h2, h3, h4⟩ := h
  rcases sorted_cases o with e | e <;> rw [e] <;> simp <;> omega

theorem operatorRange_bounds (d : Doc) (o : TextObject) (h : InRange d o) :
    0 ≤ (d.cur : Int) + (operatorRange d o).1 ∧
    (operatorRange d o).1 ≤ (operatorRange d o).2 ∧
    (d.cur : Int) + (operatorRange d o).2 ≤ d.text.length + (if o.type = .inclusive then 1 else 0) := by
  have hs := sorted_le o
  obtain ⟨h1, h2⟩ := sorted_inrange d o h
  unfold operatorRange
  cases ht : o.type
  · -- exclusive
    simp only []
    split
    · simp; omega
    · simp; omega
  · simp; omega
  · -- linewise
    simp only [lineStartI, lineEndI]
    have ha : ¬ (o.sorted.1 + (d.cur : Int) < 0) := by omega
    have hb : ¬ (o.sorted.2 + (d.cur : Int) < 0) := by omega
    rw [if_neg ha, if_neg hb]
    have l1 := lineStart_le d.text (o.sorted.1 + (d.cur : Int)).toNat
    have l3 := lineEnd_le d.text (o.sorted.2 + (d.cur : Int)).toNat
    have l2 := lineEnd_ge d.text (o.sorted.2 + (d.cur : Int)).toNat (by omega)
    simp; omega

/-- empty (non-linewise) span: every operator is a no-op on text, cursor, clipboard, registers -/
theorem empty_span_noop (env : Env) (s s' : St) (op : Op) (o : TextObject) (count : Nat)
    (ht : o.type ≠ .linewise)
    (he : (operatorRange s.doc o).1 ≥ (operatorRange s.doc o).2)
    (h : applyOp env s op o count = some s') :
    s'.text = s.text ∧ s'.cur = s.cur ∧ s'.clip = s.clip ∧ s'.regs = s.regs := by
  have hcut : cut s.doc o = some (s.doc, { text := [], lines := false }) := by
    unfold cut
    have : (o.type == TOType.linewise) = false := by
      cases h' : o.type <;> simp_all
    simp [this, he]
  have hst : ∀ (x : St) reg, store x reg { text := [], lines := false } = x := by
    intro x reg; unfold store; simp
  cases op with
  | delete reg =>
    simp [applyOp, opDelete, hcut, hst] at h; subst h; simp [St.doc]
  | change reg =>
    simp [applyOp, opDelete, hcut, hst] at h; subst h; simp [St.doc]
  | yank reg =>
    simp only [applyOp, opYank, hcut, hst] at h
    split at h
    · split at h <;> (simp at h; subst h; simp)
    · simp at h; subst h; simp
  | transform k =>
    simp only [applyOp, opTransform] at h
    have : ¬ ((operatorRange s.doc o).1 < (operatorRange s.doc o).2) := by omega
    rw [if_neg this] at h; simp at h; subst h; simp
  | indent =>
    simp only [applyOp, opIndent] at h
    have : spansNothing s.doc o = true := by
      unfold spansNothing
      have : (o.type != TOType.linewise) = true := by cases h' : o.type <;> simp_all
      simp [this]; omega
    rw [if_pos this] at h; simp at h; subst h; simp
  | unindent =>
    simp only [applyOp, opIndent] at h
    have : spansNothing s.doc o = true := by
      unfold spansNothing
      have : (o.type != TOType.linewise) = true := by cases h' : o.type <;> simp_all
      simp [this]; omega
    rw [if_pos this] at h; simp at h; subst h; simp


/-- characterwise cut: exactly `text[a:b)` is removed and returned, the cursor lands on `a` -/
theorem cut_charwise (d : Doc) (o : TextObject) (h : InRange d o) (ht : o.type ≠ .linewise)
    (hne : (operatorRange d o).1 < (operatorRange d o).2) :
    ∃ a b : Nat, (a : Int) = d.cur + (operatorRange d o).1 ∧ (b : Int) = d.cur + (operatorRange d o).2 ∧
      a < b ∧
      cut d o = some ({ text := d.text.take a ++ d.text.drop b, cur := a },
                      { text := (d.text.take b).drop a, lines := false }) := by
  obtain ⟨b1, b2, b3⟩ := operatorRange_bounds d o h
  refine ⟨((d.cur : Int) + (operatorRange d o).1).toNat, ((d.cur : Int) + (operatorRange d o).2).toNat,
    by omega, by omega, by omega, ?_⟩
  have hl : (o.type == TOType.linewise) = false := by cases h' : o.type <;> simp_all
  have b3' : (d.cur : Int) + (operatorRange d o).2 ≤ d.text.length + 1 := by
    split at b3 <;> omega
  unfold cut
  simp only [hl]
  have hnot : ¬ ((operatorRange d o).1 ≥ (operatorRange d o).2) := by omega
  simp only [hnot, decide_false, Bool.not_false, Bool.and_false, Bool.false_eq_true, if_false]
  have hdom : ¬ ((operatorRange d o).1 + (d.cur : Int) < 0 ∨ (operatorRange d o).2 + (d.cur : Int) - 1 < 0 ∨
      (operatorRange d o).2 + (d.cur : Int) - 1 > d.text.length) := by omega
  rw [if_neg hdom]
  unfold cutSelection selRange
  simp only [Bool.false_eq_true, if_false]
  have e1 : min ((operatorRange d o).2 + (d.cur : Int) - 1).toNat ((operatorRange d o).1 + (d.cur : Int)).toNat
      = ((d.cur : Int) + (operatorRange d o).1).toNat := by omega
  have e2 : max ((operatorRange d o).2 + (d.cur : Int) - 1).toNat ((operatorRange d o).1 + (d.cur : Int)).toNat + 1
      = ((d.cur : Int) + (operatorRange d o).2).toNat := by omega
  rw [e1, e2]


theorem notNl_iff (c : Char) : notNl c = true ↔ c ≠ '\n' := by simp [notNl]

theorem dropWhile_notNl_head (l : Text) :
    l.dropWhile notNl = [] ∨ ∃ r, l.dropWhile notNl = '\n' :: r := by
  induction l with
  | nil => simp
  | cons x xs ih =>
    rw [List.dropWhile_cons]
    split
    · exact ih
    · right
      rename_i hx
      have : x = '\n' := by
        by_cases hne : x = '\n'
        · exact hne
        · exact absurd ((notNl_iff x).2 hne) hx
      exact ⟨xs, by rw [this]⟩

theorem nl_not_mem_takeWhile (l : Text) : '\n' ∉ l.takeWhile notNl := by
  intro hm
  have := @List.all_takeWhile _ notNl l
  rw [List.all_eq_true] at this
  have := this _ hm
  simp [notNl] at this

/-- a text splits into (everything up to and including the last newline) ++ (last line) -/
theorem last_line_split (l : Text) :
    ∃ pre, l = pre ++ (l.reverse.takeWhile notNl).reverse ∧
      (pre = [] ∨ ∃ q, pre = q ++ ['\n']) := by
  refine ⟨(l.reverse.dropWhile notNl).reverse, ?_, ?_⟩
  · have := List.takeWhile_append_dropWhile (p := notNl) (l := l.reverse)
    have h2 : l.reverse.reverse = (l.reverse.takeWhile notNl ++ l.reverse.dropWhile notNl).reverse := by
      rw [this]
    rw [List.reverse_reverse, List.reverse_append] at h2
    exact h2
  · rcases dropWhile_notNl_head l.reverse with h | ⟨r, h⟩
    · left; simp [h]
    · right; exact ⟨r.reverse, by rw [h]; simp⟩

theorem lineStart_spec (t : Text) (i : Nat) :
    ∃ pre lb, t.take i = pre ++ lb ∧ pre.length = lineStart t i ∧ '\n' ∉ lb ∧
      (pre = [] ∨ ∃ q, pre = q ++ ['\n']) := by
  obtain ⟨pre, hp, hq⟩ := last_line_split (t.take i)
  refine ⟨pre, ((t.take i).reverse.takeWhile notNl).reverse, hp, ?_, ?_, hq⟩
  · unfold lineStart
    have := congrArg List.length hp
    simp at this
    simp
    omega
  · intro hm
    simp at hm
    exact nl_not_mem_takeWhile _ hm

theorem take_of_take_prefix {α : Type} (t : List α) (i : Nat) (pre lb : List α)
    (h : t.take i = pre ++ lb) : t.take pre.length = pre := by
  have : (t.take i).take pre.length = pre := by rw [h]; simp
  rw [List.take_take] at this
  have hl : pre.length ≤ i := by
    have := congrArg List.length h
    simp at this; omega
  rwa [Nat.min_eq_left hl] at this

theorem lineStart_idem (t : Text) (i : Nat) : lineStart t (lineStart t i) = lineStart t i := by
  obtain ⟨pre, lb, h1, h2, _, h4⟩ := lineStart_spec t i
  have hpre := take_of_take_prefix t i pre lb h1
  rw [← h2]
  unfold lineStart
  rw [hpre]
  rcases h4 with h | ⟨q, h⟩
  · simp [h]
  · rw [h]; simp [notNl]

theorem lineStart_is_line_start (t : Text) (i : Nat) :
    lineStart t i = 0 ∨ t[lineStart t i - 1]? = some '\n' := by
  obtain ⟨pre, lb, h1, h2, _, h4⟩ := lineStart_spec t i
  have hpre := take_of_take_prefix t i pre lb h1
  rcases h4 with h | ⟨q, h⟩
  · left; rw [← h2, h]; rfl
  · right
    rw [← h2]
    have : (t.take pre.length)[pre.length - 1]? = some '\n' := by
      rw [hpre, h]; simp
    rw [List.getElem?_take] at this
    split at this
    · exact this
    · simp at this

theorem lineStart_no_nl (t : Text) (i : Nat) : '\n' ∉ (t.take i).drop (lineStart t i) := by
  obtain ⟨pre, lb, h1, h2, h3, _⟩ := lineStart_spec t i
  rw [h1, ← h2]; simpa using h3


theorem drop_takeWhile_length {α : Type} (p : α → Bool) (l : List α) :
    l.drop (l.takeWhile p).length = l.dropWhile p := by
  induction l with
  | nil => simp
  | cons x xs ih =>
    rw [List.takeWhile_cons, List.dropWhile_cons]
    split <;> simp [ih]

theorem lineEnd_spec (t : Text) (i : Nat) (h : i ≤ t.length) :
    ∃ la rest, t.drop i = la ++ rest ∧ lineEnd t i = i + la.length ∧ '\n' ∉ la ∧
      t.drop (lineEnd t i) = rest ∧ (rest = [] ∨ ∃ r, rest = '\n' :: r) := by
  refine ⟨(t.drop i).takeWhile notNl, (t.drop i).dropWhile notNl,
    (List.takeWhile_append_dropWhile).symm, ?_, nl_not_mem_takeWhile _, ?_, dropWhile_notNl_head _⟩
  · unfold lineEnd; rw [Nat.min_eq_left h]
  · have e : lineEnd t i = i + ((t.drop i).takeWhile notNl).length := by
      unfold lineEnd; rw [Nat.min_eq_left h]
    have : t.drop (i + ((t.drop i).takeWhile notNl).length)
        = (t.drop i).drop ((t.drop i).takeWhile notNl).length := by simp [List.drop_drop]
    rw [e, this, drop_takeWhile_length]

theorem lineEnd_no_nl (t : Text) (i : Nat) (h : i ≤ t.length) :
    '\n' ∉ (t.take (lineEnd t i)).drop i := by
  obtain ⟨la, rest, h1, h2, h3, _, _⟩ := lineEnd_spec t i h
  have : (t.take (lineEnd t i)).drop i = la := by
    rw [h2, List.drop_take]
    have : i + la.length - i = la.length := by omega
    rw [this, h1]; simp
  rw [this]; exact h3

/-- linewise cut: whole lines `text[a:b)` are removed (`a` a line start, `b` behind a newline or
    the end of the text), the register gets them without the final newline, type LINES -/
theorem cut_linewise (d : Doc) (o : TextObject) (h : InRange d o) (ht : o.type = .linewise) :
    ∃ a b : Nat, a ≤ b ∧ b ≤ d.text.length ∧
      (a : Int) ≤ d.cur + o.sorted.1 ∧ (d.cur : Int) + o.sorted.2 ≤ b ∧
      (a = 0 ∨ d.text[a - 1]? = some '\n') ∧ (b = d.text.length ∨ d.text[b - 1]? = some '\n') ∧
      '\n' ∉ (d.text.take ((d.cur : Int) + o.sorted.1).toNat).drop a ∧
      '\n' ∉ (d.text.take (b - 1)).drop ((d.cur : Int) + o.sorted.2).toNat ∧
      cut d o = some ({ text := d.text.take a ++ d.text.drop b, cur := a },
                      { text := stripNl ((d.text.take b).drop a), lines := true }) := by
  have hs := sorted_le o
  obtain ⟨h1, h2⟩ := sorted_inrange d o h
  -- absolute ends of the motion
  generalize hi : (o.sorted.1 + (d.cur : Int)).toNat = i
  generalize hj : (o.sorted.2 + (d.cur : Int)).toNat = j
  have hij : i ≤ j := by omega
  have hjl : j ≤ d.text.length := by omega
  have ei : ((d.cur : Int) + o.sorted.1).toNat = i := by rw [← hi]; congr 1; omega
  have ej : ((d.cur : Int) + o.sorted.2).toNat = j := by rw [← hj]; congr 1; omega
  obtain ⟨la, rest, e1, e2, e3, e4, e5⟩ := lineEnd_spec d.text j hjl
  have ls := lineStart_le d.text i
  have le1 := lineEnd_le d.text j
  have le2 := lineEnd_ge d.text j hjl
  -- the operator range
  have hr : operatorRange d o = ((lineStart d.text i : Int) - d.cur, (lineEnd d.text j : Int) - d.cur) := by
    unfold operatorRange
    rw [ht]
    simp only [lineStartI, lineEndI]
    have ha : ¬ (o.sorted.1 + (d.cur : Int) < 0) := by omega
    have hb : ¬ (o.sorted.2 + (d.cur : Int) < 0) := by omega
    rw [if_neg ha, if_neg hb, hi, hj]
  -- the end of the cut
  let b := if rest = [] then d.text.length else lineEnd d.text j + 1
  have hsel : selRange d.text (lineStart d.text i) (lineEnd d.text j) true = (lineStart d.text i, b) := by
    unfold selRange
    simp only [if_true, lineStart_idem, e4]
    rcases e5 with hr0 | ⟨r, hr0⟩
    · simp [b, hr0, findChar?]
    · simp [b, hr0, findChar?]
  have hb1 : lineEnd d.text j ≤ b ∧ b ≤ d.text.length := by
    rcases e5 with hr0 | ⟨r, hr0⟩
    · simp [b, hr0]; exact le1
    · simp only [b, hr0]
      have : (d.text.drop (lineEnd d.text j)).length = (('\n' :: r) : Text).length := by rw [e4, hr0]
      simp at this
      simp; omega
  refine ⟨lineStart d.text i, b, by omega, hb1.2, by omega, by omega, lineStart_is_line_start _ _, ?_, ?_, ?_, ?_⟩
  · rcases e5 with hr0 | ⟨r, hr0⟩
    · left; simp [b, hr0]
    · right
      simp only [b, hr0]
      have : d.text[lineEnd d.text j]? = some '\n' := by
        have := congrArg List.head? e4
        rw [hr0] at this
        simpa [List.head?_drop] using this
      simpa using this
  · rw [ei]; exact lineStart_no_nl _ _
  · rw [ej]
    have hsub : ∀ c, c ∈ (d.text.take (b - 1)).drop j → c ∈ (d.text.take (lineEnd d.text j)).drop j := by
      intro c hc
      have hle : b - 1 ≤ lineEnd d.text j := by
        rcases e5 with hr0 | ⟨r, hr0⟩
        · simp only [b, hr0, if_true]
          have : (d.text.drop (lineEnd d.text j)).length = 0 := by rw [e4, hr0]; rfl
          simp at this; omega
        · simp [b, hr0]
      have : (d.text.take (b - 1)) = (d.text.take (lineEnd d.text j)).take (b - 1) := by
        rw [List.take_take, Nat.min_eq_left hle]
      rw [this] at hc
      rw [List.drop_take] at hc
      exact List.mem_of_mem_take hc
    intro hm
    exact lineEnd_no_nl d.text j hjl (hsub _ hm)
  · unfold cut
    rw [hr, ht]
    simp only [beq_self_eq_true, Bool.not_true, Bool.false_and, Bool.false_eq_true, if_false, if_true]
    have hdom : ¬ ((lineStart d.text i : Int) - d.cur + d.cur < 0 ∨ (lineEnd d.text j : Int) - d.cur + d.cur < 0 ∨
        (lineEnd d.text j : Int) - d.cur + d.cur > d.text.length) := by omega
    rw [if_neg hdom]
    have x1 : ((lineStart d.text i : Int) - d.cur + d.cur).toNat = lineStart d.text i := by omega
    have x2 : ((lineEnd d.text j : Int) - d.cur + d.cur).toNat = lineEnd d.text j := by omega
    rw [x1, x2]
    have m1 : min (lineEnd d.text j) (lineStart d.text i) = lineStart d.text i := by omega
    have m2 : max (lineEnd d.text j) (lineStart d.text i) = lineEnd d.text j := by omega
    simp only [cutSelection, m1, m2, hsel]
    simp


/-! ### registers -/

theorem regGet_regSet_same (rs : List (Char × Clip)) (n : Char) (v : Clip) :
    regGet (regSet rs n v) n = some v := by
  simp [regGet, regSet]

theorem find_filter_other (rs : List (Char × Clip)) (n m : Char) (h : m ≠ n) :
    (rs.filter (fun p => p.1 != n)).find? (fun p => p.1 == m) = rs.find? (fun p => p.1 == m) := by
  induction rs with
  | nil => rfl
  | cons p ps ih =>
    rw [List.filter_cons]
    by_cases hp : p.1 = n
    · have hpm : (p.1 == m) = false := by
        rw [hp]; exact beq_false_of_ne (fun e => h e.symm)
      have hpn : (p.1 != n) = false := by rw [hp]; simp
      rw [hpn, List.find?_cons, hpm]
      simpa using ih
    · have hpn : (p.1 != n) = true := by simpa using hp
      rw [hpn]
      simp only [if_true]
      rw [List.find?_cons, List.find?_cons, ih]

theorem regGet_regSet_other (rs : List (Char × Clip)) (n m : Char) (v : Clip) (h : m ≠ n) :
    regGet (regSet rs n v) m = regGet rs m := by
  unfold regGet regSet
  have h1 : ((n, v).1 == m) = false := beq_false_of_ne (fun e => h e.symm)
  rw [List.find?_cons, h1, find_filter_other rs n m h]

/-- what `store` does: the unnamed register (clipboard) or exactly the named register receives
    the data; empty non-LINES data is not stored; other registers are untouched -/
theorem store_spec (s : St) (reg : Option Char) (c : Clip) :
    (c.text = [] ∧ c.lines = false → store s reg c = s) ∧
    (¬ (c.text = [] ∧ c.lines = false) →
      match reg with
      | none => (store s none c).clip = c ∧ (store s none c).regs = s.regs
      | some r =>
        (store s (some r) c).clip = s.clip ∧
        (isRegName r = true → regGet (store s (some r) c).regs r = some c ∧
            ∀ m, m ≠ r → regGet (store s (some r) c).regs m = regGet s.regs m) ∧
        (isRegName r = false → (store s (some r) c).regs = s.regs)) := by
  constructor
  · intro ⟨h1, h2⟩; simp [store, h1, h2]
  · intro hne
    have hcond : (c.text.isEmpty && !c.lines) = false := by
      cases hl : c.lines <;> cases ht : c.text <;> simp_all
    cases reg with
    | none => simp [store, hcond]
    | some r =>
      simp only [store, hcond]
      refine ⟨by cases isRegName r <;> simp, ?_, ?_⟩
      · intro hr; simp [hr]
        exact ⟨regGet_regSet_same _ _ _, fun m hm => regGet_regSet_other _ _ _ _ hm⟩
      · intro hr; simp [hr]

/-- `d` / `c`: the buffer becomes the cut document, the cut data goes through `store`,
    `c` additionally enters insert mode -/
theorem delete_spec (s s' : St) (o : TextObject) (reg : Option Char) (change : Bool)
    (h : opDelete s o reg change = some s') :
    ∃ d' c, cut s.doc o = some (d', c) ∧ s'.text = d'.text ∧ s'.cur = d'.cur ∧
      s'.insert = (s.insert || change) ∧
      s'.clip = (store { s with text := d'.text, cur := d'.cur } reg c).clip ∧
      s'.regs = (store { s with text := d'.text, cur := d'.cur } reg c).regs := by
  unfold opDelete at h
  split at h
  · simp at h
  · rename_i d' c hc
    simp at h; subst h
    refine ⟨d', c, hc, ?_, ?_, ?_, rfl, rfl⟩
    · exact (store_text _ _ _).1
    · exact (store_text _ _ _).2.1
    · simp [(store_text _ _ _).2.2]

/-- characterwise `d<motion>` into the clipboard: one contiguous span `[a, b)` containing or
    touching the cursor side of the motion is removed, the clipboard holds exactly the removed
    characters, and re-inserting the clipboard at the new cursor restores the old text -/
theorem delete_charwise_exact (s s' : St) (o : TextObject) (change : Bool)
    (hr : InRange s.doc o) (ht : o.type ≠ .linewise)
    (hne : (operatorRange s.doc o).1 < (operatorRange s.doc o).2)
    (hin : (s.cur : Int) + (operatorRange s.doc o).1 < s.text.length)
    (h : opDelete s o none change = some s') :
    ∃ a b : Nat, (a : Int) = s.cur + (operatorRange s.doc o).1 ∧ (b : Int) = s.cur + (operatorRange s.doc o).2 ∧
      a < b ∧ s'.text = s.text.take a ++ s.text.drop b ∧ s'.cur = a ∧
      s'.clip = { text := (s.text.take b).drop a, lines := false } ∧ s'.regs = s.regs ∧
      s.text = s'.text.take s'.cur ++ s'.clip.text ++ s'.text.drop s'.cur := by
  obtain ⟨a, b, ha, hb, hab, hcut⟩ := cut_charwise s.doc o hr ht hne
  obtain ⟨d', c, hc, e1, e2, _, e4, e5⟩ := delete_spec s s' o none change h
  rw [hcut] at hc
  simp at hc
  obtain ⟨hd, hcl⟩ := hc
  subst hd; subst hcl
  have hd1 : s.doc.cur = s.cur := rfl
  have hd2 : s.doc.text = s.text := rfl
  rw [hd1] at ha hb
  have hal : a < s.text.length := by omega
  have hnonempty : ¬ ((({ text := (s.doc.text.take b).drop a, lines := false } : Clip).text = []) ∧
      ({ text := (s.doc.text.take b).drop a, lines := false } : Clip).lines = false) := by
    simp [hd2]
    omega
  have hs := (store_spec { s with text := (s.doc.text.take a ++ s.doc.text.drop b), cur := a } none
      { text := (s.doc.text.take b).drop a, lines := false }).2 hnonempty
  simp only [] at hs
  refine ⟨a, b, ha, hb, hab, e1, e2, ?_, ?_, ?_⟩
  · rw [e4]; exact hs.1
  · rw [e5]; exact hs.2
  · rw [e4, hs.1, e1, e2]
    simp only [hd2]
    have hl : (s.text.take a).length = a := by simp; omega
    rw [List.take_left' hl, List.drop_left' hl]
    exact (slice_partition s.text a b (by omega)).symm


theorem stripNl_spec (x : Text) : ∃ nl : Text, (nl = [] ∨ nl = ['\n']) ∧ stripNl x ++ nl = x := by
  unfold stripNl
  split
  · rename_i h
    obtain ⟨ys, hy⟩ := List.getLast?_eq_some_iff.1 h
    exact ⟨['\n'], Or.inr rfl, by rw [hy]; simp⟩
  · exact ⟨[], Or.inl rfl, by simp⟩

/-- linewise `d<motion>` into the clipboard: whole lines `[a, b)` are removed, the clipboard
    (type LINES) holds them without the final newline, and re-inserting restores the text -/
theorem delete_linewise_exact (s s' : St) (o : TextObject) (change : Bool)
    (hr : InRange s.doc o) (ht : o.type = .linewise)
    (h : opDelete s o none change = some s') :
    ∃ a b : Nat, a ≤ b ∧ b ≤ s.text.length ∧
      (a : Int) ≤ s.cur + o.sorted.1 ∧ (s.cur : Int) + o.sorted.2 ≤ b ∧
      (a = 0 ∨ s.text[a - 1]? = some '\n') ∧ (b = s.text.length ∨ s.text[b - 1]? = some '\n') ∧
      s'.text = s.text.take a ++ s.text.drop b ∧ s'.cur = a ∧
      s'.clip = { text := stripNl ((s.text.take b).drop a), lines := true } ∧ s'.regs = s.regs ∧
      ∃ nl : Text, (nl = [] ∨ nl = ['\n']) ∧
        s.text = s'.text.take s'.cur ++ (s'.clip.text ++ nl) ++ s'.text.drop s'.cur := by
  obtain ⟨a, b, hab, hbl, c1, c2, c3, c4, _, _, hcut⟩ := cut_linewise s.doc o hr ht
  obtain ⟨d', c, hc, e1, e2, _, e4, e5⟩ := delete_spec s s' o none change h
  rw [hcut] at hc
  simp at hc
  obtain ⟨hd, hcl⟩ := hc
  subst hd; subst hcl
  have hd1 : s.doc.cur = s.cur := rfl
  have hd2 : s.doc.text = s.text := rfl
  rw [hd1] at c1 c2
  rw [hd2] at hbl c3 c4
  have hnonempty : ¬ ((({ text := stripNl ((s.doc.text.take b).drop a), lines := true } : Clip).text = []) ∧
      ({ text := stripNl ((s.doc.text.take b).drop a), lines := true } : Clip).lines = false) := by
    simp
  have hs := (store_spec { s with text := (s.doc.text.take a ++ s.doc.text.drop b), cur := a } none
      { text := stripNl ((s.doc.text.take b).drop a), lines := true }).2 hnonempty
  simp only [] at hs
  obtain ⟨nl, hnl, hstrip⟩ := stripNl_spec ((s.text.take b).drop a)
  refine ⟨a, b, hab, hbl, c1, c2, c3, c4, e1, e2, ?_, ?_, nl, hnl, ?_⟩
  · rw [e4]; exact hs.1
  · rw [e5]; exact hs.2
  · rw [e4, hs.1, e1, e2]
    simp only [hd2]
    have hl : (s.text.take a).length = a := by simp; omega
    rw [List.take_left' hl, List.drop_left' hl, hstrip]
    exact (slice_partition s.text a b hab).symm

/-- case operators: only `text[a:b)` is replaced (by its image under the callback); clipboard
    and registers are untouched -/
theorem transform_frame (f : Text → Text) (s s' : St) (o : TextObject)
    (hr : InRange s.doc o) (h : opTransform f s o = some s') :
    s'.clip = s.clip ∧ s'.regs = s.regs ∧ s'.insert = s.insert ∧
    ((operatorRange s.doc o).1 ≥ (operatorRange s.doc o).2 → s' = s) ∧
    ((operatorRange s.doc o).1 < (operatorRange s.doc o).2 →
      ∃ a b : Nat, (a : Int) = s.cur + (operatorRange s.doc o).1 ∧
        (b : Int) = s.cur + (operatorRange s.doc o).2 ∧ a < b ∧
        s'.text = s.text.take a ++ f ((s.text.take b).drop a) ++ s.text.drop b) := by
  obtain ⟨b1, b2, b3⟩ := operatorRange_bounds s.doc o hr
  have hd1 : s.doc.cur = s.cur := rfl
  rw [hd1] at b1 b3
  by_cases hlt : (operatorRange s.doc o).1 < (operatorRange s.doc o).2
  · have hnn : ¬ ((operatorRange s.doc o).1 + (s.cur : Int) < 0) := by omega
    simp only [opTransform, hlt, if_true, hnn, if_false] at h
    simp at h; subst h
    refine ⟨rfl, rfl, rfl, fun hge => absurd hlt (by omega), fun _ => ?_⟩
    refine ⟨((operatorRange s.doc o).1 + (s.cur : Int)).toNat, ((operatorRange s.doc o).2 + (s.cur : Int)).toNat,
      by omega, by omega, by omega, by simp⟩
  · simp only [opTransform, hlt, if_false] at h
    simp at h; subst h
    exact ⟨rfl, rfl, rfl, fun _ => rfl, fun hlt' => absurd hlt' hlt⟩

end Ptk.C08
