/-
  C06 — the height the renderer asks the layout for, cursor position reports, and resizes
  (`Renderer.render` height computation, `request_absolute_cursor_position`, `report_absolute_cursor_row`,
  `height_is_known`, `rows_above_layout`; `_last_size` change → full repaint).

    layoutHeight_le, layoutHeight_inline, layoutHeight_unknown
    reportCpr_truthful, fit_of_cpr, rowsAbove_truthful      a truthful cursor position report makes the drawn rows fit
    prevFor_resized, render_after_resize, erase_after_resize, render_seq_geo_resize
                                                            correct repaint, no scroll, across a resize
-/
import Ptk.Props.C06Full
namespace Ptk.C06
open Ptk.Py

variable (cw : Char → Nat)

/-! ### the height handed to the layout; cursor position reports -/

theorem lastHeight_eq (F : RFull) : F.lastHeight = prevHeight F.lastScreen := by
  unfold RFull.lastHeight prevHeight; cases F.lastScreen <;> rfl

/-- the layout is never asked for more rows than the terminal has -/
theorem layoutHeight_le (F : RFull) (fs : Bool) (a : AppSt) (isDone : Bool) (pref : Nat) :
    F.layoutHeight fs a isDone pref ≤ a.h := by
  unfold RFull.layoutHeight
  simp only []
  omega

/-- inline mode, not `done`: `max(_min_available_height, last height, preferred)` clipped to the terminal -/
theorem layoutHeight_inline (F : RFull) (a : AppSt) (pref : Nat) (m : Nat) (hm : F.minAvail = (m : Int)) :
    F.layoutHeight false a false pref = min (max (max m (F.lastHeight)) pref) a.h := by
  unfold RFull.layoutHeight
  simp only [Bool.false_eq_true, if_false, hm]
  have : min (max (max (m : Int) (F.lastHeight : Int)) (pref : Int)) (a.h : Int) =
      ((min (max (max m (F.lastHeight)) pref) a.h : Nat) : Int) := by omega
  rw [this, Int.toNat_natCast]

/-- a TRUTHFUL cursor position report (the request is made with the cursor on the origin row, which is row
    `T.top + 1` of a terminal with `rows` rows, counted from 1) makes `_min_available_height` the number of rows
    from the origin to the bottom of the terminal -/
theorem reportCpr_truthful (F : RFull) (rows : Nat) (T : Term) (htot : T.top + T.h = rows) :
    (F.reportCpr rows ((T.top : Int) + 1)).minAvail = (T.h : Int) := by
  simp only [RFull.reportCpr]
  omega

/-- the report touches neither the dictionaries nor anything the differ reads -/
theorem reportCpr_core (F : RFull) (rows : Nat) (row : Int) :
    (F.reportCpr rows row).toCore = F.toCore ∧ (F.reportCpr rows row).attrsCache = F.attrsCache ∧
    (F.reportCpr rows row).hasCache = F.hasCache := ⟨rfl, rfl, rfl⟩

/-- **fit_of_cpr** — once the terminal has truthfully answered the cursor position request
    (`_min_available_height` = rows from the origin to the bottom), a layout that respects the height it is given
    and whose preferred height fits draws a screen that fits below the origin: the side condition "the drawn rows
    fit between the origin and the bottom of the terminal" of the differ theorems (`OpOk`) holds — the renderer
    neither scrolls nor writes outside its rows because of its own height computation. -/
theorem fit_of_cpr (F : RFull) (a : AppSt) (T : Term) (s : Screen) (pref : Nat)
    (hm : F.minAvail = (T.h : Int)) (hlast : F.lastHeight ≤ T.h) (hpref : pref ≤ T.h)
    (hlay : s.height ≤ F.layoutHeight false a false pref) :
    min (max s.height (prevHeight F.toCore.lastScreen)) a.h ≤ T.h := by
  have h1 := layoutHeight_inline F a pref T.h hm
  have h2 : prevHeight F.toCore.lastScreen = F.lastHeight := (lastHeight_eq F).symm
  rw [h2]
  omega

/-- … and without an answer (`_min_available_height = 0`) the renderer asks for `max(last height, preferred)`
    rows: whether that fits is not in its hands (it then scrolls on purpose) -/
theorem layoutHeight_unknown (F : RFull) (a : AppSt) (pref : Nat) (hm : F.minAvail = 0) :
    F.layoutHeight false a false pref = min (max (F.lastHeight) pref) a.h := by
  have := layoutHeight_inline F a pref 0 (by simpa using hm)
  rw [this]; omega

/-- `rows_above_layout` after a truthful report: the rows above the origin -/
theorem rowsAbove_truthful (F : RFull) (rows : Nat) (T : Term) (htot : T.top + T.h = rows) (hh : 0 < T.h)
    (halt : F.inAlt = false) (hm : F.minAvail = (T.h : Int)) (hlast : F.lastHeight ≤ T.h) :
    F.rowsAboveLayout rows = some (T.top : Int) := by
  unfold RFull.rowsAboveLayout
  simp only [halt, Bool.false_eq_true, if_false, hm]
  have : (0 : Int) < (T.h : Int) := by omega
  simp only [this, if_true]
  congr 1
  omega

/-- `height_is_known` after a report with a positive number of rows -/
theorem heightKnown_of_report (F : RFull) (fs : Bool) (hm : 0 < F.minAvail) : F.heightIsKnown fs = true := by
  simp [RFull.heightIsKnown, hm]

/-! ### resize -/

/-- after a resize the previous screen is not used: the next render repaints -/
theorem prevFor_resized (F : RFull) (a : AppSt) (h : F.lastSize ≠ some (a.h, a.w)) : F.prevFor a = none := by
  unfold RFull.prevFor
  simp only []
  have : (F.lastSize != some (a.h, a.w)) = true := by simpa using h
  simp [this]

/-- a render whose `previous_screen` argument is `None` does not depend on `_last_screen` -/
theorem render_forget (e : Env) (R : RState) (s : Screen) (isDone m : Bool) (k sh : Nat)
    (h : R.prevFor e k = none) :
    R.render e s isDone m k sh = ({ R with lastScreen := none } : RState).render e s isDone m k sh := by
  have h0 : ({ R with lastScreen := none } : RState).prevFor e k = none := by
    unfold RState.prevFor; split
    · rfl
    · split <;> rfl
  unfold RState.render
  simp only [h, h0]
  rfl

/-- **render_after_resize** — the first render after the terminal was resized (`_last_size` differs): whatever
    the terminal shows after the resize, as long as its cursor is where the renderer believes (`RGeo` at the new
    size: terminals keep the cursor on its character), the render repaints and afterwards the terminal shows the
    screen, the renderer invariant holds at the new size, nothing scrolled. -/
theorem render_after_resize (e : Env) (h1 : cw ' ' = 1) (R : RState) (T : Term) (s : Screen) (m : Bool)
    (k d sh : Nat) (hdef : EnvOk (envFor e k d)) (hsz : R.lastSize ≠ some (e.h, e.w)) (geo : RGeo e R T)
    (ok : OpOk cw e ({ R with lastScreen := none } : RState) T (.render s m k d sh)) :
    RInv e (stepR cw e R T (.render s m k d sh)).1 (stepR cw e R T (.render s m k d sh)).2 ∧
    Rendered (envFor e k d) (stepR cw e R T (.render s m k d sh)).2 s := by
  have hp : R.prevFor (envFor e k d) k = none := by
    unfold RState.prevFor
    split
    · rfl
    · have : (R.lastSize != some ((envFor e k d).h, (envFor e k d).w)) = true := by
        simp only [envFor_h, envFor_w]; simpa using hsz
      rw [if_pos this]
  have inv0 : RInv e ({ R with lastScreen := none } : RState) T :=
    ⟨geo.w, geo.wpos, geo.row, geo.col, geo.posx, geo.rowlt, geo.tot, geo.sgr, geo.last,
     (fun _ h => by cases h), (fun ps h => by cases h)⟩
  have hstep : stepR cw e R T (.render s m k d sh) =
      stepR cw e ({ R with lastScreen := none } : RState) T (.render s m k d sh) := by
    simp only [stepR, render_forget (envFor e k d) R s false m k sh hp]
  rw [hstep]
  exact render_step cw e _ T s m k d sh h1 hdef inv0 ok

/-- the application's reaction to a resize (`Application._on_resize`: `renderer.erase(leave_alternate_screen=False)`,
    then redraw): whatever the terminal shows after the resize, with the cursor where the renderer believes,
    `erase` re-establishes the full renderer invariant at the NEW size — from there `render_seq_full`,
    `incremental_eq_scratch_full`, … apply again -/
theorem erase_after_resize (wd : World) (fs : Bool) (st : FSt) (w' h' : Nat) (T' : Term) (la : Bool)
    (geo : RGeo (wd.base w' h' fs) st.r.toCore T') (finv : FInv wd st.r) :
    RInv (wd.base w' h' fs) (stepFT cw wd fs (stepF wd fs st (.resize w' h')).1 T' (.erase la)).1.r.toCore
      (stepFT cw wd fs (stepF wd fs st (.resize w' h')).1 T' (.erase la)).2 ∧
    FInv wd (stepFT cw wd fs (stepF wd fs st (.resize w' h')).1 T' (.erase la)).1.r ∧
    (stepFT cw wd fs (stepF wd fs st (.resize w' h')).1 T' (.erase la)).1.app.w = w' ∧
    (stepFT cw wd fs (stepF wd fs st (.resize w' h')).1 T' (.erase la)).1.app.h = h' ∧
    (stepFT cw wd fs (stepF wd fs st (.resize w' h')).1 T' (.erase la)).2.scrolled = T'.scrolled ∧
    (stepFT cw wd fs (stepF wd fs st (.resize w' h')).1 T' (.erase la)).2.oob = T'.oob := by
  have inv0 : RInv (wd.base w' h' fs) ({ st.r.toCore with lastScreen := none } : RState) T' :=
    ⟨geo.w, geo.wpos, geo.row, geo.col, geo.posx, geo.rowlt, geo.tot, geo.sgr, geo.last,
     (fun _ h => by cases h), (fun ps h => by cases h)⟩
  obtain ⟨e1, _, _, e4, e5⟩ := erase_step cw (wd.base w' h' fs) _ T' la inv0
  have hT : (stepFT cw wd fs (stepF wd fs st (.resize w' h')).1 T' (.erase la)).2 =
      (stepR cw (wd.base w' h' fs) ({ st.r.toCore with lastScreen := none } : RState) T' (.erase la)).2 := by
    simp only [stepFT, stepF, stepR, RFull.erase, RState.erase, RFull.reset, RState.reset, RFull.toCore]
    rfl
  have hR : (stepFT cw wd fs (stepF wd fs st (.resize w' h')).1 T' (.erase la)).1.r.toCore =
      (stepR cw (wd.base w' h' fs) ({ st.r.toCore with lastScreen := none } : RState) T' (.erase la)).1 := by
    simp [stepFT, stepF, stepR, RFull.erase, RState.erase, RFull.reset, RState.reset, RFull.toCore]
  rw [hT, hR]
  exact ⟨e1, erase_inv wd st.r la finv, rfl, rfl, e4, e5⟩

/-- **render_seq_geo_resize** — "never scrolls, never moves past the margins" ACROSS a resize: a session at size
    `w × h`, then the terminal is resized to `w' × h'` and looks like `T'` (anything, with the cursor where the
    renderer believes), then a session at the new size. -/
theorem render_seq_geo_resize (wd : World) (fs : Bool) (w h w' h' : Nat) (ops1 ops2 : List FOp) (st : FSt)
    (T T' : Term) (inv : RGeo (wd.base w h fs) st.r.toCore T) (finv : FInv wd st.r) (hw : st.app.w = w)
    (hh : st.app.h = h) (ok1 : RunOkF cw (OpOkW cw (wd.base w h fs)) wd fs st T ops1)
    (geo' : RGeo (wd.base w' h' fs) (runFT cw wd fs st T ops1).1.r.toCore T')
    (ok2 : RunOkF cw (OpOkW cw (wd.base w' h' fs)) wd fs
      (stepF wd fs (runFT cw wd fs st T ops1).1 (.resize w' h')).1 T' ops2) :
    (runFT cw wd fs st T ops1).2.scrolled = T.scrolled ∧ (runFT cw wd fs st T ops1).2.oob = T.oob ∧
    (runFT cw wd fs (stepF wd fs (runFT cw wd fs st T ops1).1 (.resize w' h')).1 T' ops2).2.scrolled = T'.scrolled ∧
    (runFT cw wd fs (stepF wd fs (runFT cw wd fs st T ops1).1 (.resize w' h')).1 T' ops2).2.oob = T'.oob := by
  obtain ⟨_, a2, a3⟩ := render_seq_geo_full cw wd fs w h ops1 st T inv finv hw hh ok1
  have finv1 : FInv wd (runFT cw wd fs st T ops1).1.r := by
    rw [runFT_fst]; exact cache_consistent wd fs ops1 st finv
  obtain ⟨_, b2, b3⟩ := render_seq_geo_full cw wd fs w' h' ops2
    (stepF wd fs (runFT cw wd fs st T ops1).1 (.resize w' h')).1 T' geo' finv1 rfl rfl ok2
  exact ⟨a2, a3, b2, b3⟩


/-! ### a reset forgets the cursor position report -/

/-- `_min_available_height` is either forgotten (0) or the number of rows from the origin to the bottom of the
    terminal the renderer is drawing on -/
def MinOk (F : RFull) (T : Term) : Prop := F.minAvail = 0 ∨ F.minAvail = (T.h : Int)

/-- `reset()` — hence `erase()`, `clear()` before its new request, and the `done` render — forgets the report:
    whatever the terminal looks like afterwards (other output may have moved the cursor down), `MinOk` holds -/
theorem minOk_reset (F : RFull) (sc la : Bool) (T' : Term) : MinOk (F.reset sc la).1 T' := Or.inl rfl

theorem minOk_erase (F : RFull) (la : Bool) (T' : Term) : MinOk (F.erase la).1 T' := Or.inl rfl

theorem minOk_finish (wd : World) (fs : Bool) (F : RFull) (a : AppSt) (s : Screen) (pref : Nat) (T' : Term) :
    MinOk (F.render wd fs a s true pref).st T' := by
  unfold RFull.render
  simp only [if_true]
  exact Or.inl rfl

/-- a render that is not `done` keeps `_min_available_height` -/
theorem render_minAvail (wd : World) (fs : Bool) (F : RFull) (a : AppSt) (s : Screen) (pref : Nat) :
    (F.render wd fs a s false pref).st.minAvail = F.minAvail := by
  unfold RFull.render
  simp only [Bool.false_eq_true, if_false]
  rfl

theorem minOk_report (F : RFull) (rows : Nat) (T : Term) (htot : T.top + T.h = rows) :
    MinOk (F.reportCpr rows ((T.top : Int) + 1)) T := Or.inr (reportCpr_truthful F rows T htot)

/-- **fit_of_minOk** — in every state of a session in which `_min_available_height` is either forgotten or a
    truthful report for the terminal the renderer now draws on (`MinOk`: established by every reset / erase / done
    render and by every truthful report), a layout that respects the height it is given and whose preferred
    height and previous height fit draws a screen that fits below the origin: no scroll, no write outside the
    owned rows caused by the height computation — in particular after `erase()` + foreign output that moved
    the cursor down + a render before the next report. -/
theorem fit_of_minOk (F : RFull) (a : AppSt) (T : Term) (s : Screen) (pref : Nat) (hm : MinOk F T)
    (hlast : F.lastHeight ≤ T.h) (hpref : pref ≤ T.h)
    (hlay : s.height ≤ F.layoutHeight false a false pref) :
    min (max s.height (prevHeight F.toCore.lastScreen)) a.h ≤ T.h := by
  rcases hm with h0 | hT
  · have h1 := layoutHeight_unknown F a pref h0
    have h2 : prevHeight F.toCore.lastScreen = F.lastHeight := (lastHeight_eq F).symm
    rw [h2]; omega
  · exact fit_of_cpr F a T s pref hT hlast hpref hlay

/-- the same, spelled out for the scenario: a truthful report, renders, then `erase()`; other output moves the
    cursor down (`T'` is ANY terminal); the next render happens before a new report -/
theorem fit_after_erase (F : RFull) (la : Bool) (a : AppSt) (T' : Term) (s : Screen) (pref : Nat)
    (hpref : pref ≤ T'.h) (hlay : s.height ≤ (F.erase la).1.layoutHeight false a false pref) :
    min (max s.height (prevHeight (F.erase la).1.toCore.lastScreen)) a.h ≤ T'.h :=
  fit_of_minOk (F.erase la).1 a T' s pref (minOk_erase F la T') (by show 0 ≤ T'.h; omega) hpref hlay

section ExamplesResize

/-- a terminal of 5 rows whose origin is on row 2 (three rows are available), the renderer has been told so -/
def exTop : Term := Term.fresh 4 3 2 (fun _ _ => TCell.blank)
def exFcpr : RFull := (RFull.init true).1.reportCpr 5 ((exTop.top : Int) + 1)
def exApp5 : AppSt := ⟨4, 5, 0, 0, 8, false, 0⟩
def exS33 : Screen := ⟨[[⟨['a'], 0, 1⟩], [], [⟨['c'], 0, 1⟩]], [], 3, ⟨0, 0⟩, true⟩

/-- `reportCpr_truthful` / `fit_of_cpr` are not vacuous: the layout is asked for exactly the three available
    rows, and a screen of that height fits -/
example : exFcpr.minAvail = 3 ∧ exFcpr.layoutHeight false exApp5 false 2 = 3 ∧
    exFcpr.rowsAboveLayout 5 = some 2 ∧ exFcpr.heightIsKnown false = true ∧
    (RFull.init true).1.heightIsKnown false = false := by decide

example : min (max exS33.height (prevHeight exFcpr.toCore.lastScreen)) exApp5.h ≤ exTop.h :=
  fit_of_cpr exFcpr exApp5 exTop exS33 2 (reportCpr_truthful _ 5 exTop rfl) (by decide) (by decide) (by decide)

/-- the renderer drew `exS1` on a 3 × 3 terminal; the terminal becomes 2 columns × 4 rows and shows junk, the
    cursor still on the renderer's position -/
def exRold : RState := (exR0.render exEnv exS1 false false 0 0).1
def exEnvNew : Env := { exEnv with w := 4, h := 4 }
def exTnew : Term := { Term.fresh 4 4 0 (fun _ _ => ⟨['#'], Attrs.dflt⟩) with col := 2, autowrap := true }

/-- `render_after_resize` is not vacuous -/
example : Rendered (envFor exEnvNew 0 8) (stepR cw1 exEnvNew exRold exTnew (.render exS2 false 0 8 0)).2 exS2 :=
  (render_after_resize cw1 exEnvNew rfl exRold exTnew exS2 false 0 8 0
    ⟨rfl, (exEnvOk 0 8).enc⟩ (by decide)
    ⟨rfl, by decide, rfl, rfl, by decide, by decide, by decide, rfl, rfl, fun h _ => by cases h⟩
    ⟨narrow_of_check _ (by decide), by unfold WF; decide, by decide, by decide, by decide⟩).2

/-- … the model computes it: the render after the resize repaints (erase-down) although style and depth are
    the same -/
example : Cmd.eraseDown ∈ (exRold.render (envFor exEnvNew 0 8) exS2 false false 0 0).2 ∧
    Cmd.eraseDown ∉ (exRold.render (envFor exEnv 0 8) exS2 false false 0 0).2 := by decide

/-- **`reset` must forget the report**: the renderer was told "3 rows below the origin", erased, and other output
    moved the cursor two rows down (one row is left).  With the report forgotten the layout is asked for its
    preferred single row; had `_min_available_height` survived the reset, it would be asked for 3 rows on a
    terminal with 1 row left — the `\r\n` that reserve them scroll the terminal -/
theorem min_avail_reset_needed :
    (exFcpr.erase true).1.layoutHeight false exApp5 false 1 = 1 ∧
    ({ (exFcpr.erase true).1 with minAvail := exFcpr.minAvail } : RFull).layoutHeight false exApp5 false 1 = 3 ∧
    ¬ MinOk ({ (exFcpr.erase true).1 with minAvail := exFcpr.minAvail } : RFull) (Term.fresh 4 1 4 (fun _ _ => TCell.blank)) := by
  refine ⟨by decide, by decide, ?_⟩
  intro h
  rcases h with h | h <;> revert h <;> decide

example : min (max exS33.height (prevHeight (exFcpr.erase true).1.toCore.lastScreen)) exApp5.h ≤
    (Term.fresh 4 3 2 (fun _ _ => TCell.blank)).h :=
  fit_after_erase exFcpr true exApp5 _ exS33 3 (by decide) (by decide)

end ExamplesResize

end Ptk.C06
