/-
  C09 — the extension layer (`Model/C09Ext.lean`): PyperclipClipboard over an abstract system
  clipboard, DynamicClipboard, c-delete, `C-w` / `M-w` on selections of every type, shift
  selection, `cc` / `S`; `cut_selection` never raises; the invariant of every history of the extended
  Emacs model (`runX_inv`).
-/
import Ptk.Props.C09Paste
import Ptk.Props.C09Ring
import Ptk.Model.C09Ext
namespace Ptk.C09
open Ptk.Py

/-! ### PyperclipClipboard over an abstract system clipboard -/

/-- **Round trip.**  What we copied comes back unchanged, with its type, as long as nobody else
    wrote to the system clipboard. -/
theorem pyclip_roundtrip (p : PyClip) (d : Clip) : (p.setData d).getData = d := by
  simp [PyClip.setData, PyClip.getData]

/-- The text handed to a paste is ALWAYS the text of the system clipboard. -/
theorem pyclip_text_is_system (p : PyClip) : p.getData.text = p.sys := by
  unfold PyClip.getData
  split
  · split
    · assumption
    · rfl
  · rfl

/-- the type inferred for foreign text: LINES iff it contains a newline -/
theorem inferClip_type (x : Text) : (inferClip x).text = x ∧ ((inferClip x).ty = .lines ↔ '\n' ∈ x) ∧
    ((inferClip x).ty = .chars ↔ '\n' ∉ x) := by
  unfold inferClip
  by_cases h : '\n' ∈ x
  · simp [h]
  · simp [h]

/-- **After another program copied `x`:** if `x` differs from our last copy the data is `x` with the
    inferred type (the remembered type is dropped — a BLOCK or LINES kill comes back as CHARACTERS
    when it has no newline); if `x` equals the text of our last copy, our data (with its type) is
    reused. -/
theorem pyclip_after_external (p : PyClip) (d : Clip) (x : Text) :
    (x ≠ d.text → ((p.setData d).external x).getData = inferClip x) ∧
    (x = d.text → ((p.setData d).external x).getData = d) := by
  refine ⟨fun h => ?_, fun h => ?_⟩
  · simp [PyClip.setData, PyClip.external, PyClip.getData, Ne.symm h]
  · simp [PyClip.setData, PyClip.external, PyClip.getData, h]

/-- before we ever copied anything, the system clipboard is pasted with the inferred type -/
theorem pyclip_initial (x : Text) : (PyClip.init x).getData = inferClip x := rfl

/-- `rotate` is the no-op of the base class: with the system clipboard yank-pop re-inserts the same
    text -/
theorem pyclip_rotate (p : PyClip) : p.rotate = p := rfl

/-- operations on the Pyperclip clipboard -/
inductive PyOp
  | set (d : Clip) | ext (x : Text) | rot

def PyClip.apply (p : PyClip) : PyOp → PyClip
  | .set d => p.setData d
  | .ext x => p.external x
  | .rot => p.rotate

/-- **What survives in every history.**  After any sequence of copies by us, copies by other
    programs and rotations: `get_data` returns the current system text; it carries the type of our
    last copy exactly when the system text still equals that copy's text, and the inferred type
    otherwise. -/
theorem pyclip_history (ops : List PyOp) (p0 : PyClip) :
    let p := ops.foldl PyClip.apply p0
    p.getData.text = p.sys ∧
    (∀ d, p.data = some d → d.text = p.sys → p.getData = d) ∧
    ((∀ d, p.data = some d → d.text ≠ p.sys) → p.getData = inferClip p.sys) := by
  intro p
  refine ⟨pyclip_text_is_system p, ?_, ?_⟩
  · intro d hd ht
    simp [PyClip.getData, hd, ht]
  · intro h
    unfold PyClip.getData
    cases hd : p.data with
    | none => rfl
    | some d => simp [h d hd]

example : ((PyClip.init []).setData ⟨"ab".toList, .block⟩).getData = ⟨"ab".toList, .block⟩ ∧
    (((PyClip.init []).setData ⟨"ab".toList, .block⟩).external "cd".toList).getData = ⟨"cd".toList, .chars⟩ ∧
    (((PyClip.init []).setData ⟨"ab".toList, .chars⟩).external "c\nd".toList).getData = ⟨"c\nd".toList, .lines⟩ ∧
    ((((PyClip.init []).setData ⟨"ab".toList, .block⟩).external "cd".toList).external "ab".toList).getData
      = ⟨"ab".toList, .block⟩ := by decide

/-! ### DynamicClipboard / DummyClipboard -/

/-- the callable returns `None`: a DummyClipboard — nothing is remembered -/
theorem dyn_none_is_dummy (c : DynClip) (h : c.cur = none) (d : Clip) :
    c.setData d = c ∧ c.rotate = c ∧ c.getData = Clip.empty := by
  simp [DynClip.setData, DynClip.rotate, DynClip.getData, h]

theorem getElem?_modify_same {α : Type} (l : List α) (i : Nat) (f : α → α) :
    (l.modify i f)[i]? = l[i]?.map f := by
  rw [List.getElem?_modify]; simp

/-- **Forwarding.**  With the callable returning clipboard `i`, every call acts on that clipboard
    exactly like on an `InMemoryClipboard` (so all kill-ring theorems apply), the others are untouched. -/
theorem dyn_forwards (c : DynClip) (i : Nat) (m : Nat) (r : Ring) (h : c.cur = some i) (hi : c.rings[i]? = some (m, r))
    (d : Clip) :
    (c.setData d).rings[i]? = some (m, setData m r d) ∧ (c.setData d).cur = some i ∧
    (c.rotate).rings[i]? = some (m, rotate r) ∧ c.getData = getData r ∧
    (∀ j, j ≠ i → (c.setData d).rings[j]? = c.rings[j]? ∧ (c.rotate).rings[j]? = c.rings[j]?) := by
  simp only [DynClip.setData, DynClip.rotate, DynClip.getData, h]
  refine ⟨?_, trivial, ?_, by rw [hi], ?_⟩
  · rw [getElem?_modify_same, hi]; rfl
  · rw [getElem?_modify_same, hi]; rfl
  · intro j hj
    constructor <;>
    · rw [List.getElem?_modify]
      cases c.rings[j]? with
      | none => rfl
      | some x => simp [Ne.symm hj]

/-- copy through the DynamicClipboard, paste through it: the data comes back -/
theorem dyn_roundtrip (c : DynClip) (i m : Nat) (r : Ring) (h : c.cur = some i) (hi : c.rings[i]? = some (m, r))
    (hm : 0 < m) (d : Clip) : (c.setData d).getData = d := by
  obtain ⟨h1, h2, _⟩ := dyn_forwards c i m r h hi d
  simp only [DynClip.getData, h2, h1]
  exact setData_top m hm r d


/-! ### the document returned by `cut_selection` is a valid document -/

theorem cutLoop_cur_le (t : Text) : ∀ (rs : List (Nat × Nat)) (rem : Text) (cuts : List Text) (nc last : Nat),
    nc ≤ rem.length → (∀ r ∈ rs, r.1 ≤ t.length) →
    (cutLoop t rs (rem, cuts, nc, last)).2.2.1 ≤ (cutLoop t rs (rem, cuts, nc, last)).1.length := by
  intro rs
  induction rs with
  | nil => intro _ _ _ _ h _; exact h
  | cons r rest ih =>
    intro rem cuts nc last h hall
    obtain ⟨f, to⟩ := r
    simp only [cutLoop]
    apply ih _ _ _ _ _ (fun r h => hall r (by simp [h]))
    have hf : f ≤ t.length := hall (f, to) (by simp)
    split
    · rename_i h0
      subst h0
      simp only [List.drop_zero, List.length_append, List.length_take]
      omega
    · simp only [List.length_append]; omega

theorem selectionRanges_from_le (t : Text) (cur orig : Nat) (ty : SelType) (vi : Bool) (hc : cur ≤ t.length)
    (ho : orig ≤ t.length) : ∀ r ∈ selectionRanges t cur orig ty vi, r.1 ≤ t.length := by
  intro r hr
  cases ty with
  | chars => simp [selectionRanges] at hr; subst hr; simp only; omega
  | lines => simp [selectionRanges] at hr; subst hr; simp only; omega
  | block =>
    simp only [selectionRanges, List.mem_filterMap] at hr
    obtain ⟨l, _, hl⟩ := hr
    split at hl
    · cases hl; simp only; omega
    · cases hl

/-- **`cut_selection` never raises**: the cursor of the remaining document is inside its text (for
    every selection type, editing mode, cursor and anchor inside the text). -/
theorem cutSelection_wf (t : Text) (cur orig : Nat) (ty : SelType) (vi : Bool) (hc : cur ≤ t.length)
    (ho : orig ≤ t.length) : WF (cutSelection t cur orig ty vi).1 := by
  have hfrom := selectionRanges_from_le t cur orig ty vi hc ho
  unfold WF cutSelection
  simp only
  cases hrs : selectionRanges t cur orig ty vi with
  | nil => simp [cutLoop]; exact hc
  | cons r rest =>
    obtain ⟨f, to⟩ := r
    rw [hrs] at hfrom
    simp only [cutLoop, if_true, List.nil_append, List.drop_zero]
    have := cutLoop_cur_le t rest (t.take f) [(t.take to).drop f] f to
      (by have := hfrom (f, to) (by simp); simp only at this; simp; omega)
      (fun r h => hfrom r (by simp [h]))
    simp only [List.length_append]
    exact Nat.le_trans this (Nat.le_add_right _ _)


/-! ### Emacs: c-delete -/

theorem stepX_base (rs : Char → Bool) (mx : Nat) (s : St) (arg : Arg) (c : Cmd) :
    stepX rs mx s arg (.base c) = step rs mx s arg c := rfl

/-- how `c-delete` combines with the top of the ring -/
def accC (s : St) (arg : Arg) : Acc := if arg = .none ∧ s.prev = .killWordC ∧ s.kwKilled = true then .fwd else .no

theorem stepX_cdelete (rs : Char → Bool) (mx : Nat) (s : St) (arg : Arg) :
    (stepX rs mx s arg .killWordC).buf = (killWordK rs s.buf arg.val).buf ∧
    (stepX rs mx s arg .killWordC).ring = pushKill mx s.ring (killWordK rs s.buf arg.val) (accC s arg) ∧
    (stepX rs mx s arg .killWordC).prev = .killWordC ∧
    (stepX rs mx s arg .killWordC).kwKilled = (killWordK rs s.buf arg.val).push := by
  simp [stepX, applyKill, accC, and_assoc]

/-- **c-delete is kill-word.**  It removes exactly what `M-d` would remove, and — unless it repeats
    a `c-delete` press that killed — the removed text is the new top of the ring and a yank right
    there restores the text.  A preceding `M-d` does NOT make it a repeat (`accC` only looks at
    `c-delete` itself): the two keys are different Binding objects. -/
theorem cdelete_kill_fidelity (rs : Char → Bool) (mx : Nat) (hmax : 0 < mx) (s : St) (hwf : WF s.buf) (arg : Arg) :
    let k := killWordK rs s.buf arg.val
    let s' := stepX rs mx s arg .killWordC
    s'.buf = k.buf ∧ s.buf.text = reinsert k.buf.text k.buf.cur k.removed ∧ WF k.buf ∧
    (k.push = false → s'.ring = s.ring ∧ k.removed = []) ∧
    (k.push = true → accC s arg = .no →
      getData s'.ring = { text := k.removed, ty := .chars } ∧ Restorable s.buf.text s' ∧
      (yank s' 1).buf.text = s.buf.text) := by
  intro k s'
  obtain ⟨hb, hr, _, _⟩ := stepX_cdelete rs mx s arg
  obtain ⟨h1, h2, _⟩ := killWordK_ok rs s.buf hwf arg.val
  refine ⟨hb, h1, h2, ?_, ?_⟩
  · intro hp
    refine ⟨by rw [hr, pushKill_nopush _ _ _ _ hp], ?_⟩
    have hk : killOf rs s.buf arg.val .killWord = some k := rfl
    rcases (kill_without_push rs mx s arg .killWord k hk hp).2 with h | h
    · exact h
    · exact absurd h.1 (by simp)
  · intro hp hacc
    have htop : getData s'.ring = { text := k.removed, ty := .chars } := by
      rw [hr, pushKill_push _ _ _ _ hp, hacc]; exact setData_top mx hmax _ _
    have hres : Restorable s.buf.text s' := by
      unfold Restorable; rw [htop, hb]; exact ⟨h1, rfl⟩
    exact ⟨htop, hres, yank_restores _ _ hres⟩

theorem cdelete_after_metad_is_no_repeat (s : St) (arg : Arg) (h : s.prev = .killWord) : accC s arg = .no := by
  simp [accC, h]

theorem metad_after_cdelete_is_no_repeat (s : St) (arg : Arg) (h : s.prev = .killWordC) :
    accOf s arg .killWord = .no := by
  simp [accOf, h]

/-- a repeated `c-delete` appends, like a repeated `M-d` -/
theorem cdelete_repeat_accumulates (rs : Char → Bool) (mx : Nat) (hmax : 0 < mx) (orig : Text) (s : St)
    (hwf : WF s.buf) (hres : Restorable orig s) (hprev : s.prev = .killWordC) (hkk : s.kwKilled = true)
    (hp : (killWordK rs s.buf 1).push = true) :
    let s' := stepX rs mx s .none .killWordC
    Restorable orig s' ∧ (getData s'.ring).text = (getData s.ring).text ++ (killWordK rs s.buf 1).removed := by
  obtain ⟨hb, hr, _, _⟩ := stepX_cdelete rs mx s .none
  have hacc : accC s .none = .fwd := by simp [accC, hprev, hkk]
  obtain ⟨h1, h2, _⟩ := killWordK_ok rs s.buf hwf 1
  have hcur := killWordK_cur rs s.buf 1 (by omega)
  simp only [Restorable]
  have hv : Arg.none.val = 1 := rfl
  rw [hv] at hb hr
  rw [hr, pushKill_push _ _ _ _ hp, hacc, setData_top mx hmax, hb]
  refine ⟨⟨?_, rfl⟩, rfl⟩
  simp only [pushedText]
  rw [hres.1, h1, hcur]
  have : s.buf.cur ≤ (killWordK rs s.buf 1).buf.text.length := by rw [← hcur]; exact h2
  exact reinsert_reinsert_fwd _ _ _ _ this

def exE1 : St := { buf := { text := "ab cd ef".toList, cur := 0 }, ring := [], dbp := none, prev := .other }
example :
    (runX (· = ' ') 5 exE1 [(.none, .base .killWord), (.none, .killWordC), (.none, .killWordC)]).ring
      = [⟨" cd ef".toList, .chars⟩, ⟨" cd".toList, .chars⟩, ⟨"ab".toList, .chars⟩] := by decide

/-! ### Emacs: `C-w` / `M-w` on a selection of any type -/

/-- **Typed region.**  `C-w` / `M-w` with a CHARACTERS, LINES or BLOCK selection (anchor `a`, cursor
    `b`, both clamped to the text) put exactly `Document.cut_selection()`'s data — with its type — on
    top of the ring, older entries kept in order; `C-w` leaves `cut_selection()`'s remaining
    document, `M-w` leaves the text alone.  (`cutSelection_block`, `cutSelection_lines_fidelity'`
    and `cutSelection_chars_emacs` say what that data is.) -/
theorem regionTy_fidelity (rs : Char → Bool) (mx : Nat) (hmax : 0 < mx) (s : St) (arg : Arg) (a b : Nat)
    (kill : Bool) (ty : SelType) :
    let t := s.buf.text
    let an := min a t.length
    let cu := min b t.length
    let s' := stepX rs mx s arg (.regionTy a b kill ty)
    getData s'.ring = (cutSelection t cu an ty false).2 ∧ (getData s'.ring).ty = ty ∧
    s'.ring = (cutSelection t cu an ty false).2 :: s.ring.take (mx - 1) ∧
    (kill = true → s'.buf = (cutSelection t cu an ty false).1) ∧
    (kill = false → s'.buf.text = t) := by
  simp only [stepX, setCursor, Int.toNat_natCast]
  refine ⟨setData_top mx hmax _ _, ?_, setData_older mx _ _ hmax, ?_, ?_⟩
  · rw [setData_top mx hmax]; exact (cutSelection_pieces _ _ _ ty false).2.1
  · intro hk; subst hk; simp
  · intro hk; subst hk; simp

/-- for a CHARACTERS selection in Emacs mode `cut_selection` is the region between mark and point -/
theorem cutSelection_chars_emacs (t : Text) (cur orig : Nat) :
    cutSelection t cur orig .chars false =
      ({ text := t.take (min cur orig) ++ t.drop (max cur orig), cur := min cur orig },
       { text := (t.take (max cur orig)).drop (min cur orig), ty := .chars }) := by
  simp [cutSelection, selectionRanges, cutLoop, join]

def exE2 : St := { buf := { text := "ab\ncd\nef".toList, cur := 0 }, ring := [⟨['o'], .chars⟩], dbp := none, prev := .other }
example : (stepX (· = ' ') 3 exE2 .none (.regionTy 1 4 true .lines)).buf = { text := "\nef".toList, cur := 0 } ∧
    (stepX (· = ' ') 3 exE2 .none (.regionTy 1 4 true .lines)).ring = [⟨"ab\ncd".toList, .lines⟩, ⟨['o'], .chars⟩] ∧
    (stepX (· = ' ') 3 exE2 .none (.regionTy 0 4 false .block)).ring = [⟨"a\nc".toList, .block⟩, ⟨['o'], .chars⟩] := by
  decide


/-! ### Emacs: shift selection -/

theorem moveN_wf (dir : Int) : ∀ (n : Nat) (b : Buf), WF b → WF (moveN b dir n) := by
  intro n
  induction n with
  | zero => intro b h; exact h
  | succ n ih => intro b h; exact ih _ (moveRight_wf b h dir)

theorem moveRight_text (b : Buf) (n : Int) : (moveRight b n).text = b.text := by
  unfold moveRight; split <;> rfl

theorem moveN_text (dir : Int) : ∀ (n : Nat) (b : Buf), (moveN b dir n).text = b.text := by
  intro n
  induction n with
  | zero => intro b; rfl
  | succ n ih => intro b; simp only [moveN]; rw [ih, moveRight_text]

/-- **Shift selection.**  After `k` shift-arrow presses from position `a` left a selection (the cursor
    moved away from `a`): `C-w` and `M-w` put exactly the characters between the anchor and the cursor
    on top of the ring (`C-w` removes them: a yank right there restores the text; `M-w` leaves the
    text alone); `backspace` and a typed character remove the selection WITHOUT touching the ring
    (they are not kill commands); `C-y` replaces the selection by the top of the ring, the ring
    unchanged. -/
theorem shift_selection_fidelity (rs : Char → Bool) (mx : Nat) (hmax : 0 < mx) (s : St) (arg : Arg)
    (a : Nat) (k : Int) (act : ShiftAct) :
    let b0 := setCursor s.buf a
    let b1 := shiftMoves b0 k
    let lo := min b0.cur b1.cur
    let hi := max b0.cur b1.cur
    let X := (s.buf.text.take hi).drop lo
    let rem := s.buf.text.take lo ++ s.buf.text.drop hi
    let s' := stepX rs mx s arg (.shiftSel a k act)
    b1.cur ≠ b0.cur →
    s.buf.text = reinsert rem lo X ∧
    (act = .cw → s'.buf = { text := rem, cur := lo } ∧ getData s'.ring = { text := X, ty := .chars } ∧
      Restorable s.buf.text s' ∧ (yank s' 1).buf.text = s.buf.text) ∧
    (act = .mw → s'.buf.text = s.buf.text ∧ getData s'.ring = { text := X, ty := .chars }) ∧
    (act = .bs → s'.buf = { text := rem, cur := lo } ∧ s'.ring = s.ring) ∧
    (∀ c, act = .ins c → s'.buf.text = reinsert rem lo [c] ∧ s'.ring = s.ring) ∧
    (act = .cy → (getData s.ring).ty = .chars →
      s'.buf.text = reinsert rem lo (getData s.ring).text ∧ s'.ring = s.ring ∧
      s'.dbp = some { text := rem, cur := lo }) := by
  intro b0 b1 lo hi X rem s' hsel
  have hb0 : b0.text = s.buf.text := rfl
  have hlo : lo ≤ s.buf.text.length := by
    have : b0.cur ≤ s.buf.text.length := by simp [b0, setCursor]; omega
    omega
  have hre : s.buf.text = reinsert rem lo X := (cut_reinsert s.buf.text lo hi (by omega) hlo).symm
  have hstep : ∀ act', stepX rs mx s arg (.shiftSel a k act') =
      (match act' with
       | .cw => { s with buf := (cutRegion b0.text b0.cur b1.cur).1, ring := setText mx s.ring (cutRegion b0.text b0.cur b1.cur).2, dbp := none, prev := .other }
       | .mw => { s with buf := b1, ring := setText mx s.ring (cutRegion b0.text b0.cur b1.cur).2, dbp := none, prev := .other }
       | .bs => { s with buf := (cutRegion b0.text b0.cur b1.cur).1, dbp := none, prev := .other }
       | .cy => { s with buf := pasteBuf (cutRegion b0.text b0.cur b1.cur).1 (getData s.ring) .emacs 1,
                         dbp := some (cutRegion b0.text b0.cur b1.cur).1, prev := .other }
       | .ins c => { s with buf := insertText (cutRegion b0.text b0.cur b1.cur).1 [c], dbp := none, prev := .other }) := by
    intro act'
    simp only [stepX]
    rw [if_neg hsel]
    cases act' <;> rfl
  have hcut : cutRegion b0.text b0.cur b1.cur = ({ text := rem, cur := lo }, X) := rfl
  refine ⟨hre, ?_, ?_, ?_, ?_, ?_⟩
  · intro ha; subst ha
    simp only [s']; rw [hstep]
    simp only [hcut, setText]
    have htop := setData_top mx hmax s.ring { text := X, ty := .chars }
    have hres : Restorable s.buf.text
        { s with buf := { text := rem, cur := lo }, ring := setData mx s.ring { text := X, ty := .chars },
                 dbp := none, prev := .other } := by
      unfold Restorable; simp only; rw [htop]; exact ⟨hre, rfl⟩
    exact ⟨trivial, htop, hres, yank_restores _ _ hres⟩
  · intro ha; subst ha
    simp only [s']; rw [hstep]
    simp only [hcut, setText]
    exact ⟨by show b1.text = _; simp only [b1, shiftMoves]; rw [moveN_text]; rfl, setData_top mx hmax _ _⟩
  · intro ha; subst ha
    simp only [s']; rw [hstep]
    simp only [hcut]
    exact ⟨trivial, trivial⟩
  · intro c ha; subst ha
    simp only [s']; rw [hstep]
    simp only [hcut, insertText, reinsert, Buf.before, Buf.after]
    exact ⟨trivial, trivial⟩
  · intro ha hty; subst ha
    simp only [s']; rw [hstep]
    simp only [hcut]
    refine ⟨?_, trivial, trivial⟩
    have := (paste_chars { text := rem, cur := lo } (getData s.ring) hty .emacs 1).1
    simp only [pasteBuf]
    simp only [reduceCtorEq, if_false] at this
    rw [this]
    simp [reinsert, repeatText]

def exE3 : St := { buf := { text := "hello world".toList, cur := 0 }, ring := [⟨"R".toList, .chars⟩], dbp := none, prev := .other }
example : (shiftMoves (setCursor exE3.buf 2) 3).cur = 5 ∧
    (stepX (· = ' ') 3 exE3 .none (.shiftSel 2 3 .cw)).buf = { text := "he world".toList, cur := 2 } ∧
    getData (stepX (· = ' ') 3 exE3 .none (.shiftSel 2 3 .cw)).ring = ⟨"llo".toList, .chars⟩ ∧
    (stepX (· = ' ') 3 exE3 .none (.shiftSel 2 3 .bs)).ring = exE3.ring ∧
    (stepX (· = ' ') 3 exE3 .none (.shiftSel 5 (-3) .cy)).buf.text = "heR world".toList := by decide

/-! ### every history of the extended Emacs model keeps the editor state valid -/

/-- like `Inv`, without the restriction to CHARACTERS entries (typed regions put LINES / BLOCK data on
    the ring; `paste_never_raises` makes every yank of them a valid document) -/
def InvX (max : Nat) (s : St) : Prop :=
  WF s.buf ∧ s.ring.length ≤ max ∧ (∀ d, s.dbp = some d → WF d)

theorem pushKill_len (max : Nat) (r : Ring) (k : Kill) (acc : Acc) (h : r.length ≤ max) :
    (pushKill max r k acc).length ≤ max := by
  cases hp : k.push with
  | false => rw [pushKill_nopush _ _ _ _ hp]; exact h
  | true => rw [pushKill_push _ _ _ _ hp]; exact setData_length_le _ _ _

theorem step_invX (rs : Char → Bool) (mx : Nat) (s : St) (h : InvX mx s) (arg : Arg) (cmd : Cmd) :
    InvX mx (step rs mx s arg cmd) := by
  obtain ⟨hwf, hlen, hdbp⟩ := h
  cases hko : killOf rs s.buf arg.val cmd with
  | some k =>
    obtain ⟨hb, hr⟩ := step_kill rs mx s arg cmd k hko
    obtain ⟨_, hk2, _⟩ := killOf_ok rs s.buf hwf _ cmd k hko
    refine ⟨by rw [hb]; exact hk2, by rw [hr]; exact pushKill_len _ _ _ _ hlen, ?_⟩
    have : (step rs mx s arg cmd).dbp = touch s.buf s.dbp k.buf := by
      cases cmd <;> simp [killOf] at hko <;> subst hko <;> simp [step, applyKill]
    rw [this]; exact touch_wf _ _ _ hdbp
  | none =>
    cases cmd <;> simp [killOf] at hko
    · simp only [step, yank, pasteSt]
      exact ⟨pasteBuf_wf _ hwf _ _ _, hlen, fun d hd => by cases hd; exact hwf⟩
    · simp only [step, yankPop]
      cases hd : s.dbp with
      | none => exact ⟨hwf, hlen, fun d h' => by simp at h'⟩
      | some d =>
        exact ⟨pasteBuf_wf _ (hdbp d hd) _ _ _, by rw [rotate_length]; exact hlen,
          fun d' h' => by cases h'; exact hdbp d hd⟩
    · simp only [step]
      exact ⟨moveRight_wf _ hwf _, hlen, touch_wf _ _ _ hdbp⟩
    · simp only [step]
      exact ⟨moveRight_wf _ hwf _, hlen, touch_wf _ _ _ hdbp⟩
    · simp only [step]
      exact ⟨insertText_wf _ hwf _, hlen, touch_wf _ _ _ hdbp⟩
    · simp only [step]
      exact ⟨setCursor_wf _ _, hlen, touch_wf _ _ _ hdbp⟩
    · rename_i a b kill
      simp only [step]
      split
      · split
        · exact ⟨hwf, hlen, hdbp⟩
        · exact ⟨insertText_wf _ hwf _, hlen, fun d h' => by cases h'⟩
      · have hD : ∀ (c : Prop) [Decidable c] (d : Buf), (if c then s.dbp else none) = some d → WF d := by
          intro c _ d hd
          split at hd
          · exact hdbp d hd
          · cases hd
        cases kill
        · simp only [cutRegion, Bool.false_eq_true, if_false]
          exact ⟨setCursor_wf _ _, setData_length_le _ _ _, hD _⟩
        · simp only [cutRegion, if_true]
          refine ⟨?_, setData_length_le _ _ _, hD _⟩
          unfold WF
          simp only [setCursor, List.length_append, List.length_take, List.length_drop]
          omega

theorem cutRegion_wf (t : Text) (a b : Nat) (ha : a ≤ t.length) : WF (cutRegion t a b).1 := by
  unfold WF cutRegion
  simp only [List.length_append, List.length_take, List.length_drop]
  omega

/-- **stepX_inv.**  Every key of the extended Emacs model preserves the invariant. -/
theorem stepX_inv (rs : Char → Bool) (mx : Nat) (s : St) (h : InvX mx s) (arg : Arg) (cmd : ECmd) :
    InvX mx (stepX rs mx s arg cmd) := by
  cases cmd with
  | base c => exact step_invX rs mx s h arg c
  | killWordC =>
    obtain ⟨hwf, hlen, hdbp⟩ := h
    obtain ⟨hb, hr, _, _⟩ := stepX_cdelete rs mx s arg
    refine ⟨by rw [hb]; exact (killWordK_ok rs s.buf hwf arg.val).2.1, by rw [hr]; exact pushKill_len _ _ _ _ hlen, ?_⟩
    have : (stepX rs mx s arg .killWordC).dbp = touch s.buf s.dbp (killWordK rs s.buf arg.val).buf := by
      simp [stepX, applyKill]
    rw [this]; exact touch_wf _ _ _ hdbp
  | deleteChar =>
    obtain ⟨hwf, hlen, hdbp⟩ := h
    simp only [stepX]
    refine ⟨?_, hlen, touch_wf _ _ _ hdbp⟩
    split
    · exact (deleteBefore_spec s.buf hwf _).2.2.1
    · exact (delete_spec s.buf hwf _).2.2.1
  | regionTy a b kill ty =>
    obtain ⟨hwf, hlen, hdbp⟩ := h
    simp only [stepX]
    have hD : ∀ (c : Prop) [Decidable c] (d : Buf), (if c then s.dbp else none) = some d → WF d := by
      intro c _ d hd
      split at hd
      · exact hdbp d hd
      · cases hd
    refine ⟨?_, setData_length_le _ _ _, hD _⟩
    cases kill
    · exact setCursor_wf _ _
    · simp only [if_true]
      exact cutSelection_wf _ _ _ _ _ (by simp [setCursor]; omega) (by simp [setCursor]; omega)
  | shiftSel a k act =>
    obtain ⟨hwf, hlen, hdbp⟩ := h
    have hb0 : WF (setCursor s.buf a) := setCursor_wf _ _
    have hb1 : WF (shiftMoves (setCursor s.buf a) k) := moveN_wf _ _ _ hb0
    have hs0 : InvX mx { s with buf := setCursor s.buf a, dbp := touch s.buf s.dbp (setCursor s.buf a),
                                prev := if k = 0 then s.prev else .other } :=
      ⟨hb0, hlen, touch_wf _ _ _ hdbp⟩
    have hcr : WF (cutRegion (setCursor s.buf a).text (setCursor s.buf a).cur (shiftMoves (setCursor s.buf a) k).cur).1 :=
      cutRegion_wf _ _ _ hb0
    simp only [stepX]
    split
    · cases act
      · exact step_invX rs mx _ hs0 .none .wordRubout
      · exact ⟨insertText_wf _ hb0 _, hlen, fun d h' => by cases h'⟩
      · exact ⟨(deleteBefore_spec _ hb0 1).2.2.1, hlen, touch_wf _ _ _ (touch_wf _ _ _ hdbp)⟩
      · exact step_invX rs mx _ hs0 .none .yank
      · exact step_invX rs mx _ hs0 .none (.ins _)
    · cases act
      · exact ⟨hcr, setData_length_le _ _ _, fun d h' => by cases h'⟩
      · exact ⟨hb1, setData_length_le _ _ _, fun d h' => by cases h'⟩
      · exact ⟨hcr, hlen, fun d h' => by cases h'⟩
      · exact ⟨pasteBuf_wf _ hcr _ _ _, hlen, fun d h' => by cases h'; exact hcr⟩
      · exact ⟨insertText_wf _ hcr _, hlen, fun d h' => by cases h'⟩

/-- **runX_inv.**  After every finite sequence of keys of the extended Emacs model (kills, yanks,
    yank-pops, c-delete, regions of every type, shift selections, cursor moves, typing) the cursor is
    inside the text, the ring holds at most `max_size` entries and `document_before_paste` is a
    valid document: no modelled key sequence can make a paste or a cut raise. -/
theorem runX_inv (rs : Char → Bool) (mx : Nat) (ops : List (Arg × ECmd)) :
    ∀ s, InvX mx s → InvX mx (runX rs mx s ops) := by
  induction ops with
  | nil => intro s h; exact h
  | cons op ops ih =>
    intro s h
    simp only [runX, List.foldl_cons]
    exact ih _ (stepX_inv rs mx s h op.1 op.2)

/-- **Kill fidelity after any history of the extended model.**  Start from any valid state, press
    any finite sequence of keys of the extended Emacs model (typed regions, shift selections and
    c-delete included; the ring may hold LINES / BLOCK entries), then any kill command with any
    argument: the removed text put back at the kill point is the text before the kill, it is the new
    top of the ring (not a repeat), and a yank right there restores the text. -/
theorem kill_fidelity_in_every_historyX (rs : Char → Bool) (mx : Nat) (hmax : 0 < mx) (s0 : St)
    (h0 : InvX mx s0) (ops : List (Arg × ECmd)) (arg : Arg) (cmd : Cmd) (k : Kill)
    (hk : killOf rs (runX rs mx s0 ops).buf arg.val cmd = some k) :
    let s := runX rs mx s0 ops
    s.buf.text = reinsert k.buf.text k.buf.cur k.removed ∧
    (k.push = true → accOf s arg cmd = .no →
      getData (stepX rs mx s arg (.base cmd)).ring = { text := k.removed, ty := .chars } ∧
      (stepX rs mx (stepX rs mx s arg (.base cmd)) .none (.base .yank)).buf.text = s.buf.text) := by
  have hinv := runX_inv rs mx ops s0 h0
  obtain ⟨_, h1, _, _, h5⟩ := kill_puts_removed rs mx hmax _ hinv.1 arg cmd k hk
  exact ⟨h1, fun hp ha => ⟨(h5 hp ha).1, yank_after_kill_restores rs mx hmax _ hinv.1 arg cmd k hk hp ha⟩⟩

example : InvX 3 exE2 := ⟨Nat.zero_le _, by show 1 ≤ 3; omega, fun d h => by cases h⟩


/-! ### Vi: cc / S -/

theorem vstepX_base (isSp : Char → Bool) (mx : Nat) (s : VSt) (count : Option Nat) (c : VCmd) :
    vstepX isSp mx s count (.base c) = vstep mx s count c := rfl

theorem before_split (b : Buf) (h : WF b) : b.before = b.text.take (b.cur - col b) ++ lineBefore b := by
  unfold WF at h
  have hlf0 : b.cur - col b = b.cur - (lineBefore b).length := rfl
  have h1 : b.text.take (b.cur - col b) = b.before.take (b.before.length - (lineBefore b).length) := by
    rw [before_length b h, hlf0]
    simp only [Buf.before, List.take_take]
    congr 1
    omega
  rw [h1]
  conv => lhs; rw [← List.take_append_drop (b.before.length - (lineBefore b).length) b.before]
  rw [← lineBefore_eq_drop]

theorem after_split (b : Buf) : b.after = lineAfter b ++ b.after.dropWhile notNl ∧
    (b.after.dropWhile notNl = [] ∨ (b.after.dropWhile notNl).head? = some '\n') := by
  refine ⟨(List.takeWhile_append_dropWhile (p := notNl) (l := b.after)).symm, ?_⟩
  rcases dropWhile_notNl_head b.after with h | ⟨rest, h⟩
  · left; exact h
  · right; rw [h]; rfl

theorem lineAfter_no_nl (b : Buf) : '\n' ∉ lineAfter b := by
  unfold lineAfter
  intro h
  have := mem_takeWhile_sat _ _ _ h
  simp [notNl] at this

theorem lstripSp_length_le (isSp : Char → Bool) (l : Text) : (lstripSp isSp l).length ≤ l.length := by
  induction l with
  | nil => simp [lstripSp]
  | cons x xs ih => unfold lstripSp; split <;> simp <;> omega

/-- **`cc` / `S`** (count ignored by the code): the unnamed register receives the WHOLE current line
    with type LINES; the buffer loses the line except its leading whitespace — so the stored line is
    `indentation ++ removed`, the indentation itself stays in the buffer (as-is: "We copy the whole
    line.  But we delete after the whitespace"). -/
theorem vi_cc_stores_line (isSp : Char → Bool) (mx : Nat) (hmax : 0 < mx) (s : VSt) (hwf : WF s.buf)
    (count : Option Nat) :
    let b := seen s count
    let line := lineBefore b ++ lineAfter b
    let w := line.length - (lstripSp isSp line).length
    let s' := vstepX isSp mx s count .cc
    getData s'.ring = { text := line, ty := .lines } ∧ s'.regs = s.regs ∧
    s'.buf.text = b.text.take (b.cur - col b) ++ line.take w ++ b.text.drop (b.cur + (lineAfter b).length) ∧
    b.text = b.text.take (b.cur - col b) ++ line ++ b.text.drop (b.cur + (lineAfter b).length) := by
  have hwb := seen_wf s hwf count
  simp only [vstepX]
  simp only [show (if count.isSome = true then fixNav s.buf else s.buf) = seen s count from rfl]
  generalize seen s count = b at hwb
  have hfe : ∀ x : Buf, (escInsert x).text = x.text := by intro x; simp [escInsert, fixNav_text]
  have hbs := before_split b hwb
  obtain ⟨has, hrest⟩ := after_split b
  generalize hP : b.text.take (b.cur - col b) = P at hbs
  generalize hR : b.after.dropWhile notNl = R at has hrest
  have hcol : col b ≤ b.cur := by
    have := lineBefore_le b
    have h2 := before_length b hwb
    unfold col; omega
  have hPlen : P.length = b.cur - col b := by
    rw [← hP]; unfold WF at hwb; simp; omega
  have htext : b.text = P ++ (lineBefore b ++ lineAfter b) ++ R := by
    rw [← before_append_after b, hbs, has]; simp
  have hdrop : b.text.drop (b.cur + (lineAfter b).length) = R := by
    rw [drop_add_after, has]
    exact List.drop_left' rfl
  rw [hdrop]
  generalize hline : lineBefore b ++ lineAfter b = line at htext
  have hnl : '\n' ∉ line := by
    rw [← hline]; intro h
    rcases List.mem_append.mp h with h | h
    · exact lineBefore_no_nl b h
    · exact lineAfter_no_nl b h
  have hw := lstripSp_length_le isSp line
  generalize hwd : line.length - (lstripSp isSp line).length = w
  have hwle : w ≤ line.length := by omega
  -- the buffer with the cursor after the indentation
  generalize hb1 : ({ b with cur := b.cur - col b + w } : Buf) = b1
  have hb1t : b1.text = b.text := by rw [← hb1]
  have hb1c : b1.cur = P.length + w := by rw [← hb1, hPlen]
  have hb1wf : WF b1 := by
    unfold WF; rw [hb1t, hb1c, htext]; simp; omega
  have hb1before : b1.before = P ++ line.take w := by
    unfold Buf.before
    rw [hb1t, hb1c, htext, List.append_assoc, List.take_append, List.take_of_length_le (by omega)]
    simp only [Nat.add_sub_cancel_left]
    rw [List.take_append_of_le_length hwle]
  have hb1after : b1.after = line.drop w ++ R := by
    unfold Buf.after
    rw [hb1t, hb1c, htext, List.append_assoc, List.drop_append, List.drop_of_length_le (by omega)]
    simp only [Nat.add_sub_cancel_left, List.nil_append]
    rw [List.drop_append_of_le_length hwle]
  have hla : lineAfter b1 = line.drop w := by
    unfold lineAfter
    rw [hb1after]
    exact takeWhile_notNl_all _ _ (fun h => hnl (List.mem_of_mem_drop h)) hrest
  refine ⟨setData_top mx hmax _ _, trivial, ?_, htext⟩
  rw [hfe, delete_nat_text b1 hb1wf, hb1before, hb1after, hla]
  rw [List.drop_left' rfl]

def exV7 : VSt := { buf := { text := "x\n  ab cd\ny".toList, cur := 6 }, ring := [], regs := [] }
example : (vstepX (· = ' ') 3 exV7 none .cc).buf.text = "x\n  \ny".toList ∧
    getData (vstepX (· = ' ') 3 exV7 none .cc).ring = ⟨"  ab cd".toList, .lines⟩ := by decide


/-! ### `selection_ranges()` as printed vs. as used -/

/-- the ranges `cut_selection` slices with are the printed ranges with a negative bound clamped to 0
    (the only negative bound: LINES, Emacs mode, empty text: `(0, -1)`) -/
theorem selectionRanges_eq_I (t : Text) (cur orig : Nat) (ty : SelType) (vi : Bool) :
    selectionRanges t cur orig ty vi =
      (selectionRangesI t cur orig ty vi).map fun p => (p.1.toNat, p.2.toNat) := by
  cases ty <;> simp [selectionRangesI, selectionRanges, linesEnd, Function.comp_def]

/-- the ranges of a selection in the EMPTY document, as the code yields them -/
example : selectionRangesI [] 0 0 .lines true = [(0, 0)] ∧ selectionRangesI [] 0 0 .lines false = [(0, -1)] ∧
    selectionRangesI [] 0 0 .chars true = [(0, 1)] ∧ selectionRangesI [] 0 0 .chars false = [(0, 0)] ∧
    selectionRangesI [] 0 0 .block true = [(0, 0)] ∧ selectionRangesI [] 0 0 .block false = [(0, 0)] ∧
    selectionRanges [] 0 0 .lines true = [(0, 0)] := by decide

-- ... and on empty lines
example : selectionRangesI "\n\n".toList 1 1 .lines true = [(1, 2)] ∧ selectionRangesI "\n\n".toList 2 1 .lines false = [(1, 1)] ∧
    selectionRangesI "\n\n".toList 2 0 .block true = [(0, 0), (1, 1), (2, 2)] ∧
    selectionRangesI "\n".toList 1 1 .lines true = [(1, 1)] ∧ selectionRangesI "\n".toList 1 1 .lines false = [(1, 0)] := by
  decide


/-! ### yank-pop after a yank that was followed by an edit -/

/-- `delete-char` never touches the ring, and when it removes something it forgets
    `document_before_paste` -/
theorem deleteChar_clears_dbp (rs : Char → Bool) (mx : Nat) (s : St) (arg : Arg)
    (hch : (stepX rs mx s arg .deleteChar).buf ≠ s.buf) :
    (stepX rs mx s arg .deleteChar).dbp = none ∧ (stepX rs mx s arg .deleteChar).ring = s.ring := by
  simp only [stepX] at hch ⊢
  exact ⟨by simp only [touch, if_neg hch], trivial⟩

/-- **`C-y`, an edit, `M-y`.**  After a yank followed by any key of the extended model — other than a
    yank / yank-pop (incl. shift-selection `C-y`) — that changed the text or the cursor (a forward
    kill that leaves the cursor in place, delete-char, typing, a motion ...), yank-pop does nothing:
    text, cursor and ring stay as they are. -/
theorem yank_pop_after_edit_is_noop (rs : Char → Bool) (mx : Nat) (s : St) (arg : Arg) (cmd : ECmd)
    (hc : cmd = .deleteChar ∨ cmd = .killWordC ∨ ∃ c, cmd = .base c ∧ c ≠ .yank ∧ c ≠ .yankPop)
    (hch : (stepX rs mx s arg cmd).buf ≠ s.buf) :
    (yankPop (stepX rs mx s arg cmd)).buf = (stepX rs mx s arg cmd).buf ∧
    (yankPop (stepX rs mx s arg cmd)).ring = (stepX rs mx s arg cmd).ring := by
  apply yank_pop_needs_yank
  rcases hc with rfl | rfl | ⟨c, rfl, h1, h2⟩
  · exact (deleteChar_clears_dbp rs mx s arg hch).1
  · have hb := (stepX_cdelete rs mx s arg).1
    have : (stepX rs mx s arg .killWordC).dbp = touch s.buf s.dbp (killWordK rs s.buf arg.val).buf := by
      simp [stepX, applyKill]
    rw [this, touch, if_neg (by rw [← hb]; exact hch)]
  · exact change_clears_dbp rs mx s arg c ⟨h1, h2⟩ hch

example : (runX (· = ' ') 3 exS5 [(.none, .base .yank), (.none, .deleteChar), (.none, .base .yankPop)]).buf.text
    = "xA".toList ∧
    (runX (· = ' ') 3 exS5 [(.none, .base .yank), (.none, .base .killLine), (.none, .base .yankPop)]).ring
    = [⟨"y".toList, .chars⟩, ⟨['A'], .chars⟩, ⟨['B'], .chars⟩] := by decide

end Ptk.C09
