/-
  C12 — history independence: on one split object, every divide call answers what a fresh split
  would answer for the CURRENT child dimensions; nothing of the earlier requirements, sizes or
  available sizes survives.  (Proviso, as the code is: `align` / `padding` are not reassigned
  while the same children tuple stays cached; the model shows what happens otherwise.)
-/
import Ptk.Model.C12Session
import Ptk.Props.C12
import Ptk.Props.C12Fuel
namespace Ptk.C12

/-- the cache only ever holds the alignment and padding of the session -/
def CacheOK (al : Align) (pad : Dim) (c : Cache) : Prop :=
  ∀ key a p, c = some (key, a, p) → a = al ∧ p = pad

theorem lookup_eq {al : Align} {pad : Dim} {c : Cache} (hc : CacheOK al pad c) {call : Call}
    (ha : call.al = al) (hp : call.pad = pad) : lookup c call = (call.al, call.pad) := by
  unfold lookup
  rcases c with _ | ⟨key, a, p⟩
  · rfl
  · simp only
    obtain ⟨h1, h2⟩ := hc key a p rfl
    split_ifs
    · rw [h1, ha]
    · rw [h1, h2, ha, hp]
    · rfl

/-- **History independence**: if the attributes `align` / `padding` are the same in every call,
    the answers of a session on ONE object are, call by call, the answers of fresh splits for the
    current children and their current dimensions — whatever was divided before, at whatever
    available size. -/
theorem callSplit_snd_eq_fresh {al : Align} {pad : Dim} {c : Cache} (hc : CacheOK al pad c)
    (fuel : Nat) (horizontal : Bool) (filler : Dim) {call : Call}
    (ha : call.al = al) (hp : call.pad = pad) :
    (callSplit fuel horizontal filler c call).2 = fresh fuel horizontal filler call ∧
    CacheOK al pad (callSplit fuel horizontal filler c call).1 := by
  have hl := lookup_eq hc ha hp
  unfold callSplit fresh
  by_cases he : (horizontal && call.dims.isEmpty) = true
  · rw [if_pos he]
    simp only [Bool.and_eq_true] at he
    refine ⟨?_, hc⟩
    simp only [he.1, if_true]
    unfold divideH
    rw [if_pos he.2]
  · rw [if_neg he]
    simp only [hl]
    refine ⟨trivial, ?_⟩
    intro key a p h
    simp only [Option.some.injEq, Prod.mk.injEq] at h
    exact ⟨by rw [← h.2.1, ha], by rw [← h.2.2, hp]⟩

theorem session_history_independent (fuel : Nat) (horizontal : Bool) (filler : Dim)
    (al : Align) (pad : Dim) :
    ∀ (calls : List Call) (c : Cache), CacheOK al pad c →
      (∀ call ∈ calls, call.al = al ∧ call.pad = pad) →
      runSession fuel horizontal filler c calls = calls.map (fresh fuel horizontal filler) := by
  intro calls
  induction calls with
  | nil => intro c _ _; rfl
  | cons call rest ih =>
    intro c hc hall
    obtain ⟨ha, hp⟩ := hall call List.mem_cons_self
    obtain ⟨h1, h2⟩ := callSplit_snd_eq_fresh hc fuel horizontal filler ha hp
    simp only [runSession, List.map_cons, h1]
    congr 1
    exact ih _ h2 (fun c' hc' => hall c' (List.mem_cons_of_mem _ hc'))

/-- in particular the answer to the last call does not depend on the calls before it -/
theorem session_last_independent (fuel : Nat) (horizontal : Bool) (filler : Dim)
    (al : Align) (pad : Dim) (before1 before2 : List Call) (call : Call)
    (h1 : ∀ c ∈ before1 ++ [call], c.al = al ∧ c.pad = pad)
    (h2 : ∀ c ∈ before2 ++ [call], c.al = al ∧ c.pad = pad) :
    (runSession fuel horizontal filler none (before1 ++ [call])).getLast? =
    (runSession fuel horizontal filler none (before2 ++ [call])).getLast? := by
  have hn : CacheOK al pad none := by intro _ _ _ h; cases h
  rw [session_history_independent fuel horizontal filler al pad _ none hn h1,
      session_history_independent fuel horizontal filler al pad _ none hn h2]
  simp

/-- non-vacuity: the seeded witness — same object, same width 20, requirements change from
    (2..6, 1..) to (8..12, 1..5) to (15, 10): the answers follow the current requirements -/
example : runSession 400 false ⟨0, 0, Gen.C12.defaultMax, 1⟩ none
    [⟨[1, 2], .justify, ⟨0, 0, 0, 1⟩, [⟨2, 4, 6, 1⟩, ⟨1, 3, Gen.C12.defaultMax, 1⟩], 20, false, false⟩,
     ⟨[1, 2], .justify, ⟨0, 0, 0, 1⟩, [⟨8, 10, 12, 1⟩, ⟨1, 3, 5, 1⟩], 20, false, false⟩,
     ⟨[1, 2], .justify, ⟨0, 0, 0, 1⟩, [⟨15, 15, 15, 1⟩, ⟨10, 10, 10, 1⟩], 20, false, false⟩]
    = [.ok [6, 0, 14], .ok [12, 0, 5], .tooSmall] := by decide +kernel

/-- the proviso is needed, as the code is: reassigning `align` while the same children stay
    cached keeps the old `_all_children` (here: no filler is added for the new alignment) -/
example : runSession 100 false ⟨0, 0, Gen.C12.defaultMax, 1⟩ none
    [⟨[1], .justify, ⟨0, 0, 0, 1⟩, [⟨1, 1, 1, 1⟩], 5, false, false⟩,
     ⟨[1], .start, ⟨0, 0, 0, 1⟩, [⟨1, 1, 1, 1⟩], 5, false, false⟩]
    = [.ok [1], .ok [1]] ∧
    fresh 100 false ⟨0, 0, Gen.C12.defaultMax, 1⟩ ⟨[1], .start, ⟨0, 0, 0, 1⟩, [⟨1, 1, 1, 1⟩], 5, false, false⟩
    = .ok [1, 4] := by decide +kernel


/-! ### in-place edits of `split.children`

  `_children_cache` is keyed on `tuple(self.children)`: the identities of the CURRENT children in
  their CURRENT order.  Whether `children` was rebound to a new list or the same list object was
  edited in place (two entries swapped, the list reversed or sorted, an entry replaced,
  `children[:] = …` of equal length) makes no difference: a call is described by the ids it finds
  in the list at that moment.  `session_history_independent` quantifies over ALL id lists per
  call; the two corollaries below spell out the in-place case. -/

/-- an edit that changes the tuple of children — in particular every reordering of pairwise
    different children and every replacement of an entry — misses the cache: nothing of the old
    `_all_children` list is used -/
theorem lookup_of_edit {c : Cache} {call : Call}
    (h : ∀ key a p, c = some (key, a, p) → key ≠ call.ids) : lookup c call = (call.al, call.pad) := by
  unfold lookup
  rcases c with _ | ⟨key, a, p⟩
  · rfl
  · simp only
    rw [if_neg (h key a p rfl)]

/-- **After any sequence of in-place edits** (same length or not, with or without the dimensions
    changing as well) the split divides for the children that are in the list NOW, in the order
    they have NOW: the last answer of the session is the answer of a fresh split for the current
    list.  Proviso as before: `align` / `padding` are not reassigned during the session. -/
theorem session_inplace_edit (fuel : Nat) (horizontal : Bool) (filler : Dim) (al : Align) (pad : Dim)
    (before : List Call) (call : Call)
    (h : ∀ c ∈ before ++ [call], c.al = al ∧ c.pad = pad) :
    (runSession fuel horizontal filler none (before ++ [call])).getLast?
      = some (fresh fuel horizontal filler call) := by
  have hn : CacheOK al pad none := by intro _ _ _ h; cases h
  rw [session_history_independent fuel horizontal filler al pad _ none hn h]
  simp

/-- non-vacuity: children 1 and 2 are swapped in place (same two ids, same length, same
    available width): the sizes follow the new order; then child 1 is replaced by a new child 3 -/
example : runSession 400 false ⟨0, 0, Gen.C12.defaultMax, 1⟩ none
    [⟨[1, 2], .justify, ⟨0, 0, 0, 1⟩, [⟨2, 2, 2, 1⟩, ⟨1, 3, Gen.C12.defaultMax, 1⟩], 9, false, false⟩,
     ⟨[2, 1], .justify, ⟨0, 0, 0, 1⟩, [⟨1, 3, Gen.C12.defaultMax, 1⟩, ⟨2, 2, 2, 1⟩], 9, false, false⟩,
     ⟨[2, 3], .justify, ⟨0, 0, 0, 1⟩, [⟨1, 3, Gen.C12.defaultMax, 1⟩, ⟨4, 4, 4, 1⟩], 9, false, false⟩]
    = [.ok [2, 0, 7], .ok [7, 0, 2], .ok [5, 0, 4]] := by decide +kernel

/-! ### callable dimensions

  A callable `padding`, and callable `width=` / `height=` of windows and splits, are evaluated by
  `to_dimension` on every call (`toDimension_call`: a callable is what it returns NOW).  The
  children's dimensions are the `dims` of each call, i.e. already their current values
  (`session_history_independent` quantifies over them); for the padding the cached
  `_all_children` list holds `Window(height=self.padding)` with the callable itself, so the
  current value `call.pad` applies even on a cache hit (`padCall`). -/

/-- only the alignment is frozen in the cache of a split whose padding is a callable -/
def CacheAl (al : Align) (c : Cache) : Prop := ∀ key a p, c = some (key, a, p) → a = al

/-- **Callable dimensions are read at their current value**: on one split object whose padding
    is a callable (and whose `align` is not reassigned), every call answers what a fresh split
    with the CURRENT value of the padding callable and the current child dimensions answers —
    whatever the callable returned at construction time or at earlier calls. -/
theorem session_callable_current (fuel : Nat) (horizontal : Bool) (filler : Dim) (al : Align) :
    ∀ (calls : List Call) (c : Cache), CacheAl al c →
      (∀ call ∈ calls, call.al = al ∧ call.padCall = true) →
      runSession fuel horizontal filler c calls = calls.map (fresh fuel horizontal filler) := by
  intro calls
  induction calls with
  | nil => intro c _ _; rfl
  | cons call rest ih =>
    intro c hc hall
    obtain ⟨ha, hpc⟩ := hall call List.mem_cons_self
    have hl : lookup c call = (call.al, call.pad) := by
      unfold lookup
      rcases c with _ | ⟨key, a, p⟩
      · rfl
      · simp only
        split_ifs
        · rw [hc key a p rfl, ha]
        · rfl
    have hstep : (callSplit fuel horizontal filler c call).2 = fresh fuel horizontal filler call ∧
        CacheAl al (callSplit fuel horizontal filler c call).1 := by
      unfold callSplit fresh
      by_cases he : (horizontal && call.dims.isEmpty) = true
      · rw [if_pos he]
        simp only [Bool.and_eq_true] at he
        refine ⟨?_, hc⟩
        simp only [he.1, if_true]
        unfold divideH
        rw [if_pos he.2]
      · rw [if_neg he]
        simp only [hl]
        refine ⟨trivial, ?_⟩
        intro key a p h
        simp only [Option.some.injEq, Prod.mk.injEq] at h
        rw [← h.2.1, ha]
    simp only [runSession, List.map_cons, hstep.1]
    congr 1
    exact ih _ hstep.2 (fun c' hc' => hall c' (List.mem_cons_of_mem _ hc'))

/-- non-vacuity: the padding callable returns 0 at the first call and 2 afterwards; same children,
    same width 20: the paddings follow the current value (a padding frozen at construction time
    would give `[6, 0, 2, 0, 12]`) -/
example : runSession 400 false ⟨0, 0, Gen.C12.defaultMax, 1⟩ none
    [⟨[1, 2, 3], .justify, ⟨0, 0, 0, 1⟩, [⟨6, 6, 6, 1⟩, ⟨2, 2, 2, 1⟩, ⟨0, 0, Gen.C12.defaultMax, 1⟩], 20, false, true⟩,
     ⟨[1, 2, 3], .justify, ⟨2, 2, 2, 1⟩, [⟨6, 6, 6, 1⟩, ⟨2, 2, 2, 1⟩, ⟨0, 0, Gen.C12.defaultMax, 1⟩], 20, false, true⟩]
    = [.ok [6, 0, 2, 0, 12], .ok [6, 2, 2, 2, 8]] := by decide +kernel

/-! ### sessions with the proved fuel (`runSessionB`, what the driver runs) -/

/-- a single call with the proved fuel never runs out of fuel -/
theorem divideH_bound_no_hang {al : Align} {filler pad : Dim} {children : List Dim}
    (hf : filler.Valid) (hp : pad.Valid) (hc : ValidDims children) (avail : Nat) (done : Bool)
    {F : Nat} (hF : fuelBound (allChildren al filler pad children) avail ≤ F) :
    divideH F al filler pad children avail done ≠ .hang := by
  unfold divideH
  split_ifs
  · simp
  · exact divide_terminates_bound (allChildren_valid hf hp hc) avail _ hF

theorem divideV_bound_no_hang {al : Align} {filler pad : Dim} {children : List Dim}
    (hf : filler.Valid) (hp : pad.Valid) (hc : ValidDims children) (avail : Nat)
    {F : Nat} (hF : fuelBound (allChildren al filler pad children) avail ≤ F) :
    divideV F al filler pad children avail ≠ .hang := by
  unfold divideV
  simp only
  split_ifs
  · simp
  · exact divide_terminates_bound (allChildren_valid hf hp hc) avail _ hF

/-- the padding held by the cache is a valid dimension -/
def CacheValid (c : Cache) : Prop := ∀ key a p, c = some (key, a, p) → p.Valid

/-- **Sessions never run out of the proved fuel**: every call of a session on one object, run
    with `fuelBound` of the list it really divides, answers `None` or sizes — whatever alignment
    and padding the cache has frozen. -/
theorem runSessionB_no_hang (horizontal : Bool) {filler : Dim} (hf : filler.Valid) :
    ∀ (calls : List Call) (c : Cache), CacheValid c →
      (∀ call ∈ calls, call.pad.Valid ∧ ValidDims call.dims) →
      ∀ o ∈ runSessionB horizontal filler c calls, o ≠ .hang := by
  intro calls
  induction calls with
  | nil => intro c _ _ o ho; simp [runSessionB] at ho
  | cons call rest ih =>
    intro c hc hall o ho
    obtain ⟨hp, hd⟩ := hall call List.mem_cons_self
    have hpv : (lookup c call).2.Valid := by
      unfold lookup
      rcases c with _ | ⟨key, a, p⟩
      · exact hp
      · simp only
        split_ifs
        · exact hp
        · exact hc key a p rfl
        · exact hp
    -- what one call returns and leaves in the cache
    have hcall : (callSplitB horizontal filler c call).2 ≠ .hang ∧
        CacheValid (callSplitB horizontal filler c call).1 := by
      unfold callSplitB callSplit
      by_cases he : (horizontal && call.dims.isEmpty) = true
      · simp only [if_pos he]
        exact ⟨by simp, hc⟩
      · simp only [if_neg he]
        refine ⟨?_, ?_⟩
        · split_ifs
          · exact divideH_bound_no_hang hf hpv hd _ _ (le_refl _)
          · exact divideV_bound_no_hang hf hpv hd _ (le_refl _)
        · intro key a p h
          simp only [Option.some.injEq, Prod.mk.injEq] at h
          rw [← h.2.2]; exact hpv
    simp only [runSessionB, List.mem_cons] at ho
    rcases ho with rfl | ho
    · exact hcall.1
    · exact ih _ hcall.2 (fun c' hc' => hall c' (List.mem_cons_of_mem _ hc')) o ho

/-- `runSessionB` is `runSession` call by call with the proved fuel: under the proviso of
    `session_history_independent` it answers what fresh splits answer -/
theorem runSessionB_fresh (horizontal : Bool) (filler : Dim) (al : Align) (pad : Dim) :
    ∀ (calls : List Call) (c : Cache), CacheOK al pad c →
      (∀ call ∈ calls, call.al = al ∧ call.pad = pad) →
      runSessionB horizontal filler c calls = calls.map fun call =>
        fresh (fuelBound (allChildren call.al filler call.pad call.dims) call.avail)
          horizontal filler call := by
  intro calls
  induction calls with
  | nil => intro c _ _; rfl
  | cons call rest ih =>
    intro c hc hall
    obtain ⟨ha, hp⟩ := hall call List.mem_cons_self
    have hl := lookup_eq hc ha hp
    obtain ⟨h1, h2⟩ := callSplit_snd_eq_fresh hc
      (fuelBound (allChildren call.al filler call.pad call.dims) call.avail) horizontal filler ha hp
    simp only [runSessionB, callSplitB, List.map_cons, hl, h1]
    congr 1
    exact ih _ h2 (fun c' hc' => hall c' (List.mem_cons_of_mem _ hc'))

example : runSessionB false ⟨0, 0, Gen.C12.defaultMax, 1⟩ none
    [⟨[1, 2], .justify, ⟨0, 0, 0, 1⟩, [⟨2, 4, 6, 1⟩, ⟨1, 3, Gen.C12.defaultMax, 1⟩], 20, false, false⟩,
     ⟨[1, 2], .justify, ⟨0, 0, 0, 1⟩, [⟨8, 10, 12, 1⟩, ⟨1, 3, 5, 1⟩], 20, false, false⟩,
     ⟨[1, 2], .justify, ⟨0, 0, 0, 1⟩, [⟨15, 15, 15, 1⟩, ⟨10, 10, 10, 1⟩], 20, false, false⟩]
    = [.ok [6, 0, 14], .ok [12, 0, 5], .tooSmall] := by decide +kernel

end Ptk.C12
